#!/bin/bash
# MANIFEST.setup_cmd: build the whole Coq development from files on disk (offline), full .vo build.
cd "$(dirname "$0")"
mkdir -p .cache/numba coq/cases coq/Gen evidence
# regenerate the translator-written files from /repo's current tree (fail-closed translators)
if ls tools/translate_*.py >/dev/null 2>&1; then
  for t in tools/translate_*.py; do python3 "$t" || echo "setup: translator $t failed (the checks that need it will report it)"; done
fi
python3 - <<'PY'
import sys
sys.path.insert(0, "tools")
import vlib
vlib.write_coqproject()
PY
cd coq
coq_makefile -f _CoqProject -o Makefile || exit 1
timeout 3000 make -k -j16 > ../.cache/setup_make.log 2>&1
rc=$?
tail -5 ../.cache/setup_make.log
cd ..
# every claimed property's theorem file must have been built
python3 - <<'PY'
import json, os, sys
m = json.load(open("MANIFEST.json"))
missing = [c["property_id"] for c in m["checks"] if not os.path.exists("coq/Props/%s.vo" % c["property_id"])]
if missing:
    print("setup: Props not built for", missing)
    sys.exit(1)
print("setup: ok (%d claimed properties built)" % len(m["checks"]))
PY
