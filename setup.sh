#!/bin/bash
# MANIFEST.setup_cmd: build the whole Coq development from files on disk (offline), full .vo build.
set -e
cd "$(dirname "$0")"
mkdir -p .cache/numba coq/cases coq/Gen evidence
# regenerate the translator-written files from /repo's current tree (fail-closed translators)
if ls tools/translate_*.py >/dev/null 2>&1; then
  for t in tools/translate_*.py; do python3 "$t" || exit 1; done
fi
python3 - <<'PY'
import sys, os
sys.path.insert(0, "tools")
import vlib
vlib.write_coqproject()
PY
cd coq
coq_makefile -f _CoqProject -o Makefile
timeout 3000 make -j16
