(* C15 — proofs about the bounded exact counter model of Sketch/Bounded.v. *)
From Coq Require Import List ZArith NArith Arith Bool Lia ZifyBool.
From Outrank Require Import Sketch.Bounded.
Import ListNotations.
Open Scope Z_scope.

Definition keys (c : counter) : list N := map fst c.

Lemma get_incr c k : forall k', get (incr c k) k' = if N.eqb k' k then get c k + 1 else get c k'.
Proof.
  induction c as [|[k0 n0] c IH]; intros k'; cbn [incr get].
  - destruct (N.eqb k' k); reflexivity.
  - destruct (N.eqb_spec k k0) as [->|Hk]; cbn [get].
    + destruct (N.eqb_spec k' k0); [reflexivity|reflexivity].
    + rewrite IH. destruct (N.eqb_spec k' k0) as [->|H0]; [|reflexivity].
      destruct (N.eqb_spec k0 k); [congruence|reflexivity].
Qed.

Lemma keys_incr_in c k : forall k', In k' (keys (incr c k)) <-> k' = k \/ In k' (keys c).
Proof.
  induction c as [|[k0 n0] c IH]; intros k'; cbn [incr keys map fst In].
  - intuition.
  - destruct (N.eqb_spec k k0) as [->|Hk]; cbn [keys map fst In].
    + intuition.
    + fold (keys (incr c k)). rewrite IH. fold (keys c). intuition.
Qed.

Lemma keys_incr_nodup c k : NoDup (keys c) -> NoDup (keys (incr c k)).
Proof.
  induction c as [|[k0 n0] c IH]; intros H; cbn [incr keys map fst].
  - constructor; [intros []|constructor].
  - inversion H as [|a b Hnin Hnd]; subst. destruct (N.eqb_spec k k0) as [->|Hk]; cbn [keys map fst].
    + constructor; assumption.
    + constructor.
      * fold (keys (incr c k)). rewrite keys_incr_in. fold (keys c) in Hnin. intros [E|E]; [congruence|contradiction].
      * apply IH. exact Hnd.
Qed.

Lemma incr_length c k : (length c <= length (incr c k) <= S (length c))%nat.
Proof.
  induction c as [|[k0 n0] c IH]; cbn [incr length]; [lia|].
  destruct (N.eqb k k0); cbn [length]; lia.
Qed.

Lemma get_notin c k : ~ In k (keys c) -> get c k = 0.
Proof.
  induction c as [|[k0 n0] c IH]; cbn [get keys map fst In]; [reflexivity|]. intros H.
  destruct (N.eqb_spec k k0) as [->|Hk]; [tauto|]. apply IH. tauto.
Qed.

Lemma get_of_in c k n : NoDup (keys c) -> In (k, n) c -> get c k = n.
Proof.
  induction c as [|[k0 n0] c IH]; intros Hnd Hin; [contradiction|].
  cbn [keys map fst] in Hnd. inversion Hnd as [|a b Hnin Hnd']; subst. cbn [get].
  destruct Hin as [E|Hin].
  - inversion E; subst. now rewrite N.eqb_refl.
  - destruct (N.eqb_spec k k0) as [->|Hk]; [|now apply IH].
    exfalso. apply Hnin. apply in_map_iff. exists (k0, n). split; [reflexivity|exact Hin].
Qed.

Lemma occ_app v l l' : occ v (l ++ l') = occ v l + occ v l'.
Proof. unfold occ. rewrite count_occ_app. lia. Qed.
Lemma occ_single v k : occ v [k] = if N.eqb v k then 1 else 0.
Proof.
  unfold occ. cbn [count_occ]. destruct (N.eq_dec k v) as [->|H].
  - now rewrite N.eqb_refl.
  - destruct (N.eqb_spec v k); [congruence|reflexivity].
Qed.
Lemma occ_nonneg v l : 0 <= occ v l.
Proof. unfold occ. lia. Qed.
Lemma occ_pos_in v l : 1 <= occ v l -> In v l.
Proof. unfold occ. intros H. apply (count_occ_In N.eq_dec). lia. Qed.

Lemma distinct_app_le l l' : (distinct l <= distinct (l ++ l'))%nat.
Proof.
  unfold distinct. apply NoDup_incl_length; [apply NoDup_nodup|].
  intros x Hx. apply nodup_In in Hx. apply nodup_In. apply in_or_app. now left.
Qed.

(* the part of the invariant that holds for every stream *)
Definition P (l : list N) (c : counter) : Prop :=
  NoDup (keys c) /\ (forall k, In k (keys c) -> 1 <= get c k) /\ (forall k, get c k <= occ k l).

Lemma P_nil : P [] [].
Proof. repeat split; [constructor|intros k []|intros k; cbn; unfold occ; cbn; lia]. Qed.

Lemma P_get_nonneg l c k : P l c -> 0 <= get c k.
Proof.
  intros (Hnd & H1 & _). destruct (in_dec N.eq_dec k (keys c)) as [Hin|Hnin].
  - specialize (H1 k Hin). lia.
  - rewrite get_notin by exact Hnin. lia.
Qed.

Lemma P_incr l c k : P l c -> P (l ++ [k]) (incr c k).
Proof.
  intros HP. pose proof HP as (Hnd & H1 & H2). repeat split.
  - apply keys_incr_nodup. exact Hnd.
  - intros k' Hin. rewrite get_incr. apply keys_incr_in in Hin.
    destruct (N.eqb_spec k' k) as [->|Hk].
    + pose proof (P_get_nonneg l c k HP). lia.
    + destruct Hin as [E|Hin]; [congruence|]. now apply H1.
  - intros k'. rewrite get_incr, occ_app, occ_single.
    destruct (N.eqb_spec k' k) as [->|Hk]; [specialize (H2 k); lia|specialize (H2 k'); lia].
Qed.

Lemma P_weaken l l' c : P l c -> P (l ++ l') c.
Proof.
  intros (Hnd & H1 & H2). repeat split; try assumption.
  intros k. rewrite occ_app. pose proof (occ_nonneg k l'). specialize (H2 k). lia.
Qed.

Lemma P_fold vs : forall l c, P l c -> P (l ++ vs) (fold_left incr vs c).
Proof.
  induction vs as [|v vs IH]; intros l c H; cbn [fold_left]; [now rewrite app_nil_r|].
  replace (l ++ v :: vs) with ((l ++ [v]) ++ vs) by (rewrite <- app_assoc; reflexivity).
  apply IH. apply P_incr. exact H.
Qed.

Lemma P_len l c : P l c -> (length c <= distinct l)%nat.
Proof.
  intros (Hnd & H1 & H2). unfold distinct. replace (length c) with (length (keys c)) by apply map_length.
  apply NoDup_incl_length; [exact Hnd|]. intros k Hk. apply nodup_In. apply occ_pos_in.
  specialize (H1 k Hk). specialize (H2 k). lia.
Qed.

Section B.
  Variable bound : Z.
  Notation cadd := (cadd bound).
  Notation cbatch := (cbatch bound).
  Notation cstep := (cstep bound).
  Notation crun := (crun bound).
  Notation crun_ops := (crun_ops bound).
  Notation ctrace := (ctrace bound).

  Lemma P_step l c o : P l c -> P (l ++ cflat1 o) (cstep c o).
  Proof.
    intros H. destruct o as [v|vs]; cbn [Bounded.cstep cflat1]; unfold Bounded.cadd, Bounded.cbatch;
      destruct (Z.ltb_spec (Z.of_nat (length c)) bound).
    - now apply P_incr.
    - now apply P_weaken.
    - now apply P_fold.
    - now apply P_weaken.
  Qed.

  (* exactness part *)
  Definition E (l : list N) (c : counter) : Prop :=
    Z.of_nat (distinct l) < bound -> forall v, get c v = occ v l.

  Lemma exact_fold vs : forall l c, (forall v, get c v = occ v l) ->
    forall v, get (fold_left incr vs c) v = occ v (l ++ vs).
  Proof.
    induction vs as [|k vs IH]; intros l c H v; cbn [fold_left]; [now rewrite app_nil_r|].
    replace (l ++ k :: vs) with ((l ++ [k]) ++ vs) by (rewrite <- app_assoc; reflexivity).
    apply IH. intros v'. rewrite get_incr, occ_app, occ_single, !H.
    destruct (N.eqb_spec v' k) as [->|Hk]; lia.
  Qed.

  Lemma E_step l c o : P l c -> E l c -> E (l ++ cflat1 o) (cstep c o).
  Proof.
    intros HP HE Hd. pose proof (distinct_app_le l (cflat1 o)) as Hm.
    assert (Hd0 : Z.of_nat (distinct l) < bound) by lia. specialize (HE Hd0).
    pose proof (P_len l c HP) as Hlen.
    destruct o as [v|vs]; cbn [Bounded.cstep cflat1] in *; unfold Bounded.cadd, Bounded.cbatch;
      destruct (Z.ltb_spec (Z.of_nat (length c)) bound); try lia.
    - apply (exact_fold [v] l c HE).
    - apply (exact_fold vs l c HE).
  Qed.

  Lemma PE_fold ops : forall l c, P l c -> E l c ->
    P (l ++ cflat ops) (fold_left cstep ops c) /\ E (l ++ cflat ops) (fold_left cstep ops c).
  Proof.
    induction ops as [|o ops IH]; intros l c HP HE; cbn [fold_left cflat flat_map].
    - rewrite app_nil_r. now split.
    - rewrite app_assoc. apply IH; [now apply P_step|now apply E_step].
  Qed.

  Lemma E_nil : E [] [].
  Proof. intros _ v. reflexivity. Qed.

  Theorem ops_inv ops : P (cflat ops) (crun_ops ops) /\ E (cflat ops) (crun_ops ops).
  Proof. apply (PE_fold ops [] [] P_nil E_nil). Qed.

  Lemma crun_as_ops l : crun l = crun_ops (map CAdd l) /\ cflat (map CAdd l) = l.
  Proof.
    unfold Bounded.crun, Bounded.crun_ops. generalize (@nil (N * Z)). induction l as [|v l IH]; intros c; cbn [map fold_left cflat flat_map].
    - now split.
    - destruct (IH (cadd c v)) as [H1 H2]. cbn [Bounded.cstep]. rewrite H1. split; [reflexivity|].
      cbn [cflat1 app]. unfold cflat in H2. now rewrite H2.
  Qed.

  Theorem run_inv l : P l (crun l) /\ E l (crun l).
  Proof. destruct (crun_as_ops l) as [H1 H2]. rewrite H1. rewrite <- H2 at 1 3. apply ops_inv. Qed.

  (* never over-counts; also for mixed add/batch_add streams *)
  Theorem no_over l v : 0 <= get (crun l) v <= occ v l.
  Proof.
    destruct (run_inv l) as [HP _]. split; [apply (P_get_nonneg l _ v HP)|]. destruct HP as (_ & _ & H). apply H.
  Qed.
  Theorem no_over_ops ops v : 0 <= get (crun_ops ops) v <= occ v (cflat ops).
  Proof.
    destruct (ops_inv ops) as [HP _]. split; [apply (P_get_nonneg _ _ v HP)|]. destruct HP as (_ & _ & H). apply H.
  Qed.

  (* exact while fewer than [bound] distinct values have been seen *)
  Theorem exact l v : Z.of_nat (distinct l) < bound -> get (crun l) v = occ v l.
  Proof. intros H. destruct (run_inv l) as [_ HE]. now apply HE. Qed.
  Theorem exact_ops ops v : Z.of_nat (distinct (cflat ops)) < bound -> get (crun_ops ops) v = occ v (cflat ops).
  Proof. intros H. destruct (ops_inv ops) as [_ HE]. now apply HE. Qed.

  Lemma crun_snoc l x : crun (l ++ [x]) = cadd (crun l) x.
  Proof. unfold Bounded.crun. now rewrite fold_left_app. Qed.

  (* the arrival that makes the number of distinct values reach the bound is still counted *)
  Theorem exact_boundary l x v : Z.of_nat (distinct l) < bound -> get (crun (l ++ [x])) v = occ v (l ++ [x]).
  Proof.
    intros H. rewrite crun_snoc. destruct (run_inv l) as [HP HE]. specialize (HE H).
    pose proof (P_len l _ HP). unfold Bounded.cadd.
    destruct (Z.ltb_spec (Z.of_nat (length (crun l))) bound); [|lia].
    apply (exact_fold [x] l _ HE).
  Qed.

  (* never tracks more than [bound] distinct values (item-by-item feeding) *)
  Theorem size l : Z.of_nat (length (crun l)) <= Z.max bound 0 /\ NoDup (keys (crun l)).
  Proof.
    split; [|destruct (run_inv l) as [(H & _) _]; exact H].
    unfold Bounded.crun. assert (G : forall c, Z.of_nat (length c) <= Z.max bound 0 ->
      Z.of_nat (length (fold_left cadd l c)) <= Z.max bound 0).
    { induction l as [|v l IH]; intros c H; cbn [fold_left]; [exact H|]. apply IH.
      unfold Bounded.cadd. destruct (Z.ltb_spec (Z.of_nat (length c)) bound); [|exact H].
      pose proof (incr_length c v). lia. }
    apply G. cbn. lia.
  Qed.

  (* once the bound is reached every further update is refused *)
  Theorem frozen l l' : bound <= Z.of_nat (length (crun l)) -> crun (l ++ l') = crun l.
  Proof.
    intros H. unfold Bounded.crun. rewrite fold_left_app. fold (crun l). generalize dependent (crun l).
    induction l' as [|v l' IH]; intros c H; cbn [fold_left]; [reflexivity|].
    unfold Bounded.cadd at 2. destruct (Z.ltb_spec (Z.of_nat (length c)) bound); [lia|]. now apply IH.
  Qed.

  (* ---- the checker: soundness and the model passes it ---- *)
  Lemma nodupkeys_sound c : nodupkeys c = true -> NoDup (keys c).
  Proof.
    induction c as [|[k n] c IH]; cbn [nodupkeys keys map fst]; [constructor|]. intros H.
    apply andb_prop in H. destruct H as [H1 H2]. constructor; [|now apply IH].
    intros Hin. apply in_map_iff in Hin. destruct Hin as (e & He & Hin).
    apply negb_true_iff in H1. assert (X : existsb (fun e => N.eqb k (fst e)) c = true).
    { apply existsb_exists. exists e. split; [exact Hin|]. rewrite He. apply N.eqb_refl. }
    congruence.
  Qed.
  Lemma nodupkeys_complete c : NoDup (keys c) -> nodupkeys c = true.
  Proof.
    induction c as [|[k n] c IH]; cbn [nodupkeys keys map fst]; [reflexivity|]. intros H.
    inversion H as [|a b Hnin Hnd]; subst. rewrite IH by exact Hnd. rewrite andb_true_r.
    apply negb_true_iff. destruct (existsb _ c) eqn:X; [|reflexivity].
    apply existsb_exists in X. destruct X as (e & Hin & He). apply N.eqb_eq in He. exfalso. apply Hnin.
    apply in_map_iff. exists e. split; [now symmetry|exact Hin].
  Qed.

  Definition cclause (univ : list N) (single : bool) (l : list N) (c : counter) : Prop :=
    NoDup (keys c) /\
    (forall v, 0 <= get c v <= occ v l) /\
    (Z.of_nat (distinct l) < bound -> forall v, In v (univ ++ l) -> get c v = occ v l) /\
    (single = true -> Z.of_nat (length c) <= Z.max bound 0).

  Theorem ccheck1_sound univ single l c : ccheck1 bound univ single l c = true -> cclause univ single l c.
  Proof.
    unfold ccheck1, cclause. intros H.
    apply andb_prop in H. destruct H as [H H4]. apply andb_prop in H. destruct H as [H H3].
    apply andb_prop in H. destruct H as [H1 H2]. apply nodupkeys_sound in H1. rewrite forallb_forall in H2.
    repeat split.
    - exact H1.
    - destruct (in_dec N.eq_dec v (keys c)) as [Hin|Hnin]; [|rewrite get_notin by exact Hnin; lia].
      apply in_map_iff in Hin. destruct Hin as ([k n] & Hk & Hin). cbn [fst] in Hk. subst k.
      rewrite (get_of_in c v n H1 Hin). specialize (H2 _ Hin). cbn [fst snd] in H2. lia.
    - destruct (in_dec N.eq_dec v (keys c)) as [Hin|Hnin]; [|rewrite get_notin by exact Hnin; apply occ_nonneg].
      apply in_map_iff in Hin. destruct Hin as ([k n] & Hk & Hin). cbn [fst] in Hk. subst k.
      rewrite (get_of_in c v n H1 Hin). specialize (H2 _ Hin). cbn [fst snd] in H2. lia.
    - intros Hd v Hv. destruct (Z.ltb_spec (Z.of_nat (distinct l)) bound); [|lia].
      rewrite forallb_forall in H3. specialize (H3 v Hv). lia.
    - intros ->. lia.
  Qed.

  Lemma ccheck1_model univ single l c : P l c -> E l c ->
    (single = true -> Z.of_nat (length c) <= Z.max bound 0) -> ccheck1 bound univ single l c = true.
  Proof.
    intros HP HE HS. pose proof HP as (Hnd & H1 & H2). unfold ccheck1.
    rewrite (nodupkeys_complete c Hnd). cbn [andb].
    apply andb_true_intro. split; [apply andb_true_intro; split|].
    - apply forallb_forall. intros [k n] Hin. cbn [fst snd].
      pose proof (get_of_in c k n Hnd Hin) as Eg.
      assert (Hk : In k (keys c)) by (apply in_map_iff; exists (k, n); split; [reflexivity|exact Hin]).
      specialize (H1 k Hk). specialize (H2 k). lia.
    - destruct (Z.ltb_spec (Z.of_nat (distinct l)) bound) as [Hd|Hd]; [|reflexivity].
      apply forallb_forall. intros v _. rewrite (HE Hd v). lia.
    - destruct single; [|reflexivity]. specialize (HS eq_refl). lia.
  Qed.

  Lemma ccheckb_model univ ops : forall single l c, P l c -> E l c ->
    (single = true -> Z.of_nat (length c) <= Z.max bound 0) ->
    forallb (fun b => b) (ccheckb bound univ single l ops (ctrace c ops)) = true.
  Proof.
    induction ops as [|o ops IH]; intros single l c HP HE HS; cbn [Bounded.ctrace ccheckb forallb]; [reflexivity|].
    assert (HS' : single && match o with CAdd _ => true | CBatch _ => false end = true ->
                  Z.of_nat (length (cstep c o)) <= Z.max bound 0).
    { intros Hs. apply andb_prop in Hs. destruct Hs as [Hs Ho]. specialize (HS Hs).
      destruct o as [v|vs]; [|discriminate]. cbn [Bounded.cstep]. unfold Bounded.cadd.
      destruct (Z.ltb_spec (Z.of_nat (length c)) bound); [|exact HS]. pose proof (incr_length c v). lia. }
    rewrite ccheck1_model; [|now apply P_step|now apply E_step|exact HS']. cbn [andb].
    apply IH; [now apply P_step|now apply E_step|exact HS'].
  Qed.

  Theorem cmodel_ok univ ops :
    forallb (fun b => b) (ccheckb bound univ true [] ops (ctrace [] ops)) = true.
  Proof. apply ccheckb_model; [apply P_nil|apply E_nil|intros _; cbn; lia]. Qed.
End B.

(* batch_add can overshoot the bound: the size clause is about item-by-item feeding only *)
Theorem batch_size_refuted : exists bound ops,
  Z.of_nat (length (crun_ops bound ops)) > Z.max bound 0.
Proof. exists 1, [CBatch [1%N; 2%N; 3%N]]. vm_compute. reflexivity. Qed.

(* "fewer than": with exactly [bound] distinct values seen, a repeat is already refused *)
Theorem exact_at_bound_refuted : exists bound l v,
  Z.of_nat (distinct l) = bound /\ get (crun bound l) v <> occ v l.
Proof. exists 2, [1%N; 2%N; 1%N], 1%N. vm_compute. split; [reflexivity|discriminate]. Qed.
