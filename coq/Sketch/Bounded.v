(* C15 — executable model of PrimitiveConstrainedCounter
   (outrank/algorithms/sketches/counting_counters_ordinary.py).  No proofs here.

   default_counter is a collections.Counter: an insertion-ordered association list key -> count.
   Keys are harness-assigned ids (equality of ids = Python equality of the values). *)
From Coq Require Import List ZArith NArith Arith Bool.
Import ListNotations.
Open Scope Z_scope.

Definition counter := list (N * Z).

Fixpoint get (c : counter) (k : N) : Z :=
  match c with
  | [] => 0
  | (k', n) :: r => if N.eqb k k' then n else get r k
  end.

(* self.default_counter[val] += 1 *)
Fixpoint incr (c : counter) (k : N) : counter :=
  match c with
  | [] => [(k, 1)]
  | (k', n) :: r => if N.eqb k k' then (k', n + 1) :: r else (k', n) :: incr r k
  end.

Section Bounded.
  Variable bound : Z.                         (* max_bound_thr; any integer *)

  (* add(val): if len(self.default_counter) < self.max_bound_thr: self.default_counter[val] += 1 *)
  Definition cadd (c : counter) (v : N) : counter :=
    if Z.of_nat (length c) <? bound then incr c v else c.

  (* batch_add(lst): if len(...) < bound: default_counter = default_counter + Counter(lst)
     (all counts are positive, so Counter.__add__ is the key-wise sum, existing keys first) *)
  Definition cbatch (c : counter) (vs : list N) : counter :=
    if Z.of_nat (length c) <? bound then fold_left incr vs c else c.

  Inductive cop := CAdd (v : N) | CBatch (vs : list N).
  Definition cstep (c : counter) (o : cop) : counter :=
    match o with CAdd v => cadd c v | CBatch vs => cbatch c vs end.

  (* fed item by item *)
  Definition crun (l : list N) : counter := fold_left cadd l [].
  Definition crun_ops (ops : list cop) : counter := fold_left cstep ops [].

  Fixpoint ctrace (c : counter) (ops : list cop) : list counter :=
    match ops with
    | [] => []
    | o :: r => let c' := cstep c o in c' :: ctrace c' r
    end.

  (* ---- specification side ---- *)
  Definition occ (v : N) (l : list N) : Z := Z.of_nat (count_occ N.eq_dec l v).
  Definition distinct (l : list N) : nat := length (nodup N.eq_dec l).
  Definition cflat1 (o : cop) : list N := match o with CAdd v => [v] | CBatch vs => vs end.
  Definition cflat (ops : list cop) : list N := flat_map cflat1 ops.
  Definition item_by_item (ops : list cop) : bool :=
    forallb (fun o => match o with CAdd _ => true | CBatch _ => false end) ops.

  (* ---- property-level checker on the IMPLEMENTATION's default_counter after every prefix ---- *)
  Fixpoint nodupkeys (c : counter) : bool :=
    match c with [] => true | (k, _) :: r => negb (existsb (fun e => N.eqb k (fst e)) r) && nodupkeys r end.

  Definition ccheck1 (univ : list N) (single : bool) (l : list N) (c : counter) : bool :=
    nodupkeys c &&
    forallb (fun e => (1 <=? snd e) && (snd e <=? occ (fst e) l)) c &&          (* never over-counts *)
    (if Z.of_nat (distinct l) <? bound
     then forallb (fun v => get c v =? occ v l) (univ ++ l) else true) &&        (* exact under the bound *)
    (if single then Z.of_nat (length c) <=? Z.max bound 0 else true).            (* size, item-by-item streams *)

  Fixpoint ccheckb (univ : list N) (single : bool) (l : list N) (ops : list cop) (o : list counter) : list bool :=
    match ops, o with
    | op1 :: r, c :: o' =>
        let l' := l ++ cflat1 op1 in
        let single' := single && match op1 with CAdd _ => true | CBatch _ => false end in
        ccheck1 univ single' l' c :: ccheckb univ single' l' r o'
    | _, _ => []
    end.
End Bounded.
