(* C14 — meaning over R of the linear-counting term returned by __len__ in the cold phase, and the
   conditional 2 % window: the estimate is within 2 % of n as soon as the number z of empty registers
   lies in the window  m e^(-1.02 n/m) <= z <= m e^(-(0.98 n + 1)/m).
   Whether z lies there is a property of the hash function on the inserted set (see C14_hash_matters);
   the harness measures z on the generated value families. *)
From Coq Require Import Reals Lra Lia ZArith NArith List.
From Outrank Require Import Sketch.HLL Sketch.HLLProofs.
Open Scope R_scope.

(* np.ceil *)
Definition ceilZ (x : R) : Z := (1 - up (- x))%Z.

Lemma ceilZ_spec x : IZR (ceilZ x) - 1 < x <= IZR (ceilZ x).
Proof. unfold ceilZ. destruct (archimed (- x)) as [H1 H2]. rewrite minus_IZR. lra. Qed.

(* int(np.ceil(m * np.log(m / z))) - 1 *)
Definition LC (m z : R) : R := IZR (ceilZ (m * ln (m / z))) - 1.

(* __len__ as a real number: exact size while warm; 2^p when no register is empty; LC otherwise *)
Definition lenR (p : N) (t : lent) : R :=
  match t with
  | Exact n => INR n
  | Est z => if N.eqb z 0 then IZR (Z.of_N (2 ^ p)) else LC (IZR (Z.of_N (2 ^ p))) (IZR (Z.of_N z))
  end.

Lemma ln_le' x y : 0 < x -> x <= y -> ln x <= ln y.
Proof. intros Hx [H|H]; [left; now apply ln_increasing|right; now f_equal]. Qed.

Theorem LC_window m z n : 0 < m -> 0 < z ->
  m * exp (- (102 / 100 * n) / m) <= z -> z <= m * exp (- (98 / 100 * n + 1) / m) ->
  Rabs (LC m z - n) <= 2 / 100 * n.
Proof.
  intros Hm Hz H1 H2.
  assert (E : ln (m / z) = ln m - ln z).
  { unfold Rdiv. rewrite ln_mult; [|exact Hm|now apply Rinv_0_lt_compat]. rewrite ln_Rinv by exact Hz. lra. }
  assert (U : m * ln (m / z) <= 102 / 100 * n).
  { assert (L : ln (m * exp (- (102 / 100 * n) / m)) <= ln z).
    { apply ln_le'; [|exact H1]. apply Rmult_lt_0_compat; [exact Hm|apply exp_pos]. }
    rewrite ln_mult, ln_exp in L by (try exact Hm; apply exp_pos).
    rewrite E. replace (102 / 100 * n) with (m * ((102 / 100 * n) / m)) by (field; lra).
    apply Rmult_le_compat_l; [lra|]. unfold Rdiv in *. lra. }
  assert (D : 98 / 100 * n + 1 <= m * ln (m / z)).
  { assert (L : ln z <= ln (m * exp (- (98 / 100 * n + 1) / m))) by (apply ln_le'; assumption).
    rewrite ln_mult, ln_exp in L by (try exact Hm; apply exp_pos).
    rewrite E. replace (98 / 100 * n + 1) with (m * ((98 / 100 * n + 1) / m)) by (field; lra).
    apply Rmult_le_compat_l; [lra|]. unfold Rdiv in *. lra. }
  unfold LC. pose proof (ceilZ_spec (m * ln (m / z))) as [C1 C2].
  apply Rabs_le. lra.
Qed.

(* the window, read on the model: z = m - #touched buckets, n = number of distinct inserted values *)
Theorem window_2pct p W width hash l :
  (forall v, (0 < rho p width hash v)%N) -> (W < distinct l)%nat ->
  let n := INR (distinct l) in
  let mR := IZR (Z.of_N (2 ^ p)) in
  let z := IZR (Z.of_N (2 ^ p - N.of_nat (touched p hash l))) in
  0 < z ->
  mR * exp (- (102 / 100 * n) / mR) <= z -> z <= mR * exp (- (98 / 100 * n + 1) / mR) ->
  Rabs (lenR p (len (run p W width hash l)) - n) <= 2 / 100 * n.
Proof.
  intros Hpos Hd n mR z Hz H1 H2.
  rewrite (estimate p W width hash l Hpos Hd). unfold HLL.m. cbn [lenR].
  destruct (N.eqb_spec (2 ^ p - N.of_nat (touched p hash l)) 0) as [E0|E0].
  - exfalso. unfold z in Hz. rewrite E0 in Hz. simpl in Hz. lra.
  - apply LC_window; try assumption. unfold mR. apply IZR_lt.
    assert (H : (2 ^ p <> 0)%N) by (apply N.pow_nonzero; lia). lia.
Qed.
