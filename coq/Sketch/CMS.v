From Coq Require Import List ZArith Lia Arith Bool ZifyBool.
Import ListNotations.
Open Scope Z_scope.

(* count-min sketch as a function row -> column -> Z; loc is ANY hash (Section oracle) *)
Section CMS.
  Variable item : Type.
  Variable depth : nat.
  Variable width : nat.
  Variable loc : nat -> item -> nat.            (* cms_hash(x, seeds[i], width) *)
  Hypothesis loc_lt : forall i x, (loc i x < width)%nat.
  Variable ieqb : item -> item -> bool.
  Hypothesis ieqb_spec : forall a b, ieqb a b = true <-> a = b.

  Definition mat := nat -> nat -> Z.
  Definition upd (M : mat) (x : item) (d : Z) : mat :=
    fun i j => if (i <? depth)%nat && (j =? loc i x)%nat then M i j + d else M i j.
  Definition run (ops : list (item * Z)) : mat := fold_left (fun M op => upd M (fst op) (snd op)) ops (fun _ _ => 0).
  Definition true_weight (x : item) (ops : list (item * Z)) : Z :=
    fold_right (fun op a => if ieqb (fst op) x then snd op + a else a) 0 ops.
  Definition total (ops : list (item * Z)) : Z := fold_right (fun op a => snd op + a) 0 ops.
  Definition nonneg (ops : list (item * Z)) := Forall (fun op => 0 <= snd op) ops.
  Fixpoint rowsum (M : mat) (i : nat) (w : nat) : Z := match w with O => 0 | S k => M i k + rowsum M i k end.

  (* cell-level characterisation: cell (i, j) holds the total weight of the items hashing to it *)
  Definition cell_weight (i j : nat) (ops : list (item * Z)) : Z :=
    fold_right (fun op a => if (j =? loc i (fst op))%nat then snd op + a else a) 0 ops.

  Lemma run_cell ops : forall M0 i j, (i < depth)%nat ->
    fold_left (fun M op => upd M (fst op) (snd op)) ops M0 i j = M0 i j + cell_weight i j ops.
  Proof.
    induction ops as [|[x d] ops IH]; intros M0 i j Hi; cbn [fold_left cell_weight fold_right fst snd]; [lia|].
    rewrite IH by exact Hi. unfold upd. apply Nat.ltb_lt in Hi. rewrite Hi. cbn [andb]. unfold cell_weight.
    destruct (j =? loc i x)%nat; lia.
  Qed.

  Lemma cell_ge_true ops x i : nonneg ops -> true_weight x ops <= cell_weight i (loc i x) ops.
  Proof.
    induction 1 as [|[y d] ops Hd _ IH]; cbn [true_weight cell_weight fold_right fst snd] in *; [lia|].
    destruct (ieqb y x) eqn:E.
    - apply ieqb_spec in E. subst y. rewrite Nat.eqb_refl. fold (true_weight x ops). fold (cell_weight i (loc i x) ops). lia.
    - fold (true_weight x ops). fold (cell_weight i (loc i x) ops). destruct (loc i x =? loc i y)%nat; lia.
  Qed.
  Lemma cell_le_total ops i j : nonneg ops -> cell_weight i j ops <= total ops.
  Proof.
    induction 1 as [|[y d] ops Hd _ IH]; cbn [total cell_weight fold_right fst snd] in *; [lia|].
    fold (cell_weight i j ops). fold (total ops). destruct (j =? loc i y)%nat; lia.
  Qed.

  (* C15_lower / C15_upper for every row, hence for the minimum over rows *)
  Theorem cms_bounds ops x i : nonneg ops -> (i < depth)%nat ->
    true_weight x ops <= run ops i (loc i x) <= total ops.
  Proof.
    intros Hn Hi. unfold run. rewrite run_cell by exact Hi. cbn.
    pose proof (cell_ge_true ops x i Hn). pose proof (cell_le_total ops i (loc i x) Hn). lia.
  Qed.

  (* C15_rows: each row sums to the total weight *)
  Lemma below_S i k ops :
    fold_right (fun op a => if (k =? loc i (fst op))%nat then snd op + a else a) 0 ops
    + fold_right (fun op a => if (loc i (fst op) <? k)%nat then snd op + a else a) 0 ops
    = fold_right (fun op a => if (loc i (fst op) <? S k)%nat then snd op + a else a) 0 ops.
  Proof.
    induction ops as [|[y d] ops IHo]; cbn [fold_right fst snd]; [reflexivity|].
    rewrite <- IHo.
    repeat match goal with |- context [if ?b then _ else _] => destruct b eqn:? end; lia.
  Qed.
  Lemma rowsum_cell i ops : forall w, rowsum (fun i j => cell_weight i j ops) i w
     = fold_right (fun op a => if (loc i (fst op) <? w)%nat then snd op + a else a) 0 ops.
  Proof.
    induction w as [|k IH]; cbn [rowsum].
    - induction ops as [|op ops IHo]; cbn [fold_right]; [reflexivity|]. exact IHo.
    - rewrite IH. unfold cell_weight. apply below_S.
  Qed.
  Theorem cms_rowsum ops i : (i < depth)%nat -> rowsum (run ops) i width = total ops.
  Proof.
    intros Hi.
    assert (E : forall w, rowsum (run ops) i w = rowsum (fun i j => cell_weight i j ops) i w).
    { induction w as [|k IH]; cbn [rowsum]; [reflexivity|]. rewrite IH. unfold run. rewrite run_cell by exact Hi. lia. }
    rewrite E, rowsum_cell. clear E. unfold total. induction ops as [|[y d] ops IH]; cbn [fold_right fst snd]; [reflexivity|].
    rewrite IH. pose proof (loc_lt i y) as Hl.
    repeat match goal with |- context [if ?b then _ else _] => destruct b eqn:? end; lia.
  Qed.
End CMS.
Print Assumptions cms_bounds.
Print Assumptions cms_rowsum.
