(* C15 — executable model of outrank/algorithms/sketches/counting_cms.py (CountMinSketch).
   No proofs here: the model must still run when a proof breaks.

   Items are harness-assigned ids (N): equality of ids = Python equality of the items.
   [pre i x] is the hash oracle: the value  x_hash + seed_i  that cms_hash computes before the
   final  % width ; it is a Section variable and the theorems hold for EVERY function.
   The matrix is the dense depth x width array of the code, as list (list Z).
   int32 wrap-around is outside the property: cells are Z. *)
From Coq Require Import List ZArith NArith Arith Bool.
Import ListNotations.
Open Scope Z_scope.

Section CMS.
  Variable depth width : nat.
  Variable pre : nat -> N -> N.

  (* cms_hash(x, hash_seeds[i], width) *)
  Definition loc (i : nat) (x : N) : nat := N.to_nat (pre i x mod N.of_nat width).

  Definition matrix := list (list Z).

  (* M[i, location] += delta, one row *)
  Fixpoint bump (row : list Z) (j : nat) (d : Z) : list Z :=
    match row, j with
    | [], _ => []
    | a :: r, O => (a + d) :: r
    | a :: r, S k => a :: bump r k d
    end.

  (* for i in prange(depth): ...   (prange without parallel=True is range) *)
  Fixpoint add_rows (i : nat) (M : matrix) (x : N) (d : Z) : matrix :=
    match M with
    | [] => []
    | row :: rest => bump row (loc i x) d :: add_rows (S i) rest x d
    end.

  Definition add (M : matrix) (x : N) (d : Z) : matrix := add_rows 0 M x d.

  (* np.zeros((depth, width)) *)
  Definition init : matrix := repeat (repeat 0 width) depth.

  (* add(x, delta)  |  batch_add(lst, delta) = for x in lst: add(x, delta) *)
  Inductive op := Add (x : N) (d : Z) | Batch (xs : list N) (d : Z).

  Definition step (M : matrix) (o : op) : matrix :=
    match o with
    | Add x d => add M x d
    | Batch xs d => fold_left (fun M x => add M x d) xs M
    end.

  Definition run (ops : list op) : matrix := fold_left step ops init.

  (* the matrix after every prefix *)
  Fixpoint trace (M : matrix) (ops : list op) : list matrix :=
    match ops with
    | [] => []
    | o :: r => let M' := step M o in M' :: trace M' r
    end.

  Definition cell (M : matrix) (i j : nat) : Z := nth j (nth i M []) 0.

  Fixpoint minl (a : Z) (l : list Z) : Z :=
    match l with [] => a | b :: r => minl (Z.min a b) r end.

  (* M[i][cms_hash(x, hash_seeds[i], width)] for i in range(depth) *)
  Definition probes (M : matrix) (x : N) : list Z := map (fun i => cell M i (loc i x)) (seq 0 depth).

  (* min(...) ; Python raises on an empty sequence (depth = 0) -> None *)
  Definition query (M : matrix) (x : N) : option Z :=
    match probes M x with
    | [] => None
    | a :: r => Some (minl a r)
    end.

  (* ---- specification side: the stream of (item, weight) an op list stands for ---- *)
  Definition flat1 (o : op) : list (N * Z) :=
    match o with Add x d => [(x, d)] | Batch xs d => map (fun x => (x, d)) xs end.
  Definition flat (ops : list op) : list (N * Z) := flat_map flat1 ops.

  Definition true_weight (x : N) (s : list (N * Z)) : Z :=
    fold_right (fun e a => if N.eqb (fst e) x then snd e + a else a) 0 s.
  Definition total (s : list (N * Z)) : Z := fold_right (fun e a => snd e + a) 0 s.
  Definition nonneg (s : list (N * Z)) : Prop := Forall (fun e => 0 <= snd e) s.
  Definition sumz (l : list Z) : Z := fold_right Z.add 0 l.
  Definition rowsum (M : matrix) (i : nat) : Z := sumz (nth i M []).
  (* total weight of the stream elements that hash to column j in row i *)
  Definition cell_weight (i j : nat) (s : list (N * Z)) : Z :=
    fold_right (fun e a => if Nat.eqb j (loc i (fst e)) then snd e + a else a) 0 s.

  (* ---- observable printed for the harness, after every prefix:
          queries of the listed items, the listed cells, the row sums, the shape ---- *)
  Definition oz (o : option Z) : Z := match o with Some q => q | None => -1 end.
  Definition obs1 (items : list N) (cells : list (N * N)) (M : matrix) : list Z * list Z * list Z * bool :=
    (map (fun x => oz (query M x)) items,
     map (fun ij => cell M (N.to_nat (fst ij)) (N.to_nat (snd ij))) cells,
     map (fun i => rowsum M i) (seq 0 depth),
     Nat.eqb (length M) depth && forallb (fun r => Nat.eqb (length r) width) M).
  (* computed on the fly, so that earlier matrices need not be kept *)
  Fixpoint obs_from (items : list N) (cells : list (N * N)) (M : matrix) (ops : list op) :=
    match ops with
    | [] => []
    | o :: r => let M' := step M o in obs1 items cells M' :: obs_from items cells M' r
    end.
  Definition obs (items : list N) (cells : list (N * N)) (ops : list op) := obs_from items cells init ops.

  (* ---- property-level checker evaluated on what the IMPLEMENTATION returned:
          per prefix the queries of [items] and the row sums ---- *)
  Definition check1 (items : list N) (s : list (N * Z)) (qs rs : list Z) : bool :=
    let t := total s in
    Nat.eqb (length qs) (length items) &&
    forallb (fun xq => (true_weight (fst xq) s <=? snd xq) && (snd xq <=? t)) (combine items qs) &&
    Nat.eqb (length rs) depth &&
    forallb (fun r => r =? t) rs.

  Fixpoint checkb (items : list N) (s : list (N * Z)) (ops : list op) (o : list (list Z * list Z)) : bool :=
    match ops, o with
    | [], [] => true
    | op1 :: r, (qs, rs) :: o' =>
        let s' := s ++ flat1 op1 in
        check1 items s' qs rs && checkb items s' r o'
    | _, _ => false
    end.

  (* per-prefix verdicts, to cut a failing stream at its first failing prefix *)
  Fixpoint verdicts (items : list N) (s : list (N * Z)) (ops : list op) (o : list (list Z * list Z)) : list bool :=
    match ops, o with
    | op1 :: r, (qs, rs) :: o' =>
        let s' := s ++ flat1 op1 in
        check1 items s' qs rs :: verdicts items s' r o'
    | _, _ => []
    end.
End CMS.
