(* C14 — proofs about the HyperLogLog-with-warm-up model of Sketch/HLL.v.
   Everything is proved for an arbitrary hash oracle, arbitrary p, warm-up capacity and width. *)
From Coq Require Import List NArith ZArith Arith Bool Lia ZifyBool Permutation FinFun.
From Outrank Require Import Sketch.HLL.
Import ListNotations.

(* ---- list lemmas ---- *)
Lemma updl_length r : forall j x, length (updl r j x) = length r.
Proof. induction r as [|a r IH]; intros [|j] x; cbn [updl length]; try reflexivity. now rewrite IH. Qed.

Lemma updl_nth r : forall j i x, (j < length r)%nat ->
  nth i (updl r j x) 0%N = if Nat.eqb i j then N.max (nth i r 0%N) x else nth i r 0%N.
Proof.
  induction r as [|a r IH]; intros j i x H; cbn [length] in H; [lia|].
  destruct j as [|j]; destruct i as [|i]; cbn [updl nth Nat.eqb]; try reflexivity.
  apply IH. lia.
Qed.

Lemma repeat_nth0 n : forall k, nth k (repeat 0%N n) 0%N = 0%N.
Proof. induction n as [|n IH]; intros [|k]; cbn [repeat nth]; try reflexivity. apply IH. Qed.

Lemma list_as_map {A} (d : A) (r : list A) : r = map (fun j => nth j r d) (seq 0 (length r)).
Proof.
  induction r as [|a r IH]; cbn [length seq map nth]; [reflexivity|].
  f_equal. rewrite <- seq_shift, map_map. exact IH.
Qed.

Lemma filter_map_comm {A B} (f : B -> bool) (g : A -> B) l :
  filter f (map g l) = map g (filter (fun a => f (g a)) l).
Proof. induction l as [|a l IH]; cbn [map filter]; [reflexivity|]. destruct (f (g a)); cbn [map]; now rewrite IH. Qed.

Lemma filter_negb_length {A} (f : A -> bool) l :
  (length (filter (fun a => negb (f a)) l) + length (filter f l) = length l)%nat.
Proof. induction l as [|a l IH]; cbn [filter length]; [reflexivity|]. destruct (f a); cbn [negb length]; lia. Qed.

Lemma NoDup_filter' {A} (f : A -> bool) l : NoDup l -> NoDup (filter f l).
Proof.
  induction 1 as [|a l Hnin Hnd IH]; cbn [filter]; [constructor|].
  destruct (f a); [|exact IH]. constructor; [|exact IH]. intros H. apply filter_In in H. tauto.
Qed.

Lemma last_cons_default {A} (y : A) o : forall d, last (y :: o) d = last o y.
Proof.
  revert y. induction o as [|z o IH]; intros y d; [reflexivity|].
  change (last (y :: z :: o) d) with (last (z :: o) d). rewrite (IH z d), (IH z y). reflexivity.
Qed.

(* the touched buckets, counted two ways *)
Lemma touched_count (B : list nat) n : (forall b, In b B -> b < n)%nat ->
  length (filter (fun j => existsb (Nat.eqb j) B) (seq 0 n)) = length (nodup Nat.eq_dec B).
Proof.
  intros HB. apply Nat.le_antisymm; apply NoDup_incl_length.
  - apply NoDup_filter'. apply seq_NoDup.
  - intros j Hj. apply filter_In in Hj. destruct Hj as [_ Hj]. apply existsb_exists in Hj.
    destruct Hj as (b & Hb & E). apply Nat.eqb_eq in E. subst. now apply nodup_In.
  - apply NoDup_nodup.
  - intros b Hb. apply nodup_In in Hb. apply filter_In. split.
    + apply in_seq. specialize (HB b Hb). lia.
    + apply existsb_exists. exists b. split; [exact Hb|apply Nat.eqb_refl].
Qed.

Section P.
  Variable p : N.
  Variable W : nat.
  Variable width : N.
  Variable hash : N -> N.

  Notation m := (m p).
  Notation mn := (mn p).
  Notation bucket := (bucket p hash).
  Notation rho := (rho p width hash).
  Notation upd := (upd p width hash).
  Notation zero := (zero p).
  Notation convert := (convert p width hash).
  Notation add := (add p W width hash).
  Notation run := (run p W width hash).
  Notation trace := (trace p W width hash).
  Notation maxrank := (maxrank p width hash).
  Notation touched := (touched p hash).
  Notation lenZ := (lenZ).

  Lemma bucket_lt v : (bucket v < mn)%nat.
  Proof.
    unfold HLL.bucket, HLL.mn, HLL.m. rewrite N.sub_1_r, <- N.ones_equiv, N.land_ones.
    assert (H : (2 ^ p <> 0)%N) by (apply N.pow_nonzero; lia).
    pose proof (N.mod_lt (hash v) (2 ^ p) H). lia.
  Qed.

  Lemma mem_In v s : mem v s = true <-> In v s.
  Proof.
    unfold mem. rewrite existsb_exists. split.
    - intros [x [H E]]. apply N.eqb_eq in E. now subst.
    - intros H. exists v. split; [exact H|apply N.eqb_refl].
  Qed.

  Lemma upd_length r v : length (upd r v) = length r.
  Proof. unfold HLL.upd. apply updl_length. Qed.

  Lemma upd_nth r v j : length r = mn ->
    nth j (upd r v) 0%N = if Nat.eqb j (bucket v) then N.max (nth j r 0%N) (rho v) else nth j r 0%N.
  Proof. intros H. unfold HLL.upd. apply updl_nth. rewrite H. apply bucket_lt. Qed.

  Lemma fold_upd s : forall r, length r = mn ->
    length (fold_left upd s r) = mn /\
    forall j, nth j (fold_left upd s r) 0%N = N.max (nth j r 0%N) (maxrank j s).
  Proof.
    induction s as [|v s IH]; intros r Hr; cbn [fold_left HLL.maxrank].
    - split; [exact Hr|]. intros j. lia.
    - assert (Hr' : length (upd r v) = mn) by (now rewrite upd_length).
      destruct (IH _ Hr') as [HL HN]. split; [exact HL|]. intros j. rewrite HN, upd_nth by exact Hr.
      destruct (Nat.eqb j (bucket v)); lia.
  Qed.

  Lemma maxrank_in j l v : In v l -> bucket v = j -> (rho v <= maxrank j l)%N.
  Proof.
    induction l as [|a l IH]; intros Hin Hb; [contradiction|]. cbn [HLL.maxrank].
    destruct Hin as [->|Hin].
    - rewrite Hb, Nat.eqb_refl. lia.
    - specialize (IH Hin Hb). destruct (Nat.eqb j (bucket a)); lia.
  Qed.

  Lemma maxrank_incl j l l' : incl l l' -> (maxrank j l <= maxrank j l')%N.
  Proof.
    induction l as [|a l IH]; intros Hi; cbn [HLL.maxrank]; [lia|].
    assert (Hi' : incl l l') by (intros z Hz; apply Hi; now right). specialize (IH Hi').
    destruct (Nat.eqb_spec j (bucket a)) as [E|E]; [|exact IH].
    pose proof (maxrank_in j l' a (Hi a (or_introl eq_refl)) (eq_sym E)). lia.
  Qed.

  (* the per-bucket maximum depends only on the SET of values *)
  Lemma maxrank_set j l l' : (forall v, In v l <-> In v l') -> maxrank j l = maxrank j l'.
  Proof. intros H. apply N.le_antisymm; apply maxrank_incl; intros v Hv; apply H; exact Hv. Qed.

  Lemma maxrank_snoc j l v :
    maxrank j (l ++ [v]) = if Nat.eqb j (bucket v) then N.max (maxrank j l) (rho v) else maxrank j l.
  Proof.
    induction l as [|a l IH]; cbn [app HLL.maxrank]; [destruct (Nat.eqb j (bucket v)); lia|].
    rewrite IH. destruct (Nat.eqb j (bucket a)), (Nat.eqb j (bucket v)); lia.
  Qed.

  Lemma NoDup_same_set_len (s l : list N) : NoDup s -> (forall v, In v s <-> In v l) -> length s = distinct l.
  Proof.
    intros Hnd Hs. unfold distinct. apply Nat.le_antisymm.
    - apply NoDup_incl_length; [exact Hnd|]. intros v Hv. apply nodup_In. apply Hs. exact Hv.
    - apply NoDup_incl_length; [apply NoDup_nodup|]. intros v Hv. apply nodup_In in Hv. apply Hs. exact Hv.
  Qed.

  Lemma distinct_set l l' : (forall v, In v l <-> In v l') -> distinct l = distinct l'.
  Proof.
    intros H. rewrite <- (NoDup_same_set_len (nodup N.eq_dec l) l') ; [reflexivity|apply NoDup_nodup|].
    intros v. rewrite nodup_In. apply H.
  Qed.

  Lemma distinct_mono l v : (distinct l <= distinct (l ++ [v]))%nat.
  Proof.
    unfold distinct. apply NoDup_incl_length; [apply NoDup_nodup|].
    intros x Hx. apply nodup_In in Hx. apply nodup_In. apply in_or_app. now left.
  Qed.

  Lemma snoc_set (l s : list N) v : (forall x, In x s <-> In x l) -> forall x, In x (v :: s) <-> In x (l ++ [v]).
  Proof.
    intros Hs x. split; intros H.
    - destruct H as [<-|H]; apply in_or_app; [right; now left|left; apply Hs; exact H].
    - apply in_app_or in H. destruct H as [H|[<-|[]]]; [right; apply Hs; exact H|now left].
  Qed.

  (* ---- the invariant: exact duplicate-free set while warm; registers = per-bucket maximum over
          the values inserted so far once cold; the phase is decided by the number of distinct values ---- *)
  Definition inv (l : list N) (t : st) : Prop :=
    match t with
    | Warm s => NoDup s /\ (forall v, In v s <-> In v l) /\ (length s <= W)%nat
    | Cold r => length r = mn /\ (forall j, nth j r 0%N = maxrank j l) /\ (W < distinct l)%nat
    end.

  Lemma zero_length : length zero = mn.
  Proof. unfold HLL.zero. apply repeat_length. Qed.

  Lemma inv_step l t v : inv l t -> inv (l ++ [v]) (add t v).
  Proof.
    destruct t as [s|r]; cbn [inv HLL.add].
    - intros (Hnd & Hs & Hlen). destruct (mem v s) eqn:Em.
      + rewrite orb_true_r. apply mem_In in Em. cbn [inv]. repeat split; try assumption.
        * intros H. apply in_or_app. left. apply Hs. exact H.
        * intros H. apply in_app_or in H. destruct H as [H|[<-|[]]]; [apply Hs; exact H|exact Em].
      + rewrite orb_false_r.
        assert (Hnin : ~ In v s) by (intros H; apply mem_In in H; congruence).
        destruct (Nat.ltb_spec (length s) W) as [El|El]; cbn [inv].
        * repeat split.
          -- constructor; assumption.
          -- apply (snoc_set l s v Hs).
          -- apply (snoc_set l s v Hs).
          -- cbn [length]. lia.
        * destruct (fold_upd s zero zero_length) as [HL HN]. fold (convert s) in HL, HN.
          repeat split.
          -- rewrite upd_length. exact HL.
          -- intros j. rewrite upd_nth by exact HL. rewrite HN. unfold HLL.zero. rewrite repeat_nth0.
             rewrite <- (maxrank_set j (v :: s) (l ++ [v])) by (apply (snoc_set l s v Hs)).
             cbn [HLL.maxrank]. destruct (Nat.eqb j (bucket v)); lia.
          -- assert (E : length (v :: s) = distinct (l ++ [v])).
             { apply NoDup_same_set_len; [constructor; assumption|apply (snoc_set l s v Hs)]. }
             cbn [length] in E. lia.
    - intros (HL & Hr & Hd). repeat split.
      + rewrite upd_length. exact HL.
      + intros j. rewrite upd_nth by exact HL. rewrite Hr, maxrank_snoc. reflexivity.
      + pose proof (distinct_mono l v). lia.
  Qed.

  Lemma inv_nil : inv [] (Warm []).
  Proof. cbn. repeat split; try constructor; try tauto; lia. Qed.

  Lemma inv_fold l : forall l0 t, inv l0 t -> inv (l0 ++ l) (fold_left add l t).
  Proof.
    induction l as [|v l IH]; intros l0 t H; cbn [fold_left]; [rewrite app_nil_r; exact H|].
    replace (l0 ++ v :: l) with ((l0 ++ [v]) ++ l) by (rewrite <- app_assoc; reflexivity).
    apply IH. apply inv_step. exact H.
  Qed.

  Theorem inv_run l : inv l (run l).
  Proof. unfold HLL.run. apply (inv_fold l [] (Warm []) inv_nil). Qed.

  (* ---- what the invariant gives ---- *)
  Lemma inv_exact l t : inv l t -> (distinct l <= W)%nat -> len t = Exact (distinct l).
  Proof.
    destruct t as [s|r]; cbn [inv len].
    - intros (Hnd & Hs & _) _. f_equal. now apply NoDup_same_set_len.
    - intros (_ & _ & H) H'. lia.
  Qed.

  Lemma inv_cold l t : inv l t -> (W < distinct l)%nat ->
    exists r, t = Cold r /\ length r = mn /\ forall j, nth j r 0%N = maxrank j l.
  Proof.
    destruct t as [s|r]; cbn [inv].
    - intros (Hnd & Hs & HL) H. rewrite (NoDup_same_set_len s l Hnd Hs) in HL. lia.
    - intros (HL & Hr & _) _. exists r. repeat split; assumption.
  Qed.

  (* adding a value seen before leaves the whole state unchanged, in both phases *)
  Lemma add_seen l t v : inv l t -> In v l -> add t v = t.
  Proof.
    destruct t as [s|r]; cbn [inv HLL.add].
    - intros (_ & Hs & _) Hin. apply Hs in Hin. apply mem_In in Hin. rewrite Hin, orb_true_r. reflexivity.
    - intros (HL & Hr & _) Hin. f_equal. apply (nth_ext _ _ 0%N 0%N); [apply upd_length|].
      intros j _. rewrite upd_nth by exact HL.
      destruct (Nat.eqb_spec j (bucket v)) as [E|E]; [|reflexivity].
      rewrite Hr. pose proof (maxrank_in j l v Hin (eq_sym E)). lia.
  Qed.

  Lemma run_snoc l v : run (l ++ [v]) = add (run l) v.
  Proof. unfold HLL.run. now rewrite fold_left_app. Qed.

  Theorem exact_len l : (distinct l <= W)%nat -> len (run l) = Exact (distinct l).
  Proof. apply inv_exact. apply inv_run. Qed.

  Theorem dup_state l v : In v l -> run (l ++ [v]) = run l.
  Proof. intros H. rewrite run_snoc. apply (add_seen l); [apply inv_run|exact H]. Qed.

  Theorem cold_regs l : (W < distinct l)%nat ->
    exists r, run l = Cold r /\ length r = mn /\ forall j, nth j r 0%N = maxrank j l.
  Proof. apply inv_cold. apply inv_run. Qed.

  Theorem cold_phase l r : run l = Cold r -> (W < distinct l)%nat.
  Proof. intros E. pose proof (inv_run l) as H. rewrite E in H. cbn [inv] in H. tauto. Qed.

  (* after the conversion the registers are a function of the SET of inserted values *)
  Theorem regs_set l l' : (forall v, In v l <-> In v l') -> (W < distinct l)%nat -> run l = run l'.
  Proof.
    intros Hs Hd. destruct (cold_regs l Hd) as (r & E & HL & Hr).
    rewrite (distinct_set l l' Hs) in Hd. destruct (cold_regs l' Hd) as (r' & E' & HL' & Hr').
    rewrite E, E'. f_equal. apply (nth_ext _ _ 0%N 0%N); [congruence|].
    intros j _. rewrite Hr, Hr'. now apply maxrank_set.
  Qed.

  (* len is a function of the SET of inserted values, in both phases *)
  Theorem len_set l l' : (forall v, In v l <-> In v l') -> len (run l) = len (run l').
  Proof.
    intros Hs. destruct (Nat.le_gt_cases (distinct l) W) as [H|H].
    - rewrite exact_len by exact H. rewrite (distinct_set l l' Hs) in *. now rewrite exact_len.
    - now rewrite (regs_set l l' Hs H).
  Qed.

  Theorem order_len l l' : Permutation l l' -> len (run l) = len (run l').
  Proof.
    intros HP. apply len_set. intros v. split; [apply Permutation_in; exact HP|apply Permutation_in; now symmetry].
  Qed.

  (* ---- touched buckets ---- *)
  Lemma maxrank_touched j l : (forall v, (0 < rho v)%N) ->
    (maxrank j l <> 0%N <-> exists v, In v l /\ bucket v = j).
  Proof.
    intros Hpos. induction l as [|a l IH]; cbn [HLL.maxrank].
    - split; [congruence|intros (v & [] & _)].
    - destruct (Nat.eqb_spec j (bucket a)) as [E|E].
      + split; [intros _; exists a; split; [now left|now symmetry]|]. intros _. specialize (Hpos a). lia.
      + rewrite IH. split; intros (v & Hin & Hb).
        * exists v. split; [now right|exact Hb].
        * destruct Hin as [->|Hin]; [congruence|]. exists v. split; assumption.
  Qed.

  Theorem touched_iff l r j : (forall v, (0 < rho v)%N) -> run l = Cold r ->
    (nth j r 0%N <> 0%N <-> exists v, In v l /\ bucket v = j).
  Proof.
    intros Hpos E. destruct (cold_regs l (cold_phase l r E)) as (r' & E' & _ & Hr).
    rewrite E in E'. injection E' as <-. rewrite Hr. now apply maxrank_touched.
  Qed.

  Lemma existsb_bucket j l : existsb (Nat.eqb j) (map bucket l) = true <-> exists v, In v l /\ bucket v = j.
  Proof.
    rewrite existsb_exists. split.
    - intros (b & Hb & E). apply Nat.eqb_eq in E. subst b. apply in_map_iff in Hb.
      destruct Hb as (v & E & Hin). exists v. split; [exact Hin|exact E].
    - intros (v & Hin & E). exists j. split; [|apply Nat.eqb_refl]. apply in_map_iff. exists v. split; [exact E|exact Hin].
  Qed.

  Lemma zeros_touched l r : (forall v, (0 < rho v)%N) -> length r = mn ->
    (forall j, nth j r 0%N = maxrank j l) -> zeros r = (m - N.of_nat (touched l))%N.
  Proof.
    intros Hpos HL Hr. unfold zeros. rewrite (list_as_map 0%N r) at 1. rewrite filter_map_comm, map_length, HL.
    rewrite (filter_ext (fun a => N.eqb 0 (nth a r 0%N)) (fun j => negb (existsb (Nat.eqb j) (map bucket l)))).
    - pose proof (filter_negb_length (fun j => existsb (Nat.eqb j) (map bucket l)) (seq 0 mn)) as Hc.
      rewrite seq_length in Hc. rewrite (touched_count (map bucket l) mn) in Hc.
      + fold (touched l) in Hc. unfold HLL.mn in *. lia.
      + intros b Hb. apply in_map_iff in Hb. destruct Hb as (v & <- & _). apply bucket_lt.
    - intros j. rewrite Hr. destruct (existsb (Nat.eqb j) (map bucket l)) eqn:X; cbn [negb].
      + apply existsb_bucket in X. apply (maxrank_touched j l Hpos) in X. apply N.eqb_neq. congruence.
      + apply N.eqb_eq. destruct (N.eq_dec (maxrank j l) 0) as [E0|E0]; [now symmetry|].
        apply (maxrank_touched j l Hpos) in E0. apply existsb_bucket in E0. congruence.
  Qed.

  (* cold phase: len is the linear-counting term of  m - #touched buckets *)
  Theorem estimate l : (forall v, (0 < rho v)%N) -> (W < distinct l)%nat ->
    len (run l) = Est (m - N.of_nat (touched l))%N.
  Proof.
    intros Hpos Hd. destruct (cold_regs l Hd) as (r & E & HL & Hr). rewrite E. cbn [len]. f_equal.
    now apply zeros_touched.
  Qed.

  (* rank >= 1 for a 32-bit hash as soon as width + p > 32 (the code: width = 64 - p) *)
  Lemma rho_pos_32 : (p <= 32)%N -> (32 < width + p)%N -> (forall v, (hash v < 2 ^ 32)%N) ->
    forall v, (0 < rho v)%N.
  Proof.
    intros Hp Hw Hh v. unfold HLL.rho. rewrite N.shiftr_div_pow2.
    assert (Hq : (hash v / 2 ^ p < 2 ^ (32 - p))%N).
    { apply N.div_lt_upper_bound; [apply N.pow_nonzero; lia|].
      rewrite <- N.pow_add_r. replace (p + (32 - p))%N with 32%N by lia. apply Hh. }
    assert (Hs : (N.size (hash v / 2 ^ p) <= 32 - p)%N).
    { destruct (N.eq_dec (hash v / 2 ^ p) 0) as [E|E]; [rewrite E; cbn; lia|].
      rewrite N.size_log2 by exact E. apply N.le_succ_l. apply N.log2_lt_pow2; [apply N.neq_0_lt_0; exact E|exact Hq]. }
    lia.
  Qed.

  (* ---- the checker ---- *)
  Definition clause (l1 : list N) (v : N) (o1 : list Z) (x prev0 : Z) : Prop :=
    (In v l1 -> x = last o1 prev0) /\
    ((distinct (l1 ++ [v]) <= W)%nat -> x = Z.of_nat (distinct (l1 ++ [v]))).

  Lemma checkb_sound l : forall seen prev o l0, NoDup seen -> (forall u, In u seen <-> In u l0) ->
    forallb (fun b => b) (checkb W seen prev l o) = true ->
    forall l1 v l2 o1 x o2, l = l1 ++ v :: l2 -> o = o1 ++ x :: o2 -> length o1 = length l1 ->
      (In v (l0 ++ l1) -> x = last o1 prev) /\
      ((distinct (l0 ++ l1 ++ [v]) <= W)%nat -> x = Z.of_nat (distinct (l0 ++ l1 ++ [v]))).
  Proof.
    clear p width hash.
    induction l as [|a l IH]; intros seen prev o l0 Hnd Hs Hc l1 v l2 o1 x o2 El Eo Hlen.
    - destruct l1; discriminate.
    - destruct o as [|y o]; [destruct o1; discriminate|].
      cbn [checkb forallb] in Hc. apply andb_prop in Hc. destruct Hc as [Hc1 Hc2].
      set (seen' := if mem a seen then seen else a :: seen) in *.
      assert (Hnd' : NoDup seen').
      { unfold seen'. destruct (mem a seen) eqn:Em; [exact Hnd|]. constructor; [|exact Hnd].
        intros H. apply mem_In in H. congruence. }
      assert (Hs' : forall u, In u seen' <-> In u (l0 ++ [a])).
      { unfold seen'. destruct (mem a seen) eqn:Em.
        - apply mem_In in Em. intros u. rewrite in_app_iff, <- Hs. cbn [In]. split; [tauto|].
          intros [H|[<-|[]]]; assumption.
        - apply (snoc_set l0 seen a Hs). }
      destruct l1 as [|b l1].
      + destruct o1; [|discriminate]. cbn [app] in *. injection El as <- <-. injection Eo as <- <-.
        rewrite app_nil_r. apply andb_prop in Hc1. destruct Hc1 as [Hd He]. split.
        * intros Hin. apply Hs in Hin. apply mem_In in Hin. rewrite Hin in Hd. cbn [last]. lia.
        * intros HW. rewrite <- (NoDup_same_set_len seen' (l0 ++ [a]) Hnd' Hs') in *.
          destruct (Nat.leb_spec (length seen') W); [lia|lia].
      + destruct o1 as [|y1 o1]; [discriminate|]. cbn [app length] in *.
        injection El as <- El. injection Eo as <- Eo. injection Hlen as Hlen.
        destruct (IH seen' y o (l0 ++ [a]) Hnd' Hs' Hc2 l1 v l2 o1 x o2 El Eo Hlen) as [H1 H2].
        rewrite <- app_assoc in H1, H2. cbn [app] in H1, H2. split.
        * intros Hin. rewrite last_cons_default. now apply H1.
        * exact H2.
  Qed.

  Theorem check_sound l o : forallb (fun b => b) (checkb W [] 0%Z l o) = true ->
    forall l1 v l2 o1 x o2, l = l1 ++ v :: l2 -> o = o1 ++ x :: o2 -> length o1 = length l1 ->
      clause l1 v o1 x 0%Z.
  Proof.
    clear p width hash. intros Hc l1 v l2 o1 x o2 El Eo Hlen.
    apply (checkb_sound l [] 0%Z o [] (NoDup_nil _) (fun u => conj (fun H => H) (fun H => H)) Hc l1 v l2 o1 x o2 El Eo Hlen).
  Qed.

  Lemma checkb_model (lc : N -> Z) l : forall seen l0 t, inv l0 t -> NoDup seen -> (forall u, In u seen <-> In u l0) ->
    forallb (fun b => b) (checkb W seen (lenZ lc t) l (map (lenZ lc) (trace t l))) = true.
  Proof.
    induction l as [|v l IH]; intros seen l0 t Hi Hnd Hs; cbn [HLL.trace map checkb forallb]; [reflexivity|].
    set (seen' := if mem v seen then seen else v :: seen).
    assert (Hnd' : NoDup seen').
    { unfold seen'. destruct (mem v seen) eqn:Em; [exact Hnd|]. constructor; [|exact Hnd].
      intros H. apply mem_In in H. congruence. }
    assert (Hs' : forall u, In u seen' <-> In u (l0 ++ [v])).
    { unfold seen'. destruct (mem v seen) eqn:Em.
      - apply mem_In in Em. intros u. rewrite in_app_iff, <- Hs. cbn [In]. split; [tauto|].
        intros [H|[<-|[]]]; assumption.
      - apply (snoc_set l0 seen v Hs). }
    pose proof (inv_step l0 t v Hi) as Hi'.
    apply andb_true_intro. split; [apply andb_true_intro; split|].
    - destruct (mem v seen) eqn:Em; [|reflexivity]. apply mem_In in Em. apply Hs in Em.
      rewrite (add_seen l0 t v Hi Em). lia.
    - destruct (Nat.leb_spec (length seen') W) as [HW|HW]; [|reflexivity].
      rewrite (NoDup_same_set_len seen' (l0 ++ [v]) Hnd' Hs') in *.
      unfold HLL.lenZ. rewrite (inv_exact _ _ Hi' HW). lia.
    - apply (IH seen' (l0 ++ [v]) (add t v) Hi' Hnd' Hs').
  Qed.

  Theorem model_ok (lc : N -> Z) l :
    forallb (fun b => b) (checkb W [] 0%Z l (map (lenZ lc) (trace (Warm []) l))) = true.
  Proof.
    change 0%Z with (lenZ lc (Warm [])).
    apply (checkb_model lc l [] [] (Warm []) inv_nil (NoDup_nil _)). intros u. tauto.
  Qed.

  (* trace = the run of every non-empty prefix *)
  Lemma trace_spec l : forall t, trace t l = map (fun k => fold_left add (firstn (S k) l) t) (seq 0 (length l)).
  Proof.
    induction l as [|v l IH]; intros t; cbn [HLL.trace length seq map]; [reflexivity|].
    f_equal. rewrite IH, <- seq_shift, map_map. reflexivity.
  Qed.
End P.

(* ---- the pre-fix machine: witnesses ---- *)
(* p = 2 (4 registers), warm-up capacity 2, identity hash: two distinct values, then a repeat of the
   first one -> the old add converts, len stops being exact although only 2 <= W values were seen *)
Theorem prefix_refuted_exact : exists p W width hash l v,
  In v l /\ (distinct l <= W)%nat /\ len (run_old p W width hash (l ++ [v])) <> Exact (distinct l).
Proof.
  exists 2%N, 2%nat, 62%N, (fun v => v), [0%N; 1%N], 0%N.
  split; [now left|]. split; [vm_compute; lia|]. vm_compute. discriminate.
Qed.

(* ... and the value that triggers the conversion is dropped: re-adding it changes len *)
Theorem prefix_refuted_dup : exists p W width hash l v,
  In v l /\ len (run_old p W width hash (l ++ [v])) <> len (run_old p W width hash l).
Proof.
  exists 2%N, 2%nat, 62%N, (fun v => v), [0%N; 1%N; 2%N], 2%N.
  split; [right; right; now left|]. vm_compute. discriminate.
Qed.

(* ---- the 2 % clause is a statement about the hash: with a constant hash every cold sketch has the
        same registers, so whatever integer reading [lc] of the estimate is used, some set is off by
        more than 2 % ---- *)
Definition iota (n : nat) : list N := map N.of_nat (seq 0 n).

Lemma distinct_iota n : distinct (iota n) = n.
Proof.
  unfold distinct, iota. rewrite nodup_fixed_point.
  - now rewrite map_length, seq_length.
  - apply Injective_map_NoDup; [intros a b; apply Nat2N.inj|apply seq_NoDup].
Qed.

Lemma maxrank_const p width l j : l <> [] ->
  maxrank p width (fun _ => 0%N) j l = if Nat.eqb j 0 then width else 0%N.
Proof.
  induction l as [|a l IH]; intros H; [congruence|]. cbn [maxrank].
  assert (Eb : bucket p (fun _ => 0%N) a = 0%nat) by (unfold bucket; rewrite N.land_0_l; reflexivity).
  assert (Er : rho p width (fun _ => 0%N) a = width).
  { unfold rho. rewrite N.shiftr_0_l. cbn. lia. }
  rewrite Eb, Er. destruct l as [|b l].
  - cbn [maxrank]. destruct (Nat.eqb j 0); lia.
  - rewrite IH by discriminate. destruct (Nat.eqb j 0); lia.
Qed.

Theorem hash_matters : forall p W width (lc : N -> Z), exists hash l,
  (W < distinct l)%nat /\
  ~ (50 * Z.abs (lenZ lc (run p W width hash l) - Z.of_nat (distinct l)) <= Z.of_nat (distinct l))%Z.
Proof.
  intros p W width lc. exists (fun _ => 0%N).
  set (l1 := iota (S W)). set (l2 := iota (3 * S W)).
  assert (D1 : distinct l1 = S W) by apply distinct_iota.
  assert (D2 : distinct l2 = (3 * S W)%nat) by apply distinct_iota.
  assert (E : run p W width (fun _ => 0%N) l1 = run p W width (fun _ => 0%N) l2).
  { destruct (cold_regs p W width (fun _ => 0%N) l1) as (r1 & E1 & L1 & R1); [lia|].
    destruct (cold_regs p W width (fun _ => 0%N) l2) as (r2 & E2 & L2 & R2); [lia|].
    rewrite E1, E2. f_equal. apply (nth_ext _ _ 0%N 0%N); [congruence|]. intros j _.
    rewrite R1, R2, !maxrank_const; [reflexivity| |]; unfold l1, l2, iota; cbn [Nat.mul seq map]; discriminate. }
  destruct (Z_le_dec (50 * Z.abs (lenZ lc (run p W width (fun _ => 0%N) l1) - Z.of_nat (distinct l1))) (Z.of_nat (distinct l1))) as [H|H].
  - exists l2. split; [lia|]. rewrite <- E, D2. rewrite D1 in H. lia.
  - exists l1. split; [lia|exact H].
Qed.
