From Coq Require Import List NArith Arith Lia Bool.
Import ListNotations.

Section HLL.
  Variable W : nat.                    (* warm-up capacity, 2^(p-1) *)
  Variables bucket rho : N -> N.       (* hash oracle split into register index and rank *)
  Hypothesis rho_pos : forall v, (0 < rho v)%N.   (* C14_touched: rank >= 32 for p = 19 *)

  Inductive st := Warm (s : list N) | Cold (r : N -> N).
  Definition mem (v : N) (s : list N) := existsb (N.eqb v) s.
  Definition upd (r : N -> N) (v : N) : N -> N := fun j => if (j =? bucket v)%N then N.max (r j) (rho v) else r j.
  Definition zero : N -> N := fun _ => 0%N.
  (* repaired add: seen values stay exact; the triggering value is hashed too *)
  Definition add (t : st) (v : N) : st :=
    match t with
    | Warm s => if mem v s then Warm s
                else if length s <? W then Warm (v :: s)
                else Cold (upd (fold_left upd s zero) v)
    | Cold r => Cold (upd r v)
    end.
  Definition run (l : list N) : st := fold_left add l (Warm []).

  Fixpoint maxrank (j : N) (l : list N) : N :=
    match l with [] => 0%N | v :: r => if (j =? bucket v)%N then N.max (rho v) (maxrank j r) else maxrank j r end.

  Lemma mem_In v s : mem v s = true <-> In v s.
  Proof. unfold mem. rewrite existsb_exists. split; [intros [x [H E]]; apply N.eqb_eq in E; subst; exact H|intros H; exists v; split; [exact H|apply N.eqb_refl]]. Qed.

  Lemma fold_upd s : forall r j, fold_left upd s r j = N.max (r j) (maxrank j s).
  Proof.
    induction s as [|v s IH]; intros r j; cbn [fold_left maxrank]; [lia|].
    rewrite IH. unfold upd. destruct (j =? bucket v)%N; lia.
  Qed.

  Lemma maxrank_in j l v : In v l -> bucket v = j -> (rho v <= maxrank j l)%N.
  Proof.
    induction l as [|a l IH]; intros Hin Hb; [contradiction|]. cbn [maxrank].
    destruct Hin as [->|Hin].
    - rewrite Hb, N.eqb_refl. lia.
    - specialize (IH Hin Hb). destruct (j =? bucket a)%N; lia.
  Qed.

  (* maxrank depends only on the set of values *)
  Lemma maxrank_incl j l l' : incl l l' -> (maxrank j l <= maxrank j l')%N.
  Proof.
    induction l as [|a l IH]; intros Hi; cbn [maxrank]; [lia|].
    assert (Hi' : incl l l') by (intros z Hz; apply Hi; now right). specialize (IH Hi').
    destruct (j =? bucket a)%N eqn:E; [|exact IH]. apply N.eqb_eq in E.
    pose proof (maxrank_in j l' a (Hi a (or_introl eq_refl)) (eq_sym E)). lia.
  Qed.
  Lemma maxrank_set j l l' : (forall v, In v l <-> In v l') -> maxrank j l = maxrank j l'.
  Proof. intros H. apply N.le_antisymm; apply maxrank_incl; intros v Hv; apply H; exact Hv. Qed.

  Definition distinct (l : list N) : nat := length (nodup N.eq_dec l).

  (* the invariant: exact while warm; registers = function of the value SET once cold *)
  Definition inv (l : list N) (t : st) : Prop :=
    match t with
    | Warm s => NoDup s /\ (forall v, In v s <-> In v l) /\ length s <= W
    | Cold r => (forall j, r j = maxrank j l) /\ W < distinct l
    end.

  Lemma NoDup_same_set_len (s l : list N) : NoDup s -> (forall v, In v s <-> In v l) -> length s = distinct l.
  Proof.
    intros Hnd Hs. unfold distinct. apply Nat.le_antisymm.
    - apply NoDup_incl_length; [exact Hnd|]. intros v Hv. apply nodup_In. apply Hs. exact Hv.
    - apply NoDup_incl_length; [apply NoDup_nodup|]. intros v Hv. apply nodup_In in Hv. apply Hs. exact Hv.
  Qed.

  Lemma distinct_mono l v : distinct l <= distinct (l ++ [v]).
  Proof.
    unfold distinct. apply NoDup_incl_length; [apply NoDup_nodup|].
    intros x Hx. apply nodup_In in Hx. apply nodup_In. apply in_or_app. now left.
  Qed.

  Lemma inv_step l t v : inv l t -> inv (l ++ [v]) (add t v).
  Proof.
    destruct t as [s|r]; cbn [inv add].
    - intros (Hnd & Hs & Hlen). destruct (mem v s) eqn:Em.
      + apply mem_In in Em. cbn [inv]. repeat split; try assumption.
        * intros H. apply in_or_app. left. apply Hs. exact H.
        * intros H. apply in_app_or in H. destruct H as [H|[<-|[]]]; [apply Hs; exact H|exact Em].
      + assert (Hnin : ~ In v s) by (intros H; apply mem_In in H; congruence).
        destruct (length s <? W) eqn:El.
        * apply Nat.ltb_lt in El. cbn [inv]. repeat split.
          -- constructor; assumption.
          -- intros [<-|H]; apply in_or_app; [right; now left|left; apply Hs; exact H].
          -- intros H. apply in_app_or in H. destruct H as [H|[<-|[]]]; [right; apply Hs; exact H|now left].
          -- cbn [length]. lia.
        * apply Nat.ltb_ge in El. cbn [inv]. split.
          -- intros j. unfold upd at 1. rewrite fold_upd. unfold zero.
             rewrite (maxrank_set j (l ++ [v]) (v :: s)).
             ++ cbn [maxrank]. destruct (j =? bucket v)%N; lia.
             ++ intros x. split; intros H.
                ** apply in_app_or in H. destruct H as [H|[<-|[]]]; [right; apply Hs; exact H|now left].
                ** destruct H as [<-|H]; apply in_or_app; [right; now left|left; apply Hs; exact H].
          -- assert (E : length (v :: s) = distinct (l ++ [v])).
             { apply NoDup_same_set_len; [constructor; assumption|].
               intros x. split; intros H.
               - destruct H as [<-|H]; apply in_or_app; [right; now left|left; apply Hs; exact H].
               - apply in_app_or in H. destruct H as [H|[<-|[]]]; [right; apply Hs; exact H|now left]. }
             cbn [length] in E. lia.
    - intros (Hr & Hd). split.
      + intros j. unfold upd. rewrite Hr.
        assert (E : maxrank j (l ++ [v]) = if (j =? bucket v)%N then N.max (maxrank j l) (rho v) else maxrank j l).
        { clear. induction l as [|a l IH]; cbn [app maxrank]; [destruct (j =? bucket v)%N; lia|].
          rewrite IH. destruct (j =? bucket a)%N, (j =? bucket v)%N; lia. }
        rewrite E. reflexivity.
      + pose proof (distinct_mono l v). lia.
  Qed.

  Theorem inv_run l : inv l (run l).
  Proof.
    unfold run. rewrite <- (app_nil_l l) at 1.
    assert (G : forall l0 t, inv l0 t -> inv (l0 ++ l) (fold_left add l t)).
    { induction l as [|v l IH]; intros l0 t H; cbn [fold_left]; [rewrite app_nil_r; exact H|].
      replace (l0 ++ v :: l) with ((l0 ++ [v]) ++ l) by (rewrite <- app_assoc; reflexivity).
      apply IH. apply inv_step. exact H. }
    apply (G [] (Warm [])). cbn. repeat split; try constructor; try tauto; lia.
  Qed.

  (* C14_exact *)
  Corollary exact_phase l : distinct l <= W -> exists s, run l = Warm s /\ length s = distinct l.
  Proof.
    intros Hd. pose proof (inv_run l) as H. destruct (run l) as [s|r]; cbn [inv] in H.
    - exists s. split; [reflexivity|]. destruct H as (Hnd & Hs & _). apply NoDup_same_set_len; assumption.
    - destruct H as [_ H]. lia.
  Qed.
End HLL.
Print Assumptions exact_phase.
