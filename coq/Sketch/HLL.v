(* C14 — executable model of HyperLogLogWCache
   (outrank/algorithms/sketches/counting_ultiloglog.py).  No proofs here.

   Parametric in the number of index bits [p], the warm-up capacity [W] (= warmup_size),
   the register width constant [width] (= 64 - p in the code) and the hash oracle
   [hash : value -> N] (xxh32(seed = p) of the value's bytes; ANY function for the theorems).
   Values are harness-assigned ids (N): equality of ids = Python equality of the inserted values. *)
From Coq Require Import List NArith ZArith Arith Bool.
Import ListNotations.

Section HLL.
  Variable p : N.
  Variable W : nat.
  Variable width : N.
  Variable hash : N -> N.

  Definition m : N := (2 ^ p)%N.                         (* self.m = 1 << self.p *)
  Definition mn : nat := N.to_nat m.

  (* j = x & (self.m - 1) *)
  Definition bucket (v : N) : nat := N.to_nat (N.land (hash v) (m - 1)).
  (* w = x >> self.p ; rho = self.width - w.bit_length()
     (truncated subtraction: a negative rho never changes a register that starts at 0) *)
  Definition rho (v : N) : N := (width - N.size (N.shiftr (hash v) p))%N.

  Inductive st := Warm (s : list N) | Cold (r : list N).

  Definition mem (v : N) (s : list N) : bool := existsb (N.eqb v) s.

  (* self.M[j] = max(self.M[j], rho) *)
  Fixpoint updl (r : list N) (j : nat) (x : N) : list N :=
    match r, j with
    | [], _ => []
    | a :: r', O => N.max a x :: r'
    | a :: r', S k => a :: updl r' k x
    end.
  Definition upd (r : list N) (v : N) : list N := updl r (bucket v) (rho v).   (* _hasher_update *)

  Definition zero : list N := repeat 0%N mn.               (* np.zeros(self.m) *)
  Definition convert (s : list N) : list N := fold_left upd s zero.

  (* add(value), after fix 79c2775 *)
  Definition add (t : st) (v : N) : st :=
    match t with
    | Warm s =>
        if (length s <? W)%nat || mem v s
        then Warm (if mem v s then s else v :: s)          (* self.warmup_set.add(value) *)
        else Cold (upd (convert s) v)                      (* convert, then hash the trigger value *)
    | Cold r => Cold (upd r v)
    end.

  Definition run (l : list N) : st := fold_left add l (Warm []).

  (* the state after every prefix *)
  Fixpoint trace (t : st) (l : list N) : list st :=
    match l with
    | [] => []
    | v :: r => let t' := add t v in t' :: trace t' r
    end.

  (* __len__: exact size while warm; otherwise the linear-counting value of the number z of
     zero registers:  int(ceil(m * ln(m / z))) - 1,  or 2^p when z = 0.  The value is kept as a
     term; the harness (and Sketch/HLLReal.v) give it its meaning. *)
  Inductive lent := Exact (n : nat) | Est (z : N).
  Definition zeros (r : list N) : N := N.of_nat (length (filter (N.eqb 0) r)).
  Definition len (t : st) : lent :=
    match t with Warm s => Exact (length s) | Cold r => Est (zeros r) end.

  (* len as an integer, for any reading [lc] of the linear-counting term *)
  Definition lenZ (lc : N -> Z) (t : st) : Z :=
    match len t with Exact n => Z.of_nat n | Est z => lc z end.

  (* ---- the machine before fix 79c2775: the add that arrives when the warm-up set is full
          converts and is itself dropped, even when it is a duplicate ---- *)
  Definition add_old (t : st) (v : N) : st :=
    match t with
    | Warm s =>
        if (length s <? W)%nat
        then Warm (if mem v s then s else v :: s)
        else Cold (convert s)
    | Cold r => Cold (upd r v)
    end.
  Definition run_old (l : list N) : st := fold_left add_old l (Warm []).

  (* ---- specification side ---- *)
  Definition distinct (l : list N) : nat := length (nodup N.eq_dec l).
  (* per-bucket maximum rank over a collection of values *)
  Fixpoint maxrank (j : nat) (l : list N) : N :=
    match l with
    | [] => 0%N
    | v :: r => if Nat.eqb j (bucket v) then N.max (rho v) (maxrank j r) else maxrank j r
    end.
  Definition touched (l : list N) : nat := length (nodup Nat.eq_dec (map bucket l)).

  (* ---- observable printed for the harness: after every prefix (phase, n or z);
          plus the final state (warm set / registers) ---- *)
  Definition enc_len (t : st) : Z * Z :=
    match len t with Exact n => (0%Z, Z.of_nat n) | Est z => (1%Z, Z.of_N z) end.
  Definition enc_state (t : st) : Z * list N :=
    match t with Warm s => (0%Z, s) | Cold r => (1%Z, r) end.
  (* [ks]: positions (0-based op indices) at which the full state is printed as well *)
  Definition obs (l : list N) (ks : list N) : list (Z * Z) * list (Z * list N) :=
    let tr := trace (Warm []) l in
    (map enc_len tr, map (fun k => enc_state (nth (N.to_nat k) tr (Warm []))) ks).

  (* ---- property-level checker on the IMPLEMENTATION's len() after every prefix:
          exact while at most W distinct values were inserted; unchanged by a value seen before ---- *)
  Fixpoint checkb (seen : list N) (prev : Z) (l : list N) (o : list Z) : list bool :=
    match l, o with
    | v :: l', x :: o' =>
        let dup := mem v seen in
        let seen' := if dup then seen else v :: seen in
        ((if dup then Z.eqb x prev else true) &&
         (if (length seen' <=? W)%nat then Z.eqb x (Z.of_nat (length seen')) else true))
        :: checkb seen' x l' o'
    | _, _ => []
    end.
End HLL.
