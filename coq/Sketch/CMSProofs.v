(* C15 — proofs about the count-min model of Sketch/CMS.v.
   Everything is proved for an arbitrary hash oracle [pre], arbitrary depth and width >= 1. *)
From Coq Require Import List ZArith NArith Arith Bool Lia ZifyBool.
From Outrank Require Import Sketch.CMS.
Import ListNotations.
Open Scope Z_scope.

Lemma minl_bounds lo hi l : forall a, lo <= a <= hi -> Forall (fun b => lo <= b <= hi) l -> lo <= minl a l <= hi.
Proof.
  induction l as [|b l IH]; intros a Ha Hl; cbn [minl]; [exact Ha|].
  inversion Hl; subst. apply IH; [lia|assumption].
Qed.
Lemma minl_le l : forall a, minl a l <= a /\ Forall (fun b => minl a l <= b) l.
Proof.
  induction l as [|b l IH]; intros a; cbn [minl]; [split; [lia|constructor]|].
  destruct (IH (Z.min a b)) as [H1 H2]. split; [lia|]. constructor; [lia|exact H2].
Qed.
Lemma minl_in l : forall a, minl a l = a \/ In (minl a l) l.
Proof.
  induction l as [|b l IH]; intros a; cbn [minl]; [now left|].
  destruct (IH (Z.min a b)) as [H|H].
  - rewrite H. destruct (Z.min_spec a b) as [[_ E]|[_ E]]; rewrite E; [now left|right; now left].
  - right. now right.
Qed.


Section P.
  Variables depth width : nat.
  Variable pre : nat -> N -> N.
  Hypothesis width_pos : (1 <= width)%nat.

  Notation loc := (loc width pre).
  Notation add := (add width pre).
  Notation step := (step width pre).
  Notation init := (init depth width).
  Notation run := (run depth width pre).
  Notation trace := (trace width pre).
  Notation query := (query depth width pre).
  Notation probes := (probes depth width pre).
  Notation cell_weight := (cell_weight width pre).

  Lemma loc_lt i x : (loc i x < width)%nat.
  Proof.
    unfold CMS.loc. assert (H : (N.of_nat width <> 0)%N) by lia.
    pose proof (N.mod_lt (pre i x) (N.of_nat width) H). lia.
  Qed.

  (* ---- one row ---- *)
  Lemma bump_length r : forall j d, length (bump r j d) = length r.
  Proof. induction r as [|a r IH]; intros [|j] d; cbn [bump length]; try reflexivity. now rewrite IH. Qed.

  Lemma bump_nth r : forall j' j d, (j' < length r)%nat ->
    nth j (bump r j' d) 0 = if Nat.eqb j j' then nth j r 0 + d else nth j r 0.
  Proof.
    induction r as [|a r IH]; intros j' j d H; cbn [length] in H; [lia|].
    destruct j' as [|j']; destruct j as [|j]; cbn [bump nth Nat.eqb]; try reflexivity.
    apply IH. lia.
  Qed.

  Lemma sumz_bump r : forall j d, (j < length r)%nat -> sumz (bump r j d) = sumz r + d.
  Proof.
    induction r as [|a r IH]; intros j d H; cbn [length] in H; [lia|].
    destruct j as [|j]; cbn [bump sumz fold_right].
    - fold (sumz r). lia.
    - fold (sumz (bump r j d)). fold (sumz r). rewrite IH by lia. lia.
  Qed.

  (* ---- all rows ---- *)
  Lemma add_rows_length M : forall k x d, length (add_rows width pre k M x d) = length M.
  Proof. induction M as [|r M IH]; intros k x d; cbn [add_rows length]; [reflexivity|]. now rewrite IH. Qed.

  Lemma add_rows_nth M : forall k i x d, (i < length M)%nat ->
    nth i (add_rows width pre k M x d) [] = bump (nth i M []) (loc (k + i) x) d.
  Proof.
    induction M as [|r M IH]; intros k i x d H; cbn [length] in H; [lia|].
    destruct i as [|i]; cbn [add_rows nth].
    - now rewrite Nat.add_0_r.
    - rewrite IH by lia. now rewrite Nat.add_succ_r.
  Qed.

  Definition wf (M : matrix) : Prop :=
    length M = depth /\ forall i, (i < depth)%nat -> length (nth i M []) = width.

  Lemma add_wf M x d : wf M -> wf (add M x d).
  Proof.
    intros [HL HR]. split.
    - unfold CMS.add. now rewrite add_rows_length.
    - intros i Hi. unfold CMS.add. rewrite add_rows_nth by lia. rewrite bump_length. now apply HR.
  Qed.

  Lemma cell_add M x d i j : wf M -> (i < depth)%nat ->
    cell (add M x d) i j = if Nat.eqb j (loc i x) then cell M i j + d else cell M i j.
  Proof.
    intros [HL HR] Hi. unfold cell, CMS.add. rewrite add_rows_nth by lia. cbn [Nat.add].
    apply bump_nth. rewrite HR by exact Hi. apply loc_lt.
  Qed.

  Lemma rowsum_add M x d i : wf M -> (i < depth)%nat -> rowsum (add M x d) i = rowsum M i + d.
  Proof.
    intros [HL HR] Hi. unfold rowsum, CMS.add. rewrite add_rows_nth by lia. cbn [Nat.add].
    apply sumz_bump. rewrite HR by exact Hi. apply loc_lt.
  Qed.

  (* ---- streams ---- *)
  Definition runs (s : list (N * Z)) (M : matrix) : matrix :=
    fold_left (fun M e => add M (fst e) (snd e)) s M.

  Lemma step_runs M o : step M o = runs (flat1 o) M.
  Proof.
    destruct o as [x d|xs d]; cbn [CMS.step flat1 runs fold_left fst snd]; [reflexivity|].
    revert M. induction xs as [|a xs IH]; intros M; cbn [fold_left map fst snd]; [reflexivity|]. apply IH.
  Qed.

  Lemma cw_app i j s s' : cell_weight i j (s ++ s') = cell_weight i j s + cell_weight i j s'.
  Proof.
    unfold CMS.cell_weight. induction s as [|e s IH]; cbn [app fold_right]; [lia|].
    rewrite IH. destruct (Nat.eqb j (loc i (fst e))); lia.
  Qed.
  Lemma total_app s s' : total (s ++ s') = total s + total s'.
  Proof. unfold total. induction s as [|e s IH]; cbn [app fold_right]; [lia|]. rewrite IH. lia. Qed.
  Lemma tw_app x s s' : true_weight x (s ++ s') = true_weight x s + true_weight x s'.
  Proof.
    unfold true_weight. induction s as [|e s IH]; cbn [app fold_right]; [lia|].
    rewrite IH. destruct (N.eqb (fst e) x); lia.
  Qed.

  (* the invariant: every cell holds the weight of the stream elements hashing to it *)
  Definition good (s : list (N * Z)) (M : matrix) : Prop :=
    wf M /\ (forall i j, (i < depth)%nat -> cell M i j = cell_weight i j s)
         /\ (forall i, (i < depth)%nat -> rowsum M i = total s).

  Lemma repeat_nth {A} (a d : A) n : forall k, (k < n)%nat -> nth k (repeat a n) d = a.
  Proof. induction n as [|n IH]; intros [|k] H; cbn [repeat nth]; try lia; [reflexivity|]. apply IH. lia. Qed.
  Lemma repeat_nth0 n : forall k, nth k (repeat 0 n) 0 = 0.
  Proof. induction n as [|n IH]; intros [|k]; cbn [repeat nth]; try reflexivity. apply IH. Qed.
  Lemma sumz_repeat0 n : sumz (repeat 0 n) = 0.
  Proof. induction n as [|n IH]; cbn [repeat sumz fold_right]; [reflexivity|]. fold (sumz (repeat 0 n)). lia. Qed.

  Lemma good_init : good [] init.
  Proof.
    unfold CMS.init. repeat split.
    - apply repeat_length.
    - intros i Hi. rewrite repeat_nth by exact Hi. apply repeat_length.
    - intros i j Hi. unfold cell. rewrite repeat_nth by exact Hi. apply repeat_nth0.
    - intros i Hi. unfold rowsum. rewrite repeat_nth by exact Hi. apply sumz_repeat0.
  Qed.

  Lemma good_add s M x d : good s M -> good (s ++ [(x, d)]) (add M x d).
  Proof.
    intros (Hw & Hc & Hr). repeat split.
    - apply (add_wf M x d Hw).
    - apply (add_wf M x d Hw).
    - intros i j Hi. rewrite cell_add by assumption. rewrite cw_app, Hc by exact Hi.
      assert (E : cell_weight i j [(x, d)] = if Nat.eqb j (loc i x) then d else 0).
      { unfold CMS.cell_weight. cbn [fold_right fst snd]. destruct (Nat.eqb j (loc i x)); lia. }
      rewrite E. destruct (Nat.eqb j (loc i x)); lia.
    - intros i Hi. rewrite rowsum_add by assumption. rewrite total_app, Hr by exact Hi.
      assert (E : total [(x, d)] = d) by (unfold total; cbn [fold_right snd]; lia).
      rewrite E. lia.
  Qed.

  Lemma good_runs s' : forall s M, good s M -> good (s ++ s') (runs s' M).
  Proof.
    induction s' as [|[x d] s' IH]; intros s M H; cbn [runs fold_left fst snd].
    - now rewrite app_nil_r.
    - replace (s ++ (x, d) :: s') with ((s ++ [(x, d)]) ++ s') by (rewrite <- app_assoc; reflexivity).
      apply IH. apply good_add. exact H.
  Qed.

  Lemma good_step s M o : good s M -> good (s ++ flat1 o) (step M o).
  Proof. intros H. rewrite step_runs. apply good_runs. exact H. Qed.

  Lemma good_fold ops : forall s M, good s M -> good (s ++ flat ops) (fold_left step ops M).
  Proof.
    induction ops as [|o ops IH]; intros s M H; cbn [fold_left flat flat_map].
    - now rewrite app_nil_r.
    - rewrite app_assoc. apply IH. apply good_step. exact H.
  Qed.

  Theorem good_run ops : good (flat ops) (run ops).
  Proof. unfold CMS.run. apply (good_fold ops [] init good_init). Qed.

  (* ---- consequences of the invariant ---- *)
  Lemma cw_ge_true s x i : nonneg s -> true_weight x s <= cell_weight i (loc i x) s.
  Proof.
    unfold true_weight, CMS.cell_weight.
    induction 1 as [|e s Hd _ IH]; cbn [fold_right]; [lia|].
    destruct (N.eqb_spec (fst e) x) as [->|Hne].
    - rewrite Nat.eqb_refl. lia.
    - destruct (Nat.eqb (loc i x) (loc i (fst e))); lia.
  Qed.
  Lemma cw_le_total s i j : nonneg s -> cell_weight i j s <= total s.
  Proof.
    unfold total, CMS.cell_weight.
    induction 1 as [|e s Hd _ IH]; cbn [fold_right]; [lia|].
    destruct (Nat.eqb j (loc i (fst e))); lia.
  Qed.
  Lemma cw_nonneg s i j : nonneg s -> 0 <= cell_weight i j s.
  Proof.
    unfold CMS.cell_weight.
    induction 1 as [|e s Hd _ IH]; cbn [fold_right]; [lia|].
    destruct (Nat.eqb j (loc i (fst e))); lia.
  Qed.
  (* a cell no stream element hashes to holds 0 (justifies the sparse comparison of matrices) *)
  Lemma cw_support s i j : cell_weight i j s <> 0 -> exists e, In e s /\ loc i (fst e) = j.
  Proof.
    unfold CMS.cell_weight.
    induction s as [|e s IH]; cbn [fold_right]; [lia|].
    destruct (Nat.eqb_spec j (loc i (fst e))) as [E|E]; intros H.
    - exists e. split; [now left|now symmetry].
    - destruct (IH H) as (e' & Hin & Hl). exists e'. split; [now right|exact Hl].
  Qed.

  Lemma probes_bounds ops x : nonneg (flat ops) ->
    Forall (fun b => true_weight x (flat ops) <= b <= total (flat ops)) (probes (run ops) x).
  Proof.
    intros Hn. destruct (good_run ops) as (_ & Hc & _).
    unfold CMS.probes. apply Forall_forall. intros b Hb. apply in_map_iff in Hb.
    destruct Hb as (i & <- & Hi). apply in_seq in Hi. rewrite Hc by lia.
    pose proof (cw_ge_true (flat ops) x i Hn). pose proof (cw_le_total (flat ops) i (loc i x) Hn). lia.
  Qed.

  Theorem query_bounds ops x q : nonneg (flat ops) -> query (run ops) x = Some q ->
    true_weight x (flat ops) <= q <= total (flat ops).
  Proof.
    intros Hn. unfold CMS.query. pose proof (probes_bounds ops x Hn) as HF.
    destruct (probes (run ops) x) as [|a r]; [discriminate|]. intros [= <-].
    inversion HF; subst. apply minl_bounds; assumption.
  Qed.

  Theorem query_defined M x : (1 <= depth)%nat -> exists q, query M x = Some q.
  Proof.
    clear width_pos.
    intros Hd. unfold CMS.query, CMS.probes. destruct depth as [|n]; [lia|]. cbn [seq map]. eexists. reflexivity.
  Qed.

  (* the estimate is the minimum of the probed cells (one per row, at the update-side location) *)
  Theorem query_is_min M x q : query M x = Some q ->
    In q (probes M x) /\ Forall (fun b => q <= b) (probes M x).
  Proof.
    clear width_pos.
    unfold CMS.query. destruct (probes M x) as [|a r]; [discriminate|]. intros [= <-].
    destruct (minl_le r a) as [H1 H2]. split.
    - destruct (minl_in r a) as [H|H]; [rewrite H; now left|now right].
    - constructor; assumption.
  Qed.

  Theorem rows_total ops i : (i < depth)%nat -> rowsum (run ops) i = total (flat ops).
  Proof. intros Hi. destruct (good_run ops) as (_ & _ & Hr). now apply Hr. Qed.

  Theorem cell_char ops i j : (i < depth)%nat -> cell (run ops) i j = cell_weight i j (flat ops).
  Proof. intros Hi. destruct (good_run ops) as (_ & Hc & _). now apply Hc. Qed.

  Theorem cell_support ops i j : (i < depth)%nat -> cell (run ops) i j <> 0 ->
    exists e, In e (flat ops) /\ loc i (fst e) = j.
  Proof. intros Hi H. rewrite cell_char in H by exact Hi. now apply cw_support. Qed.

  Theorem shape ops : length (run ops) = depth /\ forall i, (i < depth)%nat -> length (nth i (run ops) []) = width.
  Proof. destruct (good_run ops) as (Hw & _). exact Hw. Qed.

  (* ---- the checker ---- *)
  Definition clause1 (items : list N) (s : list (N * Z)) (qs rs : list Z) : Prop :=
    length qs = length items /\
    (forall x q, In (x, q) (combine items qs) -> true_weight x s <= q <= total s) /\
    length rs = depth /\ (forall r, In r rs -> r = total s).

  Lemma check1_sound items s qs rs : check1 depth items s qs rs = true -> clause1 items s qs rs.
  Proof.
    clear width_pos.
    unfold check1, clause1. intros H.
    apply andb_prop in H. destruct H as [H H4]. apply andb_prop in H. destruct H as [H H3].
    apply andb_prop in H. destruct H as [H1 H2].
    apply Nat.eqb_eq in H1. apply Nat.eqb_eq in H3. rewrite forallb_forall in H2, H4.
    repeat split; try assumption.
    - specialize (H2 (x, q) H). cbn [fst snd] in H2. lia.
    - specialize (H2 (x, q) H). cbn [fst snd] in H2. lia.
    - intros r Hr. specialize (H4 r Hr). lia.
  Qed.

  (* what the model returns after every prefix *)
  Definition model_obs (items : list N) (M : matrix) : list Z * list Z :=
    (map (fun x => oz (query M x)) items, map (fun i => rowsum M i) (seq 0 depth)).

  Lemma check1_model items s M : (1 <= depth)%nat -> nonneg s -> good s M ->
    check1 depth items s (fst (model_obs items M)) (snd (model_obs items M)) = true.
  Proof.
    intros Hd Hn (Hw & Hc & Hr). unfold check1, model_obs. cbn [fst snd].
    rewrite !map_length, seq_length, !Nat.eqb_refl. cbn [andb].
    apply andb_true_intro. split; [rewrite andb_true_r|].
    - apply forallb_forall. intros [x q] Hin. cbn [fst snd].
      assert (Hq : q = oz (query M x)).
      { revert Hin. clear. induction items as [|y it IH]; cbn [map combine]; [contradiction|].
        intros [E|H]; [now inversion E|now apply IH]. }
      subst q. destruct (query_defined M x Hd) as [q Eq]. rewrite Eq. cbn [oz].
      assert (HF : Forall (fun b => true_weight x s <= b <= total s) (probes M x)).
      { unfold CMS.probes. apply Forall_forall. intros b Hb. apply in_map_iff in Hb.
        destruct Hb as (i & <- & Hi). apply in_seq in Hi. rewrite Hc by lia.
        pose proof (cw_ge_true s x i Hn). pose proof (cw_le_total s i (loc i x) Hn). lia. }
      unfold CMS.query in Eq. destruct (probes M x) as [|a r]; [discriminate|]. injection Eq as <-.
      inversion HF; subst. pose proof (minl_bounds _ _ r a H1 H2). lia.
    - apply forallb_forall. intros r Hin. apply in_map_iff in Hin. destruct Hin as (i & <- & Hi).
      apply in_seq in Hi. rewrite Hr by lia. lia.
  Qed.

  Lemma nonneg_app s s' : nonneg (s ++ s') <-> nonneg s /\ nonneg s'.
  Proof. unfold nonneg. apply Forall_app. Qed.

  Lemma checkb_model items ops : (1 <= depth)%nat -> forall s M, nonneg (s ++ flat ops) -> good s M ->
    checkb depth items s ops (map (model_obs items) (trace M ops)) = true.
  Proof.
    intros Hd. induction ops as [|o ops IH]; intros s M Hn Hg; cbn [CMS.trace map checkb]; [reflexivity|].
    cbn [flat flat_map] in Hn. rewrite app_assoc in Hn.
    assert (Hg' : good (s ++ flat1 o) (step M o)) by (apply good_step; exact Hg).
    assert (Hn' : nonneg (s ++ flat1 o)) by (apply nonneg_app in Hn; tauto).
    pose proof (check1_model items _ _ Hd Hn' Hg') as H1.
    destruct (model_obs items (step M o)) as [qs rs] eqn:E. cbn [fst snd] in H1. rewrite H1. cbn [andb].
    apply IH; assumption.
  Qed.

  Theorem model_ok items ops : (1 <= depth)%nat -> nonneg (flat ops) ->
    checkb depth items [] ops (map (model_obs items) (trace init ops)) = true.
  Proof. intros Hd Hn. apply checkb_model; [exact Hd|exact Hn|apply good_init]. Qed.
End P.

(* ---- observation (outside the property): the hash of the code is ADDITIVE in the seed,
        cms_hash(x, seed, width) = (uint32(hash x) + seed) mod width  in 64-bit arithmetic.
        Two items then collide in one row iff they collide in every row, every row holds the same
        multiset of cell values up to a cyclic shift, and all depth probes of an item are equal:
        the minimum over rows is the value of any single row and depth adds no accuracy. ---- *)
Lemma zmod_cancel a b c w : 0 < w -> ((a + c) mod w = (b + c) mod w <-> a mod w = b mod w).
Proof.
  intros Hw. split; intros H.
  - assert (E : (a - b) mod w = 0).
    { replace (a - b) with ((a + c) - (b + c)) by lia. rewrite Zminus_mod, H, Z.sub_diag. apply Z.mod_0_l. lia. }
    rewrite Zminus_mod in E.
    pose proof (Z.mod_pos_bound a w Hw). pose proof (Z.mod_pos_bound b w Hw).
    apply Z.mod_divide in E; [|lia]. destruct E as [k Ek].
    assert (k = 0) by nia. lia.
  - rewrite (Z.add_mod a c), (Z.add_mod b c), H by lia. reflexivity.
Qed.

Lemma nmod_cancel (a b c w : N) : (w <> 0)%N -> (((a + c) mod w = (b + c) mod w)%N <-> (a mod w = b mod w)%N).
Proof.
  intros Hw.
  pose proof (zmod_cancel (Z.of_N a) (Z.of_N b) (Z.of_N c) (Z.of_N w)) as H.
  rewrite <- !N2Z.inj_add, <- !N2Z.inj_mod in H. rewrite !N2Z.inj_iff in H. apply H; lia.
Qed.

Section Additive.
  Variables depth width : nat.
  Variable h : N -> N.                 (* uint32(hash(x)) *)
  Variable s : nat -> N.               (* hash_seeds[i] *)
  Hypothesis width_pos : (1 <= width)%nat.
  Definition pre_add (i : nat) (x : N) : N := (h x + s i)%N.

  Lemma loc_add_eq i x y :
    loc width pre_add i y = loc width pre_add i x <-> (h y mod N.of_nat width = h x mod N.of_nat width)%N.
  Proof.
    unfold loc, pre_add. rewrite N2Nat.inj_iff. apply nmod_cancel. lia.
  Qed.

  Lemma cw_rows_agree i i' x st :
    cell_weight width pre_add i (loc width pre_add i x) st = cell_weight width pre_add i' (loc width pre_add i' x) st.
  Proof.
    unfold cell_weight. induction st as [|e st IH]; cbn [fold_right]; [reflexivity|]. rewrite IH.
    assert (B : Nat.eqb (loc width pre_add i x) (loc width pre_add i (fst e))
              = Nat.eqb (loc width pre_add i' x) (loc width pre_add i' (fst e))).
    { apply Bool.eq_iff_eq_true. rewrite !Nat.eqb_eq.
      split; intros H; symmetry in H; apply loc_add_eq in H; symmetry; apply loc_add_eq; exact H. }
    rewrite B. reflexivity.
  Qed.

  Theorem additive_rows_agree ops x i i' : (i < depth)%nat -> (i' < depth)%nat ->
    cell (run depth width pre_add ops) i (loc width pre_add i x)
    = cell (run depth width pre_add ops) i' (loc width pre_add i' x).
  Proof.
    intros Hi Hi'. rewrite !(cell_char depth width pre_add width_pos) by assumption. apply cw_rows_agree.
  Qed.
End Additive.
