(* C16 — Python dicts with string keys (insertion-ordered) and the namespace-map reader parse_namespace.
   Model file: definitions only (proofs in IO/NamespaceProofs.v). *)
From Coq Require Import List NArith Bool.
From Outrank Require Import IO.Str.
Import ListNotations.
Open Scope N_scope.

(* dict: association list in insertion order; assigning to an existing key keeps its position *)
Definition dict := list (str * str).

Fixpoint dict_get (k : str) (d : dict) : option str :=
  match d with
  | [] => None
  | (k', v) :: r => if str_eqb k k' then Some v else dict_get k r
  end.

Fixpoint dict_set (k v : str) (d : dict) : dict :=
  match d with
  | [] => [(k, v)]
  | (k', v') :: r => if str_eqb k k' then (k', v) :: r else (k', v') :: dict_set k v r
  end.

Definition dict_keys (d : dict) : list str := map fst d.
Definition dict_values (d : dict) : list str := map snd d.

(* set.add on a set kept as a duplicate-free list (the harness compares it as a set) *)
Definition set_mem (x : str) (s : list str) : bool := existsb (str_eqb x) s.
Definition set_add (x : str) (s : list str) : list str := if set_mem x s then s else s ++ [x].

Definition F32 : str := [102; 51; 50].

(* one iteration of the loop body of parse_namespace on one physical line:
     parts = line.strip().split(',')
     2 parts and no '_' in parts[0]  -> id, feature (type generic)
     otherwise exactly 3 parts       -> id, feature, type      (any other count raises inside the
                                                                 try and the line is skipped)      *)
Definition ns_step (st : list str * dict) (line : str) : list str * dict :=
  match split_on COMMA (strip_ws line) with
  | [id; feat] => if mem USCORE id then st else (fst st, dict_set id feat (snd st))
  | [id; feat; ty] => ((if str_eqb ty F32 then set_add feat (fst st) else fst st), dict_set id feat (snd st))
  | _ => st
  end.

Definition parse_namespace_lines (lines : list str) : list str * dict := fold_left ns_step lines ([], []).
(* (float_set, id_feature_map) from the text of the file *)
Definition parse_namespace (text : str) : list str * dict := parse_namespace_lines (phys_lines text).

(* parse_ob_vw_feature_information: column order of the VW table *)
Definition LABEL : str := [108; 97; 98; 101; 108].
Definition vw_header (fw : dict) : list str := LABEL :: dict_values fw.

(* a declaration as written in the map file: id, feature and optionally a type *)
Definition decl := (str * str * option str)%type.
Definition d_id (d : decl) : str := fst (fst d).
Definition d_feat (d : decl) : str := snd (fst d).
Definition d_ty (d : decl) : option str := snd d.
Definition decl_fields (d : decl) : list str :=
  match d_ty d with Some ty => [d_id d; d_feat d; ty] | None => [d_id d; d_feat d] end.
Definition render_decl (d : decl) : str := join_with [COMMA] (decl_fields d) ++ [LF].

(* specification side: the value a key has after all assignments = the last one *)
Fixpoint assoc_last (k : str) (kvs : list (str * str)) : option str :=
  match kvs with
  | [] => None
  | (k', v) :: r => match assoc_last k r with
                    | Some x => Some x
                    | None => if str_eqb k k' then Some v else None
                    end
  end.
(* keys in order of first appearance *)
Definition keys_first (ks : list str) : list str := fold_left (fun acc k => set_add k acc) ks [].
