(* C16 — dict lemmas and the namespace-map reader: mapping = last declaration per id (keys in order of
   first declaration), float set = features declared f32. *)
From Coq Require Import List NArith Bool Lia.
From Outrank Require Import IO.Str IO.StrProofs IO.Namespace.
Import ListNotations.
Open Scope N_scope.

(* ---------- string equality ---------- *)

Lemma str_eqb_eq a : forall b, str_eqb a b = true <-> a = b.
Proof.
  induction a as [|x a IH]; intros [|y b]; cbn [str_eqb]; split; intros H; try reflexivity; try discriminate.
  - apply andb_true_iff in H. destruct H as [H1 H2]. apply N.eqb_eq in H1. apply IH in H2. congruence.
  - inversion H; subst. rewrite N.eqb_refl. cbn. apply IH. reflexivity.
Qed.

Lemma str_eqb_refl a : str_eqb a a = true.
Proof. apply str_eqb_eq. reflexivity. Qed.

Lemma str_eqb_neq a b : str_eqb a b = false <-> a <> b.
Proof.
  split.
  - intros H E. apply str_eqb_eq in E. congruence.
  - intros H. destruct (str_eqb a b) eqn:E; [|reflexivity]. apply str_eqb_eq in E. contradiction.
Qed.

Lemma str_eqb_trans_l a b c : str_eqb a b = true -> str_eqb a c = str_eqb b c.
Proof. intros H. apply str_eqb_eq in H. subst. reflexivity. Qed.

(* ---------- dict ---------- *)

Lemma dict_get_set k k' v d : dict_get k (dict_set k' v d) = if str_eqb k k' then Some v else dict_get k d.
Proof.
  induction d as [|[k0 v0] d IH]; cbn [dict_set dict_get].
  - reflexivity.
  - destruct (str_eqb k' k0) eqn:E; cbn [dict_get].
    + apply str_eqb_eq in E. subst k0. destruct (str_eqb k k'); reflexivity.
    + rewrite IH. destruct (str_eqb k k0) eqn:E0; [|reflexivity].
      apply str_eqb_eq in E0. subst k0. destruct (str_eqb k k') eqn:E1; [|reflexivity].
      apply str_eqb_eq in E1. subst k'. rewrite str_eqb_refl in E. discriminate.
Qed.

Definition assign (d : dict) (kv : str * str) : dict := dict_set (fst kv) (snd kv) d.

(* after a sequence of assignments a key holds the last value assigned to it *)
Lemma dict_get_assignments k kvs : forall d0,
  dict_get k (fold_left assign kvs d0) =
  match assoc_last k kvs with Some x => Some x | None => dict_get k d0 end.
Proof.
  induction kvs as [|[k' v] kvs IH]; intros d0; [reflexivity|].
  cbn [fold_left assoc_last]. rewrite IH. destruct (assoc_last k kvs); [reflexivity|].
  unfold assign. cbn [fst snd]. rewrite dict_get_set. destruct (str_eqb k k'); reflexivity.
Qed.

Lemma dict_keys_set k v d : dict_keys (dict_set k v d) = set_add k (dict_keys d).
Proof.
  unfold dict_keys, set_add, set_mem. induction d as [|[k0 v0] d IH]; cbn [dict_set map fst existsb app]; [reflexivity|].
  destruct (str_eqb k k0) eqn:E; cbn [map fst orb]; [reflexivity|].
  rewrite IH. destruct (existsb (str_eqb k) (map fst d)); reflexivity.
Qed.

Lemma dict_keys_assignments kvs : forall d0,
  dict_keys (fold_left assign kvs d0) = fold_left (fun acc k => set_add k acc) (map fst kvs) (dict_keys d0).
Proof.
  induction kvs as [|[k v] kvs IH]; intros d0; [reflexivity|].
  cbn [fold_left map fst]. rewrite IH. unfold assign. cbn [fst snd]. rewrite dict_keys_set. reflexivity.
Qed.

(* ---------- sets as lists ---------- *)

Lemma set_mem_In x s : set_mem x s = true <-> In x s.
Proof.
  unfold set_mem. rewrite existsb_exists. split.
  - intros [y [Hy E]]. apply str_eqb_eq in E. subst. exact Hy.
  - intros H. exists x. split; [exact H|apply str_eqb_refl].
Qed.

Lemma set_add_In f x s : In f (set_add x s) <-> f = x \/ In f s.
Proof.
  unfold set_add. destruct (set_mem x s) eqn:E.
  - apply set_mem_In in E. split; [auto|]. intros [->|H]; assumption.
  - rewrite in_app_iff. cbn [In]. split; [intros [H|[H|[]]]; auto | intros [H|H]; auto].
Qed.

Lemma set_add_NoDup x s : NoDup s -> NoDup (set_add x s).
Proof.
  intros H. unfold set_add. destruct (set_mem x s) eqn:E; [exact H|].
  assert (Hn : ~ In x s). { intros Hin. apply set_mem_In in Hin. congruence. }
  clear E. induction s as [|y s IH]; cbn [app].
  - constructor; [intros []|constructor].
  - inversion H as [|? ? Hy Hs]; subst. constructor.
    + rewrite in_app_iff. cbn [In]. intros [Hin|[Hin|[]]]; [contradiction|]. apply Hn. left. symmetry. exact Hin.
    + apply IH; [exact Hs|]. intros Hin. apply Hn. right. exact Hin.
Qed.

(* ---------- the reader ---------- *)

Definition ns_field (f : str) : Prop := none (fun c => (c =? COMMA) || is_nl c) f.

(* a declaration line as the reader accepts it: fields without comma / line break, the written line
   neither starts nor ends with white space, and a two-field declaration has no underscore in its id *)
Definition wf_decl (d : decl) : Prop :=
  Forall ns_field (decl_fields d) /\
  edge_clean (join_with [COMMA] (decl_fields d)) /\
  (d_ty d = None -> mem USCORE (d_id d) = false).

Definition apply_decl (st : list str * dict) (d : decl) : list str * dict :=
  (match d_ty d with
   | Some ty => if str_eqb ty F32 then set_add (d_feat d) (fst st) else fst st
   | None => fst st
   end,
   dict_set (d_id d) (d_feat d) (snd st)).

Lemma ns_field_no_comma f : ns_field f -> none (N.eqb COMMA) f.
Proof. apply none_weaken. intros x H. rewrite N.eqb_sym in H. rewrite H. reflexivity. Qed.

Lemma ns_field_no_nl f : ns_field f -> none is_nl f.
Proof. apply none_weaken. intros x H. rewrite H. apply orb_true_r. Qed.

Theorem ns_step_render st d : wf_decl d -> ns_step st (render_decl d) = apply_decl st d.
Proof.
  intros (HF & Hedge & Hus). unfold ns_step, render_decl.
  rewrite strip_ws_lf by exact Hedge.
  rewrite split_on_join.
  - destruct d as [[id feat] [ty|]]; unfold decl_fields, apply_decl, d_ty, d_id, d_feat; cbn [fst snd].
    + reflexivity.
    + unfold d_ty, d_id in Hus. cbn [fst snd] in Hus. rewrite (Hus eq_refl). reflexivity.
  - destruct d as [[id feat] [ty|]]; discriminate.
  - eapply Forall_impl; [|exact HF]. intros f. apply ns_field_no_comma.
Qed.

(* the quirk: a two-field declaration whose id contains an underscore is skipped silently *)
Theorem ns_step_underscore_skipped st id feat :
  Forall ns_field [id; feat] -> edge_clean (join_with [COMMA] [id; feat]) -> mem USCORE id = true ->
  ns_step st (render_decl (id, feat, None)) = st.
Proof.
  intros HF Hedge Hus. unfold ns_step, render_decl, decl_fields, d_ty, d_id, d_feat. cbn [fst snd].
  rewrite strip_ws_lf by exact Hedge.
  rewrite split_on_join; [|discriminate|eapply Forall_impl; [|exact HF]; intros f; apply ns_field_no_comma].
  rewrite Hus. reflexivity.
Qed.

(* lines with another number of fields are skipped *)
Theorem ns_step_other_counts st line :
  length (split_on COMMA (strip_ws line)) <> 2%nat -> length (split_on COMMA (strip_ws line)) <> 3%nat ->
  ns_step st line = st.
Proof.
  unfold ns_step. destruct (split_on COMMA (strip_ws line)) as [|a [|b [|c [|e r]]]]; cbn [length]; intros H2 H3;
    try reflexivity; congruence.
Qed.

Lemma fold_ns_render decls : forall st, Forall wf_decl decls ->
  fold_left ns_step (map render_decl decls) st = fold_left apply_decl decls st.
Proof.
  induction decls as [|d decls IH]; intros st HF; [reflexivity|].
  inversion HF as [|? ? Hd HF']; subst. cbn [map fold_left]. rewrite ns_step_render by exact Hd. apply IH, HF'.
Qed.

Definition decl_kv (d : decl) : str * str := (d_id d, d_feat d).
Definition declares_f32 (decls : list decl) (f : str) : Prop :=
  exists d, In d decls /\ d_feat d = f /\ d_ty d = Some F32.

Lemma fold_apply_snd decls : forall st,
  snd (fold_left apply_decl decls st) = fold_left assign (map decl_kv decls) (snd st).
Proof. induction decls as [|d decls IH]; intros st; [reflexivity|]. cbn [fold_left map]. rewrite IH. reflexivity. Qed.

Lemma fold_apply_fst decls : forall st f,
  In f (fst (fold_left apply_decl decls st)) <-> In f (fst st) \/ declares_f32 decls f.
Proof.
  induction decls as [|d decls IH]; intros st f.
  - cbn [fold_left]. split; [auto|]. intros [H|[d [[] _]]]. exact H.
  - cbn [fold_left]. rewrite IH. unfold apply_decl at 1. cbn [fst]. split.
    + intros [H|[d' (Hin & Hf & Hty)]].
      * destruct (d_ty d) as [ty|] eqn:Ety; [|left; exact H].
        destruct (str_eqb ty F32) eqn:E; [|left; exact H].
        apply set_add_In in H. destruct H as [->|H]; [|left; exact H].
        right. exists d. apply str_eqb_eq in E. subst ty. split; [left; reflexivity|]. split; [reflexivity|exact Ety].
      * right. exists d'. split; [right; exact Hin|]. split; assumption.
    + intros [H|[d' ([->|Hin] & Hf & Hty)]].
      * left. destruct (d_ty d) as [ty|]; [|exact H]. destruct (str_eqb ty F32); [|exact H]. apply set_add_In. right. exact H.
      * left. rewrite Hty. rewrite str_eqb_refl. apply set_add_In. left. symmetry. exact Hf.
      * right. exists d'. split; [exact Hin|]. split; assumption.
Qed.

Lemma fold_apply_NoDup decls : forall st, NoDup (fst st) -> NoDup (fst (fold_left apply_decl decls st)).
Proof.
  induction decls as [|d decls IH]; intros st H; [exact H|]. cbn [fold_left]. apply IH.
  unfold apply_decl. cbn [fst]. destruct (d_ty d) as [ty|]; [|exact H]. destruct (str_eqb ty F32); [|exact H].
  apply set_add_NoDup, H.
Qed.

Lemma render_decl_lines decls : Forall wf_decl decls ->
  phys_lines (concat (map render_decl decls)) = map render_decl decls.
Proof.
  intros HF. unfold render_decl.
  rewrite <- (map_map (fun d => join_with [COMMA] (decl_fields d)) (fun l => l ++ [LF])).
  apply phys_lines_concat. apply Forall_map. eapply Forall_impl; [|exact HF].
  intros d (Hf & _ & _). apply none_join; [reflexivity|]. eapply Forall_impl; [|exact Hf]. intros f. apply ns_field_no_nl.
Qed.

(* the reader on the text of a map file made of well-formed declarations *)
Theorem parse_namespace_spec decls : Forall wf_decl decls ->
  let r := parse_namespace (concat (map render_decl decls)) in
  (forall id, dict_get id (snd r) = assoc_last id (map decl_kv decls)) /\
  dict_keys (snd r) = keys_first (map d_id decls) /\
  (forall f, In f (fst r) <-> declares_f32 decls f) /\
  NoDup (fst r).
Proof.
  intros HF. cbv zeta. unfold parse_namespace, parse_namespace_lines.
  rewrite render_decl_lines by exact HF. rewrite fold_ns_render by exact HF.
  split; [|split; [|split]].
  - intros id. rewrite fold_apply_snd, dict_get_assignments. cbn [snd dict_get].
    destruct (assoc_last id (map decl_kv decls)); reflexivity.
  - rewrite fold_apply_snd, dict_keys_assignments. cbn [snd dict_keys map]. unfold keys_first.
    rewrite map_map. reflexivity.
  - intros f. rewrite fold_apply_fst. cbn [fst In]. tauto.
  - apply fold_apply_NoDup. constructor.
Qed.

(* simple sufficient condition for the edge condition of wf_decl *)
Lemma edge_clean_join a fields z :
  a <> [] -> head_ok is_space a -> z <> [] -> last_ok is_space z ->
  edge_clean (join_with [COMMA] (a :: fields ++ [z])).
Proof.
  intros Ha Hha Hz Hlz. split.
  - destruct (fields ++ [z]) eqn:E; [destruct fields; discriminate|].
    change (join_with [COMMA] (a :: l :: l0)) with (a ++ [COMMA] ++ join_with [COMMA] (l :: l0)).
    apply head_ok_app; assumption.
  - assert (G : forall fs x, exists pre, join_with [COMMA] (x :: fs ++ [z]) = pre ++ z).
    { induction fs as [|f fs IH]; intros x.
      - exists (x ++ [COMMA]). cbn [app join_with]. rewrite <- app_assoc. reflexivity.
      - destruct (IH f) as [pre Hpre]. exists (x ++ [COMMA] ++ pre).
        change (join_with [COMMA] (x :: (f :: fs) ++ [z])) with (x ++ [COMMA] ++ join_with [COMMA] (f :: fs ++ [z])).
        rewrite Hpre. rewrite <- !app_assoc. reflexivity. }
    destruct (G fields a) as [pre Hpre]. rewrite Hpre. apply last_ok_app; assumption.
Qed.

Example namespace_nonvacuous :
  let decls : list decl :=
    [([97], [102; 49], Some F32); ([98], [102; 50], None); ([97], [102; 51], Some [105; 51; 50]); ([99; 95; 49], [102; 50], Some F32)] in
  Forall wf_decl decls /\
  parse_namespace (concat (map render_decl decls)) =
    ([[102; 49]; [102; 50]], [([97], [102; 51]); ([98], [102; 50]); ([99; 95; 49], [102; 50])]).
Proof.
  split.
  - repeat constructor; try discriminate.
  - vm_compute. reflexivity.
Qed.
