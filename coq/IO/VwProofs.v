(* C16 — the VW parser puts every namespace's tokens, joined by '-' and without the first two
   characters, into the column of that namespace; absent namespaces are None; label = first token. *)
From Coq Require Import List NArith Bool Lia.
From Outrank Require Import IO.Str IO.StrProofs IO.Namespace IO.NamespaceProofs IO.Vw.
Import ListNotations.
Open Scope N_scope.

(* a word: label, namespace id or token.  Non-empty, no ' ' and no '|' inside, and it neither begins
   nor ends with a white-space character (str.strip() would eat it) *)
Definition word (w : str) : Prop :=
  w <> [] /\ none (fun c => (c =? SP) || (c =? BAR)) w /\ edge_clean w.

Definition wf_toks (toks : list (nat * str)) : Prop := Forall (fun gt => word (snd gt)) toks.
Definition wf_ns (ns : vw_ns) : Prop := word (ns_id ns) /\ wf_toks (ns_toks ns).
Definition wf_vw (l : vw_line) : Prop := word (vl_label l) /\ wf_toks (vl_extra l) /\ Forall wf_ns (vl_nss l).

Lemma word_no_sp w : word w -> none (N.eqb SP) w.
Proof. intros (_ & H & _). revert H. apply none_weaken. intros x H. rewrite N.eqb_sym in H. rewrite H. reflexivity. Qed.

Lemma word_no_bar w : word w -> none (N.eqb BAR) w.
Proof.
  intros (_ & H & _). revert H. apply none_weaken. intros x H. rewrite N.eqb_sym in H. rewrite H. apply orb_true_r.
Qed.

Lemma none_repeat_sp_bar n : none (N.eqb BAR) (repeat SP n).
Proof. induction n; cbn [repeat]; [reflexivity|]. apply none_cons. split; [reflexivity|assumption]. Qed.

(* ---------- tokens ---------- *)

Lemma render_toks_cons g t toks : render_toks ((g, t) :: toks) = (SP :: repeat SP g ++ t) ++ render_toks toks.
Proof. reflexivity. Qed.

Lemma render_toks_no_bar toks : wf_toks toks -> none (N.eqb BAR) (render_toks toks).
Proof.
  induction toks as [|[g t] toks IH]; intros H; [reflexivity|]. inversion H as [|? ? Ht H']; subst.
  rewrite render_toks_cons. apply none_app. split; [|auto].
  apply none_cons. split; [reflexivity|]. apply none_app. split; [apply none_repeat_sp_bar|apply word_no_bar, Ht].
Qed.

(* the rendered token list is empty or starts with a space *)
Lemma render_toks_head toks k : render_toks toks ++ repeat SP k = [] \/ exists r, render_toks toks ++ repeat SP k = SP :: r.
Proof.
  destruct toks as [|[g t] toks].
  - destruct k; [left; reflexivity|right; eexists; reflexivity].
  - right. rewrite render_toks_cons. eexists. cbn [app]. reflexivity.
Qed.

Lemma render_toks_last toks : wf_toks toks -> toks <> [] ->
  render_toks toks <> [] /\ last_ok is_space (render_toks toks).
Proof.
  induction toks as [|[g t] toks IH]; intros H Hne; [congruence|]. inversion H as [|? ? Ht H']; subst.
  rewrite render_toks_cons. split; [discriminate|]. destruct toks as [|gt toks'].
  - cbn [render_toks flat_map]. rewrite app_nil_r. destruct Ht as (Hne' & _ & _ & Hl).
    change (SP :: repeat SP g ++ t) with ((SP :: repeat SP g) ++ t). apply last_ok_app; assumption.
  - destruct IH as [Hn Hl]; [exact H'|discriminate|]. apply last_ok_app; assumption.
Qed.

Lemma split_sp_repeat g x : split_on SP (repeat SP g ++ x) = repeat [] g ++ split_on SP x.
Proof. induction g as [|g IH]; [reflexivity|]. cbn [repeat app split_on]. rewrite N.eqb_refl, IH. reflexivity. Qed.

Definition tok_pieces (toks : list (nat * str)) : list str := flat_map (fun gt => repeat [] (fst gt) ++ [snd gt]) toks.

Lemma tok_pieces_cons g t toks : tok_pieces ((g, t) :: toks) = (repeat [] g ++ [t]) ++ tok_pieces toks.
Proof. reflexivity. Qed.

Lemma split_toks toks : forall a, none (N.eqb SP) a -> wf_toks toks ->
  split_on SP (a ++ render_toks toks) = a :: tok_pieces toks.
Proof.
  induction toks as [|[g t] toks IH]; intros a Ha H.
  - cbn [render_toks flat_map tok_pieces]. rewrite app_nil_r. apply split_on_none, Ha.
  - inversion H as [|? ? Ht H']; subst. rewrite render_toks_cons. cbn [app].
    rewrite split_on_app by exact Ha. rewrite <- app_assoc, split_sp_repeat.
    rewrite IH; [|apply word_no_sp, Ht|exact H']. rewrite tok_pieces_cons, <- app_assoc. reflexivity.
Qed.

Lemma filter_tok_pieces toks : wf_toks toks -> filter nonempty (tok_pieces toks) = map snd toks.
Proof.
  induction toks as [|[g t] toks IH]; intros H; [reflexivity|]. inversion H as [|? ? Ht H']; subst.
  rewrite tok_pieces_cons. rewrite !filter_app, IH by exact H'.
  assert (E : filter nonempty (repeat ([] : str) g) = []). { clear. induction g as [|g IHg]; [reflexivity|]. cbn. exact IHg. }
  rewrite E. destruct Ht as (Hne & _). cbn [snd] in Hne. destruct t; [congruence|]. reflexivity.
Qed.

(* ---------- one namespace part ---------- *)

Lemma ns_body_edge ns : wf_ns ns -> edge_clean (ns_body ns).
Proof.
  intros [(Hne & Hc & Hh & Hl) Ht]. unfold ns_body. split.
  - apply head_ok_app; assumption.
  - destruct (ns_toks ns) as [|gt toks] eqn:E.
    + cbn [render_toks flat_map]. rewrite app_nil_r. exact Hl.
    + destruct (render_toks_last (gt :: toks)) as [Hn Hl']; [exact Ht|discriminate|]. apply last_ok_app; assumption.
Qed.

Lemma vw_part_body ns w : wf_ns ns -> all is_space w -> vw_part (ns_body ns ++ w) = (ns_id ns, ns_joined ns).
Proof.
  intros Hwf Hw. unfold vw_part.
  assert (E : strip_ws (ns_body ns ++ w) = ns_body ns).
  { apply (strip_ws_pad [] (ns_body ns) w); [reflexivity|exact Hw|apply ns_body_edge, Hwf]. }
  rewrite E. unfold ns_body. destruct Hwf as [Hid Ht].
  rewrite split_toks; [|apply word_no_sp, Hid|exact Ht]. cbn [hd tl].
  rewrite filter_tok_pieces by exact Ht. reflexivity.
Qed.

Lemma ns_body_no_bar ns : wf_ns ns -> none (N.eqb BAR) (ns_body ns).
Proof. intros [Hid Ht]. unfold ns_body. apply none_app. split; [apply word_no_bar, Hid|apply render_toks_no_bar, Ht]. Qed.

(* ---------- the fold over the parts ---------- *)

Definition vw_assign1 (fw : dict) (ns : vw_ns) : list (str * str) :=
  match dict_get (ns_id ns) fw with Some f => [(f, ns_joined ns)] | None => [] end.

Lemma fold_vw_store fw parts nss : forall h,
  Forall2 (fun p ns => vw_part p = (ns_id ns, ns_joined ns)) parts nss ->
  fold_left (vw_store fw) parts h = fold_left assign (vw_assignments fw nss) h.
Proof.
  intros h H. revert h. induction H as [|p ns parts nss Hp H IH]; intros h; [reflexivity|].
  cbn [fold_left]. unfold vw_assignments. cbn [flat_map]. rewrite fold_left_app. fold (vw_assignments fw nss).
  rewrite IH. f_equal. unfold vw_store. rewrite Hp. destruct (dict_get (ns_id ns) fw); reflexivity.
Qed.

(* ---------- the whole line ---------- *)

Lemma join_last (sep : str) Q : exists pre, forall y, join_with sep (Q ++ [y]) = pre ++ y.
Proof.
  destruct Q as [|x P]; [exists []; reflexivity|]. revert x.
  induction P as [|p P IH]; intros x.
  - exists (x ++ sep). intros y. cbn [app join_with]. rewrite <- app_assoc. reflexivity.
  - destruct (IH p) as [pre Hpre]. exists (x ++ sep ++ pre). intros y.
    change (join_with sep ((x :: p :: P) ++ [y])) with (x ++ sep ++ join_with sep ((p :: P) ++ [y])).
    rewrite Hpre, <- !app_assoc. reflexivity.
Qed.

Lemma join_head (sep : str) x rest : exists r, join_with sep (x :: rest) = x ++ r.
Proof. destruct rest as [|y rest]; [exists []; cbn; rewrite app_nil_r; reflexivity|]. eexists. reflexivity. Qed.

(* stripping the line removes the terminator and the white space after the last part, nothing else;
   splitting on '|' then gives the parts back *)
Lemma split_strip_line Q b w :
  Forall (none (N.eqb BAR)) Q -> none (N.eqb BAR) b -> all is_space w ->
  b <> [] -> last_ok is_space b -> head_ok is_space (join_with [BAR] (Q ++ [b])) ->
  split_on BAR (strip_ws (join_with [BAR] (Q ++ [b ++ w]) ++ [LF])) = Q ++ [b].
Proof.
  intros HQ Hb Hw Hne Hl Hh. destruct (join_last [BAR] Q) as [pre Hpre].
  assert (E : join_with [BAR] (Q ++ [b ++ w]) ++ [LF] = [] ++ (pre ++ b) ++ (w ++ [LF])).
  { rewrite Hpre. cbn [app]. rewrite <- !app_assoc. reflexivity. }
  rewrite E, strip_ws_pad.
  - rewrite <- Hpre. apply split_on_join.
    + destruct Q; discriminate.
    + apply Forall_app. split; [exact HQ|]. constructor; [exact Hb|constructor].
  - reflexivity.
  - apply all_app. split; [exact Hw|reflexivity].
  - rewrite Hpre in Hh. split; [exact Hh|]. apply last_ok_app; assumption.
Qed.

Lemma label_of_head label rest :
  none (N.eqb SP) label -> (rest = [] \/ exists r, rest = SP :: r) -> hd [] (split_on SP (label ++ rest)) = label.
Proof.
  intros Hl [->|[r ->]].
  - rewrite app_nil_r, split_on_none by exact Hl. reflexivity.
  - rewrite split_on_app by exact Hl. reflexivity.
Qed.

Lemma render_ns_no_bar ns : wf_ns ns -> none (N.eqb BAR) (render_ns ns).
Proof. intros H. unfold render_ns. apply none_app. split; [apply ns_body_no_bar, H|apply none_repeat_sp_bar]. Qed.

Lemma vl_head_props l : wf_vw l ->
  vl_head l <> [] /\ head_ok is_space (vl_head l) /\ last_ok is_space (vl_head l) /\ none (N.eqb BAR) (vl_head l).
Proof.
  intros ((Hne & Hc & Hh & Hl) & Hex & _). unfold vl_head. split; [|split; [|split]].
  - destruct (vl_label l); [congruence|discriminate].
  - apply head_ok_app; assumption.
  - destruct (vl_extra l) as [|gt toks] eqn:E.
    + cbn [render_toks flat_map]. rewrite app_nil_r. exact Hl.
    + destruct (render_toks_last (gt :: toks)) as [Hn Hl']; [exact Hex|discriminate|]. apply last_ok_app; assumption.
  - apply none_app. split; [|apply render_toks_no_bar, Hex].
    revert Hc. apply none_weaken. intros x H. rewrite N.eqb_sym in H. rewrite H. apply orb_true_r.
Qed.

Lemma Forall2_map_self {A B} (f : A -> B) (P : B -> A -> Prop) l :
  Forall (fun a => P (f a) a) l -> Forall2 P (map f l) l.
Proof. induction 1; cbn [map]; constructor; assumption. Qed.

(* what the parser sees after strip + split: the head part (label, extras, maybe trailing blanks)
   and one part per namespace whose normal form is (id, joined tokens) *)
Lemma vw_parts l : wf_vw l ->
  exists k parts,
    split_on BAR (strip_ws (render_vw l)) = (vl_head l ++ repeat SP k) :: parts /\
    Forall2 (fun p ns => vw_part p = (ns_id ns, ns_joined ns)) parts (vl_nss l).
Proof.
  intros Hwf. destruct (vl_head_props l Hwf) as (Hne & Hh & Hl & Hb). destruct Hwf as (Hlab & Hex & Hnss).
  unfold render_vw. destruct (vl_nss l) as [|ns0 nss0].
  - (* no namespace part *)
    cbn [map].
    change [vl_head l ++ repeat SP (vl_trail l)] with ([] ++ [vl_head l ++ repeat SP (vl_trail l)]).
    rewrite split_strip_line;
      [| constructor | exact Hb | apply all_repeat; reflexivity | exact Hne | exact Hl | exact Hh].
    exists 0%nat, []. cbn [repeat app]. rewrite app_nil_r. split; [reflexivity|constructor].
  - destruct (@exists_last _ (ns0 :: nss0)) as [nss' [nsl E]]; [discriminate|]. rewrite E in *. clear E ns0 nss0.
    apply Forall_app in Hnss. destruct Hnss as [Hnss' Hnsl]. inversion Hnsl as [|? ? Hlast _]; subst.
    rewrite map_app. cbn [map].
    replace (map render_ns nss' ++ [render_ns nsl])
      with (map render_ns nss' ++ [ns_body nsl ++ repeat SP (ns_trail nsl)]) by reflexivity.
    rewrite app_comm_cons. rewrite split_strip_line.
    + exists (vl_trail l), (map render_ns nss' ++ [ns_body nsl]). split; [reflexivity|].
      apply Forall2_app.
      * apply Forall2_map_self. eapply Forall_impl; [|exact Hnss']. intros ns Hns. unfold render_ns.
        apply vw_part_body; [exact Hns|apply all_repeat; reflexivity].
      * constructor; [|constructor]. rewrite <- (app_nil_r (ns_body nsl)). apply vw_part_body; [exact Hlast|reflexivity].
    + constructor.
      * apply none_app. split; [exact Hb|apply none_repeat_sp_bar].
      * apply Forall_map. eapply Forall_impl; [|exact Hnss']. intros ns. apply render_ns_no_bar.
    + apply ns_body_no_bar, Hlast.
    + apply all_repeat. reflexivity.
    + destruct Hlast as [(Hn & _) _]. unfold ns_body. destruct (ns_id nsl); [congruence|discriminate].
    + apply ns_body_edge, Hlast.
    + rewrite <- app_comm_cons. destruct (join_head [BAR] (vl_head l ++ repeat SP (vl_trail l)) (map render_ns nss' ++ [ns_body nsl])) as [r Hr].
      rewrite Hr, <- app_assoc. apply head_ok_app; assumption.
Qed.

(* the (label, cells) the parser returns for a well-formed line *)
Theorem parse_vw_spec fw header l : wf_vw l ->
  parse_vw fw header (render_vw l) = Some (vl_label l) :: map (vw_cell fw (vl_nss l)) (tl header).
Proof.
  intros Hwf. destruct (vw_parts l Hwf) as (k & parts & Hsplit & HF2).
  unfold parse_vw. rewrite Hsplit. cbn [hd tl]. f_equal.
  - f_equal. unfold vl_head. rewrite <- app_assoc. apply label_of_head.
    + apply word_no_sp. exact (proj1 Hwf).
    + apply render_toks_head.
  - apply map_ext. intros el. unfold vw_cell. f_equal.
    rewrite (fold_vw_store fw parts (vl_nss l)) by exact HF2.
    rewrite dict_get_assignments. cbn [dict_get]. destruct (assoc_last el (vw_assignments fw (vl_nss l))); reflexivity.
Qed.

(* ---------- reading the specification: present / absent namespaces ---------- *)

Lemma assoc_last_app k a b :
  assoc_last k (a ++ b) = match assoc_last k b with Some x => Some x | None => assoc_last k a end.
Proof.
  induction a as [|[k' v] a IH]; cbn [app assoc_last]; [destruct (assoc_last k b); reflexivity|].
  rewrite IH. destruct (assoc_last k b); reflexivity.
Qed.

Lemma assoc_last_none k kvs : (forall v, ~ In (k, v) kvs) -> assoc_last k kvs = None.
Proof.
  induction kvs as [|[k' v] kvs IH]; intros H; [reflexivity|]. cbn [assoc_last].
  rewrite IH by (intros v' Hin; apply (H v'); right; exact Hin).
  destruct (str_eqb k k') eqn:E; [|reflexivity]. apply str_eqb_eq in E. subst k'. exfalso. apply (H v). left. reflexivity.
Qed.

Lemma in_vw_assignments fw nss f v :
  In (f, v) (vw_assignments fw nss) <-> exists ns, In ns nss /\ dict_get (ns_id ns) fw = Some f /\ ns_joined ns = v.
Proof.
  unfold vw_assignments. rewrite in_flat_map. split.
  - intros [ns [Hin H]]. exists ns. split; [exact Hin|]. destruct (dict_get (ns_id ns) fw) as [f'|]; [|destruct H].
    destruct H as [H|[]]. inversion H; subst. split; reflexivity.
  - intros [ns (Hin & Hf & Hv)]. exists ns. split; [exact Hin|]. rewrite Hf. left. rewrite Hv. reflexivity.
Qed.

(* absent: no namespace of the line maps to the column -> missing *)
Theorem vw_cell_absent fw nss el :
  (forall ns, In ns nss -> dict_get (ns_id ns) fw <> Some el) -> vw_cell fw nss el = None.
Proof.
  intros H. unfold vw_cell. rewrite assoc_last_none; [reflexivity|].
  intros v Hin. apply in_vw_assignments in Hin. destruct Hin as [ns (Hin & Hf & _)]. exact (H ns Hin Hf).
Qed.

(* present: the only namespace of the line that maps to the column puts its joined tokens, minus two
   characters, there *)
Theorem vw_cell_present fw nss ns el :
  In ns nss -> dict_get (ns_id ns) fw = Some el ->
  (forall ns', In ns' nss -> dict_get (ns_id ns') fw = Some el -> ns' = ns) ->
  vw_cell fw nss el = Some (skipn 2 (ns_joined ns)).
Proof.
  intros Hin Hf Huniq. unfold vw_cell.
  apply in_split in Hin. destruct Hin as (n1 & n2 & ->).
  assert (E : vw_assignments fw (n1 ++ ns :: n2) = vw_assignments fw n1 ++ [(el, ns_joined ns)] ++ vw_assignments fw n2).
  { unfold vw_assignments. rewrite flat_map_app. cbn [flat_map]. rewrite Hf. reflexivity. }
  rewrite E, !assoc_last_app.
  assert (E2 : forall v, ~ In (el, v) (vw_assignments fw n2) \/ v = ns_joined ns).
  { intros v. destruct (in_dec (list_eq_dec N.eq_dec) v [ns_joined ns]) as [[<-|[]]|Hn]; [right; reflexivity|].
    left. intros Hin. apply in_vw_assignments in Hin. destruct Hin as [ns' (Hin' & Hf' & Hv)].
    assert (ns' = ns). { apply Huniq; [|exact Hf']. apply in_or_app. right. right. exact Hin'. }
    subst ns'. apply Hn. left. exact Hv. }
  destruct (assoc_last el (vw_assignments fw n2)) as [x|] eqn:E3.
  - (* a later assignment exists only if it is the same namespace record: same value *)
    assert (Hx : In (el, x) (vw_assignments fw n2)).
    { clear -E3. induction (vw_assignments fw n2) as [|[k' v] kvs IH]; [discriminate|]. cbn [assoc_last] in E3.
      destruct (assoc_last el kvs) as [y|] eqn:Ey.
      - inversion E3; subst. right. apply IH. reflexivity.
      - destruct (str_eqb el k') eqn:Ek; [|discriminate]. apply str_eqb_eq in Ek. inversion E3; subst. left. reflexivity. }
    destruct (E2 x) as [Hn| ->]; [contradiction|reflexivity].
  - cbn [assoc_last]. rewrite str_eqb_refl. reflexivity.
Qed.

(* the reading of "without their two-character prefix": the code removes two characters from the JOINED
   string, so only the first token loses its prefix; later tokens keep theirs *)
Theorem vw_prefix_is_of_joined_string :
  (forall (t1 : list N) ts, (2 <= length t1)%nat -> ts <> [] ->
     skipn 2 (join_with [DASH] (t1 :: ts)) = skipn 2 t1 ++ [DASH] ++ join_with [DASH] ts) /\
  (exists fw header l, wf_vw l /\
     map snd (flat_map ns_toks (vl_nss l)) = [[99; 95; 120]; [99; 95; 121]] /\
     parse_vw fw header (render_vw l) = [Some [49]; Some [120; 45; 99; 95; 121]]).
Proof.
  split.
  - intros t1 ts H Hne. destruct ts as [|t2 ts]; [congruence|].
    change (join_with [DASH] (t1 :: t2 :: ts)) with (t1 ++ [DASH] ++ join_with [DASH] (t2 :: ts)).
    destruct t1 as [|a [|b t1]]; cbn [length] in H; try lia. reflexivity.
  - exists [([99], [102; 67])], [LABEL; [102; 67]],
           (mk_vw [49] [] 1 [mk_ns [99] [(0%nat, [99; 95; 120]); (0%nat, [99; 95; 121])] 0]).
    split; [|split; vm_compute; reflexivity].
    unfold wf_vw, wf_ns, wf_toks, word, edge_clean, last_ok. cbn.
    repeat split; try discriminate; repeat constructor; try discriminate.
Qed.

Example vw_nonvacuous :
  let fw : dict := [([97], [102; 65]); ([98], [102; 66]); ([99], [102; 67])] in
  let l := mk_vw [49] [(0%nat, [50; 46; 48])] 1
                 [mk_ns [99] [(0%nat, [99; 95; 120]); (1%nat, [99; 95; 121])] 1; mk_ns [97] [(0%nat, [97; 95; 233; 8364])] 0] in
  wf_vw l /\
  render_vw l = [49; 32; 50; 46; 48; 32; 124; 99; 32; 99; 95; 120; 32; 32; 99; 95; 121; 32; 124; 97; 32; 97; 95; 233; 8364; 10] /\
  parse_vw fw (vw_header fw) (render_vw l) = [Some [49]; Some [233; 8364]; None; Some [120; 45; 99; 95; 121]].
Proof.
  split; [|split; vm_compute; reflexivity].
  unfold wf_vw, wf_ns, wf_toks, word, edge_clean, last_ok. cbn.
  repeat split; try discriminate; repeat constructor; try discriminate.
Qed.
