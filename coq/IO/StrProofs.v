(* C16 — lemmas about the string operations of IO/Str.v (split / join / strip / physical lines). *)
From Coq Require Import List NArith Bool Lia.
From Outrank Require Import IO.Str.
Import ListNotations.
Open Scope N_scope.

Lemma frev_rev {A} (l : list A) : frev l = rev l.
Proof. unfold frev. symmetry. apply rev_alt. Qed.

(* ---------- predicates used in the well-formedness conditions ---------- *)

(* no character of [l] satisfies [p] *)
Definition none (p : ch -> bool) (l : str) : Prop := forallb (fun c => negb (p c)) l = true.
Definition all (p : ch -> bool) (l : str) : Prop := forallb p l = true.
Definition head_ok (p : ch -> bool) (l : str) : Prop := match l with [] => True | c :: _ => p c = false end.
Definition last_ok (p : ch -> bool) (l : str) : Prop := head_ok p (rev l).
(* first and last character are not white space: s.strip() == s *)
Definition edge_clean (l : str) : Prop := head_ok is_space l /\ last_ok is_space l.

Lemma none_cons p c l : none p (c :: l) <-> p c = false /\ none p l.
Proof. unfold none. cbn [forallb]. rewrite andb_true_iff, negb_true_iff. tauto. Qed.

Lemma none_app p a b : none p (a ++ b) <-> none p a /\ none p b.
Proof. unfold none. rewrite forallb_app, andb_true_iff. tauto. Qed.

Lemma all_app p a b : all p (a ++ b) <-> all p a /\ all p b.
Proof. unfold all. rewrite forallb_app, andb_true_iff. tauto. Qed.

Lemma none_nil p : none p []. Proof. reflexivity. Qed.

Lemma none_rev p l : none p l -> none p (rev l).
Proof.
  induction l as [|c l IH]; intros H; [exact H|]. apply none_cons in H. destruct H as [Hc Hl].
  cbn [rev]. apply none_app. split; [auto|]. apply none_cons. split; [exact Hc|apply none_nil].
Qed.

Lemma all_rev p l : all p l -> all p (rev l).
Proof.
  unfold all. induction l as [|c l IH]; intros H; [exact H|]. cbn [forallb] in H. apply andb_true_iff in H.
  destruct H as [Hc Hl]. cbn [rev]. rewrite forallb_app, IH by exact Hl. cbn. rewrite Hc. reflexivity.
Qed.

Lemma none_head_ok p l : none p l -> head_ok p l.
Proof. destruct l as [|c l]; [exact (fun _ => I)|]. intros H. apply none_cons in H. exact (proj1 H). Qed.

Lemma none_last_ok p l : none p l -> last_ok p l.
Proof. intros H. apply none_head_ok, none_rev, H. Qed.

Lemma none_weaken (p q : ch -> bool) l : (forall c, q c = true -> p c = true) -> none p l -> none q l.
Proof.
  intros Hpq. induction l as [|c l IH]; intros H; [reflexivity|]. apply none_cons in H. destruct H as [Hc Hl].
  apply none_cons. split; [|auto]. destruct (q c) eqn:E; [|reflexivity]. apply Hpq in E. congruence.
Qed.

Lemma head_ok_app p a b : a <> [] -> head_ok p a -> head_ok p (a ++ b).
Proof. destruct a as [|c a]; [congruence|]. intros _ H. exact H. Qed.

Lemma last_ok_app p a b : b <> [] -> last_ok p b -> last_ok p (a ++ b).
Proof.
  unfold last_ok. intros Hne H. rewrite rev_app_distr. apply head_ok_app; [|exact H].
  intros E. apply Hne. rewrite <- (rev_involutive b), E. reflexivity.
Qed.

Lemma last_ok_app_nil p a : last_ok p a -> last_ok p (a ++ []).
Proof. rewrite app_nil_r. exact (fun H => H). Qed.

(* ---------- drop_while / strip ---------- *)

Lemma drop_while_all p w l : all p w -> drop_while p (w ++ l) = drop_while p l.
Proof.
  unfold all. induction w as [|c w IH]; intros H; [reflexivity|]. cbn [forallb] in H. apply andb_true_iff in H.
  destruct H as [Hc Hw]. cbn [app drop_while]. rewrite Hc. auto.
Qed.

Lemma drop_while_head_ok p l : head_ok p l -> drop_while p l = l.
Proof. destruct l as [|c l]; [reflexivity|]. cbn [head_ok drop_while]. intros ->. reflexivity. Qed.

Lemma rstrip_app p l w : all p w -> last_ok p l -> rstrip p (l ++ w) = l.
Proof.
  intros Hw Hl. unfold rstrip. rewrite !frev_rev, rev_app_distr, drop_while_all by (apply all_rev, Hw).
  rewrite drop_while_head_ok by exact Hl. apply rev_involutive.
Qed.

Lemma lstrip_app p l w : all p w -> head_ok p l -> lstrip p (w ++ l) = l.
Proof. intros Hw Hl. unfold lstrip. rewrite drop_while_all by exact Hw. apply drop_while_head_ok, Hl. Qed.

(* s.strip() removes surrounding white space and nothing else *)
Lemma strip_ws_pad w1 l w2 : all is_space w1 -> all is_space w2 -> edge_clean l -> strip_ws (w1 ++ l ++ w2) = l.
Proof.
  intros H1 H2 [Hh Hl]. unfold strip_ws. destruct l as [|c l'].
  - cbn [app]. unfold lstrip. rewrite drop_while_all by exact H1.
    assert (E : drop_while is_space w2 = []).
    { rewrite <- (app_nil_r w2). rewrite drop_while_all by exact H2. reflexivity. }
    rewrite E. reflexivity.
  - rewrite lstrip_app; [| exact H1 | exact Hh]. apply rstrip_app; assumption.
Qed.

Lemma strip_ws_lf l : edge_clean l -> strip_ws (l ++ [LF]) = l.
Proof. intros H. apply (strip_ws_pad [] l [LF]); [reflexivity|reflexivity|exact H]. Qed.

Lemma is_space_LF : is_space LF = true. Proof. reflexivity. Qed.
Lemma is_space_SP : is_space SP = true. Proof. reflexivity. Qed.
Lemma is_space_nl c : is_nl c = true -> is_space c = true.
Proof.
  unfold is_nl. intros H. apply orb_true_iff in H. destruct H as [H|H]; apply N.eqb_eq in H; subst; reflexivity.
Qed.

Lemma all_repeat p c n : p c = true -> all p (repeat c n).
Proof. intros H. unfold all. induction n; cbn; [reflexivity|]. rewrite H. assumption. Qed.

(* ---------- split / join ---------- *)

Lemma split_on_ne sep l : split_on sep l <> [].
Proof.
  induction l as [|c l IH]; cbn [split_on]; [discriminate|].
  destruct (c =? sep); [discriminate|]. destruct (split_on sep l); discriminate.
Qed.

Lemma split_on_none sep a : none (N.eqb sep) a -> split_on sep a = [a].
Proof.
  induction a as [|c a IH]; intros H; [reflexivity|]. apply none_cons in H. destruct H as [Hc Ha].
  cbn [split_on]. rewrite N.eqb_sym, Hc, IH by exact Ha. reflexivity.
Qed.

(* a piece without separator, then the separator, then the rest *)
Lemma split_on_app sep a r : none (N.eqb sep) a -> split_on sep (a ++ sep :: r) = a :: split_on sep r.
Proof.
  induction a as [|c a IH]; intros H.
  - cbn [app split_on]. rewrite N.eqb_refl. reflexivity.
  - apply none_cons in H. destruct H as [Hc Ha]. cbn [app split_on].
    rewrite N.eqb_sym, Hc, IH by exact Ha. reflexivity.
Qed.

Theorem split_on_join sep cells : cells <> [] -> Forall (none (N.eqb sep)) cells ->
  split_on sep (join_with [sep] cells) = cells.
Proof.
  induction cells as [|c cells IH]; intros Hne HF; [congruence|].
  inversion HF as [|? ? Hc HF']; subst. destruct cells as [|d cells'].
  - cbn [join_with]. apply split_on_none, Hc.
  - change (join_with [sep] (c :: d :: cells')) with (c ++ [sep] ++ join_with [sep] (d :: cells')).
    cbn [app]. rewrite split_on_app by exact Hc. rewrite IH; [reflexivity|discriminate|exact HF'].
Qed.

Lemma none_join p sep cells : none p sep -> Forall (none p) cells -> none p (join_with sep cells).
Proof.
  intros Hs. induction cells as [|c cells IH]; intros HF; [reflexivity|].
  inversion HF as [|? ? Hc HF']; subst. destruct cells as [|d cells']; [exact Hc|].
  change (join_with sep (c :: d :: cells')) with (c ++ sep ++ join_with sep (d :: cells')).
  apply none_app; split; [exact Hc|]. apply none_app; split; [exact Hs|]. apply IH, HF'.
Qed.

(* ---------- physical lines ---------- *)

Lemma phys_lines_aux_line l : forall cur rest, none is_nl l ->
  phys_lines_aux cur (l ++ LF :: rest) = (rev cur ++ l ++ [LF]) :: phys_lines_aux [] rest.
Proof.
  induction l as [|c l IH]; intros cur rest H.
  - cbn [app phys_lines_aux]. rewrite N.eqb_refl, frev_rev. cbn [rev]. reflexivity.
  - apply none_cons in H. destruct H as [Hc Hl]. unfold is_nl in Hc. apply orb_false_iff in Hc.
    destruct Hc as [H1 H2]. cbn [app phys_lines_aux]. rewrite H1, H2, IH by exact Hl.
    cbn [rev]. rewrite <- app_assoc. reflexivity.
Qed.

(* a text made of lines without inner line breaks, each terminated by LF, is read back line by line *)
Theorem phys_lines_concat ls : Forall (none is_nl) ls ->
  phys_lines (concat (map (fun l => l ++ [LF]) ls)) = map (fun l => l ++ [LF]) ls.
Proof.
  unfold phys_lines. induction ls as [|l ls IH]; intros HF; [reflexivity|].
  inversion HF as [|? ? Hl HF']; subst. cbn [map concat]. rewrite <- app_assoc. cbn [app].
  rewrite phys_lines_aux_line by exact Hl. cbn [rev app]. rewrite IH by exact HF'. reflexivity.
Qed.
