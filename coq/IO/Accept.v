(* C16 — format dispatch (generic_line_parser) and the field-count validity test of the streaming loop
   estimate_importances_minibatches.  Model file: definitions only (proofs in IO/AcceptProofs.v). *)
From Coq Require Import List NArith Bool.
From Outrank Require Import IO.Str IO.Csv IO.Tsv IO.Namespace IO.Vw.
Import ListNotations.
Open Scope N_scope.

Inductive source := ObRawDump | ObVw | ObCsv | CsvRaw | UnknownSource.
Definition row := list (option str).
(* ParseError = csv.Error raised by the reader; Unsupported = NotImplementedError *)
Inductive outcome := Row (cells : row) | ParseError | Unsupported.

Definition generic_line_parser (src : source) (delim : ch) (fw : dict) (header : list str) (line : str) : outcome :=
  match src with
  | ObRawDump => Row (map Some (parse_tsv delim line))
  | ObVw => Row (parse_vw fw header line)
  | ObCsv | CsvRaw => match Csv.parse line with Some fs => Row (map Some fs) | None => ParseError end
  | UnknownSource => Unsupported
  end.

(* the validity test:   if len(parsed_line) == len(column_descriptions): line_tmp_storage.append(parsed_line)
                        else: invalid_lines += 1                                                    *)
Record lstate := mk_l { buf : list row; emitted : list (list row); invalid : N; crashed : bool }.

Definition accept (ncols : nat) (r : row) : bool := Nat.eqb (length r) ncols.

Definition accept_step (ncols : nat) (s : lstate) (r : row) : lstate :=
  if accept ncols r then mk_l (buf s ++ [r]) (emitted s) (invalid s) (crashed s)
  else mk_l (buf s) (emitted s) (invalid s + 1) (crashed s).

(* batches are handed over as soon as the buffer reaches the mini-batch size *)
Definition flush (bsize : nat) (s : lstate) : lstate :=
  if Nat.leb bsize (length (buf s)) then mk_l [] (emitted s ++ [buf s]) (invalid s) (crashed s) else s.

Definition loop_step (parser : str -> outcome) (ncols bsize : nat) (s : lstate) (line : str) : lstate :=
  if crashed s then s else
  match parser line with
  | Row r => flush bsize (accept_step ncols s r)
  | _ => mk_l (buf s) (emitted s) (invalid s) true     (* the exception propagates out of the loop *)
  end.

Definition loop_init : lstate := mk_l [] [] 0 false.

(* the file: first physical line = header line (skipped by file_stream.readline()), then data lines *)
Definition run_loop (parser : str -> outcome) (ncols bsize : nat) (text : str) : lstate :=
  fold_left (loop_step parser ncols bsize) (tl (phys_lines text)) loop_init.

(* what compute_batch_ranking gets to see: the emitted batches and, after the last line, the first bsize
   rows of the remainder when more than 2**10 rows remain (smaller remainders are dropped) *)
Definition batches_seen (bsize : nat) (s : lstate) : list (list row) :=
  if crashed s then emitted s
  else if 1024 <? N.of_nat (length (buf s)) then emitted s ++ [firstn bsize (buf s)] else emitted s.

(* all accepted rows in order of acceptance *)
Definition accepted_rows (s : lstate) : list row := concat (emitted s) ++ buf s.

(* header derivations of the dataset-information readers *)
Definition csv_raw_header (text : str) : list str := split_on COMMA (strip_ws (hd [] (phys_lines text))).
Definition read_column_names (text : str) : list str := split_on TAB (strip_ws text).
