(* C16 — the VW line parser parse_ob_line_vw (data source ob-vw), include_namespace_info = False as
   generic_line_parser calls it.  Model file: definitions only (proofs in IO/VwProofs.v). *)
From Coq Require Import List NArith Bool.
From Outrank Require Import IO.Str IO.Namespace.
Import ListNotations.
Open Scope N_scope.

(* one '|'-separated part after the label part:
     core_parts = part.strip().split(' ');  namespace = core_parts[0]
     other = '-'.join(x for x in core_parts[1:] if x != '')                                  *)
Definition vw_part (part : str) : str * str :=
  let core := split_on SP (strip_ws part) in
  (hd [] core, join_with [DASH] (filter nonempty (tl core))).

(* remainder_hash[fw_col_mapping[namespace]] = other, when the namespace is in the map
   (otherwise an error is logged and the part is dropped) *)
Definition vw_store (fw : dict) (h : dict) (part : str) : dict :=
  let '(ns, other) := vw_part part in
  match dict_get ns fw with
  | Some feat => dict_set feat other h
  | None => h
  end.

(* a parsed row: None = missing value *)
Definition parse_vw (fw : dict) (header : list str) (line : str) : list (option str) :=
  let parts := split_on BAR (strip_ws line) in
  let label := hd [] (split_on SP (hd [] parts)) in
  let h := fold_left (vw_store fw) (tl parts) [] in
  Some label :: map (fun el => option_map (skipn 2) (dict_get el h)) (tl header).

(* ---- rendering side (what a well-formed VW line looks like) ---- *)

(* a token preceded by (S gap) spaces *)
Definition render_toks (toks : list (nat * str)) : str :=
  flat_map (fun gt => repeat SP (S (fst gt)) ++ snd gt) toks.

Record vw_ns := mk_ns { ns_id : str; ns_toks : list (nat * str); ns_trail : nat }.
Record vw_line := mk_vw { vl_label : str; vl_extra : list (nat * str); vl_trail : nat; vl_nss : list vw_ns }.

Definition ns_body (ns : vw_ns) : str := ns_id ns ++ render_toks (ns_toks ns).
Definition render_ns (ns : vw_ns) : str := ns_body ns ++ repeat SP (ns_trail ns).
Definition vl_head (l : vw_line) : str := vl_label l ++ render_toks (vl_extra l).
(* label [extra tokens: importance, tag] |ns tok tok |ns tok ... LF *)
Definition render_vw (l : vw_line) : str :=
  join_with [BAR] ((vl_head l ++ repeat SP (vl_trail l)) :: map render_ns (vl_nss l)) ++ [LF].

(* tokens of a namespace joined by '-' *)
Definition ns_joined (ns : vw_ns) : str := join_with [DASH] (map snd (ns_toks ns)).
(* the (feature, value) assignments a line makes, in order *)
Definition vw_assignments (fw : dict) (nss : list vw_ns) : list (str * str) :=
  flat_map (fun ns => match dict_get (ns_id ns) fw with Some f => [(f, ns_joined ns)] | None => [] end) nss.
(* specification of the cell in column [el] *)
Definition vw_cell (fw : dict) (nss : list vw_ns) (el : str) : option str :=
  option_map (skipn 2) (assoc_last el (vw_assignments fw nss)).
