(* C16 — proofs about the csv.reader machine: every writer-style record (each field quoted when it must
   be, or although it need not be) round-trips through it, for fields within the reader's size limit. *)
From Coq Require Import List NArith Bool Lia.
From Outrank Require Import IO.Str IO.StrProofs IO.Csv.
Import ListNotations.
Open Scope N_scope.

Definition flen_ok (f : list N) : Prop := N.of_nat (length f) <= field_limit.

Lemma run_app s l1 l2 : run s (l1 ++ l2) = run (run s l1) l2.
Proof. unfold run. apply fold_left_app. Qed.

Lemma run_cons s c l : run s (c :: l) = run (step s (Some c)) l.
Proof. reflexivity. Qed.

Lemma special_false c : special c = false -> (c =? COMMA) = false /\ (c =? QUOTE) = false /\ is_nl c = false.
Proof. unfold special. intros H. apply orb_false_iff in H. destruct H as [H Hnl]. apply orb_false_iff in H. tauto. Qed.

Lemma add_ok p a n c next : n < field_limit -> add (mk InField p a n) c next = mk next (c :: p) a (n + 1).
Proof. intros H. unfold add. cbn [flen pend acc]. apply N.leb_gt in H. rewrite H. reflexivity. Qed.

Lemma add_ok' s0 p a n c next : n < field_limit -> add (mk s0 p a n) c next = mk next (c :: p) a (n + 1).
Proof. intros H. unfold add. cbn [flen pend acc]. apply N.leb_gt in H. rewrite H. reflexivity. Qed.

Lemma len_cons (c : N) f : N.of_nat (length (c :: f)) = N.of_nat (length f) + 1.
Proof. cbn [length]. lia. Qed.

(* a bare field consumed from InField stays in InField *)
Lemma run_bare_infield f : forall p a n, needs_quote f = false -> n + N.of_nat (length f) <= field_limit ->
  run (mk InField p a n) f = mk InField (rev f ++ p) a (n + N.of_nat (length f)).
Proof.
  induction f as [|c f IH]; intros p a n H Hn; [cbn [length]; rewrite N.add_0_r; reflexivity|].
  cbn [needs_quote existsb] in H. apply orb_false_iff in H. destruct H as [Hc Hf].
  destruct (special_false c Hc) as (Hcomma & Hq & Hnl). rewrite len_cons in *.
  rewrite run_cons.
  assert (E : step (mk InField p a n) (Some c) = mk InField (c :: p) a (n + 1)).
  { unfold step. cbn [state]. rewrite Hnl, Hcomma. apply add_ok'. lia. }
  rewrite E, IH; [|exact Hf|lia]. cbn [rev]. rewrite <- app_assoc. f_equal. lia.
Qed.

(* a non-empty bare field from StartField / StartRecord *)
Lemma run_bare_start f a s0 : (s0 = StartField \/ s0 = StartRecord) -> f <> [] -> needs_quote f = false -> flen_ok f ->
  run (mk s0 [] a 0) f = mk InField (rev f) a (N.of_nat (length f)).
Proof.
  intros Hs Hne H Hl. destruct f as [|c f]; [congruence|]. unfold flen_ok in Hl. rewrite len_cons in *.
  cbn [needs_quote existsb] in H. apply orb_false_iff in H. destruct H as [Hc Hf].
  destruct (special_false c Hc) as (Hcomma & Hq & Hnl).
  rewrite run_cons.
  assert (E : step (mk s0 [] a 0) (Some c) = mk InField [c] a 1).
  { destruct Hs as [-> | ->]; unfold step; cbn [state]; try rewrite Hnl; unfold start_field; rewrite Hnl, Hq, Hcomma;
      apply add_ok'; unfold field_limit; lia. }
  rewrite E, run_bare_infield; [|exact Hf|lia]. cbn [rev]. f_equal. lia.
Qed.

(* inside quotes: escaped content *)
Lemma run_esc f : forall p a n, n + N.of_nat (length f) <= field_limit ->
  run (mk InQuoted p a n) (esc f) = mk InQuoted (rev f ++ p) a (n + N.of_nat (length f)).
Proof.
  induction f as [|c f IH]; intros p a n Hn; [cbn [length]; rewrite N.add_0_r; reflexivity|].
  rewrite len_cons in *.
  unfold esc. cbn [flat_map]. fold (esc f). destruct (c =? QUOTE) eqn:Eq.
  - apply N.eqb_eq in Eq. subst c. cbn [app]. rewrite !run_cons.
    assert (E : step (step (mk InQuoted p a n) (Some QUOTE)) (Some QUOTE) = mk InQuoted (QUOTE :: p) a (n + 1)).
    { unfold step at 2. cbn [state]. rewrite N.eqb_refl. unfold goto. cbn [pend acc flen].
      unfold step. cbn [state]. rewrite N.eqb_refl. apply add_ok'. lia. }
    rewrite E, IH by lia. cbn [rev]. rewrite <- app_assoc. f_equal. lia.
  - cbn [app]. rewrite run_cons.
    assert (E : step (mk InQuoted p a n) (Some c) = mk InQuoted (c :: p) a (n + 1)).
    { unfold step. cbn [state]. rewrite Eq. apply add_ok'. lia. }
    rewrite E, IH by lia. cbn [rev]. rewrite <- app_assoc. f_equal. lia.
Qed.

Lemma run_quoted f a s0 : (s0 = StartField \/ s0 = StartRecord) -> flen_ok f ->
  run (mk s0 [] a 0) (quoted f) = mk QuoteInQuoted (rev f) a (N.of_nat (length f)).
Proof.
  intros Hs Hl. unfold quoted. rewrite run_cons.
  assert (E : step (mk s0 [] a 0) (Some QUOTE) = mk InQuoted [] a 0).
  { destruct Hs as [-> | ->]; reflexivity. }
  rewrite E, run_app, run_esc by (rewrite N.add_0_l; exact Hl). rewrite run_cons. cbn [run fold_left].
  rewrite app_nil_r, N.add_0_l. unfold step. cbn [state]. rewrite N.eqb_refl. reflexivity.
Qed.

(* state after a rendered field: one of three field-complete shapes, all of which save the same field on COMMA / newline / end of line *)
Definition done_with (s : pst) (f : list ch) (a : list (list ch)) : Prop :=
  acc s = a /\
  ((state s = InField /\ rev (pend s) = f /\ f <> []) \/
   (state s = QuoteInQuoted /\ rev (pend s) = f) \/
   ((state s = StartField) /\ pend s = [] /\ f = [])).

Lemma after_field q f a : flen_ok f -> done_with (run (mk StartField [] a 0) (render_field_q q f)) f a.
Proof.
  intros Hl. unfold render_field_q. destruct (q || needs_quote f) eqn:E.
  - rewrite run_quoted by (auto). split; [reflexivity|]. right; left. cbn. rewrite rev_involutive. auto.
  - apply orb_false_iff in E. destruct E as [_ E]. destruct f as [|c f'].
    + split; [reflexivity|]. right; right. auto.
    + rewrite run_bare_start; [|now left|discriminate|exact E|exact Hl]. split; [reflexivity|]. left. cbn [state pend].
      rewrite rev_involutive. repeat split. discriminate.
Qed.

Ltac done_tac := cbn in *; subst; cbn; unfold save, add, goto; cbn [state pend acc]; rewrite ?frev_rev; reflexivity.

Lemma done_comma s f a : done_with s f a -> step s (Some COMMA) = mk StartField [] (f :: a) 0.
Proof. intros [Ha [[Hs [Hp _]]|[[Hs Hp]|[Hs [Hp Hf]]]]]; destruct s as [s0 p a0 n]; done_tac. Qed.
Lemma done_lf s f a : done_with s f a -> step s (Some LF) = mk EatCRNL [] (f :: a) 0.
Proof. intros [Ha [[Hs [Hp _]]|[[Hs Hp]|[Hs [Hp Hf]]]]]; destruct s as [s0 p a0 n]; done_tac. Qed.
Lemma done_cr s f a : done_with s f a -> step s (Some CR) = mk EatCRNL [] (f :: a) 0.
Proof. intros [Ha [[Hs [Hp _]]|[[Hs Hp]|[Hs [Hp Hf]]]]]; destruct s as [s0 p a0 n]; done_tac. Qed.
Lemma done_eol s f a : done_with s f a -> step s None = mk StartRecord [] (f :: a) 0.
Proof. intros [Ha [[Hs [Hp _]]|[[Hs Hp]|[Hs [Hp Hf]]]]]; destruct s as [s0 p a0 n]; done_tac. Qed.

Lemma is_nl_cases c : is_nl c = true -> c = LF \/ c = CR.
Proof. unfold is_nl. intros H. apply orb_true_iff in H. destruct H as [H|H]; apply N.eqb_eq in H; auto. Qed.

Lemma done_nl s f a c : is_nl c = true -> done_with s f a -> step s (Some c) = mk EatCRNL [] (f :: a) 0.
Proof. intros Hc Hd. apply is_nl_cases in Hc. destruct Hc as [-> | ->]; [apply done_lf, Hd|apply done_cr, Hd]. Qed.

Lemma run_eat term : forall a n, forallb is_nl term = true -> run (mk EatCRNL [] a n) term = mk EatCRNL [] a n.
Proof.
  induction term as [|c term IH]; intros a n H; [reflexivity|]. cbn [forallb] in H. apply andb_true_iff in H.
  destruct H as [Hc Ht]. rewrite run_cons.
  assert (E : step (mk EatCRNL [] a n) (Some c) = mk EatCRNL [] a n). { unfold step. cbn [state]. rewrite Hc. reflexivity. }
  rewrite E. apply IH, Ht.
Qed.

Lemma run_join_q row : forall a, row <> [] -> Forall flen_ok (map snd row) ->
  exists f0 rest, map snd row = rest ++ [f0] /\ done_with (run (mk StartField [] a 0) (join_q row)) f0 (rev rest ++ a).
Proof.
  induction row as [|[q f] row IH]; intros a Hne HF; [congruence|].
  cbn [map snd] in HF. inversion HF as [|? ? Hf HF']; subst.
  destruct row as [|[q' g] row'].
  - cbn [join_q]. exists f, []. split; [reflexivity|]. apply after_field, Hf.
  - change (join_q ((q, f) :: (q', g) :: row')) with (render_field_q q f ++ COMMA :: join_q ((q', g) :: row')).
    rewrite run_app, run_cons.
    rewrite (done_comma _ f a) by (apply after_field, Hf).
    destruct (IH (f :: a)) as [f0 [rest [Hfs Hd]]]; [discriminate|exact HF'|].
    exists f0, (f :: rest). split; [cbn [map snd] in *; rewrite Hfs; reflexivity|].
    cbn [rev]. rewrite <- app_assoc. exact Hd.
Qed.

Lemma start_record_as_field l a :
  l <> [] -> (forall c l', l = c :: l' -> is_nl c = false) ->
  run (mk StartRecord [] a 0) l = run (mk StartField [] a 0) l.
Proof.
  intros Hne H. destruct l as [|c l']; [congruence|]. rewrite !run_cons. f_equal.
  unfold step. cbn [state]. rewrite (H c l' eq_refl). reflexivity.
Qed.

Lemma render_field_head q f c l' : render_field_q q f = c :: l' -> is_nl c = false.
Proof.
  unfold render_field_q. destruct (q || needs_quote f) eqn:E.
  - intros H. inversion H. reflexivity.
  - apply orb_false_iff in E. destruct E as [_ E]. intros ->. cbn [needs_quote existsb] in E.
    apply orb_false_iff in E. destruct E as [Hc _]. apply special_false in Hc. tauto.
Qed.

Lemma join_head row c l' : join_q row = c :: l' -> is_nl c = false.
Proof.
  destruct row as [|[q f] [|[q' g] row']]; cbn [join_q]; [discriminate| apply render_field_head |].
  destruct (render_field_q q f) as [|d r] eqn:E.
  - cbn [app]. intros H. inversion H. reflexivity.
  - cbn [app]. intros H. inversion H; subst. eapply render_field_head. exact E.
Qed.

Lemma join_nonempty row : row <> [] -> (forall q, row <> [(q, [])]) -> join_q row <> [].
Proof.
  destruct row as [|[q f] [|[q' g] row']]; intros H1 H2; [congruence| |].
  - cbn [join_q]. unfold render_field_q, quoted. destruct (q || needs_quote f); [discriminate|]. intros ->. exact (H2 q eq_refl).
  - cbn [join_q]. destruct (render_field_q q f); discriminate.
Qed.

(* after the rendered record the machine has every field but the last saved, and the last one complete *)
Lemma run_render_q row : row <> [] -> Forall flen_ok (map snd row) ->
  exists f0 rest, map snd row = rest ++ [f0] /\ done_with (run init (render_q row)) f0 (rev rest).
Proof.
  intros Hne HF.
  assert (Hcase : (exists q, row = [(q, [])]) \/ (forall q, row <> [(q, [])])).
  { destruct row as [|[q [|c f]] [|g r]]; try (right; intros q0; discriminate). left. exists q. reflexivity. }
  destruct Hcase as [[q ->] | Hne2].
  - exists [], []. split; [reflexivity|]. split; [reflexivity|]. right; left. split; reflexivity.
  - assert (Hr : render_q row = join_q row).
    { destruct row as [|[q [|c f]] [|g r]]; try reflexivity. exfalso. exact (Hne2 q eq_refl). }
    rewrite Hr. unfold init.
    rewrite start_record_as_field; [| apply join_nonempty; assumption | intros c l' E; eapply join_head; exact E].
    destruct (run_join_q row [] Hne HF) as [f0 [rest [Hfs Hd]]].
    exists f0, rest. split; [exact Hfs|]. rewrite app_nil_r in Hd. exact Hd.
Qed.

(* any quoting choice, any terminator made of CR / LF characters (LF as the streaming loop sees it, CR LF as
   csv.writer emits it, nothing for a last line without terminator) *)
Theorem roundtrip_q_term row term : row <> [] -> Forall flen_ok (map snd row) -> forallb is_nl term = true ->
  parse (render_q row ++ term) = Some (map snd row).
Proof.
  intros Hne HF Ht. destruct (run_render_q row Hne HF) as (f0 & rest & Hfs & Hd).
  unfold parse. rewrite run_app. destruct term as [|c term].
  - cbn [run fold_left]. rewrite (done_eol _ _ _ Hd). cbn [state acc]. rewrite frev_rev. cbn [rev]. rewrite rev_involutive.
    f_equal. symmetry. exact Hfs.
  - cbn [forallb] in Ht. apply andb_true_iff in Ht. destruct Ht as [Hc Ht].
    rewrite run_cons, (done_nl _ _ _ c Hc Hd), run_eat by exact Ht.
    cbn [step state goto acc pend]. rewrite frev_rev. cbn [rev]. rewrite rev_involutive. f_equal. symmetry. exact Hfs.
Qed.

Lemma map_snd_pair (fs : list (list N)) : map snd (map (fun f => (false, f)) fs) = fs.
Proof. rewrite map_map. cbn [snd]. apply map_id. Qed.

(* QUOTE_MINIMAL *)
Theorem roundtrip_term fs term : fs <> [] -> Forall flen_ok fs -> forallb is_nl term = true ->
  parse (render fs ++ term) = Some fs.
Proof.
  intros Hne HF Ht. unfold render. rewrite roundtrip_q_term; [rewrite map_snd_pair; reflexivity| |rewrite map_snd_pair; exact HF|exact Ht].
  destruct fs; [congruence|discriminate].
Qed.

Theorem roundtrip fs : fs <> [] -> Forall flen_ok fs -> parse (render fs ++ [LF]) = Some fs.
Proof. intros Hne HF. apply roundtrip_term; [exact Hne|exact HF|reflexivity]. Qed.

Lemma run_err l : forall p a n, run (mk Err p a n) l = mk Err p a n.
Proof. induction l as [|c l IH]; intros p a n; [reflexivity|]. rewrite run_cons. apply IH. Qed.

Lemma needs_quote_repeat c k : special c = false -> needs_quote (repeat c k) = false.
Proof. intros H. induction k as [|k IH]; [reflexivity|]. cbn [repeat needs_quote existsb]. rewrite H. exact IH. Qed.

(* one character beyond the limit: csv.Error (here for a bare field of equal characters) *)
Theorem limit_exceeded c term : special c = false ->
  parse (repeat c (N.to_nat field_limit + 1) ++ term) = None.
Proof.
  intros Hc. set (k := N.to_nat field_limit).
  assert (Hk : N.of_nat k = field_limit) by apply N2Nat.id.
  assert (Hk0 : k <> 0%nat). { intros E. rewrite E in Hk. discriminate Hk. }
  unfold parse. rewrite repeat_app, !run_app. unfold init.
  rewrite run_bare_start; [|now right| destruct k; [congruence|discriminate] | apply needs_quote_repeat, Hc
                          | unfold flen_ok; rewrite repeat_length, Hk; apply N.le_refl].
  rewrite repeat_length, Hk.
  assert (E : exists p a n, run (mk InField (rev (repeat c k)) [] field_limit) (repeat c 1) = mk Err p a n).
  { cbn [repeat]. rewrite run_cons. destruct (special_false c Hc) as (Hcomma & Hq & Hnl).
    unfold step. cbn [state]. rewrite Hnl, Hcomma. unfold add. cbn [flen pend acc]. rewrite N.leb_refl.
    eexists _, _, _. reflexivity. }
  destruct E as (p & a & n & E). rewrite E, run_err. reflexivity.
Qed.

(* ---------- physical lines ---------- *)

Lemma none_nl_esc f : none is_nl f -> none is_nl (esc f).
Proof.
  induction f as [|c f IH]; intros H; [reflexivity|]. apply none_cons in H. destruct H as [Hc Hf].
  unfold esc. cbn [flat_map]. fold (esc f). apply none_app. split; [|auto].
  destruct (c =? QUOTE) eqn:E.
  - apply N.eqb_eq in E. subst c. reflexivity.
  - apply none_cons. split; [exact Hc|reflexivity].
Qed.

Lemma none_nl_render_field q f : none is_nl f -> none is_nl (render_field_q q f).
Proof.
  intros H. unfold render_field_q, quoted. destruct (q || needs_quote f); [|exact H].
  apply none_cons. split; [reflexivity|]. apply none_app. split; [apply none_nl_esc, H|reflexivity].
Qed.

Lemma none_nl_join row : Forall (none is_nl) (map snd row) -> none is_nl (join_q row).
Proof.
  induction row as [|[q f] row IH]; intros H; [reflexivity|]. cbn [map snd] in H. inversion H as [|? ? Hf H']; subst.
  destruct row as [|[q' g] row']; [apply none_nl_render_field, Hf|].
  change (join_q ((q, f) :: (q', g) :: row')) with (render_field_q q f ++ COMMA :: join_q ((q', g) :: row')).
  apply none_app. split; [apply none_nl_render_field, Hf|]. apply none_cons. split; [reflexivity|apply IH, H'].
Qed.

Lemma none_nl_render_q row : Forall (none is_nl) (map snd row) -> none is_nl (render_q row).
Proof.
  intros H. unfold render_q. destruct row as [|[q [|c f]] [|g r]]; try apply none_nl_join, H. reflexivity.
Qed.

(* records whose cells contain no line break are exactly the physical lines of the file *)
Theorem csv_physical_lines_q rows : Forall (fun row => Forall (none is_nl) (map snd row)) rows ->
  phys_lines (concat (map (fun r => render_q r ++ [LF]) rows)) = map (fun r => render_q r ++ [LF]) rows.
Proof.
  intros H. rewrite <- (map_map render_q (fun l => l ++ [LF])). apply phys_lines_concat.
  apply Forall_map. eapply Forall_impl; [|exact H]. intros r. apply none_nl_render_q.
Qed.

Theorem csv_physical_lines rows : Forall (Forall (none is_nl)) rows ->
  phys_lines (concat (map (fun r => render r ++ [LF]) rows)) = map (fun r => render r ++ [LF]) rows.
Proof.
  intros H. unfold render.
  rewrite <- (map_map (map (fun f => (false, f))) (fun r => render_q r ++ [LF])).
  apply csv_physical_lines_q. apply Forall_map. eapply Forall_impl; [|exact H]. intros r Hr. rewrite map_snd_pair. exact Hr.
Qed.

(* why the hypothesis is needed: a quoted cell with a line break is legal CSV, but the pipeline reads
   physical lines; the record x, quote y LF z,w quote splits into two lines that BOTH pass the two-column
   field-count test with wrong cells *)
Theorem csv_linebreak_hypothesis_needed :
  exists row : list (list N),
    length row = 2%nat /\
    parse (render row ++ [LF]) = Some row /\
    exists r1 r2, map parse (phys_lines (render row ++ [LF])) = [Some r1; Some r2] /\
                  length r1 = 2%nat /\ length r2 = 2%nat /\ r1 <> row /\ r2 <> row.
Proof.
  exists [[120]; [121; 10; 122; 44; 119]]. split; [reflexivity|]. split; [vm_compute; reflexivity|].
  exists [[120]; [121; 10]], [[122]; [119; 34]]. vm_compute. repeat split; discriminate.
Qed.

(* splitting on commas instead of running the reader mis-aligns quoted cells *)
Theorem csv_naive_refuted :
  exists row : list (list N), Forall (none is_nl) row /\ parse (render row ++ [LF]) = Some row /\
    parse_naive (render row ++ [LF]) <> row /\ length (parse_naive (render row ++ [LF])) <> length row.
Proof.
  exists [[97; 44; 98]; [99]]. split; [repeat constructor|]. split; vm_compute; [reflexivity|]. split; discriminate.
Qed.

Example csv_nonvacuous :
  let row := [[]; [97; 44; 34; 98; 34]; [32; 120; 32]; []; [233; 9; 8364]; [34]] in
  render row = [44; 34; 97; 44; 34; 34; 98; 34; 34; 34; 44; 32; 120; 32; 44; 44; 233; 9; 8364; 44; 34; 34; 34; 34] /\
  parse (render row ++ [LF]) = Some row.
Proof. split; vm_compute; reflexivity. Qed.

(* every field quoted, as QUOTE_ALL writes it *)
Example csv_quoted_nonvacuous :
  let row := [(true, [97]); (true, []); (false, [98]); (true, [99; 34; 44])] in
  render_q row = [34; 97; 34; 44; 34; 34; 44; 98; 44; 34; 99; 34; 34; 44; 34] /\
  parse (render_q row ++ [LF]) = Some [[97]; []; [98]; [99; 34; 44]].
Proof. split; vm_compute; reflexivity. Qed.
