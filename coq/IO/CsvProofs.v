(* C16 — proofs about the csv.reader machine: the QUOTE_MINIMAL writer round-trips through it. *)
From Coq Require Import List NArith Bool Lia.
From Outrank Require Import IO.Str IO.Csv.
Import ListNotations.
Open Scope N_scope.

Lemma run_app s l1 l2 : run s (l1 ++ l2) = run (run s l1) l2.
Proof. unfold run. apply fold_left_app. Qed.

Lemma run_cons s c l : run s (c :: l) = run (step s (Some c)) l.
Proof. reflexivity. Qed.

Lemma special_false c : special c = false -> (c =? COMMA) = false /\ (c =? QUOTE) = false /\ is_nl c = false.
Proof. unfold special. intros H. apply orb_false_iff in H. destruct H as [H Hnl]. apply orb_false_iff in H. tauto. Qed.

(* a bare field consumed from InField stays in InField *)
Lemma run_bare_infield f : forall p a, needs_quote f = false ->
  run (mk InField p a) f = mk InField (rev f ++ p) a.
Proof.
  induction f as [|c f IH]; intros p a H; [reflexivity|].
  cbn [needs_quote existsb] in H. apply orb_false_iff in H. destruct H as [Hc Hf].
  destruct (special_false c Hc) as (Hcomma & Hq & Hnl).
  rewrite run_cons.
  assert (E : step (mk InField p a) (Some c) = mk InField (c :: p) a).
  { unfold step. cbn [state]. rewrite Hnl, Hcomma. reflexivity. }
  rewrite E, IH by exact Hf. cbn [rev]. rewrite <- app_assoc. reflexivity.
Qed.

(* a non-empty bare field from StartField / StartRecord *)
Lemma run_bare_start f a s0 : (s0 = StartField \/ s0 = StartRecord) -> f <> [] -> needs_quote f = false ->
  run (mk s0 [] a) f = mk InField (rev f) a.
Proof.
  intros Hs Hne H. destruct f as [|c f]; [congruence|].
  cbn [needs_quote existsb] in H. apply orb_false_iff in H. destruct H as [Hc Hf].
  destruct (special_false c Hc) as (Hcomma & Hq & Hnl).
  rewrite run_cons.
  assert (E : step (mk s0 [] a) (Some c) = mk InField [c] a).
  { destruct Hs as [-> | ->]; unfold step; cbn [state]; try rewrite Hnl; unfold start_field; rewrite Hnl, Hq, Hcomma; reflexivity. }
  rewrite E, run_bare_infield by exact Hf. cbn [rev]. reflexivity.
Qed.

(* inside quotes: escaped content *)
Lemma run_esc f : forall p a, run (mk InQuoted p a) (esc f) = mk InQuoted (rev f ++ p) a.
Proof.
  induction f as [|c f IH]; intros p a; [reflexivity|].
  unfold esc. cbn [flat_map]. fold (esc f). destruct (c =? QUOTE) eqn:Eq.
  - apply N.eqb_eq in Eq. subst c. cbn [app]. rewrite !run_cons.
    assert (E : step (step (mk InQuoted p a) (Some QUOTE)) (Some QUOTE) = mk InQuoted (QUOTE :: p) a) by reflexivity.
    rewrite E, IH. cbn [rev]. rewrite <- app_assoc. reflexivity.
  - cbn [app]. rewrite run_cons.
    assert (E : step (mk InQuoted p a) (Some c) = mk InQuoted (c :: p) a).
    { unfold step. cbn [state]. rewrite Eq. reflexivity. }
    rewrite E, IH. cbn [rev]. rewrite <- app_assoc. reflexivity.
Qed.

Lemma run_quoted f a s0 : (s0 = StartField \/ s0 = StartRecord) ->
  run (mk s0 [] a) (QUOTE :: esc f ++ [QUOTE]) = mk QuoteInQuoted (rev f) a.
Proof.
  intros Hs. rewrite run_cons.
  assert (E : step (mk s0 [] a) (Some QUOTE) = mk InQuoted [] a).
  { destruct Hs as [-> | ->]; reflexivity. }
  rewrite E, run_app, run_esc, run_cons. cbn [run fold_left]. rewrite app_nil_r. reflexivity.
Qed.

(* state after a rendered field: one of three "field complete" shapes, all of which save the same field on COMMA / newline *)
Definition done_with (s : pst) (f : list ch) (a : list (list ch)) : Prop :=
  acc s = a /\
  ((state s = InField /\ rev (pend s) = f /\ f <> []) \/
   (state s = QuoteInQuoted /\ rev (pend s) = f) \/
   ((state s = StartField) /\ pend s = [] /\ f = [])).

Lemma after_field f a s0 : s0 = StartField -> done_with (run (mk s0 [] a) (render_field f)) f a.
Proof.
  intros ->. unfold render_field. destruct (needs_quote f) eqn:E.
  - rewrite run_quoted by (now left). split; [reflexivity|]. right; left. cbn. rewrite rev_involutive. auto.
  - destruct f as [|c f'].
    + split; [reflexivity|]. right; right. auto.
    + rewrite run_bare_start; [|now left|discriminate|exact E]. split; [reflexivity|]. left. cbn [state pend]. rewrite rev_involutive. repeat split. discriminate.
Qed.

Lemma done_comma s f a : done_with s f a -> step s (Some COMMA) = mk StartField [] (f :: a).
Proof.
  intros [Ha [[Hs [Hp _]]|[[Hs Hp]|[Hs [Hp Hf]]]]]; destruct s as [s0 p a0]; cbn in *; subst; reflexivity.
Qed.
Lemma done_lf s f a : done_with s f a -> step s (Some LF) = mk EatCRNL [] (f :: a).
Proof.
  intros [Ha [[Hs [Hp _]]|[[Hs Hp]|[Hs [Hp Hf]]]]]; destruct s as [s0 p a0]; cbn in *; subst; reflexivity.
Qed.

Lemma run_join fs : forall a, fs <> [] ->
  exists s, run (mk StartField [] a) (join fs) = s /\
            exists f0 rest, fs = rest ++ [f0] /\ done_with s f0 (rev rest ++ a).
Proof.
  induction fs as [|f fs IH]; intros a Hne; [congruence|].
  destruct fs as [|g fs'].
  - cbn [join]. eexists; split; [reflexivity|]. exists f, []. split; [reflexivity|]. apply after_field. reflexivity.
  - change (join (f :: g :: fs')) with (render_field f ++ COMMA :: join (g :: fs')).
    rewrite run_app, run_cons.
    rewrite (done_comma _ f a) by (apply after_field; reflexivity).
    destruct (IH (f :: a)) as [s [Hs [f0 [rest [Hfs Hd]]]]]; [discriminate|].
    exists s; split; [exact Hs|]. exists f0, (f :: rest). split; [cbn; rewrite Hfs; reflexivity|].
    cbn [rev]. rewrite <- app_assoc. exact Hd.
Qed.

Lemma start_record_as_field l a :
  l <> [] -> (forall c l', l = c :: l' -> is_nl c = false) ->
  run (mk StartRecord [] a) l = run (mk StartField [] a) l.
Proof.
  intros Hne H. destruct l as [|c l']; [congruence|]. rewrite !run_cons. f_equal.
  unfold step. cbn [state]. rewrite (H c l' eq_refl). reflexivity.
Qed.

Lemma render_field_head f c l' : render_field f = c :: l' -> is_nl c = false.
Proof.
  unfold render_field. destruct (needs_quote f) eqn:E.
  - intros H. inversion H. reflexivity.
  - intros ->. cbn [needs_quote existsb] in E. apply orb_false_iff in E. destruct E as [Hc _].
    apply special_false in Hc. tauto.
Qed.

Lemma join_head fs c l' : join fs = c :: l' -> is_nl c = false.
Proof.
  destruct fs as [|f [|g fs']]; cbn [join]; [discriminate| apply render_field_head |].
  destruct (render_field f) as [|d r] eqn:E.
  - cbn [app]. intros H. inversion H. reflexivity.
  - cbn [app]. intros H. inversion H; subst. eapply render_field_head. exact E.
Qed.

Lemma join_nonempty fs : fs <> [] -> fs <> [[]] -> join fs <> [].
Proof.
  destruct fs as [|f [|g fs']]; intros H1 H2; [congruence| |].
  - cbn [join]. unfold render_field. destruct (needs_quote f); [discriminate|]. intros ->. congruence.
  - cbn [join]. destruct (render_field f); discriminate.
Qed.

Theorem roundtrip fs : fs <> [] -> parse (render fs ++ [LF]) = Some fs.
Proof.
  intros Hne.
  assert (Hcase : fs = [[]] \/ fs <> [[]]).
  { destruct fs as [|[|c f] [|g r]]; try (right; discriminate); try (left; reflexivity). }
  destruct Hcase as [-> | Hne2]; [reflexivity|].
  assert (Hr : render fs = join fs).
  { destruct fs as [|[|c f] [|g r]]; try reflexivity. congruence. }
  rewrite Hr. unfold parse. rewrite run_app.
  unfold init. rewrite start_record_as_field; [| apply join_nonempty; assumption | intros c l' E; eapply join_head; exact E].
  destruct (run_join fs [] Hne) as [s [Hs [f0 [rest [Hfs Hd]]]]]. rewrite Hs.
  rewrite run_cons. rewrite (done_lf s f0 _ Hd). cbn [run fold_left step state goto acc pend].
  rewrite app_nil_r. cbn [rev]. rewrite rev_involutive. f_equal. symmetry. exact Hfs.
Qed.
