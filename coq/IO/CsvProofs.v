(* C16 — proofs about the csv.reader machine: the QUOTE_MINIMAL writer round-trips through it. *)
From Coq Require Import List NArith Bool Lia.
From Outrank Require Import IO.Str IO.StrProofs IO.Csv.
Import ListNotations.
Open Scope N_scope.

Lemma run_app s l1 l2 : run s (l1 ++ l2) = run (run s l1) l2.
Proof. unfold run. apply fold_left_app. Qed.

Lemma run_cons s c l : run s (c :: l) = run (step s (Some c)) l.
Proof. reflexivity. Qed.

Lemma special_false c : special c = false -> (c =? COMMA) = false /\ (c =? QUOTE) = false /\ is_nl c = false.
Proof. unfold special. intros H. apply orb_false_iff in H. destruct H as [H Hnl]. apply orb_false_iff in H. tauto. Qed.

(* a bare field consumed from InField stays in InField *)
Lemma run_bare_infield f : forall p a, needs_quote f = false ->
  run (mk InField p a) f = mk InField (rev f ++ p) a.
Proof.
  induction f as [|c f IH]; intros p a H; [reflexivity|].
  cbn [needs_quote existsb] in H. apply orb_false_iff in H. destruct H as [Hc Hf].
  destruct (special_false c Hc) as (Hcomma & Hq & Hnl).
  rewrite run_cons.
  assert (E : step (mk InField p a) (Some c) = mk InField (c :: p) a).
  { unfold step. cbn [state]. rewrite Hnl, Hcomma. reflexivity. }
  rewrite E, IH by exact Hf. cbn [rev]. rewrite <- app_assoc. reflexivity.
Qed.

(* a non-empty bare field from StartField / StartRecord *)
Lemma run_bare_start f a s0 : (s0 = StartField \/ s0 = StartRecord) -> f <> [] -> needs_quote f = false ->
  run (mk s0 [] a) f = mk InField (rev f) a.
Proof.
  intros Hs Hne H. destruct f as [|c f]; [congruence|].
  cbn [needs_quote existsb] in H. apply orb_false_iff in H. destruct H as [Hc Hf].
  destruct (special_false c Hc) as (Hcomma & Hq & Hnl).
  rewrite run_cons.
  assert (E : step (mk s0 [] a) (Some c) = mk InField [c] a).
  { destruct Hs as [-> | ->]; unfold step; cbn [state]; try rewrite Hnl; unfold start_field; rewrite Hnl, Hq, Hcomma; reflexivity. }
  rewrite E, run_bare_infield by exact Hf. cbn [rev]. reflexivity.
Qed.

(* inside quotes: escaped content *)
Lemma run_esc f : forall p a, run (mk InQuoted p a) (esc f) = mk InQuoted (rev f ++ p) a.
Proof.
  induction f as [|c f IH]; intros p a; [reflexivity|].
  unfold esc. cbn [flat_map]. fold (esc f). destruct (c =? QUOTE) eqn:Eq.
  - apply N.eqb_eq in Eq. subst c. cbn [app]. rewrite !run_cons.
    assert (E : step (step (mk InQuoted p a) (Some QUOTE)) (Some QUOTE) = mk InQuoted (QUOTE :: p) a) by reflexivity.
    rewrite E, IH. cbn [rev]. rewrite <- app_assoc. reflexivity.
  - cbn [app]. rewrite run_cons.
    assert (E : step (mk InQuoted p a) (Some c) = mk InQuoted (c :: p) a).
    { unfold step. cbn [state]. rewrite Eq. reflexivity. }
    rewrite E, IH. cbn [rev]. rewrite <- app_assoc. reflexivity.
Qed.

Lemma run_quoted f a s0 : (s0 = StartField \/ s0 = StartRecord) ->
  run (mk s0 [] a) (QUOTE :: esc f ++ [QUOTE]) = mk QuoteInQuoted (rev f) a.
Proof.
  intros Hs. rewrite run_cons.
  assert (E : step (mk s0 [] a) (Some QUOTE) = mk InQuoted [] a).
  { destruct Hs as [-> | ->]; reflexivity. }
  rewrite E, run_app, run_esc, run_cons. cbn [run fold_left]. rewrite app_nil_r. reflexivity.
Qed.

(* state after a rendered field: one of three "field complete" shapes, all of which save the same field on COMMA / newline *)
Definition done_with (s : pst) (f : list ch) (a : list (list ch)) : Prop :=
  acc s = a /\
  ((state s = InField /\ rev (pend s) = f /\ f <> []) \/
   (state s = QuoteInQuoted /\ rev (pend s) = f) \/
   ((state s = StartField) /\ pend s = [] /\ f = [])).

Lemma after_field f a s0 : s0 = StartField -> done_with (run (mk s0 [] a) (render_field f)) f a.
Proof.
  intros ->. unfold render_field. destruct (needs_quote f) eqn:E.
  - rewrite run_quoted by (now left). split; [reflexivity|]. right; left. cbn. rewrite rev_involutive. auto.
  - destruct f as [|c f'].
    + split; [reflexivity|]. right; right. auto.
    + rewrite run_bare_start; [|now left|discriminate|exact E]. split; [reflexivity|]. left. cbn [state pend]. rewrite rev_involutive. repeat split. discriminate.
Qed.

Lemma done_comma s f a : done_with s f a -> step s (Some COMMA) = mk StartField [] (f :: a).
Proof.
  intros [Ha [[Hs [Hp _]]|[[Hs Hp]|[Hs [Hp Hf]]]]]; destruct s as [s0 p a0]; cbn in *; subst; cbn; unfold save, add, goto; cbn [state pend acc]; rewrite ?frev_rev; reflexivity.
Qed.
Lemma done_lf s f a : done_with s f a -> step s (Some LF) = mk EatCRNL [] (f :: a).
Proof.
  intros [Ha [[Hs [Hp _]]|[[Hs Hp]|[Hs [Hp Hf]]]]]; destruct s as [s0 p a0]; cbn in *; subst; cbn; unfold save, add, goto; cbn [state pend acc]; rewrite ?frev_rev; reflexivity.
Qed.

Lemma run_join fs : forall a, fs <> [] ->
  exists s, run (mk StartField [] a) (join fs) = s /\
            exists f0 rest, fs = rest ++ [f0] /\ done_with s f0 (rev rest ++ a).
Proof.
  induction fs as [|f fs IH]; intros a Hne; [congruence|].
  destruct fs as [|g fs'].
  - cbn [join]. eexists; split; [reflexivity|]. exists f, []. split; [reflexivity|]. apply after_field. reflexivity.
  - change (join (f :: g :: fs')) with (render_field f ++ COMMA :: join (g :: fs')).
    rewrite run_app, run_cons.
    rewrite (done_comma _ f a) by (apply after_field; reflexivity).
    destruct (IH (f :: a)) as [s [Hs [f0 [rest [Hfs Hd]]]]]; [discriminate|].
    exists s; split; [exact Hs|]. exists f0, (f :: rest). split; [cbn; rewrite Hfs; reflexivity|].
    cbn [rev]. rewrite <- app_assoc. exact Hd.
Qed.

Lemma start_record_as_field l a :
  l <> [] -> (forall c l', l = c :: l' -> is_nl c = false) ->
  run (mk StartRecord [] a) l = run (mk StartField [] a) l.
Proof.
  intros Hne H. destruct l as [|c l']; [congruence|]. rewrite !run_cons. f_equal.
  unfold step. cbn [state]. rewrite (H c l' eq_refl). reflexivity.
Qed.

Lemma render_field_head f c l' : render_field f = c :: l' -> is_nl c = false.
Proof.
  unfold render_field. destruct (needs_quote f) eqn:E.
  - intros H. inversion H. reflexivity.
  - intros ->. cbn [needs_quote existsb] in E. apply orb_false_iff in E. destruct E as [Hc _].
    apply special_false in Hc. tauto.
Qed.

Lemma join_head fs c l' : join fs = c :: l' -> is_nl c = false.
Proof.
  destruct fs as [|f [|g fs']]; cbn [join]; [discriminate| apply render_field_head |].
  destruct (render_field f) as [|d r] eqn:E.
  - cbn [app]. intros H. inversion H. reflexivity.
  - cbn [app]. intros H. inversion H; subst. eapply render_field_head. exact E.
Qed.

Lemma join_nonempty fs : fs <> [] -> fs <> [[]] -> join fs <> [].
Proof.
  destruct fs as [|f [|g fs']]; intros H1 H2; [congruence| |].
  - cbn [join]. unfold render_field. destruct (needs_quote f); [discriminate|]. intros ->. congruence.
  - cbn [join]. destruct (render_field f); discriminate.
Qed.

Lemma done_eol s f a : done_with s f a -> step s None = mk StartRecord [] (f :: a).
Proof.
  intros [Ha [[Hs [Hp _]]|[[Hs Hp]|[Hs [Hp Hf]]]]]; destruct s as [s0 p a0]; cbn in *; subst; cbn; unfold save, add, goto; cbn [state pend acc]; rewrite ?frev_rev; reflexivity.
Qed.

Lemma is_nl_cases c : is_nl c = true -> c = LF \/ c = CR.
Proof. unfold is_nl. intros H. apply orb_true_iff in H. destruct H as [H|H]; apply N.eqb_eq in H; auto. Qed.

Lemma done_nl s f a c : is_nl c = true -> done_with s f a -> step s (Some c) = mk EatCRNL [] (f :: a).
Proof.
  intros Hc Hd. apply is_nl_cases in Hc. destruct Hc as [-> | ->]; [apply done_lf, Hd|].
  destruct Hd as [Ha [[Hs [Hp _]]|[[Hs Hp]|[Hs [Hp Hf]]]]]; destruct s as [s0 p a0]; cbn in *; subst; cbn; unfold save, add, goto; cbn [state pend acc]; rewrite ?frev_rev; reflexivity.
Qed.

Lemma run_eat term : forall a, forallb is_nl term = true -> run (mk EatCRNL [] a) term = mk EatCRNL [] a.
Proof.
  induction term as [|c term IH]; intros a H; [reflexivity|]. cbn [forallb] in H. apply andb_true_iff in H.
  destruct H as [Hc Ht]. rewrite run_cons.
  assert (E : step (mk EatCRNL [] a) (Some c) = mk EatCRNL [] a). { unfold step. cbn [state]. rewrite Hc. reflexivity. }
  rewrite E. apply IH, Ht.
Qed.

(* after the rendered record the machine has every field but the last saved, and the last one complete *)
Lemma run_render fs : fs <> [] ->
  exists f0 rest, fs = rest ++ [f0] /\ done_with (run init (render fs)) f0 (rev rest).
Proof.
  intros Hne.
  assert (Hcase : fs = [[]] \/ fs <> [[]]).
  { destruct fs as [|[|c f] [|g r]]; try (right; discriminate); try (left; reflexivity). }
  destruct Hcase as [-> | Hne2].
  - exists [], []. split; [reflexivity|]. split; [reflexivity|]. right; left. split; reflexivity.
  - assert (Hr : render fs = join fs).
    { destruct fs as [|[|c f] [|g r]]; try reflexivity. congruence. }
    rewrite Hr. unfold init.
    rewrite start_record_as_field; [| apply join_nonempty; assumption | intros c l' E; eapply join_head; exact E].
    destruct (run_join fs [] Hne) as [s [Hs [f0 [rest [Hfs Hd]]]]]. rewrite Hs.
    exists f0, rest. split; [exact Hfs|]. rewrite app_nil_r in Hd. exact Hd.
Qed.

(* the writer's record followed by any terminator made of CR / LF characters (LF as the streaming loop
   sees it, CR LF as csv.writer emits it, nothing for a last line without terminator) *)
Theorem roundtrip_term fs term : fs <> [] -> forallb is_nl term = true -> parse (render fs ++ term) = Some fs.
Proof.
  intros Hne Ht. destruct (run_render fs Hne) as (f0 & rest & Hfs & Hd).
  unfold parse. rewrite run_app. destruct term as [|c term].
  - cbn [run fold_left]. rewrite (done_eol _ _ _ Hd). cbn [state acc]. rewrite frev_rev. cbn [rev]. rewrite rev_involutive.
    f_equal. symmetry. exact Hfs.
  - cbn [forallb] in Ht. apply andb_true_iff in Ht. destruct Ht as [Hc Ht].
    rewrite run_cons, (done_nl _ _ _ c Hc Hd), run_eat by exact Ht.
    cbn [step state goto acc pend]. rewrite frev_rev. cbn [rev]. rewrite rev_involutive. f_equal. symmetry. exact Hfs.
Qed.

Theorem roundtrip fs : fs <> [] -> parse (render fs ++ [LF]) = Some fs.
Proof. intros Hne. apply roundtrip_term; [exact Hne|reflexivity]. Qed.

(* ---------- physical lines ---------- *)

Lemma none_nl_esc f : none is_nl f -> none is_nl (esc f).
Proof.
  induction f as [|c f IH]; intros H; [reflexivity|]. apply none_cons in H. destruct H as [Hc Hf].
  unfold esc. cbn [flat_map]. fold (esc f). apply none_app. split; [|auto].
  destruct (c =? QUOTE) eqn:E.
  - apply N.eqb_eq in E. subst c. reflexivity.
  - apply none_cons. split; [exact Hc|reflexivity].
Qed.

Lemma none_nl_render_field f : none is_nl f -> none is_nl (render_field f).
Proof.
  intros H. unfold render_field. destruct (needs_quote f); [|exact H].
  apply none_cons. split; [reflexivity|]. apply none_app. split; [apply none_nl_esc, H|reflexivity].
Qed.

Lemma none_nl_join fs : Forall (none is_nl) fs -> none is_nl (join fs).
Proof.
  induction fs as [|f fs IH]; intros H; [reflexivity|]. inversion H as [|? ? Hf H']; subst.
  destruct fs as [|g fs']; [apply none_nl_render_field, Hf|].
  change (join (f :: g :: fs')) with (render_field f ++ COMMA :: join (g :: fs')).
  apply none_app. split; [apply none_nl_render_field, Hf|]. apply none_cons. split; [reflexivity|apply IH, H'].
Qed.

Lemma none_nl_render fs : Forall (none is_nl) fs -> none is_nl (render fs).
Proof.
  intros H. unfold render. destruct fs as [|[|c f] [|g r]]; try apply none_nl_join, H. reflexivity.
Qed.

(* records whose cells contain no line break are exactly the physical lines of the file *)
Theorem csv_physical_lines rows : Forall (Forall (none is_nl)) rows ->
  phys_lines (concat (map (fun r => render r ++ [LF]) rows)) = map (fun r => render r ++ [LF]) rows.
Proof.
  intros H. rewrite <- (map_map render (fun l => l ++ [LF])). apply phys_lines_concat.
  apply Forall_map. eapply Forall_impl; [|exact H]. intros r. apply none_nl_render.
Qed.

(* why the hypothesis is needed: a quoted cell with a line break is legal CSV, but the pipeline reads
   physical lines; the record x,"y LF z,w" splits into two lines that BOTH pass the two-column
   field-count test with wrong cells *)
Theorem csv_linebreak_hypothesis_needed :
  exists row : list (list N),
    length row = 2%nat /\
    parse (render row ++ [LF]) = Some row /\
    exists r1 r2, map parse (phys_lines (render row ++ [LF])) = [Some r1; Some r2] /\
                  length r1 = 2%nat /\ length r2 = 2%nat /\ r1 <> row /\ r2 <> row.
Proof.
  exists [[120]; [121; 10; 122; 44; 119]]. split; [reflexivity|]. split; [vm_compute; reflexivity|].
  exists [[120]; [121; 10]], [[122]; [119; 34]]. vm_compute. repeat split; discriminate.
Qed.

(* splitting on commas instead of running the reader mis-aligns quoted cells *)
Theorem csv_naive_refuted :
  exists row : list (list N), Forall (none is_nl) row /\ parse (render row ++ [LF]) = Some row /\
    parse_naive (render row ++ [LF]) <> row /\ length (parse_naive (render row ++ [LF])) <> length row.
Proof.
  exists [[97; 44; 98]; [99]]. split; [repeat constructor|]. split; vm_compute; [reflexivity|]. split; discriminate.
Qed.

Example csv_nonvacuous :
  let row := [[]; [97; 44; 34; 98; 34]; [32; 120; 32]; []; [233; 9; 8364]; [34]] in
  render row = [44; 34; 97; 44; 34; 34; 98; 34; 34; 34; 44; 32; 120; 32; 44; 44; 233; 9; 8364; 44; 34; 34; 34; 34] /\
  parse (render row ++ [LF]) = Some row.
Proof. split; vm_compute; reflexivity. Qed.
