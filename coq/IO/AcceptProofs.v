(* C16 — the field-count validity test: a line is accepted as a whole or rejected as a whole, and a
   well-formed file goes through the loop row by row. *)
From Coq Require Import List NArith Bool Lia Arith.
From Outrank Require Import IO.Str IO.StrProofs IO.Csv IO.CsvProofs IO.Tsv IO.TsvProofs IO.Namespace IO.Vw IO.Accept.
Import ListNotations.
Open Scope N_scope.

Lemma accept_iff ncols r : accept ncols r = true <-> length r = ncols.
Proof. unfold accept. apply Nat.eqb_eq. Qed.

(* the small step of the validity test *)
Theorem accept_step_spec ncols s r :
  (length r = ncols ->
     accept_step ncols s r = mk_l (buf s ++ [r]) (emitted s) (invalid s) (crashed s)) /\
  (length r <> ncols ->
     accept_step ncols s r = mk_l (buf s) (emitted s) (invalid s + 1) (crashed s)).
Proof.
  unfold accept_step. split; intros H.
  - apply accept_iff in H. rewrite H. reflexivity.
  - destruct (accept ncols r) eqn:E; [apply accept_iff in E; contradiction|reflexivity].
Qed.

Lemma flush_accepted bsize s : accepted_rows (flush bsize s) = accepted_rows s.
Proof.
  unfold flush, accepted_rows. destruct (Nat.leb bsize (length (buf s))); [|reflexivity].
  cbn [emitted buf]. rewrite concat_app. cbn [concat]. rewrite !app_nil_r. reflexivity.
Qed.
Lemma flush_invalid bsize s : invalid (flush bsize s) = invalid s.
Proof. unfold flush. destruct (Nat.leb bsize (length (buf s))); reflexivity. Qed.
Lemma flush_crashed bsize s : crashed (flush bsize s) = crashed s.
Proof. unfold flush. destruct (Nat.leb bsize (length (buf s))); reflexivity. Qed.

Definition rejected (ncols : nat) (rows : list row) : list row := filter (fun r => negb (accept ncols r)) rows.

(* over lines that all parse: the rows handed to the mini-batches are exactly the rows with the header's
   field count, unmodified and in order; every other line increases the invalid counter by one *)
Theorem loop_rows parser ncols bsize lines : forall rows s,
  map parser lines = map Row rows -> crashed s = false ->
  let s' := fold_left (loop_step parser ncols bsize) lines s in
  accepted_rows s' = accepted_rows s ++ filter (accept ncols) rows /\
  invalid s' = invalid s + N.of_nat (length (rejected ncols rows)) /\
  crashed s' = false.
Proof.
  induction lines as [|l lines IH]; intros rows s Hmap Hc; cbv zeta.
  - destruct rows; [|discriminate]. cbn. rewrite app_nil_r, N.add_0_r. auto.
  - destruct rows as [|r rows]; [discriminate|]. cbn [map] in Hmap. inversion Hmap as [[Hl Hrest]].
    cbn [fold_left].
    assert (E : loop_step parser ncols bsize s l = flush bsize (accept_step ncols s r)).
    { unfold loop_step. rewrite Hc, Hl. reflexivity. }
    rewrite E. set (s1 := flush bsize (accept_step ncols s r)).
    assert (Hc1 : crashed s1 = false).
    { unfold s1. rewrite flush_crashed. unfold accept_step. destruct (accept ncols r); exact Hc. }
    destruct (IH rows s1 Hrest Hc1) as (Ha & Hi & Hcr). cbv zeta in Ha, Hi, Hcr.
    rewrite Ha, Hi, Hcr. unfold s1. rewrite flush_accepted, flush_invalid.
    unfold rejected. cbn [filter]. unfold accept_step. destruct (accept ncols r); cbn [negb].
    + unfold accepted_rows. cbn [emitted buf invalid]. rewrite <- !app_assoc. auto.
    + unfold accepted_rows. cbn [emitted buf invalid length]. split; [reflexivity|]. split; [lia|reflexivity].
Qed.

Lemma phys_lines_header h rest : none is_nl h -> phys_lines (h ++ LF :: rest) = (h ++ [LF]) :: phys_lines rest.
Proof. intros H. unfold phys_lines. rewrite phys_lines_aux_line by exact H. reflexivity. Qed.

(* what is dropped: after the last line the code processes the first bsize rows of the remainder when
   more than 2**10 rows remain, and nothing of it otherwise *)
Definition dropped_tail (bsize : nat) (s : lstate) : list row :=
  if 1024 <? N.of_nat (length (buf s)) then skipn bsize (buf s) else buf s.

(* rows that reach a processed mini-batch = accepted rows minus the dropped tail *)
Theorem batches_seen_spec bsize s : crashed s = false ->
  concat (batches_seen bsize s) ++ dropped_tail bsize s = accepted_rows s.
Proof.
  intros Hc. unfold batches_seen, dropped_tail, accepted_rows. rewrite Hc.
  destruct (1024 <? N.of_nat (length (buf s))).
  - rewrite concat_app. cbn [concat]. rewrite app_nil_r, <- app_assoc, firstn_skipn. reflexivity.
  - reflexivity.
Qed.

(* a csv file: header line, then writer-style records (any field may be quoted), cells without line
   breaks and within the reader's field size limit *)
Theorem stream_csv src delim fw hdr bsize hline rows :
  src = CsvRaw \/ src = ObCsv -> none is_nl hline ->
  Forall (fun r => r <> [] /\ Forall (none is_nl) (map snd r) /\ Forall flen_ok (map snd r)) rows ->
  let text := hline ++ LF :: concat (map (fun r => Csv.render_q r ++ [LF]) rows) in
  let s := run_loop (generic_line_parser src delim fw hdr) (length hdr) bsize text in
  accepted_rows s = map (fun r => map Some (map snd r)) (filter (fun r => Nat.eqb (length r) (length hdr)) rows) /\
  invalid s = N.of_nat (length (filter (fun r => negb (Nat.eqb (length r) (length hdr))) rows)) /\
  crashed s = false.
Proof.
  intros Hsrc Hh HF. cbv zeta. unfold run_loop. rewrite phys_lines_header by exact Hh. cbn [tl].
  rewrite csv_physical_lines_q by (eapply Forall_impl; [|exact HF]; intros r (_ & H & _); exact H).
  assert (Hmap : map (generic_line_parser src delim fw hdr) (map (fun r => Csv.render_q r ++ [LF]) rows)
                 = map Row (map (fun r => map Some (map snd r)) rows)).
  { rewrite !map_map. apply map_ext_in. intros r Hin. rewrite Forall_forall in HF. destruct (HF r Hin) as (Hne & _ & Hl).
    unfold generic_line_parser. destruct Hsrc as [-> | ->]; rewrite roundtrip_q_term by (auto); reflexivity. }
  destruct (loop_rows _ (length hdr) bsize _ _ loop_init Hmap eq_refl) as (Ha & Hi & Hc). cbv zeta in Ha, Hi, Hc.
  rewrite Ha, Hi, Hc. cbn [accepted_rows loop_init emitted buf concat app invalid]. rewrite N.add_0_l.
  assert (E1 : forall l : list (list (bool * list N)), filter (accept (length hdr)) (map (fun r => map Some (map snd r)) l)
                 = map (fun r => map Some (map snd r)) (filter (fun r => Nat.eqb (length r) (length hdr)) l)).
  { induction l as [|r l IHl]; [reflexivity|]. cbn [map filter]. unfold accept at 1. rewrite !map_length.
    destruct (Nat.eqb (length r) (length hdr)); cbn [map]; rewrite IHl; reflexivity. }
  assert (E2 : forall l : list (list (bool * list N)), length (rejected (length hdr) (map (fun r => map Some (map snd r)) l))
                 = length (filter (fun r => negb (Nat.eqb (length r) (length hdr))) l)).
  { induction l as [|r l IHl]; [reflexivity|]. unfold rejected in *. cbn [map filter]. unfold accept at 1. rewrite !map_length.
    destruct (Nat.eqb (length r) (length hdr)); cbn [negb length]; rewrite IHl; reflexivity. }
  rewrite E1, E2. auto.
Qed.

(* a tab-separated file *)
Theorem stream_tsv delim fw hdr bsize hline rows :
  is_nl delim = false -> none is_nl hline ->
  Forall (fun r => r <> [] /\ Forall (tsv_cell delim) r) rows ->
  let text := hline ++ LF :: concat (map (render_tsv delim) rows) in
  let s := run_loop (generic_line_parser ObRawDump delim fw hdr) (length hdr) bsize text in
  accepted_rows s = map (map Some) (filter (fun r => Nat.eqb (length r) (length hdr)) rows) /\
  invalid s = N.of_nat (length (filter (fun r => negb (Nat.eqb (length r) (length hdr))) rows)) /\
  crashed s = false.
Proof.
  intros Hd Hh HF. cbv zeta. unfold run_loop. rewrite phys_lines_header by exact Hh. cbn [tl].
  rewrite tsv_one_physical_line; [|exact Hd|eapply Forall_impl; [|exact HF]; intros r [_ H]; exact H].
  assert (Hmap : map (generic_line_parser ObRawDump delim fw hdr) (map (render_tsv delim) rows)
                 = map Row (map (map Some) rows)).
  { rewrite !map_map. apply map_ext_in. intros r Hin. rewrite Forall_forall in HF. destruct (HF r Hin) as [Hne Hc].
    unfold generic_line_parser, render_tsv. rewrite tsv_roundtrip_term; [reflexivity|exact Hd|reflexivity|exact Hne|exact Hc]. }
  destruct (loop_rows _ (length hdr) bsize _ _ loop_init Hmap eq_refl) as (Ha & Hi & Hc). cbv zeta in Ha, Hi, Hc.
  rewrite Ha, Hi, Hc. cbn [accepted_rows loop_init emitted buf concat app invalid]. rewrite N.add_0_l.
  assert (E1 : forall l : list (list (list N)), filter (accept (length hdr)) (map (map Some) l)
                 = map (map Some) (filter (fun r => Nat.eqb (length r) (length hdr)) l)).
  { induction l as [|r l IHl]; [reflexivity|]. cbn [map filter]. unfold accept at 1. rewrite map_length.
    destruct (Nat.eqb (length r) (length hdr)); cbn [map]; rewrite IHl; reflexivity. }
  assert (E2 : forall l : list (list (list N)), length (rejected (length hdr) (map (map Some) l))
                 = length (filter (fun r => negb (Nat.eqb (length r) (length hdr))) l)).
  { induction l as [|r l IHl]; [reflexivity|]. unfold rejected in *. cbn [map filter]. unfold accept at 1. rewrite map_length.
    destruct (Nat.eqb (length r) (length hdr)); cbn [negb length]; rewrite IHl; reflexivity. }
  rewrite E1, E2. auto.
Qed.

(* every VW row has the header's length: the validity test never rejects an ob-vw line *)
Theorem vw_row_length fw header line : header <> [] -> length (parse_vw fw header line) = length header.
Proof. intros H. unfold parse_vw. cbn [length]. rewrite map_length. destruct header; [congruence|reflexivity]. Qed.

Example stream_nonvacuous :
  let hdr := [[97]; [98]; [99]] in
  let text := [97; 44; 98; 44; 99; 10] ++ [120; 44; 34; 121; 44; 122; 34; 44; 10] ++ [49; 44; 50; 10] ++ [10] ++ [44; 44; 10] in
  let s := run_loop (generic_line_parser CsvRaw COMMA [] hdr) 3 2 text in
  emitted s = [[[Some [120]; Some [121; 44; 122]; Some []]; [Some []; Some []; Some []]]] /\ buf s = [] /\ invalid s = 2 /\ crashed s = false.
Proof. vm_compute. repeat split. Qed.
