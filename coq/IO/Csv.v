(* C16 — Python's csv.reader (default excel dialect: delimiter comma, quotechar double-quote, doublequote,
   no escapechar, skipinitialspace off, non-strict) as the character state machine of Modules/_csv.c,
   fed ONE line as the only element of the iterable (this is how parse_ob_csv_line calls it), and the
   QUOTE_MINIMAL writer.  Model file: definitions only (proofs in IO/CsvProofs.v). *)
From Coq Require Import List NArith Bool.
From Outrank Require Import IO.Str.
Import ListNotations.
Open Scope N_scope.

Inductive st := StartRecord | StartField | InField | InQuoted | QuoteInQuoted | EatCRNL | Err.

Record pst := mk { state : st; pend : list ch (* reversed *); acc : list (list ch) (* reversed *) }.

Definition save (s : pst) (next : st) : pst := mk next [] (frev (pend s) :: acc s).
Definition add (s : pst) (c : ch) (next : st) : pst := mk next (c :: pend s) (acc s).
Definition goto (s : pst) (next : st) : pst := mk next (pend s) (acc s).

Definition start_field (s : pst) (c : option ch) : pst :=
  match c with
  | None => save s StartRecord
  | Some c => if is_nl c then save s EatCRNL
              else if c =? QUOTE then goto s InQuoted
              else if c =? COMMA then save s StartField
              else add s c InField
  end.

(* [None] is the end-of-line sentinel the reader feeds after the last character of the line *)
Definition step (s : pst) (c : option ch) : pst :=
  match state s with
  | StartRecord => match c with
                   | None => s
                   | Some c' => if is_nl c' then goto s EatCRNL else start_field s c
                   end
  | StartField => start_field s c
  | InField => match c with
               | None => save s StartRecord
               | Some c => if is_nl c then save s EatCRNL else if c =? COMMA then save s StartField else add s c InField
               end
  | InQuoted => match c with
                | None => s
                | Some c => if c =? QUOTE then goto s QuoteInQuoted else add s c InQuoted
                end
  | QuoteInQuoted => match c with
                     | None => save s StartRecord
                     | Some c => if c =? QUOTE then add s QUOTE InQuoted
                                 else if c =? COMMA then save s StartField
                                 else if is_nl c then save s EatCRNL
                                 else add s c InField
                     end
  | EatCRNL => match c with
               | None => goto s StartRecord
               | Some c => if is_nl c then s else goto s Err
               end
  | Err => s
  end.

Definition run (s : pst) (l : list ch) : pst := fold_left (fun s c => step s (Some c)) l s.
Definition init : pst := mk StartRecord [] [].

(* list(csv.reader([line])).pop() : None = csv.Error.  When the only line ends inside a quoted field
   the iterator runs out and the pending field is flushed. *)
Definition parse (line : list ch) : option (list (list ch)) :=
  let s := step (run init line) None in
  match state s with
  | Err => None
  | StartRecord => Some (frev (acc s))
  | InQuoted => Some (frev (frev (pend s) :: acc s))
  | _ => Some (frev (match pend s with [] => acc s | _ => frev (pend s) :: acc s end))
  end.

(* writer, QUOTE_MINIMAL (csv.writer(f).writerow(fields) without the line terminator) *)
Definition special (c : ch) := (c =? COMMA) || (c =? QUOTE) || is_nl c.
Definition needs_quote (f : list ch) := existsb special f.
Definition esc (f : list ch) : list ch := flat_map (fun c => if c =? QUOTE then [QUOTE; QUOTE] else [c]) f.
Definition render_field (f : list ch) : list ch := if needs_quote f then QUOTE :: esc f ++ [QUOTE] else f.
Fixpoint join (fs : list (list ch)) : list ch :=
  match fs with
  | [] => []
  | [f] => render_field f
  | f :: rest => render_field f ++ COMMA :: join rest
  end.
(* a lone empty field is written as two quote characters so that the record is not an empty line *)
Definition render (fs : list (list ch)) : list ch :=
  match fs with [[]] => [QUOTE; QUOTE] | _ => join fs end.

(* the naive alternative the docstring of parse_ob_csv_line warns about (data can have commas within
   JSON field dumps) *)
Definition parse_naive (line : list ch) : list (list ch) := split_on COMMA (rstrip_nl line).
