(* C16 — Python's csv.reader (default excel dialect: delimiter comma, quotechar double-quote, doublequote,
   no escapechar, skipinitialspace off, non-strict) as the character state machine of Modules/_csv.c,
   fed ONE line as the only element of the iterable (this is how parse_ob_csv_line calls it), and the
   writer (QUOTE_MINIMAL, and the general form where any field may be quoted although it need not be:
   QUOTE_ALL / QUOTE_NONNUMERIC / Excel exports).  The reader's field size limit (csv.field_size_limit(),
   131072 by default) is part of the model: adding a character to a field that already holds that many
   raises Error.  Model file: definitions only (proofs in IO/CsvProofs.v). *)
From Coq Require Import List NArith Bool.
From Outrank Require Import IO.Str.
Import ListNotations.
Open Scope N_scope.

Inductive st := StartRecord | StartField | InField | InQuoted | QuoteInQuoted | EatCRNL | Err.

Definition field_limit : N := 131072.

(* flen = number of characters in the pending field (field_len of the C reader) *)
Record pst := mk { state : st; pend : list ch (* reversed *); acc : list (list ch) (* reversed *); flen : N }.

Definition save (s : pst) (next : st) : pst := mk next [] (frev (pend s) :: acc s) 0.
(* parse_add_char: if (field_len >= field_limit) -> Error, field larger than field limit *)
Definition add (s : pst) (c : ch) (next : st) : pst :=
  if field_limit <=? flen s then mk Err (pend s) (acc s) (flen s)
  else mk next (c :: pend s) (acc s) (flen s + 1).
Definition goto (s : pst) (next : st) : pst := mk next (pend s) (acc s) (flen s).

Definition start_field (s : pst) (c : option ch) : pst :=
  match c with
  | None => save s StartRecord
  | Some c => if is_nl c then save s EatCRNL
              else if c =? QUOTE then goto s InQuoted
              else if c =? COMMA then save s StartField
              else add s c InField
  end.

(* [None] is the end-of-line sentinel the reader feeds after the last character of the line *)
Definition step (s : pst) (c : option ch) : pst :=
  match state s with
  | StartRecord => match c with
                   | None => s
                   | Some c' => if is_nl c' then goto s EatCRNL else start_field s c
                   end
  | StartField => start_field s c
  | InField => match c with
               | None => save s StartRecord
               | Some c => if is_nl c then save s EatCRNL else if c =? COMMA then save s StartField else add s c InField
               end
  | InQuoted => match c with
                | None => s
                | Some c => if c =? QUOTE then goto s QuoteInQuoted else add s c InQuoted
                end
  | QuoteInQuoted => match c with
                     | None => save s StartRecord
                     | Some c => if c =? QUOTE then add s QUOTE InQuoted
                                 else if c =? COMMA then save s StartField
                                 else if is_nl c then save s EatCRNL
                                 else add s c InField
                     end
  | EatCRNL => match c with
               | None => goto s StartRecord
               | Some c => if is_nl c then s else goto s Err
               end
  | Err => s
  end.

Definition run (s : pst) (l : list ch) : pst := fold_left (fun s c => step s (Some c)) l s.
Definition init : pst := mk StartRecord [] [] 0.

(* list(csv.reader([line])).pop() : None = csv.Error.  When the only line ends inside a quoted field
   the iterator runs out and the pending field is flushed. *)
Definition parse (line : list ch) : option (list (list ch)) :=
  let s := step (run init line) None in
  match state s with
  | Err => None
  | StartRecord => Some (frev (acc s))
  | InQuoted => Some (frev (frev (pend s) :: acc s))
  | _ => Some (frev (match pend s with [] => acc s | _ => frev (pend s) :: acc s end))
  end.

(* writer.  A field MUST be quoted when it contains a comma, a quote or a line break (QUOTE_MINIMAL quotes
   exactly those); it MAY be quoted anyway (flag q): QUOTE_ALL, QUOTE_NONNUMERIC, spreadsheet exports *)
Definition special (c : ch) := (c =? COMMA) || (c =? QUOTE) || is_nl c.
Definition needs_quote (f : list ch) := existsb special f.
Definition esc (f : list ch) : list ch := flat_map (fun c => if c =? QUOTE then [QUOTE; QUOTE] else [c]) f.
Definition quoted (f : list ch) : list ch := QUOTE :: esc f ++ [QUOTE].
Definition render_field_q (q : bool) (f : list ch) : list ch := if q || needs_quote f then quoted f else f.
Definition render_field (f : list ch) : list ch := render_field_q false f.
Fixpoint join_q (row : list (bool * list ch)) : list ch :=
  match row with
  | [] => []
  | [(q, f)] => render_field_q q f
  | (q, f) :: rest => render_field_q q f ++ COMMA :: join_q rest
  end.
(* a lone empty field is always written as two quote characters so that the record is not an empty line *)
Definition render_q (row : list (bool * list ch)) : list ch :=
  match row with [(_, [])] => [QUOTE; QUOTE] | _ => join_q row end.
(* csv.writer(f).writerow(fields) with the default QUOTE_MINIMAL, without the line terminator *)
Definition render (fs : list (list ch)) : list ch := render_q (map (fun f => (false, f)) fs).

(* the naive alternative the docstring of parse_ob_csv_line warns about (data can have commas within
   JSON field dumps) *)
Definition parse_naive (line : list ch) : list (list ch) := split_on COMMA (rstrip_nl line).
