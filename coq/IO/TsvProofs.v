(* C16 — the tab-separated parser returns every cell unmodified, empty cells anywhere. *)
From Coq Require Import List NArith Bool Lia.
From Outrank Require Import IO.Str IO.StrProofs IO.Tsv.
Import ListNotations.
Open Scope N_scope.

(* a cell may contain anything except the delimiter and line-break characters *)
Definition tsv_cell (delim : ch) (c : str) : Prop := none (fun x => (x =? delim) || is_nl x) c.

Lemma tsv_cell_no_delim delim c : tsv_cell delim c -> none (N.eqb delim) c.
Proof.
  apply none_weaken. intros x H. rewrite N.eqb_sym in H. rewrite H. reflexivity.
Qed.

Lemma tsv_cell_no_nl delim c : tsv_cell delim c -> none is_nl c.
Proof. apply none_weaken. intros x H. rewrite H. apply orb_true_r. Qed.

(* any terminator made of CR / LF characters ("\n", "\r\n", none at end of file) *)
Theorem tsv_roundtrip_term delim cells term :
  is_nl delim = false -> all is_nl term -> cells <> [] -> Forall (tsv_cell delim) cells ->
  parse_tsv delim (join_with [delim] cells ++ term) = cells.
Proof.
  intros Hd Ht Hne HF. unfold parse_tsv, rstrip_nl. rewrite rstrip_app.
  - apply split_on_join; [exact Hne|]. eapply Forall_impl; [|exact HF]. intros c. apply tsv_cell_no_delim.
  - exact Ht.
  - apply none_last_ok, none_join.
    + apply none_cons. split; [exact Hd|apply none_nil].
    + eapply Forall_impl; [|exact HF]. intros c. apply tsv_cell_no_nl.
Qed.

Theorem tsv_roundtrip cells :
  cells <> [] -> Forall (tsv_cell TAB) cells -> parse_tsv TAB (render_tsv TAB cells) = cells.
Proof. intros Hne HF. unfold render_tsv. apply tsv_roundtrip_term; [reflexivity|reflexivity|exact Hne|exact HF]. Qed.

(* the rendered line is one physical line of the file *)
Theorem tsv_one_physical_line delim rows :
  is_nl delim = false -> Forall (Forall (tsv_cell delim)) rows ->
  phys_lines (concat (map (render_tsv delim) rows)) = map (render_tsv delim) rows.
Proof.
  intros Hd HF. unfold render_tsv.
  rewrite <- (map_map (join_with [delim]) (fun l => l ++ [LF])).
  apply phys_lines_concat. apply Forall_map. eapply Forall_impl; [|exact HF].
  intros r Hr. apply none_join.
  - apply none_cons. split; [exact Hd|apply none_nil].
  - eapply Forall_impl; [|exact Hr]. intros c. apply tsv_cell_no_nl.
Qed.

(* the behaviour before fix f0c9429: edge fields are lost *)
Theorem tsv_old_refuted :
  exists cells, cells <> [] /\ Forall (tsv_cell TAB) cells /\
                parse_tsv_old TAB (render_tsv TAB cells) <> cells /\
                length (parse_tsv_old TAB (render_tsv TAB cells)) <> length cells.
Proof.
  exists [[]; [98]; [99]]. split; [discriminate|]. split; [repeat constructor|].
  split; vm_compute; discriminate.
Qed.

(* ... and edge fields are modified even when the count survives *)
Theorem tsv_old_refuted_blanks :
  exists cells, Forall (tsv_cell TAB) cells /\
                length (parse_tsv_old TAB (render_tsv TAB cells)) = length cells /\
                parse_tsv_old TAB (render_tsv TAB cells) <> cells.
Proof.
  exists [[SP; 97]; [98; SP]]. split; [repeat constructor|]. split; vm_compute; [reflexivity|discriminate].
Qed.

Example tsv_nonvacuous :
  let cells := [[]; [97; 32; 44; 34]; []; [233; 8364]; []] in
  cells <> [] /\ Forall (tsv_cell TAB) cells /\ parse_tsv TAB (render_tsv TAB cells) = cells.
Proof. split; [discriminate|]. split; [repeat constructor|]. vm_compute. reflexivity. Qed.
