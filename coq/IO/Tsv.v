(* C16 — the tab-separated line parser parse_ob_line (data source ob-raw-dump).
   Model file: definitions only (proofs in IO/TsvProofs.v). *)
From Coq Require Import List NArith Bool.
From Outrank Require Import IO.Str.
Import ListNotations.
Open Scope N_scope.

(* repaired code (fix f0c9429): line.rstrip('\r\n').split(delimiter) *)
Definition parse_tsv (delim : ch) (line : str) : list str := split_on delim (rstrip_nl line).

(* before the repair: line.strip().split(delimiter) *)
Definition parse_tsv_old (delim : ch) (line : str) : list str := split_on delim (strip_ws line).

Definition render_tsv (delim : ch) (cells : list str) : str := join_with [delim] cells ++ [LF].
