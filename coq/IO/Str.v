(* C16 — strings as lists of Unicode code points and the Python str operations the line parsers use.
   Model file: definitions only (proofs are in IO/StrProofs.v). *)
From Coq Require Import List NArith Bool.
Import ListNotations.
Open Scope N_scope.

(* notations (not definitions) so that terms mention only N and list N *)
Notation ch := N (only parsing).
Notation str := (list N) (only parsing).

Definition LF : ch := 10.   Definition CR : ch := 13.   Definition TAB : ch := 9.
Definition SP : ch := 32.   Definition BAR : ch := 124. Definition DASH : ch := 45.
Definition COMMA : ch := 44. Definition QUOTE : ch := 34. Definition USCORE : ch := 95.

(* code points c with chr(c).isspace() in CPython 3.12 (what str.strip() without argument removes);
   the harness compares this list with the interpreter's on every run *)
Definition space_chars : list ch :=
  [9; 10; 11; 12; 13; 28; 29; 30; 31; 32; 133; 160; 5760;
   8192; 8193; 8194; 8195; 8196; 8197; 8198; 8199; 8200; 8201; 8202;
   8232; 8233; 8239; 8287; 12288].

Definition mem (c : ch) (l : list ch) : bool := existsb (N.eqb c) l.
Definition is_space (c : ch) : bool := mem c space_chars.
Definition is_nl (c : ch) : bool := (c =? LF) || (c =? CR).

(* list reversal in linear time (the standard library's rev is quadratic under vm_compute);
   StrProofs.frev_rev : frev l = rev l *)
Definition frev {A} (l : list A) : list A := rev_append l [].
Arguments frev : simpl never.

Fixpoint drop_while (p : ch -> bool) (l : str) : str :=
  match l with
  | [] => []
  | c :: r => if p c then drop_while p r else l
  end.

Definition lstrip (p : ch -> bool) (l : str) : str := drop_while p l.
Definition rstrip (p : ch -> bool) (l : str) : str := frev (drop_while p (frev l)).
(* s.strip() *)
Definition strip_ws (l : str) : str := rstrip is_space (lstrip is_space l).
(* s.rstrip('\r\n') : removes every trailing CR / LF *)
Definition rstrip_nl (l : str) : str := rstrip is_nl l.

(* s.split(sep) for a one-character separator: always at least one piece *)
Fixpoint split_on (sep : ch) (l : str) : list str :=
  match l with
  | [] => [[]]
  | c :: r =>
      if c =? sep then [] :: split_on sep r
      else match split_on sep r with
           | [] => [[c]]
           | h :: t => (c :: h) :: t
           end
  end.

(* sep.join(pieces) *)
Fixpoint join_with (sep : str) (ls : list str) : str :=
  match ls with
  | [] => []
  | [x] => x
  | x :: rest => x ++ sep ++ join_with sep rest
  end.

Fixpoint str_eqb (a b : str) : bool :=
  match a, b with
  | [], [] => true
  | x :: a', y :: b' => (x =? y) && str_eqb a' b'
  | _, _ => false
  end.

Definition nonempty (s : str) : bool := match s with [] => false | _ => true end.

(* text-mode file iteration with universal newlines (open(path) / gzip.open(path,'rt')):
   "\r\n" and a lone "\r" are translated to "\n"; a line ends after each "\n"; a last line without
   terminator is yielded as it is *)
Fixpoint phys_lines_aux (cur : str) (l : str) : list str :=
  match l with
  | [] => match cur with [] => [] | _ => [frev cur] end
  | c :: r =>
      if c =? LF then frev (LF :: cur) :: phys_lines_aux [] r
      else if c =? CR then
        match r with
        | c2 :: r2 => if c2 =? LF then frev (LF :: cur) :: phys_lines_aux [] r2
                      else frev (LF :: cur) :: phys_lines_aux [] r
        | [] => [frev (LF :: cur)]
        end
      else phys_lines_aux (c :: cur) r
  end.
Definition phys_lines (text : str) : list str := phys_lines_aux [] text.
