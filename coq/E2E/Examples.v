(* E2E — non-vacuity: small files evaluated by vm_compute; the hypotheses of the main theorems are satisfiable. *)
From Coq Require Import List NArith ZArith QArith Bool Arith Lia.
From Outrank Require Import IO.Str IO.StrProofs.
From Outrank Require IO.Csv IO.CsvProofs Pipeline.Combos.
From Outrank Require Import E2E.Compose E2E.RowsProofs E2E.ComposeProofs E2E.FileProofs E2E.SpecProofs.
Import ListNotations.
Local Open Scope N_scope.

(*  x,label,z
    a,1,p
    b,1,p
    a,0,"q,r"        <- a quoted cell with a comma: still three fields
    bad              <- one field: skipped and counted
    a,1,p
    b,0,p            <- remainder of one row: dropped (not more than 1024)                                   *)
Definition ex_names : list (list N) := [[120]; [108; 97; 98; 101; 108]; [122]].
Definition ex_rows : list (list (list N)) :=
  [[[97]; [49]; [112]]; [[98]; [49]; [112]]; [[97]; [48]; [113; 44; 114]]; [[98; 97; 100]]; [[97]; [49]; [112]]; [[98]; [48]; [112]]].
Definition ex_text : list N :=
  [120; 44; 108; 97; 98; 101; 108; 44; 122; 10; 97; 44; 49; 44; 112; 10; 98; 44; 49; 44; 112; 10; 97; 44; 48; 44; 34; 113; 44; 114;
   34; 10; 98; 97; 100; 10; 97; 44; 49; 44; 112; 10; 98; 44; 48; 44; 112; 10].
Definition s_label : list N := [108; 97; 98; 101; 108].
Definition s_False : list N := [70; 97; 108; 115; 101].
Definition ex_cfg := mkconfig 2 1 s_label Combos.s_True h_maxcov 32768.
Definition ex_cfg_pairwise := mkconfig 2 1 s_label s_False h_maxcov 6.
Definition ex_cfg_const := mkconfig 2 1 s_label s_False h_constant 32768.

Example ex_text_is_rendered : render_file ex_names ex_rows = ex_text.
Proof. vm_compute. reflexivity. Qed.

(* two batches of two rows; x vs label: 1/2 and 1/2 -> 1/2; label vs label: 2/2 and 1/2 -> 3/4; z vs label: 2/2, 1/2 -> 3/4 *)
Example ex_run : e2e_run ex_cfg ex_text =
  Some [([120], s_label, 2 # 4); (s_label, [120], 2 # 4); (s_label, s_label, 3 # 4); (s_label, [122], 3 # 4); ([122], s_label, 3 # 4)].
Proof. vm_compute. reflexivity. Qed.

(* pairwise mode with the cap exactly at the number of candidates (every unordered pair once, self pairs included: 6):
   9 ordered pairs in the table *)
Example ex_run_pairwise : option_map (@length _) (e2e_run ex_cfg_pairwise ex_text) = Some 9%nat.
Proof. vm_compute. reflexivity. Qed.

Example ex_run_cap_binding : e2e_run (mkconfig 2 1 s_label s_False h_maxcov 5) ex_text = None.
Proof. vm_compute. reflexivity. Qed.

Example ex_run_const : e2e_run ex_cfg_const ex_text =
  Some [([120], [120], 0 # 4); ([120], s_label, 0 # 4); ([120], [122], 0 # 4); (s_label, s_label, 0 # 4); (s_label, [122], 0 # 4); ([122], [122], 0 # 4)].
Proof. vm_compute. reflexivity. Qed.

(* the hypotheses of E2E_wellformed_file hold for this table, so the run can be stated over the table *)
Example ex_wellformed :
  ex_names <> [] /\ Forall (none (fun ch => (ch =? COMMA) || is_nl ch)) ex_names /\ edge_clean (join_with [COMMA] ex_names) /\
  Forall (fun r => r <> [] /\ Forall (none is_nl) r) ex_rows /\ Forall (Forall CsvProofs.flen_ok) ex_rows.
Proof.
  split; [discriminate|]. split; [repeat constructor|]. split; [split; vm_compute; reflexivity|]. split.
  - repeat (constructor; [split; [discriminate|repeat constructor]|]). constructor.
  - repeat (constructor; [repeat (constructor; [unfold CsvProofs.flen_ok; vm_compute; discriminate|]); constructor|]). constructor.
Qed.

Example ex_run_over_table : e2e_core ex_cfg ex_names (map Some ex_rows) = e2e_run ex_cfg ex_text.
Proof.
  destruct ex_wellformed as (H1 & H2 & H3 & H4 & H5). rewrite <- ex_text_is_rendered. symmetry. apply wellformed_run; assumption.
Qed.

(* the hypotheses of E2E_spec are satisfiable *)
Example ex_spec_hypotheses : exists t, e2e_core ex_cfg (header_of ex_text) (parse_lines ex_text) = Some t /\ Combos.is_const (g_heur ex_cfg) = false.
Proof. eexists. split; [exact ex_run|reflexivity]. Qed.

(* the tail rule inside the composition: a file of n equal rows and B = 2000 *)
Definition tail_text (n : nat) : list N := [97; 44; 121; 10] ++ concat (repeat [117; 44; 49; 10] n).
Definition tail_cfg := mkconfig 2000 1 [121] Combos.s_True h_maxcov 32768.
Example tail_1024_no_batch : e2e_run tail_cfg (tail_text 1024) = None /\ e2e_status tail_cfg (tail_text 1024) = 3.
Proof. vm_compute. split; reflexivity. Qed.
Example tail_1025_one_batch : e2e_run tail_cfg (tail_text 1025) = Some [([97], [121], 2050 # 2050); ([121], [97], 2050 # 2050); ([121], [121], 2050 # 2050)].
Proof. vm_compute. reflexivity. Qed.
(* every second line only (1-based): lines 2, 4, 6; line 4 is malformed and counted; rows 2 and 6 form the only batch *)
Example subsample_2 : e2e_layers (mkconfig 2 2 s_label Combos.s_True h_maxcov 32768) ex_text = (ex_names, 6%nat, [[2; 6]], 1%nat).
Proof. vm_compute. reflexivity. Qed.
