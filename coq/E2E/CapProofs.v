(* E2Ecap — proofs about the composed model with a binding per-batch cap (E2E/CapCompose.v).
   Layer facts are imported: the sampler (Pipeline/SamplerProofs.v: step_valid, model_fair, hist_counts, ...),
   the candidate list (Pipeline/CombosProofs.v: cands_once, select_ok, requested pairs), aggregation
   (AggregateProofs.v), the glue of the non-binding composition (E2E/RowsProofs.v, ComposeProofs.v, ShuffleProofs.v,
   SpecProofs.v, MedianRep.v).  What is proved here: the threading of the counter through the batches, the rows of a
   batch restricted to its selection, and the per-pair median over exactly the batches that selected the pair. *)
From Coq Require Import List NArith ZArith QArith Bool Arith Lia Permutation Sorting.Sorted.
From Outrank Require Import IO.Str IO.StrProofs.
From Outrank Require IO.Csv IO.CsvProofs IO.Accept.
From Outrank Require Import Common.Median.
From Outrank Require Pipeline.Stream Pipeline.StreamProofs.
From Outrank Require Import Pipeline.Aggregate Pipeline.AggregateProofs.
From Outrank Require Import Pipeline.RankGraph Pipeline.RankGraphProofs.
From Outrank Require Pipeline.Sampler Pipeline.SamplerProofs Pipeline.Combos Pipeline.CombosProofs.
From Outrank Require Import E2E.Compose E2E.CovProofs E2E.MedianRep E2E.RowsProofs E2E.ComposeProofs E2E.FileProofs
  E2E.ShuffleProofs E2E.SpecProofs E2E.CapCompose.
Import ListNotations.
Local Open Scope nat_scope.

Notation str := (list N) (only parsing).
Local Notation cocc := (count_occ Nat.eq_dec).

(* ========================================================================================================== *)
(* A. the counter threaded through nb calls on one list *)

Lemma cap_steps_length L cap nb : forall s, length (fst (cap_steps s L cap nb)) = nb.
Proof. induction nb as [|nb IH]; intros s; [reflexivity|]. cbn [cap_steps fst length]. rewrite IH. reflexivity. Qed.

(* the selections are those of C07's [run] on the history of nb equal calls *)
Lemma cap_steps_run L cap nb : forall s,
  fst (cap_steps s L cap nb) = map fst (Sampler.run s (repeat (L, cap) nb)).
Proof.
  induction nb as [|nb IH]; intros s; [reflexivity|]. cbn [cap_steps fst repeat Sampler.run].
  destruct (Sampler.step s L cap) as [sel s'] eqn:E. cbn [map fst snd]. rewrite IH. reflexivity.
Qed.

(* the final counter is C07's [run_state] *)
Lemma cap_steps_state L cap nb : forall s,
  snd (cap_steps s L cap nb) = fold_left (fun s c => snd (Sampler.step s L c)) (repeat cap nb) s.
Proof. induction nb as [|nb IH]; intros s; [reflexivity|]. cbn [cap_steps snd repeat fold_left]. apply IH. Qed.

Lemma cap_steps_run_state L cap nb : snd (cap_steps [] L cap nb) = SamplerProofs.run_state L (repeat cap nb).
Proof. apply cap_steps_state. Qed.

(* counter = initial counts + number of selections *)
Lemma cap_steps_get L cap nb : forall s k,
  Sampler.get (snd (cap_steps s L cap nb)) k = Sampler.get s k + Sampler.sel_count (fst (cap_steps s L cap nb)) k.
Proof.
  induction nb as [|nb IH]; intros s k; [cbn; lia|]. cbn [cap_steps fst snd].
  rewrite IH, SamplerProofs.sel_count_cons.
  rewrite (Sampler.vs_state _ _ _ _ _ (SamplerProofs.step_valid s L cap) k). lia.
Qed.

(* the history is a history of the sampler relation (C07's [hist]) and stays inside [reach] *)
Lemma cap_steps_hist L cap nb : forall s sels0,
  SamplerProofs.hist sels0 (Sampler.get s) ->
  SamplerProofs.hist (sels0 ++ fst (cap_steps s L cap nb)) (Sampler.get (snd (cap_steps s L cap nb))).
Proof.
  induction nb as [|nb IH]; intros s sels0 H; [cbn; rewrite app_nil_r; exact H|].
  cbn [cap_steps fst snd].
  replace (sels0 ++ fst (Sampler.step s L cap) :: fst (cap_steps (snd (Sampler.step s L cap)) L cap nb))
    with ((sels0 ++ [fst (Sampler.step s L cap)]) ++ fst (cap_steps (snd (Sampler.step s L cap)) L cap nb))
    by (rewrite <- app_assoc; reflexivity).
  apply IH. eapply SamplerProofs.histS; [exact H|apply SamplerProofs.step_valid].
Qed.

Lemma cap_steps_reach L cap nb : forall s,
  SamplerProofs.reach L (Sampler.get s) -> SamplerProofs.reach L (Sampler.get (snd (cap_steps s L cap nb))).
Proof.
  induction nb as [|nb IH]; intros s H; [exact H|]. cbn [cap_steps snd]. apply IH.
  eapply SamplerProofs.reachS; [exact H|apply SamplerProofs.step_valid].
Qed.

(* every selection is a valid sampler answer *)
Lemma cap_steps_sel_facts L cap nb : forall s,
  Forall (fun sel => incl sel L /\ length sel = Sampler.slice_len (length L) cap /\ (NoDup L -> NoDup sel))
         (fst (cap_steps s L cap nb)).
Proof.
  induction nb as [|nb IH]; intros s; [constructor|]. cbn [cap_steps fst]. constructor; [|apply IH].
  pose proof (SamplerProofs.step_valid s L cap) as V. split; [eapply SamplerProofs.vs_incl; exact V|].
  split; [apply (Sampler.vs_len _ _ _ _ _ V)|]. intros Hnd. eapply SamplerProofs.vs_nodup; eassumption.
Qed.

(* least-evaluated first, at every batch, against the counts implied by the earlier selections *)
Lemma cap_steps_least L cap : NoDup L -> forall nb s i x y,
  i < nb -> In x (nth i (fst (cap_steps s L cap nb)) []) -> In y L -> ~ In y (nth i (fst (cap_steps s L cap nb)) []) ->
  Sampler.get s x + Sampler.sel_count (firstn i (fst (cap_steps s L cap nb))) x
  <= Sampler.get s y + Sampler.sel_count (firstn i (fst (cap_steps s L cap nb))) y.
Proof.
  intros Hnd. induction nb as [|nb IH]; intros s i x y Hi Hx Hy Hny; [lia|].
  cbn [cap_steps fst] in *. pose proof (SamplerProofs.step_valid s L cap) as V. destruct i as [|j].
  - cbn [nth firstn] in *. unfold Sampler.sel_count. cbn [map list_sum]. rewrite !Nat.add_0_r.
    apply (SamplerProofs.vs_least_first _ _ _ _ _ Hnd V x y Hx Hy Hny).
  - cbn [nth firstn] in *. rewrite !SamplerProofs.sel_count_cons.
    assert (Hj : j < nb) by lia.
    pose proof (IH (snd (Sampler.step s L cap)) j x y Hj Hx Hy Hny) as H.
    rewrite !(Sampler.vs_state _ _ _ _ _ V) in H. lia.
Qed.

(* ---- the keys of the counter ---- *)
Lemma NoDup_app_intro_one {A} (l : list A) a : NoDup l -> ~ In a l -> NoDup (l ++ [a]).
Proof.
  intros H Hn. eapply Permutation_NoDup; [apply Permutation_cons_append|]. constructor; assumption.
Qed.

Lemma mem_In s k : Sampler.mem s k = true <-> In k (map fst s).
Proof.
  induction s as [|[k' c] r IH]; cbn [Sampler.mem map fst In]; [split; [discriminate|tauto]|].
  destruct (Nat.eqb k k') eqn:E.
  - apply Nat.eqb_eq in E. subst. split; auto.
  - apply Nat.eqb_neq in E. rewrite IH. split; [auto|]. intros [H|H]; [congruence|exact H].
Qed.

Lemma add_missing_keys L : forall s,
  (forall k, In k (map fst (Sampler.add_missing s L)) <-> In k (map fst s) \/ In k L) /\
  (NoDup (map fst s) -> NoDup (map fst (Sampler.add_missing s L))).
Proof.
  unfold Sampler.add_missing. induction L as [|a L IH]; intros s; cbn [fold_left].
  - split; [intros k; cbn; tauto|auto].
  - destruct (Sampler.mem s a) eqn:E.
    + apply mem_In in E. destruct (IH s) as [I1 I2]. split; [|exact I2].
      intros k. rewrite I1. cbn [In]. split; [tauto|]. intros [H|[H|H]]; subst; auto.
    + destruct (IH (s ++ [(a, 0)])) as [I1 I2]. split.
      * intros k. rewrite I1, map_app, in_app_iff. cbn [map fst In]. tauto.
      * intros Hnd. apply I2. rewrite map_app. cbn [map fst].
        apply NoDup_app_intro_one; [exact Hnd|].
        intros H. apply mem_In in H. congruence.
Qed.

Lemma incr_keys_in k : forall s, In k (map fst s) -> map fst (Sampler.incr s k) = map fst s.
Proof.
  induction s as [|[k' c] r IH]; intros H; [destruct H|]. cbn [Sampler.incr].
  destruct (Nat.eqb k k') eqn:E; [reflexivity|]. cbn [map fst]. f_equal. apply IH.
  destruct H as [H|H]; [|exact H]. cbn in H. apply Nat.eqb_neq in E. congruence.
Qed.

Lemma fold_incr_keys sel : forall s, incl sel (map fst s) -> map fst (fold_left Sampler.incr sel s) = map fst s.
Proof.
  induction sel as [|a sel IH]; intros s H; [reflexivity|]. cbn [fold_left].
  assert (Ha : In a (map fst s)) by (apply H; now left).
  rewrite IH; [apply incr_keys_in; exact Ha|]. rewrite incr_keys_in by exact Ha. intros x Hx. apply H. now right.
Qed.

Lemma step_keys s L cap :
  (forall k, In k (map fst (snd (Sampler.step s L cap))) <-> In k (map fst s) \/ In k L) /\
  (NoDup (map fst s) -> NoDup (map fst (snd (Sampler.step s L cap)))).
Proof.
  pose proof (SamplerProofs.step_valid s L cap) as V. apply SamplerProofs.vs_incl in V.
  unfold Sampler.step in *. destruct L as [|l0 L']; cbn [snd fst] in *.
  - split; [intros k; cbn; tauto|auto].
  - set (L := l0 :: L') in *. destruct (add_missing_keys L s) as [K1 K2].
    rewrite fold_incr_keys; [split; assumption|].
    intros x Hx. apply K1. right. apply V. exact Hx.
Qed.

Lemma cap_steps_keys L cap nb : forall s, 0 < nb ->
  (forall k, In k (map fst (snd (cap_steps s L cap nb))) <-> In k (map fst s) \/ In k L) /\
  (NoDup (map fst s) -> NoDup (map fst (snd (cap_steps s L cap nb)))).
Proof.
  induction nb as [|nb IH]; intros s Hnb; [lia|]. cbn [cap_steps snd].
  destruct (step_keys s L cap) as [S1 S2]. destruct nb as [|nb'].
  - cbn [cap_steps snd]. split; assumption.
  - destruct (IH (snd (Sampler.step s L cap)) ltac:(lia)) as [I1 I2]. split.
    + intros k. rewrite I1, S1. tauto.
    + intros H. apply I2, S2, H.
Qed.

Lemma get_in_nodup s k n : NoDup (map fst s) -> In (k, n) s -> Sampler.get s k = n.
Proof.
  induction s as [|[k' c] r IH]; intros Hnd Hin; [destruct Hin|]. cbn [Sampler.get].
  cbn [map fst] in Hnd. inversion Hnd as [|? ? Hn Hr]; subst.
  destruct Hin as [E|Hin].
  - inversion E; subst. rewrite Nat.eqb_refl. reflexivity.
  - destruct (Nat.eqb k k') eqn:E.
    + apply Nat.eqb_eq in E. subst. exfalso. apply Hn. apply in_map_iff. exists (k', n). auto.
    + apply IH; assumption.
Qed.

Lemma in_keys_get s k : In k (map fst s) -> In (k, Sampler.get s k) s.
Proof.
  induction s as [|[k' c] r IH]; intros H; [destruct H|]. cbn [Sampler.get].
  destruct (Nat.eqb k k') eqn:E.
  - apply Nat.eqb_eq in E. subst. now left.
  - right. apply IH. destruct H as [H|H]; [|exact H]. cbn in H. apply Nat.eqb_neq in E. congruence.
Qed.

(* ========================================================================================================== *)
(* B. ids <-> candidate pairs *)

Lemma cap_cands_eq c header : cap_cands c header = cands_of c header.
Proof. reflexivity. Qed.

Lemma in_cap_ids cands i : In i (cap_ids cands) -> exists p, In p cands /\ i = Combos.pidx cands p /\ of_id cands i = p.
Proof.
  unfold cap_ids, of_id. intros H. apply in_map_iff in H. destruct H as [p [<- Hp]]. exists p.
  split; [exact Hp|]. split; [reflexivity|]. apply CombosProofs.nth_pidx. exact Hp.
Qed.

Lemma cap_ids_nodup cands : NoDup cands -> NoDup (cap_ids cands).
Proof.
  intros H. unfold cap_ids. apply NoDup_map_on; [|exact H]. intros x y Hx Hy. apply CombosProofs.pidx_inj; assumption.
Qed.

Lemma pidx_in_ids cands p : In p cands -> In (Combos.pidx cands p) (cap_ids cands).
Proof. intros H. unfold cap_ids. apply in_map. exact H. Qed.

(* a selection of ids against the pairs it stands for *)
Lemma in_sel_pairs cands isel p : incl isel (cap_ids cands) -> In p cands ->
  (In p (map (of_id cands) isel) <-> In (Combos.pidx cands p) isel).
Proof.
  intros Hi Hp. rewrite in_map_iff. split.
  - intros [i [E Hin]]. destruct (in_cap_ids cands i (Hi _ Hin)) as [q [Hq [Ei Eo]]].
    rewrite Eo in E. subst q. rewrite <- Ei. exact Hin.
  - intros H. exists (Combos.pidx cands p). split; [apply CombosProofs.nth_pidx; exact Hp|exact H].
Qed.

(* the model's selections are C06's [select_run] (the sampler transcription applied to the candidate list) *)
Lemma cap_steps_select_run cands cap nb : forall s,
  map (map (of_id cands)) (fst (cap_steps s (cap_ids cands) cap nb)) = Combos.select_run s cands cap nb.
Proof. induction nb as [|nb IH]; intros s; [reflexivity|]. cbn [cap_steps fst map Combos.select_run]. rewrite IH. reflexivity. Qed.

Lemma cap_sels_select_run c header ps :
  cap_sels c header ps = Combos.select_run [] (cap_cands c header) (g_cap c) (nbatches c header ps).
Proof. apply cap_steps_select_run. Qed.

Lemma cap_sels_length c header ps : length (cap_sels c header ps) = length (e2e_batches c header ps).
Proof. rewrite cap_sels_select_run, CombosProofs.select_run_length. reflexivity. Qed.

Lemma cap_sels_ok c header ps : Forall (CombosProofs.selected_ok (cap_cands c header) (g_cap c)) (cap_sels c header ps).
Proof. rewrite cap_sels_select_run. apply CombosProofs.select_run_ok. Qed.

(* number of batches whose selection lists p *)
Definition nsel (sels : list (list Combos.pair)) (p : Combos.pair) : nat := length (filter (Combos.listedb p) sels).

Lemma cocc_nodup (l : list nat) k : NoDup l -> cocc l k = if in_dec Nat.eq_dec k l then 1 else 0.
Proof.
  intros H. destruct (in_dec Nat.eq_dec k l) as [Hi|Hn].
  - apply SamplerProofs.cocc_nodup_in; assumption.
  - apply count_occ_not_In. exact Hn.
Qed.

Lemma sel_count_nsel cands p : NoDup cands -> In p cands -> forall isels,
  Forall (fun isel => incl isel (cap_ids cands) /\ NoDup isel) isels ->
  Sampler.sel_count isels (Combos.pidx cands p) = nsel (map (map (of_id cands)) isels) p.
Proof.
  intros Hnd Hp. induction 1 as [|isel isels [Hi Hn] _ IH]; [reflexivity|].
  rewrite SamplerProofs.sel_count_cons, IH. unfold nsel. cbn [map filter].
  rewrite (cocc_nodup _ _ Hn).
  destruct (Combos.listedb p (map (of_id cands) isel)) eqn:E.
  - apply CombosProofs.listedb_In in E. apply (in_sel_pairs cands isel p Hi Hp) in E.
    destruct (in_dec Nat.eq_dec _ isel); [reflexivity|contradiction].
  - destruct (in_dec Nat.eq_dec (Combos.pidx cands p) isel) as [Hin|]; [|reflexivity].
    apply (in_sel_pairs cands isel p Hi Hp) in Hin. apply CombosProofs.listedb_In in Hin. congruence.
Qed.

(* ========================================================================================================== *)
(* C. the rows of a batch restricted to an evaluated list *)

Lemma batch_triplets_sel_ev c header D rows ev :
  batch_triplets_sel c header D rows ev = batch_triplets_ev c header D rows ev.
Proof. reflexivity. Qed.

(* Compose's batch rows are the instance "everything selected" *)
Lemma batch_triplets_is_sel c header D rows :
  batch_triplets c header D rows = batch_triplets_sel c header D rows (cap_cands c header).
Proof. reflexivity. Qed.

Lemma cap_all_rows_ev c header ps : cap_all_rows c header ps = all_rows_ev c header ps (cap_sels c header ps).
Proof. reflexivity. Qed.

Lemma rows_cov_ev c header D rows ev :
  Combos.is_const (g_heur c) = false -> In (g_label c) header -> closed header ev ->
  map (to_agg header) (batch_triplets_sel c header D rows ev)
  = map (fun xy => (kx header xy, Z.of_N (pair_num header D rows (fst xy) (snd xy)))) (mkeys ev).
Proof.
  intros Hc Hl Hcl. unfold batch_triplets_sel, Combos.build_rows. rewrite Hc, triplets_map, mirror_map. unfold mkeys.
  induction ev as [|[a b] l IH]; [reflexivity|].
  cbn [flat_map map app fst snd].
  destruct (Hcl a b (or_introl eq_refl)) as [Ha Hb].
  rewrite eval_pair_num by assumption. unfold to_agg at 1 2. cbn [fst snd]. unfold kx at 1 2. cbn [fst snd].
  rewrite (pair_num_sym header D rows b a). f_equal. f_equal.
  apply IH. intros x y H. apply Hcl. right. exact H.
Qed.

Lemma rows_const_ev c header D rows ev : Combos.is_const (g_heur c) = true ->
  map (to_agg header) (batch_triplets_sel c header D rows ev) = map (fun xy => (kx header xy, 0%Z)) ev.
Proof.
  intros Hc. unfold batch_triplets_sel, Combos.build_rows. rewrite Hc.
  unfold Combos.constant_rows. rewrite map_map. apply map_ext. intros [a b]. reflexivity.
Qed.

(* ---- scores of one ordered pair when every batch has its own key list ---- *)
Section VarKeys.
  Context {B : Type} (header : list str) (K : B -> list (str * str)) (V : B -> str * str -> Z).
  Definition vrows (bes : list B) : list Aggregate.row :=
    flat_map (fun be => map (fun xy => (kx header xy, V be xy)) (K be)) bes.

  Lemma vrows_keys bes k :
    In k (map fst (vrows bes)) <-> exists be xy, In be bes /\ In xy (K be) /\ k = kx header xy.
  Proof.
    unfold vrows. rewrite in_map_iff. split.
    - intros [r [<- Hr]]. apply in_flat_map in Hr. destruct Hr as [be [Hbe Hr]]. apply in_map_iff in Hr.
      destruct Hr as [xy [<- Hxy]]. exists be, xy. auto.
    - intros [be [xy [Hbe [Hxy ->]]]]. exists (kx header xy, V be xy). split; [reflexivity|].
      apply in_flat_map. exists be. split; [exact Hbe|]. apply in_map_iff. exists xy. auto.
  Qed.

  Lemma vrows_scores bes xy (P : B -> bool) m :
    In (fst xy) header -> In (snd xy) header ->
    (forall be, In be bes -> closed header (K be)) ->
    (forall be, In be bes -> mult header (K be) (kx header xy) = if P be then m else 0) ->
    scores_of (kx header xy) (vrows bes) = replicate m (map (fun be => V be xy) (filter P bes)).
  Proof.
    intros Ha Hb Hcl Hm. unfold vrows. rewrite scores_of_flat_map.
    induction bes as [|be bes IH]; [reflexivity|]. cbn [flat_map filter].
    rewrite IH by (intros; first [apply Hcl | apply Hm]; right; assumption).
    assert (E : scores_of (kx header xy) (map (fun xy' => (kx header xy', V be xy')) (K be))
                = repeat (V be xy) (mult header (K be) (kx header xy))).
    { rewrite scores_of_map. unfold mult. apply map_const_repeat.
      intros xy' H. apply filter_In in H. destruct H as [H1 H2]. apply key_eqb_eq in H2.
      destruct xy as [a b0], xy' as [a' b']. destruct (Hcl be (or_introl eq_refl) _ _ H1).
      apply kx_inj in H2; cbn [fst snd] in *; try assumption. rewrite H2. reflexivity. }
    rewrite E, (Hm be (or_introl eq_refl)). destruct (P be); [|reflexivity].
    cbn [map]. unfold replicate. cbn [flat_map]. reflexivity.
  Qed.
End VarKeys.

(* ---- multiplicity of an ordered pair among the rows of a batch that evaluated [sel] ---- *)
Lemma key_eqb_kx header p q : In (fst p) header -> In (snd p) header -> In (fst q) header -> In (snd q) header ->
  key_eqb (kx header q) (kx header p) = Combos.pair_eqb p q.
Proof.
  intros H1 H2 H3 H4. destruct (Combos.pair_eqb p q) eqn:E.
  - apply CombosProofs.pair_eqb_eq in E. subst. apply key_eqb_refl.
  - destruct (key_eqb (kx header q) (kx header p)) eqn:E'; [|reflexivity].
    apply key_eqb_eq in E'. apply kx_inj in E'; try assumption. subst.
    rewrite CombosProofs.pair_eqb_refl in E. discriminate.
Qed.

Lemma mult_pcount header keys p : closed header keys -> In (fst p) header -> In (snd p) header ->
  mult header keys (kx header p) = CombosProofs.pcount p keys.
Proof.
  intros Hcl H1 H2. unfold mult, CombosProofs.pcount. f_equal. apply filter_ext_in.
  intros [x y] Hin. destruct (Hcl _ _ Hin). apply key_eqb_kx; assumption.
Qed.

Lemma pcount_mkeys a b sel :
  CombosProofs.pcount (a, b) (mkeys sel) = CombosProofs.pcount (b, a) sel + CombosProofs.pcount (a, b) sel.
Proof.
  unfold mkeys. induction sel as [|[x y] sel IH]; [reflexivity|].
  cbn [flat_map fst snd app]. rewrite !CombosProofs.pcount_cons, IH.
  assert (E : Combos.pair_eqb (a, b) (y, x) = Combos.pair_eqb (b, a) (x, y)).
  { unfold Combos.pair_eqb. cbn [fst snd]. apply andb_comm. }
  rewrite E. lia.
Qed.

Lemma pcount_nodup p l : NoDup l -> CombosProofs.pcount p l = if Combos.listedb p l then 1 else 0.
Proof.
  induction 1 as [|q l Hq Hl IH]; [reflexivity|]. rewrite CombosProofs.pcount_cons, IH.
  unfold Combos.listedb. cbn [existsb]. fold (Combos.listedb p l).
  destruct (Combos.pair_eqb p q) eqn:E; cbn [orb]; [|reflexivity].
  apply CombosProofs.pair_eqb_eq in E. subst q.
  destruct (Combos.listedb p l) eqn:E2; [|reflexivity]. apply CombosProofs.listedb_In in E2. contradiction.
Qed.

Definition oriented (l : list Combos.pair) : Prop := forall a b, In (a, b) l -> In (b, a) l -> a = b.

Lemma umemb_listed a b sel : Combos.umemb (a, b) sel = Combos.listedb (a, b) sel || Combos.listedb (b, a) sel.
Proof.
  destruct (Combos.umemb (a, b) sel) eqn:E.
  - apply CombosProofs.umemb_uin in E. symmetry. apply orb_true_iff.
    destruct E as [E|E]; [left|right]; apply CombosProofs.listedb_In; exact E.
  - symmetry. apply orb_false_iff. split.
    + destruct (Combos.listedb (a, b) sel) eqn:E1; [|reflexivity]. apply CombosProofs.listedb_In in E1.
      assert (Combos.umemb (a, b) sel = true) by (apply CombosProofs.umemb_uin; left; exact E1). congruence.
    + destruct (Combos.listedb (b, a) sel) eqn:E1; [|reflexivity]. apply CombosProofs.listedb_In in E1.
      assert (Combos.umemb (a, b) sel = true) by (apply CombosProofs.umemb_uin; right; exact E1). congruence.
Qed.

(* a self pair occurs twice among the rows of a batch that selected it (mirror row = same ordered pair),
   any other selected pair once per orientation, an unselected pair never *)
Definition pmult (a b : str) : nat := if Combos.str_eqb a b then 2 else 1.

Lemma pmult_pos a b : 0 < pmult a b.
Proof. unfold pmult. destruct (Combos.str_eqb a b); lia. Qed.

Lemma mult_mkeys_sel header sel a b :
  closed header sel -> NoDup sel -> oriented sel -> In a header -> In b header ->
  mult header (mkeys sel) (kx header (a, b)) = if Combos.umemb (a, b) sel then pmult a b else 0.
Proof.
  intros Hcl Hnd Hor Ha Hb.
  rewrite (mult_pcount header (mkeys sel) (a, b) (mkeys_closed header sel Hcl) Ha Hb), pcount_mkeys.
  rewrite !pcount_nodup by exact Hnd. rewrite umemb_listed. unfold pmult, Combos.pair, Combos.str in *.
  destruct (Combos.str_eqb a b) eqn:Eab.
  - apply CombosProofs.str_eqb_eq in Eab. subst b. destruct (Combos.listedb (a, a) sel); reflexivity.
  - destruct (Combos.listedb (a, b) sel) eqn:E1, (Combos.listedb (b, a) sel) eqn:E2; cbn [orb]; try reflexivity.
    apply CombosProofs.listedb_In in E1, E2. rewrite (Hor a b E1 E2), CombosProofs.str_eqb_refl in Eab. discriminate.
Qed.

Lemma NoDup_app_l {A} (l r : list A) : NoDup (l ++ r) -> NoDup l.
Proof.
  induction l as [|x l IH]; intros H; [constructor|]. cbn [app] in H. inversion H as [|? ? Hx Hr]; subst.
  constructor; [intros Hin; apply Hx, in_or_app; left; exact Hin|apply IH; exact Hr].
Qed.

(* what a valid selection inherits from the candidate list *)
Lemma selected_facts header cands cap sel :
  closed header cands -> CombosProofs.once cands -> CombosProofs.selected_ok cands cap sel ->
  incl sel cands /\ closed header sel /\ NoDup sel /\ oriented sel.
Proof.
  intros Hcl [Hnd Hor] Hs. pose proof (CombosProofs.selected_ok_incl _ _ _ Hs) as Hi.
  split; [exact Hi|]. split; [intros a b H; apply Hcl, Hi, H|]. split.
  - destruct Hs as [_ [rest HP]]. apply Permutation_sym in HP. apply (Permutation_NoDup HP) in Hnd.
    eapply NoDup_app_l. exact Hnd.
  - intros a b H1 H2. apply Hor; apply Hi; assumption.
Qed.

(* ========================================================================================================== *)
(* D. the table *)

Lemma cap_config_ok_spec c header : cap_config_ok c header = true ->
  (0 < g_B c)%N /\ (0 < g_s c)%N /\ supported_heur (g_heur c) = true /\ NoDup header /\ In (g_label c) header /\
  (1 <= g_cap c)%Z.
Proof.
  unfold cap_config_ok. rewrite !andb_true_iff. intros [[[[[H1 H2] H3] H4] H5] H6].
  apply N.ltb_lt in H1, H2. apply Z.leb_le in H6. apply CombosProofs.memb_In in H5. apply nodup_strb_NoDup in H4. auto 10.
Qed.

Lemma e2ecap_core_some c header ps t : e2ecap_core c header ps = Some t ->
  cap_config_ok c header = true /\ crashes c ps = false /\ e2e_batches c header ps <> [] /\
  t = map (emit header (common_den (e2e_batches c header ps))) (final_table (cap_all_rows c header ps)).
Proof.
  unfold e2ecap_core. destruct (cap_config_ok c header); [|discriminate]. cbn [negb].
  destruct (crashes c ps); [discriminate|]. destruct (e2e_batches c header ps) eqn:E; [discriminate|].
  intros H. inversion H. repeat split. discriminate.
Qed.

(* the tables of exactly the batches whose selection holds the pair {a, b} (either orientation) *)
Definition contributing_sel (c : config) (header : list str) (ps : list (option (list str))) (sels : list (list Combos.pair))
           (a b : str) : list (list (list str)) :=
  map fst (filter (fun ts => Combos.umemb (a, b) (snd ts)) (combine (batch_tables c header ps) sels)).
Definition contributing (c : config) (header : list str) (ps : list (option (list str))) (a b : str) : list (list (list str)) :=
  contributing_sel c header ps (cap_sels c header ps) a b.

Lemma emit_table_sorted header D X :
  StronglySorted (fun r1 r2 : str * str * Q => Qle (snd r1) (snd r2)) (map (emit header D) (final_sort X)).
Proof.
  apply StronglySorted_map. eapply StronglySorted_weaken; [|apply final_sort_sorted].
  intros r1 r2 H. unfold emit. cbn [snd]. unfold Qle. cbn [Qnum Qden].
  apply Z.mul_le_mono_nonneg_r; [lia|exact H].
Qed.

Lemma in_emit_table header D rows a b q :
  In (a, b, q) (map (emit header D) (final_table rows)) <-> exists r, In r (aggregate rows) /\ emit header D r = (a, b, q).
Proof.
  unfold final_table. rewrite in_map_iff. split; intros [r [H1 H2]].
  - exists r. split; [|exact H1]. eapply Permutation_in; [apply final_sort_perm|exact H2].
  - exists r. split; [exact H2|]. eapply Permutation_in; [symmetry; apply final_sort_perm|exact H1].
Qed.

Lemma emit_table_nodup header D rows :
  (forall k, In k (map fst rows) -> exists xy, k = kx header xy /\ In (fst xy) header /\ In (snd xy) header) ->
  NoDup (map fst (map (emit header D) (final_table rows))).
Proof.
  intros HK0. unfold final_table. rewrite map_map. set (A := aggregate rows).
  assert (HK : forall r, In r (final_sort A) -> exists xy, fst r = kx header xy /\ In (fst xy) header /\ In (snd xy) header).
  { intros r Hr. assert (Hr' : In r A) by (eapply Permutation_in; [apply final_sort_perm|exact Hr]).
    apply aggregate_rows in Hr'. destruct Hr' as [Hk _]. apply HK0. exact Hk. }
  assert (HN : NoDup (map fst (final_sort A))).
  { eapply Permutation_NoDup; [apply Permutation_map; symmetry; apply final_sort_perm|apply aggregate_NoDup]. }
  assert (E : map (fun x => fst (emit header D x)) (final_sort A)
              = map (fun k : key => (nth (N.to_nat (fst k)) header [], nth (N.to_nat (snd k)) header [])) (map fst (final_sort A))).
  { rewrite map_map. reflexivity. }
  rewrite E. apply NoDup_map_on; [|exact HN].
  intros k1 k2 H1 H2 Ek. apply in_map_iff in H1, H2. destruct H1 as [r1 [<- H1]], H2 as [r2 [<- H2]].
  destruct (HK _ H1) as [xy1 [E1 [Ha1 Hb1]]], (HK _ H2) as [xy2 [E2 [Ha2 Hb2]]].
  rewrite E1, E2 in *. unfold kx in Ek. cbn [fst snd] in Ek. rewrite !nth_sidx in Ek by assumption.
  inversion Ek as [[Ea Eb]]. destruct xy1, xy2. cbn [fst snd] in *. subst. reflexivity.
Qed.

Lemma flat_map_ext_in' {A B} (f g : A -> list B) l : (forall x, In x l -> f x = g x) -> flat_map f l = flat_map g l.
Proof.
  induction l as [|x l IH]; intros H; [reflexivity|]. cbn [flat_map]. rewrite (H x (or_introl eq_refl)), IH; [reflexivity|].
  intros y Hy. apply H. right. exact Hy.
Qed.

Lemma combine_map_l {A B C} (f : A -> C) (l : list A) : forall l' : list B,
  combine (map f l) l' = map (fun p => (f (fst p), snd p)) (combine l l').
Proof. induction l as [|x l IH]; intros [|y l']; try reflexivity. cbn [map combine fst snd]. rewrite IH. reflexivity. Qed.

Lemma filter_map_comm {A B} (g : A -> B) (P : B -> bool) l : filter P (map g l) = map g (filter (fun x => P (g x)) l).
Proof. induction l as [|x l IH]; [reflexivity|]. cbn [map filter]. destruct (P (g x)); cbn [map]; rewrite IH; reflexivity. Qed.

Lemma filter_nonempty {A} (P : A -> bool) l : filter P l <> [] <-> exists x, In x l /\ P x = true.
Proof.
  split.
  - intros H. destruct (filter P l) as [|x r] eqn:E; [congruence|].
    assert (Hx : In x (filter P l)) by (rewrite E; now left). apply filter_In in Hx. exists x. exact Hx.
  - intros [x Hx] E. apply filter_In in Hx. rewrite E in Hx. destruct Hx.
Qed.

Lemma map_nonempty {A B} (f : A -> B) l : map f l <> [] <-> l <> [].
Proof. destruct l; cbn; split; congruence. Qed.

Lemma in_combine_snd {A B} (l : list A) : forall (l' : list B) y, length l' = length l -> In y l' -> exists x, In (x, y) (combine l l').
Proof.
  induction l as [|x l IH]; intros [|y' l'] y Hl Hy; try discriminate; [destruct Hy|].
  cbn [combine]. destruct Hy as [->|Hy]; [exists x; now left|].
  destruct (IH l' y) as [x' Hx']; [cbn in Hl; lia|exact Hy|]. exists x'. now right.
Qed.

(* the label is a column: (label, label) is a candidate, so the candidate list is not empty *)
Lemma cands_nonempty c header : supported_heur (g_heur c) = true -> In (g_label c) header -> cap_cands c header <> [].
Proof.
  intros Hs Hl E.
  assert (H : CombosProofs.uin (g_label c, g_label c) (cands_of c header)).
  { apply (requested_uin c header _ _ Hs). unfold requested. auto. }
  rewrite <- cap_cands_eq, E in H. destruct H as [[]|[]].
Qed.

Lemma e2ecap_core_pairs_some c header ps sels t : e2ecap_core_pairs c header ps sels = Some t ->
  cap_config_ok c header = true /\ crashes c ps = false /\ e2e_batches c header ps <> [] /\
  t = map (emit header (common_den (e2e_batches c header ps))) (final_table (cap_all_rows_sel c header ps sels)).
Proof.
  unfold e2ecap_core_pairs. destruct (cap_config_ok c header); [|discriminate]. cbn [negb].
  destruct (crashes c ps); [discriminate|]. destruct (e2e_batches c header ps) eqn:E; [discriminate|].
  intros H. inversion H. repeat split. discriminate.
Qed.

Lemma e2ecap_core_is_pairs c header ps : e2ecap_core c header ps = e2ecap_core_pairs c header ps (cap_sels c header ps).
Proof. reflexivity. Qed.

(* general form: any list of per-batch selections that are duplicate-free sub-lists of the candidates *)
Section CapMainG.
  Variables (c : config) (header : list str) (ps : list (option (list str))) (sels : list (list Combos.pair)) (t : table).
  Hypothesis Hrun : e2ecap_core_pairs c header ps sels = Some t.
  Hypothesis Hlen : length sels = length (e2e_batches c header ps).
  Hypothesis Hsel : forall sel, In sel sels ->
    incl sel (cap_cands c header) /\ closed header sel /\ NoDup sel /\ oriented sel.

  Let bs := e2e_batches c header ps.
  Let D := common_den bs.
  Let cands := cap_cands c header.
  Let bes := combine bs sels.

  Lemma g_cap_facts : (0 < g_B c)%N /\ supported_heur (g_heur c) = true /\ NoDup header /\ In (g_label c) header
    /\ closed header cands /\ CombosProofs.once cands /\ bs <> [] /\ D <> 0%N
    /\ (forall b, In b bs -> b <> [] /\ (N.of_nat (length b) | D)%N) /\ (1 <= g_cap c)%Z /\ crashes c ps = false.
  Proof.
    destruct (e2ecap_core_pairs_some _ _ _ _ _ Hrun) as (Hok & Hcr & Hne & _).
    destruct (cap_config_ok_spec _ _ Hok) as (HB & _ & Hs & Hnd & Hl & Hcap).
    pose proof (batches_nonempty c header ps HB) as Hbn. destruct (common_den_spec _ Hbn) as [HD Hdiv].
    assert (Hcl : closed header cands).
    { intros x y H. apply (CombosProofs.cands_closed header (g_heur c) (g_tro c) (g_label c) Hl x y H). }
    split; [exact HB|]. split; [exact Hs|]. split; [exact Hnd|]. split; [exact Hl|]. split; [exact Hcl|].
    split; [apply CombosProofs.cands_once; exact Hnd|].
    split; [exact Hne|]. split; [exact HD|]. split; [|split; assumption]. intros b0 Hb0. split.
    - rewrite Forall_forall in Hbn. apply Hbn. exact Hb0.
    - apply Hdiv. exact Hb0.
  Qed.

  Lemma g_cap_t_eq : t = map (emit header D) (final_table (cap_all_rows_sel c header ps sels)).
  Proof. destruct (e2ecap_core_pairs_some _ _ _ _ _ Hrun) as (_ & _ & _ & E). exact E. Qed.

  Lemma g_sel_facts sel : In sel sels -> incl sel cands /\ closed header sel /\ NoDup sel /\ oriented sel.
  Proof. apply Hsel. Qed.

  Lemma g_bes_facts be : In be bes -> incl (snd be) cands /\ closed header (snd be) /\ NoDup (snd be) /\ oriented (snd be).
  Proof. intros H. apply g_sel_facts. destruct be as [b sel]. apply in_combine_r in H. exact H. Qed.

  Theorem g_cap_sorted : StronglySorted (fun r1 r2 : str * str * Q => Qle (snd r1) (snd r2)) t.
  Proof. rewrite g_cap_t_eq. apply emit_table_sorted. Qed.

  (* ---- coverage ---- *)
  Section Cov.
    Hypothesis Hcov : Combos.is_const (g_heur c) = false.

    Let V (be : list Stream.line * list Combos.pair) (xy : str * str) : Z :=
      Z.of_N (pair_num header D (batch_rows ps (fst be)) (fst xy) (snd xy)).

    Lemma g_cap_rows_cov : cap_all_rows_sel c header ps sels = vrows header (fun be => mkeys (snd be)) V bes.
    Proof.
      destruct g_cap_facts as (_ & _ & _ & Hl & _).
      unfold cap_all_rows_sel, vrows. apply flat_map_ext_in'. intros be Hbe.
      destruct (g_bes_facts be Hbe) as (_ & Hcl & _). apply rows_cov_ev; assumption.
    Qed.

    Lemma g_contributing_bes a b :
      map (fun rows => Z.of_N (pair_num header D rows a b)) (contributing_sel c header ps sels a b)
      = map (fun be => V be (a, b)) (filter (fun be => Combos.umemb (a, b) (snd be)) bes).
    Proof.
      unfold contributing_sel, batch_tables. rewrite combine_map_l, filter_map_comm, !map_map. reflexivity.
    Qed.

    Lemma g_contributing_nonempty a b :
      contributing_sel c header ps sels a b <> [] <-> exists be, In be bes /\ Combos.umemb (a, b) (snd be) = true.
    Proof.
      unfold contributing_sel, batch_tables. rewrite map_nonempty, combine_map_l, filter_map_comm, map_nonempty, filter_nonempty.
      reflexivity.
    Qed.

    Lemma g_cov_scores a b : In a header -> In b header ->
      median2 (scores_of (kx header (a, b)) (cap_all_rows_sel c header ps sels))
      = median2 (map (fun rows => Z.of_N (pair_num header D rows a b)) (contributing_sel c header ps sels a b)).
    Proof.
      intros Ha Hb. rewrite g_cap_rows_cov, g_contributing_bes.
      rewrite (vrows_scores header (fun be => mkeys (snd be)) V bes (a, b) (fun be => Combos.umemb (a, b) (snd be)) (pmult a b)).
      - apply median2_replicate, pmult_pos.
      - exact Ha.
      - exact Hb.
      - intros be Hbe. destruct (g_bes_facts be Hbe) as (_ & Hcl & _). apply mkeys_closed. exact Hcl.
      - intros be Hbe. destruct (g_bes_facts be Hbe) as (_ & Hcl & Hnd & Hor). apply mult_mkeys_sel; assumption.
    Qed.

    Lemma g_cov_keys k : In k (map fst (cap_all_rows_sel c header ps sels)) <->
      exists a b, k = kx header (a, b) /\ In a header /\ In b header /\ contributing_sel c header ps sels a b <> [].
    Proof.
      rewrite g_cap_rows_cov, vrows_keys. split.
      - intros [be [[x y] [Hbe [Hxy ->]]]]. destruct (g_bes_facts be Hbe) as (_ & Hcl & _).
        destruct (mkeys_closed header _ Hcl _ _ Hxy) as [Hx Hy]. exists x, y. split; [reflexivity|]. split; [exact Hx|].
        split; [exact Hy|]. apply g_contributing_nonempty. exists be. split; [exact Hbe|].
        apply CombosProofs.umemb_uin. apply in_mkeys. exact Hxy.
      - intros [a [b [-> [Ha [Hb Hne]]]]]. apply g_contributing_nonempty in Hne. destruct Hne as [be [Hbe Hu]].
        exists be, (a, b). split; [exact Hbe|]. split; [|reflexivity]. apply in_mkeys. apply CombosProofs.umemb_uin. exact Hu.
    Qed.

    Lemma g_contributing_requested a b : contributing_sel c header ps sels a b <> [] -> requested c header a b.
    Proof.
      intros H. apply g_contributing_nonempty in H. destruct H as [be [Hbe Hu]].
      destruct g_cap_facts as (_ & Hs & _). destruct (g_bes_facts be Hbe) as (Hi & _).
      apply (requested_uin c header a b Hs). apply CombosProofs.umemb_uin in Hu. rewrite <- cap_cands_eq. fold cands.
      destruct Hu as [Hu|Hu]; [left|right]; apply Hi; exact Hu.
    Qed.

    Theorem g_cap_cov_rows a b q :
      In (a, b, q) t <->
      requested c header a b /\ contributing_sel c header ps sels a b <> [] /\
      q = Qmake (median2 (map (fun rows => Z.of_N (pair_num header D rows a b)) (contributing_sel c header ps sels a b))) (den_pos D).
    Proof.
      rewrite g_cap_t_eq, in_emit_table. split.
      - intros [r [Hr He]]. apply aggregate_rows in Hr. destruct Hr as [Hk Hm].
        apply g_cov_keys in Hk. destruct Hk as [x [y [Ek [Hx [Hy Hne]]]]].
        destruct r as [k z]. cbn [fst snd] in *. subst k.
        rewrite (emit_kx header D (x, y) z Hx Hy) in He. cbn [fst snd] in He. inversion He; subst x y q.
        split; [apply g_contributing_requested; exact Hne|]. split; [exact Hne|].
        rewrite Hm, g_cov_scores by assumption. reflexivity.
      - intros [Hreq [Hne ->]]. destruct Hreq as [Ha [Hb _]].
        exists (kx header (a, b), median2 (scores_of (kx header (a, b)) (cap_all_rows_sel c header ps sels))). split.
        + apply aggregate_rows. cbn [fst snd]. split; [|reflexivity]. apply g_cov_keys. exists a, b. auto.
        + rewrite (emit_kx header D (a, b) _ Ha Hb). cbn [fst snd]. rewrite g_cov_scores by assumption. reflexivity.
    Qed.

    Lemma g_cov_keys_closed k : In k (map fst (cap_all_rows_sel c header ps sels)) ->
      exists xy, k = kx header xy /\ In (fst xy) header /\ In (snd xy) header.
    Proof. intros H. apply g_cov_keys in H. destruct H as [a [b [-> [Ha [Hb _]]]]]. exists (a, b). auto. Qed.
  End Cov.

  (* ---- Constant ---- *)
  Section Const.
    Hypothesis Hconst : Combos.is_const (g_heur c) = true.

    Lemma g_cap_rows_const : cap_all_rows_sel c header ps sels = vrows header (fun be => snd be) (fun _ _ => 0%Z) bes.
    Proof. unfold cap_all_rows_sel, vrows. apply flat_map_ext. intros be. apply rows_const_ev. exact Hconst. Qed.

    Lemma g_const_scores k : median2 (scores_of k (cap_all_rows_sel c header ps sels)) = 0%Z.
    Proof.
      apply median2_zeros. apply Forall_forall. intros z Hz. apply scores_of_In in Hz.
      rewrite g_cap_rows_const in Hz. unfold vrows in Hz. apply in_flat_map in Hz. destruct Hz as [be [_ Hz]].
      apply in_map_iff in Hz. destruct Hz as [xy [E _]]. inversion E. reflexivity.
    Qed.

    Theorem g_cap_const_rows a b q :
      In (a, b, q) t <->
      In (a, b) cands /\ (exists sel, In sel sels /\ In (a, b) sel) /\ q = Qmake 0 (den_pos D).
    Proof.
      rewrite g_cap_t_eq, in_emit_table. split.
      - intros [r [Hr He]]. apply aggregate_rows in Hr. destruct Hr as [Hk Hm]. rewrite g_const_scores in Hm.
        rewrite g_cap_rows_const in Hk. apply vrows_keys in Hk. destruct Hk as [be [[x y] [Hbe [Hxy Ek]]]].
        destruct (g_bes_facts be Hbe) as (Hi & Hcl & _). destruct (Hcl _ _ Hxy) as [Hx Hy].
        destruct r as [k z]. cbn [fst snd] in *. subst k z.
        rewrite (emit_kx header D (x, y) 0%Z Hx Hy) in He. cbn [fst snd] in He. inversion He; subst x y q.
        split; [apply Hi; exact Hxy|]. split; [|reflexivity]. exists (snd be). split; [|exact Hxy].
        destruct be as [b0 sel]. apply in_combine_r in Hbe. exact Hbe.
      - intros [Hc [[sel [Hinsel Hin]] ->]]. destruct g_cap_facts as (_ & _ & _ & _ & Hcl & _). destruct (Hcl _ _ Hc) as [Ha Hb].
        destruct (in_combine_snd bs sels sel Hlen Hinsel) as [b0 Hbe].
        exists (kx header (a, b), 0%Z). split.
        + apply aggregate_rows. cbn [fst snd]. split; [|symmetry; apply g_const_scores].
          rewrite g_cap_rows_const. apply vrows_keys. exists (b0, sel), (a, b). auto.
        + rewrite (emit_kx header D (a, b) _ Ha Hb). reflexivity.
    Qed.

    Lemma g_const_keys_closed k : In k (map fst (cap_all_rows_sel c header ps sels)) ->
      exists xy, k = kx header xy /\ In (fst xy) header /\ In (snd xy) header.
    Proof.
      rewrite g_cap_rows_const. intros H. apply vrows_keys in H. destruct H as [be [[x y] [Hbe [Hxy ->]]]].
      destruct (g_bes_facts be Hbe) as (_ & Hcl & _). exists (x, y). split; [reflexivity|]. apply (Hcl _ _ Hxy).
    Qed.
  End Const.

  (* one row per ordered pair *)
  Theorem g_cap_nodup : NoDup (map fst t).
  Proof.
    rewrite g_cap_t_eq. apply emit_table_nodup. intros k Hk.
    destruct (Combos.is_const (g_heur c)) eqn:E; [apply (g_const_keys_closed E)|apply (g_cov_keys_closed E)]; exact Hk.
  Qed.
End CapMainG.
(* ---- the deterministic model (selections computed by Sampler.step) is the instance sels := cap_sels ---- *)
Lemma cap_config_facts c header : cap_config_ok c header = true ->
  closed header (cap_cands c header) /\ CombosProofs.once (cap_cands c header).
Proof.
  intros Hok. destruct (cap_config_ok_spec _ _ Hok) as (_ & _ & _ & Hnd & Hl & _). split.
  - intros x y H. apply (CombosProofs.cands_closed header (g_heur c) (g_tro c) (g_label c) Hl x y H).
  - apply CombosProofs.cands_once. exact Hnd.
Qed.

Lemma cap_sels_facts c header ps : cap_config_ok c header = true -> forall sel, In sel (cap_sels c header ps) ->
  incl sel (cap_cands c header) /\ closed header sel /\ NoDup sel /\ oriented sel.
Proof.
  intros Hok sel H. destruct (cap_config_facts c header Hok) as [Hcl Honce].
  pose proof (cap_sels_ok c header ps) as F. rewrite Forall_forall in F.
  apply (selected_facts header _ (g_cap c) sel Hcl Honce). apply F. exact H.
Qed.

Section CapMain.
  Variables (c : config) (header : list str) (ps : list (option (list str))) (t : table).
  Hypothesis Hrun : e2ecap_core c header ps = Some t.

  Let Hrun' : e2ecap_core_pairs c header ps (cap_sels c header ps) = Some t := Hrun.
  Let Hlen := cap_sels_length c header ps.
  Lemma Hsel' : forall sel, In sel (cap_sels c header ps) ->
    incl sel (cap_cands c header) /\ closed header sel /\ NoDup sel /\ oriented sel.
  Proof. apply cap_sels_facts. destruct (e2ecap_core_some _ _ _ _ Hrun) as (Hok & _). exact Hok. Qed.

  Definition cap_facts := g_cap_facts c header ps (cap_sels c header ps) t Hrun'.
  Definition cap_sorted := g_cap_sorted c header ps (cap_sels c header ps) t Hrun'.
  Definition cap_nodup := g_cap_nodup c header ps (cap_sels c header ps) t Hrun' Hsel'.
  Definition cap_cov_rows := g_cap_cov_rows c header ps (cap_sels c header ps) t Hrun' Hsel'.
  Definition cap_const_rows := g_cap_const_rows c header ps (cap_sels c header ps) t Hrun' Hlen Hsel'.
End CapMain.


(* ========================================================================================================== *)
(* E. fairness, the reported counts, the selections *)

Lemma bool_eq_iff (x y : bool) : (x = true <-> y = true) -> x = y.
Proof. destruct x, y; intros [H1 H2]; try reflexivity; [symmetry; apply H1|apply H2]; reflexivity. Qed.

Lemma umemb_sym a b l : Combos.umemb (a, b) l = Combos.umemb (b, a) l.
Proof.
  apply bool_eq_iff. rewrite !CombosProofs.umemb_uin. symmetry. apply (CombosProofs.uin_swapp (a, b) l).
Qed.

Lemma contributing_sym c header ps a b : contributing c header ps a b = contributing c header ps b a.
Proof. unfold contributing, contributing_sel. f_equal. apply filter_ext. intros ts. apply umemb_sym. Qed.

Lemma contributing_incl c header ps a b : incl (contributing c header ps a b) (batch_tables c header ps).
Proof.
  unfold contributing, contributing_sel. intros rows H. apply in_map_iff in H. destruct H as [[r sel] [<- H]].
  apply filter_In in H. destruct H as [H _]. apply in_combine_l in H. exact H.
Qed.

Lemma umemb_cand cands sel a b : CombosProofs.once cands -> incl sel cands -> In (a, b) cands ->
  Combos.umemb (a, b) sel = Combos.listedb (a, b) sel.
Proof.
  intros [_ Hor] Hi Hc. rewrite umemb_listed. destruct (Combos.listedb (b, a) sel) eqn:E; [|apply orb_false_r].
  apply CombosProofs.listedb_In in E. pose proof (Hor a b Hc (Hi _ E)) as Eab. subst b.
  apply CombosProofs.listedb_In in E. unfold Combos.pair, Combos.str in *. rewrite E. reflexivity.
Qed.

Lemma filter_combine_snd_length {A B} (P : B -> bool) (l : list A) : forall l' : list B, length l' = length l ->
  length (filter (fun p => P (snd p)) (combine l l')) = length (filter P l').
Proof.
  induction l as [|x l IH]; intros [|y l'] H; try discriminate; [reflexivity|].
  cbn [combine filter snd]. destruct (P y); cbn [length]; rewrite IH by (cbn in H; lia); reflexivity.
Qed.

Section Fair.
  Variables (c : config) (header : list str) (ps : list (option (list str))).
  Hypothesis Hnd : NoDup header.

  Let cands := cap_cands c header.
  Let sels := cap_sels c header ps.
  Let ids := cap_ids cands.
  Let nb := nbatches c header ps.
  Let isels := fst (cap_sampler c header nb).

  Lemma cands_once' : CombosProofs.once cands.
  Proof. apply CombosProofs.cands_once. exact Hnd. Qed.

  Lemma isels_facts : Forall (fun isel => incl isel ids /\ NoDup isel) isels.
  Proof.
    pose proof (cap_steps_sel_facts ids (g_cap c) nb []) as F. eapply Forall_impl; [|exact F].
    intros isel (H1 & _ & H3). split; [exact H1|]. apply H3. apply cap_ids_nodup. apply cands_once'.
  Qed.

  Lemma sels_incl sel : In sel sels -> incl sel cands.
  Proof.
    intros H. pose proof (cap_sels_ok c header ps) as F. rewrite Forall_forall in F.
    apply (CombosProofs.selected_ok_incl cands (g_cap c)). apply F. exact H.
  Qed.

  (* the counter of a candidate = the number of batches that selected it (C07_counts_are_selections) *)
  Theorem counter_nsel p : In p cands ->
    Sampler.get (cap_counter c header ps) (Combos.pidx cands p) = nsel sels p.
  Proof.
    intros Hp. unfold cap_counter, cap_sampler. rewrite cap_steps_get. cbn [Sampler.get plus].
    apply (sel_count_nsel cands p (proj1 cands_once') Hp isels isels_facts).
  Qed.

  (* ... = the number of batches contributing to the pair's median *)
  Theorem contributing_nsel a b : In (a, b) cands -> length (contributing c header ps a b) = nsel sels (a, b).
  Proof.
    intros Hc. unfold contributing, contributing_sel. rewrite map_length.
    rewrite (filter_combine_snd_length (Combos.umemb (a, b))) by (unfold batch_tables; rewrite map_length; apply cap_sels_length).
    unfold nsel. f_equal. apply filter_ext_in. intros sel Hsel.
    apply (umemb_cand cands sel a b cands_once' (sels_incl sel Hsel) Hc).
  Qed.

  (* C07_model_fair instantiated: the candidate list is the same duplicate-free list in every batch *)
  Theorem nsel_fair p q : In p cands -> In q cands -> nsel sels p <= S (nsel sels q).
  Proof.
    intros Hp Hq. rewrite <- !counter_nsel by assumption. unfold cap_counter, cap_sampler.
    rewrite cap_steps_run_state. apply SamplerProofs.model_fair.
    - apply cap_ids_nodup. apply cands_once'.
    - apply pidx_in_ids. exact Hp.
    - apply pidx_in_ids. exact Hq.
  Qed.

  Theorem contributing_fair a b a' b' : supported_heur (g_heur c) = true ->
    requested c header a b -> requested c header a' b' ->
    length (contributing c header ps a b) <= S (length (contributing c header ps a' b')).
  Proof.
    intros Hs H1 H2. apply (requested_uin c header _ _ Hs) in H1, H2. rewrite <- cap_cands_eq in H1, H2. fold cands in H1, H2.
    assert (G : forall x y x' y', In (x, y) cands -> In (x', y') cands ->
                length (contributing c header ps x y) <= S (length (contributing c header ps x' y'))).
    { intros x y x' y' Hx Hy. rewrite !contributing_nsel by assumption. apply nsel_fair; assumption. }
    destruct H1 as [H1|H1], H2 as [H2|H2]; cbn [CombosProofs.swapp fst snd] in *.
    - apply G; assumption.
    - rewrite (contributing_sym c header ps a' b'). apply G; assumption.
    - rewrite (contributing_sym c header ps a b). apply G; assumption.
    - rewrite (contributing_sym c header ps a b), (contributing_sym c header ps a' b'). apply G; assumption.
  Qed.

  (* ---- the reported table of counts ---- *)
  Theorem counts_spec : 0 < nb ->
    (forall p n, In (p, n) (cap_counts c header ps) <-> In p cands /\ n = nsel sels p) /\
    NoDup (map fst (cap_counts c header ps)).
  Proof.
    intros Hnb. unfold cap_counts. fold cands. set (cnt := cap_counter c header ps).
    destruct (cap_steps_keys ids (g_cap c) nb [] Hnb) as [K1 K2].
    assert (K1' : forall k, In k (map fst cnt) <-> In k ids).
    { intros k. unfold cnt, cap_counter, cap_sampler. fold cands ids nb. rewrite K1. cbn. tauto. }
    assert (K2' : NoDup (map fst cnt)) by (apply K2; constructor).
    split.
    - intros p n. rewrite in_map_iff. split.
      + intros [[k n'] [E Hin]]. cbn [fst snd] in E. inversion E; subst p n'. clear E.
        assert (Hk : In k ids) by (apply K1'; apply in_map_iff; exists (k, n); auto).
        destruct (in_cap_ids cands k Hk) as [p' [Hp' [Ek Eo]]]. rewrite Eo. split; [exact Hp'|].
        rewrite <- (get_in_nodup cnt k n K2' Hin), Ek. apply counter_nsel. exact Hp'.
      + intros [Hp ->]. exists (Combos.pidx cands p, Sampler.get cnt (Combos.pidx cands p)). cbn [fst snd]. split.
        * unfold of_id. rewrite CombosProofs.nth_pidx by exact Hp. rewrite counter_nsel by exact Hp. reflexivity.
        * apply in_keys_get. apply K1'. apply pidx_in_ids. exact Hp.
    - rewrite map_map. cbn [fst].
      replace (map (fun x : Sampler.key * nat => of_id cands (fst x)) cnt) with (map (of_id cands) (map fst cnt)) by (rewrite map_map; reflexivity).
      apply NoDup_map_on; [|exact K2']. intros k1 k2 H1 H2 E. apply K1' in H1, H2.
      destruct (in_cap_ids cands k1 H1) as [p1 [_ [E1 O1]]], (in_cap_ids cands k2 H2) as [p2 [_ [E2 O2]]].
      rewrite O1, O2 in E. subst p2. congruence.
  Qed.

  (* ---- the selections, batch by batch ---- *)
  Lemma sels_isels : sels = map (map (of_id cands)) isels.
  Proof. reflexivity. Qed.

  Theorem sels_least_first i p q : i < nb ->
    In p (nth i sels []) -> In q cands -> ~ In q (nth i sels []) ->
    nsel (firstn i sels) p <= nsel (firstn i sels) q.
  Proof.
    intros Hi Hp Hq Hnq.
    assert (Hn : nth i sels [] = map (of_id cands) (nth i isels [])).
    { rewrite sels_isels. change (@nil Combos.pair) with (map (of_id cands) []). apply map_nth. }
    assert (Hlen : length isels = nb) by apply cap_steps_length.
    assert (Hin : In (nth i isels []) isels) by (apply nth_In; lia).
    pose proof isels_facts as F. rewrite Forall_forall in F. destruct (F _ Hin) as [Hsub _].
    assert (Hpc : In p cands).
    { apply (sels_incl (nth i sels [])); [apply nth_In; unfold sels; rewrite cap_sels_length; exact Hi|exact Hp]. }
    rewrite Hn in Hp, Hnq.
    apply (in_sel_pairs cands _ p Hsub Hpc) in Hp.
    assert (Hnq' : ~ In (Combos.pidx cands q) (nth i isels [])).
    { intros H. apply Hnq. apply (in_sel_pairs cands _ q Hsub Hq). exact H. }
    pose proof (cap_steps_least ids (g_cap c) (cap_ids_nodup cands (proj1 cands_once')) nb [] i _ _ Hi Hp (pidx_in_ids cands q Hq) Hnq') as L.
    cbn [Sampler.get plus] in L. fold isels in L.
    assert (Ff : Forall (fun isel => incl isel ids /\ NoDup isel) (firstn i isels)).
    { apply Forall_forall. intros x Hx. apply F. rewrite <- (firstn_skipn i isels). apply in_or_app. left. exact Hx. }
    rewrite !(sel_count_nsel cands _ (proj1 cands_once')) in L by assumption.
    rewrite sels_isels, firstn_map. exact L.
  Qed.
End Fair.

(* ========================================================================================================== *)
(* F. special case, shuffle, text layer, assembled statements *)

(* cap >= #candidates: the extension IS the non-binding composition *)
Theorem cap_nonbinding_eq c header ps :
  (Z.of_nat (length (cap_cands c header)) <= g_cap c)%Z -> e2ecap_core c header ps = e2e_core c header ps.
Proof.
  intros Hcap. unfold e2ecap_core, e2e_core.
  assert (Ecfg : cap_config_ok c header = config_ok c header).
  { unfold cap_config_ok, config_ok.
    destruct ((0 <? g_B c)%N && (0 <? g_s c)%N && supported_heur (g_heur c) && Combos.nodup_strb header && Combos.memb (g_label c) header) eqn:E;
      [|reflexivity]. cbn [andb].
    rewrite !andb_true_iff in E. destruct E as [[[[_ _] Hs] _] Hl]. apply CombosProofs.memb_In in Hl.
    pose proof (cands_nonempty c header Hs Hl) as Hne.
    assert (0 < length (cap_cands c header)) by (destruct (cap_cands c header); [congruence|cbn; lia]).
    fold (cap_cands c header).
    replace (1 <=? g_cap c)%Z with true by (symmetry; apply Z.leb_le; lia).
    symmetry. apply Z.leb_le. exact Hcap. }
  rewrite Ecfg. destruct (config_ok c header); [|reflexivity]. cbn [negb].
  destruct (crashes c ps); [reflexivity|]. destruct (e2e_batches c header ps) eqn:Eb; [reflexivity|]. rewrite <- Eb.
  f_equal. f_equal. rewrite cap_all_rows_ev. apply shuffle_independent; [apply cap_sels_length|].
  pose proof (cap_sels_ok c header ps) as F. eapply Forall_impl; [|exact F].
  intros sel Hsel. rewrite <- cap_cands_eq. apply (cap_nonbinding_sel _ (g_cap c)); assumption.
Qed.

(* random.shuffle after the sampler: any per-batch reordering of the selected lists gives the same table *)
Lemma flat_map_combine_perm2 {A C} (F : A * list Combos.pair -> list C) :
  (forall a l l', Permutation l l' -> Permutation (F (a, l)) (F (a, l'))) ->
  forall (la : list A) lb lb', Forall2 (@Permutation _) lb lb' ->
  Permutation (flat_map F (combine la lb)) (flat_map F (combine la lb')).
Proof.
  intros H. induction la as [|a la IH]; intros lb lb' HF; [constructor|].
  destruct HF as [|l l' lb lb' Hp HF]; [constructor|]. cbn [combine flat_map].
  apply Permutation_app; [apply H; exact Hp|apply IH; exact HF].
Qed.

Theorem cap_shuffle_independent c header ps (evl : list (list Combos.pair)) :
  Forall2 (@Permutation _) evl (cap_sels c header ps) ->
  final_table (all_rows_ev c header ps evl) = final_table (cap_all_rows c header ps).
Proof.
  intros HF. apply final_table_perm. rewrite cap_all_rows_ev. unfold all_rows_ev.
  apply (flat_map_combine_perm2 (fun be => map (to_agg header)
           (batch_triplets_ev c header (common_den (e2e_batches c header ps)) (batch_rows ps (fst be)) (snd be)))); [|exact HF].
  intros a l l' Hp. cbn [fst snd]. apply Permutation_map. apply batch_triplets_ev_perm. exact Hp.
Qed.

(* the text layer: exactly Compose's *)
Theorem cap_text_run c text :
  e2ecap_run c text = e2ecap_core c (Accept.csv_raw_header text) (map Csv.parse (tl (phys_lines text))).
Proof. reflexivity. Qed.

Theorem cap_wellformed_run c (names : list (list N)) (rows : list (list (list N))) :
  names <> [] -> Forall (none (fun ch => (ch =? COMMA)%N || is_nl ch)) names -> edge_clean (join_with [COMMA] names) ->
  Forall (fun r => r <> [] /\ Forall (none is_nl) r) rows -> Forall (Forall CsvProofs.flen_ok) rows ->
  e2ecap_run c (render_file names rows) = e2ecap_core c names (map Some rows).
Proof.
  intros H1 H2 H3 H4 H5. unfold e2ecap_run. destruct (wellformed_file names rows H1 H2 H3 H4 H5) as [E1 E2].
  rewrite E1, E2. reflexivity.
Qed.

Lemma cap_tables_facts c header ps t : e2ecap_core c header ps = Some t ->
  let D := common_den (e2e_batches c header ps) in
  batch_tables c header ps <> [] /\ D <> 0%N /\
  Forall (fun rows => rows <> [] /\ (N.of_nat (length rows) | D)%N) (batch_tables c header ps) /\
  length (cap_sels c header ps) = length (batch_tables c header ps).
Proof.
  intros Hrun D. destruct (cap_facts c header ps t Hrun) as (_ & _ & _ & _ & _ & _ & Hne & HD & Hb & _).
  split; [|split; [exact HD|split]].
  - unfold batch_tables. intros E. apply map_eq_nil in E. contradiction.
  - unfold batch_tables. apply Forall_map. apply Forall_forall. intros b Hin. destruct (Hb b Hin) as [H1 H2].
    unfold batch_rows. rewrite map_length. split; [|exact H2]. intros E. apply map_eq_nil in E. contradiction.
  - unfold batch_tables. rewrite map_length. apply cap_sels_length.
Qed.

(* THE statement for max-value-coverage with a (possibly binding) cap *)
Theorem e2ecap_spec c header ps t :
  e2ecap_core c header ps = Some t -> Combos.is_const (g_heur c) = false ->
  let tables := batch_tables c header ps in
  let D := common_den (e2e_batches c header ps) in
  tables <> [] /\ D <> 0%N /\ Forall (fun rows => rows <> [] /\ (N.of_nat (length rows) | D)%N) tables /\
  length (cap_sels c header ps) = length tables /\
  StronglySorted (fun r1 r2 : str * str * Q => Qle (snd r1) (snd r2)) t /\
  NoDup (map fst t) /\
  (forall a b q, In (a, b, q) t <->
     requested c header a b /\ contributing c header ps a b <> [] /\
     q = Qmake (median2 (map (fun rows => Z.of_N (pair_num header D rows a b)) (contributing c header ps a b))) (den_pos D)) /\
  (forall a b, requested c header a b -> requested c header b a) /\
  (forall a b, contributing c header ps a b = contributing c header ps b a /\ incl (contributing c header ps a b) tables) /\
  (forall rows a b, In rows tables ->
     Qeq (Z.of_N (pair_num header D rows a b) # npos D) (cells_cov (column header rows a) (column header rows b)) /\
     is_max_cov (column header rows a) (column header rows b) (cells_cov (column header rows a) (column header rows b))).
Proof.
  intros Hrun Hcov tables D. destruct (cap_tables_facts c header ps t Hrun) as (H1 & H2 & H3 & H4).
  split; [exact H1|]. split; [exact H2|]. split; [exact H3|]. split; [exact H4|].
  split; [apply (cap_sorted c header ps t Hrun)|]. split; [apply (cap_nodup c header ps t Hrun)|].
  split; [intros a b q; apply (cap_cov_rows c header ps t Hrun Hcov)|].
  split; [intros a b; apply requested_sym|].
  split; [intros a b; split; [apply contributing_sym|apply contributing_incl]|].
  intros rows a b Hin. fold tables in H3. rewrite Forall_forall in H3. destruct (H3 rows Hin) as [Hr Hd].
  apply batch_score_exact; assumption.
Qed.

(* ... and for Constant *)
Theorem e2ecap_spec_constant c header ps t :
  e2ecap_core c header ps = Some t -> Combos.is_const (g_heur c) = true ->
  batch_tables c header ps <> [] /\
  NoDup (map fst t) /\
  (forall a b q, In (a, b, q) t <->
     In (a, b) (cap_cands c header) /\ (exists sel, In sel (cap_sels c header ps) /\ In (a, b) sel) /\
     q = Qmake 0 (den_pos (common_den (e2e_batches c header ps)))) /\
  (forall a b, CombosProofs.uin (a, b) (cap_cands c header) <-> requested c header a b).
Proof.
  intros Hrun Hc. destruct (cap_tables_facts c header ps t Hrun) as (H1 & _).
  destruct (cap_facts c header ps t Hrun) as (_ & Hs & _).
  split; [exact H1|]. split; [apply (cap_nodup c header ps t Hrun)|].
  split; [intros a b q; apply (cap_const_rows c header ps t Hrun Hc)|].
  intros a b. rewrite cap_cands_eq. apply requested_uin. exact Hs.
Qed.

(* fairness of the contributions *)
Theorem e2ecap_fair c header ps t : e2ecap_core c header ps = Some t ->
  (forall a b a' b', requested c header a b -> requested c header a' b' ->
     length (contributing c header ps a b) <= S (length (contributing c header ps a' b'))) /\
  (forall p q, In p (cap_cands c header) -> In q (cap_cands c header) ->
     nsel (cap_sels c header ps) p <= S (nsel (cap_sels c header ps) q)).
Proof.
  intros Hrun. destruct (cap_facts c header ps t Hrun) as (_ & Hs & Hnd & _). split.
  - intros a b a' b'. apply contributing_fair; assumption.
  - intros p q. apply nsel_fair. exact Hnd.
Qed.

(* the reported counts *)
Theorem e2ecap_counts c header ps t : e2ecap_core c header ps = Some t ->
  (forall p n, In (p, n) (cap_counts c header ps) <->
     In p (cap_cands c header) /\ n = nsel (cap_sels c header ps) p) /\
  NoDup (map fst (cap_counts c header ps)) /\
  (forall p, In p (cap_cands c header) ->
     Sampler.get (cap_counter c header ps) (Combos.pidx (cap_cands c header) p) = nsel (cap_sels c header ps) p /\
     nsel (cap_sels c header ps) p = length (contributing c header ps (fst p) (snd p))) /\
  SamplerProofs.hist (fst (cap_sampler c header (nbatches c header ps))) (Sampler.get (cap_counter c header ps)).
Proof.
  intros Hrun. destruct (cap_facts c header ps t Hrun) as (_ & _ & Hnd & _ & _ & _ & Hne & _).
  assert (Hnb : 0 < nbatches c header ps).
  { unfold nbatches. destruct (e2e_batches c header ps); [congruence|cbn; lia]. }
  destruct (counts_spec c header ps Hnd Hnb) as [C1 C2].
  split; [exact C1|]. split; [exact C2|]. split.
  - intros [a b] Hp. split; [apply counter_nsel; assumption|]. symmetry. apply contributing_nsel; assumption.
  - unfold cap_counter, cap_sampler. apply (cap_steps_hist _ _ _ [] []). constructor.
Qed.

(* the selections batch by batch: C06's select_run = C07's step threaded; sizes; least-evaluated first *)
Theorem e2ecap_selections c header ps : NoDup header ->
  let cands := cap_cands c header in let sels := cap_sels c header ps in
  sels = Combos.select_run [] cands (g_cap c) (nbatches c header ps) /\
  length sels = nbatches c header ps /\
  Forall (fun sel => CombosProofs.selected_ok cands (g_cap c) sel /\ incl sel cands /\ NoDup sel /\
                     ((0 <= g_cap c)%Z -> length sel = Nat.min (length cands) (Z.to_nat (g_cap c)))) sels /\
  SamplerProofs.reach (cap_ids cands) (Sampler.get (cap_counter c header ps)) /\
  (forall i p q, i < nbatches c header ps -> In p (nth i sels []) -> In q cands -> ~ In q (nth i sels []) ->
     nsel (firstn i sels) p <= nsel (firstn i sels) q).
Proof.
  intros Hnd cands sels. split; [apply cap_sels_select_run|]. split; [apply cap_sels_length|]. split.
  - pose proof (cap_sels_ok c header ps) as F. eapply Forall_impl; [|exact F]. intros sel Hs.
    split; [exact Hs|]. split; [apply (CombosProofs.selected_ok_incl _ _ _ Hs)|]. split.
    + destruct Hs as [_ [rest HP]]. pose proof (proj1 (CombosProofs.cands_once header (g_heur c) (g_tro c) (g_label c) Hnd)) as Hc.
      apply Permutation_sym in HP. apply (Permutation_NoDup HP) in Hc. eapply NoDup_app_l. exact Hc.
    + intros H0. apply CombosProofs.selected_ok_nonneg; assumption.
  - split.
    + unfold cap_counter, cap_sampler. apply cap_steps_reach. replace (Sampler.get []) with (fun _ : Sampler.key => 0) by reflexivity. constructor.
    + intros i p q. apply sels_least_first. exact Hnd.
Qed.

(* ========================================================================================================== *)
(* G. the RELATIONAL model: the selections are an input judged by C07's checker (ties are free) *)

Lemma valid_step_ext st1 st2 st1' st2' L cap sel :
  (forall k, st1 k = st2 k) -> (forall k, st1' k = st2' k) ->
  Sampler.valid_step st1 L cap sel st1' -> Sampler.valid_step st2 L cap sel st2'.
Proof.
  intros E E' [H1 H2 H3 H4]. constructor; [exact H1|exact H2| |].
  - intros a b Ha Hb. rewrite <- !E. apply H3; assumption.
  - intros k. rewrite <- E, <- E'. apply H4.
Qed.

(* C07's checker is also complete for the relation *)
Lemma valid_stepb_complete s L cap sel s' :
  Sampler.valid_step (Sampler.get s) L cap sel (Sampler.get s') -> Sampler.valid_stepb s L cap sel s' = true.
Proof.
  intros [H1 H2 H3 H4]. unfold Sampler.valid_stepb, Sampler.cnt. rewrite !andb_true_iff. repeat split.
  - apply forallb_forall. intros k _. apply Nat.leb_le. apply H1.
  - apply Nat.eqb_eq. exact H2.
  - apply forallb_forall. intros a Ha. apply forallb_forall. intros b _.
    destruct (Nat.ltb (cocc sel b) (cocc L b)) eqn:E; cbn [negb orb]; [|reflexivity].
    apply Nat.leb_le. apply H3; [exact Ha|]. apply Nat.ltb_lt. exact E.
  - apply forallb_forall. intros k _. apply Nat.eqb_eq. apply H4.
Qed.

(* the transcription's own history is accepted, also against the counts derived from the selections alone *)
Lemma derived_valid_runb L cap : forall nb s d, (forall k, Sampler.get d k = Sampler.get s k) ->
  Sampler.valid_runb d (map (fun cp : Z => (L, cp)) (repeat cap nb)) (Sampler.derived_obs d (fst (cap_steps s L cap nb))) = true.
Proof.
  induction nb as [|nb IH]; intros s d E; [reflexivity|].
  cbn [cap_steps fst repeat map Sampler.derived_obs Sampler.valid_runb].
  pose proof (SamplerProofs.step_valid s L cap) as V.
  assert (E' : forall k, Sampler.get (fold_left Sampler.incr (fst (Sampler.step s L cap)) d) k = Sampler.get (snd (Sampler.step s L cap)) k).
  { intros k. rewrite SamplerProofs.get_fold_incr, E. symmetry. apply (Sampler.vs_state _ _ _ _ _ V). }
  apply andb_true_iff. split.
  - apply valid_stepb_complete. eapply valid_step_ext; [| |exact V]; intros k; symmetry; [apply E|apply E'].
  - apply IH. exact E'.
Qed.

(* what an accepted history of selections satisfies *)
Lemma valid_runb_derived_facts L : forall isels caps s,
  Sampler.valid_runb s (map (fun cp : Z => (L, cp)) caps) (Sampler.derived_obs s isels) = true ->
  length isels = length caps /\ Forall (fun isel => incl isel L /\ (NoDup L -> NoDup isel)) isels.
Proof.
  induction isels as [|isel r IH]; intros caps s H.
  - destruct caps; [split; [reflexivity|constructor]|discriminate].
  - destruct caps as [|cp caps]; [discriminate|]. cbn [map Sampler.derived_obs Sampler.valid_runb] in H.
    apply andb_true_iff in H. destruct H as [H1 H2]. apply SamplerProofs.valid_stepb_sound in H1.
    destruct (IH _ _ H2) as [I1 I2]. split; [cbn [length]; rewrite I1; reflexivity|]. constructor; [|exact I2].
    split; [eapply SamplerProofs.vs_incl; exact H1|]. intros Hnd. eapply SamplerProofs.vs_nodup; eassumption.
Qed.

Lemma cap_ops_eq c header nb :
  cap_ops c header nb = map (fun cp : Z => (cap_ids (cap_cands c header), cp)) (repeat (g_cap c) nb).
Proof. reflexivity. Qed.

Lemma sels_ok_spec c header ps isels : sels_ok c header ps isels = true ->
  length isels = nbatches c header ps /\
  Sampler.valid_runb [] (cap_ops c header (nbatches c header ps)) (Sampler.derived_obs [] isels) = true.
Proof. unfold sels_ok. rewrite andb_true_iff, Nat.eqb_eq. tauto. Qed.

Lemma sels_ok_facts c header ps isels : NoDup header -> sels_ok c header ps isels = true ->
  length isels = nbatches c header ps /\
  Forall (fun isel => incl isel (cap_ids (cap_cands c header)) /\ NoDup isel) isels.
Proof.
  intros Hnd H. destruct (sels_ok_spec _ _ _ _ H) as [Hl Hv]. split; [exact Hl|].
  rewrite cap_ops_eq in Hv. destruct (valid_runb_derived_facts _ _ _ _ Hv) as [_ F].
  eapply Forall_impl; [|exact F]. intros isel [H1 H2]. split; [exact H1|]. apply H2.
  apply cap_ids_nodup. apply (CombosProofs.cands_once header (g_heur c) (g_tro c) (g_label c) Hnd).
Qed.

(* ids -> pairs: a duplicate-free list of candidate ids stands for a duplicate-free sub-list of the candidates *)
Lemma of_id_inj cands i j : In i (cap_ids cands) -> In j (cap_ids cands) -> of_id cands i = of_id cands j -> i = j.
Proof.
  intros Hi Hj E. destruct (in_cap_ids cands i Hi) as [p [_ [Ei Oi]]], (in_cap_ids cands j Hj) as [q [_ [Ej Oj]]].
  rewrite Oi, Oj in E. subst. reflexivity.
Qed.

Lemma id_sel_facts header cands isel : closed header cands -> CombosProofs.once cands ->
  incl isel (cap_ids cands) -> NoDup isel ->
  incl (map (of_id cands) isel) cands /\ closed header (map (of_id cands) isel) /\ NoDup (map (of_id cands) isel)
  /\ oriented (map (of_id cands) isel).
Proof.
  intros Hcl [Hnd Hor] Hi Hn.
  assert (Hinc : incl (map (of_id cands) isel) cands).
  { intros p Hp. apply in_map_iff in Hp. destruct Hp as [i [<- Hin]].
    destruct (in_cap_ids cands i (Hi _ Hin)) as [q [Hq [_ Eo]]]. rewrite Eo. exact Hq. }
  split; [exact Hinc|]. split; [intros a b H; apply Hcl, Hinc, H|]. split.
  - apply NoDup_map_on; [|exact Hn]. intros x y Hx Hy. apply of_id_inj; apply Hi; assumption.
  - intros a b H1 H2. apply Hor; apply Hinc; assumption.
Qed.

(* general: number of contributing batches of a candidate = number of selections that list it *)
Lemma contributing_sel_nsel c header ps sels a b :
  CombosProofs.once (cap_cands c header) -> (forall sel, In sel sels -> incl sel (cap_cands c header)) ->
  length sels = length (e2e_batches c header ps) -> In (a, b) (cap_cands c header) ->
  length (contributing_sel c header ps sels a b) = nsel sels (a, b).
Proof.
  intros Honce Hi Hl Hc. unfold contributing_sel. rewrite map_length.
  rewrite (filter_combine_snd_length (Combos.umemb (a, b))) by (unfold batch_tables; rewrite map_length; exact Hl).
  unfold nsel. f_equal. apply filter_ext_in. intros sel Hsel.
  apply (umemb_cand _ sel a b Honce (Hi sel Hsel) Hc).
Qed.

Lemma contributing_sel_sym c header ps sels a b : contributing_sel c header ps sels a b = contributing_sel c header ps sels b a.
Proof. unfold contributing_sel. f_equal. apply filter_ext. intros ts. apply umemb_sym. Qed.

Lemma contributing_sel_incl c header ps sels a b : incl (contributing_sel c header ps sels a b) (batch_tables c header ps).
Proof.
  unfold contributing_sel. intros rows H. apply in_map_iff in H. destruct H as [[r sel] [<- H]].
  apply filter_In in H. destruct H as [H _]. apply in_combine_l in H. exact H.
Qed.

Lemma get_map_keys (f : Sampler.key -> nat) L k : In k L -> Sampler.get (map (fun k => (k, f k)) L) k = f k.
Proof.
  induction L as [|h L IH]; intros H; [destruct H|]. cbn [map Sampler.get].
  destruct (Nat.eqb k h) eqn:E; [apply Nat.eqb_eq in E; subst; reflexivity|].
  apply IH. destruct H as [H|H]; [|exact H]. apply Nat.eqb_neq in E. congruence.
Qed.

Lemma map_of_id_ids cands : map (of_id cands) (cap_ids cands) = cands.
Proof.
  unfold cap_ids, of_id. rewrite map_map. transitivity (map (fun p : Combos.pair => p) cands); [|apply map_id].
  apply map_ext_in. intros p Hp. apply CombosProofs.nth_pidx. exact Hp.
Qed.

Section CapRel.
  Variables (c : config) (header : list str) (ps : list (option (list str))) (isels : list (list Sampler.key)) (t : table).
  Hypothesis Hok : sels_ok c header ps isels = true.
  Hypothesis Hrun : e2ecap_core_sel c header ps isels = Some t.

  Let cands := cap_cands c header.
  Let ids := cap_ids cands.
  Let sels := sel_pairs c header isels.

  Lemma rel_config : cap_config_ok c header = true.
  Proof. destruct (e2ecap_core_pairs_some _ _ _ _ _ Hrun) as (H & _). exact H. Qed.

  Lemma rel_nodup_header : NoDup header.
  Proof. destruct (cap_config_ok_spec _ _ rel_config) as (_ & _ & _ & H & _). exact H. Qed.

  Lemma rel_isels : length isels = nbatches c header ps /\ Forall (fun isel => incl isel ids /\ NoDup isel) isels.
  Proof. apply sels_ok_facts; [apply rel_nodup_header|exact Hok]. Qed.

  Lemma rel_len : length sels = length (e2e_batches c header ps).
  Proof. unfold sels, sel_pairs. rewrite map_length. apply (proj1 rel_isels). Qed.

  Lemma rel_sel : forall sel, In sel sels -> incl sel cands /\ closed header sel /\ NoDup sel /\ oriented sel.
  Proof.
    intros sel H. unfold sels, sel_pairs in H. apply in_map_iff in H. destruct H as [isel [<- Hin]].
    destruct (cap_config_facts c header rel_config) as [Hcl Honce].
    destruct rel_isels as [_ F]. rewrite Forall_forall in F. destruct (F _ Hin) as [H1 H2].
    apply id_sel_facts; assumption.
  Qed.

  Definition rel_facts := g_cap_facts c header ps sels t Hrun.
  Definition rel_sorted := g_cap_sorted c header ps sels t Hrun.
  Definition rel_nodup := g_cap_nodup c header ps sels t Hrun rel_sel.
  Definition rel_cov_rows := g_cap_cov_rows c header ps sels t Hrun rel_sel.
  Definition rel_const_rows := g_cap_const_rows c header ps sels t Hrun rel_len rel_sel.

  (* selection counts: pairs <-> ids *)
  Lemma rel_nsel p : In p cands -> nsel sels p = Sampler.sel_count isels (Combos.pidx cands p).
  Proof.
    intros Hp. symmetry. destruct (cap_config_facts c header rel_config) as [_ Honce].
    apply (sel_count_nsel cands p (proj1 Honce) Hp isels (proj2 rel_isels)).
  Qed.

  Lemma rel_contributing_nsel a b : In (a, b) cands -> length (contributing_sel c header ps sels a b) = nsel sels (a, b).
  Proof.
    intros Hc. destruct (cap_config_facts c header rel_config) as [_ Honce].
    apply contributing_sel_nsel; [exact Honce| |apply rel_len|exact Hc]. intros sel Hs. apply (rel_sel sel Hs).
  Qed.

  (* C07_selection_history_fair instantiated *)
  Theorem rel_nsel_fair p q : In p cands -> In q cands -> nsel sels p <= S (nsel sels q).
  Proof.
    intros Hp Hq. rewrite !rel_nsel by assumption.
    destruct (sels_ok_spec _ _ _ _ Hok) as [_ Hv]. rewrite cap_ops_eq in Hv.
    destruct (cap_config_facts c header rel_config) as [_ Honce].
    apply (SamplerProofs.selection_history_fair ids (repeat (g_cap c) (nbatches c header ps)) isels).
    - apply cap_ids_nodup. exact (proj1 Honce).
    - exact Hv.
    - apply pidx_in_ids. exact Hp.
    - apply pidx_in_ids. exact Hq.
  Qed.

  Theorem rel_contributing_fair a b a' b' : requested c header a b -> requested c header a' b' ->
    length (contributing_sel c header ps sels a b) <= S (length (contributing_sel c header ps sels a' b')).
  Proof.
    destruct rel_facts as (_ & Hs & _).
    intros H1 H2. apply (requested_uin c header _ _ Hs) in H1, H2. rewrite <- cap_cands_eq in H1, H2. fold cands in H1, H2.
    assert (G : forall x y x' y', In (x, y) cands -> In (x', y') cands ->
                length (contributing_sel c header ps sels x y) <= S (length (contributing_sel c header ps sels x' y'))).
    { intros x y x' y' Hx Hy. rewrite !rel_contributing_nsel by assumption. apply rel_nsel_fair; assumption. }
    destruct H1 as [H1|H1], H2 as [H2|H2]; cbn [CombosProofs.swapp fst snd] in *.
    - apply G; assumption.
    - rewrite (contributing_sel_sym c header ps sels a' b'). apply G; assumption.
    - rewrite (contributing_sel_sym c header ps sels a b). apply G; assumption.
    - rewrite (contributing_sel_sym c header ps sels a b), (contributing_sel_sym c header ps sels a' b'). apply G; assumption.
  Qed.

  (* the counter the selections imply *)
  Lemma rel_counter_get k : Sampler.get (cap_counter_sel c header isels) k = Sampler.sel_count isels k.
  Proof.
    unfold cap_counter_sel. fold cands ids. destruct (in_dec Nat.eq_dec k ids) as [Hin|Hn].
    - apply get_map_keys. exact Hin.
    - rewrite SamplerProofs.get_notin by (rewrite map_map; cbn [fst]; rewrite map_id; exact Hn).
      symmetry. apply SamplerProofs.sel_count_notin. intros H. apply Hn. apply in_concat in H. destruct H as [isel [H1 H2]].
      destruct rel_isels as [_ F]. rewrite Forall_forall in F. apply (proj1 (F _ H1)). exact H2.
  Qed.

  Theorem rel_reportb : Sampler.reportb isels (cap_counter_sel c header isels) = true.
  Proof. unfold Sampler.reportb. apply forallb_forall. intros k _. apply Nat.eqb_eq. apply rel_counter_get. Qed.

  Theorem rel_counts_spec :
    (forall p n, In (p, n) (cap_counts_sel c header isels) <-> In p cands /\ n = nsel sels p) /\
    map fst (cap_counts_sel c header isels) = cands.
  Proof.
    unfold cap_counts_sel, cap_counter_sel. fold cands ids. rewrite !map_map. cbn [fst snd]. split.
    - intros p n. rewrite in_map_iff. split.
      + intros [k [E Hk]]. inversion E; subst p n. clear E.
        destruct (in_cap_ids cands k Hk) as [p' [Hp' [Ek Eo]]]. rewrite Eo. split; [exact Hp'|].
        rewrite rel_nsel by exact Hp'. rewrite Ek. reflexivity.
      + intros [Hp ->]. exists (Combos.pidx cands p). split; [|apply pidx_in_ids; exact Hp].
        unfold of_id. rewrite CombosProofs.nth_pidx by exact Hp. rewrite rel_nsel by exact Hp. reflexivity.
    - apply map_of_id_ids.
  Qed.
End CapRel.

(* ---- assembled relational statements ---- *)
Lemma rel_tables_facts c header ps isels t : sels_ok c header ps isels = true -> e2ecap_core_sel c header ps isels = Some t ->
  let D := common_den (e2e_batches c header ps) in
  batch_tables c header ps <> [] /\ D <> 0%N /\
  Forall (fun rows => rows <> [] /\ (N.of_nat (length rows) | D)%N) (batch_tables c header ps) /\
  length isels = length (batch_tables c header ps).
Proof.
  intros Hok Hrun D. destruct (rel_facts c header ps isels t Hrun) as (_ & _ & _ & _ & _ & _ & Hne & HD & Hb & _).
  split; [|split; [exact HD|split]].
  - unfold batch_tables. intros E. apply map_eq_nil in E. contradiction.
  - unfold batch_tables. apply Forall_map. apply Forall_forall. intros b Hin. destruct (Hb b Hin) as [H1 H2].
    unfold batch_rows. rewrite map_length. split; [|exact H2]. intros E. apply map_eq_nil in E. contradiction.
  - unfold batch_tables. rewrite map_length. apply (proj1 (sels_ok_spec _ _ _ _ Hok)).
Qed.

Theorem e2ecap_spec_rel c header ps isels t :
  sels_ok c header ps isels = true -> e2ecap_core_sel c header ps isels = Some t -> Combos.is_const (g_heur c) = false ->
  let tables := batch_tables c header ps in
  let D := common_den (e2e_batches c header ps) in
  let sels := sel_pairs c header isels in
  tables <> [] /\ D <> 0%N /\ Forall (fun rows => rows <> [] /\ (N.of_nat (length rows) | D)%N) tables /\
  length isels = length tables /\
  StronglySorted (fun r1 r2 : str * str * Q => Qle (snd r1) (snd r2)) t /\
  NoDup (map fst t) /\
  (forall a b q, In (a, b, q) t <->
     requested c header a b /\ contributing_sel c header ps sels a b <> [] /\
     q = Qmake (median2 (map (fun rows => Z.of_N (pair_num header D rows a b)) (contributing_sel c header ps sels a b))) (den_pos D)) /\
  (forall a b, requested c header a b -> requested c header b a) /\
  (forall a b, contributing_sel c header ps sels a b = contributing_sel c header ps sels b a /\
               incl (contributing_sel c header ps sels a b) tables) /\
  (forall rows a b, In rows tables ->
     Qeq (Z.of_N (pair_num header D rows a b) # npos D) (cells_cov (column header rows a) (column header rows b)) /\
     is_max_cov (column header rows a) (column header rows b) (cells_cov (column header rows a) (column header rows b))).
Proof.
  intros Hok Hrun Hcov tables D sels. destruct (rel_tables_facts c header ps isels t Hok Hrun) as (H1 & H2 & H3 & H4).
  split; [exact H1|]. split; [exact H2|]. split; [exact H3|]. split; [exact H4|].
  split; [apply (rel_sorted c header ps isels t Hrun)|]. split; [apply (rel_nodup c header ps isels t Hok Hrun)|].
  split; [intros a b q; apply (rel_cov_rows c header ps isels t Hok Hrun Hcov)|].
  split; [intros a b; apply requested_sym|].
  split; [intros a b; split; [apply contributing_sel_sym|apply contributing_sel_incl]|].
  intros rows a b Hin. fold tables in H3. rewrite Forall_forall in H3. destruct (H3 rows Hin) as [Hr Hd].
  apply batch_score_exact; assumption.
Qed.

Theorem e2ecap_spec_constant_rel c header ps isels t :
  sels_ok c header ps isels = true -> e2ecap_core_sel c header ps isels = Some t -> Combos.is_const (g_heur c) = true ->
  batch_tables c header ps <> [] /\
  NoDup (map fst t) /\
  (forall a b q, In (a, b, q) t <->
     In (a, b) (cap_cands c header) /\ (exists sel, In sel (sel_pairs c header isels) /\ In (a, b) sel) /\
     q = Qmake 0 (den_pos (common_den (e2e_batches c header ps)))).
Proof.
  intros Hok Hrun Hc. destruct (rel_tables_facts c header ps isels t Hok Hrun) as (H1 & _).
  split; [exact H1|]. split; [apply (rel_nodup c header ps isels t Hok Hrun)|].
  intros a b q. apply (rel_const_rows c header ps isels t Hok Hrun Hc).
Qed.

Theorem e2ecap_fair_rel c header ps isels t :
  sels_ok c header ps isels = true -> e2ecap_core_sel c header ps isels = Some t ->
  let sels := sel_pairs c header isels in
  (forall a b a' b', requested c header a b -> requested c header a' b' ->
     length (contributing_sel c header ps sels a b) <= S (length (contributing_sel c header ps sels a' b'))) /\
  (forall p q, In p (cap_cands c header) -> In q (cap_cands c header) -> nsel sels p <= S (nsel sels q)) /\
  (forall i j, In i (cap_ids (cap_cands c header)) -> In j (cap_ids (cap_cands c header)) ->
     Sampler.sel_count isels i <= S (Sampler.sel_count isels j)).
Proof.
  intros Hok Hrun sels. split; [intros a b a' b'; apply (rel_contributing_fair c header ps isels t Hok Hrun)|].
  split; [intros p q; apply (rel_nsel_fair c header ps isels t Hok Hrun)|].
  intros i j Hi Hj. destruct (in_cap_ids _ i Hi) as [p [Hp [-> _]]], (in_cap_ids _ j Hj) as [q [Hq [-> _]]].
  rewrite <- !(rel_nsel c header ps isels t Hok Hrun) by assumption. apply (rel_nsel_fair c header ps isels t Hok Hrun); assumption.
Qed.

Theorem e2ecap_counts_rel c header ps isels t :
  sels_ok c header ps isels = true -> e2ecap_core_sel c header ps isels = Some t ->
  let sels := sel_pairs c header isels in
  (forall k, Sampler.get (cap_counter_sel c header isels) k = Sampler.sel_count isels k) /\
  Sampler.reportb isels (cap_counter_sel c header isels) = true /\
  (forall p n, In (p, n) (cap_counts_sel c header isels) <-> In p (cap_cands c header) /\ n = nsel sels p) /\
  map fst (cap_counts_sel c header isels) = cap_cands c header /\
  (forall p, In p (cap_cands c header) ->
     nsel sels p = Sampler.sel_count isels (Combos.pidx (cap_cands c header) p) /\
     nsel sels p = length (contributing_sel c header ps sels (fst p) (snd p))).
Proof.
  intros Hok Hrun sels. split; [apply (rel_counter_get c header ps isels t Hok Hrun)|].
  split; [apply (rel_reportb c header ps isels t Hok Hrun)|].
  destruct (rel_counts_spec c header ps isels t Hok Hrun) as [C1 C2]. split; [exact C1|]. split; [exact C2|].
  intros [a b] Hp. split; [apply (rel_nsel c header ps isels t Hok Hrun); exact Hp|].
  symmetry. apply (rel_contributing_nsel c header ps isels t Hok Hrun). exact Hp.
Qed.

(* the deterministic model is one admissible instance *)
Theorem e2ecap_sel_instance c header ps :
  let isels := fst (cap_sampler c header (nbatches c header ps)) in
  sels_ok c header ps isels = true /\
  e2ecap_core_sel c header ps isels = e2ecap_core c header ps /\
  sel_pairs c header isels = cap_sels c header ps /\
  (forall a b, contributing_sel c header ps (sel_pairs c header isels) a b = contributing c header ps a b) /\
  (forall k, Sampler.sel_count isels k = Sampler.get (cap_counter c header ps) k).
Proof.
  intros isels. split; [|split; [reflexivity|split; [reflexivity|split; [reflexivity|]]]].
  - unfold sels_ok. apply andb_true_iff. split.
    + apply Nat.eqb_eq. apply cap_steps_length.
    + rewrite cap_ops_eq. unfold isels, cap_sampler. apply derived_valid_runb. reflexivity.
  - intros k. unfold cap_counter, isels, cap_sampler. rewrite cap_steps_get. reflexivity.
Qed.
