(* E2Ecap — the ranking task end to end when the per-batch combination cap BINDS
   (--combination_number_upper_bound < number of candidate pairs).  E2E/Compose.v answers None there; this file is the
   extension: the C07 sampler (Pipeline.Sampler.step = prior_combinations_sample on the process-global counter) is threaded
   through the batches, and every batch contributes rows for the SELECTED candidates only.

     per batch k (same candidate list every batch: it is a function of header / heuristic / mode / label only)
        (sel_k, s_{k+1}) := Sampler.step s_k ids cap         ids = positions in Combos.candidates (Combos.pidx)
        rows_k            := Combos.build_rows over sel_k     (scores: RankGraph.eval_pair with Compose.cov_num)
     table := emit (final_sort (aggregate (rows_0 ++ rows_1 ++ ...)))          -- exactly Compose's last stage
     counts := s_n                                                             -- combination_estimation_counts.json

   random.shuffle after the sampler only changes the evaluation order inside a batch (CapProofs.cap_shuffle_independent).
   Everything except the threading is imported from Compose.v / the layer models; no proofs here. *)
From Coq Require Import List NArith ZArith QArith Bool Arith.
From Outrank Require IO.Str IO.Csv IO.Accept Common.Median Pipeline.Stream Pipeline.Aggregate
  Pipeline.RankGraph Pipeline.Sampler Pipeline.Combos.
From Outrank Require Import E2E.Compose.
Import ListNotations.

Notation str := (list N) (only parsing).

(* ---------------------------------------------------------------------------------------------------------- *)
(* the sampler over a stable candidate list: nb calls with the same list and cap, counter threaded *)

Fixpoint cap_steps (s : Sampler.al) (L : list Sampler.key) (cap : Z) (nb : nat) : list (list Sampler.key) * Sampler.al :=
  match nb with
  | O => ([], s)
  | S k => let r := Sampler.step s L cap in
           let t := cap_steps (snd r) L cap k in
           (fst r :: fst t, snd t)
  end.

(* C06's candidate pairs of the run *)
Definition cap_cands (c : config) (header : list str) : list Combos.pair :=
  Combos.candidates header (g_heur c) (g_tro c) (g_label c).

(* harness-independent ids: the position of (the first occurrence of) the candidate in the candidate list *)
Definition cap_ids (cands : list Combos.pair) : list Sampler.key := map (Combos.pidx cands) cands.
Definition of_id (cands : list Combos.pair) (i : Sampler.key) : Combos.pair := nth i cands Combos.nopair.

(* the run of the sampler for nb batches, from the empty counter (the module global at process start) *)
Definition cap_sampler (c : config) (header : list str) (nb : nat) : list (list Sampler.key) * Sampler.al :=
  cap_steps [] (cap_ids (cap_cands c header)) (g_cap c) nb.

Definition nbatches (c : config) (header : list str) (ps : list (option (list str))) : nat :=
  length (e2e_batches c header ps).

(* the selection of every batch, as pairs, in selection order *)
Definition cap_sels (c : config) (header : list str) (ps : list (option (list str))) : list (list Combos.pair) :=
  map (map (of_id (cap_cands c header))) (fst (cap_sampler c header (nbatches c header ps))).

(* the counter after the last batch *)
Definition cap_counter (c : config) (header : list str) (ps : list (option (list str))) : Sampler.al :=
  snd (cap_sampler c header (nbatches c header ps)).

(* combination_estimation_counts.json: candidate -> number of evaluations *)
Definition cap_counts (c : config) (header : list str) (ps : list (option (list str))) : list (Combos.pair * nat) :=
  map (fun kc => (of_id (cap_cands c header) (fst kc), snd kc)) (cap_counter c header ps).

(* ---------------------------------------------------------------------------------------------------------- *)
(* rows *)

(* the rows mixed_rank_graph returns for one batch when the evaluated list is [ev]
   (Compose.batch_triplets is the instance ev = all candidates: CapProofs.batch_triplets_is_sel) *)
Definition batch_triplets_sel (c : config) (header : list str) (D : N) (rows : list (list str))
           (ev : list Combos.pair) : list Combos.row :=
  let f := frame_of header rows in
  let scores := if Combos.is_const (g_heur c) then []
                else map (RankGraph.eval_pair (cov_num D) f (g_label c)) ev in
  Combos.build_rows (g_heur c) ev scores.

Definition cap_all_rows (c : config) (header : list str) (ps : list (option (list str))) : list Aggregate.row :=
  let bs := e2e_batches c header ps in
  let D := common_den bs in
  flat_map (fun be => map (to_agg header) (batch_triplets_sel c header D (batch_rows ps (fst be)) (snd be)))
           (combine bs (cap_sels c header ps)).

(* the fragment: as Compose.config_ok, with  1 <= cap  instead of  #candidates <= cap
   (cap <= 0 selects nothing or a Python negative slice; then no triplet may exist at all and the task fails later) *)
Definition cap_config_ok (c : config) (header : list str) : bool :=
  (0 <? g_B c)%N && (0 <? g_s c)%N && supported_heur (g_heur c)
  && Combos.nodup_strb header && Combos.memb (g_label c) header
  && (1 <=? g_cap c)%Z.

(* the task on (header, parsed data lines) *)
Definition e2ecap_core (c : config) (header : list str) (ps : list (option (list str))) : option table :=
  if negb (cap_config_ok c header) then None
  else if crashes c ps then None
  else
    let bs := e2e_batches c header ps in
    match bs with
    | [] => None
    | _ => Some (map (emit header (common_den bs)) (Aggregate.final_table (cap_all_rows c header ps)))
    end.

Definition e2ecap_run (c : config) (text : str) : option table :=
  e2ecap_core c (header_of text) (parse_lines text).

(* ---------------------------------------------------------------------------------------------------------- *)
(* the RELATIONAL version: the per-batch selections are an INPUT (what an implementation actually evaluated), judged by
   C07's checker instead of being computed by Sampler.step.  Property C07 leaves the tie-breaking among equally often
   evaluated candidates free; every admissible selection history determines a table and a table of counts. *)

Definition cap_all_rows_sel (c : config) (header : list str) (ps : list (option (list str)))
           (sels : list (list Combos.pair)) : list Aggregate.row :=
  let bs := e2e_batches c header ps in
  let D := common_den bs in
  flat_map (fun be => map (to_agg header) (batch_triplets_sel c header D (batch_rows ps (fst be)) (snd be)))
           (combine bs sels).

(* the task when batch k evaluates the pairs [nth k sels] *)
Definition e2ecap_core_pairs (c : config) (header : list str) (ps : list (option (list str)))
           (sels : list (list Combos.pair)) : option table :=
  if negb (cap_config_ok c header) then None
  else if crashes c ps then None
  else
    let bs := e2e_batches c header ps in
    match bs with
    | [] => None
    | _ => Some (map (emit header (common_den bs)) (Aggregate.final_table (cap_all_rows_sel c header ps sels)))
    end.

(* selections given as candidate ids (positions in the candidate list) *)
Definition sel_pairs (c : config) (header : list str) (isels : list (list Sampler.key)) : list (list Combos.pair) :=
  map (map (of_id (cap_cands c header))) isels.

Definition e2ecap_core_sel (c : config) (header : list str) (ps : list (option (list str)))
           (isels : list (list Sampler.key)) : option table :=
  e2ecap_core_pairs c header ps (sel_pairs c header isels).

(* the history of sampler calls of the run: the same (candidate ids, cap) for every processed batch *)
Definition cap_ops (c : config) (header : list str) (nb : nat) : list Sampler.op :=
  map (fun cp : Z => (cap_ids (cap_cands c header), cp)) (repeat (g_cap c) nb).

(* admissibility: one selection per processed batch, and every step is valid for C07's relation against the counts the
   selections themselves imply (Sampler.derived_obs) *)
Definition sels_ok (c : config) (header : list str) (ps : list (option (list str))) (isels : list (list Sampler.key)) : bool :=
  Nat.eqb (length isels) (nbatches c header ps)
  && Sampler.valid_runb [] (cap_ops c header (nbatches c header ps)) (Sampler.derived_obs [] isels).

(* per-batch verdicts (to name the failing batch) *)
Definition sels_steps (c : config) (header : list str) (ps : list (option (list str))) (isels : list (list Sampler.key)) : list bool :=
  Sampler.steps_ok [] (cap_ops c header (nbatches c header ps)) (Sampler.derived_obs [] isels).

(* the counter the selections imply: every candidate with its number of selections (never selected: 0) *)
Definition cap_counter_sel (c : config) (header : list str) (isels : list (list Sampler.key)) : Sampler.al :=
  map (fun k => (k, Sampler.sel_count isels k)) (cap_ids (cap_cands c header)).

Definition cap_counts_sel (c : config) (header : list str) (isels : list (list Sampler.key)) : list (Combos.pair * nat) :=
  map (fun kc => (of_id (cap_cands c header) (fst kc), snd kc)) (cap_counter_sel c header isels).

(* harness glue: an evaluated pair of names -> candidate id, either orientation; not a candidate -> an id outside the list
   (which the checker rejects) *)
Definition id_of_pair (cands : list Combos.pair) (p : Combos.pair) : Sampler.key :=
  if Combos.listedb p cands then Combos.pidx cands p
  else if Combos.listedb (snd p, fst p) cands then Combos.pidx cands (snd p, fst p)
  else length cands.

Fixpoint keys_eqb (l1 l2 : list Sampler.key) : bool :=
  match l1, l2 with
  | [], [] => true
  | x :: r1, y :: r2 => Nat.eqb x y && keys_eqb r1 r2
  | _, _ => false
  end.
Fixpoint ins_key (k : Sampler.key) (l : list Sampler.key) : list Sampler.key :=
  match l with [] => [k] | h :: t => if Nat.leb k h then k :: l else h :: ins_key k t end.
Definition sort_keys (l : list Sampler.key) : list Sampler.key := fold_right ins_key [] l.
Fixpoint same_selections (a b : list (list Sampler.key)) : bool :=
  match a, b with
  | [], [] => true
  | x :: r1, y :: r2 => keys_eqb (sort_keys x) (sort_keys y) && same_selections r1 r2
  | _, _ => false
  end.

(* ---------------------------------------------------------------------------------------------------------- *)
(* what the harness prints *)

(* 1 configuration / header outside the fragment, 2 csv.Error, 3 no batch *)
Definition e2ecap_status (c : config) (text : str) : N :=
  let header := header_of text in let ps := parse_lines text in
  if negb (cap_config_ok c header) then 1%N
  else if crashes c ps then 2%N
  else match e2e_batches c header ps with [] => 3%N | _ => 0%N end.

Definition enc_pairs (l : list Combos.pair) : list (str * str) := l.

(* (status, table, counts, per-batch selections, (number of candidates, batch sizes)) *)
Definition e2ecap_eval (c : config) (text : str) :=
  let header := header_of text in let ps := parse_lines text in
  let st := e2ecap_status c text in
  (st,
   match e2ecap_run c text with Some t => enc_table t | None => [] end,
   (if (st =? 0)%N then cap_counts c header ps else []),
   (if (st =? 0)%N then cap_sels c header ps else []),
   (length (cap_cands c header), map (@length _) (e2e_batches c header ps))).

(* for the failing case only: the candidate list in order, and Compose's per-batch detail with the selected rows *)
Definition e2ecap_detail (c : config) (text : str) :=
  let header := header_of text in let ps := parse_lines text in
  let bs := e2e_batches c header ps in let D := common_den bs in
  (header, Z.of_N D, cap_cands c header,
   map (fun be => (batch_rows ps (fst be),
                   map (fun r : Combos.row => (fst (fst r), snd (fst r), Z.of_N (snd r)))
                       (batch_triplets_sel c header D (batch_rows ps (fst be)) (snd be))))
       (combine bs (cap_sels c header ps)),
   Stream.invalid_count (fun _ : list Stream.line => @nil unit) (fun _ : list unit => tt) (stream_cfg c header) (abs_lines ps)).

(* the relational evaluation: [psels] = the pairs the implementation evaluated in every batch (names, with multiplicity).
   (status, admissible?, per-batch verdicts, table for THESE selections, counts THESE selections imply,
    same selections as the transcription Sampler.step?, (number of candidates, batch sizes), the selections as ids) *)
Definition e2ecap_eval_rel (c : config) (text : str) (psels : list (list Combos.pair)) :=
  let header := header_of text in let ps := parse_lines text in
  let st := e2ecap_status c text in
  let cands := cap_cands c header in
  let isels := map (map (id_of_pair cands)) psels in
  (st,
   sels_ok c header ps isels,
   sels_steps c header ps isels,
   match e2ecap_core_sel c header ps isels with Some t => enc_table t | None => [] end,
   (if (st =? 0)%N then cap_counts_sel c header isels else []),
   same_selections isels (fst (cap_sampler c header (nbatches c header ps))),
   (length cands, map (@length _) (e2e_batches c header ps)),
   isels).

(* for the failing case only: per batch the parsed rows and the triplets for the implementation's selections *)
Definition e2ecap_detail_rel (c : config) (text : str) (psels : list (list Combos.pair)) :=
  let header := header_of text in let ps := parse_lines text in
  let bs := e2e_batches c header ps in let D := common_den bs in
  let cands := cap_cands c header in
  let sels := sel_pairs c header (map (map (id_of_pair cands)) psels) in
  (header, Z.of_N D, cands,
   map (fun be => (batch_rows ps (fst be),
                   map (fun r : Combos.row => (fst (fst r), snd (fst r), Z.of_N (snd r)))
                       (batch_triplets_sel c header D (batch_rows ps (fst be)) (snd be))))
       (combine bs sels),
   Stream.invalid_count (fun _ : list Stream.line => @nil unit) (fun _ : list unit => tt) (stream_cfg c header) (abs_lines ps)).
