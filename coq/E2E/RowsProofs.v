(* E2E — what the rows of one batch are (C05 + C06 glued), and what Aggregate sees of them. *)
From Coq Require Import List NArith ZArith QArith Bool Arith Lia Permutation Sorting.Sorted.
From Outrank Require Import Common.Median Pipeline.Aggregate Pipeline.AggregateProofs.
From Outrank Require Import Pipeline.RankGraph Pipeline.RankGraphProofs.
From Outrank Require Pipeline.Sampler Pipeline.Combos Pipeline.CombosProofs.
From Outrank Require Import E2E.Compose E2E.CovProofs E2E.MedianRep.
Import ListNotations.
Local Open Scope nat_scope.

Notation str := (list N) (only parsing).

(* ---------------------------------------------------------------------------------------------------------- *)
(* the two string equalities of the layer models agree *)

Lemma seqb_str_eqb a b : seqb a b = Combos.str_eqb a b.
Proof.
  destruct (seqb a b) eqn:E.
  - apply seqb_eq in E. subst. symmetry. apply CombosProofs.str_eqb_refl.
  - apply seqb_neq in E. symmetry. apply CombosProofs.str_eqb_neq. exact E.
Qed.

Lemma nodup_strb_NoDup l : Combos.nodup_strb l = true -> NoDup l.
Proof.
  induction l as [|x l IH]; intros H; [constructor|]. cbn [Combos.nodup_strb] in H.
  apply andb_true_iff in H. destruct H as [H1 H2]. constructor; [|apply IH; exact H2].
  apply negb_true_iff in H1. apply CombosProofs.memb_false in H1. exact H1.
Qed.

(* ---------------------------------------------------------------------------------------------------------- *)
(* columns of a batch *)

(* the cells of column [x] of a batch, read off the rows at the header position of [x] *)
Definition column (header : list str) (rows : list (list str)) (x : str) : list str :=
  map (fun r => nth (N.to_nat (Combos.sidx header x)) r []) rows.

Lemma col_frame_from header rows x : forall j, In x header ->
  col (frame_from j header rows) x = map (fun r => nth (j + N.to_nat (Combos.sidx header x)) r []) rows.
Proof.
  induction header as [|h t IH]; intros j Hin; [destruct Hin|].
  unfold col. cbn [frame_from find fst Combos.sidx]. rewrite seqb_str_eqb, CombosProofs.str_eqb_sym.
  destruct (Combos.str_eqb x h) eqn:E.
  - cbn [snd]. apply map_ext. intros r. rewrite Nat.add_0_r. reflexivity.
  - destruct Hin as [->|Hin]; [rewrite CombosProofs.str_eqb_refl in E; discriminate|].
    specialize (IH (S j) Hin). unfold col in IH. rewrite IH. apply map_ext. intros r.
    rewrite N2Nat.inj_succ. f_equal. lia.
Qed.

Lemma col_frame_of header rows x : In x header -> col (frame_of header rows) x = column header rows x.
Proof. intros H. unfold frame_of. rewrite col_frame_from by exact H. reflexivity. Qed.

Lemma column_length header rows x : length (column header rows x) = length rows.
Proof. apply map_length. Qed.

(* ---------------------------------------------------------------------------------------------------------- *)
(* the score of an ordered pair of columns in one batch (numerator over the common denominator D) *)

Definition pair_num (header : list str) (D : N) (rows : list (list str)) (x y : str) : N :=
  cov_num D (codes (column header rows x)) (codes (column header rows y)).

Lemma pair_num_sym header D rows x y : pair_num header D rows x y = pair_num header D rows y x.
Proof. unfold pair_num. apply cov_num_sym. rewrite !codes_length, !column_length. reflexivity. Qed.

(* C05: the candidate is oriented (label = conditioning side), then scored; for the coverage the orientation
   does not change the value *)
Lemma eval_pair_num header D rows lbl a b : In a header -> In b header -> In lbl header ->
  eval_pair (cov_num D) (frame_of header rows) lbl (a, b) = pair_num header D rows a b.
Proof.
  intros Ha Hb Hl. unfold eval_pair.
  destruct (orient_same_columns lbl a b) as [E|E]; rewrite E; cbn [fst snd]; rewrite !col_frame_of by assumption.
  - reflexivity.
  - apply pair_num_sym.
Qed.

(* ---------------------------------------------------------------------------------------------------------- *)
(* the rows of a batch: C06's build_rows over C05's eval_pair *)

Definition cands_of (c : config) (header : list str) : list Combos.pair :=
  Combos.candidates header (g_heur c) (g_tro c) (g_label c).

(* every ordered pair that gets a row, with its multiplicity: the mirror image, then the candidate *)
Definition mkeys (cands : list Combos.pair) : list (str * str) :=
  flat_map (fun p => [(snd p, fst p); (fst p, snd p)]) cands.

Lemma triplets_map (g : Combos.pair -> N) ev :
  Combos.triplets ev (map g ev) = map (fun p => (fst p, snd p, g p)) ev.
Proof.
  unfold Combos.triplets. induction ev as [|p ev IH]; [reflexivity|]. cbn [map combine fst snd]. rewrite IH. reflexivity.
Qed.

Lemma mirror_map (g : Combos.pair -> N) ev :
  Combos.mirror (map (fun p => (fst p, snd p, g p)) ev) = flat_map (fun p => [(snd p, fst p, g p); (fst p, snd p, g p)]) ev.
Proof. unfold Combos.mirror. induction ev as [|p ev IH]; [reflexivity|]. cbn [map flat_map app]. rewrite IH. reflexivity. Qed.

(* the model's batch rows are C05's rank_rows on the candidates of C06 *)
Lemma batch_triplets_rank_rows c header D rows : Combos.is_const (g_heur c) = false ->
  batch_triplets c header D rows = rank_rows (cov_num D) (frame_of header rows) (g_label c) (cands_of c header).
Proof.
  intros Hc. unfold batch_triplets, Combos.build_rows. rewrite Hc. fold (cands_of c header).
  rewrite triplets_map, mirror_map. reflexivity.
Qed.

Lemma in_mkeys cands a b : In (a, b) (mkeys cands) <-> CombosProofs.uin (a, b) cands.
Proof.
  unfold mkeys, CombosProofs.uin, CombosProofs.swapp. cbn [fst snd]. rewrite in_flat_map. split.
  - intros [[x y] [Hp [H|[H|[]]]]]; cbn [fst snd] in H; inversion H; subst; [right|left]; exact Hp.
  - intros [H|H]; [exists (a, b)|exists (b, a)]; (split; [exact H|]); cbn [fst snd In]; auto.
Qed.

Definition closed (header : list str) (l : list (str * str)) : Prop :=
  forall a b, In (a, b) l -> In a header /\ In b header.

Lemma mkeys_closed header cands : closed header cands -> closed header (mkeys cands).
Proof.
  intros H a b Hin. apply in_mkeys in Hin. destruct Hin as [Hin|Hin]; [apply H; exact Hin|].
  apply H in Hin. cbn in Hin. tauto.
Qed.

Definition kx (header : list str) (xy : str * str) : key := (Combos.sidx header (fst xy), Combos.sidx header (snd xy)).

Lemma sidx_inj header a b : In a header -> In b header -> Combos.sidx header a = Combos.sidx header b -> a = b.
Proof.
  intros Ha Hb E. apply CombosProofs.str_eqb_eq. rewrite <- (CombosProofs.sidx_eqb header a b Ha Hb). apply N.eqb_eq. exact E.
Qed.

Lemma kx_inj header p q : In (fst p) header -> In (snd p) header -> In (fst q) header -> In (snd q) header ->
  kx header p = kx header q -> p = q.
Proof.
  destruct p as [a b], q as [a' b']. cbn [fst snd]. intros Ha Hb Ha' Hb' E. unfold kx in E. cbn [fst snd] in E.
  inversion E as [[E1 E2]]. apply sidx_inj in E1; [|assumption|assumption]. apply sidx_inj in E2; [|assumption|assumption].
  subst. reflexivity.
Qed.

(* coverage: the Aggregate rows of one batch, entry by entry of [mkeys] *)
Lemma batch_rows_cov c header D rows :
  Combos.is_const (g_heur c) = false -> In (g_label c) header -> closed header (cands_of c header) ->
  map (to_agg header) (batch_triplets c header D rows)
  = map (fun xy => (kx header xy, Z.of_N (pair_num header D rows (fst xy) (snd xy)))) (mkeys (cands_of c header)).
Proof.
  intros Hc Hl Hcl. rewrite batch_triplets_rank_rows by exact Hc. unfold rank_rows, mkeys.
  induction (cands_of c header) as [|[a b] l IH]; [reflexivity|].
  cbn [flat_map map app fst snd].
  destruct (Hcl a b (or_introl eq_refl)) as [Ha Hb].
  rewrite eval_pair_num by assumption. unfold to_agg at 1 2. cbn [fst snd]. unfold kx at 1 2. cbn [fst snd].
  rewrite (pair_num_sym header D rows b a). f_equal. f_equal.
  apply IH. intros x y H. apply Hcl. right. exact H.
Qed.

(* Constant: one row per candidate, score 0 *)
Lemma batch_rows_const c header D rows : Combos.is_const (g_heur c) = true ->
  map (to_agg header) (batch_triplets c header D rows) = map (fun xy => (kx header xy, 0%Z)) (cands_of c header).
Proof.
  intros Hc. unfold batch_triplets, Combos.build_rows. rewrite Hc. fold (cands_of c header).
  unfold Combos.constant_rows. rewrite map_map. apply map_ext. intros [a b]. reflexivity.
Qed.

(* ---------------------------------------------------------------------------------------------------------- *)
(* what Aggregate's scores_of sees *)

Lemma scores_of_map {A} (K : A -> key) (V : A -> Z) k l :
  scores_of k (map (fun x => (K x, V x)) l) = map V (filter (fun x => key_eqb (K x) k) l).
Proof.
  unfold scores_of. induction l as [|x l IH]; [reflexivity|]. cbn [map filter fst].
  destruct (key_eqb (K x) k); cbn [map snd]; rewrite IH; reflexivity.
Qed.

Lemma map_const_repeat {A} (V : A -> Z) v l : (forall x, In x l -> V x = v) -> map V l = repeat v (length l).
Proof.
  induction l as [|x l IH]; intros H; [reflexivity|]. cbn [map length repeat]. rewrite (H x (or_introl eq_refl)).
  f_equal. apply IH. intros y Hy. apply H. right. exact Hy.
Qed.

Lemma scores_of_flat_map {A} k (f : A -> list row) l :
  scores_of k (flat_map f l) = flat_map (fun b => scores_of k (f b)) l.
Proof. induction l as [|x l IH]; [reflexivity|]. cbn [flat_map]. rewrite scores_of_app, IH. reflexivity. Qed.

Lemma flat_map_repeat {A} (f : A -> Z) m l : flat_map (fun b => repeat (f b) m) l = replicate m (map f l).
Proof. unfold replicate. induction l as [|x l IH]; [reflexivity|]. cbn [flat_map map]. rewrite IH. reflexivity. Qed.

(* multiplicity of an ordered pair among the rows of one batch (1, or 2 for a self pair, whose mirror is itself) *)
Definition mult (header : list str) (keys : list (str * str)) (k : key) : nat :=
  length (filter (fun xy => key_eqb (kx header xy) k) keys).

Lemma mult_pos header keys xy : In xy keys -> 0 < mult header keys (kx header xy).
Proof.
  intros H. unfold mult.
  assert (Hf : In xy (filter (fun xy' => key_eqb (kx header xy') (kx header xy)) keys)).
  { apply filter_In. split; [exact H|apply key_eqb_refl]. }
  destruct (filter _ keys); [destruct Hf|cbn; lia].
Qed.

(* all batches together: per ordered pair the per-batch scores, each [mult] times *)
Theorem scores_of_all {B} header (keys : list (str * str)) (V : B -> str * str -> Z) (bs : list B) xy :
  closed header keys -> In xy keys ->
  scores_of (kx header xy) (flat_map (fun b => map (fun xy' => (kx header xy', V b xy')) keys) bs)
  = replicate (mult header keys (kx header xy)) (map (fun b => V b xy) bs).
Proof.
  intros Hcl Hin. rewrite scores_of_flat_map, <- flat_map_repeat.
  apply flat_map_ext. intros b. rewrite scores_of_map. unfold mult. apply map_const_repeat.
  intros xy' H. apply filter_In in H. destruct H as [H1 H2]. apply key_eqb_eq in H2.
  destruct xy as [a b0], xy' as [a' b']. destruct (Hcl _ _ Hin), (Hcl _ _ H1).
  apply kx_inj in H2; cbn [fst snd]; try assumption. rewrite H2. reflexivity.
Qed.

Lemma keys_of_all {B} header (keys : list (str * str)) (V : B -> str * str -> Z) (bs : list B) k :
  bs <> [] ->
  (In k (map fst (flat_map (fun b => map (fun xy' => (kx header xy', V b xy')) keys) bs)) <-> In k (map (kx header) keys)).
Proof.
  intros Hne. rewrite !in_map_iff. split.
  - intros [r [<- Hr]]. apply in_flat_map in Hr. destruct Hr as [b [_ Hr]]. apply in_map_iff in Hr.
    destruct Hr as [xy [<- Hxy]]. exists xy. split; [reflexivity|exact Hxy].
  - intros [xy [<- Hxy]]. destruct bs as [|b bs]; [congruence|].
    exists (kx header xy, V b xy). split; [reflexivity|]. apply in_flat_map. exists b. split; [left; reflexivity|].
    apply in_map_iff. exists xy. auto.
Qed.
