(* E2Ecap — non-vacuity: a small file evaluated by vm_compute with a BINDING cap; the hypotheses of the main theorems are
   satisfiable, and the binding cap changes the table (so the extension is not the old model in disguise). *)
From Coq Require Import List NArith ZArith QArith Bool Arith Lia.
From Outrank Require Pipeline.Sampler Pipeline.Combos.
From Outrank Require Import E2E.Compose E2E.RowsProofs E2E.ComposeProofs E2E.Examples E2E.CapCompose E2E.CapProofs.
Import ListNotations.
Local Open Scope N_scope.

(*  x,label,z,w          three feature columns + label; B = 2: four batches
    a,1,p,u   a,1,p,v    batch 0: x vs label 2/2
    a,1,q,u   b,0,p,u    batch 1: x vs label 1/2
    a,0,p,v   a,0,p,v    batch 2: x vs label 2/2
    b,1,q,u   a,0,q,v    batch 3: x vs label 1/2                                                               *)
Definition cap_text : list N :=
  [120; 44; 108; 97; 98; 101; 108; 44; 122; 44; 119; 10; 97; 44; 49; 44; 112; 44; 117; 10; 97; 44; 49; 44; 112; 44; 118; 10; 97; 44;
   49; 44; 113; 44; 117; 10; 98; 44; 48; 44; 112; 44; 117; 10; 97; 44; 48; 44; 112; 44; 118; 10; 97; 44; 48; 44; 112; 44; 118; 10; 98;
   44; 49; 44; 113; 44; 117; 10; 97; 44; 48; 44; 113; 44; 118; 10].
Definition cap_header := header_of cap_text.
Definition cap_ps := parse_lines cap_text.
Definition nx : list N := [120].
Definition nz : list N := [122].
Definition nw : list N := [119].

(* target-only mode: 4 candidates, cap 3 *)
Definition cfg_t := mkconfig 2 1 s_label Combos.s_True h_maxcov 3.
(* pairwise mode: 10 candidates, cap 2 *)
Definition cfg_p := mkconfig 2 1 s_label s_False h_maxcov 2.
Definition cfg_c := mkconfig 2 1 s_label s_False h_constant 3.

Example ex_cap_binding :
  (Z.of_nat (length (cap_cands cfg_t cap_header)) > g_cap cfg_t)%Z /\
  (Z.of_nat (length (cap_cands cfg_p cap_header)) > g_cap cfg_p)%Z /\
  nbatches cfg_t cap_header cap_ps = 4%nat /\
  e2e_run cfg_t cap_text = None.
Proof. vm_compute. repeat split. Qed.

(* which candidates each batch evaluates: always the three least-evaluated ones, ties in list order *)
Example ex_cap_sels : cap_sels cfg_t cap_header cap_ps =
  [[(nx, s_label); (s_label, s_label); (s_label, nz)];
   [(s_label, nw); (nx, s_label); (s_label, s_label)];
   [(s_label, nz); (s_label, nw); (nx, s_label)];
   [(s_label, s_label); (s_label, nz); (s_label, nw)]].
Proof. vm_compute. reflexivity. Qed.

(* x vs label was evaluated in batches 0, 1, 2: scores 1, 1/2, 1 -> median 1 (all four batches would give 3/4);
   label vs label in batches 0, 1, 3 *)
Example ex_cap_run : e2ecap_run cfg_t cap_text =
  Some [(s_label, s_label, 2 # 4); (s_label, nw, 2 # 4); (nw, s_label, 2 # 4); (nx, s_label, 4 # 4); (s_label, nx, 4 # 4);
        (s_label, nz, 4 # 4); (nz, s_label, 4 # 4)].
Proof. vm_compute. reflexivity. Qed.

Example ex_cap_contributing :
  contributing cfg_t cap_header cap_ps nx s_label =
    [[[[97]; [49]; [112]; [117]]; [[97]; [49]; [112]; [118]]];
     [[[97]; [49]; [113]; [117]]; [[98]; [48]; [112]; [117]]];
     [[[97]; [48]; [112]; [118]]; [[97]; [48]; [112]; [118]]]] /\
  contributing cfg_t cap_header cap_ps s_label nx = contributing cfg_t cap_header cap_ps nx s_label.
Proof. vm_compute. split; reflexivity. Qed.

(* the same file with the cap at the number of candidates: the old model, a different table *)
Example ex_cap_changes_table :
  e2ecap_run (mkconfig 2 1 s_label Combos.s_True h_maxcov 4) cap_text = e2e_run (mkconfig 2 1 s_label Combos.s_True h_maxcov 4) cap_text /\
  e2e_run (mkconfig 2 1 s_label Combos.s_True h_maxcov 4) cap_text =
    Some [(s_label, nw, 2 # 4); (nw, s_label, 2 # 4); (nx, s_label, 3 # 4); (s_label, nx, 3 # 4); (s_label, s_label, 3 # 4);
          (s_label, nz, 3 # 4); (nz, s_label, 3 # 4)].
Proof. vm_compute. split; reflexivity. Qed.

(* the reported counts: every candidate 3 of 4 batches *)
Example ex_cap_counts : cap_counts cfg_t cap_header cap_ps =
  [((nx, s_label), 3%nat); ((s_label, s_label), 3%nat); ((s_label, nz), 3%nat); ((s_label, nw), 3%nat)].
Proof. vm_compute. reflexivity. Qed.

(* pairwise mode, 10 candidates, cap 2, 4 batches: 8 candidates evaluated once, 2 never (they are absent from the table,
   present in the counts with 0) *)
Example ex_cap_pairwise :
  option_map (@length _) (e2ecap_run cfg_p cap_text) = Some 13%nat /\
  cap_sels cfg_p cap_header cap_ps =
    [[(nx, nx); (nx, s_label)]; [(nx, nz); (nx, nw)]; [(s_label, s_label); (s_label, nz)]; [(s_label, nw); (nz, nz)]] /\
  cap_counts cfg_p cap_header cap_ps =
    [((nx, nx), 1%nat); ((nx, s_label), 1%nat); ((nx, nz), 1%nat); ((nx, nw), 1%nat); ((s_label, s_label), 1%nat);
     ((s_label, nz), 1%nat); ((s_label, nw), 1%nat); ((nz, nz), 1%nat); ((nz, nw), 0%nat); ((nw, nw), 0%nat)] /\
  (forall q, ~ In (nz, nw, q) match e2ecap_run cfg_p cap_text with Some t => t | None => [] end).
Proof.
  split; [vm_compute; reflexivity|]. split; [vm_compute; reflexivity|]. split; [vm_compute; reflexivity|].
  intros q. vm_compute. intros H. repeat (destruct H as [H|H]; [discriminate H|]). exact H.
Qed.

(* Constant: each candidate in its listed orientation, counts 2,2,1,... after 4 batches of 3 *)
Example ex_cap_const :
  e2ecap_run cfg_c cap_text =
    Some [(nx, nx, 0 # 4); (nx, s_label, 0 # 4); (nx, nz, 0 # 4); (nx, nw, 0 # 4); (s_label, s_label, 0 # 4); (s_label, nz, 0 # 4);
          (s_label, nw, 0 # 4); (nz, nz, 0 # 4); (nz, nw, 0 # 4); (nw, nw, 0 # 4)] /\
  map snd (cap_counts cfg_c cap_header cap_ps) = [2; 2; 1; 1; 1; 1; 1; 1; 1; 1]%nat.
Proof. vm_compute. split; reflexivity. Qed.

(* the hypotheses of E2Ecap_spec / _fair / _counts are satisfiable with a binding cap *)
Example ex_cap_spec_hypotheses :
  exists t, e2ecap_core cfg_t cap_header cap_ps = Some t /\ Combos.is_const (g_heur cfg_t) = false /\
            (g_cap cfg_t < Z.of_nat (length (cap_cands cfg_t cap_header)))%Z.
Proof.
  exists [(s_label, s_label, 2 # 4); (s_label, nw, 2 # 4); (nw, s_label, 2 # 4); (nx, s_label, 4 # 4); (s_label, nx, 4 # 4);
          (s_label, nz, 4 # 4); (nz, s_label, 4 # 4)].
  split; [vm_compute; reflexivity|]. split; [reflexivity|]. vm_compute. reflexivity.
Qed.

(* cap 0 (nothing is ever evaluated) is outside the fragment *)
Example ex_cap_zero : e2ecap_status (mkconfig 2 1 s_label s_False h_maxcov 0) cap_text = 1.
Proof. vm_compute. reflexivity. Qed.

(* ---- the relational model: selections as input ---- *)
(* candidate ids in target-only mode: 0 = (x,label), 1 = (label,label), 2 = (label,z), 3 = (label,w).
   [ex_tie_sels]: a fair history that breaks the ties of batch 0 differently from sorted() (it starts with 1,2,3);
   [ex_bad_sels]: batch 1 re-evaluates candidate 1 although candidate 3 was never evaluated. *)
Definition ex_step_sels : list (list nat) := [[0; 1; 2]; [3; 0; 1]; [2; 3; 0]; [1; 2; 3]]%nat.
Definition ex_tie_sels : list (list nat) := [[3; 1; 2]; [0; 2; 3]; [1; 0; 3]; [2; 1; 0]]%nat.
Definition ex_bad_sels : list (list nat) := [[0; 1; 2]; [0; 1; 2]; [2; 3; 0]; [1; 2; 3]]%nat.

Example ex_rel_instance :
  fst (cap_sampler cfg_t cap_header (nbatches cfg_t cap_header cap_ps)) = ex_step_sels /\
  sels_ok cfg_t cap_header cap_ps ex_step_sels = true /\
  e2ecap_core_sel cfg_t cap_header cap_ps ex_step_sels = e2ecap_run cfg_t cap_text.
Proof. vm_compute. repeat split. Qed.

(* another tie-breaking: admissible, another table (x vs label now evaluated in batches 1, 2, 3: 1/2, 1, 1/2 -> 1/2), fair counts *)
Example ex_rel_other_ties :
  sels_ok cfg_t cap_header cap_ps ex_tie_sels = true /\
  e2ecap_core_sel cfg_t cap_header cap_ps ex_tie_sels =
    Some [(nx, s_label, 2 # 4); (s_label, nx, 2 # 4); (s_label, nz, 2 # 4); (s_label, nw, 2 # 4); (nz, s_label, 2 # 4);
          (nw, s_label, 2 # 4); (s_label, s_label, 4 # 4)] /\
  map snd (cap_counts_sel cfg_t cap_header ex_tie_sels) = [3; 3; 3; 3]%nat.
Proof. vm_compute. repeat split. Qed.

Example ex_rel_rejected :
  sels_ok cfg_t cap_header cap_ps ex_bad_sels = false /\
  sels_steps cfg_t cap_header cap_ps ex_bad_sels = [true; false; true; true] /\
  sels_ok cfg_t cap_header cap_ps [[0; 1; 2]; [3; 0; 1]; [2; 3; 0]]%nat = false /\          (* one batch short *)
  sels_ok cfg_t cap_header cap_ps [[0; 1]; [2; 3]; [0; 1]; [2; 3]]%nat = false /\          (* fewer than cap *)
  sels_ok cfg_t cap_header cap_ps [[0; 1; 4]; [3; 0; 1]; [2; 3; 0]; [1; 2; 3]]%nat = false.  (* 4 is not a candidate *)
Proof. vm_compute. repeat split. Qed.
