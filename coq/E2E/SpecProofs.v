(* E2E — the end-to-end statements assembled from ComposeProofs / CovProofs / FileProofs / ShuffleProofs, and the
   non-vacuity examples (small files evaluated by vm_compute). *)
From Coq Require Import List NArith ZArith QArith Bool Arith Lia Permutation Sorting.Sorted.
From Coq Require String.
From Outrank Require Import IO.Str IO.StrProofs.
From Outrank Require IO.Csv IO.Accept.
From Outrank Require Import Common.Median.
From Outrank Require Pipeline.Stream Pipeline.StreamProofs.
From Outrank Require Import Pipeline.Aggregate Pipeline.AggregateProofs.
From Outrank Require Import Pipeline.RankGraph Pipeline.RankGraphProofs.
From Outrank Require Pipeline.Sampler Pipeline.Combos Pipeline.CombosProofs.
From Outrank Require Import E2E.Compose E2E.CovProofs E2E.MedianRep E2E.RowsProofs E2E.ComposeProofs E2E.FileProofs E2E.ShuffleProofs.
Import ListNotations.
Local Open Scope nat_scope.

Notation str := (list N) (only parsing).

Definition npos (D : N) : positive := match D with Npos p => p | N0 => 1%positive end.

(* the score of one batch for one ordered pair of columns is the exact coverage of the two columns of CELLS of that
   batch (C05_maxcov_exact, C05_codes_inj), whatever common denominator it is scaled to *)
Theorem batch_score_exact header D rows a b :
  rows <> [] -> (N.of_nat (length rows) | D)%N -> D <> 0%N ->
  Qeq (Z.of_N (pair_num header D rows a b) # npos D) (cells_cov (column header rows a) (column header rows b)) /\
  is_max_cov (column header rows a) (column header rows b) (cells_cov (column header rows a) (column header rows b)).
Proof.
  intros Hne Hd HD. unfold pair_num. apply cov_num_cells.
  - rewrite !column_length. reflexivity.
  - intros E. apply Hne. apply length_zero_iff_nil. rewrite <- (column_length header rows a), E. reflexivity.
  - rewrite column_length. exact Hd.
  - exact HD.
Qed.

(* a batch's score depends on that batch's rows only: it is the same rational under any two admissible scalings
   (so it does not depend on the other batches, which only enter through the common denominator) *)
Theorem batch_split_scores header rows a b D1 D2 :
  rows <> [] -> (N.of_nat (length rows) | D1)%N -> D1 <> 0%N -> (N.of_nat (length rows) | D2)%N -> D2 <> 0%N ->
  Qeq (Z.of_N (pair_num header D1 rows a b) # npos D1) (Z.of_N (pair_num header D2 rows a b) # npos D2).
Proof.
  intros Hne H1 H1' H2 H2'.
  destruct (batch_score_exact header D1 rows a b Hne H1 H1') as [E1 _].
  destruct (batch_score_exact header D2 rows a b Hne H2 H2') as [E2 _].
  rewrite E1, E2. reflexivity.
Qed.

Lemma requested_sym c header a b : requested c header a b -> requested c header b a.
Proof. unfold requested. tauto. Qed.

Lemma batch_tables_facts c header ps t : e2e_core c header ps = Some t ->
  let D := common_den (e2e_batches c header ps) in
  batch_tables c header ps <> [] /\ D <> 0%N /\
  Forall (fun rows => rows <> [] /\ (N.of_nat (length rows) | D)%N) (batch_tables c header ps).
Proof.
  intros Hrun D. destruct (main_facts c header ps t Hrun) as (_ & _ & _ & _ & _ & Hne & HD & Hb).
  split; [|split; [exact HD|]].
  - unfold batch_tables. intros E. apply map_eq_nil in E. contradiction.
  - unfold batch_tables. apply Forall_map. apply Forall_forall. intros b Hin. destruct (Hb b Hin) as [H1 H2].
    unfold batch_rows. rewrite map_length. split; [|exact H2]. intros E. apply map_eq_nil in E. contradiction.
Qed.

(* ---------------------------------------------------------------------------------------------------------- *)
(* THE end-to-end statement for max-value-coverage *)
Theorem e2e_spec c header ps t :
  e2e_core c header ps = Some t -> Combos.is_const (g_heur c) = false ->
  let tables := batch_tables c header ps in
  let D := common_den (e2e_batches c header ps) in
  tables <> [] /\ D <> 0%N /\ Forall (fun rows => rows <> [] /\ (N.of_nat (length rows) | D)%N) tables /\
  StronglySorted (fun r1 r2 : str * str * Q => Qle (snd r1) (snd r2)) t /\
  NoDup (map fst t) /\
  (forall a b q, In (a, b, q) t <->
     requested c header a b /\
     q = Qmake (median2 (map (fun rows => Z.of_N (pair_num header D rows a b)) tables)) (den_pos D)) /\
  (forall a b, requested c header a b -> requested c header b a) /\
  (forall rows a b, In rows tables ->
     Qeq (Z.of_N (pair_num header D rows a b) # npos D) (cells_cov (column header rows a) (column header rows b)) /\
     is_max_cov (column header rows a) (column header rows b) (cells_cov (column header rows a) (column header rows b))).
Proof.
  intros Hrun Hcov tables D. destruct (batch_tables_facts c header ps t Hrun) as (H1 & H2 & H3).
  split; [exact H1|]. split; [exact H2|]. split; [exact H3|].
  split; [apply (main_sorted c header ps t Hrun)|]. split; [apply (main_nodup c header ps t Hrun)|].
  split; [intros a b q; apply (main_cov_rows c header ps t Hrun Hcov)|].
  split; [intros a b; apply requested_sym|].
  intros rows a b Hin. fold tables in H3. rewrite Forall_forall in H3. destruct (H3 rows Hin) as [Hr Hd].
  apply batch_score_exact; assumption.
Qed.

(* ... and for Constant: exactly the candidate pairs of C06, each once, score 0 *)
Theorem e2e_spec_constant c header ps t :
  e2e_core c header ps = Some t -> Combos.is_const (g_heur c) = true ->
  batch_tables c header ps <> [] /\
  NoDup (map fst t) /\
  (forall a b q, In (a, b, q) t <-> In (a, b) (cands_of c header) /\ q = Qmake 0 (den_pos (common_den (e2e_batches c header ps)))) /\
  (forall a b, CombosProofs.uin (a, b) (cands_of c header) <-> requested c header a b).
Proof.
  intros Hrun Hc. destruct (batch_tables_facts c header ps t Hrun) as (H1 & _ & _).
  destruct (main_facts c header ps t Hrun) as (_ & Hs & _).
  split; [exact H1|]. split; [apply (main_nodup c header ps t Hrun)|].
  split; [intros a b q; apply (main_const_rows c header ps t Hrun Hc)|].
  intros a b. apply requested_uin. exact Hs.
Qed.

(* which pairs are requested: the two modes *)
Theorem requested_pairs c header a b :
  (Combos.is_tonly (g_tro c) = true -> (requested c header a b <-> In a header /\ In b header /\ (a = g_label c \/ b = g_label c))) /\
  (Combos.is_tonly (g_tro c) = false -> (requested c header a b <-> In a header /\ In b header)).
Proof.
  unfold requested. split; intros H; rewrite H; [tauto|]. split; [tauto|]. intros [? ?]. repeat split; auto. discriminate.
Qed.

(* the batches (C08_batches) and the rows in them (C16 validity test) *)
Theorem e2e_batches_rows c header ps : (0 < g_B c)%N ->
  e2e_batches c header ps =
    (let g := good_lines c header ps in let B := N.to_nat (g_B c) in
     fst (Stream.chunks B g) ++ (if Stream.tail_min <? length (snd (Stream.chunks B g)) then [snd (Stream.chunks B g)] else [])) /\
  (crashes c ps = false -> forall b l, In b (e2e_batches c header ps) -> In l b ->
     N.modulo (fst l) (g_s c) = 0%N /\ (1 <= fst l)%N /\
     exists fs, nth (N.to_nat (N.pred (fst l))) ps None = Some fs /\ length fs = length header /\ row_at ps (fst l) = fs).
Proof.
  intros HB. split; [apply e2e_batches_spec; exact HB|]. intros Hc b l Hb Hl. apply (batch_line_spec c header ps b l HB Hc Hb Hl).
Qed.

(* the text layer *)
Theorem text_run c text :
  e2e_run c text = e2e_core c (Accept.csv_raw_header text) (map Csv.parse (tl (phys_lines text))) /\
  (Forall (fun ln => (N.of_nat (length ln) <= Csv.field_limit)%N) (tl (phys_lines text)) ->
   crashes c (map Csv.parse (tl (phys_lines text))) = false).
Proof. split; [reflexivity|apply (no_csv_error c text)]. Qed.

(* two runs, each with its own sampler states and shuffles, give the same table *)
Theorem deterministic c header ps (st1 st2 : list Sampler.al) (evl1 evl2 : list (list Combos.pair)) :
  (Z.of_nat (length (cands_of c header)) <= g_cap c)%Z ->
  length evl1 = length (e2e_batches c header ps) -> length evl2 = length (e2e_batches c header ps) ->
  Forall2 (fun s ev => Permutation ev (fst (Combos.select s (cands_of c header) (g_cap c)))) st1 evl1 ->
  Forall2 (fun s ev => Permutation ev (fst (Combos.select s (cands_of c header) (g_cap c)))) st2 evl2 ->
  final_table (all_rows_ev c header ps evl1) = final_table (all_rows_ev c header ps evl2).
Proof.
  intros Hcap L1 L2 F1 F2.
  rewrite (sampler_shuffle_independent c header ps st1 evl1 Hcap L1 F1).
  rewrite (sampler_shuffle_independent c header ps st2 evl2 Hcap L2 F2). reflexivity.
Qed.

Import Coq.Strings.String.
Lemma h_maxcov_text : h_maxcov = s_of "max-value-coverage"%string.
Proof. reflexivity. Qed.
