(* E2E — the whole ranking task (`--task ranking --data_source csv-raw`) for the exact heuristic
   `max-value-coverage` and for `Constant`, as ONE executable function obtained by COMPOSING the layer models
   (nothing below re-transcribes a layer; every layer is imported read-only):

     file text (list N of code points)
       -> physical lines                       IO.Str.phys_lines                          (C16)
       -> header names                         IO.Accept.csv_raw_header                   (C16)
       -> parsed rows                          IO.Csv.parse  (csv.reader, default dialect) (C16)
       -> every s-th line (1-based), field-count test, mini-batches of B, tail rule
                                               Pipeline.Stream.batches                    (C08)
       -> per batch: columns -> category codes Pipeline.RankGraph.codes                   (C05)
                     candidate pairs           Pipeline.Combos.candidates                 (C06)
                     (cap not binding: the model answers None when cap < #candidates)     (C07 via C06)
                     orientation + score       Pipeline.RankGraph.eval_pair, orient       (C05)
                     mirrored rows / Constant  Pipeline.Combos.build_rows                 (C06)
       -> per ordered pair the median          Pipeline.Aggregate.aggregate (median2)     (C08)
       -> ascending by score                   Pipeline.Aggregate.final_sort              (C08)

   Scores: max_{(u,v)} n_uv / n is a rational.  Inside the model every batch score is the natural number
   n_uv_max * (D / n) with D the least common multiple of the batch sizes (so D / n is exact), which is what
   Aggregate's integer [median2] (twice the median) works on; the emitted score is  median2 # (2 * D) : Q.

   No proofs in this file (see ComposeProofs.v): the model must still evaluate when a proof breaks. *)
From Coq Require Import List NArith ZArith QArith Bool Arith.
From Outrank Require IO.Str IO.Csv IO.Accept Common.Median Pipeline.Stream Pipeline.Aggregate
  Pipeline.RankGraph Pipeline.Sampler Pipeline.Combos.
Import ListNotations.

Notation str := (list N) (only parsing).

(* ---------------------------------------------------------------------------------------------------------- *)
(* configuration = the command-line arguments that matter *)

Record config := mkconfig {
  g_B : N;          (* --minibatch_size *)
  g_s : N;          (* --subsampling *)
  g_label : str;    (* --label_column *)
  g_tro : str;      (* --target_ranking_only ('True' = label pairs only; anything else = all pairs) *)
  g_heur : str;     (* --heuristic: 'max-value-coverage' or 'Constant' *)
  g_cap : Z         (* --combination_number_upper_bound *)
}.

(* 'max-value-coverage' (ComposeProofs.h_maxcov_text: = RankGraph.s_of "max-value-coverage") *)
Definition h_maxcov : str := [109; 97; 120; 45; 118; 97; 108; 117; 101; 45; 99; 111; 118; 101; 114; 97; 103; 101]%N.
Definition h_constant : str := Combos.s_Constant.
Definition supported_heur (h : str) : bool := Combos.str_eqb h h_maxcov || Combos.is_const h.

(* the emitted table: FeatureA, FeatureB, Score *)
Definition table := list (str * str * Q).

(* ---------------------------------------------------------------------------------------------------------- *)
(* layer 1 (C16): text -> header, parsed data lines *)

Definition header_of (text : str) : list str := Accept.csv_raw_header text.
Definition data_lines (text : str) : list str := tl (Str.phys_lines text).
(* None = csv.Error *)
Definition parse_lines (text : str) : list (option (list str)) := map Csv.parse (data_lines text).

Definition nfields (o : option (list str)) : nat := match o with Some fs => length fs | None => 0 end.
Definition is_none {A} (o : option A) : bool := match o with None => true | Some _ => false end.

(* ---------------------------------------------------------------------------------------------------------- *)
(* layer 2 (C08): the streaming loop's view: (1-based position, field count) *)

Definition abs_lines (ps : list (option (list str))) : list Stream.line := Stream.number_from 1 (map nfields ps).

Definition stream_cfg (c : config) (header : list str) : Stream.cfg :=
  Stream.mkcfg (N.to_nat (g_B c)) (g_s c) (length header) Stream.tail_min.

(* the batches the loop hands to compute_batch_ranking (they do not depend on the scorer: C08_batches) *)
Definition e2e_batches (c : config) (header : list str) (ps : list (option (list str))) : list (list Stream.line) :=
  Stream.batches (fun _ : list Stream.line => @nil unit) (fun _ : list unit => tt) (stream_cfg c header) (abs_lines ps).

(* the parsed row at a 1-based position *)
Definition row_at (ps : list (option (list str))) (id : N) : list str :=
  match nth (N.to_nat (N.pred id)) ps None with Some fs => fs | None => [] end.
Definition batch_rows (ps : list (option (list str))) (b : list Stream.line) : list (list str) :=
  map (fun l => row_at ps (fst l)) b.

(* a selected line on which csv.reader raises makes the whole task raise *)
Definition crashes (c : config) (ps : list (option (list str))) : bool :=
  existsb (fun l => is_none (nth (N.to_nat (N.pred (fst l))) ps None)) (Stream.selected (g_s c) 0 (abs_lines ps)).

(* ---------------------------------------------------------------------------------------------------------- *)
(* layer 3 (C05): one batch as a frame; max joint-value frequency *)

Fixpoint frame_from (j : nat) (header : list str) (rows : list (list str)) : RankGraph.frame :=
  match header with
  | [] => []
  | name :: t => (name, map (fun r => nth j r []) rows) :: frame_from (S j) t rows
  end.
Definition frame_of (header : list str) (rows : list (list str)) : RankGraph.frame := frame_from 0 header rows.

(* RankGraph.maxfreq is quadratic in the number of rows; the same maximum taken over the DISTINCT joint values
   (linear in rows x distinct values).  ComposeProofs.maxfreq_fast_eq : maxfreq_fast = RankGraph.maxfreq peqb *)
Fixpoint distinct_acc (seen : list (N * N)) (l : list (N * N)) : list (N * N) :=
  match l with
  | [] => seen
  | x :: r => if existsb (RankGraph.peqb x) seen then distinct_acc seen r else distinct_acc (x :: seen) r
  end.
Definition maxfreq_fast (l : list (N * N)) : N :=
  fold_right (fun x m => N.max (RankGraph.cnt RankGraph.peqb x l) m) 0%N (distinct_acc [] l).

(* the batch score scaled to the common denominator D:  n_uv_max * (D / n)   (= D * maxcov a b) *)
Definition cov_num (D : N) (a b : list N) : N :=
  (maxfreq_fast (combine a b) * (D / N.of_nat (length a)))%N.

(* ---------------------------------------------------------------------------------------------------------- *)
(* layers 3+4 (C05, C06): the rows mixed_rank_graph returns for one batch *)

Definition batch_triplets (c : config) (header : list str) (D : N) (rows : list (list str)) : list Combos.row :=
  let cands := Combos.candidates header (g_heur c) (g_tro c) (g_label c) in
  let f := frame_of header rows in
  let scores := if Combos.is_const (g_heur c) then []
                else map (RankGraph.eval_pair (cov_num D) f (g_label c)) cands in
  Combos.build_rows (g_heur c) cands scores.

(* names -> column positions (Aggregate's keys), scores -> Z *)
Definition to_agg (header : list str) (r : Combos.row) : Aggregate.row :=
  ((Combos.sidx header (fst (fst r)), Combos.sidx header (snd (fst r))), Z.of_N (snd r)).

(* ---------------------------------------------------------------------------------------------------------- *)
(* layer 5 (C08): all rows, median per ordered pair, ascending *)

Definition common_den (bs : list (list Stream.line)) : N :=
  fold_right N.lcm 1%N (map (fun b => N.of_nat (length b)) bs).

Definition all_rows (c : config) (header : list str) (ps : list (option (list str))) : list Aggregate.row :=
  let bs := e2e_batches c header ps in
  let D := common_den bs in
  flat_map (fun b => map (to_agg header) (batch_triplets c header D (batch_rows ps b))) bs.

Definition den_pos (D : N) : positive := match (2 * D)%N with Npos p => p | N0 => 1%positive end.

Definition emit (header : list str) (D : N) (r : Aggregate.row) : str * str * Q :=
  (nth (N.to_nat (fst (fst r))) header [], nth (N.to_nat (snd (fst r))) header [], Qmake (snd r) (den_pos D)).

(* which configurations / headers are inside the modelled fragment *)
Definition config_ok (c : config) (header : list str) : bool :=
  (0 <? g_B c)%N && (0 <? g_s c)%N && supported_heur (g_heur c)
  && Combos.nodup_strb header && Combos.memb (g_label c) header
  && (Z.of_nat (length (Combos.candidates header (g_heur c) (g_tro c) (g_label c))) <=? g_cap c)%Z.

(* the task on (header, parsed data lines).  None = outside the fragment, the task raises (csv.Error), or no
   batch is processed (the task then exits without writing pairwise_ranks.tsv) *)
Definition e2e_core (c : config) (header : list str) (ps : list (option (list str))) : option table :=
  if negb (config_ok c header) then None
  else if crashes c ps then None
  else
    let bs := e2e_batches c header ps in
    match bs with
    | [] => None
    | _ => Some (map (emit header (common_den bs)) (Aggregate.final_table (all_rows c header ps)))
    end.

Definition e2e_run (c : config) (text : str) : option table :=
  e2e_core c (header_of text) (parse_lines text).

(* ---------------------------------------------------------------------------------------------------------- *)
(* the writer side, for statements over tables instead of texts: header line + QUOTE_MINIMAL records *)

Definition render_file (names : list str) (rows : list (list str)) : str :=
  Str.join_with [Str.COMMA] names ++ Str.LF :: concat (map (fun r => Csv.render r ++ [Str.LF]) rows).

(* ---------------------------------------------------------------------------------------------------------- *)
(* what the harness prints *)

(* (FeatureA, FeatureB, numerator, denominator) *)
Definition enc_table (t : table) : list (str * str * Z * Z) :=
  map (fun r => (fst (fst r), snd (fst r), Qnum (snd r), Zpos (Qden (snd r)))) t.

(* why the model answers None:  1 configuration / header outside the fragment, 2 csv.Error, 3 no batch *)
Definition e2e_status (c : config) (text : str) : N :=
  let header := header_of text in let ps := parse_lines text in
  if negb (config_ok c header) then 1%N
  else if crashes c ps then 2%N
  else match e2e_batches c header ps with [] => 3%N | _ => 0%N end.

(* intermediate observables, to name the layer that disagrees when the final tables differ:
   header, number of data lines, ids of the rows of every batch, invalid-line count *)
Definition e2e_layers (c : config) (text : str) :=
  let header := header_of text in let ps := parse_lines text in
  (header, length ps, map (map fst) (e2e_batches c header ps),
   Stream.invalid_count (fun _ : list Stream.line => @nil unit) (fun _ : list unit => tt) (stream_cfg c header) (abs_lines ps)).

(* everything between the text and the table, for the failing case only: header, common denominator, per batch the parsed
   rows and the triplets (FeatureA, FeatureB, numerator over D), invalid-line count, all parsed data lines *)
Definition e2e_detail (c : config) (text : str) :=
  let header := header_of text in let ps := parse_lines text in
  let bs := e2e_batches c header ps in let D := common_den bs in
  (header, Z.of_N D,
   map (fun b => (batch_rows ps b,
                  map (fun r : Combos.row => (fst (fst r), snd (fst r), Z.of_N (snd r)))
                      (batch_triplets c header D (batch_rows ps b)))) bs,
   Stream.invalid_count (fun _ : list Stream.line => @nil unit) (fun _ : list unit => tt) (stream_cfg c header) (abs_lines ps),
   ps).

Definition e2e_eval (c : config) (text : str) :=
  (e2e_status c text, match e2e_run c text with Some t => enc_table t | None => [] end).
