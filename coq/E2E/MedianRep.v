(* E2E — the median is not changed when every score is recorded the same number of times.
   (The mirror row of a self pair (c, c) carries the same ordered pair, so its score enters the aggregation twice per
   batch; every other ordered pair once.  Since /repo b3d9d15 the candidate list holds every pair once; the lemma is
   stated for any multiplicity m > 0, so the composition does not depend on that.) *)
From Coq Require Import List ZArith Arith Bool Lia Permutation Sorting.Sorted.
From Outrank Require Import Common.Median Pipeline.Aggregate Pipeline.AggregateProofs.
Import ListNotations.
Local Open Scope nat_scope.

Definition replicate (m : nat) (l : list Z) : list Z := flat_map (fun z => repeat z m) l.

Lemma replicate_length m l : length (replicate m l) = m * length l.
Proof.
  unfold replicate. induction l as [|x l IH]; cbn [flat_map length]; [lia|].
  rewrite app_length, repeat_length, IH. lia.
Qed.

Lemma nth_repeat_lt (x d : Z) m i : i < m -> nth i (repeat x m) d = x.
Proof. revert i. induction m as [|m IH]; intros i H; [lia|]. destruct i; cbn; [reflexivity|apply IH; lia]. Qed.

Lemma nth_replicate m l d : 0 < m -> forall i, nth i (replicate m l) d = nth (i / m) l d.
Proof.
  intros Hm. unfold replicate. induction l as [|x l IH]; intros i.
  - cbn. destruct i; destruct (_ / m); reflexivity.
  - cbn [flat_map]. destruct (Nat.lt_ge_cases i m) as [Hi|Hi].
    + rewrite app_nth1 by (rewrite repeat_length; exact Hi). rewrite nth_repeat_lt by exact Hi.
      rewrite Nat.div_small by exact Hi. reflexivity.
    + rewrite app_nth2 by (rewrite repeat_length; exact Hi). rewrite repeat_length, IH.
      assert (E : i / m = S ((i - m) / m)).
      { replace i with ((i - m) + 1 * m) at 1 by lia. rewrite Nat.div_add by lia. lia. }
      rewrite E. reflexivity.
Qed.

Lemma Forall_repeat {A} (P : A -> Prop) x m : P x -> Forall P (repeat x m).
Proof. intros H. induction m; cbn; constructor; auto. Qed.

Lemma sorted_repeat_app x m l : StronglySorted Z.le l -> Forall (fun y => (x <= y)%Z) l -> StronglySorted Z.le (repeat x m ++ l).
Proof.
  intros Hs Hf. induction m as [|m IH]; cbn [repeat app]; [exact Hs|]. constructor; [exact IH|].
  apply Forall_app. split; [apply Forall_repeat; lia|exact Hf].
Qed.

Lemma replicate_sorted m l : StronglySorted Z.le l -> StronglySorted Z.le (replicate m l).
Proof.
  unfold replicate. induction l as [|x l IH]; intros H; [constructor|]. inversion H as [|? ? Hs Hf]; subst.
  cbn [flat_map]. apply sorted_repeat_app; [apply IH; exact Hs|].
  apply Forall_forall. intros y Hy. apply in_flat_map in Hy. destruct Hy as [z [Hz Hy]].
  apply repeat_spec in Hy. subst y. rewrite Forall_forall in Hf. apply Hf. exact Hz.
Qed.

Lemma replicate_perm m l l' : Permutation l l' -> Permutation (replicate m l) (replicate m l').
Proof. apply Permutation_flat_map. Qed.

Lemma div_between a m h : 0 < m -> m * h <= a -> a < m * (h + 1) -> a / m = h.
Proof.
  intros Hm H1 H2. symmetry. apply (Nat.div_unique a m h (a - m * h)); lia.
Qed.

Theorem median2_replicate m l : 0 < m -> median2 (replicate m l) = median2 l.
Proof.
  intros Hm.
  rewrite (median2_sorted (replicate m l) (replicate m (sort l)))
    by (first [apply replicate_perm, sort_perm | apply replicate_sorted, sort_sorted]).
  rewrite (median2_sorted l (sort l)) by (first [apply sort_perm | apply sort_sorted]).
  cbv zeta. rewrite replicate_length. set (s := sort l). set (n := length s).
  rewrite !(nth_replicate m s 0%Z Hm).
  destruct (Nat.Even_or_Odd n) as [[h Hh]|[h Hh]].
  - (* n = 2h *)
    assert (En : Nat.even n = true) by (apply Nat.even_spec; exists h; exact Hh).
    assert (Emn : Nat.even (m * n) = true) by (rewrite Nat.even_mul, En; apply orb_true_r).
    rewrite En, Emn.
    destruct (Nat.eq_dec h 0) as [->|Hh0].
    + assert (n = 0) by lia. assert (s = []) by (apply length_zero_iff_nil; assumption).
      rewrite H0. assert (Hnil : forall i, nth i (@nil Z) 0%Z = 0%Z) by (intros [|i]; reflexivity).
      rewrite !Hnil. reflexivity.
    + assert (E1 : n / 2 = h) by (rewrite Hh; rewrite Nat.mul_comm; apply Nat.div_mul; lia).
      assert (E2 : m * n / 2 = m * h).
      { replace (m * n) with ((m * h) * 2) by lia. apply Nat.div_mul; lia. }
      rewrite E1, E2.
      rewrite (div_between (m * h - 1) m (h - 1)) by nia.
      rewrite (div_between (m * h) m h) by nia. reflexivity.
  - (* n = 2h + 1 *)
    assert (En : Nat.even n = false).
    { rewrite <- Nat.negb_odd. replace (Nat.odd n) with true; [reflexivity|]. symmetry. apply Nat.odd_spec. exists h. exact Hh. }
    assert (E1 : n / 2 = h).
    { rewrite Hh. apply div_between; lia. }
    rewrite En, E1.
    destruct (Nat.Even_or_Odd m) as [[g Hg]|[g Hg]].
    + assert (Emn : Nat.even (m * n) = true).
      { rewrite Nat.even_mul. replace (Nat.even m) with true; [reflexivity|]. symmetry. apply Nat.even_spec. exists g. exact Hg. }
      rewrite Emn.
      assert (E2 : m * n / 2 = m * h + g).
      { replace (m * n) with ((m * h + g) * 2) by nia. apply Nat.div_mul; lia. }
      rewrite E2.
      rewrite (div_between (m * h + g - 1) m h) by nia.
      rewrite (div_between (m * h + g) m h) by nia. ring.
    + assert (Emn : Nat.even (m * n) = false).
      { rewrite Nat.even_mul, En. rewrite <- Nat.negb_odd.
        replace (Nat.odd m) with true; [reflexivity|]. symmetry. apply Nat.odd_spec. exists g. exact Hg. }
      rewrite Emn.
      assert (E2 : m * n / 2 = m * h + g).
      { apply div_between; nia. }
      rewrite E2. rewrite (div_between (m * h + g) m h) by nia. reflexivity.
Qed.

(* all scores zero (Constant) *)
Lemma median2_zeros l : Forall (fun z => z = 0%Z) l -> median2 l = 0%Z.
Proof.
  intros H. unfold median2.
  assert (Hs : Forall (fun z => z = 0%Z) (sort l)) by (eapply Permutation_Forall; [symmetry; apply sort_perm|exact H]).
  assert (Hn : forall i, nth i (sort l) 0%Z = 0%Z).
  { intros i. destruct (Nat.lt_ge_cases i (length (sort l))) as [Hi|Hi].
    - rewrite Forall_forall in Hs. apply Hs. apply nth_In. exact Hi.
    - apply nth_overflow. exact Hi. }
  cbv zeta. destruct (Nat.even _); rewrite !Hn; reflexivity.
Qed.
