(* E2E — the two sources of freedom inside mixed_rank_graph do not reach the table:
   the capped sampler (C07, through C06's selected_ok) selects every candidate when the cap is not binding, whatever
   its counter holds; random.shuffle only permutes the evaluated list, and the aggregation is permutation invariant
   (C09's aggregate_perm). *)
From Coq Require Import List NArith ZArith QArith Bool Arith Lia Permutation.
From Outrank Require Import Pipeline.Aggregate Pipeline.AggregateProofs.
From Outrank Require Import Pipeline.RankGraph.
From Outrank Require Pipeline.Stream Pipeline.Sampler Pipeline.Combos Pipeline.CombosProofs.
From Outrank Require Import E2E.Compose E2E.RowsProofs E2E.ComposeProofs.
Import ListNotations.
Local Open Scope nat_scope.

(* any selection the sampler relation allows is the whole candidate list, up to order, when cap >= #candidates *)
Theorem cap_nonbinding_sel cands cap sel : (Z.of_nat (length cands) <= cap)%Z ->
  CombosProofs.selected_ok cands cap sel -> Permutation sel cands.
Proof.
  intros Hcap [Hlen [rest Hp]].
  assert (Hs : Sampler.slice_len (length cands) cap = length cands).
  { unfold Sampler.slice_len. destruct (Z.ltb_spec cap 0); [lia|]. lia. }
  rewrite Hs in Hlen. pose proof (Permutation_length Hp) as Hl. rewrite app_length in Hl.
  assert (rest = []) by (apply length_zero_iff_nil; lia). subst rest. rewrite app_nil_r in Hp. exact Hp.
Qed.

(* ... in particular the transcription of prior_combinations_sample, in ANY state of the global counter *)
Corollary cap_nonbinding cands cap (s : Sampler.al) : (Z.of_nat (length cands) <= cap)%Z ->
  Permutation (fst (Combos.select s cands cap)) cands.
Proof. intros H. apply (cap_nonbinding_sel cands cap _ H). apply CombosProofs.select_ok. Qed.

(* the rows of one batch when the evaluated list (after sampling and shuffling) is [ev] *)
Definition batch_triplets_ev (c : config) (header : list (list N)) (D : N) (rows : list (list (list N)))
           (ev : list Combos.pair) : list Combos.row :=
  let f := frame_of header rows in
  let scores := if Combos.is_const (g_heur c) then []
                else map (eval_pair (cov_num D) f (g_label c)) ev in
  Combos.build_rows (g_heur c) ev scores.

Lemma batch_triplets_is_ev c header D rows :
  batch_triplets c header D rows = batch_triplets_ev c header D rows (cands_of c header).
Proof. reflexivity. Qed.

Lemma batch_triplets_ev_perm c header D rows ev ev' : Permutation ev ev' ->
  Permutation (batch_triplets_ev c header D rows ev) (batch_triplets_ev c header D rows ev').
Proof.
  intros H. unfold batch_triplets_ev, Combos.build_rows. destruct (Combos.is_const (g_heur c)).
  - unfold Combos.constant_rows. apply Permutation_map. exact H.
  - rewrite !triplets_map, !mirror_map. apply Permutation_flat_map. exact H.
Qed.

(* all rows of the run when batch k evaluates the list [nth k evl] *)
Definition all_rows_ev (c : config) (header : list (list N)) (ps : list (option (list (list N))))
           (evl : list (list Combos.pair)) : list Aggregate.row :=
  let bs := e2e_batches c header ps in
  let D := common_den bs in
  flat_map (fun be => map (to_agg header) (batch_triplets_ev c header D (batch_rows ps (fst be)) (snd be))) (combine bs evl).

Lemma flat_map_combine_perm {A B C} (F : A * B -> list C) (G : A -> list C) (P : B -> Prop) :
  (forall a b, P b -> Permutation (F (a, b)) (G a)) ->
  forall la lb, length lb = length la -> Forall P lb -> Permutation (flat_map F (combine la lb)) (flat_map G la).
Proof.
  intros H. induction la as [|a la IH]; intros [|b lb] Hl Hf; try discriminate; [constructor|].
  inversion Hf; subst. cbn [combine flat_map]. apply Permutation_app; [apply H; assumption|].
  apply IH; [cbn in Hl; lia|assumption].
Qed.

Theorem shuffle_independent c header ps evl :
  length evl = length (e2e_batches c header ps) ->
  Forall (fun ev => Permutation ev (cands_of c header)) evl ->
  final_table (all_rows_ev c header ps evl) = final_table (all_rows c header ps).
Proof.
  intros Hl Hf. apply final_table_perm. unfold all_rows_ev, all_rows.
  apply (flat_map_combine_perm _ _ (fun ev => Permutation ev (cands_of c header))); [|exact Hl|exact Hf].
  intros b ev Hp. cbn [fst snd]. apply Permutation_map. rewrite batch_triplets_is_ev.
  apply batch_triplets_ev_perm. exact Hp.
Qed.

(* the table of the run, for any sequence of sampler states and any shuffles *)
Theorem sampler_shuffle_independent c header ps (states : list Sampler.al) (evl : list (list Combos.pair)) :
  (Z.of_nat (length (cands_of c header)) <= g_cap c)%Z ->
  length evl = length (e2e_batches c header ps) ->
  Forall2 (fun s ev => Permutation ev (fst (Combos.select s (cands_of c header) (g_cap c)))) states evl ->
  final_table (all_rows_ev c header ps evl) = final_table (all_rows c header ps).
Proof.
  intros Hcap Hl HF. apply shuffle_independent; [exact Hl|]. clear Hl.
  induction HF as [|s ev ss evs Hp _ IH]; [constructor|]. constructor; [|exact IH].
  eapply Permutation_trans; [exact Hp|]. apply cap_nonbinding. exact Hcap.
Qed.
