(* E2E — lemmas about the composed model of E2E/Compose.v.  Every layer fact is imported from the layer's own
   proofs file (IO/*Proofs.v, Pipeline/StreamProofs.v, C08ModelProofs.v, AggregateProofs.v, RankGraphProofs.v,
   CombosProofs.v); what is proved here is the glue. *)
From Coq Require Import List NArith ZArith QArith Bool Arith Lia Permutation Sorting.Sorted.
From Outrank Require Import IO.Str IO.StrProofs.
From Outrank Require IO.Csv IO.CsvProofs IO.Accept IO.AcceptProofs.
From Outrank Require Import Common.Median.
From Outrank Require Pipeline.Stream Pipeline.StreamProofs Pipeline.C08ModelProofs.
From Outrank Require Import Pipeline.Aggregate Pipeline.AggregateProofs.
From Outrank Require Import Pipeline.RankGraph Pipeline.RankGraphProofs.
From Outrank Require Pipeline.Sampler Pipeline.Combos Pipeline.CombosProofs.
From Outrank Require Import E2E.Compose.
Import ListNotations.

(* ========================================================================================================== *)
(* A. the fast maximum = RankGraph.maxfreq *)

Lemma distinct_acc_in x : forall l seen, In x (distinct_acc seen l) <-> In x seen \/ In x l.
Proof.
  induction l as [|y l IH]; intros seen; cbn [distinct_acc].
  - cbn. tauto.
  - destruct (existsb (peqb y) seen) eqn:E.
    + rewrite IH. apply existsb_exists in E. destruct E as [z [Hz E]]. apply peqb_spec in E. subst z.
      cbn. split; [tauto|]. intros [H|[H|H]]; auto. subst. auto.
    + rewrite IH. cbn. tauto.
Qed.

Theorem maxfreq_fast_eq l : maxfreq_fast l = maxfreq peqb l.
Proof.
  unfold maxfreq_fast, maxfreq.
  destruct l as [|p l]; [reflexivity|].
  set (L := p :: l).
  assert (HL : L <> []) by discriminate.
  assert (HD : distinct_acc [] L <> []).
  { intros E. assert (H : In p (distinct_acc [] L)) by (apply distinct_acc_in; right; left; reflexivity).
    rewrite E in H. exact H. }
  apply N.le_antisymm.
  - destruct (fold_max_attained peqb L (distinct_acc [] L) HD) as [x [Hx ->]].
    apply (fold_max_ge peqb L L). apply distinct_acc_in in Hx. destruct Hx as [[]|Hx]. exact Hx.
  - destruct (fold_max_attained peqb L L HL) as [x [Hx ->]].
    apply (fold_max_ge peqb L (distinct_acc [] L)). apply distinct_acc_in. right. exact Hx.
Qed.

(* ========================================================================================================== *)
(* B. the scaled score is the rational of C05:  cov_num D a b # D == maxcov a b *)

Lemma cov_num_maxcov D (a b : list N) :
  a <> [] -> (N.of_nat (length a) | D)%N -> D <> 0%N ->
  Qeq (Z.of_N (cov_num D a b) # (match D with Npos p => p | N0 => 1 end)) (maxcov a b).
Proof.
  intros Ha [k Hk] HD. unfold cov_num, maxcov, frac. rewrite maxfreq_fast_eq.
  set (m := maxfreq peqb (combine a b)).
  assert (Hn : length a <> 0%nat) by (destruct a; [congruence|discriminate]).
  assert (Hn' : N.of_nat (length a) <> 0%N) by lia.
  assert (Hdiv : (D / N.of_nat (length a) = k)%N) by (rewrite Hk; apply N.div_mul; exact Hn').
  rewrite Hdiv. destruct D as [|p]; [congruence|].
  unfold Qeq. cbn [Qnum Qden]. rewrite Zpos_of_nat by exact Hn.
  assert (E : Z.pos p = (Z.of_N k * Z.of_nat (length a))%Z).
  { change (Z.pos p) with (Z.of_N (N.pos p)). rewrite Hk. rewrite N2Z.inj_mul, nat_N_Z. reflexivity. }
  rewrite E, N2Z.inj_mul. ring.
Qed.

(* ========================================================================================================== *)
(* C. the coverage stated on the CELLS (strings), not on codes *)

(* number of rows whose two cells are (u, v) *)
Fixpoint jointS (xs ys : list (list N)) (u v : list N) : N :=
  match xs, ys with
  | x :: xs', y :: ys' => ((if seqb x u && seqb y v then 1 else 0) + jointS xs' ys' u v)%N
  | _, _ => 0%N
  end.

(* q is the largest relative frequency of a joint value of the two columns *)
Definition is_max_cov (xs ys : list (list N)) (q : Q) : Prop :=
  (exists u v, In (u, v) (combine xs ys) /\ Qeq q (frac (jointS xs ys u v) (length xs))) /\
  (forall u v, Qle (frac (jointS xs ys u v) (length xs)) q).

Lemma jointS_map (f g : list N -> N) xs : forall ys u v,
  (forall x, In x xs -> f x = f u -> x = u) -> (forall y, In y ys -> g y = g v -> y = v) ->
  joint (map f xs) (map g ys) (f u) (g v) = jointS xs ys u v.
Proof.
  induction xs as [|x xs IH]; intros ys u v Hf Hg; [reflexivity|].
  destruct ys as [|y ys]; [reflexivity|]. cbn [map joint jointS].
  rewrite IH; [|intros x' Hx'; apply Hf; right; exact Hx'|intros y' Hy'; apply Hg; right; exact Hy']. f_equal.
  destruct (seqb x u) eqn:Ex.
  - apply seqb_eq in Ex. subst x. rewrite N.eqb_refl. cbn [andb].
    destruct (seqb y v) eqn:Ey.
    + apply seqb_eq in Ey. subst y. rewrite N.eqb_refl. reflexivity.
    + destruct (N.eqb_spec (g y) (g v)) as [E|E]; [|reflexivity].
      apply Hg in E; [|left; reflexivity]. subst. rewrite (proj2 (seqb_eq v v) eq_refl) in Ey. discriminate.
  - destruct (N.eqb_spec (f x) (f u)) as [E|E]; [|reflexivity].
    apply Hf in E; [|left; reflexivity]. subst. rewrite (proj2 (seqb_eq u u) eq_refl) in Ex. discriminate.
Qed.

Lemma jointS_notin_l xs : forall ys u v, ~ In u xs -> jointS xs ys u v = 0%N.
Proof.
  induction xs as [|x xs IH]; intros ys u v H; [reflexivity|]. destruct ys as [|y ys]; [reflexivity|].
  cbn [jointS]. rewrite IH by (intros H'; apply H; right; exact H').
  destruct (seqb x u) eqn:E; [|reflexivity]. apply seqb_eq in E. subst. exfalso. apply H. left. reflexivity.
Qed.
Lemma jointS_notin_r xs : forall ys u v, ~ In v ys -> jointS xs ys u v = 0%N.
Proof.
  induction xs as [|x xs IH]; intros ys u v H; [reflexivity|]. destruct ys as [|y ys]; [reflexivity|].
  cbn [jointS]. rewrite IH by (intros H'; apply H; right; exact H').
  destruct (seqb y v) eqn:E; [|rewrite andb_false_r; reflexivity]. apply seqb_eq in E. subst. exfalso. apply H. left. reflexivity.
Qed.

Lemma in_combine_map {A B C D'} (f : A -> C) (g : B -> D') xs : forall ys c d,
  In (c, d) (combine (map f xs) (map g ys)) -> exists x y, In (x, y) (combine xs ys) /\ c = f x /\ d = g y.
Proof.
  induction xs as [|x xs IH]; intros ys c d H; [destruct H|]. destruct ys as [|y ys]; [destruct H|].
  cbn [map combine] in H. destruct H as [H|H].
  - inversion H; subst. exists x, y. split; [left; reflexivity|auto].
  - destruct (IH ys c d H) as [x' [y' [H1 H2]]]. exists x', y'. split; [right; exact H1|exact H2].
Qed.

Definition code_of (l : list (list N)) (x : list N) : N := N.of_nat (index_of x (cats l)).
Lemma codes_map l : codes l = map (code_of l) l.
Proof. reflexivity. Qed.
Lemma code_of_inj l x y : In x l -> In y l -> code_of l x = code_of l y -> x = y.
Proof.
  intros Hx Hy E. unfold code_of in E. apply Nat2N.inj in E.
  eapply index_of_inj; [apply cats_in; exact Hx|apply cats_in; exact Hy|exact E].
Qed.

Definition str_eq_dec : forall a b : list N, {a = b} + {a <> b} := list_eq_dec N.eq_dec.

(* C05_maxcov_exact + C05_codes_inj, transported to the cells *)
Theorem maxcov_cells xs ys : length xs = length ys -> xs <> [] -> is_max_cov xs ys (maxcov (codes xs) (codes ys)).
Proof.
  intros Hlen Hne.
  assert (Hl : length (codes xs) = length (codes ys)) by (rewrite !codes_length; exact Hlen).
  assert (Hn : codes xs <> []) by (intros E; apply Hne; apply length_zero_iff_nil; rewrite <- codes_length, E; reflexivity).
  destruct (maxcov_exact (codes xs) (codes ys) Hl Hn) as (Hex & Hub & Hlo & _).
  rewrite codes_length in *. split.
  - destruct Hex as [c [d [Hin E]]]. rewrite (codes_map xs), (codes_map ys) in Hin.
    destruct (in_combine_map _ _ _ _ _ _ Hin) as [u [v [Huv [-> ->]]]]. exists u, v. split; [exact Huv|].
    rewrite E. rewrite (codes_map xs) at 1. rewrite (codes_map ys) at 1.
    rewrite jointS_map; [reflexivity| |].
    + intros x Hx. apply code_of_inj; [exact Hx|]. apply in_combine_l in Huv. exact Huv.
    + intros y Hy. apply code_of_inj; [exact Hy|]. apply in_combine_r in Huv. exact Huv.
  - intros u v. destruct (in_dec str_eq_dec u xs) as [Hu|Hu].
    + destruct (in_dec str_eq_dec v ys) as [Hv|Hv].
      * rewrite <- (jointS_map (code_of xs) (code_of ys)).
        -- rewrite <- !codes_map. apply Hub.
        -- intros x Hx. apply code_of_inj; assumption.
        -- intros y Hy. apply code_of_inj; assumption.
      * rewrite jointS_notin_r by exact Hv. eapply Qle_trans; [|exact Hlo]. apply frac_le. lia.
    + rewrite jointS_notin_l by exact Hu. eapply Qle_trans; [|exact Hlo]. apply frac_le. lia.
Qed.

(* ========================================================================================================== *)
(* D. symmetry: which of the two columns is the conditioning side does not matter for the coverage *)

Lemma cnt_map_inj {A B} (eqa : A -> A -> bool) (eqb' : B -> B -> bool) (f : A -> B) :
  (forall x y, eqb' (f x) (f y) = eqa x y) -> forall x l, cnt eqb' (f x) (map f l) = cnt eqa x l.
Proof.
  intros H x l. unfold cnt. f_equal. induction l as [|y l IH]; [reflexivity|].
  cbn [map filter]. rewrite H. destruct (eqa x y); cbn [length]; rewrite IH; reflexivity.
Qed.

Lemma maxfreq_map_inj {A B} (eqa : A -> A -> bool) (eqb' : B -> B -> bool) (f : A -> B) :
  (forall x y, eqb' (f x) (f y) = eqa x y) -> forall l, maxfreq eqb' (map f l) = maxfreq eqa l.
Proof.
  intros H l. unfold maxfreq.
  assert (G : forall l', fold_right (fun x m => N.max (cnt eqb' x (map f l)) m) 0%N (map f l')
                         = fold_right (fun x m => N.max (cnt eqa x l) m) 0%N l').
  { induction l' as [|y l' IH]; [reflexivity|]. cbn [map fold_right]. rewrite IH, (cnt_map_inj eqa eqb' f H). reflexivity. }
  apply G.
Qed.

Definition swapN (p : N * N) : N * N := (snd p, fst p).
Lemma combine_swap (a : list N) : forall b, combine b a = map swapN (combine a b).
Proof.
  induction a as [|x a IH]; intros [|y b]; try reflexivity. cbn [combine map]. rewrite IH. reflexivity.
Qed.

Lemma maxfreq_combine_sym (a b : list N) : maxfreq peqb (combine a b) = maxfreq peqb (combine b a).
Proof.
  rewrite (combine_swap a b). symmetry. apply maxfreq_map_inj.
  intros [x1 x2] [y1 y2]. unfold peqb, swapN. cbn [fst snd]. apply andb_comm.
Qed.

Lemma cov_num_sym D (a b : list N) : length a = length b -> cov_num D a b = cov_num D b a.
Proof. intros H. unfold cov_num. rewrite !maxfreq_fast_eq, maxfreq_combine_sym, H. reflexivity. Qed.

Lemma jointS_sym xs : forall ys u v, jointS xs ys u v = jointS ys xs v u.
Proof.
  induction xs as [|x xs IH]; intros [|y ys] u v; try reflexivity. cbn [jointS]. rewrite IH, andb_comm. reflexivity.
Qed.

Lemma in_combine_sym {A B} (xs : list A) : forall (ys : list B) u v, In (u, v) (combine xs ys) -> In (v, u) (combine ys xs).
Proof.
  induction xs as [|x xs IH]; intros [|y ys] u v H; try (exfalso; exact H).
  cbn [combine] in *. destruct H as [H|H]; [inversion H; left; reflexivity|right; apply IH; exact H].
Qed.

Lemma is_max_cov_sym xs ys q : length xs = length ys -> is_max_cov xs ys q -> is_max_cov ys xs q.
Proof.
  intros Hl [[u [v [Hin E]]] Hub]. split.
  - exists v, u. split; [apply in_combine_sym; exact Hin|]. rewrite <- Hl, <- jointS_sym. exact E.
  - intros v' u'. rewrite <- Hl, <- jointS_sym. apply Hub.
Qed.

(* two rationals that are both "the maximum" are equal: the spec determines the score *)
Lemma is_max_cov_unique xs ys q1 q2 : is_max_cov xs ys q1 -> is_max_cov xs ys q2 -> Qeq q1 q2.
Proof.
  intros [[u1 [v1 [_ E1]]] H1] [[u2 [v2 [_ E2]]] H2]. apply Qle_antisym.
  - rewrite E1. apply H2.
  - rewrite E2. apply H1.
Qed.

(* ---- the batch score of the model, as a function of the two cell columns only ---- *)

Definition cells_cov (xs ys : list (list N)) : Q := maxcov (codes xs) (codes ys).

Theorem cov_num_cells D xs ys : length xs = length ys -> xs <> [] -> (N.of_nat (length xs) | D)%N -> D <> 0%N ->
  Qeq (Z.of_N (cov_num D (codes xs) (codes ys)) # (match D with Npos p => p | N0 => 1 end)) (cells_cov xs ys)
  /\ is_max_cov xs ys (cells_cov xs ys).
Proof.
  intros Hl Hne Hd HD. split.
  - apply cov_num_maxcov; [|rewrite codes_length; exact Hd|exact HD].
    intros E. apply Hne. apply length_zero_iff_nil. rewrite <- codes_length, E. reflexivity.
  - apply maxcov_cells; assumption.
Qed.
