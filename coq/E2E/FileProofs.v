(* E2E — the text layer: (1) on PHYSICAL lines csv.reader never raises; (2) a file rendered by the model's writer
   from a header and a table of cells without line breaks is read back as exactly that header and that table. *)
From Coq Require Import List NArith Bool Arith Lia.
From Outrank Require Import IO.Str IO.StrProofs.
From Outrank Require IO.Csv IO.CsvProofs IO.Accept IO.AcceptProofs.
From Outrank Require Pipeline.Stream.
From Outrank Require Import E2E.Compose E2E.ComposeProofs.
Import ListNotations.
Local Open Scope N_scope.

(* ---------------------------------------------------------------------------------------------------------- *)
(* 1. shape of physical lines: a body without CR / LF, then LF or nothing *)

Definition phys_shape (ln : list N) : Prop := exists body, none is_nl body /\ (ln = body ++ [LF] \/ ln = body).

Lemma phys_lines_aux_shape : forall n l cur, (length l <= n)%nat -> none is_nl cur ->
  Forall phys_shape (phys_lines_aux cur l).
Proof.
  induction n as [|n IH]; intros l cur Hn Hc.
  - destruct l; [|cbn in Hn; lia]. cbn [phys_lines_aux]. destruct cur as [|c cur']; [constructor|].
    constructor; [|constructor]. exists (frev (c :: cur')). split; [rewrite frev_rev; apply none_rev; exact Hc|right; reflexivity].
  - destruct l as [|c r].
    + cbn [phys_lines_aux]. destruct cur as [|c cur']; [constructor|].
      constructor; [|constructor]. exists (frev (c :: cur')). split; [rewrite frev_rev; apply none_rev; exact Hc|right; reflexivity].
    + cbn [length] in Hn. cbn [phys_lines_aux].
      assert (Hline : phys_shape (frev (LF :: cur))).
      { exists (rev cur). split; [apply none_rev; exact Hc|left]. rewrite frev_rev. reflexivity. }
      destruct (c =? LF) eqn:E1.
      * constructor; [exact Hline|]. apply IH; [lia|reflexivity].
      * destruct (c =? CR) eqn:E2.
        -- destruct r as [|c2 r2].
           ++ constructor; [exact Hline|constructor].
           ++ cbn [length] in Hn. destruct (c2 =? LF).
              ** constructor; [exact Hline|]. apply IH; [lia|reflexivity].
              ** constructor; [exact Hline|]. apply IH; [cbn [length]; lia|reflexivity].
        -- apply IH; [lia|]. apply none_cons. split; [|exact Hc]. unfold is_nl. rewrite E1, E2. reflexivity.
Qed.

Lemma phys_lines_shape text : Forall phys_shape (phys_lines text).
Proof. unfold phys_lines. apply (phys_lines_aux_shape (length text)); [lia|reflexivity]. Qed.

(* the reader's state machine stays away from the error state while it sees no line break and no field grows beyond
   csv.field_size_limit() (Csv.field_limit = 131072; Csv.add raises from there on, as CPython's parse_add_char).
   [calmk k s]: not in an end-of-line / error state, and the pending field holds at most k characters *)
Definition calm (s : Csv.pst) : Prop :=
  match Csv.state s with Csv.EatCRNL | Csv.Err => False | _ => True end.
Definition calmk (k : N) (s : Csv.pst) : Prop := calm s /\ Csv.flen s <= k.

Lemma add_below s c next : Csv.flen s < Csv.field_limit ->
  Csv.add s c next = Csv.mk next (c :: Csv.pend s) (Csv.acc s) (Csv.flen s + 1).
Proof. intros H. unfold Csv.add. apply N.leb_gt in H. rewrite H. reflexivity. Qed.

Lemma step_calm k s c : calmk k s -> k < Csv.field_limit -> is_nl c = false -> calmk (k + 1) (Csv.step s (Some c)).
Proof.
  destruct s as [st p a n]. unfold calmk, calm. cbn [Csv.state Csv.flen]. intros [Hs Hn] Hk Hc.
  assert (Hlt : n < Csv.field_limit) by lia.
  destruct st; try contradiction; unfold Csv.step, Csv.start_field; cbn [Csv.state]; rewrite ?Hc;
    destruct (c =? QUOTE); destruct (c =? COMMA);
    rewrite ?add_below by exact Hlt; unfold Csv.save, Csv.goto; cbn [Csv.state Csv.flen Csv.pend Csv.acc]; split; try exact I; lia.
Qed.

Lemma run_calm l : forall k s, calmk k s -> none is_nl l -> k + N.of_nat (length l) <= Csv.field_limit ->
  calmk (k + N.of_nat (length l)) (Csv.run s l).
Proof.
  induction l as [|c l IH]; intros k s Hs Hl Hk.
  - cbn [length Csv.run fold_left]. rewrite N.add_0_r. exact Hs.
  - apply none_cons in Hl. destruct Hl as [Hc Hl]. rewrite CsvProofs.run_cons.
    replace (k + N.of_nat (length (c :: l))) with ((k + 1) + N.of_nat (length l)) by (cbn [length]; lia).
    apply IH; [apply step_calm; [exact Hs|cbn [length] in Hk; lia|exact Hc]|exact Hl|cbn [length] in Hk; lia].
Qed.

Lemma parse_of_state s : Csv.state (Csv.step s None) <> Csv.Err ->
  (let s' := Csv.step s None in
   match Csv.state s' with
   | Csv.Err => None
   | Csv.StartRecord => Some (frev (Csv.acc s'))
   | Csv.InQuoted => Some (frev (frev (Csv.pend s') :: Csv.acc s'))
   | _ => Some (frev (match Csv.pend s' with [] => Csv.acc s' | _ => frev (Csv.pend s') :: Csv.acc s' end))
   end) <> None.
Proof. intros H. cbv zeta. destruct (Csv.state (Csv.step s None)); try discriminate. congruence. Qed.

Lemma calm_eol s : calm s -> Csv.state (Csv.step s None) <> Csv.Err.
Proof.
  destruct s as [st p a n]. unfold calm. cbn [Csv.state]. intros Hs.
  destruct st; try contradiction; unfold Csv.step, Csv.start_field; cbn; discriminate.
Qed.

Lemma calm_lf_eol s : calm s -> Csv.flen s < Csv.field_limit -> Csv.state (Csv.step (Csv.step s (Some LF)) None) <> Csv.Err.
Proof.
  destruct s as [st p a n]. unfold calm. cbn [Csv.state Csv.flen]. intros Hs Hn.
  destruct st; try contradiction; unfold Csv.step, Csv.start_field; cbn [Csv.state is_nl N.eqb LF CR QUOTE COMMA Pos.eqb orb];
    rewrite ?add_below by exact Hn; cbn; discriminate.
Qed.

(* a line is short when it has at most field_limit characters, terminator included: then no field can exceed the limit *)
Definition short_line (ln : list N) : Prop := N.of_nat (length ln) <= Csv.field_limit.

Theorem parse_phys_line ln : phys_shape ln -> short_line ln -> Csv.parse ln <> None.
Proof.
  intros [body [Hb [->| ->]]] Hshort; unfold short_line in Hshort; unfold Csv.parse; apply parse_of_state.
  - rewrite app_length in Hshort. cbn [length] in Hshort.
    unfold Csv.run. rewrite fold_left_app. cbn [fold_left].
    destruct (run_calm body 0 Csv.init) as [H1 H2]; [split; [exact I|cbn; lia]|exact Hb|lia|].
    apply calm_lf_eol; [exact H1|fold (Csv.run Csv.init body); lia].
  - destruct (run_calm body 0 Csv.init) as [H1 _]; [split; [exact I|cbn; lia]|exact Hb|lia|]. apply calm_eol. exact H1.
Qed.

(* csv.Error cannot be raised by a physical line of at most 131072 characters (NUL characters are outside the
   transcription of csv.reader): on such a text the model never answers "the task raises" *)
Definition short_lines (text : list N) : Prop := Forall short_line (data_lines text).

Theorem no_csv_error c text : short_lines text -> crashes c (parse_lines text) = false.
Proof.
  intros Hshort. unfold crashes. destruct (existsb _ _) eqn:E; [|reflexivity]. exfalso.
  apply existsb_exists in E. destruct E as [l [Hl E]]. rewrite selected_abs in Hl.
  unfold sel_lines in Hl. apply filter_In in Hl. destruct Hl as [Hl _].
  destruct (in_abs_lines _ _ Hl) as (_ & Hi & _).
  unfold parse_lines in *. rewrite map_length in Hi.
  rewrite (nth_indep _ None (Csv.parse [])) in E by (rewrite map_length; exact Hi).
  rewrite map_nth in E.
  assert (Hin : In (nth (N.to_nat (N.pred (fst l))) (data_lines text) []) (data_lines text)) by (apply nth_In; exact Hi).
  assert (Hs : phys_shape (nth (N.to_nat (N.pred (fst l))) (data_lines text) [])).
  { pose proof (phys_lines_shape text) as F. rewrite Forall_forall in F. apply F.
    assert (Htl : forall (x : list N) L, In x (tl L) -> In x L) by (intros x [|y L] H; [exact H|right; exact H]).
    apply Htl. exact Hin. }
  unfold short_lines in Hshort. rewrite Forall_forall in Hshort.
  apply parse_phys_line in Hs; [|apply Hshort; exact Hin]. destruct (Csv.parse _); [discriminate|congruence].
Qed.

(* ---------------------------------------------------------------------------------------------------------- *)
(* 2. a rendered file is read back as its header and its table (C16_csv, C16_csv_physical_lines) *)

Theorem wellformed_file (names : list (list N)) (rows : list (list (list N))) :
  names <> [] ->
  Forall (none (fun ch => (ch =? COMMA) || is_nl ch)) names ->       (* names without ',' / CR / LF *)
  edge_clean (join_with [COMMA] names) ->                              (* header line without surrounding blanks *)
  Forall (fun r => r <> [] /\ Forall (none is_nl) r) rows ->            (* cells without line breaks *)
  Forall (Forall CsvProofs.flen_ok) rows ->                            (* cells of at most csv.field_size_limit() characters *)
  header_of (render_file names rows) = names /\ parse_lines (render_file names rows) = map Some rows.
Proof.
  intros Hne Hnames Hedge Hrows Hlen.
  assert (Hnl : none is_nl (join_with [COMMA] names)).
  { apply none_join; [reflexivity|]. eapply Forall_impl; [|exact Hnames]. intros n Hn.
    eapply none_weaken; [|exact Hn]. intros ch Hc. cbv beta. rewrite Hc. apply orb_true_r. }
  unfold header_of, parse_lines, data_lines, Accept.csv_raw_header, render_file.
  rewrite AcceptProofs.phys_lines_header by exact Hnl. cbn [hd tl]. split.
  - rewrite strip_ws_lf by exact Hedge. apply split_on_join; [exact Hne|].
    eapply Forall_impl; [|exact Hnames]. intros n Hn. eapply none_weaken; [|exact Hn].
    intros ch Hc. cbv beta. rewrite N.eqb_sym, Hc. reflexivity.
  - rewrite CsvProofs.csv_physical_lines by (eapply Forall_impl; [|exact Hrows]; intros r [_ H]; exact H).
    rewrite map_map. apply map_ext_in. intros r Hr. rewrite Forall_forall in Hrows. destruct (Hrows r Hr) as [Hr1 _].
    rewrite Forall_forall in Hlen. apply CsvProofs.roundtrip; [exact Hr1|apply Hlen; exact Hr].
Qed.

Corollary wellformed_run c names rows :
  names <> [] -> Forall (none (fun ch => (ch =? COMMA) || is_nl ch)) names -> edge_clean (join_with [COMMA] names) ->
  Forall (fun r => r <> [] /\ Forall (none is_nl) r) rows -> Forall (Forall CsvProofs.flen_ok) rows ->
  e2e_run c (render_file names rows) = e2e_core c names (map Some rows).
Proof. intros H1 H2 H3 H4 H5. unfold e2e_run. destruct (wellformed_file names rows H1 H2 H3 H4 H5) as [-> ->]. reflexivity. Qed.
