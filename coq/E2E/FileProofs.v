(* E2E — the text layer: (1) on PHYSICAL lines csv.reader never raises; (2) a file rendered by the model's writer
   from a header and a table of cells without line breaks is read back as exactly that header and that table. *)
From Coq Require Import List NArith Bool Arith Lia.
From Outrank Require Import IO.Str IO.StrProofs.
From Outrank Require IO.Csv IO.CsvProofs IO.Accept IO.AcceptProofs.
From Outrank Require Pipeline.Stream.
From Outrank Require Import E2E.Compose E2E.ComposeProofs.
Import ListNotations.
Local Open Scope N_scope.

(* ---------------------------------------------------------------------------------------------------------- *)
(* 1. shape of physical lines: a body without CR / LF, then LF or nothing *)

Definition phys_shape (ln : list N) : Prop := exists body, none is_nl body /\ (ln = body ++ [LF] \/ ln = body).

Lemma phys_lines_aux_shape : forall n l cur, (length l <= n)%nat -> none is_nl cur ->
  Forall phys_shape (phys_lines_aux cur l).
Proof.
  induction n as [|n IH]; intros l cur Hn Hc.
  - destruct l; [|cbn in Hn; lia]. cbn [phys_lines_aux]. destruct cur as [|c cur']; [constructor|].
    constructor; [|constructor]. exists (frev (c :: cur')). split; [rewrite frev_rev; apply none_rev; exact Hc|right; reflexivity].
  - destruct l as [|c r].
    + cbn [phys_lines_aux]. destruct cur as [|c cur']; [constructor|].
      constructor; [|constructor]. exists (frev (c :: cur')). split; [rewrite frev_rev; apply none_rev; exact Hc|right; reflexivity].
    + cbn [length] in Hn. cbn [phys_lines_aux].
      assert (Hline : phys_shape (frev (LF :: cur))).
      { exists (rev cur). split; [apply none_rev; exact Hc|left]. rewrite frev_rev. reflexivity. }
      destruct (c =? LF) eqn:E1.
      * constructor; [exact Hline|]. apply IH; [lia|reflexivity].
      * destruct (c =? CR) eqn:E2.
        -- destruct r as [|c2 r2].
           ++ constructor; [exact Hline|constructor].
           ++ cbn [length] in Hn. destruct (c2 =? LF).
              ** constructor; [exact Hline|]. apply IH; [lia|reflexivity].
              ** constructor; [exact Hline|]. apply IH; [cbn [length]; lia|reflexivity].
        -- apply IH; [lia|]. apply none_cons. split; [|exact Hc]. unfold is_nl. rewrite E1, E2. reflexivity.
Qed.

Lemma phys_lines_shape text : Forall phys_shape (phys_lines text).
Proof. unfold phys_lines. apply (phys_lines_aux_shape (length text)); [lia|reflexivity]. Qed.

(* the reader's state machine stays away from the error state while it sees no line break *)
Definition calm (s : Csv.pst) : Prop :=
  match Csv.state s with Csv.EatCRNL | Csv.Err => False | _ => True end.

Lemma step_calm s c : calm s -> is_nl c = false -> calm (Csv.step s (Some c)).
Proof.
  destruct s as [st p a]. unfold calm. cbn [Csv.state]. intros Hs Hc.
  destruct st; try contradiction; unfold Csv.step, Csv.start_field; cbn [Csv.state]; rewrite ?Hc;
    destruct (c =? QUOTE); destruct (c =? COMMA); cbn; exact I.
Qed.

Lemma run_calm l : forall s, calm s -> none is_nl l -> calm (Csv.run s l).
Proof.
  induction l as [|c l IH]; intros s Hs Hl; [exact Hs|]. apply none_cons in Hl. destruct Hl as [Hc Hl].
  rewrite CsvProofs.run_cons. apply IH; [apply step_calm; assumption|exact Hl].
Qed.

Lemma parse_of_state s : Csv.state (Csv.step s None) <> Csv.Err ->
  (let s' := Csv.step s None in
   match Csv.state s' with
   | Csv.Err => None
   | Csv.StartRecord => Some (frev (Csv.acc s'))
   | Csv.InQuoted => Some (frev (frev (Csv.pend s') :: Csv.acc s'))
   | _ => Some (frev (match Csv.pend s' with [] => Csv.acc s' | _ => frev (Csv.pend s') :: Csv.acc s' end))
   end) <> None.
Proof. intros H. cbv zeta. destruct (Csv.state (Csv.step s None)); try discriminate. congruence. Qed.

Lemma calm_eol s : calm s -> Csv.state (Csv.step s None) <> Csv.Err.
Proof.
  destruct s as [st p a]. unfold calm. cbn [Csv.state]. intros Hs.
  destruct st; try contradiction; unfold Csv.step, Csv.start_field; cbn; discriminate.
Qed.

Lemma calm_lf_eol s : calm s -> Csv.state (Csv.step (Csv.step s (Some LF)) None) <> Csv.Err.
Proof.
  destruct s as [st p a]. unfold calm. cbn [Csv.state]. intros Hs.
  destruct st; try contradiction; unfold Csv.step, Csv.start_field; cbn; discriminate.
Qed.

Theorem parse_phys_line ln : phys_shape ln -> Csv.parse ln <> None.
Proof.
  intros [body [Hb [->| ->]]]; unfold Csv.parse; apply parse_of_state.
  - unfold Csv.run. rewrite fold_left_app. cbn [fold_left]. apply calm_lf_eol. apply (run_calm body Csv.init); [exact I|exact Hb].
  - apply calm_eol. apply (run_calm body Csv.init); [exact I|exact Hb].
Qed.

(* csv.Error cannot be raised by a line the text-mode iterator yields (NUL characters and over-long fields are outside
   the transcription of csv.reader): the model never answers "the task raises" on a text *)
Theorem no_csv_error c text : crashes c (parse_lines text) = false.
Proof.
  unfold crashes. destruct (existsb _ _) eqn:E; [|reflexivity]. exfalso.
  apply existsb_exists in E. destruct E as [l [Hl E]]. rewrite selected_abs in Hl.
  unfold sel_lines in Hl. apply filter_In in Hl. destruct Hl as [Hl _].
  destruct (in_abs_lines _ _ Hl) as (_ & Hi & _).
  unfold parse_lines in *. rewrite map_length in Hi.
  rewrite (nth_indep _ None (Csv.parse [])) in E by (rewrite map_length; exact Hi).
  rewrite map_nth in E.
  assert (Hs : phys_shape (nth (N.to_nat (N.pred (fst l))) (data_lines text) [])).
  { pose proof (phys_lines_shape text) as F. rewrite Forall_forall in F. apply F.
    assert (Hin : In (nth (N.to_nat (N.pred (fst l))) (data_lines text) []) (data_lines text)) by (apply nth_In; exact Hi).
    assert (Htl : forall (x : list N) L, In x (tl L) -> In x L) by (intros x [|y L] H; [exact H|right; exact H]).
    apply Htl. exact Hin. }
  apply parse_phys_line in Hs. destruct (Csv.parse _); [discriminate|congruence].
Qed.

(* ---------------------------------------------------------------------------------------------------------- *)
(* 2. a rendered file is read back as its header and its table (C16_csv, C16_csv_physical_lines) *)

Theorem wellformed_file (names : list (list N)) (rows : list (list (list N))) :
  names <> [] ->
  Forall (none (fun ch => (ch =? COMMA) || is_nl ch)) names ->       (* names without ',' / CR / LF *)
  edge_clean (join_with [COMMA] names) ->                              (* header line without surrounding blanks *)
  Forall (fun r => r <> [] /\ Forall (none is_nl) r) rows ->            (* cells without line breaks *)
  header_of (render_file names rows) = names /\ parse_lines (render_file names rows) = map Some rows.
Proof.
  intros Hne Hnames Hedge Hrows.
  assert (Hnl : none is_nl (join_with [COMMA] names)).
  { apply none_join; [reflexivity|]. eapply Forall_impl; [|exact Hnames]. intros n Hn.
    eapply none_weaken; [|exact Hn]. intros ch Hc. cbv beta. rewrite Hc. apply orb_true_r. }
  unfold header_of, parse_lines, data_lines, Accept.csv_raw_header, render_file.
  rewrite AcceptProofs.phys_lines_header by exact Hnl. cbn [hd tl]. split.
  - rewrite strip_ws_lf by exact Hedge. apply split_on_join; [exact Hne|].
    eapply Forall_impl; [|exact Hnames]. intros n Hn. eapply none_weaken; [|exact Hn].
    intros ch Hc. cbv beta. rewrite N.eqb_sym, Hc. reflexivity.
  - rewrite CsvProofs.csv_physical_lines by (eapply Forall_impl; [|exact Hrows]; intros r [_ H]; exact H).
    rewrite map_map. apply map_ext_in. intros r Hr. rewrite Forall_forall in Hrows. destruct (Hrows r Hr) as [Hr1 _].
    apply CsvProofs.roundtrip. exact Hr1.
Qed.

Corollary wellformed_run c names rows :
  names <> [] -> Forall (none (fun ch => (ch =? COMMA) || is_nl ch)) names -> edge_clean (join_with [COMMA] names) ->
  Forall (fun r => r <> [] /\ Forall (none is_nl) r) rows ->
  e2e_run c (render_file names rows) = e2e_core c names (map Some rows).
Proof. intros H1 H2 H3 H4. unfold e2e_run. destruct (wellformed_file names rows H1 H2 H3 H4) as [-> ->]. reflexivity. Qed.
