(* E2E — the main lemmas about the composed model of E2E/Compose.v.  Every layer fact is imported from the layer's own
   proofs file (IO/*Proofs.v, Pipeline/StreamProofs.v, AggregateProofs.v, RankGraphProofs.v, CombosProofs.v); what is
   proved here and in CovProofs.v / MedianRep.v / RowsProofs.v is the glue. *)
From Coq Require Import List NArith ZArith QArith Bool Arith Lia Permutation Sorting.Sorted.
From Outrank Require Import IO.Str IO.StrProofs.
From Outrank Require IO.Csv IO.CsvProofs IO.Accept IO.AcceptProofs.
From Outrank Require Import Common.Median.
From Outrank Require Pipeline.Stream Pipeline.StreamProofs.
From Outrank Require Import Pipeline.Aggregate Pipeline.AggregateProofs.
From Outrank Require Import Pipeline.RankGraph Pipeline.RankGraphProofs.
From Outrank Require Pipeline.Sampler Pipeline.Combos Pipeline.CombosProofs.
From Outrank Require Import E2E.Compose E2E.CovProofs E2E.MedianRep E2E.RowsProofs.
Import ListNotations.
Local Open Scope nat_scope.

Notation str := (list N) (only parsing).

(* ========================================================================================================== *)
(* F. the streaming layer: which lines make up the batches *)

Lemma selected_number_from s fs : forall k,
  Stream.selected s k (Stream.number_from (N.succ k) fs)
  = filter (fun l : Stream.line => N.eqb (N.modulo (fst l) s) 0) (Stream.number_from (N.succ k) fs).
Proof.
  induction fs as [|f fs IH]; intros k; [reflexivity|].
  cbn [Stream.number_from Stream.selected filter fst]. rewrite IH. reflexivity.
Qed.

(* every s-th line (1-based) *)
Definition sel_lines (c : config) (ps : list (option (list str))) : list Stream.line :=
  filter (fun l : Stream.line => N.eqb (N.modulo (fst l) (g_s c)) 0) (abs_lines ps).
(* ... whose field count is the header's *)
Definition good_lines (c : config) (header : list str) (ps : list (option (list str))) : list Stream.line :=
  filter (Stream.wf (stream_cfg c header)) (sel_lines c ps).

Lemma selected_abs c ps : Stream.selected (g_s c) 0 (abs_lines ps) = sel_lines c ps.
Proof. unfold abs_lines, sel_lines. change 1%N with (N.succ 0). apply selected_number_from. Qed.

Lemma good_abs c header ps : Stream.good (stream_cfg c header) 0 (abs_lines ps) = good_lines c header ps.
Proof. unfold Stream.good, good_lines. cbn [Stream.cs stream_cfg]. rewrite selected_abs. reflexivity. Qed.

(* C08_batches, instantiated *)
Theorem e2e_batches_spec c header ps : (0 < g_B c)%N ->
  e2e_batches c header ps =
  let g := good_lines c header ps in let B := N.to_nat (g_B c) in
  fst (Stream.chunks B g) ++ (if Stream.tail_min <? length (snd (Stream.chunks B g)) then [snd (Stream.chunks B g)] else []).
Proof.
  intros HB. unfold e2e_batches. rewrite StreamProofs.batches_spec by (cbn [Stream.cB stream_cfg]; lia).
  unfold Stream.reference_batches. rewrite good_abs. reflexivity.
Qed.

Lemma in_number_from fs : forall k l, In l (Stream.number_from k fs) ->
  exists i, i < length fs /\ fst l = (k + N.of_nat i)%N /\ snd l = nth i fs 0.
Proof.
  induction fs as [|f fs IH]; intros k l H; [destruct H|]. cbn [Stream.number_from] in H. destruct H as [<-|H].
  - exists 0. cbn. split; [lia|]. split; [lia|reflexivity].
  - destruct (IH _ _ H) as [i [Hi [E1 E2]]]. exists (S i). cbn [length nth]. split; [lia|]. split; [lia|exact E2].
Qed.

(* a line of the abstract file is (1-based position, field count of the parsed line at that position) *)
Lemma in_abs_lines ps l : In l (abs_lines ps) ->
  (1 <= fst l)%N /\ N.to_nat (N.pred (fst l)) < length ps /\ snd l = nfields (nth (N.to_nat (N.pred (fst l))) ps None).
Proof.
  intros H. apply in_number_from in H. destruct H as [i [Hi [E1 E2]]]. rewrite map_length in Hi.
  assert (E : N.to_nat (N.pred (fst l)) = i) by lia. rewrite E. split; [lia|]. split; [exact Hi|].
  rewrite E2. change 0 with (nfields None). apply map_nth.
Qed.

Lemma in_batch_good c header ps b l : (0 < g_B c)%N ->
  In b (e2e_batches c header ps) -> In l b -> In l (good_lines c header ps).
Proof.
  intros HB Hb Hl. rewrite e2e_batches_spec in Hb by exact HB. cbv zeta in Hb.
  destruct (StreamProofs.chunks_spec (N.to_nat (g_B c)) (good_lines c header ps)) as (E & _ & _); [lia|].
  rewrite <- E. apply in_app_or in Hb. apply in_or_app. destruct Hb as [Hb|Hb].
  - left. apply in_concat. exists b. auto.
  - right. destruct (Stream.tail_min <? _); [|destruct Hb]. destruct Hb as [<-|[]]. exact Hl.
Qed.

Lemma batches_nonempty c header ps : (0 < g_B c)%N -> Forall (fun b => b <> []) (e2e_batches c header ps).
Proof.
  intros HB. rewrite e2e_batches_spec by exact HB. cbv zeta.
  destruct (StreamProofs.chunks_spec (N.to_nat (g_B c)) (good_lines c header ps)) as (_ & F & _); [lia|].
  apply Forall_app. split.
  - eapply Forall_impl; [|exact F]. intros b Hb E. rewrite E in Hb. cbn in Hb. lia.
  - destruct (Stream.tail_min <? length _) eqn:E; [|constructor]. constructor; [|constructor].
    apply Nat.ltb_lt in E. intros E'. rewrite E' in E. cbn in E. lia.
Qed.

(* the row of a line that entered a batch: parsed without error, selected, with the header's field count *)
Theorem batch_line_spec c header ps b l : (0 < g_B c)%N -> crashes c ps = false ->
  In b (e2e_batches c header ps) -> In l b ->
  N.modulo (fst l) (g_s c) = 0%N /\ (1 <= fst l)%N /\
  exists fs, nth (N.to_nat (N.pred (fst l))) ps None = Some fs /\ length fs = length header /\ row_at ps (fst l) = fs.
Proof.
  intros HB Hcr Hb Hl. pose proof (in_batch_good c header ps b l HB Hb Hl) as Hg.
  unfold good_lines in Hg. apply filter_In in Hg. destruct Hg as [Hs Hwf].
  pose proof Hs as Hs'. unfold sel_lines in Hs. apply filter_In in Hs. destruct Hs as [Hin Hmod].
  apply N.eqb_eq in Hmod. destruct (in_abs_lines ps l Hin) as (H1 & H2 & H3).
  split; [exact Hmod|]. split; [exact H1|].
  unfold crashes in Hcr. rewrite selected_abs in Hcr.
  assert (Hn : is_none (nth (N.to_nat (N.pred (fst l))) ps None) = false).
  { destruct (is_none _) eqn:E; [|reflexivity]. rewrite <- Hcr. symmetry. apply existsb_exists. exists l. auto. }
  destruct (nth (N.to_nat (N.pred (fst l))) ps None) as [fs|] eqn:E; [|discriminate]. exists fs. split; [reflexivity|].
  unfold Stream.wf in Hwf. cbn [Stream.cncols stream_cfg] in Hwf. apply Nat.eqb_eq in Hwf. rewrite H3 in Hwf. cbn [nfields] in Hwf.
  split; [exact Hwf|]. unfold row_at. rewrite E. reflexivity.
Qed.

(* the composition equals running C08's loop with the composed scorer (the loop's accumulated rows) *)
Theorem all_rows_is_loop c header ps : (0 < g_B c)%N ->
  let D := common_den (e2e_batches c header ps) in
  all_rows c header ps =
  Stream.all_rows (fun b => map (to_agg header) (batch_triplets c header D (batch_rows ps b))) (fun _ => tt)
                  (stream_cfg c header) (abs_lines ps).
Proof.
  intros HB D. rewrite StreamProofs.all_rows_spec by (cbn [Stream.cB stream_cfg]; lia).
  rewrite <- flat_map_concat_map. unfold all_rows. fold D.
  assert (E : forall (A T : Type) (sc : list Stream.line -> list A) (ag : list A -> T),
            Stream.batches sc ag (stream_cfg c header) (abs_lines ps) = e2e_batches c header ps).
  { intros. unfold e2e_batches. rewrite !StreamProofs.batches_spec by (cbn [Stream.cB stream_cfg]; lia). reflexivity. }
  rewrite E. reflexivity.
Qed.

(* ========================================================================================================== *)
(* G. the common denominator *)

Lemma common_den_spec (bs : list (list Stream.line)) : Forall (fun b => b <> []) bs ->
  common_den bs <> 0%N /\ forall b, In b bs -> (N.of_nat (length b) | common_den bs)%N.
Proof.
  unfold common_den. induction bs as [|b bs IH]; intros H.
  - split; [discriminate|intros b []].
  - inversion H as [|? ? Hb Hbs]; subst. destruct (IH Hbs) as [IH1 IH2]. cbn [map fold_right]. split.
    + intros E. apply N.lcm_eq_0 in E. destruct E as [E|E]; [|contradiction].
      destruct b; [congruence|cbn in E; lia].
    + intros b' [<-|Hin]; [apply N.divide_lcm_l|].
      eapply N.divide_trans; [apply IH2; exact Hin|apply N.divide_lcm_r].
Qed.

Lemma den_pos_spec D : D <> 0%N -> Zpos (den_pos D) = (2 * Z.of_N D)%Z.
Proof. intros H. unfold den_pos. destruct D as [|p]; [congruence|]. reflexivity. Qed.

(* ========================================================================================================== *)
(* H. the emitted table *)

Lemma nth_sidx header x : In x header -> nth (N.to_nat (Combos.sidx header x)) header [] = x.
Proof.
  induction header as [|h t IH]; intros H; [destruct H|]. cbn [Combos.sidx].
  destruct (Combos.str_eqb x h) eqn:E; [apply CombosProofs.str_eqb_eq in E; subst; reflexivity|].
  destruct H as [->|H]; [rewrite CombosProofs.str_eqb_refl in E; discriminate|].
  rewrite N2Nat.inj_succ. cbn [nth]. apply IH. exact H.
Qed.

Lemma emit_kx header D xy z : In (fst xy) header -> In (snd xy) header ->
  emit header D (kx header xy, z) = (fst xy, snd xy, Qmake z (den_pos D)).
Proof. intros H1 H2. unfold emit, kx. cbn [fst snd]. rewrite !nth_sidx by assumption. reflexivity. Qed.

Lemma StronglySorted_map {A B} (f : A -> B) (R : B -> B -> Prop) l :
  StronglySorted (fun x y => R (f x) (f y)) l -> StronglySorted R (map f l).
Proof.
  induction 1 as [|x l Hs IH Hf]; [constructor|]. cbn [map]. constructor; [exact IH|].
  apply Forall_map. exact Hf.
Qed.

Lemma NoDup_map_on {A B} (f : A -> B) l : (forall x y, In x l -> In y l -> f x = f y -> x = y) -> NoDup l -> NoDup (map f l).
Proof.
  intros Hinj H. induction H as [|x l Hx Hl IH]; [constructor|]. cbn [map]. constructor.
  - intros Hin. apply in_map_iff in Hin. destruct Hin as [y [E Hy]]. apply Hinj in E; [|right; exact Hy|left; reflexivity].
    subst. contradiction.
  - apply IH. intros a b Ha Hb. apply Hinj; right; assumption.
Qed.

(* what config_ok gives *)
Lemma config_ok_spec c header : config_ok c header = true ->
  (0 < g_B c)%N /\ (0 < g_s c)%N /\ supported_heur (g_heur c) = true /\ NoDup header /\ In (g_label c) header /\
  (Z.of_nat (length (cands_of c header)) <= g_cap c)%Z.
Proof.
  unfold config_ok. rewrite !andb_true_iff. intros [[[[[H1 H2] H3] H4] H5] H6].
  apply N.ltb_lt in H1, H2. apply Z.leb_le in H6. apply CombosProofs.memb_In in H5. apply nodup_strb_NoDup in H4. auto 10.
Qed.

Lemma supported_not_3mr h : supported_heur h = true -> Combos.is_3mr h = false.
Proof.
  unfold supported_heur. intros H. apply orb_true_iff in H. destruct H as [H|H].
  - apply CombosProofs.str_eqb_eq in H. subst. reflexivity.
  - unfold Combos.is_const in H. apply CombosProofs.str_eqb_eq in H. subst. reflexivity.
Qed.

Lemma h_maxcov_not_const : Combos.is_const h_maxcov = false.
Proof. reflexivity. Qed.

(* unfolding e2e_core *)
Lemma e2e_core_some c header ps t : e2e_core c header ps = Some t ->
  config_ok c header = true /\ crashes c ps = false /\ e2e_batches c header ps <> [] /\
  t = map (emit header (common_den (e2e_batches c header ps))) (final_table (all_rows c header ps)).
Proof.
  unfold e2e_core. destruct (config_ok c header); [|discriminate]. cbn [negb].
  destruct (crashes c ps); [discriminate|]. destruct (e2e_batches c header ps) eqn:E; [discriminate|].
  intros H. inversion H. repeat split. discriminate.
Qed.

(* the requested pairs, by mode (C06_target_only / C06_pairwise) *)
Definition requested (c : config) (header : list str) (a b : str) : Prop :=
  In a header /\ In b header /\ (Combos.is_tonly (g_tro c) = true -> a = g_label c \/ b = g_label c).

Lemma requested_uin c header a b : supported_heur (g_heur c) = true ->
  (CombosProofs.uin (a, b) (cands_of c header) <-> requested c header a b).
Proof.
  intros Hs. pose proof (supported_not_3mr _ Hs) as H3. unfold requested, cands_of.
  destruct (Combos.is_tonly (g_tro c)) eqn:Ht.
  - rewrite (CombosProofs.cands_target_only header (g_heur c) (g_tro c) (g_label c) H3 Ht). tauto.
  - rewrite (CombosProofs.cands_pairwise header (g_heur c) (g_tro c) (g_label c) H3 Ht).
    split; [intros [? ?]; repeat split; auto; discriminate|tauto].
Qed.

(* the tables of the batches: the parsed rows of the lines of each batch *)
Definition batch_tables (c : config) (header : list str) (ps : list (option (list str))) : list (list (list str)) :=
  map (batch_rows ps) (e2e_batches c header ps).

Section Main.
  Variables (c : config) (header : list str) (ps : list (option (list str))) (t : table).
  Hypothesis Hrun : e2e_core c header ps = Some t.

  Let bs := e2e_batches c header ps.
  Let D := common_den bs.
  Let cands := cands_of c header.

  Lemma main_facts : (0 < g_B c)%N /\ supported_heur (g_heur c) = true /\ NoDup header /\ In (g_label c) header
    /\ closed header cands /\ bs <> [] /\ D <> 0%N /\ (forall b, In b bs -> b <> [] /\ (N.of_nat (length b) | D)%N).
  Proof.
    destruct (e2e_core_some _ _ _ _ Hrun) as (Hok & _ & Hne & _).
    destruct (config_ok_spec _ _ Hok) as (HB & _ & Hs & Hnd & Hl & _).
    pose proof (batches_nonempty c header ps HB) as Hbn. destruct (common_den_spec _ Hbn) as [HD Hdiv].
    assert (Hcl : closed header cands).
    { intros x y H. apply (CombosProofs.cands_closed header (g_heur c) (g_tro c) (g_label c) Hl x y H). }
    split; [exact HB|]. split; [exact Hs|]. split; [exact Hnd|]. split; [exact Hl|]. split; [exact Hcl|].
    split; [exact Hne|]. split; [exact HD|]. intros b0 Hb0. split.
    - rewrite Forall_forall in Hbn. apply Hbn. exact Hb0.
    - apply Hdiv. exact Hb0.
  Qed.

  Lemma t_eq : t = map (emit header D) (final_sort (aggregate (all_rows c header ps))).
  Proof. destruct (e2e_core_some _ _ _ _ Hrun) as (_ & _ & _ & E). exact E. Qed.

  (* sorted ascending (C08_sorted) *)
  Theorem main_sorted : StronglySorted (fun r1 r2 : str * str * Q => Qle (snd r1) (snd r2)) t.
  Proof.
    rewrite t_eq. apply StronglySorted_map.
    eapply StronglySorted_weaken; [|apply final_sort_sorted].
    intros r1 r2 H. unfold emit. cbn [snd]. unfold Qle. cbn [Qnum Qden].
    apply Z.mul_le_mono_nonneg_r; [lia|exact H].
  Qed.

  (* membership in t through the aggregate *)
  Lemma in_t a b q : In (a, b, q) t <-> exists r, In r (aggregate (all_rows c header ps)) /\ emit header D r = (a, b, q).
  Proof.
    rewrite t_eq, in_map_iff. split; intros [r [H1 H2]].
    - exists r. split; [|exact H1]. eapply Permutation_in; [apply final_sort_perm|exact H2].
    - exists r. split; [exact H2|]. eapply Permutation_in; [symmetry; apply final_sort_perm|exact H1].
  Qed.

  (* ---- coverage ---- *)
  Section Cov.
    Hypothesis Hcov : Combos.is_const (g_heur c) = false.

    Let keys := mkeys cands.
    Let V (b : list Stream.line) (xy : str * str) : Z := Z.of_N (pair_num header D (batch_rows ps b) (fst xy) (snd xy)).

    Lemma all_rows_cov : all_rows c header ps = flat_map (fun b => map (fun xy => (kx header xy, V b xy)) keys) bs.
    Proof.
      destruct main_facts as (_ & _ & _ & Hl & Hcl & _).
      unfold all_rows. apply flat_map_ext. intros b. apply batch_rows_cov; assumption.
    Qed.

    Theorem main_cov_rows a b q :
      In (a, b, q) t <->
      requested c header a b /\
      q = Qmake (median2 (map (fun rows => Z.of_N (pair_num header D rows a b)) (batch_tables c header ps))) (den_pos D).
    Proof.
      destruct main_facts as (_ & Hs & _ & Hl & Hcl & Hne & _).
      pose proof (mkeys_closed header cands Hcl) as Hkc.
      rewrite in_t. rewrite <- (requested_uin c header a b Hs). fold cands. rewrite <- in_mkeys. fold keys.
      unfold batch_tables. rewrite map_map. fold bs.
      split.
      - intros [r [Hr He]]. apply aggregate_rows in Hr. destruct Hr as [Hk Hm].
        rewrite all_rows_cov in Hk, Hm. apply (keys_of_all header keys V bs (fst r) Hne) in Hk.
        apply in_map_iff in Hk. destruct Hk as [xy [Ek Hxy]].
        destruct r as [k z]. cbn [fst snd] in *. subst k.
        rewrite (scores_of_all header keys V bs xy Hkc Hxy) in Hm.
        rewrite median2_replicate in Hm by (apply mult_pos; exact Hxy).
        destruct xy as [x y]. destruct (Hkc _ _ Hxy) as [Hx Hy].
        rewrite emit_kx in He by assumption. cbn [fst snd] in He. inversion He; subst. split; [exact Hxy|reflexivity].
      - intros [Hxy ->]. exists (kx header (a, b), median2 (map (fun b0 => V b0 (a, b)) bs)).
        destruct (Hkc _ _ Hxy) as [Hx Hy]. split.
        + apply aggregate_rows. cbn [fst snd]. rewrite all_rows_cov. split.
          * apply (keys_of_all header keys V bs _ Hne). apply in_map. exact Hxy.
          * rewrite (scores_of_all header keys V bs (a, b) Hkc Hxy).
            rewrite median2_replicate by (apply mult_pos; exact Hxy). reflexivity.
        + rewrite emit_kx by assumption. reflexivity.
    Qed.
  End Cov.

  (* ---- Constant ---- *)
  Section Const.
    Hypothesis Hconst : Combos.is_const (g_heur c) = true.

    Lemma all_rows_const : all_rows c header ps = flat_map (fun _ : list Stream.line => map (fun xy => (kx header xy, 0%Z)) cands) bs.
    Proof. unfold all_rows. apply flat_map_ext. intros b. apply batch_rows_const. exact Hconst. Qed.

    Theorem main_const_rows a b q : In (a, b, q) t <-> In (a, b) cands /\ q = Qmake 0 (den_pos D).
    Proof.
      destruct main_facts as (_ & Hs & _ & Hl & Hcl & Hne & _).
      rewrite in_t. split.
      - intros [r [Hr He]]. apply aggregate_rows in Hr. destruct Hr as [Hk Hm].
        rewrite all_rows_const in Hk, Hm.
        apply (keys_of_all header cands (fun _ _ => 0%Z) bs (fst r) Hne) in Hk.
        apply in_map_iff in Hk. destruct Hk as [xy [Ek Hxy]].
        destruct r as [k z]. cbn [fst snd] in *. subst k.
        rewrite (scores_of_all header cands (fun _ _ => 0%Z) bs xy Hcl Hxy) in Hm.
        rewrite median2_replicate in Hm by (apply mult_pos; exact Hxy).
        rewrite median2_zeros in Hm by (apply Forall_forall; intros z' Hz; apply in_map_iff in Hz; destruct Hz as [? [<- _]]; reflexivity).
        destruct xy as [x y]. destruct (Hcl _ _ Hxy) as [Hx Hy].
        rewrite emit_kx in He by assumption. cbn [fst snd] in He. inversion He; subst. split; [exact Hxy|reflexivity].
      - intros [Hxy ->]. exists (kx header (a, b), 0%Z). destruct (Hcl _ _ Hxy) as [Hx Hy]. split.
        + apply aggregate_rows. cbn [fst snd]. rewrite all_rows_const. split.
          * apply (keys_of_all header cands (fun _ _ => 0%Z) bs _ Hne). apply in_map. exact Hxy.
          * rewrite (scores_of_all header cands (fun _ _ => 0%Z) bs (a, b) Hcl Hxy).
            rewrite median2_replicate by (apply mult_pos; exact Hxy).
            rewrite median2_zeros; [reflexivity|]. apply Forall_forall. intros z' Hz. apply in_map_iff in Hz. destruct Hz as [? [<- _]]. reflexivity.
        + rewrite emit_kx by assumption. reflexivity.
    Qed.
  End Const.

  (* one row per ordered pair (C08_median_one_row_per_pair) *)
  Theorem main_nodup : NoDup (map fst t).
  Proof.
    destruct main_facts as (_ & Hs & Hnd & Hl & Hcl & Hne & _).
    rewrite t_eq, map_map.
    set (A := aggregate (all_rows c header ps)).
    assert (HK : forall r, In r (final_sort A) -> exists xy, fst r = kx header xy /\ In (fst xy) header /\ In (snd xy) header).
    { intros r Hr. assert (Hr' : In r A) by (eapply Permutation_in; [apply final_sort_perm|exact Hr]).
      apply aggregate_rows in Hr'. destruct Hr' as [Hk _].
      destruct (Combos.is_const (g_heur c)) eqn:Hc.
      - rewrite (all_rows_const Hc) in Hk. apply (keys_of_all header cands (fun _ _ => 0%Z) bs _ Hne) in Hk.
        apply in_map_iff in Hk. destruct Hk as [[x y] [E Hxy]]. exists (x, y). split; [auto|]. apply (Hcl _ _ Hxy).
      - rewrite (all_rows_cov Hc) in Hk.
        apply (keys_of_all header (mkeys cands) (fun b xy => Z.of_N (pair_num header D (batch_rows ps b) (fst xy) (snd xy))) bs _ Hne) in Hk.
        apply in_map_iff in Hk. destruct Hk as [[x y] [E Hxy]]. exists (x, y). split; [auto|]. apply (mkeys_closed header cands Hcl _ _ Hxy). }
    assert (HN : NoDup (map fst (final_sort A))).
    { eapply Permutation_NoDup; [apply Permutation_map; symmetry; apply final_sort_perm|apply aggregate_NoDup]. }
    assert (E : map (fun x => fst (emit header D x)) (final_sort A)
                = map (fun k : key => (nth (N.to_nat (fst k)) header [], nth (N.to_nat (snd k)) header [])) (map fst (final_sort A))).
    { rewrite map_map. reflexivity. }
    rewrite E. apply NoDup_map_on; [|exact HN].
    intros k1 k2 H1 H2 Ek. apply in_map_iff in H1, H2. destruct H1 as [r1 [<- H1]], H2 as [r2 [<- H2]].
    destruct (HK _ H1) as [xy1 [E1 [Ha1 Hb1]]], (HK _ H2) as [xy2 [E2 [Ha2 Hb2]]].
    rewrite E1, E2 in *. unfold kx in Ek. cbn [fst snd] in Ek. rewrite !nth_sidx in Ek by assumption.
    inversion Ek as [[Ea Eb]]. destruct xy1, xy2. cbn [fst snd] in *. subst. reflexivity.
  Qed.
End Main.
