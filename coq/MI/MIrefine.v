From Coq Require Import List Arith Lia ZArith.
From Outrank Require Import MI.MIcore MI.Model MI.Spec.
Import ListNotations.

Lemma count_where_general (F : nat -> Z) v c X : forall i,
  count_occ Z.eq_dec (map F (where_eq i v X)) c
  = count_occ pair_dec (combine X (map F (seq i (length X)))) (v, c).
Proof.
  induction X as [|x r IH]; intros i; [reflexivity|].
  cbn [where_eq length seq map combine].
  destruct (Z.eqb x v) eqn:E.
  - apply Z.eqb_eq in E. subst x. cbn [map].
    destruct (Z.eq_dec (F i) c) as [Ec|NEc].
    + rewrite !count_occ_cons_eq; [rewrite IH; reflexivity| |assumption]. rewrite Ec. reflexivity.
    + rewrite !count_occ_cons_neq; [apply IH| |assumption]. intros H. apply NEc. inversion H. reflexivity.
  - apply Z.eqb_neq in E. rewrite count_occ_cons_neq; [apply IH|]. intros H. apply E. inversion H. reflexivity.
Qed.

Lemma map_nth_seq (Y : list Z) : map (fun i => nth i Y 0%Z) (seq 0 (length Y)) = Y.
Proof.
  induction Y as [|y r IH]; [reflexivity|]. cbn [length seq map nth]. f_equal.
  rewrite <- seq_shift, map_map. exact IH.
Qed.

(* real class counts of a stratum = joint counts *)
Theorem stratum_counts X Y v c : length X = length Y ->
  count_occ Z.eq_dec (map (fun i => nth i Y 0%Z) (where_eq 0 v X)) c = count_occ pair_dec (combine X Y) (v, c).
Proof. intros Hl. rewrite count_where_general, Hl, map_nth_seq. reflexivity. Qed.

Lemma where_eq_spec v X : forall i j, In j (where_eq i v X) -> i <= j /\ nth (j - i) X 0%Z = v.
Proof.
  induction X as [|x r IH]; intros i j H; [contradiction|]. cbn [where_eq] in H.
  destruct (Z.eqb x v) eqn:E.
  - destruct H as [<-|H].
    + rewrite Nat.sub_diag. apply Z.eqb_eq in E. auto.
    + destruct (IH (S i) j H) as [Hle Hn]. split; [lia|]. replace (j - i) with (S (j - S i)) by lia. exact Hn.
  - destruct (IH (S i) j H) as [Hle Hn]. split; [lia|]. replace (j - i) with (S (j - S i)) by lia. exact Hn.
Qed.

(* displaced ("spoofed") class counts of a stratum = joint counts with the displaced vector *)
Theorem spoof_counts X Y v c : length X = length Y ->
  let n := length Y in let k := count_occ Z.eq_dec X v in
  count_occ Z.eq_dec (map (fun el => nth ((el + k) mod n) Y 0%Z) (where_eq 0 v X)) c
  = count_occ pair_dec (combine X (displace Y X)) (v, c).
Proof.
  intros Hl n k. unfold displace. fold n. replace (seq 0 n) with (seq 0 (length X)) by (unfold n; rewrite Hl; reflexivity).
  rewrite <- (count_where_general (fun i => nth ((i + count_occ Z.eq_dec X (nth i X 0%Z)) mod n) Y 0%Z) v c X 0).
  f_equal. apply map_ext_in. intros j Hj. destruct (where_eq_spec v X 0 j Hj) as [_ Hn].
  rewrite Nat.sub_0_r in Hn. rewrite Hn. reflexivity.
Qed.
Print Assumptions spoof_counts.
