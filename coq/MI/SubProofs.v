(* C04 — lemmas about the model MI/Subsample.v.  Everything is over lists, nat, Z, Q: no axioms. *)
From Coq Require Import List Arith ZArith QArith Bool Lia Sorted.
From Outrank Require Import MI.Subsample.
Import ListNotations.
Local Close Scope Q_scope.

(* ------------------------------------------------------------------------------------------------- *)
(* generic list facts *)

Lemma mapM_ok {A B} (f : A -> result B) (h : A -> B) (l : list A) :
  (forall a, In a l -> f a = Ok (h a)) -> mapM f l = Ok (map h l).
Proof.
  induction l as [|a t IH]; intros H; cbn [mapM map]; [reflexivity|].
  rewrite (H a) by (left; reflexivity). cbn [bind].
  rewrite IH by (intros b Hb; apply H; right; exact Hb). reflexivity.
Qed.

Lemma firstn_exact {A} (l1 l2 : list A) : firstn (length l1) (l1 ++ l2) = l1.
Proof. induction l1 as [|a t IH]; cbn; [destruct l2; reflexivity | rewrite IH; reflexivity]. Qed.

Lemma In_firstn_In {A} (x : A) n l : In x (firstn n l) -> In x l.
Proof. intros H. rewrite <- (firstn_skipn n l). apply in_or_app. left. exact H. Qed.

Lemma rows_all (A : list Z) : rows A (seq 0 (length A)) = A.
Proof.
  unfold rows. induction A as [|a t IH]; [reflexivity|].
  cbn [length seq map nth]. rewrite <- seq_shift, map_map. cbn [nth]. rewrite IH. reflexivity.
Qed.

Lemma rows_length A idx : length (rows A idx) = length idx.
Proof. apply map_length. Qed.

Lemma rows_agree A B idx : (forall i, In i idx -> nth i A 0%Z = nth i B 0%Z) -> rows A idx = rows B idx.
Proof. intros H. apply map_ext_in. exact H. Qed.

(* ------------------------------------------------------------------------------------------------- *)
(* np.where(X == v)[0] *)

Lemma where_from_spec X v : forall k i,
  In i (where_from k X v) <-> (k <= i /\ nth_error X (i - k) = Some v).
Proof.
  induction X as [|x t IH]; intros k i; cbn [where_from].
  - split; [intros [] | intros [_ H]; destruct (i - k); discriminate].
  - destruct (Z.eqb_spec x v) as [E|E].
    + cbn [In]. rewrite IH. split.
      * intros [H|[H1 H2]].
        -- subst i. split; [lia|]. rewrite Nat.sub_diag. cbn. congruence.
        -- split; [lia|]. replace (i - k) with (S (i - S k)) by lia. exact H2.
      * intros [H1 H2]. destruct (Nat.eq_dec k i) as [D|D]; [left; exact D|right].
        split; [lia|]. replace (i - k) with (S (i - S k)) in H2 by lia. exact H2.
    + rewrite IH. split.
      * intros [H1 H2]. split; [lia|]. replace (i - k) with (S (i - S k)) by lia. exact H2.
      * intros [H1 H2]. destruct (Nat.eq_dec k i) as [D|D].
        -- subst i. rewrite Nat.sub_diag in H2. cbn in H2. congruence.
        -- split; [lia|]. replace (i - k) with (S (i - S k)) in H2 by lia. exact H2.
Qed.

Lemma where_from_bound X v k i : In i (where_from k X v) -> k <= i < k + length X.
Proof.
  intros H. apply where_from_spec in H. destruct H as [H1 H2]. split; [exact H1|].
  assert (i - k < length X) by (apply nth_error_Some; congruence). lia.
Qed.

Lemma where_from_sorted X v : forall k, StronglySorted lt (where_from k X v).
Proof.
  induction X as [|x t IH]; intros k; cbn [where_from]; [constructor|].
  destruct (x =? v)%Z; [|apply IH].
  constructor; [apply IH|]. apply Forall_forall. intros i Hi. apply where_from_bound in Hi. lia.
Qed.

Lemma where_eq_spec X v i : In i (where_eq X v) <-> nth_error X i = Some v.
Proof.
  unfold where_eq. rewrite where_from_spec, Nat.sub_0_r. split; [intros [_ H]; exact H | intros H; split; [lia|exact H]].
Qed.

Lemma where_eq_bound X v i : In i (where_eq X v) -> i < length X.
Proof. intros H. apply where_from_bound in H. lia. Qed.

Lemma where_eq_sorted X v : StronglySorted lt (where_eq X v).
Proof. apply where_from_sorted. Qed.

Lemma where_from_length X v : forall k, length (where_from k X v) = count_occ Z.eq_dec X v.
Proof.
  induction X as [|x t IH]; intros k; cbn [where_from count_occ]; [reflexivity|].
  destruct (Z.eqb_spec x v) as [E|E]; destruct (Z.eq_dec x v) as [D|D]; try contradiction; cbn [length]; rewrite IH; reflexivity.
Qed.

Lemma where_eq_length X v : length (where_eq X v) = count_occ Z.eq_dec X v.
Proof. apply where_from_length. Qed.

Lemma where_eq_nonempty X v : In v X -> where_eq X v <> [].
Proof.
  intros H. apply In_nth_error in H. destruct H as [i Hi]. apply where_eq_spec in Hi.
  intros E. rewrite E in Hi. exact Hi.
Qed.

(* ------------------------------------------------------------------------------------------------- *)
(* numba_unique: increasing distinct values, exact counts *)

Definition keys_sorted (l : list (Z * nat)) : Prop := StronglySorted Z.lt (map fst l).

Lemma insert_count_keys v l x : In x (map fst (insert_count v l)) <-> x = v \/ In x (map fst l).
Proof.
  induction l as [|[w k] t IH]; cbn [insert_count map fst In].
  - intuition congruence.
  - destruct (Z.ltb_spec v w) as [L|L]; [cbn [map fst In]; intuition congruence|].
    destruct (Z.eqb_spec v w) as [E|E]; cbn [map fst In].
    + subst. intuition congruence.
    + rewrite IH. intuition congruence.
Qed.

Lemma insert_count_sorted v l : keys_sorted l -> keys_sorted (insert_count v l).
Proof.
  unfold keys_sorted. induction l as [|[w k] t IH]; intros S; cbn [insert_count map fst].
  - repeat constructor.
  - cbn [map fst] in S. apply StronglySorted_inv in S. destruct S as [S1 S2].
    destruct (Z.ltb_spec v w) as [L|L].
    + cbn [map fst]. constructor; [constructor; assumption|].
      constructor; [exact L|]. eapply Forall_impl; [|exact S2]. cbn. intros a Ha. lia.
    + destruct (Z.eqb_spec v w) as [E|E]; cbn [map fst].
      * constructor; assumption.
      * constructor; [apply IH; exact S1|]. apply Forall_forall. intros x Hx.
        apply insert_count_keys in Hx. destruct Hx as [Hx|Hx]; [subst; lia|].
        rewrite Forall_forall in S2. apply S2. exact Hx.
Qed.

Lemma numba_unique_sorted a : keys_sorted (numba_unique a).
Proof.
  induction a as [|x t IH]; cbn [numba_unique fold_right]; [constructor|].
  apply insert_count_sorted. exact IH.
Qed.

Lemma numba_unique_keys a x : In x (map fst (numba_unique a)) <-> In x a.
Proof.
  induction a as [|y t IH]; cbn [numba_unique fold_right]; [reflexivity|].
  fold (numba_unique t). rewrite insert_count_keys, IH. cbn [In]. intuition congruence.
Qed.

Fixpoint assoc (v : Z) (l : list (Z * nat)) : nat :=
  match l with [] => 0 | (w, k) :: t => if (v =? w)%Z then k else assoc v t end.

Lemma assoc_notin v l : ~ In v (map fst l) -> assoc v l = 0.
Proof.
  induction l as [|[w k] t IH]; intros H; cbn [assoc]; [reflexivity|].
  cbn [map fst In] in H. destruct (Z.eqb_spec v w) as [E|E]; [exfalso; apply H; left; congruence|].
  apply IH. intros G. apply H. right. exact G.
Qed.

Lemma assoc_insert v x l : keys_sorted l ->
  assoc x (insert_count v l) = if (x =? v)%Z then S (assoc x l) else assoc x l.
Proof.
  unfold keys_sorted. induction l as [|[w k] t IH]; intros S; cbn [insert_count].
  - cbn [assoc]. destruct (x =? v)%Z; reflexivity.
  - cbn [map fst] in S. apply StronglySorted_inv in S. destruct S as [S1 S2].
    destruct (Z.ltb_spec v w) as [L|L].
    + cbn [assoc]. destruct (Z.eqb_spec x v) as [E|E]; [|reflexivity].
      subst x. destruct (Z.eqb_spec v w) as [E2|E2]; [lia|].
      rewrite assoc_notin; [reflexivity|]. intros G. rewrite Forall_forall in S2. apply S2 in G. lia.
    + destruct (Z.eqb_spec v w) as [E|E].
      * subst w. cbn [assoc]. destruct (x =? v)%Z; reflexivity.
      * cbn [assoc]. rewrite IH by exact S1.
        destruct (Z.eqb_spec x w) as [E1|E1]; destruct (Z.eqb_spec x v) as [E2|E2]; try reflexivity. lia.
Qed.

Lemma assoc_numba_unique a v : assoc v (numba_unique a) = count_occ Z.eq_dec a v.
Proof.
  induction a as [|x t IH]; cbn [numba_unique fold_right count_occ]; [reflexivity|].
  fold (numba_unique t). rewrite assoc_insert by apply numba_unique_sorted. rewrite IH.
  destruct (Z.eqb_spec v x) as [E|E]; destruct (Z.eq_dec x v) as [D|D]; try reflexivity; congruence.
Qed.

Lemma In_assoc v k l : keys_sorted l -> In (v, k) l -> assoc v l = k.
Proof.
  unfold keys_sorted. induction l as [|[w j] t IH]; intros S H; [destruct H|].
  cbn [map fst] in S. apply StronglySorted_inv in S. destruct S as [S1 S2].
  cbn [assoc]. destruct H as [H|H].
  - inversion H. subst. rewrite Z.eqb_refl. reflexivity.
  - destruct (Z.eqb_spec v w) as [E|E]; [|apply IH; assumption].
    exfalso. subst w. rewrite Forall_forall in S2.
    assert (G : In v (map fst t)) by (apply in_map_iff; exists (v, k); split; [reflexivity|exact H]).
    apply S2 in G. lia.
Qed.

(* the count stored with a value is the number of rows carrying it *)
Lemma numba_unique_count a v k : In (v, k) (numba_unique a) -> k = length (where_eq a v).
Proof.
  intros H. rewrite where_eq_length, <- assoc_numba_unique. symmetry.
  apply In_assoc; [apply numba_unique_sorted|exact H].
Qed.

Lemma numba_unique_pos a v k : In (v, k) (numba_unique a) -> 0 < k.
Proof.
  intros H. pose proof (numba_unique_count a v k H) as E.
  assert (G : In v a).
  { apply numba_unique_keys. apply in_map_iff. exists (v, k). split; [reflexivity|exact H]. }
  apply where_eq_nonempty in G. destruct (where_eq a v); [congruence|]. cbn [length] in E. lia.
Qed.

Lemma f_values_sorted X : StronglySorted Z.lt (f_values X).
Proof. apply numba_unique_sorted. Qed.

Lemma f_values_In X v : In v (f_values X) <-> In v X.
Proof. apply numba_unique_keys. Qed.

(* ------------------------------------------------------------------------------------------------- *)
(* the index buffer *)

Definition sel (X : list Z) (q : nat) (fvals : list Z) : list nat :=
  concat (map (fun v => firstn q (where_eq X v)) fvals).

Lemma sel_length X q fvals : length (sel X q fvals) <= q * length fvals.
Proof.
  unfold sel. induction fvals as [|v t IH]; cbn [map concat length]; [lia|].
  rewrite app_length. pose proof (firstn_le_length q (where_eq X v)). lia.
Qed.

Lemma sel_bound X q fvals i : In i (sel X q fvals) -> i < length X.
Proof.
  unfold sel. intros H. apply in_concat in H. destruct H as [l [H1 H2]].
  apply in_map_iff in H1. destruct H1 as [v [E _]]. subst l.
  apply In_firstn_In in H2. apply where_eq_bound in H2. exact H2.
Qed.

Lemma write_ok buf off xs : off + length xs <= length buf ->
  write buf off xs = Ok (firstn off buf ++ map Written xs ++ skipn (off + length xs) buf).
Proof. intros H. unfold write. apply Nat.leb_le in H. rewrite H. reflexivity. Qed.

Lemma written_length buf off xs : off + length xs <= length buf ->
  length (firstn off buf ++ map Written xs ++ skipn (off + length xs) buf) = length buf.
Proof. intros H. rewrite !app_length, firstn_length, map_length, skipn_length. lia. Qed.

Lemma written_prefix buf off xs : off + length xs <= length buf ->
  firstn (off + length xs) (firstn off buf ++ map Written xs ++ skipn (off + length xs) buf)
  = firstn off buf ++ map Written xs.
Proof.
  intros H. rewrite app_assoc.
  replace (off + length xs) with (length (firstn off buf ++ map Written xs)) at 1
    by (rewrite app_length, firstn_length, map_length; lia).
  apply firstn_exact.
Qed.

(* loop invariant: after the loop the first [off'] cells are exactly the selected positions, written *)
Lemma fill_spec X q : forall fvals buf off,
  off + length (sel X q fvals) <= length buf ->
  exists buf', fill X q fvals buf off = Ok (buf', off + length (sel X q fvals)) /\
               length buf' = length buf /\
               firstn (off + length (sel X q fvals)) buf' = firstn off buf ++ map Written (sel X q fvals).
Proof.
  induction fvals as [|v t IH]; intros buf off H.
  - exists buf. cbn [fill sel map concat length]. rewrite Nat.add_0_r, app_nil_r. auto.
  - cbn [fill]. set (xs := firstn q (where_eq X v)).
    assert (E : sel X q (v :: t) = xs ++ sel X q t) by reflexivity.
    rewrite E in *. rewrite app_length in *.
    rewrite write_ok by lia. cbn [bind].
    set (buf1 := firstn off buf ++ map Written xs ++ skipn (off + length xs) buf).
    assert (L1 : length buf1 = length buf) by (apply written_length; lia).
    destruct (IH buf1 (off + length xs)) as [buf' [F1 [F2 F3]]]; [lia|].
    exists buf'. rewrite Nat.add_assoc. split; [exact F1|]. split; [lia|].
    rewrite F3. unfold buf1. rewrite written_prefix by lia. rewrite map_app, app_assoc. reflexivity.
Qed.

Lemma read_written g xs : forall k,
  map (fun pc => read_cell g (fst pc) (snd pc)) (combine (seq k (length (map Written xs))) (map Written xs))
  = map Z.of_nat xs.
Proof. induction xs as [|x t IH]; intros k; [reflexivity|]. cbn. f_equal. apply IH. Qed.

Lemma read_buffer_written g xs : read_buffer g (map Written xs) = map Z.of_nat xs.
Proof. apply read_written. Qed.

Lemma get_row_ok A i : i < length A -> get_row A (Z.of_nat i) = Ok (nth i A 0%Z).
Proof.
  intros H. unfold get_row.
  assert (C : ((0 <=? Z.of_nat i) && (Z.of_nat i <? Z.of_nat (length A)))%Z = true).
  { apply andb_true_intro. split; [apply Z.leb_le|apply Z.ltb_lt]; lia. }
  rewrite C, Nat2Z.id, (nth_error_nth' A 0%Z H). reflexivity.
Qed.

Lemma gather_ok A xs : (forall i, In i xs -> i < length A) ->
  mapM (get_row A) (map Z.of_nat xs) = Ok (rows A xs).
Proof.
  induction xs as [|x t IH]; intros H; [reflexivity|]. cbn [map mapM].
  rewrite get_row_ok by (apply H; left; reflexivity). cbn [bind].
  rewrite IH by (intros i Hi; apply H; right; exact Hi). reflexivity.
Qed.

(* the repaired sampler, for any list of stratum values: exactly the selected rows, never an error,
   no mention of g *)
Definition sel_indices (X : list Z) (r : Q) (fvals : list Z) : list nat :=
  let q := final_space_size r (length X) / length fvals in
  if q =? 0 then seq 0 (length X) else sel X q fvals.

Lemma fill_repaired X r fvals :
  final_space_size r (length X) / length fvals <> 0 ->
  exists buf off, fill X (final_space_size r (length X) / length fvals) fvals
                       (repeat Garbage (final_space_size r (length X))) 0 = Ok (buf, off) /\
                  off <= final_space_size r (length X) /\
                  firstn off buf = map Written (sel X (final_space_size r (length X) / length fvals) fvals).
Proof.
  set (fs := final_space_size r (length X)). set (q := fs / length fvals). intros Q.
  assert (K : length fvals <> 0) by (intros K; apply Q; unfold q; rewrite K; reflexivity).
  assert (B : length (sel X q fvals) <= fs).
  { pose proof (sel_length X q fvals). pose proof (Nat.mul_div_le fs (length fvals) K). unfold q in *. lia. }
  destruct (fill_spec X q fvals (repeat Garbage fs) 0) as [buf [F1 [F2 F3]]]; [rewrite repeat_length; lia|].
  exists buf, (length (sel X q fvals)). cbn [Nat.add firstn app] in *. auto.
Qed.

Lemma subsample_gen_spec g Y X r fvals : length Y = length X ->
  subsample_gen Repaired g Y X r fvals = Ok (rows Y (sel_indices X r fvals), rows X (sel_indices X r fvals)).
Proof.
  intros L. unfold subsample_gen, sel_indices.
  set (fs := final_space_size r (length X)). set (q := fs / length fvals).
  destruct (Nat.eqb_spec q 0) as [Q|Q].
  - rewrite rows_all. rewrite <- L, rows_all. reflexivity.
  - destruct (fill_repaired X r fvals Q) as [buf [off [F1 [F2 F3]]]]. fold fs q in F1, F2, F3.
    unfold index_buffer. fold fs q. rewrite F1. cbn [bind fst snd index_cells]. rewrite F3, read_buffer_written.
    rewrite gather_ok by (intros i Hi; eapply sel_bound; exact Hi). cbn [bind].
    rewrite gather_ok by (intros i Hi; rewrite L; eapply sel_bound; exact Hi). reflexivity.
Qed.

Lemma sel_indices_sampled X r : sel_indices X r (f_values X) = sampled_indices X r.
Proof. reflexivity. Qed.

Lemma subsample_spec g Y X r : length Y = length X ->
  subsample g Y X r = Ok (rows Y (sampled_indices X r), rows X (sampled_indices X r)).
Proof. intros L. unfold subsample. rewrite subsample_gen_spec by exact L. reflexivity. Qed.

Lemma subsample_safe g Y X r e : length Y = length X -> subsample g Y X r <> Error e.
Proof. intros L. rewrite subsample_spec by exact L. discriminate. Qed.

Lemma subsample_garbage_indep g1 g2 Y X r : length Y = length X -> subsample g1 Y X r = subsample g2 Y X r.
Proof. intros L. rewrite !subsample_spec by exact L. reflexivity. Qed.

Definition written_in_range (n : nat) (c : cell) : Prop := exists i, c = Written i /\ i < n.

(* the cells subsample_gen reads (index_buffer is the sub-term of its definition that builds them) *)
Lemma index_buffer_written X r : quota X r <> 0 ->
  exists cells, index_buffer Repaired X r (f_values X) = Ok cells /\
                Forall (written_in_range (length X)) cells /\
                length cells <= final_space_size r (length X) /\
                forall g, read_buffer g cells = map Z.of_nat (sampled_indices X r).
Proof.
  unfold index_buffer, sampled_indices. unfold quota, quota_of.
  set (fs := final_space_size r (length X)). set (q := fs / length (f_values X)). intros Q.
  destruct (Nat.eqb_spec q 0) as [Q0|_]; [contradiction|].
  destruct (fill_repaired X r (f_values X) Q) as [buf [off [F1 [F2 F3]]]]. fold fs q in F1, F2, F3.
  rewrite F1. cbn [bind fst snd index_cells]. exists (firstn off buf). split; [reflexivity|]. split; [|split].
  - rewrite F3. apply Forall_forall. intros c Hc. apply in_map_iff in Hc. destruct Hc as [i [E Hi]].
    exists i. split; [symmetry; exact E|]. eapply sel_bound. exact Hi.
  - rewrite firstn_length. lia.
  - intros g. rewrite F3. apply read_buffer_written.
Qed.

Lemma sampled_indices_bound X r i : In i (sampled_indices X r) -> i < length X.
Proof.
  unfold sampled_indices. destruct (quota X r =? 0).
  - intros H. apply in_seq in H. lia.
  - apply sel_bound.
Qed.

Lemma sampled_indices_nonempty X r : X <> [] -> sampled_indices X r <> [].
Proof.
  intros NE. unfold sampled_indices. destruct (Nat.eqb_spec (quota X r) 0) as [Q|Q].
  - destruct X; [congruence|]. cbn. discriminate.
  - destruct X as [|x t]; [congruence|].
    assert (G : In x (f_values (x :: t))) by (apply f_values_In; left; reflexivity).
    destruct (f_values (x :: t)) as [|v vs] eqn:E; [destruct G|].
    assert (Hv : In v (x :: t)) by (apply f_values_In; rewrite E; left; reflexivity).
    apply where_eq_nonempty in Hv. cbn [map concat].
    destruct (where_eq (x :: t) v) as [|i l]; [congruence|].
    destruct (quota (x :: t) r); [congruence|]. cbn. discriminate.
Qed.

(* ------------------------------------------------------------------------------------------------- *)
(* compute_entropies on equally long sample arrays *)

Lemma get_pos_ok A p : p < length A -> get_pos A p = Ok (nth p A 0%Z).
Proof. intros H. unfold get_pos. rewrite (nth_error_nth' A 0%Z H). reflexivity. Qed.

Lemma stratum_of_ok X' Y' cls v cnt : length X' = length Y' ->
  stratum_of X' Y' cls v cnt = Ok (stratum_spec X' Y' cls v cnt).
Proof.
  intros L. unfold stratum_of, stratum_spec.
  rewrite (mapM_ok (get_pos Y') (fun p => nth p Y' 0%Z)).
  2:{ intros p Hp. apply get_pos_ok. rewrite <- L. eapply where_eq_bound. exact Hp. }
  cbn [bind].
  rewrite (mapM_ok (fun el => get_pos Y' ((el + cnt) mod length Y')) (fun el => nth ((el + cnt) mod length Y') Y' 0%Z)).
  2:{ intros p Hp. apply get_pos_ok. apply where_eq_bound in Hp. apply Nat.mod_upper_bound. lia. }
  cbn [bind]. unfold rows. rewrite map_map. reflexivity.
Qed.

Lemma compute_entropies_ok X' Y' n fv c r : length X' = length Y' ->
  compute_entropies X' Y' n fv c r = Ok (terms_spec X' Y' n fv c r).
Proof.
  intros L. unfold compute_entropies, terms_spec.
  rewrite (mapM_ok _ (fun vc => stratum_spec X' Y' (map fst (numba_unique Y')) (fst vc) (snd vc))).
  2:{ intros vc _. apply stratum_of_ok. exact L. }
  reflexivity.
Qed.

(* the whole estimator: a function of the sampled rows, the original strata sizes, the flag and r *)
Lemma entry_spec g Y X r c : length Y = length X ->
  entry g Y X r c = Ok (terms_spec (rows X (entry_indices X r)) (rows Y (entry_indices X r)) (length X)
                                   (numba_unique X) (c && negb (veq X Y)) r).
Proof.
  intros L. unfold entry, entry_gen, entry_indices. destruct (lt_one r).
  - fold (f_values X). fold (subsample g Y X r). rewrite subsample_spec by exact L. cbn [bind fst snd].
    apply compute_entropies_ok. rewrite !rows_length. reflexivity.
  - cbn [bind fst snd]. rewrite rows_all. rewrite <- L at 2. rewrite rows_all.
    apply compute_entropies_ok. symmetry. exact L.
Qed.

Lemma entry_safe g Y X r c e : length Y = length X -> entry g Y X r c <> Error e.
Proof. intros L. rewrite entry_spec by exact L. discriminate. Qed.

Lemma entry_garbage_indep g1 g2 Y X r c : length Y = length X -> entry g1 Y X r c = entry g2 Y X r c.
Proof. intros L. rewrite !entry_spec by exact L. reflexivity. Qed.

Lemma entry_outside_irrelevant g Y Y' X r c :
  length Y = length X -> length Y' = length X ->
  (forall i, In i (entry_indices X r) -> nth i Y 0%Z = nth i Y' 0%Z) ->
  (veq X Y = veq X Y' \/ c = false) ->
  entry g Y X r c = entry g Y' X r c.
Proof.
  intros L L' A F. rewrite !entry_spec by assumption.
  rewrite (rows_agree Y Y' _ A).
  assert (E : c && negb (veq X Y) = c && negb (veq X Y')) by (destruct F as [F|F]; [rewrite F|subst c]; reflexivity).
  rewrite E. reflexivity.
Qed.

(* ------------------------------------------------------------------------------------------------- *)
(* finiteness: what reaches np.log is positive, what is divided by is non-zero *)

Definition finite_terms (t : terms) : Prop :=
  Forall (fun ab => 0 < fst ab /\ 0 < snd ab) (log_args t) /\ Forall (fun d => 0 < d) (denominators t).

Lemma nonzero_pos k : nonzero k = true -> 0 < k.
Proof. unfold nonzero. destruct k; [discriminate|lia]. Qed.

Lemma terms_spec_finite X' Y' n X c r : 0 < n -> finite_terms (terms_spec X' Y' n (numba_unique X) c r).
Proof.
  intros N.
  assert (SC : forall s, In s (t_strata (terms_spec X' Y' n (numba_unique X) c r)) -> 0 < s_cnt s).
  { intros s Hs. cbn [terms_spec t_strata] in Hs. apply in_map_iff in Hs. destruct Hs as [[v k] [E H]].
    subst s. cbn [stratum_spec s_cnt fst snd]. apply filter_In in H. destruct H as [H _].
    eapply numba_unique_pos. exact H. }
  split.
  - unfold log_args. apply Forall_app. split.
    + cbn [terms_spec t_corr t_classes t_n]. destruct c; [constructor|].
      apply Forall_forall. intros [a b] H. apply in_map_iff in H. destruct H as [k [E H]].
      inversion E. subst. cbn [fst snd]. split; [|exact N].
      apply in_map_iff in H. destruct H as [[v j] [E2 H]]. cbn [snd] in E2. subst j.
      eapply numba_unique_pos. exact H.
    + apply Forall_forall. intros [a b] H. apply in_flat_map in H. destruct H as [s [Hs H]].
      pose proof (SC s Hs) as P. cbn [fst snd].
      apply in_app_or in H. destruct H as [H|H].
      * apply in_map_iff in H. destruct H as [k [E H]]. inversion E. subst.
        apply filter_In in H. destruct H as [_ H]. split; [apply nonzero_pos; exact H|exact P].
      * destruct (t_corr _); [|destruct H].
        apply in_map_iff in H. destruct H as [k [E H]]. inversion E. subst.
        apply filter_In in H. destruct H as [_ H]. split; [apply nonzero_pos; exact H|exact P].
  - unfold denominators. constructor; [exact N|].
    apply Forall_forall. intros d H. apply in_map_iff in H. destruct H as [s [E H]]. subst d. apply SC. exact H.
Qed.

Lemma entry_finite g Y X r c : length Y = length X -> X <> [] ->
  exists t, entry g Y X r c = Ok t /\ finite_terms t.
Proof.
  intros L NE. rewrite entry_spec by exact L. eexists. split; [reflexivity|].
  apply terms_spec_finite. destruct X; [congruence|cbn; lia].
Qed.

Lemma entry_indices_nonempty X r : X <> [] -> entry_indices X r <> [].
Proof.
  intros NE. unfold entry_indices. destruct (lt_one r); [apply sampled_indices_nonempty; exact NE|].
  destruct X; [congruence|]. cbn. discriminate.
Qed.

(* ------------------------------------------------------------------------------------------------- *)
(* checker of the harness *)

Lemma list_Z_eqb_true a b : list_Z_eqb a b = true -> a = b.
Proof. unfold list_Z_eqb. destruct (list_eq_dec Z.eq_dec a b); [auto|discriminate]. Qed.

Lemma list_Z_eqb_refl a : list_Z_eqb a a = true.
Proof. unfold list_Z_eqb. destruct (list_eq_dec Z.eq_dec a a); [reflexivity|congruence]. Qed.

Lemma check_sound Y X r c o : C04_check (Y, X, r, c) o = true ->
  o = (rows Y (sampled_indices X r), rows X (sampled_indices X r)).
Proof.
  unfold C04_check. intros H. apply andb_prop in H. destruct H as [H1 H2].
  apply list_Z_eqb_true in H1, H2. destruct o as [a b]. cbn [fst snd] in *. congruence.
Qed.

Lemma check_model Y X r c g o : length Y = length X -> subsample g Y X r = Ok o -> C04_check (Y, X, r, c) o = true.
Proof.
  intros L H. rewrite subsample_spec in H by exact L. inversion H. subst o.
  unfold C04_check. cbn [fst snd]. rewrite !list_Z_eqb_refl. reflexivity.
Qed.

Lemma agree_on_sound idx Y Y2 : agree_on idx Y Y2 = true -> forall i, In i idx -> nth i Y 0%Z = nth i Y2 0%Z.
Proof.
  unfold agree_on. intros H i Hi. rewrite forallb_forall in H. apply Z.eqb_eq. apply H. exact Hi.
Qed.

Lemma outside_hyp_sound g Y X r c Y2 : length Y = length X ->
  outside_hyp (Y, X, r, c) Y2 = true -> entry g Y X r c = entry g Y2 X r c.
Proof.
  intros L H. unfold outside_hyp in H. apply andb_prop in H. destruct H as [H H3].
  apply andb_prop in H. destruct H as [H1 H2]. apply Nat.eqb_eq in H1.
  apply entry_outside_irrelevant; [exact L|exact H1|apply agree_on_sound; exact H2|].
  apply orb_prop in H3. destruct H3 as [H3|H3].
  - left. apply eqb_prop. exact H3.
  - right. destruct c; [discriminate|reflexivity].
Qed.

(* ------------------------------------------------------------------------------------------------- *)
(* the behaviour before fix 6ef24c0 depends on the garbage oracle *)

Definition wX : list Z := [0; 0; 0; 0; 0; 0; 0; 1; 2; 2]%Z.
Definition wY : list Z := [0; 1; 0; 1; 2; 2; 0; 1; 1; 0]%Z.
Definition w07 : Q := (11744051 # 16777216)%Q.        (* np.float32(0.7) = 11744051 / 2^24 *)

Lemma old_depends_on_garbage :
  entry_old (fun _ => 3%Z) wY wX w07 false <> entry_old (fun _ => 9%Z) wY wX w07 false.
Proof. vm_compute. discriminate. Qed.

Lemma old_can_fail : entry_old (fun _ => 10%Z) wY wX w07 false = Error IndexOutOfRange.
Proof. vm_compute. reflexivity. Qed.

Lemma old_unwritten_cell :
  exists buf off, fill wX 2 (f_values wX) (repeat Garbage 6) 0 = Ok (buf, off) /\ off = 5 /\ nth 5 buf (Written 0) = Garbage.
Proof. eexists. eexists. vm_compute. repeat split. Qed.

(* ------------------------------------------------------------------------------------------------- *)
(* packaged statements used by Props/C04.v *)

Lemma values_spec X : StronglySorted Z.lt (f_values X) /\ (forall v, In v (f_values X) <-> In v X).
Proof. split; [apply f_values_sorted | intros v; apply f_values_In]. Qed.

Lemma positions_spec X v :
  StronglySorted lt (where_eq X v) /\ (forall i, In i (where_eq X v) <-> nth_error X i = Some v).
Proof. split; [apply where_eq_sorted | intros i; apply where_eq_spec]. Qed.

Lemma counts_spec X v k : In (v, k) (numba_unique X) -> k = length (where_eq X v) /\ 0 < k.
Proof. intros H. split; [eapply numba_unique_count | eapply numba_unique_pos]; exact H. Qed.

Lemma sample_nonempty_spec X r :
  X <> [] -> sampled_indices X r <> [] /\ (forall i, In i (sampled_indices X r) -> i < length X).
Proof. intros H. split; [apply sampled_indices_nonempty; exact H | apply sampled_indices_bound]. Qed.

Lemma prefix_refuted : exists (g1 g2 : nat -> Z) Y X r c,
  length Y = length X /\ entry_old g1 Y X r c <> entry_old g2 Y X r c.
Proof.
  exists (fun _ => 3%Z), (fun _ => 9%Z), wY, wX, w07, false. split; [reflexivity | exact old_depends_on_garbage].
Qed.

Lemma prefix_unsafe : exists (g : nat -> Z) Y X r c,
  length Y = length X /\ entry_old g Y X r c = Error IndexOutOfRange.
Proof. exists (fun _ => 10%Z), wY, wX, w07, false. split; [reflexivity | exact old_can_fail]. Qed.

(* the side condition of entry_outside_irrelevant is necessary: Y = X with the flag on; changing ONE cell of Y in a
   row that is not sampled (row 3; the sample is rows 0,1,7,8,9) switches the self-pair test off and the correction
   on, and the term structure changes *)
Definition wY' : list Z := [0; 0; 0; 1; 0; 0; 0; 1; 2; 2]%Z.
Lemma outside_selfpair_refuted : exists (g : nat -> Z) Y Y' X r c,
  length Y = length X /\ length Y' = length X /\
  (forall i, In i (entry_indices X r) -> nth i Y 0%Z = nth i Y' 0%Z) /\
  Y <> Y' /\ entry g Y X r c <> entry g Y' X r c.
Proof.
  exists no_garbage, wX, wY', wX, w07, true. split; [reflexivity|]. split; [reflexivity|]. split; [|split].
  - apply agree_on_sound. vm_compute. reflexivity.
  - discriminate.
  - vm_compute. discriminate.
Qed.
