(* C04 / C01-C03 — the two Coq transcriptions of compute_entropies agree.
   MI/Model.v (C01-C03: list Z terms, no ratio, no error monad) is imported READ-ONLY and never opened, every
   name of it is written qualified.  Without subsampling (r >= 1) the estimator of MI/Subsample.v returns a
   term structure whose encoding — the one both harnesses evaluate in float64 — is the encoding of Model.entry.
   Lists / nat / Z only: closed under the global context (Model.eval_R is not used here). *)
From Coq Require Import List Arith ZArith QArith Bool Lia.
From Outrank Require MI.Model.
From Outrank Require Import MI.Subsample MI.SubProofs.
Import ListNotations.
Local Close Scope Q_scope.

(* first four components of enc_terms: what Model.enc produces (the fifth is the ratio) *)
Definition enc4 (t : terms) : Z * list Z * list (Z * list Z * list Z) * bool :=
  (Z.of_nat (t_n t), map Z.of_nat (t_classes t),
   map (fun s => (Z.of_nat (s_cnt s), enc_counts (s_real s), enc_counts (s_spoof s))) (t_strata t), t_corr t).

Lemma enc_terms_enc4 t : enc_terms t = (enc4 t, (Qnum (t_factor t), Zpos (Qden (t_factor t)))).
Proof. reflexivity. Qed.

Lemma keys_uvals a : map fst (numba_unique a) = Model.uvals a.
Proof.
  induction a as [|x t IH]; [reflexivity|]. cbn [numba_unique fold_right Model.uvals].
  fold (numba_unique t). fold (Model.uvals t). rewrite <- IH. generalize (numba_unique t). clear.
  induction l as [|[w k] r IH]; cbn [insert_count map fst Model.zinsert]; [reflexivity|].
  destruct (x <? w)%Z; [reflexivity|]. destruct (x =? w)%Z; [reflexivity|]. cbn [map fst]. rewrite IH. reflexivity.
Qed.

Lemma where_agree X v : forall k, where_from k X v = Model.where_eq k v X.
Proof. induction X as [|x t IH]; intros k; cbn [where_from Model.where_eq]; [reflexivity|]. rewrite !IH. reflexivity. Qed.

Lemma cnt_where a v : Model.cnt v a = length (where_eq a v).
Proof.
  unfold where_eq. generalize 0. induction a as [|x t IH]; intros k; cbn [Model.cnt where_from]; [reflexivity|].
  destruct (x =? v)%Z; cbn [length]; rewrite (IH (S k)); reflexivity.
Qed.

Lemma cnt_count_eq l c : Model.cnt c l = count_eq l c.
Proof.
  unfold count_eq. induction l as [|x t IH]; cbn [Model.cnt filter]; [reflexivity|].
  rewrite (Z.eqb_sym c x). destruct (x =? c)%Z; cbn [length]; rewrite IH; reflexivity.
Qed.

Lemma pairs_determined (f : Z -> nat) (l : list (Z * nat)) :
  (forall v k, In (v, k) l -> k = f v) -> l = combine (map fst l) (map f (map fst l)).
Proof.
  induction l as [|[v k] t IH]; intros H; [reflexivity|]. cbn [map fst combine].
  rewrite (H v k) by (left; reflexivity). f_equal. apply IH. intros w j Hw. apply H. right. exact Hw.
Qed.

Lemma nu_combine a :
  numba_unique a = combine (Model.uvals a) (map (fun v => Model.cnt v a) (Model.uvals a)).
Proof.
  rewrite <- keys_uvals. apply pairs_determined. intros v k H. rewrite cnt_where. eapply numba_unique_count. exact H.
Qed.

Lemma snd_counts a : map snd (numba_unique a) = map (fun v => Model.cnt v a) (Model.uvals a).
Proof.
  rewrite nu_combine at 1. generalize (Model.uvals a). intros u. induction u as [|x t IH]; [reflexivity|].
  cbn [map combine snd]. rewrite IH. reflexivity.
Qed.

Lemma nz_enc l : Model.nz (map Z.of_nat l) = enc_counts l.
Proof.
  unfold Model.nz, enc_counts, nonzero. induction l as [|k t IH]; [reflexivity|]. cbn [map filter].
  destruct k as [|k]; [cbn; exact IH|]. cbn [Nat.eqb negb]. cbn [map]. rewrite <- IH.
  destruct (Z.eqb_spec (Z.of_nat (S k)) 0) as [E|E]; [lia|reflexivity].
Qed.

Lemma veq_agree A B : Model.veq A B = veq A B.
Proof.
  unfold veq. destruct (list_eq_dec Z.eq_dec A B) as [E|E].
  - subst B. induction A as [|x t IH]; [reflexivity|]. cbn [Model.veq]. rewrite Z.eqb_refl, IH. reflexivity.
  - revert B E. induction A as [|x t IH]; intros [|y u] E; cbn [Model.veq]; try reflexivity; [congruence|].
    destruct (Z.eqb_spec x y) as [D|D]; [|reflexivity]. subst y. cbn [andb]. apply IH. congruence.
Qed.

Lemma stratum_agree X Y cls v k :
  (fun s => (Z.of_nat (s_cnt s), enc_counts (s_real s), enc_counts (s_spoof s))) (stratum_spec X Y cls v k) =
  (fun s => (Model.s_cnt s, Model.nz (Model.s_real s), Model.nz (Model.s_spoof s))) (Model.stratum_of X Y cls v k).
Proof.
  cbn beta. unfold stratum_spec, Model.stratum_of. cbn [s_cnt s_real s_spoof Model.s_cnt Model.s_real Model.s_spoof].
  unfold where_eq. rewrite where_agree. unfold rows, Model.gather. rewrite map_map.
  rewrite <- !nz_enc, !map_map. f_equal; [f_equal|]; f_equal; apply map_ext; intros c; rewrite cnt_count_eq; reflexivity.
Qed.

Lemma terms_agree X Y c r :
  enc4 (terms_spec X Y (length X) (numba_unique X) c r) = Model.enc (Model.core Y X c).
Proof.
  unfold Model.core, Model.numba_unique, Model.compute_entropies, Model.numba_unique, Model.enc, enc4, terms_spec.
  cbn [t_n t_classes t_strata t_corr Model.t_n Model.t_classes Model.t_strata Model.t_corr].
  rewrite snd_counts, keys_uvals, !map_map. f_equal. f_equal.
  rewrite (nu_combine X) at 1.
  set (l := combine (Model.uvals X) (map (fun v => Model.cnt v X) (Model.uvals X))).
  assert (F : filter (fun vc => negb (snd vc =? 1)) l = filter Model.not_singleton l) by reflexivity.
  rewrite F. apply map_ext. intros [v k]. cbn [fst snd]. apply stratum_agree.
Qed.

(* no subsampling (r >= 1): same encoded terms as the C01-C03 model *)
Theorem entry_agrees_full (g : nat -> Z) Y X r c : length Y = length X -> lt_one r = false ->
  exists t, entry g Y X r c = Ok t /\ enc4 t = Model.enc (Model.entry Y X c).
Proof.
  intros L R. rewrite entry_spec by exact L. unfold entry_indices. rewrite R.
  rewrite rows_all. replace (rows Y (seq 0 (length X))) with Y by (rewrite <- L; symmetry; apply rows_all). eexists. split; [reflexivity|].
  rewrite terms_agree. unfold Model.entry. rewrite veq_agree.
  destruct (veq X Y); destruct c; reflexivity.
Qed.
