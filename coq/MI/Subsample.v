(* C04 — model of the subsampled estimation path of
     /repo/outrank/algorithms/feature_ranking/ranking_mi_numba.py
   (stratified_subsampling, and mutual_info_estimator_numba / compute_entropies as they are used when
   approximation_factor < 1.0).  Model only: definitions, no proofs (proofs are in MI/SubProofs.v), so the
   model still evaluates when a proof breaks.

   Conventions.  Call shape  mutual_info_estimator_numba(Y, X, r, c):
     X  second argument; the strata are the distinct values of X ("target values" of the property text);
     Y  first argument (the feature whose classes are counted inside each stratum);
     r  the EXACT rational value of the float32 argument (a dyadic rational num/2^k, passed as a [Q]).
        For n < 2^29 the code's float computations int(float32 * int64) (binary64 product, truncation) and
        int(a / b) (binary64 division, truncation) equal the exact floors used below: proved with Flocq in
        MI/SubFloat.v (C04_float_product_exact, C04_float_quotient_floor, C04_float_quota).
     c  cardinality_correction.
   Values are [Z] (codes >= 0 in every call the harness makes; the transcription of numba_unique below is
   sort + count and agrees with the container-based code exactly on codes >= 0), positions are [nat].

   The index buffer `final_index_array = np.empty(final_space_size)` is explicit: a cell is either
   [Written i] or [Garbage]; a garbage cell at position p, when used as a row index, yields [g p] — the
   garbage oracle g : nat -> Z stands for whatever earlier allocations left in that memory after the
   astype(int32) conversion.  Quantifying over g is quantifying over all allocator histories.
   A row index outside [0, n) is the error value [IndexOutOfRange] (stratified_subsampling is compiled without
   bounds checks: the real behaviour is an arbitrary read or a crash); a slice assignment that does not fit
   into the buffer is [WriteOutOfRange]. *)
From Coq Require Import List Arith ZArith QArith Bool.
Import ListNotations.
Local Close Scope Q_scope.

Inductive error := WriteOutOfRange | IndexOutOfRange.
Inductive result (A : Type) := Ok (a : A) | Error (e : error).
Arguments Ok {A} a.
Arguments Error {A} e.

Definition bind {A B} (r : result A) (f : A -> result B) : result B :=
  match r with Ok a => f a | Error e => Error e end.

Fixpoint mapM {A B} (f : A -> result B) (l : list A) : result (list B) :=
  match l with
  | [] => Ok []
  | a :: t => bind (f a) (fun b => bind (mapM f t) (fun bs => Ok (b :: bs)))
  end.

(* ---- numba_unique: distinct values in increasing order, with their counts ------------------------- *)
Fixpoint insert_count (v : Z) (l : list (Z * nat)) : list (Z * nat) :=
  match l with
  | [] => [(v, 1)]
  | (w, k) :: t => if (v <? w)%Z then (v, 1) :: l
                   else if (v =? w)%Z then (w, S k) :: t
                   else (w, k) :: insert_count v t
  end.
Definition numba_unique (a : list Z) : list (Z * nat) := fold_right insert_count [] a.
Definition f_values (X : list Z) : list Z := map fst (numba_unique X).

(* ---- np.where(X == v)[0] ---------------------------------------------------------------------------- *)
Fixpoint where_from (k : nat) (X : list Z) (v : Z) : list nat :=
  match X with
  | [] => []
  | x :: t => if (x =? v)%Z then k :: where_from (S k) t v else where_from (S k) t v
  end.
Definition where_eq (X : list Z) (v : Z) : list nat := where_from 0 X v.

(* ---- sizes ------------------------------------------------------------------------------------------- *)
(* int(approximation_factor * all_events) *)
Definition final_space_size (r : Q) (n : nat) : nat := Z.to_nat ((Qnum r * Z.of_nat n) / Zpos (Qden r)).
(* int(final_space_size / len(_f_values_X));  x / 0 = 0 in nat, the code is never called with no values (n >= 1) *)
Definition quota_of (r : Q) (n : nat) (nvalues : nat) : nat := final_space_size r n / nvalues.
Definition quota (X : list Z) (r : Q) : nat := quota_of r (length X) (length (f_values X)).

(* ---- the index buffer -------------------------------------------------------------------------------- *)
Inductive cell := Written (i : nat) | Garbage.
Definition buffer := list cell.

(* final_index_array[off : off + len(xs)] = xs *)
Definition write (buf : buffer) (off : nat) (xs : list nat) : result buffer :=
  if off + length xs <=? length buf
  then Ok (firstn off buf ++ map Written xs ++ skipn (off + length xs) buf)
  else Error WriteOutOfRange.

(* the loop `for fval in _f_values_X` carrying (buffer, index_offset) *)
Fixpoint fill (X : list Z) (q : nat) (fvals : list Z) (buf : buffer) (off : nat) : result (buffer * nat) :=
  match fvals with
  | [] => Ok (buf, off)
  | v :: rest => let xs := firstn q (where_eq X v) in
                 bind (write buf off xs) (fun buf' => fill X q rest buf' (off + length xs))
  end.

(* the value a cell yields when it is used as a row index *)
Definition read_cell (g : nat -> Z) (p : nat) (c : cell) : Z :=
  match c with Written i => Z.of_nat i | Garbage => g p end.
Definition read_buffer (g : nat -> Z) (buf : buffer) : list Z :=
  map (fun pc => read_cell g (fst pc) (snd pc)) (combine (seq 0 (length buf)) buf).

(* A[z] for a row index z taken from the buffer *)
Definition get_row (A : list Z) (z : Z) : result Z :=
  if ((0 <=? z) && (z <? Z.of_nat (length A)))%Z
  then match nth_error A (Z.to_nat z) with Some a => Ok a | None => Error IndexOutOfRange end
  else Error IndexOutOfRange.

(* the two versions of the line after the loop:
     Repaired:  final_index_array[:index_offset].astype(np.int32)      (fix commit 6ef24c0)
     PreFix:    final_index_array.astype(np.int32)                      (whole buffer)            *)
Inductive version := Repaired | PreFix.
Definition index_cells (ver : version) (buf : buffer) (off : nat) : buffer :=
  match ver with Repaired => firstn off buf | PreFix => buf end.

(* the part of the index buffer that is converted to row indices (final_index_array[...] before .astype);
   this is the ONLY place where the buffer is built, subsample_gen below reads these cells and nothing else *)
Definition index_buffer (ver : version) (X : list Z) (r : Q) (fvals : list Z) : result buffer :=
  let fs := final_space_size r (length X) in
  let q := fs / length fvals in
  bind (fill X q fvals (repeat Garbage fs) 0) (fun bo => Ok (index_cells ver (fst bo) (snd bo))).

Definition subsample_gen (ver : version) (g : nat -> Z) (Y X : list Z) (r : Q) (fvals : list Z)
  : result (list Z * list Z) :=
  let fs := final_space_size r (length X) in
  let q := fs / length fvals in
  if q =? 0 then Ok (Y, X) else
  bind (index_buffer ver X r fvals) (fun cells =>
  let idx := read_buffer g cells in
  bind (mapM (get_row X) idx) (fun X' =>
  bind (mapM (get_row Y) idx) (fun Y' => Ok (Y', X')))).

(* stratified_subsampling(Y, X, r, f_values) as called by the estimator *)
Definition subsample (g : nat -> Z) (Y X : list Z) (r : Q) : result (list Z * list Z) :=
  subsample_gen Repaired g Y X r (f_values X).

(* ---- the rows the property says are used -------------------------------------------------------------- *)
Definition sampled_indices (X : list Z) (r : Q) : list nat :=
  let q := quota X r in            (* let-bound: evaluated once, not once per value *)
  if q =? 0 then seq 0 (length X)
  else concat (map (fun v => firstn q (where_eq X v)) (f_values X)).
Definition rows (A : list Z) (idx : list nat) : list Z := map (fun i => nth i A 0%Z) idx.

(* ---- compute_entropies: exact integer term structure --------------------------------------------------- *)
Record stratum := { s_cnt : nat;            (* f_value_counts[f_index]: size of the stratum in the ORIGINAL X *)
                    s_real : list nat;      (* nonzero_class_counts, one entry per class value of the sample *)
                    s_spoof : list nat }.   (* nonzero_class_counts_spoofed *)
Record terms := { t_n : nat;                (* all_events = len(original X) *)
                  t_classes : list nat;     (* class_counts of the (sub)sampled Y *)
                  t_strata : list stratum;  (* strata with original count <> 1, in f_values order *)
                  t_corr : bool;            (* cardinality_correction after the self-pair test *)
                  t_factor : Q }.           (* approximation_factor *)

Definition count_eq (l : list Z) (c : Z) : nat := length (filter (Z.eqb c) l).   (* np.count_nonzero(l == c) *)

Definition get_pos (A : list Z) (p : nat) : result Z :=
  match nth_error A p with Some a => Ok a | None => Error IndexOutOfRange end.

Definition stratum_of (X' Y' : list Z) (class_values : list Z) (v : Z) (cnt : nat) : result stratum :=
  let pos := where_eq X' v in                                           (* x_value_subspace[0] *)
  bind (mapM (get_pos Y') pos) (fun Ycl =>                             (* Y[x_value_subspace] *)
  bind (mapM (fun el => get_pos Y' ((el + cnt) mod length Y')) pos) (fun Ysp =>   (* Y[(el + cnt) % len(Y)] *)
  Ok {| s_cnt := cnt; s_real := map (count_eq Ycl) class_values; s_spoof := map (count_eq Ysp) class_values |})).

Definition compute_entropies (X' Y' : list Z) (all_events : nat) (fv : list (Z * nat)) (c : bool) (r : Q)
  : result terms :=
  let cls := numba_unique Y' in
  bind (mapM (fun vc => stratum_of X' Y' (map fst cls) (fst vc) (snd vc))
             (filter (fun vc => negb (snd vc =? 1)) fv)) (fun ss =>
  Ok {| t_n := all_events; t_classes := map snd cls; t_strata := ss; t_corr := c; t_factor := r |}).

Definition veq (A B : list Z) : bool := if list_eq_dec Z.eq_dec A B then true else false.   (* np.array_equal *)
Definition lt_one (r : Q) : bool := (Qnum r <? Zpos (Qden r))%Z.                              (* r < 1.0 *)

Definition entry_gen (ver : version) (g : nat -> Z) (Y X : list Z) (r : Q) (c : bool) : result terms :=
  let fv := numba_unique X in
  let c' := c && negb (veq X Y) in
  bind (if lt_one r then subsample_gen ver g Y X r (map fst fv) else Ok (Y, X)) (fun YX =>
  compute_entropies (snd YX) (fst YX) (length X) fv c' r).

(* mutual_info_estimator_numba(Y, X, r, c), current code *)
Definition entry (g : nat -> Z) (Y X : list Z) (r : Q) (c : bool) : result terms := entry_gen Repaired g Y X r c.
(* before fix 6ef24c0 *)
Definition entry_old (g : nat -> Z) (Y X : list Z) (r : Q) (c : bool) : result terms := entry_gen PreFix g Y X r c.

(* closed form of the term structure on given sample rows (total: default 0 for impossible reads) *)
Definition stratum_spec (X' Y' : list Z) (class_values : list Z) (v : Z) (cnt : nat) : stratum :=
  let pos := where_eq X' v in
  {| s_cnt := cnt;
     s_real := map (count_eq (rows Y' pos)) class_values;
     s_spoof := map (count_eq (rows Y' (map (fun el => (el + cnt) mod length Y') pos))) class_values |}.
Definition terms_spec (X' Y' : list Z) (all_events : nat) (fv : list (Z * nat)) (c : bool) (r : Q) : terms :=
  let cls := numba_unique Y' in
  {| t_n := all_events; t_classes := map snd cls;
     t_strata := map (fun vc => stratum_spec X' Y' (map fst cls) (fst vc) (snd vc))
                     (filter (fun vc => negb (snd vc =? 1)) fv);
     t_corr := c; t_factor := r |}.
Definition entry_indices (X : list Z) (r : Q) : list nat :=
  if lt_one r then sampled_indices X r else seq 0 (length X).

(* ---- what is fed to np.log and what is divided by ------------------------------------------------------ *)
(* every (numerator, denominator) whose quotient is an argument of np.log, after the code's `!= 0` guard *)
Definition nonzero (k : nat) : bool := negb (k =? 0).
Definition log_args (t : terms) : list (nat * nat) :=
  (if t_corr t then [] else map (fun k => (k, t_n t)) (t_classes t)) ++
  flat_map (fun s => map (fun k => (k, s_cnt s)) (filter nonzero (s_real s)) ++
                     (if t_corr t then map (fun k => (k, s_cnt s)) (filter nonzero (s_spoof s)) else []))
           (t_strata t).
(* every divisor: all_events (class probability, initial_prob) and the stratum sizes (conditional_prob) *)
Definition denominators (t : terms) : list nat := t_n t :: map s_cnt (t_strata t).

(* ---- Appendix-C interface: case, observable, encoder, checker ------------------------------------------ *)
Definition C04_case : Type := (list Z * list Z * Q * bool)%type.                 (* Y, X, r, c *)
Definition C04_obs : Type := (list Z * list Z)%type.                             (* arrays returned by stratified_subsampling *)
Definition no_garbage : nat -> Z := fun _ => 0%Z.

Definition enc_counts (l : list nat) : list Z := map Z.of_nat (filter nonzero l).
Definition enc_terms (t : terms) :=
  (Z.of_nat (t_n t), map Z.of_nat (t_classes t),
   map (fun s => (Z.of_nat (s_cnt s), enc_counts (s_real s), enc_counts (s_spoof s))) (t_strata t),
   t_corr t, (Qnum (t_factor t), Zpos (Qden (t_factor t)))).
Definition enc_error (e : error) : Z := match e with WriteOutOfRange => 1%Z | IndexOutOfRange => 2%Z end.

(* the model's observable for a case: Some (encoded terms) or None with the error code *)
Definition C04_model (k : C04_case) :=
  let '(Y, X, r, c) := k in
  match entry no_garbage Y X r c with
  | Ok t => (0%Z, Some (enc_terms t))
  | Error e => (enc_error e, None)
  end.

Definition list_Z_eqb (a b : list Z) : bool := if list_eq_dec Z.eq_dec a b then true else false.
(* checker for what the implementation's stratified_subsampling returned *)
Definition C04_check (k : C04_case) (o : C04_obs) : bool :=
  let '(Y, X, r, c) := k in
  list_Z_eqb (fst o) (rows Y (sampled_indices X r)) && list_Z_eqb (snd o) (rows X (sampled_indices X r)).
(* hypothesis of outside-irrelevance as a boolean: Y2 agrees with Y on the sampled rows, and the self-pair
   test answers the same or the flag is off *)
Definition agree_on (idx : list nat) (Y Y2 : list Z) : bool :=
  forallb (fun i => (nth i Y 0 =? nth i Y2 0)%Z) idx.
Definition outside_hyp (k : C04_case) (Y2 : list Z) : bool :=
  let '(Y, X, r, c) := k in
  (length Y2 =? length X) && agree_on (entry_indices X r) Y Y2 && (Bool.eqb (veq X Y) (veq X Y2) || negb c).
