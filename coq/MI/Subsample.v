From Coq Require Import List Arith Lia ZArith.
Import ListNotations.

(* the index buffer of stratified_subsampling, with uninitialised cells made explicit *)
Section Buffer.

  Variable garbage : nat -> nat.          (* whatever earlier allocations left in cell i: the allocator history *)
  Definition buffer := list (option nat). (* None = never written *)

  Fixpoint write (buf : buffer) (off : nat) (xs : list nat) : buffer :=
    match xs with
    | [] => buf
    | x :: r => write (firstn off buf ++ Some x :: skipn (S off) buf) (S off) r
    end.

  (* one pass of the loop: per value, take the first q indices of its stratum and write them at the running offset *)
  Fixpoint fill (buf : buffer) (off : nat) (strata : list (list nat)) (q : nat) : buffer * nat :=
    match strata with
    | [] => (buf, off)
    | s :: r => let xs := firstn q s in fill (write buf off xs) (off + length xs) r q
    end.

  Definition read (buf : buffer) : list nat := map (fun '(i, c) => match c with Some x => x | None => garbage i end) (combine (seq 0 (length buf)) buf).

  (* old code: uses the whole buffer; repaired code: only the written prefix [:off] *)
  Definition result_old (size : nat) strata q := read (fst (fill (repeat None size) 0 strata q)).
  Definition result_new (size : nat) strata q := let '(b, off) := fill (repeat None size) 0 strata q in read (firstn off b).

  Lemma write_length xs : forall buf off, off + length xs <= length buf -> length (write buf off xs) = length buf.
  Proof.
    induction xs as [|x r IH]; intros buf off H; [reflexivity|]. cbn [write length] in *.
    rewrite IH; rewrite app_length; cbn [length]; rewrite firstn_length, skipn_length; lia.
  Qed.

  Lemma write_prefix xs : forall buf off, off + length xs <= length buf ->
    firstn (off + length xs) (write buf off xs) = firstn off buf ++ map Some xs.
  Proof.
    induction xs as [|x r IH]; intros buf off H.
    - cbn. rewrite Nat.add_0_r, app_nil_r. reflexivity.
    - cbn [write length map] in *.
      assert (Hl : length (firstn off buf ++ Some x :: skipn (S off) buf) = length buf)
        by (rewrite app_length; cbn [length]; rewrite firstn_length, skipn_length; lia).
      replace (off + S (length r)) with (S off + length r) by lia.
      rewrite IH by (rewrite Hl; lia).
      assert (E : firstn (S off) (firstn off buf ++ Some x :: skipn (S off) buf) = firstn off buf ++ [Some x]).
      { rewrite firstn_app, firstn_length, Nat.min_l by lia.
        replace (S off - off) with 1 by lia. rewrite firstn_all2 by (rewrite firstn_length; lia). reflexivity. }
      rewrite E, <- app_assoc. reflexivity.
  Qed.

  Lemma fill_spec strata q : forall buf off,
    off + length (concat (map (firstn q) strata)) <= length buf ->
    let '(b, off') := fill buf off strata q in
    off' = off + length (concat (map (firstn q) strata)) /\ length b = length buf /\
    firstn off' b = firstn off buf ++ map Some (concat (map (firstn q) strata)).
  Proof.
    induction strata as [|s r IH]; intros buf off H; cbn [fill map concat].
    - cbn. rewrite Nat.add_0_r, app_nil_r. auto.
    - cbn [map concat] in H. rewrite app_length in H.
      specialize (IH (write buf off (firstn q s)) (off + length (firstn q s))).
      rewrite write_length in IH by lia.
      destruct (fill (write buf off (firstn q s)) (off + length (firstn q s)) r q) as [b off'].
      destruct IH as (H1 & H2 & H3); [lia|]. repeat split.
      + rewrite H1, app_length. lia.
      + exact H2.
      + rewrite H3, write_prefix by lia. rewrite map_app, <- app_assoc. reflexivity.
  Qed.

  (* C04_all_written + C04_garbage_indep + C04_prefix_rows for the repaired code *)
  Theorem result_new_spec size strata q :
    length (concat (map (firstn q) strata)) <= size ->
    result_new size strata q = concat (map (firstn q) strata).
  Proof.
    intros H. unfold result_new.
    pose proof (fill_spec strata q (repeat None size) 0) as F. rewrite repeat_length in F.
    destruct (fill (repeat None size) 0 strata q) as [b off]. destruct F as (H1 & H2 & H3); [lia|].
    cbn [firstn app] in H3. rewrite H3. unfold read. rewrite map_length.
    set (xs := concat (map (firstn q) strata)). clearbody xs. clear.
    assert (G : forall k, map (fun '(i, c) => match c with Some x => x | None => garbage i end)
                               (combine (seq k (length xs)) (map Some xs)) = xs).
    { induction xs as [|x r IH]; intros k; [reflexivity|]. cbn. rewrite IH. reflexivity. }
    apply G.
  Qed.
End Buffer.

(* the result of the repaired code does not mention the garbage oracle at all *)
Corollary garbage_indep g1 g2 size strata q :
  length (concat (map (firstn q) strata)) <= size ->
  result_new g1 size strata q = result_new g2 size strata q.
Proof. intros H. rewrite !result_new_spec by exact H. reflexivity. Qed.

(* the old code does depend on it: X = [0]*7 ++ [1;2;2], size 6, quota 2 *)
Example old_refuted : exists g1 g2 : nat -> nat,
  result_old g1 6 [[0;1;2;3;4;5;6]; [7]; [8;9]] 2 <> result_old g2 6 [[0;1;2;3;4;5;6]; [7]; [8;9]] 2.
Proof. exists (fun _ => 3), (fun _ => 9). vm_compute. discriminate. Qed.
Print Assumptions garbage_indep.
