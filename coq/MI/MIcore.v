From Coq Require Import Reals List Lra Lia Arith ZArith Rpower.
From Outrank Require Import Common.RSum.
Import ListNotations.
Open Scope R_scope.

Definition pair_dec : forall a b : Z * Z, {a = b} + {a <> b}.
Proof. decide equality; apply Z.eq_dec. Defined.

Lemma rsum_list_prod {A B} (f : A -> B -> R) la lb :
  rsum (fun a => rsum (fun b => f a b) lb) la = rsum (fun ab => f (fst ab) (snd ab)) (list_prod la lb).
Proof.
  induction la as [|a la IH]; [reflexivity|].
  rewrite rsum_cons. simpl list_prod. rewrite rsum_app, IH, rsum_map. reflexivity.
Qed.



Section NoDupProd.
  Context {A B : Type}.
  Lemma NoDup_app_disj (l1 l2 : list (A*B)) : NoDup l1 -> NoDup l2 -> (forall x, In x l1 -> ~ In x l2) -> NoDup (l1 ++ l2).
  Proof.
    induction l1 as [|a l1 IH]; intros H1 H2 Hd; [exact H2|].
    inversion H1; subst. simpl. constructor.
    - rewrite in_app_iff. intros [H|H]; [contradiction|]. apply (Hd a); [now left|assumption].
    - apply IH; try assumption. intros x Hx. apply Hd. now right.
  Qed.
  Lemma NoDup_map_pair (a : A) (lb : list B) : NoDup lb -> NoDup (map (fun y => (a, y)) lb).
  Proof. induction 1; simpl; constructor; [|assumption]. rewrite in_map_iff. intros [y [E Hy]]. inversion E; subst. contradiction. Qed.
  Lemma NoDup_prod (la : list A) (lb : list B) : NoDup la -> NoDup lb -> NoDup (list_prod la lb).
  Proof.
    intros Ha Hb. induction Ha as [|a la Hnin Ha IH]; [constructor|].
    simpl. apply NoDup_app_disj; [apply NoDup_map_pair; assumption|assumption|].
    intros [x y] Hin Hin2. rewrite in_map_iff in Hin. destruct Hin as [y' [E _]]. inversion E; subst.
    apply in_prod_iff in Hin2. tauto.
  Qed.
End NoDupProd.

Lemma count_pair_le_fst (P : list (Z*Z)) x y : (count_occ pair_dec P (x, y) <= count_occ Z.eq_dec (map fst P) x)%nat.
Proof.
  induction P as [|[a b] Q IH]; [simpl; lia|].
  cbn [map fst count_occ].
  destruct (pair_dec (a, b) (x, y)) as [E|NE]; destruct (Z.eq_dec a x) as [E'|NE']; try lia.
  inversion E; subst; contradiction.
Qed.
Lemma count_pair_le_snd (P : list (Z*Z)) x y : (count_occ pair_dec P (x, y) <= count_occ Z.eq_dec (map snd P) y)%nat.
Proof.
  induction P as [|[a b] Q IH]; [simpl; lia|].
  cbn [map snd count_occ].
  destruct (pair_dec (a, b) (x, y)) as [E|NE]; destruct (Z.eq_dec b y) as [E'|NE']; try lia.
  inversion E; subst; contradiction.
Qed.

Section MI.
  Variable P : list (Z * Z).
  Let X := map fst P.
  Let Y := map snd P.
  Let n := INR (length P).
  Definition cX x := INR (count_occ Z.eq_dec X x).
  Definition cY y := INR (count_occ Z.eq_dec Y y).
  Definition cXY x y := INR (count_occ pair_dec P (x, y)).

  Definition MIp : R := / n * rsum (fun xy => ln (n * cXY (fst xy) (snd xy) / (cX (fst xy) * cY (snd xy)))) P.

  Variables UX UY : list Z.
  Hypothesis HndX : NoDup UX.
  Hypothesis HndY : NoDup UY.
  Hypothesis HinX : incl X UX.
  Hypothesis HinY : incl Y UY.

  (* what the numba code computes, expressed on the counts it feeds to log *)
  Definition Hfull_c : R := rsum (fun c => - (cY c / n) * ln (cY c / n)) UY.
  Definition stratum_c (v : Z) : R :=
    if Nat.eqb (count_occ Z.eq_dec X v) 1 then 0 else
    rsum (fun c => if Nat.eqb (count_occ pair_dec P (v, c)) 0 then 0
                   else (cX v / n) * (cXY v c / cX v) * (- ln (cXY v c / cX v))) UY.
  Definition Hcond_c : R := rsum stratum_c UX.

  Hypothesis Hn : (0 < length P)%nat.
  Lemma n_pos : 0 < n. Proof. unfold n. apply lt_0_INR. exact Hn. Qed.

  Lemma Hfull_pointwise : Hfull_c = rsum (fun xy => - / n * ln (cY (snd xy) / n)) P.
  Proof.
    unfold Hfull_c. pose proof n_pos as Hp.
    rewrite <- (rsum_map snd (fun y => - / n * ln (cY y / n)) P). fold Y.
    rewrite <- (sum_by_value Z.eq_dec _ Y UY HndY HinY).
    apply rsum_ext_in. intros c _. unfold cY. field. lra.
  Qed.

  Lemma stratum_inner v :
    stratum_c v = rsum (fun c => cXY v c * (- / n * ln (cXY v c / cX v))) UY.
  Proof.
    pose proof n_pos as Hp. unfold stratum_c.
    destruct (Nat.eqb (count_occ Z.eq_dec X v) 1) eqn:E1.
    - apply Nat.eqb_eq in E1. symmetry. apply rsum_zero. intros c _.
      pose proof (count_pair_le_fst P v c) as Hle. fold X in Hle. unfold cXY, cX. rewrite E1 in *.
      destruct (count_occ pair_dec P (v, c)) as [|[|k]] eqn:E2; try lia.
      + simpl. lra.
      + simpl. replace (1 / 1) with 1 by field. rewrite ln_1. lra.
    - apply rsum_ext_in. intros c _.
      destruct (Nat.eqb (count_occ pair_dec P (v, c)) 0) eqn:E2.
      + apply Nat.eqb_eq in E2. unfold cXY. rewrite E2. simpl. lra.
      + apply Nat.eqb_neq in E2. pose proof (count_pair_le_fst P v c) as Hle. fold X in Hle.
        assert (0 < cX v) by (unfold cX; apply lt_0_INR; lia).
        field. split; lra.
  Qed.

  Lemma Hcond_pointwise : Hcond_c = rsum (fun xy => - / n * ln (cXY (fst xy) (snd xy) / cX (fst xy))) P.
  Proof.
    unfold Hcond_c. erewrite rsum_ext_in by (intros v _; apply stratum_inner).
    rewrite (rsum_list_prod (fun v c => cXY v c * (- / n * ln (cXY v c / cX v))) UX UY).
    rewrite <- (sum_by_value pair_dec (fun xy => - / n * ln (cXY (fst xy) (snd xy) / cX (fst xy))) P (list_prod UX UY)).
    - apply rsum_ext_in. intros [x y] _. reflexivity.
    - apply NoDup_prod; assumption.
    - intros [x y] Hin. apply in_prod_iff. split.
      + apply HinX. unfold X. apply (in_map fst) in Hin. exact Hin.
      + apply HinY. unfold Y. apply (in_map snd) in Hin. exact Hin.
  Qed.

  Theorem model_is_plugin : Hfull_c - Hcond_c = MIp.
  Proof.
    pose proof n_pos as Hp.
    rewrite Hfull_pointwise, Hcond_pointwise, <- rsum_minus. unfold MIp. rewrite <- rsum_scal.
    apply rsum_ext_in. intros [x y] Hin. simpl fst; simpl snd.
    assert (Hxy : (1 <= count_occ pair_dec P (x, y))%nat) by (apply count_occ_In; exact Hin).
    pose proof (count_pair_le_fst P x y) as Hx. pose proof (count_pair_le_snd P x y) as Hy.
    assert (0 < cXY x y) by (unfold cXY; apply lt_0_INR; lia).
    assert (0 < cX x) by (unfold cX, X; apply lt_0_INR; lia).
    assert (0 < cY y) by (unfold cY, Y; apply lt_0_INR; lia).
    assert (Hd : forall a b, 0 < a -> 0 < b -> ln (a / b) = ln a - ln b).
    { intros a b Ha Hb. unfold Rdiv. rewrite ln_mult, ln_Rinv by (try apply Rinv_0_lt_compat; assumption). lra. }
    rewrite !Hd by (try apply Rmult_lt_0_compat; assumption).
    rewrite !ln_mult by assumption. lra.
  Qed.
End MI.
Print Assumptions model_is_plugin.
