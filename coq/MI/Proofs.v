(* C01-C03 — proofs connecting the transcription (MI/Model.v) to the specification (MI/Spec.v).
   Chain:  eval_R (core Y X c)  =  count-level expressions of MIcore (Hfull_c, Hcond_c)   [refinement, MIrefine]
                                =  pointwise sums over the pair list (MIp, Hp)             [sum_by_value]
                                =  textbook sums over occurring values (Spec)              [sum_by_value on nodup]  *)
From Coq Require Import Reals List Lra Lia Arith ZArith Rpower Bool.
From Outrank Require Import Common.RSum MI.MIcore MI.MIineq MI.MIcor MI.Model MI.Spec MI.MIrefine.
Import ListNotations.
Open Scope R_scope.

(* ---------------------------------------------------------------------- *)
(* numba_unique: ascending, duplicate-free, same elements *)

Lemma zinsert_in x l z : In z (zinsert x l) <-> z = x \/ In z l.
Proof.
  induction l as [|y r IH]; cbn [zinsert].
  - simpl. intuition.
  - destruct (Z.ltb_spec x y).
    + simpl. intuition.
    + destruct (Z.eqb_spec x y).
      * subst. simpl. intuition.
      * simpl. rewrite IH. intuition.
Qed.

Fixpoint ssorted (l : list Z) : Prop :=
  match l with
  | [] => True
  | x :: r => (forall y, In y r -> (x < y)%Z) /\ ssorted r
  end.

Lemma zinsert_sorted x l : ssorted l -> ssorted (zinsert x l).
Proof.
  induction l as [|y r IH]; intros Hs.
  - simpl. split; [intros ? []|exact I].
  - cbn [zinsert]. destruct Hs as [Hy Hr]. destruct (Z.ltb_spec x y).
    + cbn [ssorted]. split; [|split; assumption].
      intros z [<-|Hz]; [lia|]. specialize (Hy z Hz). lia.
    + destruct (Z.eqb_spec x y).
      * split; assumption.
      * cbn [ssorted]. split; [|apply IH; assumption].
        intros z Hz. apply zinsert_in in Hz. destruct Hz as [->|Hz]; [lia|apply Hy; assumption].
Qed.

Lemma ssorted_nodup l : ssorted l -> NoDup l.
Proof.
  induction l as [|a l IH]; intros Hs; constructor.
  - destruct Hs as [Ha _]. intros Hin. specialize (Ha _ Hin). lia.
  - apply IH, Hs.
Qed.

Lemma uvals_sorted a : ssorted (uvals a).
Proof. induction a as [|x a IH]; [exact I|]. cbn [uvals fold_right]. apply zinsert_sorted. exact IH. Qed.

Lemma uvals_in a z : In z (uvals a) <-> In z a.
Proof.
  induction a as [|x a IH]; [simpl; tauto|]. cbn [uvals fold_right]. rewrite zinsert_in.
  fold (uvals a). rewrite IH. simpl. intuition.
Qed.

Lemma uvals_nodup a : NoDup (uvals a).
Proof. apply ssorted_nodup, uvals_sorted. Qed.

Lemma uvals_incl a : incl a (uvals a).
Proof. intros z Hz. apply uvals_in. exact Hz. Qed.

(* np.array_equal *)
Lemma veq_spec a b : veq a b = true <-> a = b.
Proof.
  revert b. induction a as [|x a IH]; intros [|y b]; cbn [veq]; try (split; [discriminate|discriminate]).
  - tauto.
  - rewrite andb_true_iff, Z.eqb_eq, IH. split; [intros [-> ->]; reflexivity|intros E; inversion E; auto].
Qed.

Lemma veq_refl a : veq a a = true.
Proof. apply veq_spec. reflexivity. Qed.

Lemma veq_false a b : a <> b -> veq a b = false.
Proof. intros H. destruct (veq a b) eqn:E; [|reflexivity]. apply veq_spec in E. contradiction. Qed.

(* ---------------------------------------------------------------------- *)
(* list / sum helpers *)

Lemma map_fst_combine {A B} (X : list A) (Y : list B) : length X = length Y -> map fst (combine X Y) = X.
Proof.
  revert Y. induction X as [|x X IH]; intros [|y Y] Hl; try discriminate; [reflexivity|].
  cbn [combine map fst]. f_equal. apply IH. simpl in Hl. lia.
Qed.

Lemma map_snd_combine {A B} (X : list A) (Y : list B) : length X = length Y -> map snd (combine X Y) = Y.
Proof.
  revert Y. induction X as [|x X IH]; intros [|y Y] Hl; try discriminate; [reflexivity|].
  cbn [combine map snd]. f_equal. apply IH. simpl in Hl. lia.
Qed.

Lemma length_combine_eq {A B} (X : list A) (Y : list B) : length X = length Y -> length (combine X Y) = length X.
Proof. intros Hl. rewrite combine_length, <- Hl. apply Nat.min_id. Qed.

Lemma combine_map_both {A B C D} (g : A -> C) (f : B -> D) X Y :
  combine (map g X) (map f Y) = map (fun p => (g (fst p), f (snd p))) (combine X Y).
Proof.
  revert Y. induction X as [|x X IH]; intros [|y Y]; try reflexivity.
  cbn [map combine fst snd]. f_equal. apply IH.
Qed.

Lemma combine_swap (X Y : list Z) : combine Y X = map swap (combine X Y).
Proof.
  revert Y. induction X as [|x X IH]; intros [|y Y]; try reflexivity.
  cbn [map combine swap fst snd]. f_equal. apply IH.
Qed.

Lemma cnt_count v a : cnt v a = count_occ Z.eq_dec a v.
Proof.
  induction a as [|x a IH]; [reflexivity|]. cbn [cnt].
  destruct (Z.eqb_spec x v) as [->|NE].
  - rewrite count_occ_cons_eq by reflexivity. rewrite IH. reflexivity.
  - rewrite count_occ_cons_neq by exact NE. exact IH.
Qed.

Lemma strata_sum (G : stratum -> R) X Y UX UY :
  rsum G (map (fun p => stratum_of X Y UY (fst p) (snd p))
              (filter not_singleton (combine UX (map (fun v => cnt v X) UX))))
  = rsum (fun v => if Nat.eqb (cnt v X) 1 then 0 else G (stratum_of X Y UY v (cnt v X))) UX.
Proof.
  induction UX as [|v UX IH]; [reflexivity|].
  cbn [map combine filter]. unfold not_singleton at 1. cbn [snd].
  rewrite rsum_cons. destruct (Nat.eqb (cnt v X) 1); cbn [negb].
  - rewrite IH. lra.
  - cbn [map fst snd]. rewrite rsum_cons, IH. reflexivity.
Qed.

(* compute_conditional_entropy on a list of counts given by a function of the class value *)
Lemma cond_counts (n k : nat) (f : Z -> nat) (UY : list Z) :
  cond_entropy (Z.of_nat n) (Z.of_nat k) (map (fun c => Z.of_nat (f c)) UY)
  = rsum (fun c => if Nat.eqb (f c) 0 then 0
                   else (INR k / INR n) * (INR (f c) / INR k) * (- ln (INR (f c) / INR k))) UY.
Proof.
  unfold cond_entropy. rewrite rsum_map. apply rsum_ext_in. intros c _.
  rewrite <- !INR_IZR_INZ.
  destruct (f c) as [|m] eqn:E; [reflexivity|].
  replace (Z.of_nat (S m) =? 0)%Z with false by (symmetry; apply Z.eqb_neq; lia).
  cbn [Nat.eqb]. ring.
Qed.

Lemma Hcond_c_unfold P UX UY :
  Hcond_c P UX UY
  = rsum (fun v => if Nat.eqb (count_occ Z.eq_dec (map fst P) v) 1 then 0
                   else rsum (fun c => if Nat.eqb (count_occ pair_dec P (v, c)) 0 then 0
                                       else (INR (count_occ Z.eq_dec (map fst P) v) / INR (length P))
                                            * (INR (count_occ pair_dec P (v, c)) / INR (count_occ Z.eq_dec (map fst P) v))
                                            * (- ln (INR (count_occ pair_dec P (v, c)) / INR (count_occ Z.eq_dec (map fst P) v)))) UY) UX.
Proof. reflexivity. Qed.

(* the displaced copy: same length, elements of Y *)
Lemma displace_length Y X : length (displace Y X) = length Y.
Proof. unfold displace. rewrite map_length, seq_length. reflexivity. Qed.

Lemma displace_incl Y X : incl (displace Y X) Y.
Proof.
  unfold displace. intros z Hz. apply in_map_iff in Hz. destruct Hz as [i [<- Hi]].
  apply in_seq in Hi. apply nth_In. apply Nat.mod_upper_bound. lia.
Qed.

(* ---------------------------------------------------------------------- *)
(* transcription = count-level expressions *)

Section Refine.
  Variables Y X : list Z.
  Hypothesis Hlen : length Y = length X.
  Let P := combine X Y.
  Let Ps := combine X (displace Y X).

  Lemma P_fst : map fst P = X. Proof. apply map_fst_combine. symmetry. exact Hlen. Qed.
  Lemma P_snd : map snd P = Y. Proof. apply map_snd_combine. symmetry. exact Hlen. Qed.
  Lemma P_len : length P = length X. Proof. apply length_combine_eq. symmetry. exact Hlen. Qed.
  Lemma Ps_fst : map fst Ps = X. Proof. apply map_fst_combine. rewrite displace_length. symmetry. exact Hlen. Qed.
  Lemma Ps_snd : map snd Ps = displace Y X. Proof. apply map_snd_combine. rewrite displace_length. symmetry. exact Hlen. Qed.
  Lemma Ps_len : length Ps = length X. Proof. apply length_combine_eq. rewrite displace_length. symmetry. exact Hlen. Qed.

  Lemma cond_real_sum :
    rsum (fun s => cond_entropy (Z.of_nat (length X)) (s_cnt s) (s_real s))
         (map (fun p => stratum_of X Y (uvals Y) (fst p) (snd p))
              (filter not_singleton (combine (uvals X) (map (fun v => cnt v X) (uvals X)))))
    = Hcond_c P (uvals X) (uvals Y).
  Proof.
    rewrite strata_sum, Hcond_c_unfold, P_fst, P_len.
    apply rsum_ext_in. intros v _. rewrite (cnt_count v X).
    destruct (Nat.eqb (count_occ Z.eq_dec X v) 1); [reflexivity|].
    unfold stratum_of. cbn [s_cnt s_real].
    rewrite (cond_counts (length X) (count_occ Z.eq_dec X v) (fun c => cnt c (gather Y (where_eq 0 v X))) (uvals Y)).
    apply rsum_ext_in. intros c _. rewrite cnt_count. unfold gather.
    rewrite (stratum_counts X Y v c) by (symmetry; exact Hlen). reflexivity.
  Qed.

  Lemma cond_spoof_sum :
    rsum (fun s => cond_entropy (Z.of_nat (length X)) (s_cnt s) (s_spoof s))
         (map (fun p => stratum_of X Y (uvals Y) (fst p) (snd p))
              (filter not_singleton (combine (uvals X) (map (fun v => cnt v X) (uvals X)))))
    = Hcond_c Ps (uvals X) (uvals Y).
  Proof.
    rewrite strata_sum, Hcond_c_unfold, Ps_fst, Ps_len.
    apply rsum_ext_in. intros v _. rewrite (cnt_count v X).
    destruct (Nat.eqb (count_occ Z.eq_dec X v) 1); [reflexivity|].
    unfold stratum_of. cbn [s_cnt s_spoof].
    rewrite (cond_counts (length X) (count_occ Z.eq_dec X v)
               (fun c => cnt c (map (fun el => nth ((el + count_occ Z.eq_dec X v) mod length Y) Y 0%Z) (where_eq 0 v X))) (uvals Y)).
    apply rsum_ext_in. intros c _. rewrite cnt_count.
    pose proof (spoof_counts X Y v c (eq_sym Hlen)) as E. cbv zeta in E. rewrite E. reflexivity.
  Qed.

  Lemma full_sum :
    full_entropy (Z.of_nat (length X)) (map Z.of_nat (map (fun v => cnt v Y) (uvals Y))) = Hfull_c P (uvals Y).
  Proof.
    unfold full_entropy, Hfull_c, cY. cbv zeta. rewrite P_snd, P_len, !rsum_map.
    apply rsum_ext_in. intros c _. rewrite <- !INR_IZR_INZ, cnt_count. reflexivity.
  Qed.

  Lemma eval_core_false : eval_R (core Y X false) = Hfull_c P (uvals Y) - Hcond_c P (uvals X) (uvals Y).
  Proof.
    cbv beta iota zeta delta [core numba_unique compute_entropies eval_R t_n t_classes t_strata t_corr].
    rewrite cond_real_sum, full_sum. reflexivity.
  Qed.

  Lemma eval_core_true : eval_R (core Y X true) = - Hcond_c P (uvals X) (uvals Y) + Hcond_c Ps (uvals X) (uvals Y).
  Proof.
    cbv beta iota zeta delta [core numba_unique compute_entropies eval_R t_n t_classes t_strata t_corr].
    rewrite cond_real_sum, cond_spoof_sum. reflexivity.
  Qed.
End Refine.

(* ---------------------------------------------------------------------- *)
(* pointwise forms over the pair list, and their textbook (sum over occurring pairs) counterparts *)

Definition Hp (P : list (Z * Z)) : R :=
  rsum (fun xy => - / INR (length P) * ln (cXY P (fst xy) (snd xy) / cX P (fst xy))) P.

Definition Hfp (P : list (Z * Z)) : R :=
  rsum (fun xy => - / INR (length P) * ln (cY P (snd xy) / INR (length P))) P.

Lemma sum_nodup {A} (dec : forall a b : A, {a = b} + {a <> b}) (F : A -> R) (P : list A) :
  rsum (fun u => INR (count_occ dec P u) * F u) (nodup dec P) = rsum F P.
Proof. apply sum_by_value; [apply NoDup_nodup|]. intros x Hx. apply nodup_In. exact Hx. Qed.

Lemma occ_pos (P : list (Z * Z)) x y : In (x, y) P -> 0 < cXY P x y /\ 0 < cX P x /\ 0 < cY P y /\ cXY P x y <= cX P x /\ cXY P x y <= cY P y.
Proof.
  intros Hin.
  assert ((1 <= count_occ pair_dec P (x, y))%nat) by (apply count_occ_In; exact Hin).
  pose proof (count_pair_le_fst P x y). pose proof (count_pair_le_snd P x y).
  unfold cXY, cX, cY. cbv zeta. repeat split; try (apply lt_0_INR; lia); apply le_INR; assumption.
Qed.

Section Bridge.
  Variables Y X : list Z.
  Hypothesis Hlen : length Y = length X.
  Hypothesis Hn : (0 < length X)%nat.
  Let P := combine X Y.

  Lemma P_pos : (0 < length P)%nat. Proof. unfold P. rewrite P_len by exact Hlen. exact Hn. Qed.
  Lemma n_pos' : 0 < INR (length X). Proof. apply lt_0_INR. exact Hn. Qed.

  Lemma cX_P x : cX P x = nocc x X. Proof. unfold cX, nocc. cbv zeta. unfold P. rewrite P_fst by exact Hlen. reflexivity. Qed.
  Lemma cY_P y : cY P y = nocc y Y. Proof. unfold cY, nocc. cbv zeta. unfold P. rewrite P_snd by exact Hlen. reflexivity. Qed.
  Lemma cXY_P x y : cXY P x y = nocc2 x y X Y. Proof. reflexivity. Qed.

  Lemma MI_plugin_pointwise : MI_plugin Y X = MIp P.
  Proof.
    pose proof n_pos' as Hp0.
    unfold MI_plugin, MIp. cbv zeta. fold P. rewrite (P_len Y X Hlen : length P = length X).
    rewrite <- rsum_scal.
    rewrite <- (sum_nodup pair_dec (fun xy => / INR (length X) * ln (INR (length X) * cXY P (fst xy) (snd xy) / (cX P (fst xy) * cY P (snd xy)))) P).
    apply rsum_ext_in. intros [x y] _. cbn [fst snd]. rewrite cX_P, cY_P, cXY_P. unfold nocc2, len. fold P.
    unfold Rdiv. ring.
  Qed.

  Lemma Hcond_pointwise_spec : Hcond Y X = Hp P.
  Proof.
    pose proof n_pos' as Hp0.
    unfold Hcond, Hp. fold P. rewrite (P_len Y X Hlen : length P = length X).
    rewrite <- (sum_nodup pair_dec (fun xy => - / INR (length X) * ln (cXY P (fst xy) (snd xy) / cX P (fst xy))) P).
    apply rsum_ext_in. intros [x y] _. cbn [fst snd]. rewrite cX_P, cXY_P. unfold nocc2, len. fold P.
    unfold Rdiv. ring.
  Qed.

  Lemma H_is_Hfull : H Y = Hfull_c P (nodup Z.eq_dec Y).
  Proof.
    unfold H, Hfull_c. cbv zeta. rewrite (P_len Y X Hlen : length P = length X).
    apply rsum_ext_in. intros y _. rewrite cY_P. unfold len. rewrite Hlen. reflexivity.
  Qed.

  Lemma H_pointwise : H Y = Hfp P.
  Proof.
    rewrite H_is_Hfull. unfold Hfp. apply Hfull_pointwise.
    - apply NoDup_nodup.
    - unfold P. rewrite P_snd by exact Hlen. intros y Hy. apply nodup_In. exact Hy.
    - exact P_pos.
  Qed.

  (* count-level expressions with the model's value lists = pointwise forms *)
  Lemma Hcond_c_Hp : Hcond_c P (uvals X) (uvals Y) = Hp P.
  Proof.
    unfold Hp. apply Hcond_pointwise; try apply uvals_nodup.
    - unfold P. rewrite P_fst by exact Hlen. apply uvals_incl.
    - unfold P. rewrite P_snd by exact Hlen. apply uvals_incl.
    - exact P_pos.
  Qed.

  Lemma Hfull_c_Hfp : Hfull_c P (uvals Y) = Hfp P.
  Proof.
    unfold Hfp. apply Hfull_pointwise; try apply uvals_nodup.
    - unfold P. rewrite P_snd by exact Hlen. apply uvals_incl.
    - exact P_pos.
  Qed.

  Lemma MIp_decomp : MIp P = Hfp P - Hp P.
  Proof.
    rewrite <- Hfull_c_Hfp, <- Hcond_c_Hp. symmetry.
    apply model_is_plugin; try apply uvals_nodup.
    - unfold P. rewrite P_fst by exact Hlen. apply uvals_incl.
    - unfold P. rewrite P_snd by exact Hlen. apply uvals_incl.
    - exact P_pos.
  Qed.

  Lemma Hp_nonneg : 0 <= Hp P.
  Proof.
    pose proof n_pos' as Hp0. unfold Hp. apply rsum_nonneg. intros [x y] Hin. cbn [fst snd].
    destruct (occ_pos P x y Hin) as (H1 & H2 & _ & H4 & _).
    assert (Hr : 0 < cXY P x y / cX P x) by (apply Rdiv_lt_0_compat; assumption).
    pose proof (ln_le_minus1 _ Hr) as Hl.
    assert (cXY P x y / cX P x <= 1).
    { apply (Rmult_le_reg_r (cX P x)); [assumption|]. unfold Rdiv. rewrite Rmult_assoc, Rinv_l by lra. lra. }
    assert (0 < / INR (length P)) by (apply Rinv_0_lt_compat, lt_0_INR, P_pos).
    assert (ln (cXY P x y / cX P x) <= 0) by lra.
    replace (- / INR (length P) * ln (cXY P x y / cX P x)) with (/ INR (length P) * - ln (cXY P x y / cX P x)) by ring.
    apply Rmult_le_pos; lra.
  Qed.
End Bridge.

(* ---------------------------------------------------------------------- *)
(* C01 *)

Theorem core_false_is_plugin Y X : length Y = length X -> (0 < length X)%nat ->
  eval_R (core Y X false) = MI_plugin Y X.
Proof.
  intros Hlen Hn. rewrite eval_core_false by exact Hlen.
  rewrite (MI_plugin_pointwise Y X Hlen Hn), (MIp_decomp Y X Hlen Hn).
  rewrite (Hfull_c_Hfp Y X Hlen Hn), (Hcond_c_Hp Y X Hlen Hn). reflexivity.
Qed.

Lemma entry_false Y X : entry Y X false = core Y X false.
Proof. unfold entry. destruct (veq X Y); reflexivity. Qed.

Theorem plugin_identity Y X : length Y = length X -> (0 < length X)%nat ->
  eval_R (entry Y X false) = MI_plugin Y X.
Proof. intros. rewrite entry_false. apply core_false_is_plugin; assumption. Qed.

Theorem plugin_symm Y X : length Y = length X -> (0 < length X)%nat -> MI_plugin Y X = MI_plugin X Y.
Proof.
  intros Hlen Hn.
  rewrite (MI_plugin_pointwise Y X Hlen Hn).
  rewrite (MI_plugin_pointwise X Y (eq_sym Hlen)) by (rewrite Hlen; exact Hn).
  rewrite (combine_swap X Y). symmetry. apply MIp_symm.
Qed.

Theorem entry_symm Y X : length Y = length X -> (0 < length X)%nat ->
  eval_R (entry Y X false) = eval_R (entry X Y false).
Proof.
  intros Hlen Hn. rewrite !plugin_identity; auto; try lia. apply plugin_symm; assumption.
Qed.

Theorem plugin_nonneg Y X : length Y = length X -> (0 < length X)%nat -> 0 <= MI_plugin Y X.
Proof.
  intros Hlen Hn. rewrite (MI_plugin_pointwise Y X Hlen Hn).
  apply (MIp_nonneg _ (uvals X) (uvals Y)); try apply uvals_nodup.
  - rewrite P_fst by exact Hlen. apply uvals_incl.
  - rewrite P_snd by exact Hlen. apply uvals_incl.
  - apply P_pos; assumption.
Qed.

Theorem plugin_le_HY Y X : length Y = length X -> (0 < length X)%nat -> MI_plugin Y X <= H Y.
Proof.
  intros Hlen Hn. rewrite (MI_plugin_pointwise Y X Hlen Hn), (MIp_decomp Y X Hlen Hn), (H_pointwise Y X Hlen Hn).
  pose proof (Hp_nonneg Y X Hlen Hn). lra.
Qed.

Theorem plugin_le_min Y X : length Y = length X -> (0 < length X)%nat -> MI_plugin Y X <= Rmin (H Y) (H X).
Proof.
  intros Hlen Hn. apply Rmin_glb.
  - apply plugin_le_HY; assumption.
  - rewrite plugin_symm by assumption. apply plugin_le_HY; [auto|lia].
Qed.

(* chain rule, the form in which the code computes it *)
Theorem plugin_chain Y X : length Y = length X -> (0 < length X)%nat -> MI_plugin Y X = H Y - Hcond Y X.
Proof.
  intros Hlen Hn.
  rewrite (MI_plugin_pointwise Y X Hlen Hn), (MIp_decomp Y X Hlen Hn), (H_pointwise Y X Hlen Hn),
    (Hcond_pointwise_spec Y X Hlen Hn). reflexivity.
Qed.

Theorem Hcond_nonneg Y X : length Y = length X -> (0 < length X)%nat -> 0 <= Hcond Y X.
Proof. intros Hlen Hn. rewrite (Hcond_pointwise_spec Y X Hlen Hn). apply Hp_nonneg; assumption. Qed.

(* self pair *)
Lemma combine_diag_in (Y : list Z) x y : In (x, y) (combine Y Y) -> x = y.
Proof. induction Y as [|a Y IH]; [intros []|]. cbn [combine]. intros [E|Hin]; [inversion E; congruence|auto]. Qed.

Lemma count_diag (Y : list Z) y : count_occ pair_dec (combine Y Y) (y, y) = count_occ Z.eq_dec Y y.
Proof.
  induction Y as [|a Y IH]; [reflexivity|]. cbn [combine].
  destruct (Z.eq_dec a y) as [->|NE].
  - rewrite !count_occ_cons_eq by reflexivity. rewrite IH. reflexivity.
  - rewrite !count_occ_cons_neq; [exact IH|exact NE|]. intros E. inversion E. contradiction.
Qed.

Lemma Hp_diag Y : Hp (combine Y Y) = 0.
Proof.
  unfold Hp. apply rsum_zero. intros [x y] Hin. cbn [fst snd].
  pose proof (combine_diag_in Y x y Hin) as ->.
  destruct (occ_pos _ y y Hin) as (H1 & H2 & _).
  unfold cXY, cX in *. cbv zeta in *. rewrite count_diag in *. rewrite (map_fst_combine Y Y eq_refl) in *.
  unfold Rdiv. rewrite Rinv_r by lra. rewrite ln_1. ring.
Qed.

Theorem plugin_self Y : (0 < length Y)%nat -> MI_plugin Y Y = H Y.
Proof.
  intros Hn. rewrite (MI_plugin_pointwise Y Y eq_refl Hn), (MIp_decomp Y Y eq_refl Hn), (H_pointwise Y Y eq_refl Hn).
  rewrite Hp_diag. lra.
Qed.

(* constant vectors *)
Lemma count_const_r (X Y : list Z) a x : constant a Y -> length Y = length X ->
  count_occ pair_dec (combine X Y) (x, a) = count_occ Z.eq_dec X x.
Proof.
  revert Y. induction X as [|b X IH]; intros [|c Y] Hc Hl; try discriminate; [reflexivity|].
  cbn [combine]. assert (c = a) by (apply Hc; now left). subst c.
  assert (Hc' : constant a Y) by (intros v Hv; apply Hc; now right).
  assert (Hl' : length Y = length X) by (simpl in Hl; lia).
  destruct (Z.eq_dec b x) as [->|NE].
  - rewrite !count_occ_cons_eq by reflexivity. rewrite IH by assumption. reflexivity.
  - rewrite !count_occ_cons_neq; [apply IH; assumption|exact NE|]. intros E. inversion E. contradiction.
Qed.

Lemma count_const_all (Y : list Z) a : constant a Y -> count_occ Z.eq_dec Y a = length Y.
Proof.
  induction Y as [|c Y IH]; intros Hc; [reflexivity|].
  assert (c = a) by (apply Hc; now left). subst c. rewrite count_occ_cons_eq by reflexivity.
  cbn [length]. f_equal. apply IH. intros v Hv. apply Hc. now right.
Qed.

Theorem plugin_const_l Y X a : length Y = length X -> (0 < length X)%nat -> constant a Y -> MI_plugin Y X = 0.
Proof.
  intros Hlen Hn Hc. rewrite (MI_plugin_pointwise Y X Hlen Hn). unfold MIp. cbv zeta.
  rewrite rsum_zero; [ring|]. intros [x y] Hin. cbn [fst snd].
  assert (y = a) by (apply Hc; apply (in_combine_r _ _ _ _ Hin)). subst y.
  destruct (occ_pos _ x a Hin) as (H1 & H2 & H3 & _).
  unfold cXY, cX, cY in *. cbv zeta in *.
  rewrite (P_fst Y X Hlen), (P_snd Y X Hlen), (P_len Y X Hlen) in *.
  rewrite (count_const_r X Y a x Hc Hlen) in *. rewrite (count_const_all Y a Hc), Hlen in *.
  replace (INR (length X) * INR (count_occ Z.eq_dec X x) / (INR (count_occ Z.eq_dec X x) * INR (length X))) with 1 by (field; lra).
  apply ln_1.
Qed.

Theorem plugin_const_r Y X a : length Y = length X -> (0 < length X)%nat -> constant a X -> MI_plugin Y X = 0.
Proof.
  intros Hlen Hn Hc. rewrite plugin_symm by assumption. apply (plugin_const_l X Y a); auto; lia.
Qed.

(* ---------------------------------------------------------------------- *)
(* C02: relabelling *)

Lemma count_map_inj_gen {A B} (decA : forall a b : A, {a = b} + {a <> b}) (decB : forall a b : B, {a = b} + {a <> b})
      (h : A -> B) (l : list A) (x : A) :
  (forall a b, In a l -> In b l -> h a = h b -> a = b) -> In x l ->
  count_occ decB (map h l) (h x) = count_occ decA l x.
Proof.
  intros Hinj Hx.
  assert (G : forall l', incl l' l -> count_occ decB (map h l') (h x) = count_occ decA l' x).
  { induction l' as [|a l' IH]; intros Hi; [reflexivity|]. cbn [map].
    assert (Ha : In a l) by (apply Hi; now left).
    assert (Hi' : incl l' l) by (intros z Hz; apply Hi; now right).
    destruct (decA a x) as [E'|NE'].
    - subst a. rewrite !count_occ_cons_eq by reflexivity. rewrite IH by assumption. reflexivity.
    - rewrite !count_occ_cons_neq; [apply IH; assumption|exact NE'|]. intros E. apply NE'. apply Hinj; assumption. }
  apply G. apply incl_refl.
Qed.

Section RelabelP.
  Variables f g : Z -> Z.
  Variable P : list (Z * Z).
  Hypothesis Hg : inj_on g (map fst P).
  Hypothesis Hf : inj_on f (map snd P).
  Let rl (p : Z * Z) : Z * Z := (g (fst p), f (snd p)).

  Lemma rl_inj : forall a b, In a P -> In b P -> rl a = rl b -> a = b.
  Proof.
    intros [x y] [x' y'] Ha Hb E. unfold rl in E. cbn [fst snd] in E. inversion E.
    f_equal.
    - apply Hg; [apply (in_map fst) in Ha; exact Ha|apply (in_map fst) in Hb; exact Hb|assumption].
    - apply Hf; [apply (in_map snd) in Ha; exact Ha|apply (in_map snd) in Hb; exact Hb|assumption].
  Qed.

  Lemma rl_fst : map fst (map rl P) = map g (map fst P).
  Proof. rewrite !map_map. reflexivity. Qed.
  Lemma rl_snd : map snd (map rl P) = map f (map snd P).
  Proof. rewrite !map_map. reflexivity. Qed.

  Lemma rl_counts x y : In (x, y) P ->
    cXY (map rl P) (g x) (f y) = cXY P x y /\ cX (map rl P) (g x) = cX P x /\ cY (map rl P) (f y) = cY P y.
  Proof.
    intros Hin. unfold cXY, cX, cY. cbv zeta. rewrite rl_fst, rl_snd. repeat split; f_equal.
    - apply (count_map_inj_gen pair_dec pair_dec rl P (x, y) rl_inj Hin).
    - apply (count_map_inj_gen Z.eq_dec Z.eq_dec g (map fst P) x Hg). apply (in_map fst) in Hin. exact Hin.
    - apply (count_map_inj_gen Z.eq_dec Z.eq_dec f (map snd P) y Hf). apply (in_map snd) in Hin. exact Hin.
  Qed.

  Lemma MIp_relabel : MIp (map rl P) = MIp P.
  Proof.
    unfold MIp. cbv zeta. rewrite map_length, rsum_map. f_equal. apply rsum_ext_in. intros [x y] Hin.
    cbn [rl fst snd]. destruct (rl_counts x y Hin) as (-> & -> & ->). reflexivity.
  Qed.

  Lemma Hp_relabel : Hp (map rl P) = Hp P.
  Proof.
    unfold Hp. rewrite map_length, rsum_map. apply rsum_ext_in. intros [x y] Hin.
    cbn [rl fst snd]. destruct (rl_counts x y Hin) as (-> & -> & _). reflexivity.
  Qed.
End RelabelP.

Lemma nth_map_lt (f : Z -> Z) (l : list Z) i : (i < length l)%nat -> nth i (map f l) 0%Z = f (nth i l 0%Z).
Proof. intros Hi. rewrite (nth_indep _ 0%Z (f 0%Z)) by (rewrite map_length; exact Hi). apply map_nth. Qed.

Lemma displace_map f g Y X : length Y = length X -> inj_on g X ->
  displace (map f Y) (map g X) = map f (displace Y X).
Proof.
  intros Hlen Hg. unfold displace. rewrite map_length, map_map. apply map_ext_in. intros i Hi.
  apply in_seq in Hi. assert (Hi' : (i < length X)%nat) by lia.
  rewrite (nth_map_lt g X i Hi').
  rewrite (count_map_inj g X (nth i X 0%Z) Hg (nth_In X 0%Z Hi')).
  apply nth_map_lt. apply Nat.mod_upper_bound. lia.
Qed.

Theorem core_relabel f g Y X c : length Y = length X -> (0 < length X)%nat -> inj_on f Y -> inj_on g X ->
  eval_R (core (map f Y) (map g X) c) = eval_R (core Y X c).
Proof.
  intros Hlen Hn Hf Hg.
  assert (Hlen' : length (map f Y) = length (map g X)) by (rewrite !map_length; exact Hlen).
  assert (Hn' : (0 < length (map g X))%nat) by (rewrite map_length; exact Hn).
  destruct c.
  - rewrite (eval_core_true _ _ Hlen'), (eval_core_true _ _ Hlen).
    assert (Hds : length (displace Y X) = length X) by (rewrite displace_length; exact Hlen).
    assert (Hds' : length (displace (map f Y) (map g X)) = length (map g X)) by (rewrite displace_length; exact Hlen').
    rewrite (Hcond_c_Hp _ _ Hlen' Hn'), (Hcond_c_Hp _ _ Hlen Hn).
    (* background terms: the value lists differ from uvals of the displaced vector, go through the pointwise form directly *)
    rewrite (Hcond_pointwise (combine (map g X) (displace (map f Y) (map g X))) (uvals (map g X)) (uvals (map f Y)));
      try apply uvals_nodup.
    2:{ rewrite map_fst_combine by (symmetry; exact Hds'). apply uvals_incl. }
    2:{ rewrite map_snd_combine by (symmetry; exact Hds'). intros z Hz. apply uvals_in. apply (displace_incl _ _ z Hz). }
    2:{ rewrite length_combine_eq by (symmetry; exact Hds'). exact Hn'. }
    rewrite (Hcond_pointwise (combine X (displace Y X)) (uvals X) (uvals Y)); try apply uvals_nodup.
    2:{ rewrite map_fst_combine by (symmetry; exact Hds). apply uvals_incl. }
    2:{ rewrite map_snd_combine by (symmetry; exact Hds). intros z Hz. apply uvals_in. apply (displace_incl _ _ z Hz). }
    2:{ rewrite length_combine_eq by (symmetry; exact Hds). exact Hn. }
    fold (Hp (combine (map g X) (displace (map f Y) (map g X)))). fold (Hp (combine X (displace Y X))).
    rewrite (displace_map f g Y X Hlen Hg), !combine_map_both.
    rewrite (Hp_relabel f g (combine X Y)), (Hp_relabel f g (combine X (displace Y X))); [reflexivity| | | |].
    + rewrite map_fst_combine by (symmetry; exact Hds). exact Hg.
    + rewrite map_snd_combine by (symmetry; exact Hds). intros a b Ha Hb. apply Hf; apply (displace_incl Y X); assumption.
    + rewrite P_fst by exact Hlen. exact Hg.
    + rewrite P_snd by exact Hlen. exact Hf.
  - rewrite (core_false_is_plugin _ _ Hlen' Hn'), (core_false_is_plugin _ _ Hlen Hn).
    rewrite (MI_plugin_pointwise _ _ Hlen' Hn'), (MI_plugin_pointwise _ _ Hlen Hn).
    rewrite combine_map_both. apply MIp_relabel.
    + rewrite P_fst by exact Hlen. exact Hg.
    + rewrite P_snd by exact Hlen. exact Hf.
Qed.

Theorem selfpair_exact Y X c : entry Y X c = core Y X (c && negb (veq Y X)).
Proof.
  unfold entry. assert (E : veq X Y = veq Y X).
  { destruct (veq X Y) eqn:E1; destruct (veq Y X) eqn:E2; try reflexivity.
    - apply veq_spec in E1. subst. rewrite veq_refl in E2. discriminate.
    - apply veq_spec in E2. subst. rewrite veq_refl in E1. discriminate. }
  rewrite E. destruct (veq Y X), c; reflexivity.
Qed.

Theorem entry_relabel f g Y X c : length Y = length X -> (0 < length X)%nat -> inj_on f Y -> inj_on g X ->
  (c = true -> (Y = X <-> map f Y = map g X)) ->
  eval_R (entry (map f Y) (map g X) c) = eval_R (entry Y X c).
Proof.
  intros Hlen Hn Hf Hg Hiff. rewrite !selfpair_exact.
  assert (E : c && negb (veq (map f Y) (map g X)) = c && negb (veq Y X)).
  { destruct c; [|reflexivity]. cbn [andb]. f_equal. specialize (Hiff eq_refl).
    destruct (veq Y X) eqn:E1; destruct (veq (map f Y) (map g X)) eqn:E2; try reflexivity.
    - apply veq_spec in E1. apply Hiff in E1. apply veq_spec in E1. congruence.
    - apply veq_spec in E2. apply Hiff in E2. apply veq_spec in E2. congruence. }
  rewrite E. apply core_relabel; assumption.
Qed.

(* ---------------------------------------------------------------------- *)
(* C03: the corrected score *)

Theorem core_true_identity Y X : length Y = length X -> (0 < length X)%nat ->
  eval_R (core Y X true) = Hcond (displace Y X) X - Hcond Y X.
Proof.
  intros Hlen Hn.
  assert (Hds : length (displace Y X) = length X) by (rewrite displace_length; exact Hlen).
  rewrite (eval_core_true _ _ Hlen), (Hcond_c_Hp _ _ Hlen Hn).
  rewrite (Hcond_pointwise (combine X (displace Y X)) (uvals X) (uvals Y)); try apply uvals_nodup.
  2:{ rewrite map_fst_combine by (symmetry; exact Hds). apply uvals_incl. }
  2:{ rewrite map_snd_combine by (symmetry; exact Hds). intros z Hz. apply uvals_in. apply (displace_incl _ _ z Hz). }
  2:{ rewrite length_combine_eq by (symmetry; exact Hds). exact Hn. }
  fold (Hp (combine X (displace Y X))).
  rewrite (Hcond_pointwise_spec _ _ Hds Hn), (Hcond_pointwise_spec _ _ Hlen Hn). ring.
Qed.

Theorem corrected_identity Y X : length Y = length X -> (0 < length X)%nat -> Y <> X ->
  eval_R (entry Y X true) = Hcond (displace Y X) X - Hcond Y X.
Proof.
  intros Hlen Hn Hne. rewrite selfpair_exact, (veq_false Y X Hne). cbn [andb negb].
  apply core_true_identity; assumption.
Qed.

Theorem corrected_self Y : (0 < length Y)%nat -> eval_R (entry Y Y true) = H Y.
Proof.
  intros Hn. rewrite selfpair_exact, veq_refl. cbn [andb negb].
  rewrite core_false_is_plugin by auto. apply plugin_self. exact Hn.
Qed.

(* constant feature *)
Lemma constant_repeat a (l : list Z) : constant a l -> l = repeat a (length l).
Proof.
  induction l as [|x l IH]; intros Hc; [reflexivity|]. cbn [length repeat].
  f_equal; [apply Hc; now left|apply IH; intros v Hv; apply Hc; now right].
Qed.

Lemma displace_const a Y X : constant a Y -> displace Y X = Y.
Proof.
  intros Hc. rewrite (constant_repeat a Y Hc) at 2.
  rewrite (constant_repeat a (displace Y X)).
  - rewrite displace_length. reflexivity.
  - intros v Hv. apply Hc. apply (displace_incl Y X). exact Hv.
Qed.

Theorem corrected_const Y X a : length Y = length X -> (0 < length X)%nat -> constant a Y ->
  eval_R (entry Y X true) = 0.
Proof.
  intros Hlen Hn Hc. rewrite selfpair_exact. destruct (veq Y X) eqn:E; cbn [andb negb].
  - rewrite core_false_is_plugin by assumption. apply (plugin_const_l Y X a); assumption.
  - rewrite core_true_identity by assumption. rewrite (displace_const a Y X Hc). ring.
Qed.

(* all-distinct feature *)
Lemma where_eq_bounds v X : forall i j, In j (where_eq i v X) -> (i <= j < i + length X)%nat.
Proof.
  induction X as [|x r IH]; intros i j Hj; [contradiction|]. cbn [where_eq] in Hj. cbn [length].
  destruct (Z.eqb x v).
  - destruct Hj as [<-|Hj]; [lia|]. specialize (IH _ _ Hj). lia.
  - specialize (IH _ _ Hj). lia.
Qed.

Lemma where_eq_nodup v X : forall i, NoDup (where_eq i v X).
Proof.
  induction X as [|x r IH]; intros i; [constructor|]. cbn [where_eq].
  destruct (Z.eqb x v); [|apply IH]. constructor; [|apply IH].
  intros Hin. apply where_eq_bounds in Hin. lia.
Qed.

Lemma NoDup_map_inj_on {A B} (F : A -> B) (l : list A) :
  NoDup l -> (forall a b, In a l -> In b l -> F a = F b -> a = b) -> NoDup (map F l).
Proof.
  induction 1 as [|a l Hnin Hnd IH]; intros Hinj; [constructor|]. cbn [map]. constructor.
  - intros Hin. apply in_map_iff in Hin. destruct Hin as [b [E Hb]].
    assert (b = a) by (apply Hinj; [now right|now left|exact E]). subst. contradiction.
  - apply IH. intros x y Hx Hy. apply Hinj; now right.
Qed.

Lemma shift_mod_inj (n k a b : nat) : (a < n)%nat -> (b < n)%nat -> ((a + k) mod n = (b + k) mod n)%nat -> a = b.
Proof.
  intros Ha Hb E. assert (Hn : n <> 0%nat) by lia.
  pose proof (Nat.div_mod (a + k) n Hn) as Da. pose proof (Nat.div_mod (b + k) n Hn) as Db.
  rewrite E in Da. set (qa := ((a + k) / n)%nat) in *. set (qb := ((b + k) / n)%nat) in *.
  set (r := ((b + k) mod n)%nat) in *.
  assert (qa = qb) by nia. subst qa. nia.
Qed.

Lemma alldistinct_joint Y X : length Y = length X -> NoDup Y ->
  forall x y, In (x, y) (combine X Y) -> count_occ pair_dec (combine X Y) (x, y) = 1%nat.
Proof.
  intros Hlen Hnd x y Hin.
  pose proof (count_pair_le_snd (combine X Y) x y) as Hle. rewrite (P_snd Y X Hlen) in Hle.
  pose proof (proj1 (NoDup_count_occ Z.eq_dec Y) Hnd y).
  assert ((1 <= count_occ pair_dec (combine X Y) (x, y))%nat) by (apply count_occ_In; exact Hin). lia.
Qed.

Lemma alldistinct_displaced Y X : length Y = length X -> NoDup Y ->
  forall x y, In (x, y) (combine X (displace Y X)) -> count_occ pair_dec (combine X (displace Y X)) (x, y) = 1%nat.
Proof.
  intros Hlen Hnd x y Hin.
  assert ((1 <= count_occ pair_dec (combine X (displace Y X)) (x, y))%nat) by (apply count_occ_In; exact Hin).
  pose proof (spoof_counts X Y x y (eq_sym Hlen)) as E. cbv zeta in E. rewrite <- E in *.
  set (k := count_occ Z.eq_dec X x) in *.
  assert (Hnd' : NoDup (map (fun el => nth ((el + k) mod length Y) Y 0%Z) (where_eq 0 x X))).
  { apply NoDup_map_inj_on; [apply where_eq_nodup|].
    intros a b Ha Hb Eab. apply where_eq_bounds in Ha. apply where_eq_bounds in Hb.
    assert (Hn : (0 < length Y)%nat) by lia.
    apply (shift_mod_inj (length Y) k); try lia.
    apply (proj1 (NoDup_nth Y 0%Z) Hnd); try (apply Nat.mod_upper_bound; lia). exact Eab. }
  pose proof (proj1 (NoDup_count_occ Z.eq_dec _) Hnd' y). lia.
Qed.

(* when every occurring pair has multiplicity one, H(.|X) depends on X only *)
Lemma Hp_joint_one (P : list (Z * Z)) :
  (forall x y, In (x, y) P -> count_occ pair_dec P (x, y) = 1%nat) ->
  Hp P = rsum (fun x => - / INR (length P) * ln (1 / INR (count_occ Z.eq_dec (map fst P) x))) (map fst P).
Proof.
  intros H1. unfold Hp. rewrite rsum_map. apply rsum_ext_in. intros [x y] Hin. cbn [fst snd].
  unfold cXY, cX. cbv zeta. rewrite (H1 x y Hin). reflexivity.
Qed.

Theorem corrected_alldistinct Y X : length Y = length X -> (0 < length X)%nat -> NoDup Y -> Y <> X ->
  eval_R (entry Y X true) = 0.
Proof.
  intros Hlen Hn Hnd Hne. rewrite (corrected_identity Y X Hlen Hn Hne).
  assert (Hds : length (displace Y X) = length X) by (rewrite displace_length; exact Hlen).
  rewrite (Hcond_pointwise_spec _ _ Hds Hn), (Hcond_pointwise_spec _ _ Hlen Hn).
  rewrite (Hp_joint_one _ (alldistinct_joint Y X Hlen Hnd)), (Hp_joint_one _ (alldistinct_displaced Y X Hlen Hnd)).
  rewrite (map_fst_combine X (displace Y X)) by (symmetry; exact Hds).
  rewrite (map_fst_combine X Y) by (symmetry; exact Hlen).
  rewrite !length_combine_eq by (symmetry; assumption). ring.
Qed.

(* ---------------------------------------------------------------------- *)
(* the code before fix d3e3a97 (sum-based self-pair test): the shortcut fires on a non-identical pair and
   invariance under relabelling fails *)

Definition wY : list Z := [0; 1; 0; 1; 2; 2; 0; 1]%Z.
Definition wX : list Z := [1; 0; 1; 0; 2; 2; 1; 0]%Z.

Lemma ln_div a b : 0 < a -> 0 < b -> ln (a / b) = ln a - ln b.
Proof. intros Ha Hb. unfold Rdiv. rewrite ln_mult, ln_Rinv by (try apply Rinv_0_lt_compat; assumption). lra. Qed.

Lemma witness_gap : eval_R (core wY wX true) < eval_R (core wY wX false).
Proof.
  assert (Et : core wY wX true = mkT 8 [3; 3; 2]%Z [mkS 3 [0; 3; 0]%Z [2; 0; 1]%Z; mkS 3 [3; 0; 0]%Z [0; 2; 1]%Z; mkS 2 [0; 0; 2]%Z [1; 1; 0]%Z] true)
    by (vm_compute; reflexivity).
  assert (Ef : core wY wX false = mkT 8 [3; 3; 2]%Z [mkS 3 [0; 3; 0]%Z [2; 0; 1]%Z; mkS 3 [3; 0; 0]%Z [0; 2; 1]%Z; mkS 2 [0; 0; 2]%Z [1; 1; 0]%Z] false)
    by (vm_compute; reflexivity).
  rewrite Et, Ef. unfold eval_R, cond_entropy, full_entropy.
  cbn [t_n t_classes t_strata t_corr s_cnt s_real s_spoof rsum fold_right Z.eqb].
  rewrite !ln_div by lra.
  assert (E8 : ln 8 = 3 * ln 2).
  { replace 8 with (2 * (2 * 2)) by lra. rewrite !ln_mult by lra. lra. }
  assert (H43 : ln 3 < 2 * ln 2).
  { replace (2 * ln 2) with (ln 4) by (replace 4 with (2 * 2) by lra; rewrite ln_mult by lra; lra).
    apply ln_increasing; lra. }
  rewrite E8, ln_1. lra.
Qed.

Theorem prefix_refuted :
  exists (Y X : list Z) (g : Z -> Z),
    length Y = length X /\ Y <> X /\ inj_on g X /\
    entry_old Y X true = core Y X false /\                       (* self-pair shortcut taken although Y <> X *)
    entry_old Y (map g X) true = core Y (map g X) true /\        (* ... and not taken after recoding X *)
    eval_R (entry_old Y (map g X) true) < eval_R (entry_old Y X true).
Proof.
  exists wY, wX, (Z.add 10). repeat split.
  - discriminate.
  - intros a b _ _ E. lia.
  - assert (E1 : entry_old wY wX true = core wY wX false) by (vm_compute; reflexivity).
    assert (E2 : entry_old wY (map (Z.add 10) wX) true = core wY (map (Z.add 10) wX) true) by (vm_compute; reflexivity).
    rewrite E1, E2.
    assert (E3 : eval_R (core wY (map (Z.add 10) wX) true) = eval_R (core (map (fun z => z) wY) (map (Z.add 10) wX) true))
      by (rewrite map_id; reflexivity).
    rewrite E3, core_relabel; [apply witness_gap|reflexivity|simpl; lia|intros a b _ _ E; exact E|intros a b _ _ E; lia].
Qed.

(* the repaired entry point treats the same pair as an ordinary one *)
Lemma witness_new : entry wY wX true = core wY wX true.
Proof. vm_compute. reflexivity. Qed.

(* ---------------------------------------------------------------------- *)
(* C01 as worded: the SCORE (eval_R of the transcription's term structure) has the listed properties *)

Theorem score_nonneg Y X : length Y = length X -> (0 < length X)%nat -> 0 <= eval_R (entry Y X false).
Proof. intros. rewrite plugin_identity by assumption. apply plugin_nonneg; assumption. Qed.

Theorem score_const_l Y X a : length Y = length X -> (0 < length X)%nat -> constant a Y -> eval_R (entry Y X false) = 0.
Proof. intros. rewrite plugin_identity by assumption. apply (plugin_const_l Y X a); assumption. Qed.

Theorem score_const_r Y X a : length Y = length X -> (0 < length X)%nat -> constant a X -> eval_R (entry Y X false) = 0.
Proof. intros. rewrite plugin_identity by assumption. apply (plugin_const_r Y X a); assumption. Qed.

Theorem score_le_min Y X : length Y = length X -> (0 < length X)%nat -> eval_R (entry Y X false) <= Rmin (H Y) (H X).
Proof. intros. rewrite plugin_identity by assumption. apply plugin_le_min; assumption. Qed.

Theorem score_self Y : (0 < length Y)%nat -> eval_R (entry Y Y false) = H Y.
Proof. intros. rewrite plugin_identity by auto. apply plugin_self; assumption. Qed.

(* ---------------------------------------------------------------------- *)
(* C02 with the flag on holds exactly OFF the diagonal: recoding only one side of an identical pair switches the
   correction back on (the pair is no longer element-wise identical), and the score changes from H(Y) to the corrected one *)

Definition dY : list Z := [0; 1; 0; 1; 2; 2]%Z.

Lemma diag_value : eval_R (entry dY dY true) = ln 3.
Proof.
  assert (Et : entry dY dY true = mkT 6 [2; 2; 2]%Z [mkS 2 [2; 0; 0]%Z [1; 0; 1]%Z; mkS 2 [0; 2; 0]%Z [0; 1; 1]%Z; mkS 2 [0; 0; 2]%Z [1; 1; 0]%Z] false)
    by (vm_compute; reflexivity).
  rewrite Et. unfold eval_R, cond_entropy, full_entropy.
  cbn [t_n t_classes t_strata t_corr s_cnt s_real s_spoof rsum fold_right Z.eqb].
  replace (2 / 2) with 1 by lra. rewrite ln_1.
  replace (2 / 6) with (/ 3) by lra. rewrite ln_Rinv by lra. lra.
Qed.

Lemma offdiag_value : eval_R (entry dY (map (Z.add 10) dY) true) = ln 2.
Proof.
  assert (Et : entry dY (map (Z.add 10) dY) true = mkT 6 [2; 2; 2]%Z [mkS 2 [2; 0; 0]%Z [1; 0; 1]%Z; mkS 2 [0; 2; 0]%Z [0; 1; 1]%Z; mkS 2 [0; 0; 2]%Z [1; 1; 0]%Z] true)
    by (vm_compute; reflexivity).
  rewrite Et. unfold eval_R, cond_entropy, full_entropy.
  cbn [t_n t_classes t_strata t_corr s_cnt s_real s_spoof rsum fold_right Z.eqb].
  replace (2 / 2) with 1 by lra. rewrite ln_1.
  replace (1 / 2) with (/ 2) by lra. rewrite ln_Rinv by lra. lra.
Qed.

Theorem diag_relabel_refuted :
  exists (Y : list Z) (g : Z -> Z),
    (0 < length Y)%nat /\ inj_on g Y /\
    eval_R (entry Y Y true) = ln 3 /\ eval_R (entry Y (map g Y) true) = ln 2 /\
    eval_R (entry Y (map g Y) true) < eval_R (entry Y Y true).
Proof.
  exists dY, (Z.add 10). split; [simpl; lia|]. split; [intros a b _ _ E; lia|].
  split; [exact diag_value|]. split; [exact offdiag_value|].
  rewrite diag_value, offdiag_value. apply ln_increasing; lra.
Qed.
