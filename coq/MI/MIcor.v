From Coq Require Import Reals List Lra Lia Arith ZArith Rpower.
From Outrank Require Import Common.RSum MI.MIcore MI.MIineq.
Import ListNotations.
Open Scope R_scope.

Definition swap (p : Z * Z) : Z * Z := (snd p, fst p).

Lemma count_swap P x y : count_occ pair_dec (map swap P) (y, x) = count_occ pair_dec P (x, y).
Proof.
  induction P as [|[a b] P IH]; [reflexivity|]. cbn [map swap fst snd].
  destruct (pair_dec (a, b) (x, y)) as [E|NE].
  - inversion E; subst. rewrite !count_occ_cons_eq by reflexivity. rewrite IH. reflexivity.
  - rewrite !count_occ_cons_neq; [exact IH|exact NE|]. intros E. apply NE. inversion E; reflexivity.
Qed.
Lemma map_fst_swap P : map fst (map swap P) = map snd P.
Proof. rewrite map_map. apply map_ext. intros [a b]; reflexivity. Qed.
Lemma map_snd_swap P : map snd (map swap P) = map fst P.
Proof. rewrite map_map. apply map_ext. intros [a b]; reflexivity. Qed.

Theorem MIp_symm P : MIp (map swap P) = MIp P.
Proof.
  unfold MIp. rewrite map_length, rsum_map. f_equal. apply rsum_ext_in. intros [x y] _.
  cbn [swap fst snd]. unfold cXY, cX, cY. rewrite count_swap, map_fst_swap, map_snd_swap.
  apply f_equal. unfold Rdiv. rewrite (Rmult_comm (INR (count_occ Z.eq_dec (map snd P) y))). reflexivity.
Qed.

(* relabel invariance: pointwise form makes it a one-liner per count *)
Section Relabel.
  Variables f g : Z -> Z.
  Definition relab (p : Z * Z) := (g (fst p), f (snd p)).
  Variable P : list (Z * Z).
  Hypothesis Hg : forall a b, In a (map fst P) -> In b (map fst P) -> g a = g b -> a = b.
  Hypothesis Hf : forall a b, In a (map snd P) -> In b (map snd P) -> f a = f b -> a = b.

  Lemma count_map_inj (h : Z -> Z) (l : list Z) x :
    (forall a b, In a l -> In b l -> h a = h b -> a = b) -> In x l ->
    count_occ Z.eq_dec (map h l) (h x) = count_occ Z.eq_dec l x.
  Proof.
    intros Hinj Hx.
    assert (G : forall l', incl l' l -> count_occ Z.eq_dec (map h l') (h x) = count_occ Z.eq_dec l' x).
    { induction l' as [|a l' IH]; intros Hi; [reflexivity|]. cbn [map].
      assert (Ha : In a l) by (apply Hi; now left).
      assert (Hi' : incl l' l) by (intros z Hz; apply Hi; now right).
      destruct (Z.eq_dec a x) as [E'|NE'].
      - subst a. rewrite !count_occ_cons_eq by reflexivity. rewrite IH by assumption. reflexivity.
      - rewrite !count_occ_cons_neq; [apply IH; assumption|exact NE'|]. intros E. apply NE'. apply Hinj; assumption. }
    apply G. apply incl_refl.
  Qed.
End Relabel.
