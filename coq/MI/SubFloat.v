(* C04 — the two float computations of stratified_subsampling equal the exact ones of the model.

     final_space_size       = int(approximation_factor * all_events)     float32 * int64 -> binary64 product, truncation
     unique_samples_per_val = int(final_space_size / len(_f_values_X))   int / int -> binary64 division, truncation

   Stated over Flocq's  round radix2 (FLT_exp (-1074) 53) ZnearestE  (binary64, round to nearest even); the
   float32 argument is any real in the format  FLT_exp (-149) 24  (binary32; its conversion to binary64 is
   exact because binary32 is a subset).  What remains trusted is only that numba evaluates float32 * int64 as
   a binary64 multiplication and int / int as a binary64 division, and then truncates.
   Theorems over R: they depend on the standard-library Reals axioms only. *)
From Coq Require Import ZArith Reals Lia Lra QArith Qreals List.
From Flocq Require Import Core.
From Outrank Require Import MI.Subsample.
Local Close Scope Q_scope.
Local Open Scope R_scope.

Definition b32 : Z -> Z := FLT_exp (-149) 24.
Definition b64 : Z -> Z := FLT_exp (-1074) 53.
Definition rnd64 (x : R) : R := round radix2 b64 ZnearestE x.
Definition format32 (x : R) : Prop := generic_format radix2 b32 x.
Definition format64 (x : R) : Prop := generic_format radix2 b64 x.

Global Instance prec53_gt_0 : Prec_gt_0 53.
Proof. reflexivity. Qed.
Global Instance prec24_gt_0 : Prec_gt_0 24.
Proof. reflexivity. Qed.
Global Instance b64_valid : Valid_exp b64 := FLT_exp_valid (-1074) 53.
Global Instance b32_valid : Valid_exp b32 := FLT_exp_valid (-149) 24.

Lemma rnd64_ge x y : format64 x -> x <= y -> x <= rnd64 y.
Proof. intros F H. unfold rnd64. apply round_ge_generic; try typeclasses eauto; assumption. Qed.
Lemma rnd64_le x y : format64 y -> x <= y -> rnd64 x <= y.
Proof. intros F H. unfold rnd64. apply round_le_generic; try typeclasses eauto; assumption. Qed.
Lemma rnd64_id x : format64 x -> rnd64 x = x.
Proof. intros F. unfold rnd64. apply round_generic; try typeclasses eauto; assumption. Qed.

(* the code's two computations, on reals *)
Definition float_final_space_size (r : R) (n : Z) : Z := Ztrunc (rnd64 (r * IZR n)).
Definition float_quota (fs k : Z) : Z := Ztrunc (rnd64 (IZR fs / IZR k)).

Lemma format64_int_scaled (m e : Z) : (Z.abs m < 2 ^ 53)%Z -> (-1074 <= e)%Z -> format64 (IZR m * bpow radix2 e).
Proof.
  intros Hm He. apply generic_format_FLT. apply (FLT_spec radix2 (-1074) 53 _ (Float radix2 m e)).
  - reflexivity.
  - exact Hm.
  - exact He.
Qed.

Lemma format64_int (m : Z) : (Z.abs m < 2 ^ 53)%Z -> format64 (IZR m).
Proof.
  intros Hm. replace (IZR m) with (IZR m * bpow radix2 0) by (cbn; ring).
  apply format64_int_scaled; [exact Hm | lia].
Qed.

(* (a) the product of a binary32 number in (0,1) and an integer below 2^29 is a binary64 number *)
Lemma product_format64 (r : R) (n : Z) :
  format32 r -> 0 < r < 1 -> (0 <= n < 2 ^ 29)%Z -> format64 (r * IZR n).
Proof.
  intros Hr _ Hn. apply FLT_format_generic in Hr; [|typeclasses eauto].
  destruct Hr as [[m e] E Hm He]. cbn [Fnum Fexp] in Hm, He.
  rewrite E. unfold F2R. cbn [Fnum Fexp].
  replace (IZR m * bpow radix2 e * IZR n) with (IZR (m * n) * bpow radix2 e) by (rewrite mult_IZR; ring).
  apply format64_int_scaled; [|lia].
  rewrite Z.abs_mul, (Z.abs_eq n) by lia.
  change (Z.pow radix2 24) with (2 ^ 24)%Z in Hm.
  assert (Z.abs m * n < 2 ^ 24 * 2 ^ 29)%Z by nia.
  change (2 ^ 53)%Z with (2 ^ 24 * 2 ^ 29)%Z. exact H.
Qed.

Lemma product_exact (r : R) (n : Z) :
  format32 r -> 0 < r < 1 -> (0 <= n < 2 ^ 29)%Z ->
  format64 (r * IZR n) /\ rnd64 (r * IZR n) = r * IZR n /\
  float_final_space_size r n = Zfloor (r * IZR n).
Proof.
  intros Hr Hr1 Hn. pose proof (product_format64 r n Hr Hr1 Hn) as F.
  assert (E : rnd64 (r * IZR n) = r * IZR n) by (apply rnd64_id; exact F).
  split; [exact F|]. split; [exact E|].
  unfold float_final_space_size. rewrite E. apply Ztrunc_floor.
  apply Rmult_le_pos; [lra | apply IZR_le; lia].
Qed.

(* (b) truncating the rounded quotient of two integers below 2^29 gives the integer quotient *)
Lemma pow2_cover (b : Z) : (1 <= b)%Z -> exists j, (0 <= j /\ b <= 2 ^ j /\ 2 ^ j < 2 * b)%Z.
Proof.
  intros Hb. destruct (Z.eq_dec b 1) as [E|E].
  - exists 0%Z. subst. cbn. lia.
  - assert (H1 : (1 < b)%Z) by lia. pose proof (Z.log2_up_spec b H1) as [L U].
    pose proof (Z.log2_up_pos b H1) as P.
    exists (Z.log2_up b). split; [lia|]. split; [exact U|].
    replace (Z.log2_up b) with (Z.succ (Z.pred (Z.log2_up b))) by lia.
    rewrite Z.pow_succ_r by lia. lia.
Qed.

Lemma quotient_floor (a b : Z) : (0 <= a < 2 ^ 29)%Z -> (1 <= b < 2 ^ 29)%Z ->
  Zfloor (rnd64 (IZR a / IZR b)) = (a / b)%Z /\ float_quota a b = (a / b)%Z.
Proof.
  intros Ha Hb. set (k := (a / b)%Z). set (x := IZR a / IZR b).
  assert (Hk0 : (0 <= k)%Z) by (apply Z.div_pos; lia).
  assert (Hkb : (b * k <= a)%Z) by (apply Z.mul_div_le; lia).
  assert (Hka : (a < b * (k + 1))%Z).
  { pose proof (Z.mul_succ_div_gt a b ltac:(lia)). unfold k. lia. }
  assert (Hk29 : (k < 2 ^ 29)%Z) by nia.
  assert (Bp : 0 < IZR b) by (apply IZR_lt; lia).
  (* k <= x, and k is a binary64 number *)
  assert (Lo : IZR k <= rnd64 x).
  { apply rnd64_ge; [apply format64_int; lia |].
    unfold x. apply Rmult_le_reg_r with (IZR b); [exact Bp|].
    replace (IZR a / IZR b * IZR b) with (IZR a) by (field; lra).
    rewrite <- mult_IZR. apply IZR_le. lia. }
  (* a binary64 number y with x <= y < k + 1 *)
  destruct (pow2_cover b ltac:(lia)) as [j [Hj0 [Hj1 Hj2]]].
  set (P := (2 ^ j)%Z) in *. set (N := ((k + 1) * P - 1)%Z).
  assert (HP : (0 < P)%Z) by lia.
  assert (Pp : 0 < IZR P) by (apply IZR_lt; lia).
  assert (HPj : IZR P = bpow radix2 j) by (unfold P; rewrite <- IZR_Zpower by lia; reflexivity).
  assert (Hj29 : (j <= 29)%Z).
  { destruct (Z_le_gt_dec j 29) as [L|G]; [exact L|]. exfalso.
    assert (2 ^ 30 <= 2 ^ j)%Z by (apply Z.pow_le_mono_r; lia). unfold P in *. lia. }
  set (y := IZR N * bpow radix2 (- j)).
  assert (Fy : format64 y).
  { apply format64_int_scaled; [|lia]. unfold N. rewrite Z.abs_eq by nia.
    assert (k * P < 2 ^ 30)%Z by nia.
    assert (2 ^ 30 + 2 ^ 30 < 2 ^ 53)%Z by (cbn; lia). nia. }
  assert (Ey : y = IZR N / IZR P).
  { unfold y. rewrite bpow_opp, <- HPj. reflexivity. }
  assert (Hxy : x <= y).
  { rewrite Ey. unfold x. apply Rmult_le_reg_r with (IZR b * IZR P); [apply Rmult_lt_0_compat; assumption|].
    replace (IZR a / IZR b * (IZR b * IZR P)) with (IZR a * IZR P) by (field; lra).
    replace (IZR N / IZR P * (IZR b * IZR P)) with (IZR N * IZR b) by (field; lra).
    rewrite <- !mult_IZR. apply IZR_le. unfold N.
    assert (b * (k + 1) - a >= 1)%Z by lia. nia. }
  assert (Hy1 : y < IZR (k + 1)).
  { rewrite Ey. apply Rmult_lt_reg_r with (IZR P); [exact Pp|].
    replace (IZR N / IZR P * IZR P) with (IZR N) by (field; lra).
    rewrite <- mult_IZR. apply IZR_lt. unfold N. lia. }
  assert (Hi : rnd64 x <= y).
  { apply rnd64_le; [exact Fy | exact Hxy]. }
  assert (Fl : Zfloor (rnd64 x) = k) by (apply Zfloor_imp; split; [exact Lo | lra]).
  split; [exact Fl|].
  unfold float_quota. fold x. rewrite Ztrunc_floor; [exact Fl|].
  apply Rle_trans with (IZR k); [apply IZR_le; exact Hk0 | exact Lo].
Qed.

(* (c) connection with the model's exact definitions *)
Lemma Zfloor_Q2R_mul (q : Q) (n : Z) : Zfloor (Q2R q * IZR n) = ((Qnum q * n) / Zpos (Qden q))%Z.
Proof.
  unfold Q2R. replace (IZR (Qnum q) * / IZR (Zpos (Qden q)) * IZR n) with (IZR (Qnum q * n) / IZR (Zpos (Qden q))).
  - apply Zfloor_div. discriminate.
  - rewrite mult_IZR. unfold Rdiv. ring.
Qed.

Lemma insert_count_length v l : (length (insert_count v l) <= S (length l))%nat.
Proof.
  induction l as [|[w k] t IH]; cbn [insert_count length]; [lia|].
  destruct (v <? w)%Z; [cbn [length]; lia|]. destruct (v =? w)%Z; cbn [length]; lia.
Qed.

Lemma f_values_length X : (length (f_values X) <= length X)%nat.
Proof.
  unfold f_values. rewrite map_length. induction X as [|x t IH]; cbn [numba_unique fold_right length]; [lia|].
  fold (numba_unique t). pose proof (insert_count_length x (numba_unique t)). lia.
Qed.

Lemma f_values_nonempty X : X <> nil -> (1 <= length (f_values X))%nat.
Proof.
  intros NE. destruct X as [|x t]; [congruence|].
  unfold f_values. rewrite map_length. cbn [numba_unique fold_right]. fold (numba_unique t).
  destruct (numba_unique t) as [|[w k] l]; cbn [insert_count]; [cbn; lia|].
  destruct (x <? w)%Z; [cbn [length]; lia|]. destruct (x =? w)%Z; cbn [length]; lia.
Qed.

Lemma final_space_size_float (q : Q) (n : nat) :
  format32 (Q2R q) -> 0 < Q2R q < 1 -> (Z.of_nat n < 2 ^ 29)%Z ->
  Z.of_nat (final_space_size q n) = float_final_space_size (Q2R q) (Z.of_nat n) /\
  (Z.of_nat (final_space_size q n) <= Z.of_nat n)%Z.
Proof.
  intros F R N. destruct (product_exact (Q2R q) (Z.of_nat n) F R ltac:(lia)) as [_ [_ E]].
  rewrite E, Zfloor_Q2R_mul. unfold final_space_size.
  assert (Qp : (0 < Qnum q)%Z).
  { destruct R as [R0 _]. unfold Q2R in R0. destruct (Z_lt_le_dec 0 (Qnum q)) as [L|L]; [exact L|exfalso].
    assert (IZR (Qnum q) <= 0) by (apply IZR_le; exact L).
    assert (0 < / IZR (Zpos (Qden q))) by (apply Rinv_0_lt_compat; apply IZR_lt; reflexivity).
    assert (IZR (Qnum q) * / IZR (Z.pos (Qden q)) <= 0 * / IZR (Z.pos (Qden q))) by (apply Rmult_le_compat_r; lra).
    lra. }
  assert (Ql : (Qnum q < Zpos (Qden q))%Z).
  { destruct R as [_ R1]. unfold Q2R in R1. apply lt_IZR.
    assert (D : 0 < IZR (Zpos (Qden q))) by (apply IZR_lt; reflexivity).
    apply Rmult_lt_reg_r with (/ IZR (Zpos (Qden q))); [apply Rinv_0_lt_compat; exact D|].
    rewrite Rinv_r by lra. exact R1. }
  assert (D0 : (0 <= Qnum q * Z.of_nat n / Zpos (Qden q))%Z) by (apply Z.div_pos; [nia|reflexivity]).
  rewrite Z2Nat.id by exact D0. split; [reflexivity|].
  apply Z.div_le_upper_bound; [reflexivity|]. nia.
Qed.

(* for n < 2^29 the quota the code computes in floats is the model's exact quota *)
Lemma quota_float (X : list Z) (q : Q) :
  X <> nil -> (Z.of_nat (length X) < 2 ^ 29)%Z -> format32 (Q2R q) -> 0 < Q2R q < 1 ->
  Z.of_nat (quota X q) =
  float_quota (float_final_space_size (Q2R q) (Z.of_nat (length X))) (Z.of_nat (length (f_values X))).
Proof.
  intros NE N F R. destruct (final_space_size_float q (length X) F R N) as [E1 E2].
  rewrite <- E1.
  pose proof (f_values_length X) as L1. pose proof (f_values_nonempty X NE) as L2.
  destruct (quotient_floor (Z.of_nat (final_space_size q (length X))) (Z.of_nat (length (f_values X)))) as [_ E3]; [lia|lia|].
  rewrite E3. unfold quota, quota_of. rewrite Nat2Z.inj_div. reflexivity.
Qed.

(* np.float32(0.7) *)
Lemma ex_float32 : format32 (Q2R (11744051 # 16777216)) /\ 0 < Q2R (11744051 # 16777216) < 1.
Proof.
  split.
  - unfold Q2R. cbn [Qnum Qden]. apply generic_format_FLT.
    apply (FLT_spec radix2 (-149) 24 _ (Float radix2 11744051 (-24))).
    + unfold F2R, bpow. cbn [Fnum Fexp]. do 2 apply f_equal. reflexivity.
    + cbn. lia.
    + cbn. lia.
  - unfold Q2R. cbn [Qnum Qden]. lra.
Qed.
