(* C01-C03 — executable transcription of
     /repo/outrank/algorithms/feature_ranking/ranking_mi_numba.py
   (numba_unique, compute_conditional_entropy, compute_entropies, mutual_info_estimator_numba with
   approximation_factor = 1.0) over [list Z] (category codes, >= 0 in the real code).

   The result of the model is not a float but the exact TERM STRUCTURE of integers that the numba code
   feeds into [log]: all_events, the class counts of Y, and per non-skipped stratum of X its size, the
   real class counts and the displaced ("spoofed") class counts, plus the effective correction flag.
   [eval_R] gives the structure its meaning in R, mirroring the arithmetic of compute_conditional_entropy /
   compute_entropies term by term.  The harness evaluates the same structure in float64
   (tools/props/c01.py: eval_float) and compares with the float32 result of the real code.

   No proofs in this file: the model must still run when a proof breaks. *)
From Coq Require Import Reals List Arith ZArith Bool.
From Outrank Require Import Common.RSum.
Import ListNotations.

(* ---------------------------------------------------------------------- *)
(* numba_unique(a): the distinct values in ascending order (np.nonzero of the histogram container) and
   their multiplicities. *)

Fixpoint zinsert (x : Z) (l : list Z) : list Z :=
  match l with
  | [] => [x]
  | y :: r => if Z.ltb x y then x :: l else if Z.eqb x y then l else y :: zinsert x r
  end.

Definition uvals (a : list Z) : list Z := fold_right zinsert [] a.

(* container[val] : number of positions holding val *)
Fixpoint cnt (v : Z) (a : list Z) : nat :=
  match a with
  | [] => 0
  | x :: r => if Z.eqb x v then S (cnt v r) else cnt v r
  end.

Definition numba_unique (a : list Z) : list Z * list nat :=
  let u := uvals a in (u, map (fun v => cnt v a) u).

(* np.where(X == v)[0], positions counted from i *)
Fixpoint where_eq (i : nat) (v : Z) (X : list Z) : list nat :=
  match X with
  | [] => []
  | x :: r => if Z.eqb x v then i :: where_eq (S i) v r else where_eq (S i) v r
  end.

(* Y[idx] (fancy indexing; every index produced by where_eq is in range) *)
Definition gather (Y : list Z) (idx : list nat) : list Z := map (fun i => nth i Y 0%Z) idx.

(* ---------------------------------------------------------------------- *)
(* the term structure *)

Record stratum := mkS {
  s_cnt : Z;              (* _f_value_counts : size of the stratum (class_var_shape, numerator of initial_prob) *)
  s_real : list Z;        (* nonzero_class_counts, one entry per class value of Y (zeros included) *)
  s_spoof : list Z        (* nonzero_class_counts_spoofed *)
}.

Record terms := mkT {
  t_n : Z;                (* all_events *)
  t_classes : list Z;     (* class_counts of Y *)
  t_strata : list stratum;(* strata of X that are not skipped by `if _f_value_counts == 1: continue` *)
  t_corr : bool           (* cardinality_correction as seen by compute_entropies *)
}.

(* one iteration of the loop over f_values (after the singleton test) *)
Definition stratum_of (X Y : list Z) (class_values : list Z) (fv : Z) (fc : nat) : stratum :=
  let sub := where_eq 0 fv X in                                       (* x_value_subspace *)
  let Y_classes := gather Y sub in
  let Y_spoofed := map (fun el => nth ((el + fc) mod length Y) Y 0%Z) sub in   (* (el + _f_value_counts) % len(Y) *)
  mkS (Z.of_nat fc)
      (map (fun c => Z.of_nat (cnt c Y_classes)) class_values)
      (map (fun c => Z.of_nat (cnt c Y_spoofed)) class_values).

Definition not_singleton (p : Z * nat) : bool := negb (Nat.eqb (snd p) 1).

Definition compute_entropies (X Y : list Z) (all_events : nat) (f_values : list Z) (f_value_counts : list nat)
           (cardinality_correction : bool) : terms :=
  let '(class_values, class_counts) := numba_unique Y in
  mkT (Z.of_nat all_events)
      (map Z.of_nat class_counts)
      (map (fun p => stratum_of X Y class_values (fst p) (snd p))
           (filter not_singleton (combine f_values f_value_counts)))
      cardinality_correction.

(* everything after the self-pair test, with a fixed flag *)
Definition core (Y X : list Z) (corr : bool) : terms :=
  let '(f_values, f_value_counts) := numba_unique X in
  compute_entropies X Y (length X) f_values f_value_counts corr.

(* np.array_equal(X, Y) *)
Fixpoint veq (a b : list Z) : bool :=
  match a, b with
  | [], [] => true
  | x :: a', y :: b' => Z.eqb x y && veq a' b'
  | _, _ => false
  end.

(* mutual_info_estimator_numba(Y, X, 1.0, corr) — the repaired code (fix d3e3a97) *)
Definition entry (Y X : list Z) (corr : bool) : terms :=
  core Y X (if veq X Y then false else corr).

(* the code before the fix: `if np.sum(X - Y) == 0: cardinality_correction = False` (kept for C02_prefix_refuted) *)
Definition zsum (l : list Z) : Z := fold_right Z.add 0%Z l.
Definition entry_old (Y X : list Z) (corr : bool) : terms :=
  core Y X (if Z.eqb (zsum (map (fun p => (fst p - snd p)%Z) (combine X Y))) 0 then false else corr).

(* ---------------------------------------------------------------------- *)
(* meaning of a term structure in R *)
Open Scope R_scope.

(* compute_conditional_entropy(_, class_values, class_var_shape = cnt, initial_prob = cnt / n, counts) *)
Definition cond_entropy (n cntv : Z) (counts : list Z) : R :=
  rsum (fun c => if Z.eqb c 0 then 0
                 else - ((IZR cntv / IZR n) * (IZR c / IZR cntv) * ln (IZR c / IZR cntv))) counts.

Definition full_entropy (n : Z) (classes : list Z) : R :=
  rsum (fun c => - (IZR c / IZR n) * ln (IZR c / IZR n)) classes.

Definition eval_R (t : terms) : R :=
  let cond := rsum (fun s => cond_entropy (t_n t) (s_cnt s) (s_real s)) (t_strata t) in
  let bg := rsum (fun s => cond_entropy (t_n t) (s_cnt s) (s_spoof s)) (t_strata t) in
  if t_corr t then - cond + bg else full_entropy (t_n t) (t_classes t) - cond.

(* flattening for the harness: (n, classes, [(cnt, real, spoof)], corrected); zero counts are dropped from the
   printed lists (cond_entropy gives them the value 0, as the code's `if conditional_prob != 0` does) *)
Definition nz (l : list Z) : list Z := filter (fun c => negb (Z.eqb c 0)) l.
Definition enc (t : terms) : Z * list Z * list (Z * list Z * list Z) * bool :=
  (t_n t, t_classes t, map (fun s => (s_cnt s, nz (s_real s), nz (s_spoof s))) (t_strata t), t_corr t).
