(* C01-C03 — the specification side: textbook plug-in (empirical) Shannon quantities of two code vectors,
   in nats, over R.  Nothing here refers to the transcription in MI/Model.v.

   Notation: n = length, n_y / n_x = number of positions holding the value, n_xy = number of positions i
   with X[i] = x and Y[i] = y.  The sums range over the values / pairs that OCCUR (stdlib [nodup]). *)
From Coq Require Import Reals List Arith ZArith.
From Outrank Require Import Common.RSum MI.MIcore.
Import ListNotations.
Open Scope R_scope.

Definition nocc (v : Z) (l : list Z) : R := INR (count_occ Z.eq_dec l v).
Definition nocc2 (x y : Z) (X Y : list Z) : R := INR (count_occ pair_dec (combine X Y) (x, y)).
Definition len (l : list Z) : R := INR (length l).

(* H(Y) = - sum_y (n_y/n) ln (n_y/n) *)
Definition H (Y : list Z) : R :=
  rsum (fun y => - (nocc y Y / len Y) * ln (nocc y Y / len Y)) (nodup Z.eq_dec Y).

(* H(Y|X) = - sum_{(x,y)} (n_xy/n) ln (n_xy/n_x) *)
Definition Hcond (Y X : list Z) : R :=
  rsum (fun xy => - (nocc2 (fst xy) (snd xy) X Y / len X) * ln (nocc2 (fst xy) (snd xy) X Y / nocc (fst xy) X))
       (nodup pair_dec (combine X Y)).

(* I(Y;X) = sum_{(x,y)} (n_xy/n) ln (n n_xy / (n_x n_y)) *)
Definition MI_plugin (Y X : list Z) : R :=
  rsum (fun xy => (nocc2 (fst xy) (snd xy) X Y / len X)
                  * ln (len X * nocc2 (fst xy) (snd xy) X Y / (nocc (fst xy) X * nocc (snd xy) Y)))
       (nodup pair_dec (combine X Y)).

(* the displaced copy of Y used by the cardinality correction: inside the group of rows sharing the target
   value X[i], Y* reads Y at the row position advanced cyclically by the size of that group *)
Definition displace (Y X : list Z) : list Z :=
  let n := length Y in
  map (fun i => nth ((i + count_occ Z.eq_dec X (nth i X 0%Z)) mod n) Y 0%Z) (seq 0 n).

Definition constant (a : Z) (l : list Z) : Prop := forall v, In v l -> v = a.
Definition inj_on (f : Z -> Z) (l : list Z) : Prop := forall a b, In a l -> In b l -> f a = f b -> a = b.
