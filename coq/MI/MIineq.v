From Coq Require Import Reals List Lra Lia Arith ZArith Rpower.
From Outrank Require Import Common.RSum MI.MIcore.
Import ListNotations.
Open Scope R_scope.

Lemma ln_le_minus1 : forall y, 0 < y -> ln y <= y - 1.
Proof.
  intros y Hy. pose proof (exp_ineq1_le (y - 1)) as H.
  replace (1 + (y - 1)) with y in H by lra.
  destruct (Rle_lt_or_eq_dec _ _ H) as [Hlt|Heq].
  - apply Rlt_le. rewrite <- (ln_exp (y-1)). apply ln_increasing; assumption.
  - rewrite Heq at 1. rewrite ln_exp. lra.
Qed.

Lemma rsum_const {A} (k : R) (l : list A) : rsum (fun _ => k) l = INR (length l) * k.
Proof. induction l as [|a l IH]; [simpl; lra|]. rewrite rsum_cons, IH. cbn [length]. rewrite S_INR. lra. Qed.

Lemma rsum_nonneg {A} (f : A -> R) l : (forall a, In a l -> 0 <= f a) -> 0 <= rsum f l.
Proof. intros H. rewrite <- (rsum_zero (fun _ : A => 0) l) by reflexivity. apply rsum_le. exact H. Qed.

Lemma rsum_opp {A} (f : A -> R) l : rsum (fun a => - f a) l = - rsum f l.
Proof. induction l as [|a l IH]; [simpl; lra|]. rewrite !rsum_cons, IH; lra. Qed.

Section Gibbs.
  Variable P : list (Z * Z).
  Variables UX UY : list Z.
  Hypothesis HndX : NoDup UX.
  Hypothesis HndY : NoDup UY.
  Hypothesis HinX : incl (map fst P) UX.
  Hypothesis HinY : incl (map snd P) UY.
  Hypothesis Hn : (0 < length P)%nat.
  Let n := INR (length P).

  Lemma sum_cX : rsum (cX P) UX = n.
  Proof.
    unfold cX. rewrite <- (rsum_ext_in (fun u => INR (count_occ Z.eq_dec (map fst P) u) * 1)) by (intros; lra).
    rewrite (sum_by_value Z.eq_dec (fun _ => 1) (map fst P) UX HndX HinX).
    rewrite rsum_const, map_length. unfold n. lra.
  Qed.
  Lemma sum_cY : rsum (cY P) UY = n.
  Proof.
    unfold cY. rewrite <- (rsum_ext_in (fun u => INR (count_occ Z.eq_dec (map snd P) u) * 1)) by (intros; lra).
    rewrite (sum_by_value Z.eq_dec (fun _ => 1) (map snd P) UY HndY HinY).
    rewrite rsum_const, map_length. unfold n. lra.
  Qed.

  Theorem MIp_nonneg : 0 <= MIp P.
  Proof.
    assert (Hp : 0 < n) by (unfold n; apply lt_0_INR; exact Hn).
    unfold MIp. fold n.
    (* - n*MI = sum ln (cX cY / (n cXY)) <= sum (cX cY/(n cXY) - 1) <= 0 *)
    set (t := fun xy : Z * Z => cX P (fst xy) * cY P (snd xy) / (n * cXY P (fst xy) (snd xy))).
    assert (Hpos : forall xy, In xy P -> 0 < cXY P (fst xy) (snd xy) /\ 0 < cX P (fst xy) /\ 0 < cY P (snd xy)).
    { intros [x y] Hin. simpl.
      assert ((1 <= count_occ pair_dec P (x, y))%nat) by (apply count_occ_In; exact Hin).
      pose proof (count_pair_le_fst P x y). pose proof (count_pair_le_snd P x y).
      unfold cXY, cX, cY. repeat split; apply lt_0_INR; lia. }
    assert (H1 : rsum (fun xy => ln (n * cXY P (fst xy) (snd xy) / (cX P (fst xy) * cY P (snd xy)))) P
                 = - rsum (fun xy => ln (t xy)) P).
    { rewrite <- rsum_opp. apply rsum_ext_in. intros xy Hin. destruct (Hpos xy Hin) as (Ha & Hb & Hc). unfold t.
      assert (Ht : 0 < cX P (fst xy) * cY P (snd xy) / (n * cXY P (fst xy) (snd xy)))
        by (apply Rdiv_lt_0_compat; apply Rmult_lt_0_compat; assumption).
      rewrite <- ln_Rinv by exact Ht. apply f_equal. field. repeat split; lra. }
    rewrite H1.
    assert (H2 : rsum (fun xy => ln (t xy)) P <= rsum (fun xy => t xy - 1) P).
    { apply rsum_le. intros xy Hin. destruct (Hpos xy Hin) as (Ha & Hb & Hc).
      apply ln_le_minus1. unfold t. apply Rdiv_lt_0_compat; apply Rmult_lt_0_compat; assumption. }
    assert (H3 : rsum (fun xy => t xy - 1) P <= 0).
    { rewrite rsum_minus, rsum_const. fold n.
      (* sum_P t = sum over U of count * t <= sum over product of cX cY / n = n *)
      rewrite <- (sum_by_value pair_dec t P (list_prod UX UY)).
      - assert (Hle : rsum (fun u => INR (count_occ pair_dec P u) * t u) (list_prod UX UY)
                      <= rsum (fun u => cX P (fst u) * cY P (snd u) / n) (list_prod UX UY)).
        { apply rsum_le. intros [x y] _. unfold t. simpl fst; simpl snd. fold (cXY P x y).
          destruct (Nat.eq_dec (count_occ pair_dec P (x, y)) 0) as [E|NE].
          - unfold cXY. rewrite E. simpl. rewrite Rmult_0_l.
            apply Rmult_le_pos; [apply Rmult_le_pos; unfold cX, cY; apply pos_INR|]. left. apply Rinv_0_lt_compat. exact Hp.
          - assert (0 < cXY P x y) by (unfold cXY; apply lt_0_INR; lia). right. field. split; lra. }
        rewrite <- (rsum_list_prod (fun x y => cX P x * cY P y / n) UX UY) in Hle.
        assert (E : rsum (fun a => rsum (fun b => cX P a * cY P b / n) UY) UX = n).
        { erewrite rsum_ext_in.
          2:{ intros a _. erewrite (rsum_ext_in _ (fun b => (cX P a / n) * cY P b)) by (intros; unfold Rdiv; lra).
              rewrite rsum_scal, sum_cY. reflexivity. }
          erewrite (rsum_ext_in _ (fun a => 1 * cX P a)).
          2:{ intros a _. field. lra. }
          rewrite rsum_scal, sum_cX. lra. }
        rewrite E in Hle. lra.
      - apply NoDup_prod; assumption.
      - intros [x y] Hin. apply in_prod_iff. split.
        + apply HinX. apply (in_map fst) in Hin. exact Hin.
        + apply HinY. apply (in_map snd) in Hin. exact Hin. }
    assert (0 < / n) by (apply Rinv_0_lt_compat; exact Hp).
    assert (0 <= - rsum (fun xy => ln (t xy)) P) by lra.
    apply Rmult_le_pos; lra.
  Qed.
End Gibbs.
