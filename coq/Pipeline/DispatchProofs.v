(* C05 — facts about the GENERATED dispatch table (Gen/Dispatch.v) and the GENERATED list of documented
   heuristic names (Gen/DocNames.v).  Both files are rewritten from the repo on every run, so these proofs
   are re-checked against the current source each time.  The finite facts are closed by vm_compute (the
   domain is the finite generated list); [flag_only_randomized] is a statement about ALL strings and is
   proved by case analysis over the generated chain. *)
From Coq Require Import String Ascii.
From Coq Require Import List NArith Bool.
From Outrank Require Import Pipeline.RankGraph Pipeline.RankGraphProofs Gen.Dispatch Gen.DocNames.
Import ListNotations.
Open Scope string_scope.

Lemma dispatch_table :
  dispatch (s_of "MI") = SkMI /\
  dispatch (s_of "MI-numba-3mr") = NumbaMI false /\
  dispatch (s_of "MI-numba") = NumbaMI false /\
  dispatch (s_of "MI-numba-randomized") = NumbaMI true /\
  dispatch (s_of "max-value-coverage") = MaxCov /\
  dispatch (s_of "correlation-Pearson") = Pearson /\
  dispatch (s_of "AMI") = AMI /\
  dispatch (s_of "Constant") = Const.
Proof. vm_compute. repeat split; reflexivity. Qed.

(* a name that is neither documented nor known falls through to the warning + constant branch *)
Lemma dispatch_unknown_is_fallback : dispatch (s_of "no-such-heuristic") = Fallback.
Proof. vm_compute. reflexivity. Qed.

(* NO documented name falls through to the warning + constant branch (no exemption: surrogate names must reach the
   surrogate scorer) *)
Lemma no_silent_constant : forall name, In name doc_names -> dispatch name <> Fallback.
Proof.
  assert (H : forallb (fun h => negb (scorer_eqb (dispatch h) Fallback)) doc_names = true)
    by (vm_compute; reflexivity).
  rewrite forallb_forall in H. intros name Hin E. specialize (H name Hin).
  rewrite E in H. simpl in H. discriminate H.
Qed.

(* the quantifier is not empty, and the default of --heuristic is a documented name *)
Lemma doc_names_nonvacuous :
  In (s_of "MI-numba-randomized") doc_names /\ (2 <= length doc_names)%nat.
Proof.
  split; [|vm_compute; repeat constructor].
  apply smem_in. vm_compute. reflexivity.
Qed.

(* only the exact name MI-numba-randomized switches the cardinality correction on (all strings) *)
Lemma flag_only_randomized : forall h, dispatch h = NumbaMI true -> h = s_of "MI-numba-randomized".
Proof.
  intros h. unfold dispatch.
  repeat match goal with |- context [if ?c then _ else _] => destruct c eqn:? end;
    intros H; try discriminate H.
  all: try (injection H as H; apply seqb_eq in H; exact H).
  all: match goal with Hq : seqb _ _ = true |- _ => apply seqb_eq in Hq; exact Hq end.
Qed.

(* every name of the MI-numba family other than that one runs the plain estimator *)
Lemma numba_family_plain : forall h, dispatch h = NumbaMI false -> h <> s_of "MI-numba-randomized".
Proof.
  intros h H E. subst h. revert H. vm_compute. discriminate.
Qed.

(* the no-scoring shortcut of mixed_rank_graph is taken exactly for the name the dispatch maps to Const (all strings) *)
Lemma const_branch_iff : forall h, is_const_name h = true <-> dispatch h = Const.
Proof.
  intros h. split.
  - unfold is_const_name. intros E.
    repeat match type of E with
           | negb _ = true => apply negb_true_iff in E
           end.
    apply seqb_eq in E. subst h. vm_compute. reflexivity.
  - unfold dispatch.
    repeat match goal with |- context [if ?c then _ else _] => destruct c eqn:? end;
      intros H; try discriminate H.
    all: unfold is_const_name; assumption.
Qed.

(* 3MR mode ('3mr' in the name) is only ever combined with the plain numba estimator among the known names *)
Lemma three_mr_names_plain :
  (forall name, In name doc_names -> is_3mr_name name = true -> dispatch name = NumbaMI false) /\
  is_3mr_name (s_of "MI-numba-3mr") = true /\ is_3mr_name (s_of "MI-numba-randomized") = false /\
  is_3mr_name (s_of "MI") = false /\ is_3mr_name (s_of "Constant") = false.
Proof.
  split; [|vm_compute; repeat split; reflexivity].
  assert (H : forallb (fun h => negb (is_3mr_name h) || scorer_eqb (dispatch h) (NumbaMI false)) doc_names = true)
    by (vm_compute; reflexivity).
  rewrite forallb_forall in H. intros name Hin E. specialize (H name Hin). rewrite E in H. simpl in H.
  destruct (dispatch name) as [| | |[|]| | | |]; simpl in H; try discriminate H; reflexivity.
Qed.
