(* C09 — proofs about the pool model of Pipeline/Pool.v *)
From Coq Require Import List Arith NArith ZArith Bool Lia Permutation.
From Outrank Require Import Pipeline.Aggregate Pipeline.AggregateProofs Pipeline.Pool.
Import ListNotations.
Local Open Scope nat_scope.

Lemma nth_error_ext {A} (l : list A) : forall l', (forall j, nth_error l j = nth_error l' j) -> l = l'.
Proof.
  induction l as [|x l IH]; intros [|y l'] H.
  - reflexivity.
  - specialize (H 0). discriminate.
  - specialize (H 0). discriminate.
  - pose proof (H 0) as H0. cbn in H0. injection H0 as ->. f_equal. apply IH. intros j. exact (H (S j)).
Qed.

Lemma flat_map_ext_in' {A B} (f g : A -> list B) l : (forall x, In x l -> f x = g x) -> flat_map f l = flat_map g l.
Proof.
  induction l as [|x l IH]; intros H; [reflexivity|]. cbn. rewrite (H x (or_introl eq_refl)), IH; [reflexivity|].
  intros y Hy. apply H. right. exact Hy.
Qed.

Section PoolProofs.
  Context {T R : Type}.
  Variable f : T -> R.

  Lemma upd_length {X} i (x : X) l : length (upd i x l) = length l.
  Proof. revert i. induction l as [|y l IH]; intros [|i]; cbn; auto. Qed.
  Lemma upd_same {X} i (x : X) l : i < length l -> nth_error (upd i x l) i = Some x.
  Proof. revert i. induction l as [|y l IH]; intros [|i] H; cbn in *; try lia; [reflexivity|apply IH; lia]. Qed.
  Lemma upd_other {X} i j (x : X) l : i <> j -> nth_error (upd i x l) j = nth_error l j.
  Proof. revert i j. induction l as [|y l IH]; intros [|i] [|j] H; cbn; auto; try lia. Qed.

  Lemma complete_length tasks slots i : length (complete f tasks slots i) = length slots.
  Proof. unfold complete. destruct (nth_error tasks i); [apply upd_length|reflexivity]. Qed.

  Lemma fold_complete_length tasks sched : forall slots,
    length (fold_left (complete f tasks) sched slots) = length slots.
  Proof. induction sched as [|i r IH]; intros slots; cbn; [reflexivity|]. rewrite IH. apply complete_length. Qed.

  (* slot j after the events: filled with f(task j) iff task j completed at least once *)
  Lemma fold_complete_nth tasks sched : forall slots j t,
    length slots = length tasks -> nth_error tasks j = Some t ->
    nth_error (fold_left (complete f tasks) sched slots) j =
    if existsb (Nat.eqb j) sched then Some (Some (f t)) else nth_error slots j.
  Proof.
    induction sched as [|i r IH]; intros slots j t Hl Hj; [reflexivity|].
    cbn [fold_left existsb]. rewrite (IH _ j t); [|rewrite complete_length; exact Hl|exact Hj].
    destruct (existsb (Nat.eqb j) r); [rewrite orb_true_r; reflexivity|]. rewrite orb_false_r.
    destruct (Nat.eqb_spec j i) as [->|Hne].
    - unfold complete. rewrite Hj. apply upd_same. rewrite Hl. apply nth_error_Some. congruence.
    - unfold complete. destruct (nth_error tasks i); [apply upd_other; congruence|reflexivity].
  Qed.

  Theorem collect_complete tasks sched :
    (forall j, j < length tasks -> In j sched) -> collect f tasks sched = map (fun t => Some (f t)) tasks.
  Proof.
    intros Hall. apply nth_error_ext. intros j. unfold collect.
    destruct (nth_error tasks j) as [t|] eqn:Hj.
    - rewrite (fold_complete_nth tasks sched _ j t); [|apply repeat_length|exact Hj].
      assert (Hin : In j sched) by (apply Hall, nth_error_Some; congruence).
      replace (existsb (Nat.eqb j) sched) with true.
      + symmetry. exact (map_nth_error (fun t => Some (f t)) j tasks Hj).
      + symmetry. apply existsb_exists. exists j. split; [exact Hin|apply Nat.eqb_refl].
    - apply nth_error_None in Hj. transitivity (@None (option R)).
      + apply nth_error_None. rewrite fold_complete_length, repeat_length. exact Hj.
      + symmetry. apply nth_error_None. rewrite map_length. exact Hj.
  Qed.

  Lemma all_some_map (l : list T) : all_some (map (fun t => Some (f t)) l) = Some (map f l).
  Proof. induction l as [|t l IH]; cbn; [reflexivity|]. rewrite IH. reflexivity. Qed.

  (* C09_schedule *)
  Theorem amap_schedule tasks sched :
    Permutation sched (seq 0 (length tasks)) -> amap f tasks sched = Some (map f tasks).
  Proof.
    intros Hp. unfold amap. rewrite collect_complete; [apply all_some_map|].
    intros j Hj. eapply Permutation_in; [symmetry; exact Hp|]. apply in_seq. lia.
  Qed.

  (* until every task has completed there is no result (results.ready() is false) *)
  Theorem amap_not_ready tasks sched j :
    j < length tasks -> ~ In j sched -> amap f tasks sched = None.
  Proof.
    intros Hj Hn. unfold amap.
    destruct (nth_error tasks j) as [t|] eqn:Et; [|apply nth_error_None in Et; lia].
    assert (Hs : nth_error (collect f tasks sched) j = Some None).
    { unfold collect. rewrite (fold_complete_nth tasks sched _ j t); [|apply repeat_length|exact Et].
      replace (existsb (Nat.eqb j) sched) with false.
      - apply nth_error_repeat. exact Hj.
      - symmetry. apply not_true_is_false. intros H. apply existsb_exists in H. destruct H as (x & Hx & E).
        apply Nat.eqb_eq in E. subst. contradiction. }
    revert Hs. generalize (collect f tasks sched) as l. clear. intros l. revert j.
    induction l as [|[x|] l IH]; intros [|j] H; cbn in *; try discriminate; try reflexivity.
    rewrite (IH j H). reflexivity.
  Qed.

  Lemma unordered_seq tasks :
    collect_unordered f tasks (seq 0 (length tasks)) = map f tasks.
  Proof.
    unfold collect_unordered. induction tasks as [|t l IH] using rev_ind; [reflexivity|].
    rewrite app_length. cbn [length]. rewrite Nat.add_1_r, seq_S, flat_map_app, map_app. cbn [plus flat_map].
    rewrite nth_error_app2, Nat.sub_diag by lia. cbn. f_equal. rewrite <- IH.
    apply flat_map_ext_in'. intros i Hi. apply in_seq in Hi. rewrite nth_error_app1 by lia. reflexivity.
  Qed.

  Theorem unordered_perm tasks sched :
    Permutation sched (seq 0 (length tasks)) -> Permutation (collect_unordered f tasks sched) (map f tasks).
  Proof.
    intros Hp. rewrite <- unordered_seq. unfold collect_unordered. apply Permutation_flat_map. exact Hp.
  Qed.
End PoolProofs.

(* ---------------------------------------------------------------------------------------------------------- *)
(* workers and interleavings *)

Lemma concat_all_nil {A} (ws : list (list A)) : Forall (fun w => w = []) ws -> concat ws = [].
Proof. induction 1 as [|w ws Hw _ IH]; [reflexivity|]. cbn. rewrite Hw, IH. reflexivity. Qed.

Theorem interleave_perm {A} (ws : list (list A)) s : interleave ws s -> Permutation s (concat ws).
Proof.
  induction 1 as [ws H|ws1 x w ws2 s _ IH].
  - rewrite concat_all_nil by exact H. constructor.
  - rewrite concat_app in *. cbn [concat] in *. rewrite <- app_comm_cons.
    etransitivity; [apply perm_skip; exact IH|]. apply Permutation_middle.
Qed.

(* C09_pool_size: any two worker counts / assignments / interleavings give the same collected results *)
Theorem pool_size_independent {T R} (f : T -> R) tasks (w w' : nat) ws ws' s s' :
  length ws = w -> length ws' = w' ->
  assignment (length tasks) ws -> assignment (length tasks) ws' ->
  interleave ws s -> interleave ws' s' ->
  amap f tasks s = Some (map f tasks) /\ amap f tasks s' = Some (map f tasks).
Proof.
  intros _ _ Ha Ha' Hi Hi'. split; apply amap_schedule.
  - etransitivity; [apply interleave_perm; exact Hi|exact Ha].
  - etransitivity; [apply interleave_perm; exact Hi'|exact Ha'].
Qed.

(* the executable round-robin split of chunks is an assignment *)
Lemma chunk_fuel_concat {A} c : 0 < c -> forall fuel (l : list A), length l <= fuel -> concat (chunk_fuel fuel c l) = l.
Proof.
  intros Hc. induction fuel as [|k IH]; intros l Hl.
  - destruct l; [reflexivity|cbn in Hl; lia].
  - destruct l as [|x l]; [reflexivity|]. cbn [chunk_fuel concat].
    rewrite IH; [apply firstn_skipn|]. rewrite skipn_length. cbn [length] in *. lia.
Qed.

Lemma deal_perm {A} (items : list (list A)) : forall ws, ws <> [] ->
  Permutation (concat (deal items ws)) (concat ws ++ concat items).
Proof.
  induction items as [|it r IH]; intros ws Hne; cbn [deal concat].
  - rewrite app_nil_r. reflexivity.
  - destruct ws as [|w ws']; [contradiction|].
    rewrite IH by (destruct ws'; discriminate).
    rewrite concat_app. cbn [concat]. rewrite app_nil_r, <- !app_assoc.
    etransitivity; [apply Permutation_app_swap_app|]. reflexivity.
Qed.

Theorem split_workers_assignment w c n : assignment n (split_workers w c n).
Proof.
  unfold assignment, split_workers. rewrite deal_perm.
  - assert (E : concat (repeat (@nil nat) (Nat.max 1 w)) = []).
    { induction (Nat.max 1 w); [reflexivity|exact IHn0]. }
    rewrite E. cbn [app]. unfold chunk_list. rewrite chunk_fuel_concat; [reflexivity|lia|lia].
  - destruct (Nat.max 1 w) eqn:E; [lia|discriminate].
Qed.
Lemma split_workers_length w c n : length (split_workers w c n) = Nat.max 1 w.
Proof.
  unfold split_workers. generalize (chunk_list c (seq 0 n)) as items.
  assert (H : forall (items ws : list (list nat)), length (deal items ws) = length ws).
  { induction items as [|it r IH]; intros ws; [reflexivity|]. destruct ws as [|x ws']; [reflexivity|].
    cbn [deal]. rewrite IH, app_length. cbn. lia. }
  intros items. rewrite H. apply repeat_length.
Qed.

(* ---------------------------------------------------------------------------------------------------------- *)
(* checkers *)

Lemma nat_leb_total x y : Nat.leb x y = true \/ Nat.leb y x = true.
Proof. destruct (Nat.leb_spec x y), (Nat.leb_spec y x); auto; lia. Qed.

Theorem perm_seqb_sound sched n : perm_seqb sched n = true -> Permutation sched (seq 0 n).
Proof.
  unfold perm_seqb. intros H. apply (list_eqb_eq Nat.eqb) in H; [|intros x y; apply Nat.eqb_eq].
  rewrite <- H. symmetry. apply isort_perm.
Qed.

Lemma take_head_spec x ws : forall ws', take_head x ws = Some ws' ->
  exists ws1 w ws2, ws = ws1 ++ (x :: w) :: ws2 /\ ws' = ws1 ++ w :: ws2.
Proof.
  induction ws as [|[|y w] r IH]; intros ws' H; cbn [take_head] in H; [discriminate| |].
  - destruct (take_head x r) as [r'|]; [|discriminate]. injection H as <-.
    destruct (IH _ eq_refl) as (ws1 & w & ws2 & -> & ->). exists ([] :: ws1), w, ws2. split; reflexivity.
  - destruct (Nat.eqb_spec x y) as [->|Hne].
    + injection H as <-. exists [], w, r. split; reflexivity.
    + destruct (take_head x r) as [r'|]; [|discriminate]. injection H as <-.
      destruct (IH _ eq_refl) as (ws1 & w0 & ws2 & -> & ->). exists ((y :: w) :: ws1), w0, ws2. split; reflexivity.
Qed.

Theorem interleaveb_sound s : forall ws, interleaveb ws s = true -> interleave ws s.
Proof.
  induction s as [|x r IH]; intros ws H; cbn [interleaveb] in H.
  - constructor. apply Forall_forall. intros w Hw. rewrite forallb_forall in H. specialize (H w Hw).
    destruct w; [reflexivity|discriminate].
  - destruct (take_head x ws) as [ws'|] eqn:E; [|discriminate].
    destruct (take_head_spec _ _ _ E) as (ws1 & w & ws2 & -> & ->). constructor. apply IH. exact H.
Qed.

Theorem schedule_okb_sound n ws sched : schedule_okb n ws sched = true ->
  assignment n ws /\ interleave ws sched /\ Permutation sched (seq 0 n).
Proof.
  unfold schedule_okb. rewrite andb_true_iff. intros [Hp Hi].
  apply perm_seqb_sound in Hp. apply interleaveb_sound in Hi. repeat split; try assumption.
  etransitivity; [apply interleave_perm; exact Hi|exact Hp].
Qed.

(* ---------------------------------------------------------------------------------------------------------- *)
(* batches and runs *)

Lemma mirror_perm l l' : Permutation l l' -> Permutation (mirror l) (mirror l').
Proof. intros H. unfold mirror. apply Permutation_flat_map. exact H. Qed.

Section RunProofs.
  Context {T : Type}.
  Definition batch := ((T -> triplet) * list T)%type.

  Definition valid_sched (b : batch) (s : list nat) : Prop := Permutation s (seq 0 (length (snd b))).
  Definition rows_serial (bs : list batch) : list (list triplet) :=
    map (fun b => batch_rows_serial (fst b) (snd b)) bs.
  Fixpoint rows_ordered (bs : list batch) (ss : list (list nat)) : list (option (list triplet)) :=
    match bs, ss with
    | b :: br, s :: sr => batch_rows_ordered (fst b) (snd b) s :: rows_ordered br sr
    | _, _ => []
    end.
  Fixpoint rows_unordered (bs : list batch) (ss : list (list nat)) : list (list triplet) :=
    match bs, ss with
    | b :: br, s :: sr => batch_rows_unordered (fst b) (snd b) s :: rows_unordered br sr
    | _, _ => []
    end.

  (* with the order-preserving map every batch yields exactly the serial rows, whatever the schedules *)
  Theorem run_ordered bs ss : Forall2 valid_sched bs ss -> rows_ordered bs ss = map Some (rows_serial bs).
  Proof.
    induction 1 as [|b s br sr Hv _ IH]; [reflexivity|]. cbn [rows_ordered rows_serial map]. f_equal; [|exact IH].
    unfold batch_rows_ordered, batch_rows_serial. rewrite (amap_schedule (fst b) (snd b) s Hv). reflexivity.
  Qed.

  (* with results collected in completion order the rows are a permutation of the serial rows ... *)
  Theorem run_unordered_perm bs ss : Forall2 valid_sched bs ss ->
    Permutation (concat (rows_unordered bs ss)) (concat (rows_serial bs)).
  Proof.
    induction 1 as [|b s br sr Hv _ IH]; [reflexivity|]. cbn [rows_unordered rows_serial map concat].
    apply Permutation_app; [|exact IH]. unfold batch_rows_unordered, batch_rows_serial.
    apply mirror_perm, unordered_perm, Hv.
  Qed.

  (* ... hence the aggregated and the final tables are the same *)
  Theorem run_unordered_table bs ss : Forall2 valid_sched bs ss ->
    final_table (concat (rows_unordered bs ss)) = final_table (concat (rows_serial bs)).
  Proof. intros H. apply final_table_perm, run_unordered_perm, H. Qed.

  (* two runs with arbitrary (valid) schedules: same rows batch by batch, same final table *)
  Corollary run_schedule_independent bs ss ss' : Forall2 valid_sched bs ss -> Forall2 valid_sched bs ss' ->
    rows_ordered bs ss = rows_ordered bs ss' /\
    final_table (concat (rows_unordered bs ss)) = final_table (concat (rows_unordered bs ss')).
  Proof.
    intros H H'. split.
    - rewrite (run_ordered _ _ H), (run_ordered _ _ H'). reflexivity.
    - rewrite (run_unordered_table _ _ H), (run_unordered_table _ _ H'). reflexivity.
  Qed.
End RunProofs.

(* non-vacuity *)
Example pool_example :
  let tasks := [10; 20; 30; 40; 50; 60; 70]%N in
  let f := fun x : N => (x * x)%N in
  let ws := split_workers 3 2 7 in
  ws = [[2; 3]; [4; 5]; [0; 1; 6]] /\
  schedule_okb 7 ws [4; 0; 2; 1; 5; 3; 6] = true /\
  amap f tasks [4; 0; 2; 1; 5; 3; 6] = Some (map f tasks) /\
  amap f tasks [4; 0; 2; 1; 5; 3] = None /\
  collect_unordered f tasks [4; 0; 2; 1; 5; 3; 6] = [2500; 100; 900; 400; 3600; 1600; 4900]%N.
Proof. vm_compute. repeat split; reflexivity. Qed.

Theorem same_multisetb_sound rowsA rowsB : same_multisetb rowsA rowsB = true -> Permutation rowsA rowsB.
Proof.
  unfold same_multisetb. intros H. apply (list_eqb_eq _ row_eqb_eq) in H.
  rewrite <- (isort_perm row_canon_leb rowsA), H. apply isort_perm.
Qed.
Corollary same_multiset_same_table rowsA rowsB : same_multisetb rowsA rowsB = true -> final_table rowsA = final_table rowsB.
Proof. intros H. apply final_table_perm, same_multisetb_sound, H. Qed.
