(* C06 — proofs about the pair enumeration, the cap, and the row construction. *)
From Coq Require Import List Arith ZArith NArith Bool Lia Permutation Sorted ZifyBool.
From Outrank Require Import Pipeline.Sampler Pipeline.SamplerProofs Pipeline.Combos.
Import ListNotations.

(* ---------- strings ---------- *)
Lemma str_eqb_eq a : forall b, str_eqb a b = true <-> a = b.
Proof.
  induction a as [|x a IH]; intros [|y b]; cbn [str_eqb]; try (split; [discriminate|discriminate]); [tauto|].
  rewrite andb_true_iff, N.eqb_eq, IH. split; [intros [-> ->]; reflexivity|intros E; inversion E; auto].
Qed.

Lemma str_eqb_refl a : str_eqb a a = true.
Proof. apply str_eqb_eq. reflexivity. Qed.

Lemma str_eqb_neq a b : str_eqb a b = false <-> a <> b.
Proof.
  split.
  - intros E H. apply str_eqb_eq in H. congruence.
  - intros H. destruct (str_eqb a b) eqn:E; [apply str_eqb_eq in E; contradiction|reflexivity].
Qed.

Lemma str_eqb_sym a b : str_eqb a b = str_eqb b a.
Proof.
  destruct (str_eqb a b) eqn:E.
  - apply str_eqb_eq in E. subst. symmetry. apply str_eqb_refl.
  - symmetry. apply str_eqb_neq. apply str_eqb_neq in E. congruence.
Qed.

Lemma memb_In x l : memb x l = true <-> In x l.
Proof.
  unfold memb. rewrite existsb_exists. split.
  - intros [y [Hy E]]. apply str_eqb_eq in E. subst. exact Hy.
  - intros H. exists x. split; [exact H|apply str_eqb_refl].
Qed.

Lemma memb_false x l : memb x l = false <-> ~ In x l.
Proof.
  split.
  - intros E H. apply memb_In in H. congruence.
  - intros H. destruct (memb x l) eqn:E; [apply memb_In in E; contradiction|reflexivity].
Qed.

Lemma pair_eqb_eq p q : pair_eqb p q = true <-> p = q.
Proof.
  destruct p as [a b], q as [c d]. unfold pair_eqb. cbn [fst snd].
  rewrite andb_true_iff, !str_eqb_eq. split; [intros [-> ->]; reflexivity|intros E; inversion E; auto].
Qed.

Lemma pair_eqb_refl p : pair_eqb p p = true.
Proof. apply pair_eqb_eq. reflexivity. Qed.

Definition swapp (p : pair) : pair := (snd p, fst p).

Lemma upair_eqb_iff p q : upair_eqb p q = true <-> p = q \/ p = swapp q.
Proof.
  unfold upair_eqb. rewrite orb_true_iff, pair_eqb_eq, andb_true_iff, !str_eqb_eq.
  destruct p as [a b], q as [c d]. unfold swapp. cbn [fst snd].
  split; (intros [H|H]; [left; exact H|right]).
  - destruct H as [-> ->]. reflexivity.
  - inversion H. auto.
Qed.

(* a pair is in a list "as an unordered pair" *)
Definition uin (p : pair) (l : list pair) : Prop := In p l \/ In (swapp p) l.

Lemma umemb_uin p l : umemb p l = true <-> uin p l.
Proof.
  unfold umemb, uin. rewrite existsb_exists. split.
  - intros [q [Hq E]]. apply upair_eqb_iff in E. destruct E as [->| ->]; [left; exact Hq|right].
    destruct q; exact Hq.
  - intros [H|H]; [exists p|exists (swapp p)]; (split; [exact H|]); apply upair_eqb_iff; [left; reflexivity|right].
    destruct p; reflexivity.
Qed.

(* ---------- combinations_with_replacement ---------- *)
Lemma in_cwr2_cons {A} (x : A) t a b :
  In (a, b) (cwr2 (x :: t)) <-> (a = x /\ In b (x :: t)) \/ In (a, b) (cwr2 t).
Proof.
  cbn [cwr2]. rewrite in_app_iff, in_map_iff. split.
  - intros [[y [E Hy]]|H]; [left|right; exact H]. inversion E; subst. split; [reflexivity|exact Hy].
  - intros [[-> Hb]|H]; [left; exists b; split; [reflexivity|exact Hb]|right; exact H].
Qed.

Lemma in_cwr2_fwd {A} (l : list A) a b : In (a, b) (cwr2 l) -> In a l /\ In b l.
Proof.
  induction l as [|x t IH]; [intros []|]. rewrite in_cwr2_cons. intros [[-> Hb]|H].
  - split; [now left|exact Hb].
  - destruct (IH H). split; now right.
Qed.

Lemma in_cwr2_bwd {A} (l : list A) a b : In a l -> In b l -> In (a, b) (cwr2 l) \/ In (b, a) (cwr2 l).
Proof.
  induction l as [|x t IH]; [intros []|]. intros Ha Hb. rewrite !in_cwr2_cons.
  destruct Ha as [<-|Ha].
  - left. left. split; [reflexivity|exact Hb].
  - destruct Hb as [<-|Hb].
    + right. left. split; [reflexivity|now right].
    + destruct (IH Ha Hb); [left|right]; right; assumption.
Qed.

Lemma uin_cwr2 (l : list str) a b : uin (a, b) (cwr2 l) <-> In a l /\ In b l.
Proof.
  unfold uin, swapp. cbn [fst snd]. split.
  - intros [H|H]; apply in_cwr2_fwd in H; tauto.
  - intros [Ha Hb]. apply in_cwr2_bwd; assumption.
Qed.

(* ---------- set / sorted ---------- *)
Lemma in_dedup x l : In x (dedup l) <-> In x l.
Proof.
  induction l as [|y t IH]; [reflexivity|]. cbn [dedup]. destruct (memb y t) eqn:E.
  - rewrite IH. cbn [In]. split; [now right|]. intros [<-|H]; [apply memb_In; exact E|exact H].
  - cbn [In]. rewrite IH. reflexivity.
Qed.

Lemma dedup_nodup l : NoDup (dedup l).
Proof.
  induction l as [|y t IH]; [constructor|]. cbn [dedup]. destruct (memb y t) eqn:E; [exact IH|].
  constructor; [|exact IH]. rewrite in_dedup. apply memb_false. exact E.
Qed.

Lemma dedup_fixed l : NoDup l -> dedup l = l.
Proof.
  induction 1 as [|y t Hn Hnd IH]; [reflexivity|]. cbn [dedup].
  rewrite (proj2 (memb_false y t) Hn), IH. reflexivity.
Qed.

Lemma insert_str_perm x l : Permutation (insert_str x l) (x :: l).
Proof.
  induction l as [|h t IH]; cbn [insert_str]; [reflexivity|].
  destruct (str_leb x h); [reflexivity|]. rewrite IH. apply perm_swap.
Qed.

Lemma sort_str_perm l : Permutation (sort_str l) l.
Proof.
  induction l as [|a l IH]; [reflexivity|]. cbn [sort_str fold_right]. fold (sort_str l).
  rewrite insert_str_perm. now constructor.
Qed.

Lemma str_leb_total a : forall b, str_leb a b = false -> str_leb b a = true.
Proof.
  induction a as [|x a IH]; intros [|y b]; cbn [str_leb]; try discriminate; [reflexivity|].
  destruct (N.ltb_spec x y); [discriminate|]. destruct (N.eqb_spec x y) as [->|Hne].
  - rewrite N.ltb_irrefl, N.eqb_refl. apply IH.
  - intros _. destruct (N.ltb_spec y x); [reflexivity|lia].
Qed.

Lemma str_leb_trans a : forall b c, str_leb a b = true -> str_leb b c = true -> str_leb a c = true.
Proof.
  induction a as [|x a IH]; intros [|y b] [|z c]; cbn [str_leb]; try discriminate; try reflexivity.
  destruct (N.ltb_spec x y) as [Hxy|Hxy].
  - intros _. destruct (N.ltb_spec y z) as [Hyz|Hyz].
    + intros _. destruct (N.ltb_spec x z); [reflexivity|lia].
    + destruct (N.eqb_spec y z) as [->|]; [|discriminate]. intros _.
      destruct (N.ltb_spec x z); [reflexivity|lia].
  - destruct (N.eqb_spec x y) as [->|]; [|discriminate]. intros Hab.
    destruct (N.ltb_spec y z); [reflexivity|]. destruct (N.eqb_spec y z) as [->|]; [|discriminate].
    apply IH. exact Hab.
Qed.

Lemma str_leb_antisym a : forall b, str_leb a b = true -> str_leb b a = true -> a = b.
Proof.
  induction a as [|x a IH]; intros [|y b]; cbn [str_leb]; try discriminate; [reflexivity|].
  destruct (N.ltb_spec x y) as [Hxy|Hxy].
  - intros _. destruct (N.ltb_spec y x); [lia|]. destruct (N.eqb_spec y x); [lia|discriminate].
  - destruct (N.eqb_spec x y) as [->|]; [|discriminate]. rewrite N.ltb_irrefl, N.eqb_refl.
    intros H1 H2. f_equal. apply IH; assumption.
Qed.

Definition str_le (a b : str) : Prop := str_leb a b = true.

Lemma insert_str_sorted x l : StronglySorted str_le l -> StronglySorted str_le (insert_str x l).
Proof.
  induction 1 as [|h t Hs IH Hall]; cbn [insert_str]; [constructor; constructor|].
  destruct (str_leb x h) eqn:E.
  - constructor; [constructor; assumption|]. constructor; [exact E|].
    eapply Forall_impl; [|exact Hall]. intros y Hy. eapply str_leb_trans; eassumption.
  - constructor; [exact IH|]. eapply Permutation_Forall; [symmetry; apply insert_str_perm|].
    constructor; [apply str_leb_total; exact E|exact Hall].
Qed.

Lemma sort_str_sorted l : StronglySorted str_le (sort_str l).
Proof. induction l as [|a l IH]; [constructor|]. cbn [sort_str fold_right]. apply insert_str_sorted. exact IH. Qed.

(* sorted(...) of a set is determined by the set: any sorted arrangement of the same distinct names is this list *)
Lemma sorted_perm_unique (l l' : list str) :
  StronglySorted str_le l -> StronglySorted str_le l' -> NoDup l -> Permutation l l' -> l = l'.
Proof.
  revert l'. induction l as [|a l IH]; intros l' Hs Hs' Hnd HP.
  - apply Permutation_nil in HP. subst. reflexivity.
  - destruct l' as [|b l']; [apply Permutation_sym, Permutation_nil in HP; discriminate|].
    inversion Hs as [|? ? Hs1 Ha]; subst. inversion Hs' as [|? ? Hs1' Hb]; subst.
    inversion Hnd as [|? ? Hna Hnd1]; subst. rewrite Forall_forall in Ha, Hb.
    assert (a = b).
    { assert (Hin : In a (b :: l')) by (eapply Permutation_in; [exact HP|now left]).
      assert (Hin' : In b (a :: l)) by (eapply Permutation_in; [symmetry; exact HP|now left]).
      destruct Hin as [->|Hin]; [reflexivity|]. destruct Hin' as [->|Hin']; [reflexivity|].
      apply str_leb_antisym; [apply Ha; exact Hin'|apply Hb; exact Hin]. }
    subst b. f_equal. apply IH; try assumption. eapply Permutation_cons_inv. exact HP.
Qed.

Lemma in_non_rel cols x : In x (non_rel_columns cols) <-> In x cols /\ is_rel x = false.
Proof.
  unfold non_rel_columns. split.
  - intros H. apply (Permutation_in _ (sort_str_perm _)) in H. apply in_dedup, filter_In in H.
    destruct H as [H1 H2]. split; [exact H1|]. destruct (is_rel x); [discriminate|reflexivity].
  - intros [H1 H2]. apply (Permutation_in _ (Permutation_sym (sort_str_perm _))).
    apply in_dedup, filter_In. split; [exact H1|]. rewrite H2. reflexivity.
Qed.

Lemma in_rel cols x : In x (rel_columns cols) <-> In x cols /\ is_rel x = true.
Proof. unfold rel_columns. apply filter_In. Qed.

Lemma listedb_In p l : listedb p l = true <-> In p l.
Proof.
  unfold listedb. rewrite existsb_exists. split.
  - intros [q [Hq E]]. apply pair_eqb_eq in E. subst. exact Hq.
  - intros H. exists p. split; [exact H|apply pair_eqb_refl].
Qed.

Lemma in_diagonal base cols label a b :
  In (a, b) (diagonal base cols label) <-> a = b /\ In a cols /\ a <> label /\ ~ In (a, a) base.
Proof.
  unfold diagonal. rewrite in_map_iff. split.
  - intros [c [E H]]. inversion E; subst. apply filter_In in H. destruct H as [H1 H2].
    apply andb_true_iff in H2. destruct H2 as [H2 H3]. apply negb_true_iff in H2, H3.
    split; [reflexivity|]. split; [exact H1|]. split; [apply str_eqb_neq; exact H2|].
    intros Hin. apply listedb_In in Hin. congruence.
  - intros [<- [H1 [H2 H3]]]. exists a. split; [reflexivity|]. apply filter_In. split; [exact H1|].
    apply str_eqb_neq in H2. rewrite H2. cbn [negb andb]. apply negb_true_iff.
    destruct (listedb (a, a) base) eqn:E; [apply listedb_In in E; contradiction|reflexivity].
Qed.

Lemma uin_app p l1 l2 : uin p (l1 ++ l2) <-> uin p l1 \/ uin p l2.
Proof. unfold uin. rewrite !in_app_iff. tauto. Qed.

Lemma uin_diagonal base cols label a b :
  uin (a, b) (diagonal base cols label) <-> a = b /\ In a cols /\ a <> label /\ ~ In (a, a) base.
Proof.
  unfold uin, swapp. cbn [fst snd]. rewrite !in_diagonal. split.
  - intros [H|[<- H]]; [exact H|]. split; [reflexivity|exact H].
  - intros H. left. exact H.
Qed.

(* base list plus the not-yet-listed diagonal: as a set, the base plus every non-label self-pair *)
Lemma uin_with_diagonal base cols label a b :
  uin (a, b) (base ++ diagonal base cols label) <-> uin (a, b) base \/ (a = b /\ In a cols /\ a <> label).
Proof.
  rewrite uin_app, uin_diagonal. split.
  - intros [H|[H1 [H2 [H3 _]]]]; [left; exact H|right; tauto].
  - intros [H|[<- [H2 H3]]]; [left; exact H|].
    destruct (listedb (a, a) base) eqn:E.
    + left. left. apply listedb_In. exact E.
    + right. split; [reflexivity|]. split; [exact H2|]. split; [exact H3|].
      intros Hin. apply listedb_In in Hin. congruence.
Qed.

(* ---------- the three modes ---------- *)
Theorem cands_target_only cols h tro label :
  is_3mr h = false -> is_tonly tro = true ->
  forall a b, uin (a, b) (candidates cols h tro label) <-> In a cols /\ In b cols /\ (a = label \/ b = label).
Proof.
  intros H3 Ht a b. unfold candidates. rewrite H3, Ht. unfold uin, swapp. cbn [fst snd].
  rewrite !filter_In. unfold has_label. cbn [fst snd]. rewrite !orb_true_iff, !str_eqb_eq. split.
  - intros [[H E]|[H E]]; apply in_cwr2_fwd in H; intuition.
  - intros [Ha [Hb E]]. destruct (in_cwr2_bwd cols a b Ha Hb); [left|right]; (split; [assumption|]); intuition.
Qed.

Theorem cands_pairwise cols h tro label :
  is_3mr h = false -> is_tonly tro = false ->
  forall a b, uin (a, b) (candidates cols h tro label) <-> In a cols /\ In b cols.
Proof.
  intros H3 Ht a b. unfold candidates. rewrite H3, Ht. rewrite uin_with_diagonal, uin_cwr2. split.
  - intros [H|[<- [H _]]]; tauto.
  - intros H. left. exact H.
Qed.

Definition spec_3mr (cols : list str) (tro label a b : str) : Prop :=
  (In a cols /\ In b cols /\ is_rel a = false /\ is_rel b = false)
  \/ (In a cols /\ is_rel a = true /\ b = label)
  \/ (a = label /\ In b cols /\ is_rel b = true)
  \/ (is_tonly tro = false /\ a = b /\ In a cols /\ a <> label).

Lemma uin_rel_label cols label a b :
  uin (a, b) (map (fun c => (c, label)) (rel_columns cols)) <->
  (In a cols /\ is_rel a = true /\ b = label) \/ (a = label /\ In b cols /\ is_rel b = true).
Proof.
  unfold uin, swapp. cbn [fst snd]. rewrite !in_map_iff. split.
  - intros [[c [E H]]|[c [E H]]]; inversion E; subst; apply in_rel in H; [left|right]; tauto.
  - intros [[H1 [H2 ->]]|[-> [H1 H2]]]; [left; exists a|right; exists b]; (split; [reflexivity|]); apply in_rel; tauto.
Qed.

Theorem cands_3mr cols h tro label :
  is_3mr h = true ->
  forall a b, uin (a, b) (candidates cols h tro label) <-> spec_3mr cols tro label a b.
Proof.
  intros H3 a b. unfold candidates, spec_3mr. rewrite H3. destruct (is_tonly tro) eqn:Ht.
  - rewrite uin_app, uin_cwr2, !in_non_rel, uin_rel_label. split.
    + intros [H|[H|H]]; [left; tauto|right; left; exact H|right; right; left; exact H].
    + intros [H|[H|[H|[H _]]]]; [left; tauto|right; left; exact H|right; right; exact H|discriminate].
  - rewrite uin_with_diagonal, uin_app, uin_cwr2, !in_non_rel, uin_rel_label. split.
    + intros [[H|[H|H]]|H]; [left; tauto|right; left; exact H|right; right; left; exact H|right; right; right; tauto].
    + intros [H|[H|[H|[_ H]]]]; [left; left; tauto|left; right; left; exact H|left; right; right; exact H|right; exact H].
Qed.

(* the decidable form of the specification agrees with the three statements *)
Theorem spec_pairb_iff cols h tro label p :
  spec_pairb cols h tro label p = true <-> uin p (candidates cols h tro label).
Proof.
  destruct p as [a b]. unfold spec_pairb. cbn [fst snd]. destruct (is_3mr h) eqn:H3.
  - rewrite (cands_3mr cols h tro label H3). unfold spec_3mr.
    rewrite !orb_true_iff, !andb_true_iff, !negb_true_iff, !memb_In, !str_eqb_eq, str_eqb_neq. tauto.
  - destruct (is_tonly tro) eqn:Ht.
    + rewrite (cands_target_only cols h tro label H3 Ht).
      rewrite !andb_true_iff, orb_true_iff, !memb_In, !str_eqb_eq. tauto.
    + rewrite (cands_pairwise cols h tro label H3 Ht). rewrite andb_true_iff, !memb_In. tauto.
Qed.

Lemma spec_pairb_sym cols h tro label p : spec_pairb cols h tro label (swapp p) = spec_pairb cols h tro label p.
Proof.
  apply eq_true_iff_eq. rewrite !spec_pairb_iff. unfold uin. destruct p as [a b]. unfold swapp. cbn [fst snd]. tauto.
Qed.

(* every name of a candidate is a column of the frame *)
Theorem cands_closed cols h tro label : In label cols ->
  forall a b, In (a, b) (candidates cols h tro label) -> In a cols /\ In b cols.
Proof.
  intros Hl a b H. assert (U : uin (a, b) (candidates cols h tro label)) by (left; exact H). clear H.
  destruct (is_3mr h) eqn:H3.
  - apply (cands_3mr cols h tro label H3) in U. destruct U as [U|[U|[U|U]]].
    + tauto.
    + destruct U as [U1 [_ ->]]. tauto.
    + destruct U as [-> [U1 _]]. tauto.
    + destruct U as [_ [<- [U _]]]. tauto.
  - destruct (is_tonly tro) eqn:Ht.
    + apply (cands_target_only cols h tro label H3 Ht) in U. tauto.
    + apply (cands_pairwise cols h tro label H3 Ht) in U. tauto.
Qed.

(* ---------- list-level reading: multiplicities ---------- *)
Lemma nodup_app {A} (l1 l2 : list A) :
  NoDup l1 -> NoDup l2 -> (forall x, In x l1 -> ~ In x l2) -> NoDup (l1 ++ l2).
Proof.
  induction 1 as [|x l1 Hn Hnd IH]; intros H2 Hd; [exact H2|]. cbn [app]. constructor.
  - rewrite in_app_iff. intros [H|H]; [contradiction|]. apply (Hd x); [now left|exact H].
  - apply IH; [exact H2|]. intros y Hy. apply Hd. now right.
Qed.

Lemma cwr2_nodup {A} (l : list A) : NoDup l -> NoDup (cwr2 l).
Proof.
  induction 1 as [|x t Hn Hnd IH]; [constructor|]. cbn [cwr2]. apply nodup_app.
  - apply FinFun.Injective_map_NoDup; [intros u v E; inversion E; reflexivity|constructor; assumption].
  - exact IH.
  - intros [a b] H1 H2. apply in_map_iff in H1. destruct H1 as [y [E _]]. inversion E; subst.
    apply in_cwr2_fwd in H2. tauto.
Qed.

Lemma cwr2_orient {A} (l : list A) a b : NoDup l -> In (a, b) (cwr2 l) -> In (b, a) (cwr2 l) -> a = b.
Proof.
  induction 1 as [|x t Hn Hnd IH]; [intros []|]. rewrite !in_cwr2_cons. intros [[-> H1]|H1] [[-> H2]|H2].
  - reflexivity.
  - apply in_cwr2_fwd in H2. tauto.
  - apply in_cwr2_fwd in H1. tauto.
  - apply IH; assumption.
Qed.

Lemma non_rel_nodup cols : NoDup (non_rel_columns cols).
Proof.
  unfold non_rel_columns. eapply Permutation_NoDup; [symmetry; apply sort_str_perm|apply dedup_nodup].
Qed.

Definition once (l : list pair) : Prop := NoDup l /\ (forall a b, In (a, b) l -> In (b, a) l -> a = b).

Lemma once_cwr2 (l : list str) : NoDup l -> once (cwr2 l).
Proof. intros H. split; [apply cwr2_nodup; exact H|intros a b; apply cwr2_orient; exact H]. Qed.

Lemma once_filter f l : once l -> once (filter f l).
Proof.
  intros [H1 H2]. split; [apply NoDup_filter; exact H1|].
  intros a b Ha Hb. apply filter_In in Ha, Hb. apply H2; tauto.
Qed.

Lemma once_3mr_base cols label : NoDup cols ->
  once (cwr2 (non_rel_columns cols) ++ map (fun c => (c, label)) (rel_columns cols)).
Proof.
  intros Hnd. split.
  - apply nodup_app.
    + apply cwr2_nodup, non_rel_nodup.
    + apply FinFun.Injective_map_NoDup; [intros u v E; inversion E; reflexivity|apply NoDup_filter; exact Hnd].
    + intros [a b] H1 H2. apply in_cwr2_fwd in H1. destruct H1 as [H1 _]. apply in_non_rel in H1.
      apply in_map_iff in H2. destruct H2 as [c [E H2]]. inversion E; subst. apply in_rel in H2.
      destruct H1, H2. congruence.
  - intros a b. rewrite !in_app_iff, !in_map_iff. intros [H1|[c [E1 H1]]] [H2|[d [E2 H2]]].
    + eapply cwr2_orient; [apply non_rel_nodup|eassumption|eassumption].
    + inversion E2; subst. apply in_cwr2_fwd in H1. destruct H1 as [_ H1]. apply in_non_rel in H1.
      apply in_rel in H2. destruct H1, H2. congruence.
    + inversion E1; subst. apply in_cwr2_fwd in H2. destruct H2 as [_ H2]. apply in_non_rel in H2.
      apply in_rel in H1. destruct H1, H2. congruence.
    + inversion E1; inversion E2; subst. congruence.
Qed.

Lemma diagonal_nodup base cols label : NoDup cols -> NoDup (diagonal base cols label).
Proof.
  intros H. unfold diagonal. apply FinFun.Injective_map_NoDup; [intros u v E; inversion E; reflexivity|].
  apply NoDup_filter. exact H.
Qed.

Lemma once_with_diagonal base cols label : NoDup cols -> once base -> once (base ++ diagonal base cols label).
Proof.
  intros Hnd [H1 H2]. split.
  - apply nodup_app; [exact H1|apply diagonal_nodup; exact Hnd|].
    intros [a b] Hb Hd. apply in_diagonal in Hd. destruct Hd as [<- [_ [_ Hn]]]. contradiction.
  - intros a b. rewrite !in_app_iff. intros [Ha|Ha] [Hb|Hb].
    + apply H2; assumption.
    + apply in_diagonal in Hb. destruct Hb as [E _]. congruence.
    + apply in_diagonal in Ha. tauto.
    + apply in_diagonal in Ha. tauto.
Qed.

(* every mode: the candidate list is duplicate-free and holds one orientation of each pair *)
Theorem cands_once cols h tro label : NoDup cols -> once (candidates cols h tro label).
Proof.
  intros Hnd. unfold candidates.
  assert (Hb : once (if is_3mr h then cwr2 (non_rel_columns cols) ++ map (fun c => (c, label)) (rel_columns cols)
                     else if is_tonly tro then filter (has_label label) (cwr2 cols) else cwr2 cols)).
  { destruct (is_3mr h); [apply once_3mr_base; exact Hnd|].
    destruct (is_tonly tro); [apply once_filter|]; apply once_cwr2; exact Hnd. }
  destruct (is_tonly tro); [exact Hb|]. apply once_with_diagonal; assumption.
Qed.

Lemma ucount_cons p q l : ucount p (q :: l) = (if upair_eqb p q then 1 else 0) + ucount p l.
Proof. unfold ucount. cbn [filter]. destruct (upair_eqb p q); reflexivity. Qed.

Lemma ucount_app p l1 l2 : ucount p (l1 ++ l2) = ucount p l1 + ucount p l2.
Proof. unfold ucount. rewrite filter_app, app_length. reflexivity. Qed.

Lemma ucount_zero p l : ~ uin p l -> ucount p l = 0.
Proof.
  intros H. induction l as [|q l IH]; [reflexivity|]. rewrite ucount_cons.
  destruct (upair_eqb p q) eqn:E.
  - exfalso. apply H. apply upair_eqb_iff in E. destruct E as [->| ->]; [left; now left|right].
    destruct q; now left.
  - rewrite IH; [reflexivity|]. intros [U|U]; apply H; [left|right]; now right.
Qed.

Lemma ucount_pos p l : 0 < ucount p l -> uin p l.
Proof.
  intros H. apply umemb_uin. destruct (umemb p l) eqn:E; [reflexivity|]. exfalso.
  rewrite ucount_zero in H; [lia|]. intros U. apply umemb_uin in U. congruence.
Qed.

Lemma ucount_le_1 p l : NoDup l -> (forall a b, In (a, b) l -> In (b, a) l -> a = b) -> ucount p l <= 1.
Proof.
  induction 1 as [|q l Hn Hnd IH]; intros Ho; [cbn; lia|]. rewrite ucount_cons.
  assert (IH' : ucount p l <= 1) by (apply IH; intros a b H1 H2; apply Ho; now right).
  destruct (upair_eqb p q) eqn:E; [|lia]. rewrite ucount_zero; [lia|].
  apply upair_eqb_iff in E. intros [U|U].
  - destruct E as [-> | ->]; [contradiction|]. destruct q as [a b]. unfold swapp in U. cbn [fst snd] in U.
    assert (a = b) by (apply Ho; [now left|now right]). subst. contradiction.
  - destruct E as [-> | ->].
    + destruct q as [a b]. unfold swapp in U. cbn [fst snd] in U.
      assert (a = b) by (apply Ho; [now left|now right]). subst. contradiction.
    + destruct q as [a b]. unfold swapp in U. cbn [fst snd] in U. contradiction.
Qed.

(* ---------- the cap ---------- *)
Definition inj_on (enc : pair -> key) (U : list pair) : Prop :=
  forall p q, In p U -> In q U -> enc p = enc q -> p = q.

Definition pcount (p : pair) (l : list pair) : nat := length (filter (pair_eqb p) l).

(* what "reduced only by the cap" means for one batch: a sub-multiset of the candidates of the slice's length *)
Definition selected_ok (cands : list pair) (cap' : Z) (sel : list pair) : Prop :=
  length sel = slice_len (length cands) cap' /\ exists rest, Permutation (sel ++ rest) cands.

Lemma pcount_cons p q l : pcount p (q :: l) = (if pair_eqb p q then 1 else 0) + pcount p l.
Proof. unfold pcount. cbn [filter]. destruct (pair_eqb p q); reflexivity. Qed.

Lemma pcount_app p l1 l2 : pcount p (l1 ++ l2) = pcount p l1 + pcount p l2.
Proof. unfold pcount. rewrite filter_app, app_length. reflexivity. Qed.

Lemma pcount_pos_in p l : 0 < pcount p l -> In p l.
Proof.
  induction l as [|q l IH]; [cbn; lia|]. rewrite pcount_cons. destruct (pair_eqb p q) eqn:E.
  - intros _. left. apply pair_eqb_eq in E. congruence.
  - intros H. right. apply IH. lia.
Qed.

Lemma pcount_notin p l : ~ In p l -> pcount p l = 0.
Proof. intros H. destruct (pcount p l) eqn:E; [reflexivity|]. exfalso. apply H, pcount_pos_in. lia. Qed.

Lemma cocc_map_enc enc U l p : inj_on enc U -> incl l U -> In p U ->
  count_occ Nat.eq_dec (map enc l) (enc p) = pcount p l.
Proof.
  intros Hi Hl Hp. induction l as [|q l IH]; [reflexivity|]. cbn [map]. rewrite pcount_cons.
  assert (Hq : In q U) by (apply Hl; now left).
  assert (IH' : count_occ Nat.eq_dec (map enc l) (enc p) = pcount p l) by (apply IH; intros x Hx; apply Hl; now right).
  cbn [count_occ]. destruct (Nat.eq_dec (enc q) (enc p)) as [e|ne].
  - apply Hi in e; [|exact Hq|exact Hp]. subst q. rewrite pair_eqb_refl, IH'. reflexivity.
  - destruct (pair_eqb p q) eqn:E; [apply pair_eqb_eq in E; subst; contradiction|]. rewrite IH'. reflexivity.
Qed.

Lemma submultiset_perm l1 : forall l2, (forall p, pcount p l1 <= pcount p l2) -> exists rest, Permutation (l1 ++ rest) l2.
Proof.
  induction l1 as [|a l1 IH]; intros l2 H; [exists l2; reflexivity|].
  assert (Ha : In a l2).
  { apply pcount_pos_in. specialize (H a). rewrite pcount_cons, pair_eqb_refl in H. lia. }
  apply in_split in Ha. destruct Ha as [u [v ->]].
  destruct (IH (u ++ v)) as [rest HP].
  { intros p. specialize (H p). rewrite pcount_cons, pcount_app, pcount_cons in H. rewrite pcount_app. lia. }
  exists rest. cbn [app]. rewrite <- Permutation_middle. constructor. exact HP.
Qed.

Theorem selected_from_sampler (enc : pair -> key) st cands cap' sel st' :
  inj_on enc (cands ++ sel) ->
  valid_step st (map enc cands) cap' (map enc sel) st' ->
  incl sel cands /\ selected_ok cands cap' sel.
Proof.
  intros Hi V.
  assert (Hc : forall p, pcount p sel <= pcount p cands).
  { intros p. destruct (pcount p sel) eqn:E; [lia|]. rewrite <- E.
    assert (Hp : In p sel) by (apply pcount_pos_in; lia).
    pose proof (vs_sub _ _ _ _ _ V (enc p)) as Hs.
    rewrite (cocc_map_enc enc (cands ++ sel) sel p Hi), (cocc_map_enc enc (cands ++ sel) cands p Hi) in Hs;
      try (intros x Hx; apply in_or_app; tauto); try (apply in_or_app; tauto). exact Hs. }
  split.
  - intros p Hp. apply pcount_pos_in. specialize (Hc p).
    assert (0 < pcount p sel); [|lia].
    apply in_split in Hp. destruct Hp as [u [v ->]]. rewrite pcount_app, pcount_cons, pair_eqb_refl. lia.
  - split.
    + pose proof (vs_len _ _ _ _ _ V) as Hl. rewrite !map_length in Hl. exact Hl.
    + apply submultiset_perm. exact Hc.
Qed.

Lemma selected_ok_nonneg cands cap' sel : (0 <= cap')%Z -> selected_ok cands cap' sel ->
  length sel = Nat.min (length cands) (Z.to_nat cap').
Proof. intros H [Hl _]. rewrite Hl. unfold slice_len. destruct (Z.ltb_spec cap' 0); [lia|reflexivity]. Qed.

Lemma selected_ok_perm cands cap' sel ev : Permutation ev sel -> selected_ok cands cap' sel -> selected_ok cands cap' ev.
Proof.
  intros HP [Hl [rest HR]]. split; [rewrite (Permutation_length HP); exact Hl|].
  exists rest. rewrite HP. exact HR.
Qed.

Lemma selected_ok_incl cands cap' sel : selected_ok cands cap' sel -> incl sel cands.
Proof. intros [_ [rest HR]] p Hp. eapply Permutation_in; [exact HR|]. apply in_or_app. now left. Qed.

(* the transcription of the sampler on the candidate list *)
Lemma nth_pidx cands p : In p cands -> nth (pidx cands p) cands nopair = p.
Proof.
  induction cands as [|q t IH]; [intros []|]. intros H. cbn [pidx]. destruct (pair_eqb p q) eqn:E.
  - apply pair_eqb_eq in E. subst. reflexivity.
  - cbn [nth]. apply IH. destruct H as [->|H]; [rewrite pair_eqb_refl in E; discriminate|exact H].
Qed.

Lemma pidx_inj cands p q : In p cands -> In q cands -> pidx cands p = pidx cands q -> p = q.
Proof. intros Hp Hq E. rewrite <- (nth_pidx cands p Hp), <- (nth_pidx cands q Hq), E. reflexivity. Qed.

Lemma select_fst_incl s cands cap' : incl (fst (select s cands cap')) cands.
Proof.
  unfold select. cbn [fst]. intros p Hp. apply in_map_iff in Hp. destruct Hp as [i [<- Hi]].
  pose proof (step_valid s (map (pidx cands) cands) cap') as V. apply vs_incl in V. apply V in Hi.
  apply in_map_iff in Hi. destruct Hi as [q [<- Hq]]. rewrite nth_pidx; assumption.
Qed.

Theorem select_valid s cands cap' :
  valid_step (get s) (map (pidx cands) cands) cap'
             (map (pidx cands) (fst (select s cands cap'))) (get (snd (select s cands cap'))).
Proof.
  pose proof (step_valid s (map (pidx cands) cands) cap') as V.
  unfold select. cbn [fst snd]. rewrite map_map.
  rewrite (map_ext_in _ (fun i => i)); [rewrite map_id; exact V|].
  intros i Hi. apply vs_incl in V. apply V in Hi. apply in_map_iff in Hi. destruct Hi as [q [<- Hq]].
  rewrite nth_pidx; [reflexivity|exact Hq].
Qed.

Theorem select_ok s cands cap' : selected_ok cands cap' (fst (select s cands cap')).
Proof.
  apply (selected_from_sampler (pidx cands) (get s) cands cap' _ (get (snd (select s cands cap')))).
  - intros p q Hp Hq. apply pidx_inj.
    + apply in_app_or in Hp. destruct Hp as [Hp|Hp]; [exact Hp|apply (select_fst_incl s cands cap'); exact Hp].
    + apply in_app_or in Hq. destruct Hq as [Hq|Hq]; [exact Hq|apply (select_fst_incl s cands cap'); exact Hq].
  - apply select_valid.
Qed.

(* ---------- rows ---------- *)
Lemma swap3_invol r : swap3 (swap3 r) = r.
Proof. destruct r as [[a b] s]. reflexivity. Qed.

Lemma row_eqb_eq r r' : row_eqb r r' = true <-> r = r'.
Proof.
  destruct r as [p s], r' as [p' s']. unfold row_eqb, rp. cbn [fst snd].
  rewrite andb_true_iff, pair_eqb_eq, N.eqb_eq. split; [intros [-> ->]; reflexivity|intros E; inversion E; auto].
Qed.

Lemma row_eqb_swap r t : row_eqb r (swap3 t) = row_eqb (swap3 r) t.
Proof.
  apply eq_true_iff_eq. rewrite !row_eqb_eq. split; intros H.
  - rewrite H. apply swap3_invol.
  - rewrite <- H. symmetry. apply swap3_invol.
Qed.

Lemma rcount_cons r x l : rcount r (x :: l) = (if row_eqb r x then 1 else 0) + rcount r l.
Proof. unfold rcount. cbn [filter]. destruct (row_eqb r x); reflexivity. Qed.

Lemma rcount_pos_in r l : 0 < rcount r l <-> In r l.
Proof.
  induction l as [|x l IH]; [cbn; split; [lia|tauto]|]. rewrite rcount_cons. cbn [In].
  destruct (row_eqb r x) eqn:E.
  - apply row_eqb_eq in E. subst. split; [now left|lia].
  - rewrite <- IH. split; [intros H; right; lia|]. intros [->|H]; [|lia].
    rewrite (proj2 (row_eqb_eq r r) eq_refl) in E. discriminate.
Qed.

Lemma in_mirror r T : In r (mirror T) <-> In r T \/ In (swap3 r) T.
Proof.
  unfold mirror. rewrite in_flat_map. split.
  - intros [t [Ht [<-|[<-|[]]]]]; [right; rewrite swap3_invol; exact Ht|left; exact Ht].
  - intros [H|H]; [exists r; split; [exact H|right; now left]|].
    exists (swap3 r). split; [exact H|left; apply swap3_invol].
Qed.

Lemma mirror_cons t T : mirror (t :: T) = swap3 t :: t :: mirror T.
Proof. reflexivity. Qed.

Lemma length_mirror T : length (mirror T) = 2 * length T.
Proof. induction T as [|t T IH]; [reflexivity|]. rewrite mirror_cons. cbn [length]. lia. Qed.

Lemma rcount_mirror r T : rcount r (mirror T) = rcount r T + rcount (swap3 r) T.
Proof.
  induction T as [|t T IH]; [reflexivity|]. rewrite mirror_cons, !rcount_cons, IH, row_eqb_swap. lia.
Qed.

Lemma rcount_mirror_sym r T : rcount r (mirror T) = rcount (swap3 r) (mirror T).
Proof. rewrite !rcount_mirror, swap3_invol. lia. Qed.

Lemma even_double n : Nat.even (n + n) = true.
Proof. replace (n + n) with (2 * n) by lia. apply Nat.even_spec. exists n. reflexivity. Qed.

Lemma rcount_mirror_self r T : fst (rp r) = snd (rp r) -> Nat.even (rcount r (mirror T)) = true.
Proof.
  intros H. rewrite rcount_mirror. replace (swap3 r) with r; [apply even_double|].
  destruct r as [[a b] s]. unfold rp in H. cbn [fst snd] in H. subst. reflexivity.
Qed.

Lemma upair_eqb_swapp p q : upair_eqb p (swapp q) = upair_eqb p q.
Proof.
  apply eq_true_iff_eq. rewrite !upair_eqb_iff. destruct p as [a b], q as [c d]. unfold swapp. cbn [fst snd]. tauto.
Qed.

Lemma ucount_mirror p T : ucount p (map rp (mirror T)) = 2 * ucount p (map rp T).
Proof.
  induction T as [|t T IH]; [reflexivity|]. rewrite mirror_cons. cbn [map]. rewrite !ucount_cons, IH.
  replace (rp (swap3 t)) with (swapp (rp t)) by (destruct t as [[a b] s]; reflexivity).
  rewrite upair_eqb_swapp. lia.
Qed.

Lemma rp_triplets ev : forall scores, length scores = length ev -> map rp (triplets ev scores) = ev.
Proof.
  unfold triplets. induction ev as [|[a b] ev IH]; intros [|s scores] H; try discriminate; [reflexivity|].
  cbn [combine map]. unfold rp at 1. cbn [fst snd]. f_equal. apply IH. cbn [length] in H. lia.
Qed.

Lemma rp_constant ev : map rp (constant_rows ev) = ev.
Proof.
  unfold constant_rows. rewrite map_map. rewrite (map_ext _ (fun p => p)); [apply map_id|].
  intros [a b]. reflexivity.
Qed.

Lemma ucount_perm p l l' : Permutation l l' -> ucount p l = ucount p l'.
Proof.
  induction 1 as [|x l l' _ IH|x y l|l l' l'' _ IH1 _ IH2]; [reflexivity| | |congruence].
  - rewrite !ucount_cons, IH. reflexivity.
  - rewrite !ucount_cons. lia.
Qed.

Lemma ucount_selected p cands cap' ev : selected_ok cands cap' ev -> ucount p ev <= ucount p cands.
Proof. intros [_ [rest HR]]. rewrite <- (ucount_perm p _ _ HR), ucount_app. lia. Qed.

(* the clauses one batch's rows must satisfy, relative to the candidate list and the effective cap *)
Record rows_spec (cols : list str) (h : str) (cands : list pair) (cap' : Z) (rows : list row) : Prop := {
  rs_closed : forall r, In r rows -> In (fst (rp r)) cols /\ In (snd (rp r)) cols;
  rs_const : is_const h = true ->
    length rows = slice_len (length cands) cap'
    /\ (forall r, In r rows -> snd r = 0%N)
    /\ (forall p, ucount p (map rp rows) <= ucount p cands);
  rs_mirror : is_const h = false ->
    length rows = 2 * slice_len (length cands) cap'
    /\ (forall r, rcount r rows = rcount (swap3 r) rows)
    /\ (forall r, fst (rp r) = snd (rp r) -> Nat.even (rcount r rows) = true)
    /\ (forall p, ucount p (map rp rows) <= 2 * ucount p cands)
}.

(* one call of mixed_rank_graph: some sub-multiset of the candidates of the slice's length, in some order
   (random.shuffle), scored by some answers, assembled by the mirror loop / the Constant shortcut *)
Definition valid_batch (cols : list str) (h tro label : str) (cap : Z) (rows : list row) : Prop :=
  exists ev scores, selected_ok (candidates cols h tro label) (eff_cap h cap) ev
                    /\ length scores = length ev /\ rows = build_rows h ev scores.

Lemma in_rp_of_row r rows : In r rows -> In (rp r) (map rp rows).
Proof. apply in_map. Qed.

Lemma closed_of_pairs cols (cands rps : list pair) :
  (forall a b, In (a, b) cands -> In a cols /\ In b cols) -> incl rps cands ->
  forall p, In p rps -> In (fst p) cols /\ In (snd p) cols.
Proof. intros Hc Hi [a b] Hp. apply Hc, Hi, Hp. Qed.

Theorem build_rows_spec cols h cands cap' ev scores :
  (forall a b, In (a, b) cands -> In a cols /\ In b cols) ->
  selected_ok cands cap' ev -> length scores = length ev ->
  rows_spec cols h cands cap' (build_rows h ev scores).
Proof.
  intros Hc Hs Hl. pose proof (selected_ok_incl _ _ _ Hs) as Hincl. unfold build_rows. constructor.
  - intros r Hr. destruct (is_const h).
    + apply (closed_of_pairs cols cands ev Hc Hincl). rewrite <- (rp_constant ev). apply in_map. exact Hr.
    + apply in_mirror in Hr. destruct Hr as [Hr|Hr].
      * apply (closed_of_pairs cols cands ev Hc Hincl). rewrite <- (rp_triplets ev scores Hl). apply in_map. exact Hr.
      * assert (H : In (rp (swap3 r)) ev) by (rewrite <- (rp_triplets ev scores Hl); apply in_map; exact Hr).
        apply (closed_of_pairs cols cands ev Hc Hincl) in H. destruct r as [[a b] s]. unfold rp, swap3 in *. cbn [fst snd] in *. tauto.
  - intros Hk. rewrite Hk. split; [|split].
    + unfold constant_rows. rewrite map_length. apply Hs.
    + intros r Hr. unfold constant_rows in Hr. apply in_map_iff in Hr. destruct Hr as [p [<- _]]. reflexivity.
    + intros p. rewrite rp_constant. eapply ucount_selected. exact Hs.
  - intros Hk. rewrite Hk. split; [|split; [|split]].
    + rewrite length_mirror. unfold triplets. rewrite map_length, combine_length, Hl, Nat.min_id. destruct Hs as [-> _]. reflexivity.
    + intros r. apply rcount_mirror_sym.
    + intros r. apply rcount_mirror_self.
    + intros p. rewrite ucount_mirror, (rp_triplets ev scores Hl). pose proof (ucount_selected p _ _ _ Hs). lia.
Qed.

Theorem batch_rows_spec cols h tro label cap rows : In label cols ->
  valid_batch cols h tro label cap rows ->
  rows_spec cols h (candidates cols h tro label) (eff_cap h cap) rows.
Proof.
  intros Hl [ev [scores [Hs [Hlen ->]]]]. apply build_rows_spec; [apply cands_closed; exact Hl|exact Hs|exact Hlen].
Qed.

(* consequences in the words of the property *)
Lemma rows_spec_requested cols h cands cap' rows : rows_spec cols h cands cap' rows ->
  forall r, In r rows -> uin (rp r) cands.
Proof.
  intros S r Hr. apply ucount_pos.
  assert (0 < ucount (rp r) (map rp rows)).
  { apply in_map with (f := rp) in Hr. apply in_split in Hr. destruct Hr as [u [v ->]].
    rewrite ucount_app, ucount_cons. replace (upair_eqb (rp r) (rp r)) with true; [lia|].
    symmetry. apply upair_eqb_iff. now left. }
  destruct (is_const h) eqn:Hk.
  - destruct (rs_const _ _ _ _ _ S Hk) as [_ [_ Hu]]. specialize (Hu (rp r)). lia.
  - destruct (rs_mirror _ _ _ _ _ S Hk) as [_ [_ [_ Hu]]]. specialize (Hu (rp r)). lia.
Qed.

Lemma rows_spec_mirrored cols h cands cap' rows : rows_spec cols h cands cap' rows -> is_const h = false ->
  forall a b s, In (a, b, s) rows -> In (b, a, s) rows.
Proof.
  intros S Hk a b s Hr. destruct (rs_mirror _ _ _ _ _ S Hk) as [_ [Hm _]].
  apply rcount_pos_in. apply rcount_pos_in in Hr. specialize (Hm (a, b, s)). unfold swap3 in Hm. cbn [fst snd] in Hm. lia.
Qed.

(* ---------- the checker decides exactly these clauses ---------- *)
Lemma rcount_zero r rows : ~ In r rows -> rcount r rows = 0.
Proof. intros H. destruct (rcount r rows) eqn:E; [reflexivity|]. exfalso. apply H, rcount_pos_in. lia. Qed.

Lemma upair_eqb_congr p q x : upair_eqb p q = true -> upair_eqb p x = upair_eqb q x.
Proof.
  intros E. apply upair_eqb_iff in E. apply eq_true_iff_eq. rewrite !upair_eqb_iff.
  destruct p as [a b], q as [c d], x as [e f]. unfold swapp in *. cbn [fst snd] in *.
  destruct E as [E|E]; inversion E; subst; split; (intros [H|H]; inversion H; subst; tauto).
Qed.

Lemma ucount_congr p q l : upair_eqb p q = true -> ucount p l = ucount q l.
Proof.
  intros E. induction l as [|x l IH]; [reflexivity|]. rewrite !ucount_cons, IH, (upair_eqb_congr p q x E). reflexivity.
Qed.

Lemma ucount_all (rps cands : list pair) k :
  (forall p, In p rps -> ucount p rps <= k * ucount p cands) -> forall p, ucount p rps <= k * ucount p cands.
Proof.
  intros H p. destruct (umemb p rps) eqn:E.
  - unfold umemb in E. apply existsb_exists in E. destruct E as [q [Hq E]].
    rewrite (ucount_congr p q rps E), (ucount_congr p q cands E). apply H. exact Hq.
  - rewrite ucount_zero; [lia|]. intros U. apply umemb_uin in U. congruence.
Qed.

Theorem rows_okb_iff cols h cands cap' rows :
  rows_okb cols h cands cap' rows = true <-> rows_spec cols h cands cap' rows.
Proof.
  unfold rows_okb, closedb. split.
  - intros H. apply andb_true_iff in H. destruct H as [Hc H]. rewrite forallb_forall in Hc. constructor.
    + intros r Hr. specialize (Hc r Hr). apply andb_true_iff in Hc. rewrite !memb_In in Hc. exact Hc.
    + intros Hk. rewrite Hk in H. rewrite !andb_true_iff in H. destruct H as [[H1 H2] H3].
      rewrite forallb_forall in H2, H3. split; [apply Nat.eqb_eq; exact H1|]. split.
      * intros r Hr. apply N.eqb_eq. apply H2. exact Hr.
      * intros p. rewrite <- (Nat.mul_1_l (ucount p cands)). apply ucount_all. intros q Hq.
        apply in_map_iff in Hq. destruct Hq as [r [<- Hr]]. specialize (H3 r Hr). apply Nat.leb_le in H3. lia.
    + intros Hk. rewrite Hk in H. rewrite !andb_true_iff in H. destruct H as [[[H1 H2] H3] H4].
      rewrite forallb_forall in H2, H3, H4. split; [apply Nat.eqb_eq; exact H1|].
      assert (Hsym : forall r, In r rows -> rcount r rows = rcount (swap3 r) rows)
        by (intros r Hr; apply Nat.eqb_eq, H2, Hr).
      split; [|split].
      * intros r. destruct (rcount r rows) eqn:E1.
        -- destruct (rcount (swap3 r) rows) eqn:E2; [reflexivity|].
           assert (Hin : In (swap3 r) rows) by (apply rcount_pos_in; lia).
           specialize (Hsym _ Hin). rewrite swap3_invol in Hsym. lia.
        -- rewrite <- E1. apply Hsym. apply rcount_pos_in. lia.
      * intros r Hr. destruct (rcount r rows) eqn:E; [reflexivity|]. rewrite <- E.
        assert (Hin : In r rows) by (apply rcount_pos_in; lia). specialize (H3 r Hin).
        apply orb_true_iff in H3. destruct H3 as [H3|H3]; [|exact H3].
        apply negb_true_iff, str_eqb_neq in H3. contradiction.
      * intros p. apply ucount_all. intros q Hq.
        apply in_map_iff in Hq. destruct Hq as [r [<- Hr]]. specialize (H4 r Hr). apply Nat.leb_le in H4. exact H4.
  - intros [Hc Hk Hm]. apply andb_true_iff. split.
    + apply forallb_forall. intros r Hr. apply andb_true_iff. rewrite !memb_In. apply Hc. exact Hr.
    + destruct (is_const h).
      * destruct (Hk eq_refl) as [H1 [H2 H3]]. rewrite !andb_true_iff. split; [split|].
        -- apply Nat.eqb_eq. exact H1.
        -- apply forallb_forall. intros r Hr. apply N.eqb_eq. apply H2. exact Hr.
        -- apply forallb_forall. intros r _. apply Nat.leb_le. apply H3.
      * destruct (Hm eq_refl) as [H1 [H2 [H3 H4]]]. rewrite !andb_true_iff. split; [split; [split|]|].
        -- apply Nat.eqb_eq. exact H1.
        -- apply forallb_forall. intros r _. apply Nat.eqb_eq. apply H2.
        -- apply forallb_forall. intros r _. destruct (str_eqb (fst (rp r)) (snd (rp r))) eqn:E; [|reflexivity].
           cbn [negb orb]. apply H3. apply str_eqb_eq. exact E.
        -- apply forallb_forall. intros r _. apply Nat.leb_le. apply H4.
Qed.

Lemma in_all_pairs cols a b : In (a, b) (all_pairs cols) <-> In a cols /\ In b cols.
Proof.
  unfold all_pairs. rewrite in_flat_map. split.
  - intros [x [Hx H]]. apply in_map_iff in H. destruct H as [y [E Hy]]. inversion E; subst. tauto.
  - intros [Ha Hb]. exists a. split; [exact Ha|]. apply in_map_iff. exists b. tauto.
Qed.

Lemma uin_swapp p l : uin (swapp p) l <-> uin p l.
Proof. unfold uin. destruct p as [a b]. unfold swapp. cbn [fst snd]. tauto. Qed.

Theorem cands_okb_iff cols h tro label cands : In label cols ->
  (cands_okb cols h tro label cands = true <-> forall p, uin p cands <-> uin p (candidates cols h tro label)).
Proof.
  intros Hl. unfold cands_okb. rewrite andb_true_iff, !forallb_forall. split.
  - intros [H1 H2] p. split.
    + intros [U|U]; apply H1, spec_pairb_iff in U; [exact U|apply uin_swapp; exact U].
    + intros U. apply umemb_uin.
      assert (Hin : In p (all_pairs cols)).
      { destruct p as [a b]. apply in_all_pairs. destruct U as [U|U]; apply (cands_closed cols h tro label Hl) in U;
          unfold swapp in U; cbn [fst snd] in U; tauto. }
      specialize (H2 p Hin). apply spec_pairb_iff in U. rewrite U in H2. exact H2.
  - intros H. split.
    + intros p Hp. apply spec_pairb_iff, H. left. exact Hp.
    + intros p _. destruct (spec_pairb cols h tro label p) eqn:E; [|reflexivity]. cbn [negb orb].
      apply umemb_uin, H, spec_pairb_iff, E.
Qed.

(* ---------- the position-level checks equal the name-level ones ---------- *)
Lemma sidx_eqb cols a b : In a cols -> In b cols -> N.eqb (sidx cols a) (sidx cols b) = str_eqb a b.
Proof.
  induction cols as [|c t IH]; [intros []|]. intros Ha Hb. cbn [sidx].
  destruct (str_eqb a c) eqn:Ea; destruct (str_eqb b c) eqn:Eb.
  - apply str_eqb_eq in Ea, Eb. subst. rewrite str_eqb_refl. reflexivity.
  - apply str_eqb_eq in Ea. subst. rewrite (str_eqb_sym c b), Eb. destruct (sidx t b); reflexivity.
  - apply str_eqb_eq in Eb. subst. rewrite Ea. destruct (sidx t a); reflexivity.
  - rewrite <- IH.
    + apply eq_true_iff_eq. rewrite !N.eqb_eq. lia.
    + destruct Ha as [->|Ha]; [rewrite str_eqb_refl in Ea; discriminate|exact Ha].
    + destruct Hb as [->|Hb]; [rewrite str_eqb_refl in Eb; discriminate|exact Hb].
Qed.

Definition closedp (cols : list str) (p : pair) : Prop := In (fst p) cols /\ In (snd p) cols.

Lemma closed_pairsb_Forall cols l : closed_pairsb cols l = true <-> Forall (closedp cols) l.
Proof.
  unfold closed_pairsb. rewrite forallb_forall, Forall_forall. unfold closedp.
  split; intros H p Hp; specialize (H p Hp); [apply andb_true_iff in H|apply andb_true_iff]; rewrite !memb_In in *; exact H.
Qed.

Lemma ixp_pair_eqb cols p q : closedp cols p -> closedp cols q -> ipair_eqb (ixp cols p) (ixp cols q) = pair_eqb p q.
Proof. intros [H1 H2] [H3 H4]. unfold ipair_eqb, pair_eqb, ixp. cbn [fst snd]. rewrite !sidx_eqb by assumption. reflexivity. Qed.

Lemma ixp_upair_eqb cols p q : closedp cols p -> closedp cols q -> iupair_eqb (ixp cols p) (ixp cols q) = upair_eqb p q.
Proof.
  intros Hp Hq. unfold iupair_eqb, upair_eqb. rewrite (ixp_pair_eqb cols p q Hp Hq).
  destruct Hp as [H1 H2], Hq as [H3 H4]. unfold ixp. cbn [fst snd]. rewrite !sidx_eqb by assumption. reflexivity.
Qed.

Lemma iucount_map cols p l : closedp cols p -> Forall (closedp cols) l ->
  iucount (ixp cols p) (map (ixp cols) l) = ucount p l.
Proof.
  intros Hp Hl. induction Hl as [|q l Hq _ IH]; [reflexivity|]. cbn [map]. rewrite ucount_cons, <- IH.
  unfold iucount. cbn [filter]. rewrite (ixp_upair_eqb cols p q Hp Hq). destruct (upair_eqb p q); reflexivity.
Qed.

Lemma iumemb_map cols p l : closedp cols p -> Forall (closedp cols) l ->
  iumemb (ixp cols p) (map (ixp cols) l) = umemb p l.
Proof.
  intros Hp Hl. induction Hl as [|q l Hq _ IH]; [reflexivity|]. unfold iumemb, umemb in *. cbn [map existsb].
  rewrite IH, (ixp_upair_eqb cols p q Hp Hq). reflexivity.
Qed.

Definition closedr (cols : list str) (r : row) : Prop := closedp cols (rp r).

Lemma ixr_row_eqb cols r r' : closedr cols r -> closedr cols r' -> irow_eqb (ixr cols r) (ixr cols r') = row_eqb r r'.
Proof. intros H H'. unfold irow_eqb, row_eqb, ixr. cbn [fst snd]. rewrite (ixp_pair_eqb cols _ _ H H'). reflexivity. Qed.

Lemma ircount_map cols r rows : closedr cols r -> Forall (closedr cols) rows ->
  ircount (ixr cols r) (map (ixr cols) rows) = rcount r rows.
Proof.
  intros Hr Hl. induction Hl as [|q l Hq _ IH]; [reflexivity|]. cbn [map]. rewrite rcount_cons, <- IH.
  unfold ircount. cbn [filter]. rewrite (ixr_row_eqb cols r q Hr Hq). destruct (row_eqb r q); reflexivity.
Qed.

Lemma ixr_swap3 cols r : iswap3 (ixr cols r) = ixr cols (swap3 r).
Proof. destruct r as [[a b] s]. reflexivity. Qed.

Lemma closedr_swap3 cols r : closedr cols r -> closedr cols (swap3 r).
Proof. destruct r as [[a b] s]. unfold closedr, closedp, rp, swap3. cbn [fst snd]. tauto. Qed.

Lemma forallb_map_comp {A B} (f : B -> bool) (g : A -> B) l : forallb f (map g l) = forallb (fun x => f (g x)) l.
Proof. induction l as [|x l IH]; [reflexivity|]. cbn [map forallb]. rewrite IH. reflexivity. Qed.

Lemma forallb_ext_in' {A} (f g : A -> bool) l : (forall x, In x l -> f x = g x) -> forallb f l = forallb g l.
Proof.
  induction l as [|x l IH]; intros H; [reflexivity|]. cbn [forallb]. rewrite (H x (or_introl eq_refl)), IH; [reflexivity|].
  intros y Hy. apply H. now right.
Qed.

Lemma closedb_Forall cols rows : closedb cols rows = true <-> Forall (closedr cols) rows.
Proof.
  unfold closedb. rewrite forallb_forall, Forall_forall. unfold closedr, closedp.
  split; intros H r Hr; specialize (H r Hr); [apply andb_true_iff in H|apply andb_true_iff]; rewrite !memb_In in *; exact H.
Qed.

Theorem rows_okb_fast_eq cols h cands cap' rows : closed_pairsb cols cands = true ->
  rows_okb_fast cols h cands cap' rows = rows_okb cols h cands cap' rows.
Proof.
  intros Hc. unfold rows_okb_fast, rows_okb. rewrite Hc, andb_true_r.
  destruct (closedb cols rows) eqn:Hr; [|reflexivity]. cbn [andb].
  apply closed_pairsb_Forall in Hc. apply closedb_Forall in Hr.
  assert (Hrp : Forall (closedp cols) (map rp rows)).
  { rewrite Forall_forall in *. intros p Hp. apply in_map_iff in Hp. destruct Hp as [r [<- H]]. apply Hr. exact H. }
  assert (Eirps : map fst (map (ixr cols) rows) = map (ixp cols) (map rp rows)).
  { rewrite !map_map. apply map_ext. intros r. reflexivity. }
  assert (Hin : forall r, In r rows -> closedr cols r) by (apply Forall_forall; exact Hr).
  destruct (is_const h).
  - f_equal. rewrite forallb_map_comp. apply forallb_ext_in'. intros r Hr'. rewrite Eirps.
    change (fst (ixr cols r)) with (ixp cols (rp r)).
    rewrite !iucount_map; try assumption; try reflexivity; apply Hin; exact Hr'.
  - f_equal; [f_equal; [f_equal|]|]; rewrite forallb_map_comp; apply forallb_ext_in'; intros r Hr'.
    + rewrite ixr_swap3, !ircount_map; try assumption; try reflexivity; [apply closedr_swap3|]; apply Hin; exact Hr'.
    + rewrite ircount_map; [|apply Hin; exact Hr'|exact Hr]. f_equal. f_equal.
      destruct (Hin r Hr') as [H1 H2]. unfold ixr, ixp. cbn [fst snd]. apply sidx_eqb; assumption.
    + rewrite Eirps. change (fst (ixr cols r)) with (ixp cols (rp r)).
      rewrite !iucount_map; try assumption; try reflexivity; apply Hin; exact Hr'.
Qed.

Theorem cands_okb_fast_eq cols h tro label cands : closed_pairsb cols cands = true ->
  cands_okb_fast cols h tro label cands = cands_okb cols h tro label cands.
Proof.
  intros Hc. unfold cands_okb_fast, cands_okb. rewrite Hc. cbn [andb]. f_equal.
  apply closed_pairsb_Forall in Hc. apply forallb_ext_in'. intros [a b] Hp. apply in_all_pairs in Hp.
  rewrite iumemb_map; [reflexivity| |exact Hc]. exact Hp.
Qed.

Lemma cands_okb_fast_closed cols h tro label cands :
  cands_okb_fast cols h tro label cands = true -> closed_pairsb cols cands = true.
Proof. unfold cands_okb_fast. rewrite !andb_true_iff. tauto. Qed.

Lemma candidates_closedb cols h tro label : In label cols -> closed_pairsb cols (candidates cols h tro label) = true.
Proof.
  intros Hl. apply closed_pairsb_Forall, Forall_forall. intros [a b] Hp. apply (cands_closed cols h tro label Hl a b Hp).
Qed.

Lemma select_run_ok cands cap' nb : forall s, Forall (selected_ok cands cap') (select_run s cands cap' nb).
Proof. induction nb as [|k IH]; intros s; [constructor|]. cbn [select_run]. constructor; [apply select_ok|apply IH]. Qed.

Lemma select_run_length cands cap' nb : forall s, length (select_run s cands cap' nb) = nb.
Proof. induction nb as [|k IH]; intros s; [reflexivity|]. cbn [select_run length]. rewrite IH. reflexivity. Qed.

(* ---------- the reference-model filter ---------- *)
Lemma in_ref_filter refs cands p :
  In p (ref_filter refs cands) <-> In p cands /\ ~ In (fst p) refs /\ ~ In (snd p) refs.
Proof.
  unfold ref_filter. rewrite filter_In, andb_true_iff, !negb_true_iff, !memb_false. tauto.
Qed.

Theorem uin_ref_filter refs cands a b :
  uin (a, b) (ref_filter refs cands) <-> uin (a, b) cands /\ ~ In a refs /\ ~ In b refs.
Proof. unfold uin, swapp. cbn [fst snd]. rewrite !in_ref_filter. cbn [fst snd]. tauto. Qed.

Lemma filter_all_true {A} (f : A -> bool) l : (forall x, f x = true) -> filter f l = l.
Proof. intros H. induction l as [|x l IH]; [reflexivity|]. cbn [filter]. rewrite H, IH. reflexivity. Qed.

Lemma ref_filter_nil cands : ref_filter [] cands = cands.
Proof. unfold ref_filter. apply filter_all_true. intros p. reflexivity. Qed.

Lemma ref_filter_incl refs cands : incl (ref_filter refs cands) cands.
Proof. intros p H. apply in_ref_filter in H. tauto. Qed.

Lemma once_ref_filter refs cands : once cands -> once (ref_filter refs cands).
Proof. apply once_filter. Qed.

Lemma closed_pairsb_ref_filter cols refs cands :
  closed_pairsb cols cands = true -> closed_pairsb cols (ref_filter refs cands) = true.
Proof.
  rewrite !closed_pairsb_Forall, !Forall_forall. intros H p Hp. apply H, (ref_filter_incl refs cands), Hp.
Qed.

Lemma ref_names_inactive h ref : (ref = None \/ memb h prior_heurs = false) -> ref_names h ref = [].
Proof. unfold ref_names. intros [->|H]; [reflexivity|]. destruct ref; [rewrite H|]; reflexivity. Qed.

(* one call of mixed_rank_graph under a prior heuristic with a reference model: the candidates touching a reference
   feature are dropped before the cap *)
Definition valid_batch_ref (cols : list str) (h tro label : str) (cap : Z) (refs : list str) (rows : list row) : Prop :=
  exists ev scores, selected_ok (ref_filter refs (candidates cols h tro label)) (eff_cap h cap) ev
                    /\ length scores = length ev /\ rows = build_rows h ev scores.

Lemma valid_batch_is_ref_nil cols h tro label cap rows :
  valid_batch cols h tro label cap rows <-> valid_batch_ref cols h tro label cap [] rows.
Proof. unfold valid_batch, valid_batch_ref. rewrite ref_filter_nil. reflexivity. Qed.

Theorem batch_ref_rows_spec cols h tro label cap refs rows : In label cols ->
  valid_batch_ref cols h tro label cap refs rows ->
  rows_spec cols h (ref_filter refs (candidates cols h tro label)) (eff_cap h cap) rows.
Proof.
  intros Hl [ev [scores [Hs [Hlen ->]]]]. apply build_rows_spec; [|exact Hs|exact Hlen].
  intros a b H. apply (cands_closed cols h tro label Hl a b). apply (ref_filter_incl refs _ _ H).
Qed.

(* evaluated pairs = requested pairs minus those touching a reference feature *)
Theorem batch_ref_requested cols h tro label cap refs rows : In label cols ->
  valid_batch_ref cols h tro label cap refs rows ->
  forall a b s, In (a, b, s) rows ->
    spec_pairb cols h tro label (a, b) = true /\ ~ In a refs /\ ~ In b refs /\ In a cols /\ In b cols.
Proof.
  intros Hl V a b s Hr. pose proof (batch_ref_rows_spec _ _ _ _ _ _ _ Hl V) as S.
  pose proof (rows_spec_requested _ _ _ _ _ S (a, b, s) Hr) as U. unfold rp in U. cbn [fst] in U.
  apply uin_ref_filter in U. destruct U as [U [Ha Hb]]. split; [apply spec_pairb_iff; exact U|].
  split; [exact Ha|]. split; [exact Hb|]. apply (rs_closed _ _ _ _ _ S (a, b, s) Hr).
Qed.

(* ... and nothing is lost but by the cap: when the cap does not bind every remaining requested pair is evaluated *)
Theorem batch_ref_complete cols h tro label cap refs rows :
  (Z.of_nat (length (ref_filter refs (candidates cols h tro label))) <= eff_cap h cap)%Z ->
  valid_batch_ref cols h tro label cap refs rows ->
  forall a b, spec_pairb cols h tro label (a, b) = true -> ~ In a refs -> ~ In b refs ->
    exists s, In (a, b, s) rows \/ In (b, a, s) rows.
Proof.
  intros Hcap [ev [scores [[Hlen [rest HP]] [Hsc ->]]]] a b Hspec Ha Hb.
  set (F := ref_filter refs (candidates cols h tro label)) in *.
  assert (Hrest : rest = []).
  { apply length_zero_iff_nil. pose proof (Permutation_length HP) as E. rewrite app_length in E.
    unfold slice_len in Hlen. destruct (Z.ltb_spec (eff_cap h cap) 0); lia. }
  subst rest. rewrite app_nil_r in HP.
  assert (U : uin (a, b) ev).
  { assert (U0 : uin (a, b) F) by (apply uin_ref_filter; split; [apply spec_pairb_iff; exact Hspec|tauto]).
    destruct U0 as [U0|U0]; [left|right]; (eapply Permutation_in; [symmetry; exact HP|exact U0]). }
  assert (G : forall x y, In (x, y) ev -> exists s, In (x, y, s) (build_rows h ev scores)).
  { intros x y Hin. unfold build_rows. destruct (is_const h).
    - exists 0%N. unfold constant_rows. apply in_map_iff. exists (x, y). split; [reflexivity|exact Hin].
    - assert (Hm : In (x, y) (map rp (triplets ev scores))) by (rewrite (rp_triplets ev scores Hsc); exact Hin).
      apply in_map_iff in Hm. destruct Hm as [[[x' y'] s] [E Hr]]. unfold rp in E. cbn [fst] in E. inversion E; subst.
      exists s. apply in_mirror. left. exact Hr. }
  destruct U as [U|U]; unfold swapp in U; cbn [fst snd] in U; destruct (G _ _ U) as [s Hs]; exists s; tauto.
Qed.

(* what an accepted observation satisfies *)
Theorem check_sound c o : In (c_label c) (c_cols c) -> C06_check c o = true ->
  (forall p, uin p (o_cands o) <-> uin p (C06_cands c))
  /\ o_cap o = eff_cap (c_heur c) (c_cap c)
  /\ Forall (rows_spec (c_cols c) (c_heur c) (ref_filter (C06_refs c) (o_cands o)) (o_cap o)) (o_rows o).
Proof.
  intros Hl H. unfold C06_check in H. rewrite !andb_true_iff in H. destruct H as [[H1 H2] H3].
  pose proof (cands_okb_fast_closed _ _ _ _ _ H1) as Hc. rewrite (cands_okb_fast_eq _ _ _ _ _ Hc) in H1.
  split; [apply (cands_okb_iff _ _ _ _ _ Hl); exact H1|]. split; [apply Z.eqb_eq; exact H2|].
  apply Forall_forall. intros rows Hr. rewrite forallb_forall in H3. apply rows_okb_iff.
  rewrite <- (rows_okb_fast_eq _ _ _ _ _ (closed_pairsb_ref_filter _ (C06_refs c) _ Hc)). apply H3, Hr.
Qed.

(* the transcription is accepted by the checker, whatever the scorer answers *)
Theorem model_ok c scores : In (c_label c) (c_cols c) ->
  (forall e s, In (e, s) (combine (select_run [] (ref_filter (C06_refs c) (C06_cands c)) (eff_cap (c_heur c) (c_cap c)) (c_batches c)) scores) ->
               length s = length e) ->
  C06_check c (C06_model c scores) = true.
Proof.
  intros Hl Hs. unfold C06_check, C06_model. cbn [o_cands o_cap o_rows]. rewrite !andb_true_iff.
  pose proof (candidates_closedb _ (c_heur c) (c_tro c) _ Hl) as Hc. split; [split|].
  - unfold C06_cands. rewrite (cands_okb_fast_eq _ _ _ _ _ Hc).
    apply (cands_okb_iff _ _ _ _ _ Hl). intros p. reflexivity.
  - apply Z.eqb_refl.
  - apply forallb_forall. intros rows Hr. apply in_map_iff in Hr. destruct Hr as [[e s] [<- Hes]].
    unfold C06_cands. rewrite (rows_okb_fast_eq _ _ _ _ _ (closed_pairsb_ref_filter _ (C06_refs c) _ Hc)).
    apply rows_okb_iff. cbn [fst snd]. apply build_rows_spec.
    + intros a b H. apply (cands_closed _ (c_heur c) (c_tro c) _ Hl a b). apply (ref_filter_incl _ _ _ H).
    + pose proof (select_run_ok (ref_filter (C06_refs c) (C06_cands c)) (eff_cap (c_heur c) (c_cap c)) (c_batches c) []) as F.
      rewrite Forall_forall in F. apply F. apply in_combine_l in Hes. exact Hes.
    + apply Hs. exact Hes.
Qed.

(* ---------- Constant: each selected combination listed once, score 0, never mirrored ---------- *)
Theorem constant_once cols h tro label cap refs rows : is_const h = true ->
  valid_batch_ref cols h tro label cap refs rows ->
  selected_ok (ref_filter refs (candidates cols h tro label)) (eff_cap h cap) (map rp rows)
  /\ (forall r, In r rows -> snd r = 0%N)
  /\ length rows = slice_len (length (ref_filter refs (candidates cols h tro label))) (eff_cap h cap)
  /\ (NoDup cols -> forall p, ucount p (map rp rows) <= 1).
Proof.
  intros Hk [ev [scores [Hs [Hlen ->]]]]. unfold build_rows. rewrite Hk. rewrite rp_constant.
  split; [exact Hs|]. split; [|split].
  - intros r Hr. unfold constant_rows in Hr. apply in_map_iff in Hr. destruct Hr as [p [<- _]]. reflexivity.
  - unfold constant_rows. rewrite map_length. apply Hs.
  - intros Hnd p. pose proof (ucount_selected p _ _ _ Hs) as H1.
    destruct (once_ref_filter refs _ (cands_once cols h tro label Hnd)) as [N1 N2]. pose proof (ucount_le_1 p _ N1 N2). lia.
Qed.

(* ---------- list level: with duplicate-free columns every requested pair is listed exactly once, nothing else is listed ---------- *)
Lemma uin_ucount_pos p l : uin p l -> 0 < ucount p l.
Proof.
  intros [H|H]; apply in_split in H; destruct H as [u [v ->]]; rewrite ucount_app, ucount_cons.
  - replace (upair_eqb p p) with true; [lia|]. symmetry. apply upair_eqb_iff. now left.
  - replace (upair_eqb p (swapp p)) with true; [lia|]. symmetry. apply upair_eqb_iff. right.
    destruct p; reflexivity.
Qed.

Theorem cands_multiplicity cols h tro label p : NoDup cols ->
  ucount p (candidates cols h tro label) = if spec_pairb cols h tro label p then 1 else 0.
Proof.
  intros Hnd. destruct (cands_once cols h tro label Hnd) as [N1 N2]. pose proof (ucount_le_1 p _ N1 N2) as Hle.
  destruct (spec_pairb cols h tro label p) eqn:E.
  - apply spec_pairb_iff, uin_ucount_pos in E. lia.
  - apply ucount_zero. intros U. apply spec_pairb_iff in U. congruence.
Qed.

Theorem pairwise_multiplicity cols h tro label a b :
  NoDup cols -> is_3mr h = false -> is_tonly tro = false -> In a cols -> In b cols ->
  ucount (a, b) (candidates cols h tro label) = 1.
Proof.
  intros Hnd H3 Ht Ha Hb. rewrite (cands_multiplicity cols h tro label (a, b) Hnd).
  replace (spec_pairb cols h tro label (a, b)) with true; [reflexivity|]. symmetry.
  apply spec_pairb_iff, (cands_pairwise cols h tro label H3 Ht). tauto.
Qed.

(* ---------- the clamp ---------- *)
Lemma eff_cap_3mr h cap : is_3mr h = true -> eff_cap h cap = Z.min cap max_features_3mr.
Proof. intros H. unfold eff_cap. rewrite H. destruct (Z.ltb_spec max_features_3mr cap); lia. Qed.

Lemma eff_cap_other h cap : is_3mr h = false -> eff_cap h cap = cap.
Proof. intros H. unfold eff_cap. rewrite H. reflexivity. Qed.

(* sorted(set(all_columns) - set(rel_columns)) is determined by the set, whatever the set's iteration order *)
Theorem non_rel_canonical cols l' :
  StronglySorted str_le l' -> Permutation l' (dedup (filter (fun c => negb (is_rel c)) cols)) ->
  l' = non_rel_columns cols.
Proof.
  intros Hs HP. symmetry. apply sorted_perm_unique.
  - apply sort_str_sorted.
  - exact Hs.
  - apply non_rel_nodup.
  - unfold non_rel_columns. rewrite sort_str_perm. symmetry. exact HP.
Qed.

(* ---------- the batch-level statements in the words of the property ---------- *)
Theorem batch_mirrored cols h tro label cap rows : is_const h = false ->
  valid_batch cols h tro label cap rows ->
  exists T, selected_ok (candidates cols h tro label) (eff_cap h cap) (map rp T)
    /\ (forall r, In r rows <-> In r T \/ In (swap3 r) T)
    /\ (forall a b s, In (a, b, s) T -> In (a, b, s) rows /\ In (b, a, s) rows)
    /\ (forall r, rcount r rows = rcount r T + rcount (swap3 r) T)
    /\ (forall r, rcount r rows = rcount (swap3 r) rows)
    /\ length rows = 2 * slice_len (length (candidates cols h tro label)) (eff_cap h cap).
Proof.
  intros Hk [ev [scores [Hs [Hlen ->]]]]. unfold build_rows. rewrite Hk. exists (triplets ev scores).
  rewrite (rp_triplets ev scores Hlen). split; [exact Hs|]. split; [intros r; apply in_mirror|]. split; [|split; [|split]].
  - intros a b s H. split; apply in_mirror; [left; exact H|right; exact H].
  - intros r. apply rcount_mirror.
  - intros r. apply rcount_mirror_sym.
  - rewrite length_mirror. unfold triplets. rewrite map_length, combine_length, Hlen, Nat.min_id.
    destruct Hs as [-> _]. reflexivity.
Qed.

Theorem batch_closed cols h tro label cap rows : In label cols ->
  valid_batch cols h tro label cap rows ->
  forall a b s, In (a, b, s) rows -> In a cols /\ In b cols.
Proof.
  intros Hl V a b s Hr. pose proof (batch_rows_spec _ _ _ _ _ _ Hl V) as S.
  apply (rs_closed _ _ _ _ _ S (a, b, s) Hr).
Qed.

Theorem batch_requested cols h tro label cap rows : In label cols ->
  valid_batch cols h tro label cap rows ->
  forall a b s, In (a, b, s) rows -> spec_pairb cols h tro label (a, b) = true.
Proof.
  intros Hl V a b s Hr. pose proof (batch_rows_spec _ _ _ _ _ _ Hl V) as S.
  apply spec_pairb_iff. apply (rows_spec_requested _ _ _ _ _ S (a, b, s) Hr).
Qed.

(* ---------- non-vacuity ---------- *)
Definition ex_cols : list str :=
  [[98]; [108; 97; 98]; [97]; [97; 32; 65; 78; 68; 95; 82; 69; 76; 32; 98]; [97; 98]]%N.   (* b, lab, a, 'a AND_REL b', ab *)
Definition ex_label : str := [108; 97; 98]%N.
Definition ex_3mr : str := [77; 73; 45; 110; 117; 109; 98; 97; 45; 51; 109; 114]%N.        (* MI-numba-3mr *)
Definition ex_mi : str := [77; 73]%N.
Definition ex_false : str := [70; 97; 108; 115; 101]%N.

Example ex_modes :
  NoDup ex_cols /\ In ex_label ex_cols
  /\ is_3mr ex_3mr = true /\ is_3mr ex_mi = false /\ is_tonly s_True = true /\ is_tonly ex_false = false
  /\ length (candidates ex_cols ex_mi s_True ex_label) = 5
  /\ length (candidates ex_cols ex_mi ex_false ex_label) = 15
  /\ candidates ex_cols ex_3mr s_True ex_label
     = cwr2 [[97]; [97; 98]; [98]; [108; 97; 98]]%N ++ [([97; 32; 65; 78; 68; 95; 82; 69; 76; 32; 98]%N, ex_label)]
  /\ length (candidates ex_cols ex_3mr ex_false ex_label) = 12
  /\ eff_cap ex_3mr 20000 = 10000%Z /\ eff_cap ex_mi 20000 = 20000%Z.
Proof.
  split; [|vm_compute; intuition].
  repeat constructor; cbn; intuition discriminate.
Qed.

Example ex_batch :
  let c := mkCase ex_cols ex_mi ex_false ex_label 4 2 None in
  let o := C06_model c [[5; 6; 7; 8]; [1; 2; 3; 4]]%N in
  C06_check c o = true
  /\ map (@length row) (o_rows o) = [8; 8]
  /\ select_run [] (C06_cands c) 4 2 = [firstn 4 (C06_cands c); firstn 4 (skipn 4 (C06_cands c))]
  /\ C06_check (mkCase ex_cols s_Constant s_True ex_label 3 1 None) (C06_model (mkCase ex_cols s_Constant s_True ex_label 3 1 None) [[]]) = true.
Proof. vm_compute. intuition. Qed.

(* dropping the mirror row, mirroring with another score, or listing a foreign pair is rejected *)
Example ex_rejects :
  let c := mkCase ex_cols ex_mi s_True ex_label 2 1 None in
  let cands := C06_cands c in
  C06_check c (mkObs cands 2 [[([98], ex_label, 5); (ex_label, [98], 5); (ex_label, ex_label, 6); (ex_label, ex_label, 6)]])%N = true
  /\ C06_check c (mkObs cands 2 [[([98], ex_label, 5); (ex_label, ex_label, 6)]])%N = false
  /\ C06_check c (mkObs cands 2 [[([98], ex_label, 5); (ex_label, [98], 7); (ex_label, ex_label, 6); (ex_label, ex_label, 6)]])%N = false
  /\ C06_check c (mkObs cands 2 [[([98], [97], 5); ([97], [98], 5); (ex_label, ex_label, 6); (ex_label, ex_label, 6)]])%N = false.
Proof. vm_compute. intuition. Qed.

(* the reference-model filter: under surrogate-SGD with reference features {'b,a'->'a AND b' (absent), 'ab', 'zz'} every pair
   touching 'ab' disappears (5 of 15), nothing else; under a non-prior heuristic the same file changes nothing *)
Definition ex_sgd : str := [115; 117; 114; 114; 111; 103; 97; 116; 101; 45; 83; 71; 68]%N.
Definition ex_ref : option (list str) := Some [[98; 44; 97]; [97; 98]; [122; 122]]%N.
Example ex_ref_filter :
  norm_ref [98; 44; 97]%N = [97; 32; 65; 78; 68; 32; 98]%N
  /\ split_on 44 [44; 97; 44]%N = [[]; [97]; []]%N
  /\ length (ref_filter (ref_names ex_sgd ex_ref) (candidates ex_cols ex_sgd ex_false ex_label)) = 10
  /\ ref_names ex_mi ex_ref = [] /\ ref_names ex_sgd None = []
  /\ (let c := mkCase ex_cols ex_sgd ex_false ex_label 7 1 ex_ref in
      C06_check c (C06_model c [[1; 2; 3; 4; 5; 6; 7]]%N) = true
      /\ map (@length row) (o_rows (C06_model c [[1; 2; 3; 4; 5; 6; 7]]%N)) = [14]).
Proof. vm_compute. intuition. Qed.
