(* C06 — proofs about the pair enumeration, the cap, and the row construction. *)
From Coq Require Import List Arith ZArith NArith Bool Lia Permutation Sorted ZifyBool.
From Outrank Require Import Pipeline.Sampler Pipeline.SamplerProofs Pipeline.Combos.
Import ListNotations.

(* ---------- strings ---------- *)
Lemma str_eqb_eq a : forall b, str_eqb a b = true <-> a = b.
Proof.
  induction a as [|x a IH]; intros [|y b]; cbn [str_eqb]; try (split; [discriminate|discriminate]); [tauto|].
  rewrite andb_true_iff, N.eqb_eq, IH. split; [intros [-> ->]; reflexivity|intros E; inversion E; auto].
Qed.

Lemma str_eqb_refl a : str_eqb a a = true.
Proof. apply str_eqb_eq. reflexivity. Qed.

Lemma str_eqb_neq a b : str_eqb a b = false <-> a <> b.
Proof.
  split.
  - intros E H. apply str_eqb_eq in H. congruence.
  - intros H. destruct (str_eqb a b) eqn:E; [apply str_eqb_eq in E; contradiction|reflexivity].
Qed.

Lemma str_eqb_sym a b : str_eqb a b = str_eqb b a.
Proof.
  destruct (str_eqb a b) eqn:E.
  - apply str_eqb_eq in E. subst. symmetry. apply str_eqb_refl.
  - symmetry. apply str_eqb_neq. apply str_eqb_neq in E. congruence.
Qed.

Lemma memb_In x l : memb x l = true <-> In x l.
Proof.
  unfold memb. rewrite existsb_exists. split.
  - intros [y [Hy E]]. apply str_eqb_eq in E. subst. exact Hy.
  - intros H. exists x. split; [exact H|apply str_eqb_refl].
Qed.

Lemma memb_false x l : memb x l = false <-> ~ In x l.
Proof.
  split.
  - intros E H. apply memb_In in H. congruence.
  - intros H. destruct (memb x l) eqn:E; [apply memb_In in E; contradiction|reflexivity].
Qed.

Lemma pair_eqb_eq p q : pair_eqb p q = true <-> p = q.
Proof.
  destruct p as [a b], q as [c d]. unfold pair_eqb. cbn [fst snd].
  rewrite andb_true_iff, !str_eqb_eq. split; [intros [-> ->]; reflexivity|intros E; inversion E; auto].
Qed.

Lemma pair_eqb_refl p : pair_eqb p p = true.
Proof. apply pair_eqb_eq. reflexivity. Qed.

Definition swapp (p : pair) : pair := (snd p, fst p).

Lemma upair_eqb_iff p q : upair_eqb p q = true <-> p = q \/ p = swapp q.
Proof.
  unfold upair_eqb. rewrite orb_true_iff, pair_eqb_eq, andb_true_iff, !str_eqb_eq.
  destruct p as [a b], q as [c d]. unfold swapp. cbn [fst snd].
  split; (intros [H|H]; [left; exact H|right]).
  - destruct H as [-> ->]. reflexivity.
  - inversion H. auto.
Qed.

(* a pair is in a list "as an unordered pair" *)
Definition uin (p : pair) (l : list pair) : Prop := In p l \/ In (swapp p) l.

Lemma umemb_uin p l : umemb p l = true <-> uin p l.
Proof.
  unfold umemb, uin. rewrite existsb_exists. split.
  - intros [q [Hq E]]. apply upair_eqb_iff in E. destruct E as [->| ->]; [left; exact Hq|right].
    destruct q; exact Hq.
  - intros [H|H]; [exists p|exists (swapp p)]; (split; [exact H|]); apply upair_eqb_iff; [left; reflexivity|right].
    destruct p; reflexivity.
Qed.

(* ---------- combinations_with_replacement ---------- *)
Lemma in_cwr2_cons {A} (x : A) t a b :
  In (a, b) (cwr2 (x :: t)) <-> (a = x /\ In b (x :: t)) \/ In (a, b) (cwr2 t).
Proof.
  cbn [cwr2]. rewrite in_app_iff, in_map_iff. split.
  - intros [[y [E Hy]]|H]; [left|right; exact H]. inversion E; subst. split; [reflexivity|exact Hy].
  - intros [[-> Hb]|H]; [left; exists b; split; [reflexivity|exact Hb]|right; exact H].
Qed.

Lemma in_cwr2_fwd {A} (l : list A) a b : In (a, b) (cwr2 l) -> In a l /\ In b l.
Proof.
  induction l as [|x t IH]; [intros []|]. rewrite in_cwr2_cons. intros [[-> Hb]|H].
  - split; [now left|exact Hb].
  - destruct (IH H). split; now right.
Qed.

Lemma in_cwr2_bwd {A} (l : list A) a b : In a l -> In b l -> In (a, b) (cwr2 l) \/ In (b, a) (cwr2 l).
Proof.
  induction l as [|x t IH]; [intros []|]. intros Ha Hb. rewrite !in_cwr2_cons.
  destruct Ha as [<-|Ha].
  - left. left. split; [reflexivity|exact Hb].
  - destruct Hb as [<-|Hb].
    + right. left. split; [reflexivity|now right].
    + destruct (IH Ha Hb); [left|right]; right; assumption.
Qed.

Lemma uin_cwr2 (l : list str) a b : uin (a, b) (cwr2 l) <-> In a l /\ In b l.
Proof.
  unfold uin, swapp. cbn [fst snd]. split.
  - intros [H|H]; apply in_cwr2_fwd in H; tauto.
  - intros [Ha Hb]. apply in_cwr2_bwd; assumption.
Qed.

(* ---------- set / sorted ---------- *)
Lemma in_dedup x l : In x (dedup l) <-> In x l.
Proof.
  induction l as [|y t IH]; [reflexivity|]. cbn [dedup]. destruct (memb y t) eqn:E.
  - rewrite IH. cbn [In]. split; [now right|]. intros [<-|H]; [apply memb_In; exact E|exact H].
  - cbn [In]. rewrite IH. reflexivity.
Qed.

Lemma dedup_nodup l : NoDup (dedup l).
Proof.
  induction l as [|y t IH]; [constructor|]. cbn [dedup]. destruct (memb y t) eqn:E; [exact IH|].
  constructor; [|exact IH]. rewrite in_dedup. apply memb_false. exact E.
Qed.

Lemma dedup_fixed l : NoDup l -> dedup l = l.
Proof.
  induction 1 as [|y t Hn Hnd IH]; [reflexivity|]. cbn [dedup].
  rewrite (proj2 (memb_false y t) Hn), IH. reflexivity.
Qed.

Lemma insert_str_perm x l : Permutation (insert_str x l) (x :: l).
Proof.
  induction l as [|h t IH]; cbn [insert_str]; [reflexivity|].
  destruct (str_leb x h); [reflexivity|]. rewrite IH. apply perm_swap.
Qed.

Lemma sort_str_perm l : Permutation (sort_str l) l.
Proof.
  induction l as [|a l IH]; [reflexivity|]. cbn [sort_str fold_right]. fold (sort_str l).
  rewrite insert_str_perm. now constructor.
Qed.

Lemma str_leb_total a : forall b, str_leb a b = false -> str_leb b a = true.
Proof.
  induction a as [|x a IH]; intros [|y b]; cbn [str_leb]; try discriminate; [reflexivity|].
  destruct (N.ltb_spec x y); [discriminate|]. destruct (N.eqb_spec x y) as [->|Hne].
  - rewrite N.ltb_irrefl, N.eqb_refl. apply IH.
  - intros _. destruct (N.ltb_spec y x); [reflexivity|lia].
Qed.

Lemma str_leb_trans a : forall b c, str_leb a b = true -> str_leb b c = true -> str_leb a c = true.
Proof.
  induction a as [|x a IH]; intros [|y b] [|z c]; cbn [str_leb]; try discriminate; try reflexivity.
  destruct (N.ltb_spec x y) as [Hxy|Hxy].
  - intros _. destruct (N.ltb_spec y z) as [Hyz|Hyz].
    + intros _. destruct (N.ltb_spec x z); [reflexivity|lia].
    + destruct (N.eqb_spec y z) as [->|]; [|discriminate]. intros _.
      destruct (N.ltb_spec x z); [reflexivity|lia].
  - destruct (N.eqb_spec x y) as [->|]; [|discriminate]. intros Hab.
    destruct (N.ltb_spec y z); [reflexivity|]. destruct (N.eqb_spec y z) as [->|]; [|discriminate].
    apply IH. exact Hab.
Qed.

Lemma str_leb_antisym a : forall b, str_leb a b = true -> str_leb b a = true -> a = b.
Proof.
  induction a as [|x a IH]; intros [|y b]; cbn [str_leb]; try discriminate; [reflexivity|].
  destruct (N.ltb_spec x y) as [Hxy|Hxy].
  - intros _. destruct (N.ltb_spec y x); [lia|]. destruct (N.eqb_spec y x); [lia|discriminate].
  - destruct (N.eqb_spec x y) as [->|]; [|discriminate]. rewrite N.ltb_irrefl, N.eqb_refl.
    intros H1 H2. f_equal. apply IH; assumption.
Qed.

Definition str_le (a b : str) : Prop := str_leb a b = true.

Lemma insert_str_sorted x l : StronglySorted str_le l -> StronglySorted str_le (insert_str x l).
Proof.
  induction 1 as [|h t Hs IH Hall]; cbn [insert_str]; [constructor; constructor|].
  destruct (str_leb x h) eqn:E.
  - constructor; [constructor; assumption|]. constructor; [exact E|].
    eapply Forall_impl; [|exact Hall]. intros y Hy. eapply str_leb_trans; eassumption.
  - constructor; [exact IH|]. eapply Permutation_Forall; [symmetry; apply insert_str_perm|].
    constructor; [apply str_leb_total; exact E|exact Hall].
Qed.

Lemma sort_str_sorted l : StronglySorted str_le (sort_str l).
Proof. induction l as [|a l IH]; [constructor|]. cbn [sort_str fold_right]. apply insert_str_sorted. exact IH. Qed.

(* sorted(...) of a set is determined by the set: any sorted arrangement of the same distinct names is this list *)
Lemma sorted_perm_unique (l l' : list str) :
  StronglySorted str_le l -> StronglySorted str_le l' -> NoDup l -> Permutation l l' -> l = l'.
Proof.
  revert l'. induction l as [|a l IH]; intros l' Hs Hs' Hnd HP.
  - apply Permutation_nil in HP. subst. reflexivity.
  - destruct l' as [|b l']; [apply Permutation_sym, Permutation_nil in HP; discriminate|].
    inversion Hs as [|? ? Hs1 Ha]; subst. inversion Hs' as [|? ? Hs1' Hb]; subst.
    inversion Hnd as [|? ? Hna Hnd1]; subst. rewrite Forall_forall in Ha, Hb.
    assert (a = b).
    { assert (Hin : In a (b :: l')) by (eapply Permutation_in; [exact HP|now left]).
      assert (Hin' : In b (a :: l)) by (eapply Permutation_in; [symmetry; exact HP|now left]).
      destruct Hin as [->|Hin]; [reflexivity|]. destruct Hin' as [->|Hin']; [reflexivity|].
      apply str_leb_antisym; [apply Ha; exact Hin'|apply Hb; exact Hin]. }
    subst b. f_equal. apply IH; try assumption. eapply Permutation_cons_inv. exact HP.
Qed.

Lemma in_non_rel cols x : In x (non_rel_columns cols) <-> In x cols /\ is_rel x = false.
Proof.
  unfold non_rel_columns. split.
  - intros H. apply (Permutation_in _ (sort_str_perm _)) in H. apply in_dedup, filter_In in H.
    destruct H as [H1 H2]. split; [exact H1|]. destruct (is_rel x); [discriminate|reflexivity].
  - intros [H1 H2]. apply (Permutation_in _ (Permutation_sym (sort_str_perm _))).
    apply in_dedup, filter_In. split; [exact H1|]. rewrite H2. reflexivity.
Qed.

Lemma in_rel cols x : In x (rel_columns cols) <-> In x cols /\ is_rel x = true.
Proof. unfold rel_columns. apply filter_In. Qed.

Lemma in_diagonal cols label a b : In (a, b) (diagonal cols label) <-> a = b /\ In a cols /\ a <> label.
Proof.
  unfold diagonal. rewrite in_map_iff. split.
  - intros [c [E H]]. inversion E; subst. apply filter_In in H. destruct H as [H1 H2].
    split; [reflexivity|]. split; [exact H1|]. apply str_eqb_neq. destruct (str_eqb b label); [discriminate|reflexivity].
  - intros [<- [H1 H2]]. exists a. split; [reflexivity|]. apply filter_In. split; [exact H1|].
    apply str_eqb_neq in H2. rewrite H2. reflexivity.
Qed.

Lemma uin_app p l1 l2 : uin p (l1 ++ l2) <-> uin p l1 \/ uin p l2.
Proof. unfold uin. rewrite !in_app_iff. tauto. Qed.

Lemma uin_diagonal cols label a b : uin (a, b) (diagonal cols label) <-> a = b /\ In a cols /\ a <> label.
Proof.
  unfold uin, swapp. cbn [fst snd]. rewrite !in_diagonal. split.
  - intros [H|[<- H]]; [exact H|]. split; [reflexivity|exact H].
  - intros H. left. exact H.
Qed.

(* ---------- the three modes ---------- *)
Theorem cands_target_only cols h tro label :
  is_3mr h = false -> is_tonly tro = true ->
  forall a b, uin (a, b) (candidates cols h tro label) <-> In a cols /\ In b cols /\ (a = label \/ b = label).
Proof.
  intros H3 Ht a b. unfold candidates. rewrite H3, Ht. unfold uin, swapp. cbn [fst snd].
  rewrite !filter_In. unfold has_label. cbn [fst snd]. rewrite !orb_true_iff, !str_eqb_eq. split.
  - intros [[H E]|[H E]]; apply in_cwr2_fwd in H; intuition.
  - intros [Ha [Hb E]]. destruct (in_cwr2_bwd cols a b Ha Hb); [left|right]; (split; [assumption|]); intuition.
Qed.

Theorem cands_pairwise cols h tro label :
  is_3mr h = false -> is_tonly tro = false ->
  forall a b, uin (a, b) (candidates cols h tro label) <-> In a cols /\ In b cols.
Proof.
  intros H3 Ht a b. unfold candidates. rewrite H3, Ht. rewrite uin_app, uin_cwr2, uin_diagonal. split.
  - intros [H|[<- [H _]]]; tauto.
  - intros H. left. exact H.
Qed.

Definition spec_3mr (cols : list str) (tro label a b : str) : Prop :=
  (In a cols /\ In b cols /\ is_rel a = false /\ is_rel b = false)
  \/ (In a cols /\ is_rel a = true /\ b = label)
  \/ (a = label /\ In b cols /\ is_rel b = true)
  \/ (is_tonly tro = false /\ a = b /\ In a cols /\ a <> label).

Lemma uin_rel_label cols label a b :
  uin (a, b) (map (fun c => (c, label)) (rel_columns cols)) <->
  (In a cols /\ is_rel a = true /\ b = label) \/ (a = label /\ In b cols /\ is_rel b = true).
Proof.
  unfold uin, swapp. cbn [fst snd]. rewrite !in_map_iff. split.
  - intros [[c [E H]]|[c [E H]]]; inversion E; subst; apply in_rel in H; [left|right]; tauto.
  - intros [[H1 [H2 ->]]|[-> [H1 H2]]]; [left; exists a|right; exists b]; (split; [reflexivity|]); apply in_rel; tauto.
Qed.

Theorem cands_3mr cols h tro label :
  is_3mr h = true ->
  forall a b, uin (a, b) (candidates cols h tro label) <-> spec_3mr cols tro label a b.
Proof.
  intros H3 a b. unfold candidates, spec_3mr. rewrite H3. destruct (is_tonly tro) eqn:Ht.
  - rewrite uin_app, uin_cwr2, !in_non_rel, uin_rel_label. split.
    + intros [H|[H|H]]; [left; tauto|right; left; exact H|right; right; left; exact H].
    + intros [H|[H|[H|[H _]]]]; [left; tauto|right; left; exact H|right; right; exact H|discriminate].
  - rewrite !uin_app, uin_cwr2, !in_non_rel, uin_rel_label, uin_diagonal. split.
    + intros [[H|[H|H]]|H]; [left; tauto|right; left; exact H|right; right; left; exact H|right; right; right; tauto].
    + intros [H|[H|[H|[_ H]]]]; [left; left; tauto|left; right; left; exact H|left; right; right; exact H|right; exact H].
Qed.

(* the decidable form of the specification agrees with the three statements *)
Theorem spec_pairb_iff cols h tro label p :
  spec_pairb cols h tro label p = true <-> uin p (candidates cols h tro label).
Proof.
  destruct p as [a b]. unfold spec_pairb. cbn [fst snd]. destruct (is_3mr h) eqn:H3.
  - rewrite (cands_3mr cols h tro label H3). unfold spec_3mr.
    rewrite !orb_true_iff, !andb_true_iff, !negb_true_iff, !memb_In, !str_eqb_eq, str_eqb_neq. tauto.
  - destruct (is_tonly tro) eqn:Ht.
    + rewrite (cands_target_only cols h tro label H3 Ht).
      rewrite !andb_true_iff, orb_true_iff, !memb_In, !str_eqb_eq. tauto.
    + rewrite (cands_pairwise cols h tro label H3 Ht). rewrite andb_true_iff, !memb_In. tauto.
Qed.

Lemma spec_pairb_sym cols h tro label p : spec_pairb cols h tro label (swapp p) = spec_pairb cols h tro label p.
Proof.
  apply eq_true_iff_eq. rewrite !spec_pairb_iff. unfold uin. destruct p as [a b]. unfold swapp. cbn [fst snd]. tauto.
Qed.

(* every name of a candidate is a column of the frame *)
Theorem cands_closed cols h tro label : In label cols ->
  forall a b, In (a, b) (candidates cols h tro label) -> In a cols /\ In b cols.
Proof.
  intros Hl a b H. assert (U : uin (a, b) (candidates cols h tro label)) by (left; exact H). clear H.
  destruct (is_3mr h) eqn:H3.
  - apply (cands_3mr cols h tro label H3) in U. destruct U as [U|[U|[U|U]]].
    + tauto.
    + destruct U as [U1 [_ ->]]. tauto.
    + destruct U as [-> [U1 _]]. tauto.
    + destruct U as [_ [<- [U _]]]. tauto.
  - destruct (is_tonly tro) eqn:Ht.
    + apply (cands_target_only cols h tro label H3 Ht) in U. tauto.
    + apply (cands_pairwise cols h tro label H3 Ht) in U. tauto.
Qed.

(* ---------- list-level reading: multiplicities ---------- *)
Lemma nodup_app {A} (l1 l2 : list A) :
  NoDup l1 -> NoDup l2 -> (forall x, In x l1 -> ~ In x l2) -> NoDup (l1 ++ l2).
Proof.
  induction 1 as [|x l1 Hn Hnd IH]; intros H2 Hd; [exact H2|]. cbn [app]. constructor.
  - rewrite in_app_iff. intros [H|H]; [contradiction|]. apply (Hd x); [now left|exact H].
  - apply IH; [exact H2|]. intros y Hy. apply Hd. now right.
Qed.

Lemma cwr2_nodup {A} (l : list A) : NoDup l -> NoDup (cwr2 l).
Proof.
  induction 1 as [|x t Hn Hnd IH]; [constructor|]. cbn [cwr2]. apply nodup_app.
  - apply FinFun.Injective_map_NoDup; [intros u v E; inversion E; reflexivity|constructor; assumption].
  - exact IH.
  - intros [a b] H1 H2. apply in_map_iff in H1. destruct H1 as [y [E _]]. inversion E; subst.
    apply in_cwr2_fwd in H2. tauto.
Qed.

Lemma cwr2_orient {A} (l : list A) a b : NoDup l -> In (a, b) (cwr2 l) -> In (b, a) (cwr2 l) -> a = b.
Proof.
  induction 1 as [|x t Hn Hnd IH]; [intros []|]. rewrite !in_cwr2_cons. intros [[-> H1]|H1] [[-> H2]|H2].
  - reflexivity.
  - apply in_cwr2_fwd in H2. tauto.
  - apply in_cwr2_fwd in H1. tauto.
  - apply IH; assumption.
Qed.

Lemma non_rel_nodup cols : NoDup (non_rel_columns cols).
Proof.
  unfold non_rel_columns. eapply Permutation_NoDup; [symmetry; apply sort_str_perm|apply dedup_nodup].
Qed.

(* target-only (either family): the candidate list is duplicate-free and holds one orientation of each pair *)
Theorem cands_once cols h tro label : NoDup cols -> is_tonly tro = true ->
  NoDup (candidates cols h tro label) /\
  (forall a b, In (a, b) (candidates cols h tro label) -> In (b, a) (candidates cols h tro label) -> a = b).
Proof.
  intros Hnd Ht. unfold candidates. rewrite Ht. destruct (is_3mr h).
  - split.
    + apply nodup_app.
      * apply cwr2_nodup, non_rel_nodup.
      * apply FinFun.Injective_map_NoDup; [intros u v E; inversion E; reflexivity|apply NoDup_filter; exact Hnd].
      * intros [a b] H1 H2. apply in_cwr2_fwd in H1. destruct H1 as [H1 _]. apply in_non_rel in H1.
        apply in_map_iff in H2. destruct H2 as [c [E H2]]. inversion E; subst. apply in_rel in H2.
        destruct H1, H2. congruence.
    + intros a b. rewrite !in_app_iff, !in_map_iff. intros [H1|[c [E1 H1]]] [H2|[d [E2 H2]]].
      * eapply cwr2_orient; [apply non_rel_nodup|eassumption|eassumption].
      * inversion E2; subst. apply in_cwr2_fwd in H1. destruct H1 as [_ H1]. apply in_non_rel in H1.
        apply in_rel in H2. destruct H1, H2. congruence.
      * inversion E1; subst. apply in_cwr2_fwd in H2. destruct H2 as [_ H2]. apply in_non_rel in H2.
        apply in_rel in H1. destruct H1, H2. congruence.
      * inversion E1; inversion E2; subst. congruence.
  - split.
    + apply NoDup_filter, cwr2_nodup, Hnd.
    + intros a b H1 H2. apply filter_In in H1, H2. eapply cwr2_orient; [exact Hnd|apply H1|apply H2].
Qed.

Lemma ucount_cons p q l : ucount p (q :: l) = (if upair_eqb p q then 1 else 0) + ucount p l.
Proof. unfold ucount. cbn [filter]. destruct (upair_eqb p q); reflexivity. Qed.

Lemma ucount_app p l1 l2 : ucount p (l1 ++ l2) = ucount p l1 + ucount p l2.
Proof. unfold ucount. rewrite filter_app, app_length. reflexivity. Qed.

Lemma ucount_zero p l : ~ uin p l -> ucount p l = 0.
Proof.
  intros H. induction l as [|q l IH]; [reflexivity|]. rewrite ucount_cons.
  destruct (upair_eqb p q) eqn:E.
  - exfalso. apply H. apply upair_eqb_iff in E. destruct E as [->| ->]; [left; now left|right].
    destruct q; now left.
  - rewrite IH; [reflexivity|]. intros [U|U]; apply H; [left|right]; now right.
Qed.

Lemma ucount_pos p l : 0 < ucount p l -> uin p l.
Proof.
  intros H. apply umemb_uin. destruct (umemb p l) eqn:E; [reflexivity|]. exfalso.
  rewrite ucount_zero in H; [lia|]. intros U. apply umemb_uin in U. congruence.
Qed.

Lemma ucount_le_1 p l : NoDup l -> (forall a b, In (a, b) l -> In (b, a) l -> a = b) -> ucount p l <= 1.
Proof.
  induction 1 as [|q l Hn Hnd IH]; intros Ho; [cbn; lia|]. rewrite ucount_cons.
  assert (IH' : ucount p l <= 1) by (apply IH; intros a b H1 H2; apply Ho; now right).
  destruct (upair_eqb p q) eqn:E; [|lia]. rewrite ucount_zero; [lia|].
  apply upair_eqb_iff in E. intros [U|U].
  - destruct E as [-> | ->]; [contradiction|]. destruct q as [a b]. unfold swapp in U. cbn [fst snd] in U.
    assert (a = b) by (apply Ho; [now left|now right]). subst. contradiction.
  - destruct E as [-> | ->].
    + destruct q as [a b]. unfold swapp in U. cbn [fst snd] in U.
      assert (a = b) by (apply Ho; [now left|now right]). subst. contradiction.
    + destruct q as [a b]. unfold swapp in U. cbn [fst snd] in U. contradiction.
Qed.

(* ---------- the cap ---------- *)
Definition inj_on (enc : pair -> key) (U : list pair) : Prop :=
  forall p q, In p U -> In q U -> enc p = enc q -> p = q.

Definition pcount (p : pair) (l : list pair) : nat := length (filter (pair_eqb p) l).

(* what "reduced only by the cap" means for one batch: a sub-multiset of the candidates of the slice's length *)
Definition selected_ok (cands : list pair) (cap' : Z) (sel : list pair) : Prop :=
  length sel = slice_len (length cands) cap' /\ exists rest, Permutation (sel ++ rest) cands.

Lemma pcount_cons p q l : pcount p (q :: l) = (if pair_eqb p q then 1 else 0) + pcount p l.
Proof. unfold pcount. cbn [filter]. destruct (pair_eqb p q); reflexivity. Qed.

Lemma pcount_app p l1 l2 : pcount p (l1 ++ l2) = pcount p l1 + pcount p l2.
Proof. unfold pcount. rewrite filter_app, app_length. reflexivity. Qed.

Lemma pcount_pos_in p l : 0 < pcount p l -> In p l.
Proof.
  induction l as [|q l IH]; [cbn; lia|]. rewrite pcount_cons. destruct (pair_eqb p q) eqn:E.
  - intros _. left. apply pair_eqb_eq in E. congruence.
  - intros H. right. apply IH. lia.
Qed.

Lemma pcount_notin p l : ~ In p l -> pcount p l = 0.
Proof. intros H. destruct (pcount p l) eqn:E; [reflexivity|]. exfalso. apply H, pcount_pos_in. lia. Qed.

Lemma cocc_map_enc enc U l p : inj_on enc U -> incl l U -> In p U ->
  count_occ Nat.eq_dec (map enc l) (enc p) = pcount p l.
Proof.
  intros Hi Hl Hp. induction l as [|q l IH]; [reflexivity|]. cbn [map]. rewrite pcount_cons.
  assert (Hq : In q U) by (apply Hl; now left).
  assert (IH' : count_occ Nat.eq_dec (map enc l) (enc p) = pcount p l) by (apply IH; intros x Hx; apply Hl; now right).
  cbn [count_occ]. destruct (Nat.eq_dec (enc q) (enc p)) as [e|ne].
  - apply Hi in e; [|exact Hq|exact Hp]. subst q. rewrite pair_eqb_refl, IH'. reflexivity.
  - destruct (pair_eqb p q) eqn:E; [apply pair_eqb_eq in E; subst; contradiction|]. rewrite IH'. reflexivity.
Qed.

Lemma submultiset_perm l1 : forall l2, (forall p, pcount p l1 <= pcount p l2) -> exists rest, Permutation (l1 ++ rest) l2.
Proof.
  induction l1 as [|a l1 IH]; intros l2 H; [exists l2; reflexivity|].
  assert (Ha : In a l2).
  { apply pcount_pos_in. specialize (H a). rewrite pcount_cons, pair_eqb_refl in H. lia. }
  apply in_split in Ha. destruct Ha as [u [v ->]].
  destruct (IH (u ++ v)) as [rest HP].
  { intros p. specialize (H p). rewrite pcount_cons, pcount_app, pcount_cons in H. rewrite pcount_app. lia. }
  exists rest. cbn [app]. rewrite <- Permutation_middle. constructor. exact HP.
Qed.

Theorem selected_from_sampler (enc : pair -> key) st cands cap' sel st' :
  inj_on enc (cands ++ sel) ->
  valid_step st (map enc cands) cap' (map enc sel) st' ->
  incl sel cands /\ selected_ok cands cap' sel.
Proof.
  intros Hi V.
  assert (Hc : forall p, pcount p sel <= pcount p cands).
  { intros p. destruct (pcount p sel) eqn:E; [lia|]. rewrite <- E.
    assert (Hp : In p sel) by (apply pcount_pos_in; lia).
    pose proof (vs_sub _ _ _ _ _ V (enc p)) as Hs.
    rewrite (cocc_map_enc enc (cands ++ sel) sel p Hi), (cocc_map_enc enc (cands ++ sel) cands p Hi) in Hs;
      try (intros x Hx; apply in_or_app; tauto); try (apply in_or_app; tauto). exact Hs. }
  split.
  - intros p Hp. apply pcount_pos_in. specialize (Hc p).
    assert (0 < pcount p sel); [|lia].
    apply in_split in Hp. destruct Hp as [u [v ->]]. rewrite pcount_app, pcount_cons, pair_eqb_refl. lia.
  - split.
    + pose proof (vs_len _ _ _ _ _ V) as Hl. rewrite !map_length in Hl. exact Hl.
    + apply submultiset_perm. exact Hc.
Qed.

Lemma selected_ok_nonneg cands cap' sel : (0 <= cap')%Z -> selected_ok cands cap' sel ->
  length sel = Nat.min (length cands) (Z.to_nat cap').
Proof. intros H [Hl _]. rewrite Hl. unfold slice_len. destruct (Z.ltb_spec cap' 0); [lia|reflexivity]. Qed.

Lemma selected_ok_perm cands cap' sel ev : Permutation ev sel -> selected_ok cands cap' sel -> selected_ok cands cap' ev.
Proof.
  intros HP [Hl [rest HR]]. split; [rewrite (Permutation_length HP); exact Hl|].
  exists rest. rewrite HP. exact HR.
Qed.

Lemma selected_ok_incl cands cap' sel : selected_ok cands cap' sel -> incl sel cands.
Proof. intros [_ [rest HR]] p Hp. eapply Permutation_in; [exact HR|]. apply in_or_app. now left. Qed.

(* the transcription of the sampler on the candidate list *)
Lemma nth_pidx cands p : In p cands -> nth (pidx cands p) cands nopair = p.
Proof.
  induction cands as [|q t IH]; [intros []|]. intros H. cbn [pidx]. destruct (pair_eqb p q) eqn:E.
  - apply pair_eqb_eq in E. subst. reflexivity.
  - cbn [nth]. apply IH. destruct H as [->|H]; [rewrite pair_eqb_refl in E; discriminate|exact H].
Qed.

Lemma pidx_inj cands p q : In p cands -> In q cands -> pidx cands p = pidx cands q -> p = q.
Proof. intros Hp Hq E. rewrite <- (nth_pidx cands p Hp), <- (nth_pidx cands q Hq), E. reflexivity. Qed.

Lemma select_fst_incl s cands cap' : incl (fst (select s cands cap')) cands.
Proof.
  unfold select. cbn [fst]. intros p Hp. apply in_map_iff in Hp. destruct Hp as [i [<- Hi]].
  pose proof (step_valid s (map (pidx cands) cands) cap') as V. apply vs_incl in V. apply V in Hi.
  apply in_map_iff in Hi. destruct Hi as [q [<- Hq]]. rewrite nth_pidx; assumption.
Qed.

Theorem select_valid s cands cap' :
  valid_step (get s) (map (pidx cands) cands) cap'
             (map (pidx cands) (fst (select s cands cap'))) (get (snd (select s cands cap'))).
Proof.
  pose proof (step_valid s (map (pidx cands) cands) cap') as V.
  unfold select. cbn [fst snd]. rewrite map_map.
  rewrite (map_ext_in _ (fun i => i)); [rewrite map_id; exact V|].
  intros i Hi. apply vs_incl in V. apply V in Hi. apply in_map_iff in Hi. destruct Hi as [q [<- Hq]].
  rewrite nth_pidx; [reflexivity|exact Hq].
Qed.

Theorem select_ok s cands cap' : selected_ok cands cap' (fst (select s cands cap')).
Proof.
  apply (selected_from_sampler (pidx cands) (get s) cands cap' _ (get (snd (select s cands cap')))).
  - intros p q Hp Hq. apply pidx_inj.
    + apply in_app_or in Hp. destruct Hp as [Hp|Hp]; [exact Hp|apply (select_fst_incl s cands cap'); exact Hp].
    + apply in_app_or in Hq. destruct Hq as [Hq|Hq]; [exact Hq|apply (select_fst_incl s cands cap'); exact Hq].
  - apply select_valid.
Qed.
