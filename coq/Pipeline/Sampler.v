(* C07 — executable model of core_ranking.prior_combinations_sample and the
   relation [valid_step] every correct sampler step satisfies.  No proofs here:
   the model must still run when a proof breaks. *)
From Coq Require Import List Arith ZArith Bool.
Import ListNotations.

Definition key := nat.                       (* harness-assigned id of a candidate tuple *)
Definition al := list (key * nat).           (* the module-global Counter, insertion order kept *)

Fixpoint get (s : al) (k : key) : nat :=
  match s with
  | [] => 0
  | (k', c) :: r => if Nat.eqb k k' then c else get r k
  end.

Fixpoint mem (s : al) (k : key) : bool :=
  match s with
  | [] => false
  | (k', _) :: r => if Nat.eqb k k' then true else mem r k
  end.

(* GLOBAL_PRIOR_COMB_COUNTS[combination] = 0 for the missing ones *)
Definition add_missing (s : al) (L : list key) : al :=
  fold_left (fun s k => if mem s k then s else s ++ [(k, 0)]) L s.

(* Python's sorted(..., key=f): stable *)
Fixpoint insert_by (f : key -> nat) (k : key) (l : list key) : list key :=
  match l with
  | [] => [k]
  | h :: t => if Nat.leb (f k) (f h) then k :: l else h :: insert_by f k t
  end.
Definition sort_by (f : key -> nat) (l : list key) : list key := fold_right (insert_by f) [] l.

(* len(L[:cap]) for a Python slice *)
Definition slice_len (len : nat) (cap : Z) : nat :=
  if (cap <? 0)%Z then Z.to_nat (Z.max 0 (Z.of_nat len + cap)) else Nat.min len (Z.to_nat cap).

Fixpoint incr (s : al) (k : key) : al :=
  match s with
  | [] => [(k, 1)]
  | (k', c) :: r => if Nat.eqb k k' then (k', S c) :: r else (k', c) :: incr r k
  end.

Definition step (s : al) (L : list key) (cap : Z) : list key * al :=
  match L with
  | [] => ([], s)
  | _ => let s1 := add_missing s L in
         let sel := firstn (slice_len (length L) cap) (sort_by (get s1) L) in
         (sel, fold_left incr sel s1)
  end.

(* a history of calls: (candidates, cap) *)
Definition op := (list key * Z)%type.
Fixpoint run (s : al) (ops : list op) : list (list key * al) :=
  match ops with
  | [] => []
  | (L, cap) :: r => let '(sel, s') := step s L cap in (sel, s') :: run s' r
  end.

(* ---- the relation, over counters read as total functions (default 0) ---- *)
Definition state := key -> nat.

Record valid_step (st : state) (L : list key) (cap : Z) (sel : list key) (st' : state) : Prop := {
  vs_sub : forall k, count_occ Nat.eq_dec sel k <= count_occ Nat.eq_dec L k;
  vs_len : length sel = slice_len (length L) cap;
  vs_least : forall a b, In a sel -> count_occ Nat.eq_dec sel b < count_occ Nat.eq_dec L b -> st a <= st b;
  vs_state : forall k, st' k = st k + count_occ Nat.eq_dec sel k
}.

(* ---- its boolean checker, run on what the implementation returned ---- *)
Definition cnt (l : list key) (k : key) : nat := count_occ Nat.eq_dec l k.

Definition valid_stepb (s : al) (L : list key) (cap : Z) (sel : list key) (s' : al) : bool :=
  let dom := map fst s ++ map fst s' ++ L ++ sel in
  forallb (fun k => Nat.leb (cnt sel k) (cnt L k)) sel
  && Nat.eqb (length sel) (slice_len (length L) cap)
  && forallb (fun a => forallb (fun b => negb (Nat.ltb (cnt sel b) (cnt L b)) || Nat.leb (get s a) (get s b)) L) sel
  && forallb (fun k => Nat.eqb (get s' k) (get s k + cnt sel k)) dom.

(* whole histories: the implementation's (returned list, counter) after every call *)
Fixpoint valid_runb (s : al) (ops : list op) (obs : list (list key * al)) : bool :=
  match ops, obs with
  | [], [] => true
  | (L, cap) :: r, (sel, s') :: o => valid_stepb s L cap sel s' && valid_runb s' r o
  | _, _ => false
  end.

Fixpoint nodupb (l : list key) : bool :=
  match l with [] => true | h :: t => negb (existsb (Nat.eqb h) t) && nodupb t end.

(* property-level clauses on a history over one stable duplicate-free list *)
Definition fairb (L : list key) (s : al) : bool :=
  forallb (fun a => forallb (fun b => Nat.leb (get s a) (S (get s b))) L) L.

(* per-step verdicts, so a failing history can be cut to its shortest failing prefix *)
Fixpoint steps_ok (s : al) (ops : list op) (obs : list (list key * al)) : list bool :=
  match ops, obs with
  | (L, cap) :: r, (sel, s') :: o => valid_stepb s L cap sel s' :: steps_ok s' r o
  | _, _ => []
  end.

(* ---- judging a call site by the selections it actually made (round 4: a call site that does not persist its counts,
   a report that merges two candidate spaces).  [sel_count] is the number of selections of [k] so far; [derived_obs] pairs
   every selection with the counts the selections themselves imply, so that [valid_runb] compares every step with the true
   history whatever the implementation stored; [reportb] holds a reported table to the selections. ---- *)
Definition sel_count (sels : list (list key)) (k : key) : nat := list_sum (map (fun sel => cnt sel k) sels).

Fixpoint derived_obs (s : al) (sels : list (list key)) : list (list key * al) :=
  match sels with
  | [] => []
  | sel :: r => let s' := fold_left incr sel s in (sel, s') :: derived_obs s' r
  end.

Definition reportb (sels : list (list key)) (rep : al) : bool :=
  forallb (fun k => Nat.eqb (get rep k) (sel_count sels k)) (map fst rep ++ concat sels).

(* ---- the constants of prior_combinations_sample as parameters (read from the source on every run by
   tools/translate_c07.py): sort direction, offset added to the cap in the slice, increment per selection, count given
   to a combination seen for the first time.  [pstep false 0 1 0] is [step] (SamplerProofs.pstep_default). ---- *)
Fixpoint insert_by_desc (f : key -> nat) (k : key) (l : list key) : list key :=
  match l with
  | [] => [k]
  | h :: t => if Nat.leb (f h) (f k) then k :: l else h :: insert_by_desc f k t
  end.
Definition sort_by_desc (f : key -> nat) (l : list key) : list key := fold_right (insert_by_desc f) [] l.

Fixpoint incr_by (n : nat) (s : al) (k : key) : al :=
  match s with
  | [] => [(k, n)]
  | (k', c) :: r => if Nat.eqb k k' then (k', n + c) :: r else (k', c) :: incr_by n r k
  end.

Definition add_missing_with (i : nat) (s : al) (L : list key) : al :=
  fold_left (fun s k => if mem s k then s else s ++ [(k, i)]) L s.

Definition pstep (rev : bool) (off : Z) (inc init : nat) (s : al) (L : list key) (cap : Z) : list key * al :=
  match L with
  | [] => ([], s)
  | _ => let s1 := add_missing_with init s L in
         let sorted := if rev then sort_by_desc (get s1) L else sort_by (get s1) L in
         let sel := firstn (slice_len (length L) (cap + off)) sorted in
         (sel, fold_left (incr_by inc) sel s1)
  end.

Fixpoint prun (rev : bool) (off : Z) (inc init : nat) (s : al) (ops : list op) : list (list key * al) :=
  match ops with
  | [] => []
  | (L, cap) :: r => let '(sel, s') := pstep rev off inc init s L cap in (sel, s') :: prun rev off inc init s' r
  end.
