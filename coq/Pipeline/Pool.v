(* C09 — the worker pool as used by mixed_rank_graph:  results = pool.amap(scorer, combinations).
   Model only; proofs are in PoolProofs.v.

   Tasks are split over w >= 1 workers (each worker owns a sequence of task indices: its chunks, in the order it
   processes them); the workers' completions interleave arbitrarily; a completed task's result is stored in the
   slot of its task index (this is the contract of the order-preserving asynchronous map).  An "unordered"
   collection (results in completion order) is modelled as well: the triplets carry their names, so the
   aggregated table does not depend on it either. *)
From Coq Require Import List Arith NArith ZArith Bool.
From Outrank Require Import Pipeline.Aggregate.
Import ListNotations.

Section Pool.
  Context {T R : Type}.
  Variable f : T -> R.          (* the per-combination scorer: a function (purity is the assumption the harness tests) *)

  Fixpoint upd {X} (i : nat) (x : X) (l : list X) : list X :=
    match l, i with
    | [], _ => []
    | _ :: r, O => x :: r
    | y :: r, S j => y :: upd j x r
    end.

  (* one completion event: task i finishes, its result goes to slot i *)
  Definition complete (tasks : list T) (slots : list (option R)) (i : nat) : list (option R) :=
    match nth_error tasks i with
    | Some t => upd i (Some (f t)) slots
    | None => slots
    end.

  (* the slots after the completion events [sched] (task indices in completion order) *)
  Definition collect (tasks : list T) (sched : list nat) : list (option R) :=
    fold_left (complete tasks) sched (repeat None (length tasks)).

  (* results.get(): defined once every slot is filled *)
  Fixpoint all_some (l : list (option R)) : option (list R) :=
    match l with
    | [] => Some []
    | Some x :: r => match all_some r with Some xs => Some (x :: xs) | None => None end
    | None :: _ => None
    end.
  Definition amap (tasks : list T) (sched : list nat) : option (list R) := all_some (collect tasks sched).

  (* a collection that appends results in completion order instead (an unordered map) *)
  Definition collect_unordered (tasks : list T) (sched : list nat) : list R :=
    flat_map (fun i => match nth_error tasks i with Some t => [f t] | None => [] end) sched.
End Pool.

(* an interleaving of the workers' sequences *)
Inductive interleave {A} : list (list A) -> list A -> Prop :=
| il_done : forall ws, Forall (fun w => w = []) ws -> interleave ws []
| il_step : forall ws1 x w ws2 s, interleave (ws1 ++ w :: ws2) s -> interleave (ws1 ++ (x :: w) :: ws2) (x :: s).

(* every task index 0..n-1 is owned by exactly one worker *)
Definition assignment (n : nat) (ws : list (list nat)) : Prop := Permutation.Permutation (concat ws) (seq 0 n).

(* an executable split: consecutive chunks of size c dealt round-robin to w workers (what a chunked map does) *)
Fixpoint chunk_fuel {A} (fuel c : nat) (l : list A) : list (list A) :=
  match fuel with
  | O => []
  | S k => match l with [] => [] | _ => firstn c l :: chunk_fuel k c (skipn c l) end
  end.
Definition chunk_list {A} (c : nat) (l : list A) : list (list A) := chunk_fuel (length l) (Nat.max 1 c) l.

Fixpoint deal {A} (items : list (list A)) (ws : list (list A)) : list (list A) :=
  match items with
  | [] => ws
  | it :: r => match ws with [] => [] | w :: ws' => deal r (ws' ++ [w ++ it]) end
  end.
Definition split_workers (w c n : nat) : list (list nat) := deal (chunk_list c (seq 0 n)) (repeat [] (Nat.max 1 w)).

(* boolean checkers for recorded schedules *)
Definition perm_seqb (sched : list nat) (n : nat) : bool :=
  list_eqb Nat.eqb (isort Nat.leb sched) (seq 0 n).

Fixpoint take_head (x : nat) (ws : list (list nat)) : option (list (list nat)) :=
  match ws with
  | [] => None
  | (y :: w) :: r => if Nat.eqb x y then Some (w :: r)
                     else match take_head x r with Some r' => Some ((y :: w) :: r') | None => None end
  | [] :: r => match take_head x r with Some r' => Some ([] :: r') | None => None end
  end.
Fixpoint interleaveb (ws : list (list nat)) (s : list nat) : bool :=
  match s with
  | [] => forallb (fun w => match w with [] => true | _ => false end) ws
  | x :: r => match take_head x ws with Some ws' => interleaveb ws' r | None => false end
  end.
Definition schedule_okb (n : nat) (ws : list (list nat)) (sched : list nat) : bool :=
  perm_seqb (concat ws) n && interleaveb ws sched.

(* ---------------------------------------------------------------------------------------------------------- *)
(* one batch of mixed_rank_graph, and a whole run *)

Definition triplet := Aggregate.row.
(* for triplet in triplets: append the mirrored triplet, then the triplet *)
Definition mirror (l : list triplet) : list triplet :=
  flat_map (fun t => [((snd (fst t), fst (fst t)), snd t); t]) l.

Section Run.
  Context {T : Type}.
  Variable scorer : T -> triplet.

  Definition batch_rows_ordered (combos : list T) (sched : list nat) : option (list triplet) :=
    match amap scorer combos sched with Some res => Some (mirror res) | None => None end.
  Definition batch_rows_unordered (combos : list T) (sched : list nat) : list triplet :=
    mirror (collect_unordered scorer combos sched).
  Definition batch_rows_serial (combos : list T) : list triplet := mirror (map scorer combos).
End Run.

(* ---------------------------------------------------------------------------------------------------------- *)
(* what the harness evaluates on recorded runs *)

(* the rows two runs produced are the same multiset / give the same final table *)
Definition same_multisetb (rowsA rowsB : list triplet) : bool :=
  list_eqb row_eqb (isort row_canon_leb rowsA) (isort row_canon_leb rowsB).
Definition same_final_tableb (rowsA rowsB : list triplet) : bool :=
  list_eqb row_eqb (final_table rowsA) (final_table rowsB).
(* a recorded amap call of a harness pool: number of tasks, the workers' sequences, the completion order *)
Definition C09_schedules_ok (calls : list (nat * list (list nat) * list nat)) : list bool :=
  map (fun c => schedule_okb (fst (fst c)) (snd (fst c)) (snd c)) calls.
