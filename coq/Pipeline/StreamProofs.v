(* C08 — proofs about the streaming loop model of Pipeline/Stream.v *)
From Coq Require Import List Arith NArith Lia Bool.
From Outrank Require Import Pipeline.Stream.
Import ListNotations.

Lemma filter_length_le {A} (f : A -> bool) l : length (filter f l) <= length l.
Proof. induction l as [|a l IH]; cbn; [lia|]. destruct (f a); cbn; lia. Qed.

Lemma filter_length_split {A} (f : A -> bool) l :
  length (filter f l) + length (filter (fun x => negb (f x)) l) = length l.
Proof. induction l as [|a l IH]; cbn; [reflexivity|]. destruct (f a); cbn; lia. Qed.

(* ---------------------------------------------------------------------------------------------------------- *)
(* chunks: the reference chunking is the unique decomposition into full chunks and a short remainder *)

Definition is_chunking {A} (B : nat) (l : list A) (full : list (list A)) (rest : list A) : Prop :=
  concat full ++ rest = l /\ Forall (fun b => length b = B) full /\ length rest < B.

Lemma chunks_fuel_spec {A} B : 0 < B -> forall fuel (l : list A), length l <= fuel ->
  is_chunking B l (fst (chunks_fuel fuel B l)) (snd (chunks_fuel fuel B l)).
Proof.
  intros HB. induction fuel as [|f IH]; intros l Hl.
  - destruct l; [|cbn in Hl; lia]. cbn. repeat split; auto.
  - cbn [chunks_fuel]. destruct (B <=? length l) eqn:E.
    + apply Nat.leb_le in E. cbn [fst snd].
      destruct (IH (skipn B l)) as (H1 & H2 & H3); [rewrite skipn_length; lia|].
      repeat split.
      * cbn [concat]. rewrite <- app_assoc, H1. apply firstn_skipn.
      * constructor; [rewrite firstn_length; lia|exact H2].
      * exact H3.
    + apply Nat.leb_gt in E. cbn. repeat split; auto.
Qed.

Theorem chunks_spec {A} B (l : list A) : 0 < B -> is_chunking B l (fst (chunks B l)) (snd (chunks B l)).
Proof. intros HB. apply chunks_fuel_spec; auto. Qed.

Lemma app_eq_len {A} (a b c d : list A) : length a = length b -> a ++ c = b ++ d -> a = b /\ c = d.
Proof.
  revert b. induction a as [|x a IH]; intros [|y b] Hl H; cbn in *; try discriminate; auto.
  injection H as -> H. destruct (IH b) as [-> ->]; auto.
Qed.

Theorem chunking_unique {A} B (l : list A) f1 r1 f2 r2 : 0 < B ->
  is_chunking B l f1 r1 -> is_chunking B l f2 r2 -> f1 = f2 /\ r1 = r2.
Proof.
  intros HB (E1 & F1 & L1) (E2 & F2 & L2). rewrite <- E1 in E2. clear E1 l. revert f2 E2 F2.
  induction f1 as [|b1 f1 IH]; intros f2 E2 F2.
  - destruct f2 as [|b2 f2]; [cbn in E2; auto|].
    exfalso. pose proof (Forall_inv F2) as Hb2. cbn beta in Hb2. cbn in E2. rewrite <- E2 in L1.
    rewrite <- app_assoc, app_length in L1. lia.
  - pose proof (Forall_inv F1) as Hb1. pose proof (Forall_inv_tail F1) as F1'. cbn beta in Hb1.
    destruct f2 as [|b2 f2].
    + exfalso. cbn in E2. rewrite E2 in L2. rewrite <- app_assoc, app_length in L2. lia.
    + pose proof (Forall_inv F2) as Hb2. pose proof (Forall_inv_tail F2) as F2'. cbn beta in Hb2.
      cbn [concat] in E2. rewrite <- !app_assoc in E2.
      destruct (app_eq_len b2 b1 _ _ (eq_trans Hb2 (eq_sym Hb1)) E2) as [-> E3].
      destruct (IH F1' f2 E3 F2') as [-> ->]. auto.
Qed.

(* ---------------------------------------------------------------------------------------------------------- *)
(* the positional reading of [selected] *)

Theorem selected_spec s lines : forall k0,
  selected s k0 lines = map snd (filter (fun p => N.eqb (N.modulo (fst p) s) 0) (number (N.succ k0) lines)).
Proof.
  induction lines as [|l r IH]; intros k0; [reflexivity|].
  cbn [selected number filter fst]. destruct (N.eqb (N.modulo (N.succ k0) s) 0); cbn [map snd]; rewrite IH; reflexivity.
Qed.

Lemma number_fst k lines : map fst (number k lines) = map (fun i => (k + N.of_nat i)%N) (seq 0 (length lines)).
Proof.
  revert k. induction lines as [|l r IH]; intros k; [reflexivity|].
  cbn [number map length seq fst]. f_equal; [lia|]. rewrite IH, <- seq_shift, map_map. apply map_ext. intros; lia.
Qed.
Lemma number_snd k lines : map snd (number k lines) = lines.
Proof. revert k. induction lines as [|l r IH]; intros k; cbn; [reflexivity|]. rewrite IH. reflexivity. Qed.

(* ---------------------------------------------------------------------------------------------------------- *)
(* the loop *)

Section Loop.
  Context {row table : Type}.
  Variable score : list line -> list row.
  Variable agg : list row -> table.
  Variable c : cfg.
  Hypothesis HB : 0 < cB c.

  Notation sst := (@sst row table).
  Notation sstep := (sstep score agg c).
  Notation run := (run score agg c).
  Notation flush := (flush score agg).

  (* what the accumulated rows and the checkpoints are, in terms of the batches emitted so far *)
  Definition rows_of (bs : list (list line)) : list row := concat (map score bs).
  Definition ckpts_of (bs : list (list line)) : list table :=
    map (fun k => agg (rows_of (firstn k bs))) (seq 1 (length bs)).
  Definition acc_inv (st : sst) : Prop := acc st = rows_of (emitted st) /\ ckpts st = ckpts_of (emitted st).

  Lemma rows_of_app bs b : rows_of (bs ++ [b]) = rows_of bs ++ score b.
  Proof. unfold rows_of. rewrite map_app, concat_app. cbn. rewrite app_nil_r. reflexivity. Qed.

  Lemma ckpts_of_app bs b : ckpts_of (bs ++ [b]) = ckpts_of bs ++ [agg (rows_of (bs ++ [b]))].
  Proof.
    unfold ckpts_of. rewrite app_length. cbn [length]. rewrite Nat.add_1_r, seq_S, map_app. cbn [map]. f_equal.
    - apply map_ext_in. intros k Hk. apply in_seq in Hk. rewrite firstn_app.
      replace (k - length bs) with 0 by lia. cbn. rewrite app_nil_r. reflexivity.
    - cbn [plus]. rewrite firstn_all2; [reflexivity|]. rewrite app_length. cbn. lia.
  Qed.

  Lemma flush_inv st b : acc_inv st -> acc_inv (flush st b).
  Proof.
    intros [Ha Hc]. unfold acc_inv, flush. cbn [acc ckpts emitted]. rewrite rows_of_app, ckpts_of_app, rows_of_app, Ha, Hc. auto.
  Qed.

  Lemma sstep_inv st l : acc_inv st -> acc_inv (sstep st l).
  Proof.
    intros H. unfold Stream.sstep.
    destruct (negb _); [exact H|].
    destruct (wf c l).
    - destruct (cB c <=? _); [apply flush_inv|]; exact H.
    - destruct (cB c <=? _); [apply flush_inv|]; exact H.
  Qed.

  Lemma run_inv lines : forall st, acc_inv st -> acc_inv (run st lines).
  Proof. induction lines as [|l r IH]; intros st H; [exact H|]. cbn. apply IH, sstep_inv, H. Qed.

  (* step equations *)
  Lemma sstep_skip st l : N.eqb (N.modulo (N.succ (counter st)) (cs c)) 0 = false ->
    sstep st l = mk (N.succ (counter st)) (buf st) (emitted st) (invalid st) (acc st) (ckpts st).
  Proof. intros E. unfold Stream.sstep. rewrite E. reflexivity. Qed.

  Lemma sstep_bad st l : N.eqb (N.modulo (N.succ (counter st)) (cs c)) 0 = true -> wf c l = false ->
    length (buf st) < cB c ->
    sstep st l = mk (N.succ (counter st)) (buf st) (emitted st) (S (invalid st)) (acc st) (ckpts st).
  Proof.
    intros E W Hb. unfold Stream.sstep. rewrite E, W. cbn [negb buf].
    replace (cB c <=? length (buf st)) with false by (symmetry; apply Nat.leb_gt; exact Hb). reflexivity.
  Qed.

  Lemma sstep_keep st l : N.eqb (N.modulo (N.succ (counter st)) (cs c)) 0 = true -> wf c l = true ->
    (cB c <=? length (buf st ++ [l])) = false ->
    sstep st l = mk (N.succ (counter st)) (buf st ++ [l]) (emitted st) (invalid st) (acc st) (ckpts st).
  Proof. intros E W F. unfold Stream.sstep. rewrite E, W. cbn [negb buf]. rewrite F. reflexivity. Qed.

  Lemma sstep_emit st l : N.eqb (N.modulo (N.succ (counter st)) (cs c)) 0 = true -> wf c l = true ->
    (cB c <=? length (buf st ++ [l])) = true ->
    emitted (sstep st l) = emitted st ++ [buf st ++ [l]] /\ buf (sstep st l) = [] /\
    counter (sstep st l) = N.succ (counter st) /\ invalid (sstep st l) = invalid st.
  Proof. intros E W F. unfold Stream.sstep. rewrite E, W. cbn [negb buf]. rewrite F. cbn. auto. Qed.

  (* the loop is the fold of [push] over the selected well-formed lines; counter; invalid count *)
  Theorem run_spec lines : forall st, length (buf st) < cB c ->
    let st' := run st lines in
    (emitted st', buf st') = fold_left (push (cB c)) (good c (counter st) lines) (emitted st, buf st)
    /\ counter st' = (counter st + N.of_nat (length lines))%N
    /\ invalid st' = invalid st + (length (selected (cs c) (counter st) lines) - length (good c (counter st) lines))
    /\ length (buf st') < cB c.
  Proof.
    induction lines as [|l r IH]; intros st Hb; cbn zeta.
    - cbn. repeat split; try lia.
    - cbn [Stream.run fold_left]. change (fold_left sstep r ?x) with (run x r).
      unfold good. cbn [selected].
      pose proof (filter_length_le (wf c) (selected (cs c) (N.succ (counter st)) r)) as Hfl.
      destruct (N.eqb (N.modulo (N.succ (counter st)) (cs c)) 0) eqn:Esel.
      + cbn [filter]. destruct (wf c l) eqn:Ewf.
        * cbn [fold_left]. unfold push at 2. cbn [fst snd].
          destruct (cB c <=? length (buf st ++ [l])) eqn:Efull.
          -- destruct (sstep_emit st l Esel Ewf Efull) as (Ee & Ebf & Ec & Ei).
             specialize (IH (sstep st l)). rewrite Ee, Ebf, Ec, Ei in IH.
             destruct IH as (H1 & H2 & H3 & H4); [cbn; lia|]. unfold good in *.
             repeat split; try assumption; cbn [length]; lia.
          -- rewrite (sstep_keep st l Esel Ewf Efull). apply Nat.leb_gt in Efull.
             specialize (IH (mk (N.succ (counter st)) (buf st ++ [l]) (emitted st) (invalid st) (acc st) (ckpts st))).
             cbn [counter buf emitted invalid] in IH. destruct IH as (H1 & H2 & H3 & H4); [exact Efull|]. unfold good in *.
             repeat split; try assumption; cbn [length]; lia.
        * rewrite (sstep_bad st l Esel Ewf Hb).
          specialize (IH (mk (N.succ (counter st)) (buf st) (emitted st) (S (invalid st)) (acc st) (ckpts st))).
          cbn [counter buf emitted invalid] in IH. destruct IH as (H1 & H2 & H3 & H4); [exact Hb|]. unfold good in *.
          repeat split; try assumption; cbn [length]; lia.
      + rewrite (sstep_skip st l Esel).
        specialize (IH (mk (N.succ (counter st)) (buf st) (emitted st) (invalid st) (acc st) (ckpts st))).
        cbn [counter buf emitted invalid] in IH. destruct IH as (H1 & H2 & H3 & H4); [exact Hb|]. unfold good in *.
        repeat split; try assumption; cbn [length]; lia.
  Qed.

  (* that fold really is "consecutive chunks of size B, remainder < B, order preserved" *)
  Theorem push_chunks g : forall em bf, length bf < cB c ->
    let r := fold_left (push (cB c)) g (em, bf) in
    concat (fst r) ++ snd r = concat em ++ bf ++ g
    /\ (Forall (fun b => length b = cB c) em -> Forall (fun b => length b = cB c) (fst r))
    /\ length (snd r) < cB c.
  Proof.
    induction g as [|x g IH]; intros em bf Hb; cbn zeta.
    - cbn. rewrite app_nil_r. auto.
    - cbn [fold_left].
      destruct (cB c <=? length (bf ++ [x])) eqn:E.
      + assert (Ep : push (cB c) (em, bf) x = (em ++ [bf ++ [x]], [])) by (unfold push; cbn [fst snd]; rewrite E; reflexivity).
        rewrite Ep. apply Nat.leb_le in E. rewrite app_length in E. cbn in E.
        destruct (IH (em ++ [bf ++ [x]]) []) as (H1 & H2 & H3); [cbn; lia|].
        repeat split; [|intros Hall; apply H2; apply Forall_app; split; [exact Hall|constructor; [rewrite app_length; cbn; lia|constructor]]|exact H3].
        rewrite H1, concat_app. cbn. rewrite !app_nil_r, <- !app_assoc. reflexivity.
      + assert (Ep : push (cB c) (em, bf) x = (em, bf ++ [x])) by (unfold push; cbn [fst snd]; rewrite E; reflexivity).
        rewrite Ep. apply Nat.leb_gt in E.
        destruct (IH em (bf ++ [x])) as (H1 & H2 & H3); [exact E|].
        repeat split; [|exact H2|exact H3]. rewrite H1, <- !app_assoc. reflexivity.
  Qed.

  Notation stream := (stream score agg c).

  (* state after the loop, before the tail rule *)
  Lemma loop_chunks lines :
    emitted (run (init) lines) = fst (chunks (cB c) (good c 0 lines)) /\
    buf (run (init) lines) = snd (chunks (cB c) (good c 0 lines)).
  Proof.
    destruct (run_spec lines (@init row table)) as (H1 & _ & _ & H4); [cbn; exact HB|].
    cbn [counter emitted buf init] in H1.
    destruct (push_chunks (good c 0 lines) [] []) as (P1 & P2 & P3); [cbn; exact HB|].
    rewrite <- H1 in P1, P2, P3. cbn [fst snd concat app] in P1, P2, P3.
    destruct (chunking_unique (cB c) (good c 0 lines) _ _ _ _ HB (conj P1 (conj (P2 (Forall_nil _)) P3))
                (chunks_spec (cB c) (good c 0 lines) HB)) as [E1 E2].
    split; assumption.
  Qed.

  Theorem batches_spec lines : batches score agg c lines = reference_batches c lines.
  Proof.
    unfold batches, Stream.stream, reference_batches, finish.
    destruct (loop_chunks lines) as [E1 E2].
    destruct (run_spec lines (@init row table)) as (_ & _ & _ & H4); [cbn; exact HB|].
    cbn zeta in H4. rewrite E2. destruct (ctail c <? _).
    - cbn [flush emitted]. rewrite E1. rewrite firstn_all2; [reflexivity|]. rewrite <- E2. lia.
    - rewrite E1, app_nil_r. reflexivity.
  Qed.

  Theorem invalid_spec lines :
    invalid_count score agg c lines = length (filter (fun l => negb (wf c l)) (selected (cs c) 0 lines)).
  Proof.
    unfold invalid_count, Stream.stream, finish.
    destruct (run_spec lines (@init row table)) as (_ & _ & H3 & _); [cbn; exact HB|].
    cbn zeta in H3. cbn [invalid counter init] in H3.
    assert (E : invalid (run init lines) = length (filter (fun l => negb (wf c l)) (selected (cs c) 0 lines))).
    { rewrite H3. unfold good. pose proof (filter_length_split (wf c) (selected (cs c) 0 lines)). lia. }
    destruct (ctail c <? _); [cbn [flush invalid]|]; exact E.
  Qed.

  Lemma stream_inv lines : acc_inv (stream lines).
  Proof.
    unfold Stream.stream, finish. assert (H : acc_inv (run init lines)) by (apply run_inv; split; reflexivity).
    destruct (ctail c <? _); [apply flush_inv|]; exact H.
  Qed.

  (* all accumulated rows = the rows of the batches, in order *)
  Theorem all_rows_spec lines : all_rows score agg c lines = concat (map score (batches score agg c lines)).
  Proof. apply stream_inv. Qed.

  (* the checkpoint written after batch k+1 is the aggregation of the rows of the first k+1 batches *)
  Theorem checkpoints_spec lines :
    length (checkpoints score agg c lines) = length (batches score agg c lines) /\
    forall k, k < length (batches score agg c lines) ->
      nth_error (checkpoints score agg c lines) k =
      Some (agg (concat (map score (firstn (S k) (batches score agg c lines))))).
  Proof.
    destruct (stream_inv lines) as [_ Hc]. unfold checkpoints, batches. rewrite Hc. unfold ckpts_of. split.
    - rewrite map_length, seq_length. reflexivity.
    - intros k Hk. change (agg (concat (map score (firstn (S k) (emitted (stream lines))))))
        with ((fun k => agg (rows_of (firstn k (emitted (stream lines))))) (S k)). apply map_nth_error.
      rewrite (nth_error_nth' _ 0) by (rewrite seq_length; exact Hk). rewrite seq_nth by exact Hk. reflexivity.
  Qed.
End Loop.
