(* C08 — the case / model / checker interface the harness evaluates (DESIGN Appendix C).  Model only. *)
From Coq Require Import List Arith NArith ZArith Bool.
From Outrank Require Import Common.Median Pipeline.Stream Pipeline.Aggregate.
Import ListNotations.

(* One generated file and what the implementation's scorer returned on it:
   - the configuration (B, s, number of header columns, tail constant);
   - the data lines, run-length coded as (count, number of parsed fields); ids are the 1-based positions;
   - the triplets returned by compute_batch_ranking for each batch, keyed by the id of the batch's first row
     (their correctness is C05's business); names are numbers, scores are integers (one power-of-two scale per case). *)
Record C08_case := mkcase { k_cfg : cfg; k_segs : list (N * nat); k_rows : list (N * list row) }.

Definition score_of (tbl : list (N * list row)) (b : list line) : list row :=
  match b with
  | [] => []
  | (id, _) :: _ => match find (fun p => N.eqb (fst p) id) tbl with Some p => snd p | None => [] end
  end.

(* observable: batches (ids), invalid-line count, checkpoint tables after each batch, final sorted table.
   Table scores are TWICE the (scaled) score, because the model's aggregate is [median2]. *)
Definition C08_obs := (list (list N) * nat * list table * table)%type.

Definition C08_model (k : C08_case) : C08_obs :=
  let st := stream (score_of (k_rows k)) aggregate (k_cfg k) (decode_lines (k_segs k)) in
  (map (map fst) (emitted st), invalid st, ckpts st, final_sort (aggregate (acc st))).

(* |a - b| <= 2^-52 * max(|a|, |b|) over the integers: at most one unit in the last place of a binary64.
   Odd group sizes are exact (the median is one of the scores); for even sizes pandas returns fl((x + y) / 2): the sum
   is rounded once (<= 2^-53 relative), halving is exact. *)
Definition close2 (a b : Z) : bool :=
  (Z.abs (a - b) * 4503599627370496 <=? Z.max (Z.abs a) (Z.abs b))%Z.
Definition row_close (r1 r2 : row) : bool := key_eqb (fst r1) (fst r2) && close2 (snd r1) (snd r2).
(* same ordered pairs, each once per table row, scores within the tolerance (row order of the tables is free) *)
Definition table_close (t1 t2 : table) : bool :=
  list_eqb row_close (isort row_canon_leb t1) (isort row_canon_leb t2).

Record C08_verdict := mkverdict {
  v_batches : bool;          (* consumed rows / batch boundaries / tail rule *)
  v_invalid : bool;          (* count of skipped rows *)
  v_nckpt : bool;            (* one checkpoint per batch *)
  v_ckpts : list bool;       (* checkpoint k = median aggregation of the first k batches *)
  v_sorted : bool;           (* final table ascending *)
  v_final : bool;            (* final table = median aggregation of all rows of all batches *)
  v_uniform : list bool;     (* within one batch all rows of an ordered pair carry one score *)
  v_per_batch : bool         (* final table = median of the PER-BATCH scores (one score per batch and ordered pair) *)
}.

(* the property's clauses, evaluated on what the implementation produced, against the REFERENCE semantics
   (not against the loop model: the theorems of Props/C08.v say the two agree) *)
Definition C08_check (k : C08_case) (o : C08_obs) : C08_verdict :=
  let '(obatches, oinvalid, ockpts, ofinal) := o in
  let c := k_cfg k in
  let lines := decode_lines (k_segs k) in
  let ref := reference_batches c lines in
  let score := score_of (k_rows k) in
  mkverdict
    (list_eqb (list_eqb N.eqb) obatches (map (map fst) ref))
    (Nat.eqb oinvalid (length (filter (fun l => negb (wf c l)) (selected (cs c) 0 lines))))
    (Nat.eqb (length ockpts) (length ref))
    (map (fun j => table_close (aggregate (concat (map score (firstn (S j) ref)))) (nth j ockpts [])) (seq 0 (length ref)))
    (sortedb (map snd ofinal))
    (table_close (aggregate (concat (map score ref))) ofinal)
    (map (fun b => batch_uniformb (score b)) ref)
    (table_close (aggregate (concat (map (fun b => batch_once (score b)) ref))) ofinal).

Definition verdict_ok (v : C08_verdict) : bool :=
  v_batches v && v_invalid v && v_nckpt v && forallb (fun b => b) (v_ckpts v) && v_sorted v && v_final v
  && forallb (fun b => b) (v_uniform v) && v_per_batch v.

(* flat encodings so that the printed term is digits, brackets and booleans only *)
Definition enc_table (t : table) : list (N * N * Z) := map (fun r => (fst (fst r), snd (fst r), snd r)) t.
Definition enc_obs (o : C08_obs) :=
  let '(b, i, c, f) := o in (b, i, map enc_table c, enc_table f).
Definition enc_verdict (v : C08_verdict) :=
  (v_batches v, v_invalid v, v_nckpt v, v_ckpts v, v_sorted v, v_final v, v_uniform v, v_per_batch v).

(* what the harness prints per case: does the loop model consume the same batches as the implementation did,
   the model's invalid count, checkpoints and final table (small), and the verdict of the checker *)
Definition C08_eval (k : C08_case) (o : C08_obs) :=
  let m := C08_model k in
  let '(mb, mi, mc, mf) := m in
  (list_eqb (list_eqb N.eqb) mb (fst (fst (fst o))), mi, map enc_table mc, enc_table mf, enc_verdict (C08_check k o)).
