(* C08/C09 — median aggregation of the per-batch triplets (get_grouped_df) and the final sort
   (outrank_task_conduct_ranking).  Model only; proofs are in AggregateProofs.v.

   A triplet is ((A, B), score): feature names are abstracted to numbers by the harness (the rank of the name
   among the sorted names, so that the key order below is the order pandas' groupby uses), scores are exact
   integers (every float is m*2^e; the harness scales one case by a single power of two).
   The aggregate score is [median2] = twice the median (Common/Median.v), which keeps everything in Z. *)
From Coq Require Import List ZArith NArith Bool.
From Outrank Require Import Common.Median.
Import ListNotations.

Definition key := (N * N)%type.
Definition row := (key * Z)%type.
Definition table := list row.

(* generic stable insertion sort *)
Section ISort.
  Context {A : Type} (leb : A -> A -> bool).
  Fixpoint ins (x : A) (l : list A) : list A :=
    match l with [] => [x] | y :: r => if leb x y then x :: l else y :: ins x r end.
  Definition isort (l : list A) : list A := fold_right ins [] l.
End ISort.

Definition key_eqb (k1 k2 : key) : bool := N.eqb (fst k1) (fst k2) && N.eqb (snd k1) (snd k2).
Definition key_leb (k1 k2 : key) : bool :=
  N.ltb (fst k1) (fst k2) || (N.eqb (fst k1) (fst k2) && N.leb (snd k1) (snd k2)).
Definition key_eq_dec (k1 k2 : key) : {k1 = k2} + {k1 <> k2}.
Proof. decide equality; apply N.eq_dec. Defined.

(* the scores recorded for an ordered pair, in row order *)
Definition scores_of (k : key) (rows : list row) : list Z :=
  map snd (filter (fun r => key_eqb (fst r) k) rows).

(* the distinct ordered pairs, in key order *)
Definition keys (rows : list row) : list key := isort key_leb (nodup key_eq_dec (map fst rows)).

(* groupby(['FeatureA','FeatureB']).median(): one row per ordered pair, score = (twice) the median *)
Definition aggregate (rows : list row) : table :=
  map (fun k => (k, median2 (scores_of k rows))) (keys rows).

Definition lookup (k : key) (t : table) : option Z :=
  match find (fun r => key_eqb (fst r) k) t with Some r => Some (snd r) | None => None end.

(* triplets.sort_values(by=['Score']) *)
Definition row_leb (r1 r2 : row) : bool := Z.leb (snd r1) (snd r2).
Definition final_sort (t : table) : table := isort row_leb t.

Definition final_table (rows : list row) : table := final_sort (aggregate rows).

(* the mean, for contrast in the notes/mutation tests only (n * mean) *)
Definition sum_scores (k : key) (rows : list row) : Z := fold_right Z.add 0%Z (scores_of k rows).

(* ---------------------------------------------------------------------------------------------------------- *)
(* boolean checkers for implementation outputs *)

Definition row_eqb (r1 r2 : row) : bool := key_eqb (fst r1) (fst r2) && Z.eqb (snd r1) (snd r2).
Fixpoint list_eqb {A} (eqb : A -> A -> bool) (l1 l2 : list A) : bool :=
  match l1, l2 with
  | [], [] => true
  | x :: r1, y :: r2 => eqb x y && list_eqb eqb r1 r2
  | _, _ => false
  end.
Fixpoint sortedb (l : list Z) : bool :=
  match l with
  | x :: ((y :: _) as r) => Z.leb x y && sortedb r
  | _ => true
  end.
(* canonical order of a table: by key, then score *)
Definition row_canon_leb (r1 r2 : row) : bool :=
  if key_eqb (fst r1) (fst r2) then Z.leb (snd r1) (snd r2) else key_leb (fst r1) (fst r2).
(* a written table is acceptable for an aggregate [t]: ascending scores and the same rows as a multiset *)
Definition final_okb (t out : table) : bool :=
  sortedb (map snd out) && list_eqb row_eqb (isort row_canon_leb out) (isort row_canon_leb t).
