(* C08/C09 — median aggregation of the per-batch triplets (get_grouped_df) and the final sort
   (outrank_task_conduct_ranking).  Model only; proofs are in AggregateProofs.v.

   A triplet is ((A, B), score): feature names are abstracted to numbers by the harness (the rank of the name
   among the sorted names, so that the key order below is the order pandas' groupby uses), scores are exact
   integers (every float is m*2^e; the harness scales one case by a single power of two).
   The aggregate score is [median2] = twice the median (Common/Median.v), which keeps everything in Z. *)
From Coq Require Import List ZArith NArith Bool.
From Outrank Require Import Common.Median.
Import ListNotations.

Definition key := (N * N)%type.
Definition row := (key * Z)%type.
Definition table := list row.

(* generic stable insertion sort *)
Section ISort.
  Context {A : Type} (leb : A -> A -> bool).
  Fixpoint ins (x : A) (l : list A) : list A :=
    match l with [] => [x] | y :: r => if leb x y then x :: l else y :: ins x r end.
  Definition isort (l : list A) : list A := fold_right ins [] l.
End ISort.

Definition key_eqb (k1 k2 : key) : bool := N.eqb (fst k1) (fst k2) && N.eqb (snd k1) (snd k2).
Definition key_leb (k1 k2 : key) : bool :=
  N.ltb (fst k1) (fst k2) || (N.eqb (fst k1) (fst k2) && N.leb (snd k1) (snd k2)).
Definition key_eq_dec (k1 k2 : key) : {k1 = k2} + {k1 <> k2}.
Proof. decide equality; apply N.eq_dec. Defined.

(* the scores recorded for an ordered pair, in row order *)
Definition scores_of (k : key) (rows : list row) : list Z :=
  map snd (filter (fun r => key_eqb (fst r) k) rows).

(* the distinct ordered pairs, in key order *)
Definition keys (rows : list row) : list key := isort key_leb (nodup key_eq_dec (map fst rows)).

(* groupby(['FeatureA','FeatureB']).median(): one row per ordered pair, score = (twice) the median *)
Definition aggregate (rows : list row) : table :=
  map (fun k => (k, median2 (scores_of k rows))) (keys rows).

Definition lookup (k : key) (t : table) : option Z :=
  match find (fun r => key_eqb (fst r) k) t with Some r => Some (snd r) | None => None end.

(* triplets.sort_values(by=['Score']) *)
Definition row_leb (r1 r2 : row) : bool := Z.leb (snd r1) (snd r2).
Definition final_sort (t : table) : table := isort row_leb t.

Definition final_table (rows : list row) : table := final_sort (aggregate rows).

(* the mean, for contrast in the notes/mutation tests only (n * mean) *)
Definition sum_scores (k : key) (rows : list row) : Z := fold_right Z.add 0%Z (scores_of k rows).

(* ---------------------------------------------------------------------------------------------------------- *)
(* per-batch view (theorems in PerBatch.v): one score per batch and ordered pair *)
Definition mrep (m : nat) (l : list Z) : list Z := flat_map (fun z => repeat z m) l.

(* the score a batch records for pair k (none if the batch did not evaluate k) *)
Definition batch_score (k : key) (b : list row) : list Z :=
  match scores_of k b with [] => [] | z :: _ => [z] end.
Definition per_batch_scores (k : key) (brs : list (list row)) : list Z := flat_map (batch_score k) brs.

(* every batch either has no row for k or exactly m rows for k, all with one score *)
Definition uniform_batches (m : nat) (k : key) (brs : list (list row)) : Prop :=
  Forall (fun b => scores_of k b = [] \/ exists z, scores_of k b = repeat z m) brs.

(* one row per ordered pair of a batch (its first score), and the check that this loses nothing *)
Definition batch_once (b : list row) : list row := map (fun k => (k, hd 0%Z (scores_of k b))) (keys b).
Definition batch_uniformb (b : list row) : bool :=
  forallb (fun r => forallb (fun r' => negb (key_eqb (fst r) (fst r')) || Z.eqb (snd r) (snd r')) b) b.


(* ---------------------------------------------------------------------------------------------------------- *)
(* boolean checkers for implementation outputs *)

Definition row_eqb (r1 r2 : row) : bool := key_eqb (fst r1) (fst r2) && Z.eqb (snd r1) (snd r2).
Fixpoint list_eqb {A} (eqb : A -> A -> bool) (l1 l2 : list A) : bool :=
  match l1, l2 with
  | [], [] => true
  | x :: r1, y :: r2 => eqb x y && list_eqb eqb r1 r2
  | _, _ => false
  end.
Fixpoint sortedb (l : list Z) : bool :=
  match l with
  | x :: ((y :: _) as r) => Z.leb x y && sortedb r
  | _ => true
  end.
(* canonical order of a table: by key, then score *)
Definition row_canon_leb (r1 r2 : row) : bool :=
  if key_eqb (fst r1) (fst r2) then Z.leb (snd r1) (snd r2) else key_leb (fst r1) (fst r2).
(* a written table is acceptable for an aggregate [t]: ascending scores and the same rows as a multiset *)
Definition final_okb (t out : table) : bool :=
  sortedb (map snd out) && list_eqb row_eqb (isort row_canon_leb out) (isort row_canon_leb t).
