(* C05 — the value carried by every row of a batch, per heuristic tag (Pipeline/Scorers.v), tied to the MI theorems
   of MI/Proofs.v (imported read-only): plugin_identity (C01_plugin), corrected_identity (C03_identity),
   corrected_self (C03_self). *)
From Coq Require Import Reals List NArith ZArith QArith Qreals Bool Lia.
From Outrank Require Import Common.RSum MI.Model MI.Spec MI.Proofs.
From Outrank Require Import Pipeline.RankGraph Pipeline.RankGraphProofs Pipeline.Scorers.
Import ListNotations.
Close Scope Q_scope.

(* ---- columns of a well-formed frame ------------------------------------------------------------- *)

Lemma col_spec : forall (f : frame) name cells, NoDup (map fst f) -> In (name, cells) f -> col f name = cells.
Proof.
  unfold col. induction f as [|[n0 c0] f IH]; intros name cells ND Hin; simpl in *.
  - contradiction.
  - inversion ND as [|? ? Hn ND']; subst.
    destruct (seqb n0 name) eqn:E.
    + apply seqb_eq in E. subst. destruct Hin as [Hin|Hin].
      * injection Hin as <-. reflexivity.
      * exfalso. apply Hn. change name with (fst (name, cells)). apply in_map. exact Hin.
    + apply seqb_neq in E. destruct Hin as [Hin|Hin].
      * injection Hin as -> _. congruence.
      * apply IH; assumption.
Qed.

Lemma col_in : forall (f : frame) name, In name (map fst f) -> In (name, col f name) f.
Proof.
  unfold col. induction f as [|[n0 c0] f IH]; intros name Hin; simpl in *.
  - contradiction.
  - destruct (seqb n0 name) eqn:E.
    + apply seqb_eq in E. subst. left. reflexivity.
    + apply seqb_neq in E. destruct Hin as [Hin|Hin]; [congruence|]. right. apply IH. exact Hin.
Qed.

Lemma col_length : forall f n name, wf_frame f n -> In name (map fst f) -> length (col f name) = n.
Proof.
  intros f n name [_ [_ Hl]] Hin. apply (Hl (name, col f name)). apply col_in. exact Hin.
Qed.

(* ---- codes as integers --------------------------------------------------------------------------- *)

Lemma zc_length : forall l, length (zc l) = length l.
Proof. intros l. unfold zc. apply map_length. Qed.

Lemma zc_inj : forall a b, zc a = zc b -> a = b.
Proof.
  unfold zc. induction a as [|x a IH]; destruct b as [|y b]; simpl; intros E; try discriminate; auto.
  injection E as E1 E2. apply N2Z.inj in E1. subst. f_equal. auto.
Qed.

Lemma zcodes_length : forall f n name, wf_frame f n -> In name (map fst f) ->
  length (zc (codes (col f name))) = n.
Proof. intros. rewrite zc_length, codes_length. eapply col_length; eauto. Qed.

(* ---- rows ---------------------------------------------------------------------------------------- *)

Section RowValue.
  Variable disp : list N -> scorer.
  Variable isc : list N -> bool.

  (* Constant shortcut: exactly one row per evaluated combination, in the listed orientation, value 0 *)
  Lemma rows_for_const : forall h f lbl pairs, isc h = true ->
    rows_for disp isc h f lbl pairs = map (fun p => (fst p, snd p, Some 0%R)) pairs.
  Proof. intros h f lbl pairs E. unfold rows_for, rank_rows_h. rewrite E. reflexivity. Qed.

  Lemma rows_for_scored : forall h f lbl pairs, isc h = false ->
    rows_for disp isc h f lbl pairs = rank_rows (sem (disp h)) f lbl pairs.
  Proof. intros h f lbl pairs E. unfold rows_for, rank_rows_h. rewrite E. reflexivity. Qed.

  (* every row of a scored batch: an evaluated pair or its mirror, carrying the MEANING of the selected scorer on the
     codes of the two (existing, uniquely named) columns, the label conditioning whenever it is in the pair *)
  Lemma row_value : forall h f n lbl pairs a b x,
    wf_frame f n -> pairs_in f pairs -> isc h = false ->
    In (a, b, x) (rows_for disp isc h f lbl pairs) ->
    exists p F T cF cT,
      In p pairs /\ ((a, b) = p \/ (a, b) = (snd p, fst p)) /\
      (F, T) = orient lbl p /\ In (F, cF) f /\ In (T, cT) f /\
      length cF = n /\ length cT = n /\
      (fst p = lbl \/ snd p = lbl -> T = lbl) /\
      x = sem (disp h) (codes cF) (codes cT).
  Proof.
    intros h f n lbl pairs a b x WF PI E Hin.
    rewrite rows_for_scored in Hin by exact E.
    destruct (rank_rows_spec (sem (disp h)) f lbl pairs (a, b, x) Hin) as [a0 [b0 [Hp [Hrow [Hval Hor]]]]].
    destruct (PI _ Hp) as [Ha0 Hb0]. simpl in Ha0, Hb0.
    assert (HF : In (fst (orient lbl (a0, b0))) (map fst f) /\ In (snd (orient lbl (a0, b0))) (map fst f)).
    { destruct (orient_same_columns lbl a0 b0) as [-> | ->]; simpl; auto. }
    destruct HF as [HF HT].
    exists (a0, b0), (fst (orient lbl (a0, b0))), (snd (orient lbl (a0, b0))),
           (col f (fst (orient lbl (a0, b0)))), (col f (snd (orient lbl (a0, b0)))).
    repeat split.
    - exact Hp.
    - simpl. destruct Hrow as [Hrow|Hrow]; injection Hrow as -> -> _; auto.
    - destruct (orient lbl (a0, b0)); reflexivity.
    - apply col_in. exact HF.
    - apply col_in. exact HT.
    - eapply col_length; eauto.
    - eapply col_length; eauto.
    - simpl. exact Hor.
    - rewrite <- Hval. destruct Hrow as [Hrow|Hrow]; injection Hrow as _ _ ->; reflexivity.
  Qed.
End RowValue.

(* ---- what the tags mean, in the words of the property -------------------------------------------- *)

(* MI (sklearn, specified) and the numba estimator without correction: plug-in mutual information *)
Lemma sem_plugin : forall s F T, s = SkMI \/ s = NumbaMI false ->
  length F = length T -> (0 < length T)%nat ->
  sem s F T = Some (MI_plugin (zc F) (zc T)).
Proof.
  intros s F T [-> | ->] HL Hp; simpl; [reflexivity|].
  f_equal. apply plugin_identity; rewrite !zc_length; assumption.
Qed.

(* the corrected score: displaced-copy noise floor minus conditional entropy; entropy for identical code vectors *)
Lemma sem_corrected : forall F T, length F = length T -> (0 < length T)%nat ->
  (F <> T -> sem (NumbaMI true) F T = Some (Hcond (displace (zc F) (zc T)) (zc T) - Hcond (zc F) (zc T))%R) /\
  (F = T -> sem (NumbaMI true) F T = Some (Spec.H (zc F))).
Proof.
  intros F T HL Hp. split; intros E; simpl; f_equal.
  - apply corrected_identity; rewrite ?zc_length; auto. intros Z. apply E. apply zc_inj. exact Z.
  - subst. apply corrected_self. rewrite zc_length. exact Hp.
Qed.

Lemma sem_maxcov : forall F T, sem MaxCov F T = Some (Q2R (maxcov F T)).
Proof. reflexivity. Qed.

Lemma sem_const : forall F T, sem Const F T = Some 0%R.
Proof. reflexivity. Qed.
