(* C05 — the MEANING of the scorer tags of Pipeline/RankGraph.v (target type of the generated Gen/Dispatch.v),
   and the rows of one batch for a heuristic NAME.  No proofs in this file.

   [sem s F T] is the real number the selected scorer is specified to return on the two code vectors
   (F = input column, T = conditioning column), or None for the library scorers that are oracles of this
   development (scipy pearsonr, sklearn adjusted_mutual_info_score, the cross-validated surrogates):

     NumbaMI c  -> eval_R (entry F T c)       the transcription of mutual_info_estimator_numba (MI/Model.v, C01-C03;
                                              numba_mi passes vector_first as Y and vector_second as X)
     SkMI       -> MI_plugin F T              sklearn mutual_info_classif(discrete) is specified as the plug-in MI
                                              (MI/Spec.v); held to the code numerically (tolerance 1e-9)
     MaxCov     -> maxcov F T                 exact rational, as a real
     Const      -> 0        Fallback -> 0     (the warning + constant branch really returns 0.0)

   The MI model is imported read-only. *)
From Coq Require Import Reals List NArith ZArith QArith Qreals Bool.
From Outrank Require Import Common.RSum MI.Model MI.Spec.
From Outrank Require Import Pipeline.RankGraph.
Import ListNotations.
Close Scope Q_scope.

(* category codes as the integers the estimator receives (astype(np.int32)) *)
Definition zc (l : list N) : list Z := map Z.of_N l.

Definition sem (s : scorer) (F T : list N) : option R :=
  match s with
  | SkMI => Some (MI_plugin (zc F) (zc T))
  | NumbaMI c => Some (eval_R (entry (zc F) (zc T) c))
  | MaxCov => Some (Q2R (maxcov F T))
  | Const => Some 0%R
  | Fallback => Some 0%R
  | Pearson => None
  | AMI => None
  | Surrogate => None
  end.

(* mixed_rank_graph for a heuristic name [h]:
     [isc h]  = the test `args.heuristic == 'Constant'` (generated: Gen.Dispatch.is_const_name)
     [disp h] = the scorer conduct_feature_ranking selects (generated: Gen.Dispatch.dispatch)
   Constant: ONE triplet (c1, c2, 0.0) per evaluated combination, no mirror, no scoring call;
   otherwise the triplet and its mirror, with the scorer's value on the oriented coded columns. *)
Definition rows_for (disp : list N -> scorer) (isc : list N -> bool)
           (h : list N) (f : frame) (lbl : list N) (pairs : list (list N * list N))
  : list (list N * list N * option R) :=
  rank_rows_h (sem (disp h)) (isc h) (Some 0%R) f lbl pairs.

(* frames pandas accepts and the pipeline builds: distinct column names, all columns of one positive length *)
Definition wf_frame (f : frame) (n : nat) : Prop :=
  NoDup (map fst f) /\ (0 < n)%nat /\ forall c, In c f -> length (snd c) = n.
Definition pairs_in (f : frame) (pairs : list (list N * list N)) : Prop :=
  forall p, In p pairs -> In (fst p) (map fst f) /\ In (snd p) (map fst f).

(* ---- harness interface: term structures of the MI family on the model's codes ------------------- *)

(* case = columns, index pairs for max-coverage, (input index, conditioning index, flag) for the numba estimator *)
Definition C05_case2 : Type := (list (list (list N)) * list (nat * nat) * list (nat * nat * bool))%type.
Definition C05_model2 (c : C05_case2) :=
  let cs := map codes (fst (fst c)) in
  (cs,
   map (fun ij => let q := maxcov (nth (fst ij) cs []) (nth (snd ij) cs []) in (Qnum q, Zpos (Qden q))) (snd (fst c)),
   map (fun q => enc (entry (zc (nth (fst (fst q)) cs [])) (zc (nth (snd (fst q)) cs [])) (snd q))) (snd c)).
