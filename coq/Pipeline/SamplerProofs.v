(* C07 — proofs about the sampler relation, its checker and the transcription. *)
From Coq Require Import List Arith ZArith Bool Lia Permutation Sorted ZifyBool.
From Outrank Require Import Pipeline.Sampler.
Import ListNotations.

Local Notation cocc := (count_occ Nat.eq_dec).

(* ---------- assoc-list counter read as a function ---------- *)
Lemma get_notin s k : ~ In k (map fst s) -> get s k = 0.
Proof.
  induction s as [|[k' c] r IH]; intros H; [reflexivity|]. cbn [get].
  destruct (Nat.eqb k k') eqn:E.
  - apply Nat.eqb_eq in E. subst. exfalso. apply H. now left.
  - apply IH. intros Hin. apply H. now right.
Qed.

Lemma get_app_zero s k0 k : get (s ++ [(k0, 0)]) k = get s k.
Proof.
  induction s as [|[k' c] r IH]; cbn [get app].
  - destruct (Nat.eqb k k0); reflexivity.
  - destruct (Nat.eqb k k'); [reflexivity|exact IH].
Qed.

Lemma get_add_missing L : forall s k, get (add_missing s L) k = get s k.
Proof.
  unfold add_missing. induction L as [|a L IH]; intros s k; [reflexivity|].
  cbn [fold_left]. rewrite IH. destruct (mem s a); [reflexivity|apply get_app_zero].
Qed.

Lemma get_incr s k x : get (incr s k) x = get s x + (if Nat.eqb x k then 1 else 0).
Proof.
  induction s as [|[k' c] r IH]; cbn [incr get].
  - destruct (Nat.eqb x k); reflexivity.
  - destruct (Nat.eqb k k') eqn:E; cbn [get].
    + apply Nat.eqb_eq in E. subst k'. destruct (Nat.eqb x k); lia.
    + destruct (Nat.eqb x k') eqn:E2.
      * apply Nat.eqb_eq in E2. subst k'. rewrite Nat.eqb_sym, E. lia.
      * exact IH.
Qed.

Lemma cocc_cons a l k : cocc (a :: l) k = (if Nat.eqb k a then 1 else 0) + cocc l k.
Proof.
  cbn [count_occ]. destruct (Nat.eq_dec a k) as [->|N].
  - rewrite Nat.eqb_refl. reflexivity.
  - destruct (Nat.eqb k a) eqn:E; [apply Nat.eqb_eq in E; congruence|reflexivity].
Qed.

Lemma get_fold_incr sel : forall s k, get (fold_left incr sel s) k = get s k + cocc sel k.
Proof.
  induction sel as [|a sel IH]; intros s k; [cbn; lia|].
  cbn [fold_left]. rewrite IH, get_incr, cocc_cons. lia.
Qed.

(* ---------- the stable sort ---------- *)
Lemma insert_perm f k l : Permutation (insert_by f k l) (k :: l).
Proof.
  induction l as [|h t IH]; cbn [insert_by]; [reflexivity|].
  destruct (Nat.leb (f k) (f h)); [reflexivity|].
  rewrite IH. apply perm_swap.
Qed.

Lemma sort_perm f l : Permutation (sort_by f l) l.
Proof.
  induction l as [|a l IH]; [reflexivity|]. cbn [sort_by fold_right].
  fold (sort_by f l). rewrite insert_perm. now constructor.
Qed.

Definition le_by (f : key -> nat) (a b : key) : Prop := f a <= f b.

Lemma insert_sorted f k l : StronglySorted (le_by f) l -> StronglySorted (le_by f) (insert_by f k l).
Proof.
  induction 1 as [|h t Hs IH Hall]; cbn [insert_by].
  - constructor; constructor.
  - destruct (Nat.leb (f k) (f h)) eqn:E.
    + apply Nat.leb_le in E. constructor; [constructor; assumption|].
      constructor; [exact E|]. eapply Forall_impl; [|exact Hall].
      unfold le_by. intros x Hx. lia.
    + apply Nat.leb_gt in E. constructor; [exact IH|].
      eapply Permutation_Forall; [symmetry; apply insert_perm|].
      constructor; [unfold le_by; lia|exact Hall].
Qed.

Lemma sort_sorted f l : StronglySorted (le_by f) (sort_by f l).
Proof.
  induction l as [|a l IH]; [constructor|]. cbn [sort_by fold_right]. apply insert_sorted. exact IH.
Qed.

Lemma sorted_app_le f l1 : forall l2 a b,
  StronglySorted (le_by f) (l1 ++ l2) -> In a l1 -> In b l2 -> f a <= f b.
Proof.
  induction l1 as [|h t IH]; intros l2 a b Hs Ha Hb; [contradiction|].
  cbn [app] in Hs. inversion Hs as [|? ? Hs' Hall]; subst.
  destruct Ha as [->|Ha].
  - rewrite Forall_forall in Hall. apply Hall. apply in_or_app. now right.
  - eapply IH; eassumption.
Qed.

Lemma cocc_firstn_skipn m (l : list key) k : cocc l k = cocc (firstn m l) k + cocc (skipn m l) k.
Proof. rewrite <- (firstn_skipn m l) at 1. apply count_occ_app. Qed.

Lemma cocc_perm (l l' : list key) k : Permutation l l' -> cocc l k = cocc l' k.
Proof. intros H. revert k. apply (proj1 (Permutation_count_occ Nat.eq_dec l l')). exact H. Qed.

Lemma slice_len_le len cap : slice_len len cap <= len.
Proof. unfold slice_len. destruct (Z.ltb_spec cap 0); lia. Qed.

(* ---------- the transcription satisfies the relation ---------- *)
Theorem step_valid s L cap :
  valid_step (get s) L cap (fst (step s L cap)) (get (snd (step s L cap))).
Proof.
  unfold step. destruct L as [|l0 L'].
  - cbn [fst snd]. constructor.
    + intros k. cbn. lia.
    + cbn [length]. pose proof (slice_len_le 0 cap). lia.
    + intros a b [].
    + intros k. cbn. lia.
  - set (L := l0 :: L'). set (s1 := add_missing s L). set (S := sort_by (get s1) L).
    set (m := slice_len (length L) cap). cbn [fst snd].
    assert (HP : Permutation S L) by apply sort_perm.
    constructor.
    + intros k. rewrite <- (cocc_perm _ _ k HP), (cocc_firstn_skipn m S k). lia.
    + rewrite firstn_length, (Permutation_length HP). pose proof (slice_len_le (length L) cap). fold m in H. lia.
    + intros a b Ha Hlt.
      rewrite <- (cocc_perm _ _ b HP), (cocc_firstn_skipn m S b) in Hlt.
      assert (Hb : In b (skipn m S)) by (apply (count_occ_In Nat.eq_dec); lia).
      pose proof (sort_sorted (get s1) L) as Hs. fold S in Hs. rewrite <- (firstn_skipn m S) in Hs.
      pose proof (sorted_app_le _ _ _ a b Hs Ha Hb) as Hle.
      unfold s1 in Hle. rewrite !get_add_missing in Hle. exact Hle.
    + intros k. rewrite get_fold_incr. unfold s1. rewrite get_add_missing. reflexivity.
Qed.

(* ---------- the checker is sound for the relation ---------- *)
Theorem valid_stepb_sound s L cap sel s' :
  valid_stepb s L cap sel s' = true -> valid_step (get s) L cap sel (get s').
Proof.
  unfold valid_stepb, cnt. rewrite !andb_true_iff. intros [[[H1 H2] H3] H4].
  rewrite forallb_forall in H1, H3, H4. constructor.
  - intros k. destruct (in_dec Nat.eq_dec k sel) as [Hin|Hnin].
    + apply Nat.leb_le. apply H1. exact Hin.
    + rewrite (proj1 (count_occ_not_In Nat.eq_dec sel k) Hnin). lia.
  - apply Nat.eqb_eq. exact H2.
  - intros a b Ha Hlt. specialize (H3 a Ha). rewrite forallb_forall in H3.
    assert (Hb : In b L) by (apply (count_occ_In Nat.eq_dec); lia).
    specialize (H3 b Hb). apply orb_true_iff in H3. destruct H3 as [H3|H3].
    + apply negb_true_iff, Nat.ltb_ge in H3. lia.
    + apply Nat.leb_le. exact H3.
  - intros k. destruct (in_dec Nat.eq_dec k (map fst s ++ map fst s' ++ L ++ sel)) as [Hin|Hnin].
    + apply Nat.eqb_eq. apply H4. exact Hin.
    + rewrite !in_app_iff in Hnin.
      rewrite (get_notin s k), (get_notin s' k) by tauto.
      rewrite (proj1 (count_occ_not_In Nat.eq_dec sel k)) by tauto. reflexivity.
Qed.

(* ---------- consequences of the relation ---------- *)
Lemma vs_incl st L cap sel st' : valid_step st L cap sel st' -> incl sel L.
Proof.
  intros V a Ha. apply (count_occ_In Nat.eq_dec). pose proof (vs_sub _ _ _ _ _ V a).
  apply (count_occ_In Nat.eq_dec) in Ha. lia.
Qed.

Lemma vs_nodup st L cap sel st' : NoDup L -> valid_step st L cap sel st' -> NoDup sel.
Proof.
  intros Hnd V. apply (NoDup_count_occ Nat.eq_dec). intros k.
  pose proof (vs_sub _ _ _ _ _ V k). pose proof (proj1 (NoDup_count_occ Nat.eq_dec L) Hnd k). lia.
Qed.

Theorem vs_exact st L cap sel st' :
  NoDup L -> (0 <= cap < Z.of_nat (length L))%Z -> valid_step st L cap sel st' ->
  Z.of_nat (length sel) = cap /\ NoDup sel.
Proof.
  intros Hnd Hc V. split; [|eapply vs_nodup; eassumption].
  rewrite (vs_len _ _ _ _ _ V). unfold slice_len.
  destruct (Z.ltb_spec cap 0); lia.
Qed.

Theorem vs_least_first st L cap sel st' :
  NoDup L -> valid_step st L cap sel st' ->
  forall a b, In a sel -> In b L -> ~ In b sel -> st a <= st b.
Proof.
  intros Hnd V a b Ha Hb Hnb. apply (vs_least _ _ _ _ _ V); [exact Ha|].
  rewrite (proj1 (count_occ_not_In Nat.eq_dec sel b) Hnb).
  apply (count_occ_In Nat.eq_dec). exact Hb.
Qed.

Definition fair (L : list key) (st : state) : Prop := exists m, forall a, In a L -> m <= st a <= S m.

Lemma cocc_nodup_in (l : list key) k : NoDup l -> In k l -> cocc l k = 1.
Proof.
  intros Hnd Hin. pose proof (proj1 (NoDup_count_occ Nat.eq_dec l) Hnd k).
  apply (count_occ_In Nat.eq_dec) in Hin. lia.
Qed.

Lemma fair_step st L cap sel st' : NoDup L -> fair L st -> valid_step st L cap sel st' -> fair L st'.
Proof.
  intros HndL [m Hm] V. pose proof (vs_nodup _ _ _ _ _ HndL V) as Hnd.
  destruct V as [Hsub _ Hleast Hst].
  assert (Hun : forall b, In b L -> ~ In b sel -> cocc sel b < cocc L b).
  { intros b Hb Hnb. rewrite (proj1 (count_occ_not_In Nat.eq_dec sel b) Hnb).
    apply (count_occ_In Nat.eq_dec). exact Hb. }
  destruct (existsb (fun a => Nat.eqb (st a) (S m)) sel) eqn:E.
  - apply existsb_exists in E. destruct E as [a0 [Ha0 Ea0]]. apply Nat.eqb_eq in Ea0.
    exists (S m). intros b Hb. rewrite Hst.
    destruct (in_dec Nat.eq_dec b sel) as [Hin|Hnin].
    + rewrite cocc_nodup_in by assumption. pose proof (Hm b Hb). lia.
    + rewrite (proj1 (count_occ_not_In Nat.eq_dec sel b) Hnin).
      pose proof (Hleast a0 b Ha0 (Hun b Hb Hnin)). pose proof (Hm b Hb). lia.
  - exists m. intros b Hb. rewrite Hst.
    destruct (in_dec Nat.eq_dec b sel) as [Hin|Hnin].
    + rewrite cocc_nodup_in by assumption. pose proof (Hm b Hb).
      assert (st b <> S m).
      { intros Heq. assert (existsb (fun a => Nat.eqb (st a) (S m)) sel = true).
        { apply existsb_exists. exists b. split; [assumption|]. apply Nat.eqb_eq. exact Heq. }
        congruence. }
      lia.
    + rewrite (proj1 (count_occ_not_In Nat.eq_dec sel b) Hnin). pose proof (Hm b Hb). lia.
Qed.

(* any number of batches over one stable list, caps changing arbitrarily, any tie-breaking *)
Inductive reach (L : list key) : state -> Prop :=
| reach0 : reach L (fun _ => 0)
| reachS st cap sel st' : reach L st -> valid_step st L cap sel st' -> reach L st'.

Theorem reach_fair L st : NoDup L -> reach L st -> forall a b, In a L -> In b L -> st a <= S (st b).
Proof.
  intros HndL Hr.
  assert (Hf : fair L st).
  { induction Hr as [|st cap sel st' _ IH V]; [exists 0; intros; lia|]. eapply fair_step; eassumption. }
  destruct Hf as [m Hm]. intros a b Ha Hb. pose proof (Hm a Ha). pose proof (Hm b Hb). lia.
Qed.

(* arbitrary histories: candidate lists may change and contain duplicates *)
Inductive hist : list (list key) -> state -> Prop :=
| hist0 : hist [] (fun _ => 0)
| histS sels st L cap sel st' : hist sels st -> valid_step st L cap sel st' -> hist (sels ++ [sel]) st'.

Theorem hist_counts sels st : hist sels st -> forall k, st k = list_sum (map (fun sel => cocc sel k) sels).
Proof.
  induction 1 as [|sels st L cap sel st' _ IH V]; intros k; [reflexivity|].
  rewrite map_app, list_sum_app, (vs_state _ _ _ _ _ V), IH. cbn [map]. change (list_sum [cocc sel k]) with (cocc sel k + 0). rewrite Nat.add_0_r. reflexivity.
Qed.

(* ---------- the same statements for the executable transcription ---------- *)
Definition run_state (L : list key) (caps : list Z) : al :=
  fold_left (fun s c => snd (step s L c)) caps [].

Lemma run_state_reach L caps : reach L (get (run_state L caps)).
Proof.
  unfold run_state.
  assert (G : forall s, reach L (get s) -> reach L (get (fold_left (fun s c => snd (step s L c)) caps s))).
  { induction caps as [|c caps IH]; intros s Hs; [exact Hs|]. cbn [fold_left]. apply IH.
    eapply reachS; [exact Hs|apply step_valid]. }
  apply G. replace (get []) with (fun _ : key => 0) by reflexivity. constructor.
Qed.

Theorem model_fair L caps : NoDup L ->
  forall a b, In a L -> In b L -> get (run_state L caps) a <= S (get (run_state L caps) b).
Proof. intros Hnd. apply reach_fair; [exact Hnd|apply run_state_reach]. Qed.

(* a checked implementation history is a history of the relation *)
Lemma last_cons_indep {A} (l : list A) x d d' : last (x :: l) d = last (x :: l) d'.
Proof. revert x. induction l as [|y l IH]; intros x; [reflexivity|]. cbn [last] in *. apply IH. Qed.

Lemma valid_runb_reach L : forall caps s obs,
  reach L (get s) -> valid_runb s (map (fun c => (L, c)) caps) obs = true ->
  reach L (get (last (map snd obs) s)).
Proof.
  induction caps as [|c caps IH]; intros s obs Hs Hv.
  - destruct obs; [exact Hs|discriminate].
  - destruct obs as [|[sel s'] obs]; [discriminate|]. cbn [map valid_runb] in Hv.
    apply andb_true_iff in Hv. destruct Hv as [Hv1 Hv2].
    assert (Hs' : reach L (get s')) by (eapply reachS; [exact Hs|apply valid_stepb_sound; exact Hv1]).
    specialize (IH s' obs Hs' Hv2). cbn [map snd].
    destruct obs as [|o obs']; [exact Hs'|]. cbn [map] in IH |- *.
    change (last (s' :: snd o :: map snd obs') s) with (last (snd o :: map snd obs') s).
    rewrite (last_cons_indep _ _ s s'). exact IH.
Qed.

Theorem checked_history_fair L caps obs : NoDup L ->
  valid_runb [] (map (fun c => (L, c)) caps) obs = true ->
  forall a b, In a L -> In b L -> get (last (map snd obs) []) a <= S (get (last (map snd obs) []) b).
Proof.
  intros Hnd Hv. apply reach_fair; [exact Hnd|].
  apply (valid_runb_reach L caps [] obs); [|exact Hv].
  replace (get []) with (fun _ : key => 0) by reflexivity. constructor.
Qed.

(* non-vacuity: a 5-candidate history with caps 2;3;2;7;0 satisfies every hypothesis *)
Example ex_history :
  let L := [0; 1; 2; 3; 4] in
  let ops := map (fun c => (L, c)) [2; 3; 2; 7; 0]%Z in
  NoDup L /\ valid_runb [] ops (run [] ops) = true /\
  map (fun o => length (fst o)) (run [] ops) = [2; 3; 2; 5; 0] /\
  fairb L (run_state L [2; 3; 2; 7; 0]%Z) = true.
Proof.
  cbv zeta. split; [|vm_compute; auto].
  repeat constructor; cbn; intuition discriminate.
Qed.

(* ---------- interleaving with other users of the counter ---------- *)
(* Between two batches on L anything may happen to the counts of combinations OUTSIDE L (other candidate
   lists sampled on the same storage), and the storage need not start empty outside L: fairness on L survives. *)
Inductive reach_i (L : list key) : state -> Prop :=
| reach_i0 st0 : (forall k, In k L -> st0 k = 0) -> reach_i L st0
| reach_iS st cap sel st' : reach_i L st -> valid_step st L cap sel st' -> reach_i L st'
| reach_iF st st' : reach_i L st -> (forall k, In k L -> st' k = st k) -> reach_i L st'.

Lemma fair_frame L st st' : fair L st -> (forall k, In k L -> st' k = st k) -> fair L st'.
Proof. intros [m Hm] He. exists m. intros a Ha. rewrite (He a Ha). apply Hm. exact Ha. Qed.

Theorem reach_i_fair L st : NoDup L -> reach_i L st -> forall a b, In a L -> In b L -> st a <= S (st b).
Proof.
  intros HndL Hr.
  assert (Hf : fair L st).
  { induction Hr as [st0 H0|st cap sel st' _ IH V|st st' _ IH He].
    - exists 0. intros a Ha. rewrite (H0 a Ha). lia.
    - eapply fair_step; eassumption.
    - eapply fair_frame; eassumption. }
  destruct Hf as [m Hm]. intros a b Ha Hb. pose proof (Hm a Ha). pose proof (Hm b Hb). lia.
Qed.

(* ... but a foreign step that touches a combination of L (two call sites sharing one storage keyed by the
   bare tuple — the behaviour repaired by fix 45d13a2) destroys it: one foreign increment is enough. *)
Example shared_counter_refuted :
  exists (L : list key) (st st' st'' : state),
    NoDup L /\ reach L st /\ (st' 0 = st 0 + 2) /\ valid_step st' L 0 [] st'' /\ ~ (st'' 0 <= S (st'' 1)).
Proof.
  exists [0; 1], (fun _ => 0), (fun k => if Nat.eqb k 0 then 2 else 0), (fun k => if Nat.eqb k 0 then 2 else 0).
  split.
  { constructor; [cbn; intuition discriminate|]. constructor; [cbn; tauto|constructor]. }
  split; [constructor|]. split; [reflexivity|]. split.
  { constructor.
    - intros k. cbn. lia.
    - reflexivity.
    - intros a b [].
    - intros k. cbn. lia. }
  cbn. lia.
Qed.

(* ---------- call sites judged by their own selections; reported tables ---------- *)
Lemma sel_count_cons sel r k : sel_count (sel :: r) k = cocc sel k + sel_count r k.
Proof. reflexivity. Qed.

Lemma last_cons_self {A} (x : A) l : last (x :: l) x = last l x.
Proof. destruct l; reflexivity. Qed.

Lemma derived_last : forall sels s k,
  get (last (map snd (derived_obs s sels)) s) k = get s k + sel_count sels k.
Proof.
  induction sels as [|sel r IH]; intros s k.
  - cbn. lia.
  - cbn [derived_obs map snd].
    rewrite (last_cons_indep _ _ s (fold_left incr sel s)), last_cons_self, IH, get_fold_incr, sel_count_cons. lia.
Qed.

Theorem selection_history_fair L caps sels : NoDup L ->
  valid_runb [] (map (fun c => (L, c)) caps) (derived_obs [] sels) = true ->
  forall a b, In a L -> In b L -> sel_count sels a <= S (sel_count sels b).
Proof.
  intros Hnd Hv a b Ha Hb.
  pose proof (checked_history_fair L caps (derived_obs [] sels) Hnd Hv a b Ha Hb) as H.
  rewrite !derived_last in H. cbn [get] in H. lia.
Qed.

Lemma sel_count_notin : forall sels k, ~ In k (concat sels) -> sel_count sels k = 0.
Proof.
  induction sels as [|sel r IH]; intros k Hn; [reflexivity|].
  rewrite sel_count_cons. cbn [concat] in Hn. rewrite IH by (intro; apply Hn, in_or_app; right; assumption).
  assert (cocc sel k = 0) as ->; [|reflexivity].
  apply count_occ_not_In. intro; apply Hn, in_or_app; left; assumption.
Qed.

Theorem reportb_sound sels rep : reportb sels rep = true ->
  forall k, get rep k = list_sum (map (fun sel => count_occ Nat.eq_dec sel k) sels).
Proof.
  intros H k. change (get rep k = sel_count sels k).
  unfold reportb in H. rewrite forallb_forall in H.
  destruct (in_dec Nat.eq_dec k (map fst rep ++ concat sels)) as [Hi|Hn].
  - apply Nat.eqb_eq, H, Hi.
  - rewrite get_notin by (intro; apply Hn, in_or_app; left; assumption).
    symmetry. apply sel_count_notin. intro; apply Hn, in_or_app; right; assumption.
Qed.

(* non-vacuity: a call site that forgets its counts between batches (every batch served from an empty table: the same first
   two candidates each time) is rejected by the derived history, while the faithful history is accepted; a merged report is
   rejected *)
Example ex_derived :
  let L := [0; 1; 2; 3; 4] in
  let ops := map (fun c => (L, c)) [2; 2; 2]%Z in
  valid_runb [] ops (derived_obs [] [[0; 1]; [2; 3]; [4; 0]]) = true /\
  valid_runb [] ops (derived_obs [] [[0; 1]; [0; 1]; [0; 1]]) = false /\
  reportb [[0; 1]; [2; 3]; [4; 0]] [(0, 2); (1, 1); (2, 1); (3, 1); (4, 1)] = true /\
  reportb [[0; 1]; [2; 3]; [4; 0]] [(0, 3); (1, 2); (2, 1); (3, 1); (4, 1)] = false.
Proof. vm_compute. auto. Qed.

(* ---------- the source's constants ---------- *)
Lemma incr_by_one s k : incr_by 1 s k = incr s k.
Proof.
  induction s as [|[k' c] r IH]; [reflexivity|].
  cbn [incr_by incr]. destruct (Nat.eqb k k'); [reflexivity|]. rewrite IH. reflexivity.
Qed.

Lemma fold_incr_by_one sel : forall s, fold_left (incr_by 1) sel s = fold_left incr sel s.
Proof. induction sel as [|a sel IH]; intros s; [reflexivity|]. cbn [fold_left]. rewrite incr_by_one. apply IH. Qed.

Theorem pstep_default s L cap : pstep false 0 1 0 s L cap = step s L cap.
Proof.
  unfold pstep, step. destruct L as [|a L]; [reflexivity|].
  rewrite Z.add_0_r, fold_incr_by_one. reflexivity.
Qed.

Theorem prun_default : forall ops s, prun false 0 1 0 s ops = run s ops.
Proof.
  induction ops as [|[L cap] r IH]; intros s; [reflexivity|].
  cbn [prun run]. rewrite pstep_default. destruct (step s L cap) as [sel s']. rewrite IH. reflexivity.
Qed.

(* each constant matters: with any one of them changed there is a history of three calls on one list that the checker rejects *)
Theorem source_constants_matter :
  let ops := map (fun c => ([0; 1; 2], c)) [2; 2; 2]%Z in
  valid_runb [] ops (prun false 0 1 0 [] ops) = true /\
  valid_runb [] ops (prun true 0 1 0 [] ops) = false /\
  valid_runb [] ops (prun false 1 1 0 [] ops) = false /\
  valid_runb [] ops (prun false (-1) 1 0 [] ops) = false /\
  valid_runb [] ops (prun false 0 2 0 [] ops) = false /\
  valid_runb [] ops (prun false 0 0 0 [] ops) = false /\
  valid_runb [] ops (prun false 0 1 1 [] ops) = false.
Proof. vm_compute. repeat split. Qed.
