(* C08 — soundness of the checker the harness runs on implementation outputs *)
From Coq Require Import List Arith NArith ZArith Bool Lia Permutation Sorting.Sorted.
From Outrank Require Import Common.Median Pipeline.Stream Pipeline.Aggregate Pipeline.AggregateProofs Pipeline.PerBatch Pipeline.C08Model.
Import ListNotations.

Definition close2P (a b : Z) : Prop := (Z.abs (a - b) * 4503599627370496 <= Z.max (Z.abs a) (Z.abs b))%Z.
Definition tables_close (t1 t2 : table) : Prop :=
  Forall2 (fun r1 r2 : row => fst r1 = fst r2 /\ close2P (snd r1) (snd r2))
          (isort row_canon_leb t1) (isort row_canon_leb t2).

Lemma table_close_sound t1 t2 : table_close t1 t2 = true -> tables_close t1 t2.
Proof.
  intros H. apply list_eqb_Forall2 in H. unfold tables_close.
  induction H as [|r1 r2 l1 l2 Hr _ IH]; constructor; [|exact IH]. unfold row_close in Hr.
  apply andb_true_iff in Hr. destruct Hr as [Hk Hc]. split; [apply key_eqb_eq; exact Hk|].
  unfold close2 in Hc. apply Z.leb_le in Hc. exact Hc.
Qed.

Lemma N_list_eqb_eq (l1 l2 : list N) : list_eqb N.eqb l1 l2 = true -> l1 = l2.
Proof. apply list_eqb_eq. intros x y; apply N.eqb_eq. Qed.

Theorem check_sound k ob oi oc of : verdict_ok (C08_check k (ob, oi, oc, of)) = true ->
  let c := k_cfg k in let lines := decode_lines (k_segs k) in
  let ref := reference_batches c lines in let score := score_of (k_rows k) in
  ob = map (map fst) ref
  /\ oi = length (filter (fun l => negb (wf c l)) (selected (cs c) 0 lines))
  /\ length oc = length ref
  /\ (forall j, (j < length ref)%nat -> tables_close (aggregate (concat (map score (firstn (S j) ref)))) (nth j oc []))
  /\ StronglySorted Z.le (map snd of)
  /\ tables_close (aggregate (concat (map score ref))) of
  /\ (forall b r r', In b ref -> In r (score b) -> In r' (score b) -> fst r = fst r' -> snd r = snd r')
  /\ tables_close (aggregate (concat (map batch_once (map score ref)))) of.
Proof.
  unfold verdict_ok, C08_check. cbn [v_batches v_invalid v_nckpt v_ckpts v_sorted v_final v_uniform v_per_batch].
  rewrite !andb_true_iff. intros (((((((Hb & Hi) & Hn) & Hc) & Hs) & Hf) & Hu) & Hp). cbn zeta.
  repeat match goal with |- _ /\ _ => split end.
  - apply (list_eqb_eq _ N_list_eqb_eq). exact Hb.
  - apply Nat.eqb_eq. exact Hi.
  - apply Nat.eqb_eq. exact Hn.
  - intros j Hj. rewrite forallb_forall in Hc. apply table_close_sound. apply Hc.
    apply in_map_iff. exists j. split; [reflexivity|]. apply in_seq. lia.
  - apply sortedb_sound. exact Hs.
  - apply table_close_sound. exact Hf.
  - intros b r r' Hbin. apply batch_uniformb_sound. rewrite forallb_forall in Hu. apply Hu.
    apply in_map_iff. exists b. split; [reflexivity|exact Hbin].
  - apply table_close_sound. rewrite map_map. exact Hp.
Qed.

(* ---------------------------------------------------------------------------------------------------------- *)
(* the loop model evaluated by the harness meets the reference semantics *)
From Outrank Require Import Pipeline.StreamProofs.

Theorem model_spec k : (0 < cB (k_cfg k))%nat ->
  let c := k_cfg k in let lines := decode_lines (k_segs k) in
  let ref := reference_batches c lines in let score := score_of (k_rows k) in
  C08_model k =
  (map (map fst) ref,
   length (filter (fun l => negb (wf c l)) (selected (cs c) 0 lines)),
   map (fun j => aggregate (concat (map score (firstn j ref)))) (seq 1 (length ref)),
   final_sort (aggregate (concat (map score ref)))).
Proof.
  intros HB. cbn zeta. unfold C08_model.
  pose proof (batches_spec (score_of (k_rows k)) aggregate (k_cfg k) HB (decode_lines (k_segs k))) as Hb.
  pose proof (invalid_spec (score_of (k_rows k)) aggregate (k_cfg k) HB (decode_lines (k_segs k))) as Hi.
  destruct (stream_inv (score_of (k_rows k)) aggregate (k_cfg k) HB (decode_lines (k_segs k))) as [Ha Hc].
  unfold batches in Hb. unfold invalid_count in Hi. rewrite Ha, Hc, Hi. unfold ckpts_of, rows_of. rewrite Hb. reflexivity.
Qed.

(* statements with the hypotheses under which the model is a faithful reading of the code (B >= 1, s >= 1;
   Python raises ZeroDivisionError for s = 0 and the modulo of a negative s is not transcribed) *)
Theorem batches_statement {row table : Type} (score : list line -> list row) (agg : list row -> table) c lines :
  (0 < cB c)%nat -> (0 < cs c)%N ->
  batches score agg c lines =
  let g := good c 0 lines in
  fst (chunks (cB c) g) ++ (if (ctail c <? length (snd (chunks (cB c) g)))%nat then [snd (chunks (cB c) g)] else []).
Proof. intros HB _. apply batches_spec. exact HB. Qed.

Theorem invalid_statement {row table : Type} (score : list line -> list row) (agg : list row -> table) c lines :
  (0 < cB c)%nat -> (0 < cs c)%N ->
  invalid_count score agg c lines = length (filter (fun l => negb (wf c l)) (selected (cs c) 0 lines)).
Proof. intros HB _. apply invalid_spec. exact HB. Qed.

Theorem checkpoint_statement {row table : Type} (score : list line -> list row) (agg : list row -> table) c lines :
  (0 < cB c)%nat -> (0 < cs c)%N ->
  length (checkpoints score agg c lines) = length (batches score agg c lines) /\
  forall j, (j < length (batches score agg c lines))%nat ->
    nth_error (checkpoints score agg c lines) j =
    Some (agg (concat (map score (firstn (S j) (batches score agg c lines))))).
Proof. intros HB _. apply checkpoints_spec. exact HB. Qed.

Theorem grouped_statement {row table : Type} (score : list line -> list row) (agg : list row -> table) c lines :
  (0 < cB c)%nat -> (0 < cs c)%N ->
  grouped score agg c lines = agg (concat (map score (batches score agg c lines))).
Proof. intros HB _. unfold grouped. rewrite all_rows_spec by exact HB. reflexivity. Qed.

(* non-vacuity: the tail rule is strict, and a batch is cut exactly when the B-th accepted row arrives *)
Example tail_1024_dropped :
  batches (fun _ => @nil row) aggregate (mkcfg 2000 1 3 tail_min) (decode_lines [(1024%N, 3%nat)]) = [].
Proof. vm_compute. reflexivity. Qed.
Example tail_1025_used :
  map (@length line) (batches (fun _ => @nil row) aggregate (mkcfg 2000 1 3 tail_min) (decode_lines [(1025%N, 3%nat)])) = [1025%nat].
Proof. vm_compute. reflexivity. Qed.
Example small_run :
  let c := mkcfg 3 2 2 1 in
  let lines := decode_lines [(5%N, 2%nat); (1%N, 1%nat); (7%N, 2%nat); (2%N, 3%nat); (6%N, 2%nat)] in
  map (map fst) (batches (fun _ => @nil row) aggregate c lines) = [[2; 4; 8]; [10; 12; 16]; [18; 20]]%N
  /\ invalid_count (fun _ => @nil row) aggregate c lines = 2%nat.
Proof. vm_compute. split; reflexivity. Qed.
