(* C08 — "the median of its PER-BATCH scores".
   [aggregate] takes the median over all ROWS that carry a pair.  The property speaks of one score per batch.
   The two coincide when every batch that evaluates the pair contributes the same number m > 0 of rows for it, all
   with that batch's score (after repo commit b3d9d15 the candidate list is duplicate-free: m = 1 for an ordered pair
   (a,b), a <> b, and m = 2 for a self-pair, whose mirror is itself).  They differ otherwise: see
   [weighted_median_differs] (rows 1,1,1,1,5,5,9,9 against per-batch scores 1,5,9).
   The replication lemma is re-proved here (coq/E2E/MedianRep.v has the same statement) so that C08 stays self-contained. *)
From Coq Require Import List ZArith Arith Bool Lia Permutation Sorting.Sorted.
From Outrank Require Import Common.Median Pipeline.Aggregate Pipeline.AggregateProofs.
Import ListNotations.
Local Open Scope nat_scope.

(* definitions: Pipeline/Aggregate.v (mrep, batch_score, per_batch_scores, uniform_batches, batch_once, batch_uniformb) *)

(* ---- proofs ---- *)
Lemma mrep_length m l : length (mrep m l) = m * length l.
Proof.
  unfold mrep. induction l as [|x l IH]; cbn [flat_map length]; [lia|].
  rewrite app_length, repeat_length, IH. lia.
Qed.

Lemma nth_repeat_lt (x d : Z) m i : i < m -> nth i (repeat x m) d = x.
Proof. revert i. induction m as [|m IH]; intros i H; [lia|]. destruct i; cbn; [reflexivity|apply IH; lia]. Qed.

Lemma nth_mrep m l d : 0 < m -> forall i, nth i (mrep m l) d = nth (i / m) l d.
Proof.
  intros Hm. unfold mrep. induction l as [|x l IH]; intros i.
  - cbn. destruct i; destruct (_ / m); reflexivity.
  - cbn [flat_map]. destruct (Nat.lt_ge_cases i m) as [Hi|Hi].
    + rewrite app_nth1 by (rewrite repeat_length; exact Hi). rewrite nth_repeat_lt by exact Hi.
      rewrite Nat.div_small by exact Hi. reflexivity.
    + rewrite app_nth2 by (rewrite repeat_length; exact Hi). rewrite repeat_length, IH.
      assert (E : i / m = S ((i - m) / m)).
      { replace i with ((i - m) + 1 * m) at 1 by lia. rewrite Nat.div_add by lia. lia. }
      rewrite E. reflexivity.
Qed.

Lemma Forall_repeat' {A} (P : A -> Prop) x m : P x -> Forall P (repeat x m).
Proof. intros H. induction m; cbn; constructor; auto. Qed.

Lemma sorted_repeat_app x m l : StronglySorted Z.le l -> Forall (fun y => (x <= y)%Z) l -> StronglySorted Z.le (repeat x m ++ l).
Proof.
  intros Hs Hf. induction m as [|m IH]; cbn [repeat app]; [exact Hs|]. constructor; [exact IH|].
  apply Forall_app. split; [apply Forall_repeat'; lia|exact Hf].
Qed.

Lemma mrep_sorted m l : StronglySorted Z.le l -> StronglySorted Z.le (mrep m l).
Proof.
  unfold mrep. induction l as [|x l IH]; intros H; [constructor|]. apply StronglySorted_inv in H. destruct H as [Hs Hf].
  cbn [flat_map]. apply sorted_repeat_app; [apply IH; exact Hs|].
  apply Forall_forall. intros y Hy. apply in_flat_map in Hy. destruct Hy as [z [Hz Hy]].
  apply repeat_spec in Hy. subst y. rewrite Forall_forall in Hf. apply Hf. exact Hz.
Qed.

Lemma mrep_perm m l l' : Permutation l l' -> Permutation (mrep m l) (mrep m l').
Proof. apply Permutation_flat_map. Qed.

Lemma div_between a m h : 0 < m -> m * h <= a -> a < m * (h + 1) -> a / m = h.
Proof. intros Hm H1 H2. symmetry. apply (Nat.div_unique a m h (a - m * h)); lia. Qed.

Theorem median2_mrep m l : 0 < m -> median2 (mrep m l) = median2 l.
Proof.
  intros Hm.
  rewrite (median2_sorted (mrep m l) (mrep m (sort l)))
    by (first [apply mrep_perm, sort_perm | apply mrep_sorted, sort_sorted]).
  rewrite (median2_sorted l (sort l)) by (first [apply sort_perm | apply sort_sorted]).
  cbv zeta. rewrite mrep_length. set (s := sort l). set (n := length s).
  rewrite !(nth_mrep m s 0%Z Hm).
  destruct (Nat.Even_or_Odd n) as [[h Hh]|[h Hh]].
  - assert (En : Nat.even n = true) by (apply Nat.even_spec; exists h; exact Hh).
    assert (Emn : Nat.even (m * n) = true) by (rewrite Nat.even_mul, En; apply orb_true_r).
    rewrite En, Emn.
    destruct (Nat.eq_dec h 0) as [->|Hh0].
    + assert (n = 0) by lia. assert (s = []) by (apply length_zero_iff_nil; assumption).
      rewrite H0. assert (Hnil : forall i, nth i (@nil Z) 0%Z = 0%Z) by (intros [|i]; reflexivity).
      rewrite !Hnil. reflexivity.
    + assert (E1 : n / 2 = h) by (rewrite Hh; rewrite Nat.mul_comm; apply Nat.div_mul; lia).
      assert (E2 : m * n / 2 = m * h).
      { replace (m * n) with ((m * h) * 2) by lia. apply Nat.div_mul; lia. }
      rewrite E1, E2.
      rewrite (div_between (m * h - 1) m (h - 1)) by nia.
      rewrite (div_between (m * h) m h) by nia. reflexivity.
  - assert (En : Nat.even n = false).
    { rewrite <- Nat.negb_odd. replace (Nat.odd n) with true; [reflexivity|]. symmetry. apply Nat.odd_spec. exists h. exact Hh. }
    assert (E1 : n / 2 = h) by (rewrite Hh; apply div_between; lia).
    rewrite En, E1.
    destruct (Nat.Even_or_Odd m) as [[g Hg]|[g Hg]].
    + assert (Emn : Nat.even (m * n) = true).
      { rewrite Nat.even_mul. replace (Nat.even m) with true; [reflexivity|]. symmetry. apply Nat.even_spec. exists g. exact Hg. }
      rewrite Emn.
      assert (E2 : m * n / 2 = m * h + g).
      { replace (m * n) with ((m * h + g) * 2) by nia. apply Nat.div_mul; lia. }
      rewrite E2.
      rewrite (div_between (m * h + g - 1) m h) by nia.
      rewrite (div_between (m * h + g) m h) by nia. ring.
    + assert (Emn : Nat.even (m * n) = false).
      { rewrite Nat.even_mul, En. rewrite <- Nat.negb_odd.
        replace (Nat.odd m) with true; [reflexivity|]. symmetry. apply Nat.odd_spec. exists g. exact Hg. }
      rewrite Emn.
      assert (E2 : m * n / 2 = m * h + g) by (apply div_between; nia).
      rewrite E2. rewrite (div_between (m * h + g) m h) by nia. reflexivity.
Qed.

Lemma scores_of_concat k brs : scores_of k (concat brs) = concat (map (scores_of k) brs).
Proof. induction brs as [|b r IH]; [reflexivity|]. cbn [concat map]. rewrite scores_of_app, IH. reflexivity. Qed.

Lemma uniform_rows m k brs : 0 < m -> uniform_batches m k brs ->
  scores_of k (concat brs) = mrep m (per_batch_scores k brs).
Proof.
  intros Hm H. rewrite scores_of_concat. unfold per_batch_scores, mrep.
  induction H as [|b r Hb _ IH]; [reflexivity|]. cbn [map concat flat_map]. rewrite flat_map_app, IH. f_equal.
  unfold batch_score. destruct Hb as [E|[z E]]; rewrite E; [reflexivity|].
  destruct m as [|m]; [lia|]. cbn [repeat flat_map]. rewrite app_nil_r. reflexivity.
Qed.

(* the aggregate's score for k is the median of the per-batch scores of k *)
Theorem median_per_batch m k brs : 0 < m -> uniform_batches m k brs ->
  median2 (scores_of k (concat brs)) = median2 (per_batch_scores k brs).
Proof. intros Hm H. rewrite (uniform_rows m k brs Hm H). apply median2_mrep. exact Hm. Qed.

Theorem aggregate_per_batch m k brs : 0 < m -> uniform_batches m k brs -> In k (map fst (concat brs)) ->
  lookup k (aggregate (concat brs)) = Some (median2 (per_batch_scores k brs)).
Proof.
  intros Hm H Hin. rewrite aggregate_lookup. destruct (in_dec key_eq_dec k (map fst (concat brs))) as [_|Hn]; [|contradiction].
  rewrite (median_per_batch m k brs Hm H). reflexivity.
Qed.

(* without the hypothesis the row median is a WEIGHTED median of the per-batch scores *)
Example weighted_median_differs :
  let k := (1%N, 1%N) in
  let brs := [[(k, 1%Z); (k, 1%Z); (k, 1%Z); (k, 1%Z)]; [(k, 5%Z); (k, 5%Z)]; [(k, 9%Z); (k, 9%Z)]] in
  median2 (scores_of k (concat brs)) = 6%Z /\ median2 (per_batch_scores k brs) = 10%Z.
Proof. vm_compute. split; reflexivity. Qed.

(* [batch_once]: when a batch is uniform (checked by [batch_uniformb]) keeping one row per pair loses nothing *)
Lemma scores_of_cons k k0 z t :
  scores_of k ((k0, z) :: t) = if key_eqb k0 k then z :: scores_of k t else scores_of k t.
Proof. unfold scores_of. cbn [filter fst]. destruct (key_eqb k0 k); reflexivity. Qed.

Lemma scores_of_nonempty k b : In k (keys b) <-> scores_of k b <> [].
Proof.
  split.
  - intros Hi Es. apply keys_In in Hi. apply in_map_iff in Hi. destruct Hi as ([k' z] & Ek & Hr). cbn in Ek. subst k'.
    assert (Hz : In z (scores_of k b)) by (apply scores_of_In; exact Hr). rewrite Es in Hz. destruct Hz.
  - intros Hne. destruct (scores_of k b) as [|z l] eqn:Es; [contradiction|].
    apply keys_In. assert (Hz : In z (scores_of k b)) by (rewrite Es; now left).
    apply scores_of_In in Hz. apply in_map_iff. exists (k, z). split; [reflexivity|exact Hz].
Qed.

Lemma once_scores_gen k b ks : NoDup ks ->
  scores_of k (map (fun k0 => (k0, hd 0%Z (scores_of k0 b))) ks) =
  if in_dec key_eq_dec k ks then [hd 0%Z (scores_of k b)] else [].
Proof.
  induction ks as [|k0 ks IH]; intros Hnd; [reflexivity|]. cbn [map]. rewrite scores_of_cons.
  apply NoDup_cons_iff in Hnd. destruct Hnd as [Hni Hnd]. rewrite (IH Hnd).
  destruct (key_eqb k0 k) eqn:E.
  - apply key_eqb_eq in E. subst k0.
    destruct (in_dec key_eq_dec k ks) as [Hi|_]; [contradiction|].
    destruct (in_dec key_eq_dec k (k :: ks)) as [_|Hn]; [reflexivity|exfalso; apply Hn; now left].
  - destruct (in_dec key_eq_dec k ks) as [Hi|Hn]; destruct (in_dec key_eq_dec k (k0 :: ks)) as [Hi'|Hn']; try reflexivity.
    + exfalso. apply Hn'. now right.
    + destruct Hi' as [->|Hi']; [rewrite key_eqb_refl in E; discriminate|contradiction].
Qed.

Lemma batch_once_scores k b : scores_of k (batch_once b) = batch_score k b.
Proof.
  unfold batch_once, batch_score. rewrite (once_scores_gen k b (keys b) (keys_NoDup b)).
  destruct (in_dec key_eq_dec k (keys b)) as [Hi|Hn].
  - apply scores_of_nonempty in Hi. destruct (scores_of k b); [contradiction|reflexivity].
  - destruct (scores_of k b) as [|z l] eqn:Es; [reflexivity|].
    exfalso. apply Hn. apply scores_of_nonempty. rewrite Es. discriminate.
Qed.

(* the table the harness compares the written scores with: aggregate of one row per pair and batch = per-batch medians *)
Theorem once_table_is_per_batch k brs :
  scores_of k (concat (map batch_once brs)) = per_batch_scores k brs.
Proof.
  rewrite scores_of_concat, map_map. unfold per_batch_scores.
  induction brs as [|b r IH]; [reflexivity|]. cbn [map concat flat_map]. rewrite IH, batch_once_scores. reflexivity.
Qed.

Lemma batch_uniformb_sound b : batch_uniformb b = true ->
  forall r r', In r b -> In r' b -> fst r = fst r' -> snd r = snd r'.
Proof.
  unfold batch_uniformb. intros H r r' Hr Hr' Ek. rewrite forallb_forall in H. specialize (H r Hr).
  rewrite forallb_forall in H. specialize (H r' Hr'). apply orb_true_iff in H. destruct H as [H|H].
  - apply negb_true_iff in H. rewrite Ek, key_eqb_refl in H. discriminate.
  - apply Z.eqb_eq. exact H.
Qed.
