(* C06 — executable model of core_ranking.get_combinations_from_columns, of the cap applied through
   prior_combinations_sample (the C07 sampler, imported) and of mixed_rank_graph's row construction
   (mirror loop / Constant shortcut), plus the boolean checker the harness evaluates on what the
   implementation returned.  No proofs here: the model must still run when a proof breaks.

   Column names are Python strings = lists of Unicode code points ([list N]); string order is
   code-point lexicographic order (Python's [sorted] on str).  Scores are harness-assigned ids of the
   float's bit pattern, 0 standing for the float 0.0 (only equality of scores matters to C06). *)
From Coq Require Import List Arith ZArith NArith Bool.
From Outrank Require Import Pipeline.Sampler.
Import ListNotations.

Definition str := list N.
Definition pair := (str * str)%type.
Definition score := N.
Definition row := (str * str * score)%type.

(* ---------- strings ---------- *)
Fixpoint str_eqb (a b : str) : bool :=
  match a, b with
  | [], [] => true
  | x :: a', y :: b' => N.eqb x y && str_eqb a' b'
  | _, _ => false
  end.

Fixpoint prefixb (p s : str) : bool :=
  match p, s with
  | [], _ => true
  | x :: p', y :: s' => N.eqb x y && prefixb p' s'
  | _ :: _, [] => false
  end.

(* Python: p in s *)
Fixpoint infixb (p s : str) : bool :=
  match s with
  | [] => prefixb p []
  | _ :: t => prefixb p s || infixb p t
  end.

(* Python: a <= b on str (code points) *)
Fixpoint str_leb (a b : str) : bool :=
  match a, b with
  | [], _ => true
  | _ :: _, [] => false
  | x :: a', y :: b' => if N.ltb x y then true else if N.eqb x y then str_leb a' b' else false
  end.

Definition memb (x : str) (l : list str) : bool := existsb (str_eqb x) l.

(* ---------- the constants of the source (held to /repo by the ast extractor of tools/props/c06.py) ---------- *)
Definition s_3mr : str := [51; 109; 114]%N.                                  (* '3mr' *)
Definition s_True : str := [84; 114; 117; 101]%N.                            (* 'True' *)
Definition s_Constant : str := [67; 111; 110; 115; 116; 97; 110; 116]%N.     (* 'Constant' *)
Definition s_and_rel : str := [32; 65; 78; 68; 95; 82; 69; 76; 32]%N.        (* ' AND_REL ' *)
Definition max_features_3mr : Z := 10000%Z.                                  (* MAX_FEATURES_3MR = 10 ** 4 *)

Definition is_3mr (h : str) : bool := infixb s_3mr h.            (* '3mr' in args.heuristic *)
Definition is_tonly (t : str) : bool := str_eqb t s_True.        (* args.target_ranking_only == 'True' *)
Definition is_const (h : str) : bool := str_eqb h s_Constant.    (* args.heuristic == 'Constant' *)
Definition is_rel (c : str) : bool := infixb s_and_rel c.        (* ' AND_REL ' in column *)

(* ---------- get_combinations_from_columns ---------- *)
(* itertools.combinations_with_replacement(l, 2), in itertools' order *)
Fixpoint cwr2 {A} (l : list A) : list (A * A) :=
  match l with
  | [] => []
  | x :: t => map (fun y => (x, y)) (x :: t) ++ cwr2 t
  end.

(* set(...) keeps one copy of each name; sorted(...) of distinct strings is the unique sorted arrangement,
   so the set's iteration order does not matter *)
Fixpoint dedup (l : list str) : list str :=
  match l with
  | [] => []
  | x :: t => if memb x t then dedup t else x :: dedup t
  end.

Fixpoint insert_str (x : str) (l : list str) : list str :=
  match l with
  | [] => [x]
  | h :: t => if str_leb x h then x :: l else h :: insert_str x t
  end.
Definition sort_str (l : list str) : list str := fold_right insert_str [] l.

Definition rel_columns (cols : list str) : list str := filter is_rel cols.
Definition non_rel_columns (cols : list str) : list str :=
  sort_str (dedup (filter (fun c => negb (is_rel c)) cols)).

Definition has_label (label : str) (p : pair) : bool := str_eqb label (fst p) || str_eqb label (snd p).

Definition pair_eqb (p q : pair) : bool := str_eqb (fst p) (fst q) && str_eqb (snd p) (snd q).
Definition listedb (p : pair) (l : list pair) : bool := existsb (pair_eqb p) l.

(* "Diagonal elements (non-label) that are not listed yet": listed_combinations = set(combinations) is taken once,
   before the diagonal is appended *)
Definition diagonal (base : list pair) (cols : list str) (label : str) : list pair :=
  map (fun c => (c, c)) (filter (fun c => negb (str_eqb c label) && negb (listedb (c, c) base)) cols).

Definition candidates (cols : list str) (h tro label : str) : list pair :=
  let base :=
    if is_3mr h then cwr2 (non_rel_columns cols) ++ map (fun c => (c, label)) (rel_columns cols)
    else if is_tonly tro then filter (has_label label) (cwr2 cols)
    else cwr2 cols in
  if is_tonly tro then base else base ++ diagonal base cols label.

(* ---------- the reference-model filter of mixed_rank_graph (prior heuristics only) ---------- *)
Definition s_join_and : str := [32; 65; 78; 68; 32]%N.                        (* ' AND ' *)
Definition c_comma : N := 44%N.                                               (* ',' *)
Definition prior_heurs : list str :=                                          (* core_utils.is_prior_heuristic *)
  [[115; 117; 114; 114; 111; 103; 97; 116; 101; 45; 83; 71; 68];              (* 'surrogate-SGD' *)
   [115; 117; 114; 114; 111; 103; 97; 116; 101; 45; 83; 86; 77];              (* 'surrogate-SVM' *)
   [115; 117; 114; 114; 111; 103; 97; 116; 101; 45; 83; 71; 68; 45; 82; 80]]%N.  (* 'surrogate-SGD-RP' *)

(* Python: s.split(sep) for a one-character separator *)
Fixpoint split_on (sep : N) (s : str) : list str :=
  match s with
  | [] => [[]]
  | x :: t => if N.eqb x sep then [] :: split_on sep t
              else match split_on sep t with [] => [[x]] | h :: r => (x :: h) :: r end
  end.
Fixpoint join_with (sep : str) (l : list str) : str :=
  match l with
  | [] => []
  | x :: t => match t with [] => x | _ => x ++ sep ++ join_with sep t end
  end.
(* (' AND ').join(tuple(sorted(item.split(',')))) *)
Definition norm_ref (item : str) : str := join_with s_join_and (sort_str (split_on c_comma item)).

(* [ref] = the 'features' list of the reference model JSON, None when args.reference_model_JSON == '' *)
Definition ref_names (h : str) (ref : option (list str)) : list str :=
  match ref with
  | Some items => if memb h prior_heurs then map norm_ref items else []
  | None => []
  end.
(* comb[0] not in reference_model_features and comb[1] not in reference_model_features *)
Definition ref_filter (refs : list str) (cands : list pair) : list pair :=
  filter (fun p => negb (memb (fst p) refs) && negb (memb (snd p) refs)) cands.

(* args.combination_number_upper_bound after the call (the 3mr branch clamps it in place) *)
Definition eff_cap (h : str) (cap : Z) : Z :=
  if is_3mr h then (if (max_features_3mr <? cap)%Z then max_features_3mr else cap) else cap.

(* ---------- the cap: prior_combinations_sample on the candidate list ---------- *)
(* the counter is keyed by the tuple; inside one candidate list a tuple is identified with the position of its
   first occurrence *)
Fixpoint pidx (cands : list pair) (p : pair) : nat :=
  match cands with
  | [] => 0
  | q :: t => if pair_eqb p q then 0 else S (pidx t p)
  end.

Definition nopair : pair := ([], []).

Definition select (s : al) (cands : list pair) (cap' : Z) : list pair * al :=
  let r := step s (map (pidx cands) cands) cap' in
  (map (fun i => nth i cands nopair) (fst r), snd r).

(* nb batches over the same frame and arguments, counter shared *)
Fixpoint select_run (s : al) (cands : list pair) (cap' : Z) (nb : nat) : list (list pair) :=
  match nb with
  | O => []
  | S k => let r := select s cands cap' in fst r :: select_run (snd r) cands cap' k
  end.

(* ---------- row construction ---------- *)
Definition swap3 (r : row) : row := (snd (fst r), fst (fst r), snd r).
Definition rp (r : row) : pair := fst r.

(* for triplet in triplets: append(inv); append(triplet) *)
Definition mirror (trip : list row) : list row := flat_map (fun t => [swap3 t; t]) trip.

(* Constant: (c1, c2, 0.0) for every selected combination *)
Definition constant_rows (ev : list pair) : list row := map (fun p => (fst p, snd p, 0%N)) ev.

(* what the pool returns: (combination[0], combination[1], score) per evaluated combination, in order *)
Definition triplets (ev : list pair) (scores : list score) : list row :=
  map (fun ps => (fst (fst ps), snd (fst ps), snd ps)) (combine ev scores).

(* [ev] = the selected combinations after random.shuffle; [scores] = the scorer's answers, one per call *)
Definition build_rows (h : str) (ev : list pair) (scores : list score) : list row :=
  if is_const h then constant_rows ev else mirror (triplets ev scores).

(* ---------- the specification as a decidable predicate on (unordered) pairs ---------- *)
Definition spec_pairb (cols : list str) (h tro label : str) (p : pair) : bool :=
  let a := fst p in let b := snd p in
  if is_3mr h then
    (memb a cols && memb b cols && negb (is_rel a) && negb (is_rel b))
    || (memb a cols && is_rel a && str_eqb b label)
    || (str_eqb a label && memb b cols && is_rel b)
    || (negb (is_tonly tro) && str_eqb a b && memb a cols && negb (str_eqb a label))
  else if is_tonly tro then memb a cols && memb b cols && (str_eqb a label || str_eqb b label)
  else memb a cols && memb b cols.

(* ---------- checker ---------- *)
Definition upair_eqb (p q : pair) : bool :=
  pair_eqb p q || (str_eqb (fst p) (snd q) && str_eqb (snd p) (fst q)).
Definition umemb (p : pair) (l : list pair) : bool := existsb (upair_eqb p) l.
Definition ucount (p : pair) (l : list pair) : nat := length (filter (upair_eqb p) l).

Definition row_eqb (r r' : row) : bool := pair_eqb (rp r) (rp r') && N.eqb (snd r) (snd r').
Definition rcount (r : row) (rows : list row) : nat := length (filter (row_eqb r) rows).

Definition all_pairs (cols : list str) : list pair := flat_map (fun a => map (fun b => (a, b)) cols) cols.

(* the candidate list the implementation produced covers exactly the requested set of unordered pairs *)
Definition cands_okb (cols : list str) (h tro label : str) (cands : list pair) : bool :=
  forallb (spec_pairb cols h tro label) cands
  && forallb (fun p => negb (spec_pairb cols h tro label p) || umemb p cands) (all_pairs cols).

Definition closedb (cols : list str) (rows : list row) : bool :=
  forallb (fun r => memb (fst (rp r)) cols && memb (snd (rp r)) cols) rows.

(* the rows of one batch, given the candidate list and the effective cap *)
Definition rows_okb (cols : list str) (h : str) (cands : list pair) (cap' : Z) (rows : list row) : bool :=
  let n := slice_len (length cands) cap' in
  let rps := map rp rows in
  closedb cols rows
  && if is_const h then
       Nat.eqb (length rows) n
       && forallb (fun r => N.eqb (snd r) 0) rows
       && forallb (fun r => Nat.leb (ucount (rp r) rps) (ucount (rp r) cands)) rows
     else
       Nat.eqb (length rows) (2 * n)
       && forallb (fun r => Nat.eqb (rcount r rows) (rcount (swap3 r) rows)) rows
       && forallb (fun r => negb (str_eqb (fst (rp r)) (snd (rp r))) || Nat.even (rcount r rows)) rows
       && forallb (fun r => Nat.leb (ucount (rp r) rps) (2 * ucount (rp r) cands)) rows.

(* ---------- the same checks on column positions instead of names (what the harness evaluates: comparing small
   numbers is much cheaper than comparing strings; proved equal to the name-level checks in CombosProofs.v) ---------- *)
Fixpoint sidx (cols : list str) (x : str) : N :=
  match cols with
  | [] => 0%N
  | c :: t => if str_eqb x c then 0%N else N.succ (sidx t x)
  end.

Definition ipair := (N * N)%type.
Definition irow := (N * N * N)%type.
Definition ipair_eqb (p q : ipair) : bool := N.eqb (fst p) (fst q) && N.eqb (snd p) (snd q).
Definition iupair_eqb (p q : ipair) : bool := ipair_eqb p q || (N.eqb (fst p) (snd q) && N.eqb (snd p) (fst q)).
Definition iumemb (p : ipair) (l : list ipair) : bool := existsb (iupair_eqb p) l.
Definition iucount (p : ipair) (l : list ipair) : nat := length (filter (iupair_eqb p) l).
Definition irow_eqb (r r' : irow) : bool := ipair_eqb (fst r) (fst r') && N.eqb (snd r) (snd r').
Definition ircount (r : irow) (l : list irow) : nat := length (filter (irow_eqb r) l).
Definition iswap3 (r : irow) : irow := (snd (fst r), fst (fst r), snd r).
Definition ixp (cols : list str) (p : pair) : ipair := (sidx cols (fst p), sidx cols (snd p)).
Definition ixr (cols : list str) (r : row) : irow := (ixp cols (rp r), snd r).

Definition closed_pairsb (cols : list str) (l : list pair) : bool :=
  forallb (fun p => memb (fst p) cols && memb (snd p) cols) l.

Definition cands_okb_fast (cols : list str) (h tro label : str) (cands : list pair) : bool :=
  let icands := map (ixp cols) cands in
  closed_pairsb cols cands
  && forallb (spec_pairb cols h tro label) cands
  && forallb (fun p => negb (spec_pairb cols h tro label p) || iumemb (ixp cols p) icands) (all_pairs cols).

Definition rows_okb_fast (cols : list str) (h : str) (cands : list pair) (cap' : Z) (rows : list row) : bool :=
  let n := slice_len (length cands) cap' in
  let irows := map (ixr cols) rows in
  let irps := map fst irows in
  let icands := map (ixp cols) cands in
  closedb cols rows && closed_pairsb cols cands
  && if is_const h then
       Nat.eqb (length rows) n
       && forallb (fun r => N.eqb (snd r) 0) rows
       && forallb (fun r => Nat.leb (iucount (fst r) irps) (iucount (fst r) icands)) irows
     else
       Nat.eqb (length rows) (2 * n)
       && forallb (fun r => Nat.eqb (ircount r irows) (ircount (iswap3 r) irows)) irows
       && forallb (fun r => negb (N.eqb (fst (fst r)) (snd (fst r))) || Nat.even (ircount r irows)) irows
       && forallb (fun r => Nat.leb (iucount (fst r) irps) (2 * iucount (fst r) icands)) irows.

Fixpoint nodup_strb (l : list str) : bool :=
  match l with [] => true | h :: t => negb (memb h t) && nodup_strb t end.

(* ---------- the per-property interface (DESIGN Appendix C) ---------- *)
Record C06_case := mkCase {
  c_cols : list str;          (* the frame's columns, in order *)
  c_heur : str;               (* args.heuristic *)
  c_tro : str;                (* args.target_ranking_only *)
  c_label : str;              (* args.label_column *)
  c_cap : Z;                  (* args.combination_number_upper_bound *)
  c_batches : nat;            (* calls of mixed_rank_graph on the same frame, shared counter *)
  c_ref : option (list str)   (* 'features' of the reference model JSON; None when args.reference_model_JSON == '' *)
}.

Record C06_obs := mkObs {
  o_cands : list pair;        (* get_combinations_from_columns(...) *)
  o_cap : Z;                  (* args.combination_number_upper_bound afterwards *)
  o_rows : list (list row)    (* triplet_scores of each batch *)
}.

Definition C06_cands (c : C06_case) : list pair := candidates (c_cols c) (c_heur c) (c_tro c) (c_label c).
Definition C06_refs (c : C06_case) : list str := ref_names (c_heur c) (c_ref c).

(* the transcription's observable: rows in selection order (the identity is one possible shuffle), scores supplied *)
Definition C06_model (c : C06_case) (scores : list (list score)) : C06_obs :=
  let cands := C06_cands c in
  let cap' := eff_cap (c_heur c) (c_cap c) in
  mkObs cands cap'
        (map (fun es => build_rows (c_heur c) (fst es) (snd es))
             (combine (select_run [] (ref_filter (C06_refs c) cands) cap' (c_batches c)) scores)).

Definition C06_check (c : C06_case) (o : C06_obs) : bool :=
  cands_okb_fast (c_cols c) (c_heur c) (c_tro c) (c_label c) (o_cands o)
  && Z.eqb (o_cap o) (eff_cap (c_heur c) (c_cap c))
  && forallb (rows_okb_fast (c_cols c) (c_heur c) (ref_filter (C06_refs c) (o_cands o)) (o_cap o)) (o_rows o).

(* list-level comparison with the transcription (informational when the set-level checker accepts) *)
Fixpoint pairs_eqb (l l' : list pair) : bool :=
  match l, l' with
  | [], [] => true
  | p :: t, q :: t' => pair_eqb p q && pairs_eqb t t'
  | _, _ => false
  end.

(* informational: the same multiset of unordered pairs (on column positions) *)
Definition same_ucounts (cols : list str) (a b : list pair) : bool :=
  let ia := map (ixp cols) a in let ib := map (ixp cols) b in
  Nat.eqb (length a) (length b) && forallb (fun p => Nat.eqb (iucount p ia) (iucount p ib)) ia.

(* ---------- what the harness evaluates per case (names and scores arrive as indices into per-case tables).
   Result: (verdict of C06_check, its components when it rejects, list-level equality with the transcription,
   multiset-level equality with the transcription, per-batch agreement of the recorded selection with the stable-sort transcription (only when asked: the
   imported sampler model is slow on long lists), sizes) ---------- *)
Definition C06_eval (names : list str) (c : C06_case) (cands_ix : list (nat * nat))
           (rows_ix : list (list (nat * nat * nat))) (samp_ix : list (list (nat * nat)))
           (caps : list Z) (cap_obs : Z) (with_sel : bool) :=
  let nm := fun i : nat => nth i names [] in
  let ocands := map (fun ij : nat * nat => (nm (fst ij), nm (snd ij))) cands_ix in
  let orows := map (map (fun r : nat * nat * nat => (nm (fst (fst r)), nm (snd (fst r)), N.of_nat (snd r)))) rows_ix in
  let cap' := eff_cap (c_heur c) (c_cap c) in
  let caps_ok := forallb (fun z => Z.eqb z cap') caps in
  let chk := C06_check c (mkObs ocands cap_obs orows) && caps_ok in
  (chk,
   if chk then None
   else Some (cands_okb_fast (c_cols c) (c_heur c) (c_tro c) (c_label c) ocands, caps_ok,
              map (rows_okb_fast (c_cols c) (c_heur c) (ref_filter (C06_refs c) ocands) cap') orows),
   pairs_eqb (C06_cands c) ocands,
   (* same multiset of unordered pairs as the transcription (what C06_target_only_once / C06_pairwise_multiplicity
      speak about); on a mismatch the transcription's list is returned as column positions *)
   (let ms := same_ucounts (c_cols c) (C06_cands c) ocands in
    (ms, if ms then [] else map (ixp (c_cols c)) (C06_cands c))),
   if with_sel then
     let osamp := map (map (fun ij : nat * nat => (nm (fst ij), nm (snd ij)))) samp_ix in
     map (fun ab => same_ucounts (c_cols c) (fst ab) (snd ab)) (combine (select_run [] (ref_filter (C06_refs c) (C06_cands c)) cap' (c_batches c)) osamp)
   else [],
   (length (C06_cands c), slice_len (length (ref_filter (C06_refs c) ocands)) cap', nodup_strb (c_cols c) && memb (c_label c) (c_cols c))).

Definition C06_eval_light (c : C06_case) :=
  let cap' := eff_cap (c_heur c) (c_cap c) in
  (Z.of_nat (length (C06_cands c)), cap', Z.of_nat (slice_len (length (C06_cands c)) cap')).
