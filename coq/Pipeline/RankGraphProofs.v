(* C05 — lemmas about the rank-graph value model (Pipeline/RankGraph.v). *)
From Coq Require Import String Ascii.
From Coq Require Import List NArith ZArith QArith Bool Arith Lia Sorted.
From Outrank Require Import Pipeline.RankGraph.
Import ListNotations.
Close Scope Q_scope.

(* ---- string order ------------------------------------------------------------------------------ *)

Lemma scmp_refl : forall a, scmp a a = Eq.
Proof. induction a as [|x a IH]; simpl; auto. rewrite N.compare_refl. exact IH. Qed.

Lemma scmp_eq : forall a b, scmp a b = Eq -> a = b.
Proof.
  induction a as [|x a IH]; destruct b as [|y b]; simpl; intros H; try discriminate; auto.
  destruct (N.compare_spec x y) as [E|L|G]; try discriminate.
  subst. f_equal. auto.
Qed.

Lemma scmp_antisym : forall a b, scmp b a = CompOpp (scmp a b).
Proof.
  induction a as [|x a IH]; destruct b as [|y b]; simpl; auto.
  rewrite (N.compare_antisym x y).
  destruct (N.compare x y); simpl; auto.
Qed.

Definition slt (a b : str) : Prop := scmp a b = Lt.

Lemma slt_trans : forall a b c, slt a b -> slt b c -> slt a c.
Proof.
  unfold slt.
  induction a as [|x a IH]; destruct b as [|y b]; destruct c as [|z c]; simpl; try discriminate; auto.
  intros H1 H2.
  destruct (N.compare_spec x y) as [E1|L1|G1]; try discriminate;
    destruct (N.compare_spec y z) as [E2|L2|G2]; try discriminate.
  - subst. rewrite N.compare_refl. eauto.
  - subst. rewrite (proj2 (N.compare_lt_iff _ _) L2). reflexivity.
  - subst. rewrite (proj2 (N.compare_lt_iff _ _) L1). reflexivity.
  - assert (L : (x < z)%N) by lia. rewrite (proj2 (N.compare_lt_iff _ _) L). reflexivity.
Qed.

Lemma slt_irrefl : forall a, ~ slt a a.
Proof. unfold slt. intros a H. rewrite scmp_refl in H. discriminate. Qed.

Lemma slt_asym : forall a b, slt a b -> ~ slt b a.
Proof. unfold slt. intros a b H1 H2. rewrite scmp_antisym, H1 in H2. discriminate. Qed.

Lemma seqb_eq : forall a b, seqb a b = true <-> a = b.
Proof.
  unfold seqb. intros a b. split.
  - destruct (scmp a b) eqn:E; try discriminate. intros _. apply scmp_eq. exact E.
  - intros ->. rewrite scmp_refl. reflexivity.
Qed.

Lemma seqb_neq : forall a b, seqb a b = false <-> a <> b.
Proof.
  intros a b. split.
  - intros H E. apply seqb_eq in E. congruence.
  - intros H. destruct (seqb a b) eqn:E; auto. apply seqb_eq in E. contradiction.
Qed.

Lemma smem_in : forall h ls, smem h ls = true <-> In h ls.
Proof.
  unfold smem. intros h ls. rewrite existsb_exists. split.
  - intros [x [Hin E]]. apply seqb_eq in E. subst. exact Hin.
  - intros Hin. exists h. split; auto. apply seqb_eq. reflexivity.
Qed.

(* ['p' in s] is Python's substring test *)
Lemma sprefix_spec : forall p s, sprefix p s = true <-> exists t, s = p ++ t.
Proof.
  induction p as [|x p IH]; intros s; simpl.
  - split; eauto.
  - destruct s as [|y s].
    + split; [discriminate|]. intros [t H]. discriminate.
    + rewrite andb_true_iff, N.eqb_eq, IH. split.
      * intros [-> [t ->]]. exists t. reflexivity.
      * intros [t H]. injection H as -> ->. split; eauto.
Qed.

Lemma sinfix_spec : forall p s, sinfix p s = true <-> exists u t, s = u ++ p ++ t.
Proof.
  intros p. induction s as [|y s IH]; simpl.
  - rewrite orb_false_r, sprefix_spec. split.
    + intros [t H]. exists [], t. exact H.
    + intros [u [t H]]. destruct u as [|z u]; simpl in H; [eauto|discriminate].
  - rewrite orb_true_iff, sprefix_spec, IH. split.
    + intros [[t H]|[u [t H]]].
      * exists [], t. exact H.
      * exists (y :: u), t. simpl. rewrite H. reflexivity.
    + intros [u [t H]]. destruct u as [|z u]; simpl in H.
      * left. eauto.
      * right. injection H as -> ->. eauto.
Qed.

(* ---- categories: strictly sorted, same elements ------------------------------------------------ *)

Lemma insert_u_in : forall x l y, In y (insert_u x l) <-> y = x \/ In y l.
Proof.
  intros x. induction l as [|z l IH]; intros y; simpl.
  - intuition.
  - destruct (scmp x z) eqn:E; simpl.
    + apply scmp_eq in E. subst. intuition.
    + intuition.
    + rewrite IH. intuition.
Qed.

Lemma insert_u_sorted : forall x l, StronglySorted slt l -> StronglySorted slt (insert_u x l).
Proof.
  intros x. induction l as [|z l IH]; intros S; simpl.
  - constructor; constructor.
  - inversion S as [|? ? S' F]; subst.
    destruct (scmp x z) eqn:E.
    + exact S.
    + constructor; auto. constructor; auto.
      rewrite Forall_forall in *. intros w Hw. eapply slt_trans; [exact E|auto].
    + constructor; auto.
      rewrite Forall_forall in *. intros w Hw. apply insert_u_in in Hw. destruct Hw as [->|Hw]; auto.
      unfold slt. rewrite scmp_antisym, E. reflexivity.
Qed.

Lemma cats_in : forall l x, In x (cats l) <-> In x l.
Proof.
  unfold cats. induction l as [|y l IH]; intros x; simpl.
  - tauto.
  - rewrite insert_u_in, IH. intuition.
Qed.

Lemma cats_sorted : forall l, StronglySorted slt (cats l).
Proof.
  unfold cats. induction l as [|y l IH]; simpl.
  - constructor.
  - apply insert_u_sorted. exact IH.
Qed.

Lemma sorted_nodup : forall s, StronglySorted slt s -> NoDup s.
Proof.
  induction s as [|z s IH]; intros S.
  - constructor.
  - inversion S as [|? ? S' F]; subst. constructor; auto.
    intros Hin. rewrite Forall_forall in F. apply (slt_irrefl z). auto.
Qed.

Lemma cats_nodup : forall l, NoDup (cats l).
Proof. intros l. apply sorted_nodup, cats_sorted. Qed.

(* ---- index_of ---------------------------------------------------------------------------------- *)

Lemma index_of_nth : forall x s d, In x s -> nth (index_of x s) s d = x.
Proof.
  intros x. induction s as [|z s IH]; intros d Hin; simpl in *.
  - contradiction.
  - destruct (seqb x z) eqn:E.
    + apply seqb_eq in E. auto.
    + apply seqb_neq in E. destruct Hin as [->|Hin]; [congruence|auto].
Qed.

Lemma index_of_lt : forall x s, In x s -> index_of x s < length s.
Proof.
  intros x. induction s as [|z s IH]; intros Hin; simpl in *.
  - contradiction.
  - destruct (seqb x z) eqn:E; [lia|].
    apply seqb_neq in E. destruct Hin as [->|Hin]; [congruence|]. apply IH in Hin. lia.
Qed.

Lemma index_of_inj : forall x y s, In x s -> In y s -> index_of x s = index_of y s -> x = y.
Proof.
  intros x y s Hx Hy E.
  rewrite <- (index_of_nth x s [] Hx), <- (index_of_nth y s [] Hy), E. reflexivity.
Qed.

Lemma index_of_mono : forall s, StronglySorted slt s -> forall x y, In x s -> In y s ->
  (index_of x s < index_of y s <-> slt x y).
Proof.
  induction s as [|z s IH]; intros S x y Hx Hy; simpl in *.
  - contradiction.
  - inversion S as [|? ? S' F]; subst. rewrite Forall_forall in F.
    destruct (seqb x z) eqn:Ex; destruct (seqb y z) eqn:Ey.
    + apply seqb_eq in Ex, Ey. subst. split; [lia|]. intros H. exfalso. exact (slt_irrefl _ H).
    + apply seqb_eq in Ex. apply seqb_neq in Ey. subst.
      destruct Hy as [->|Hy]; [congruence|]. split; [auto|lia].
    + apply seqb_neq in Ex. apply seqb_eq in Ey. subst.
      destruct Hx as [->|Hx]; [congruence|]. split; [lia|].
      intros H. exfalso. exact (slt_asym _ _ H (F _ Hx)).
    + apply seqb_neq in Ex, Ey.
      destruct Hx as [->|Hx]; [congruence|]. destruct Hy as [->|Hy]; [congruence|].
      rewrite <- (IH S' x y Hx Hy). lia.
Qed.

Lemma index_of_nth_sorted : forall s, StronglySorted slt s -> forall k d, k < length s ->
  index_of (nth k s d) s = k.
Proof.
  induction s as [|z s IH]; intros S k d Hk; simpl in *.
  - lia.
  - inversion S as [|? ? S' F]; subst. rewrite Forall_forall in F.
    destruct k as [|k].
    + assert (E : seqb z z = true) by (apply seqb_eq; reflexivity). rewrite E. reflexivity.
    + assert (Hin : In (nth k s d) s) by (apply nth_In; lia).
      assert (E : seqb (nth k s d) z = false).
      { apply seqb_neq. intros Heq. apply (slt_irrefl z). rewrite <- Heq at 2. auto. }
      rewrite E. f_equal. apply IH; auto. lia.
Qed.

(* ---- codes ------------------------------------------------------------------------------------- *)

Lemma codes_length : forall l, length (codes l) = length l.
Proof. intros l. unfold codes. apply map_length. Qed.

Lemma codes_nth : forall l i, i < length l ->
  nth i (codes l) 0%N = N.of_nat (index_of (nth i l []) (cats l)).
Proof.
  intros l i Hi. unfold codes.
  rewrite (nth_indep _ 0%N (N.of_nat (index_of [] (cats l)))) by (rewrite map_length; exact Hi).
  rewrite (map_nth (fun x => N.of_nat (index_of x (cats l)))). reflexivity.
Qed.

Lemma nth_in_cats : forall l i, i < length l -> In (nth i l []) (cats l).
Proof. intros l i Hi. apply cats_in. apply nth_In. exact Hi. Qed.

(* equal codes <-> equal cells *)
Lemma codes_inj : forall l i j, i < length l -> j < length l ->
  (nth i (codes l) 0%N = nth j (codes l) 0%N <-> nth i l [] = nth j l []).
Proof.
  intros l i j Hi Hj. rewrite !codes_nth by assumption. split.
  - intros H. apply Nat2N.inj in H.
    eapply index_of_inj; eauto using nth_in_cats.
  - intros ->. reflexivity.
Qed.

(* the coding preserves the code-point order of the cells *)
Lemma codes_order : forall l i j, i < length l -> j < length l ->
  ((nth i (codes l) 0 < nth j (codes l) 0)%N <-> scmp (nth i l []) (nth j l []) = Lt).
Proof.
  intros l i j Hi Hj. rewrite !codes_nth by assumption.
  change (scmp (nth i l []) (nth j l []) = Lt) with (slt (nth i l []) (nth j l [])).
  rewrite <- (index_of_mono (cats l) (cats_sorted l) _ _ (nth_in_cats l i Hi) (nth_in_cats l j Hj)).
  lia.
Qed.

(* the codes are exactly 0 .. k-1 with k the number of distinct cells *)
Lemma codes_dense : forall l,
  (forall i, i < length l -> (nth i (codes l) 0 < N.of_nat (length (cats l)))%N) /\
  (forall k, k < length (cats l) -> exists i, i < length l /\ nth i (codes l) 0%N = N.of_nat k).
Proof.
  intros l. split.
  - intros i Hi. rewrite codes_nth by assumption.
    pose proof (index_of_lt _ _ (nth_in_cats l i Hi)). lia.
  - intros k Hk.
    assert (Hin : In (nth k (cats l) []) l) by (apply cats_in, nth_In; exact Hk).
    destruct (In_nth _ _ [] Hin) as [i [Hi E]].
    exists i. split; auto. rewrite codes_nth by assumption. rewrite E.
    rewrite index_of_nth_sorted; auto using cats_sorted.
Qed.

(* Remark (known finding on the implementation side, KNOWN_FINDINGS.txt C05): the MODEL's coding distinguishes cells that
   differ only after a NUL code point -- 'a' = [97], 'a\x00' = [97; 0], 'a\x00b' = [97; 0; 98], '' = [], '\x00' = [0] get five
   different codes, in code-point order -- whereas pandas' category coding hashes str cells as C strings and merges
   'a' / 'a\x00' / 'a\x00b' and '' / '\x00'.  The model is right, the implementation deviates. *)
Example codes_distinguish_nul :
  codes [[97]; [97; 0]; [97; 0; 98]; []; [0]; [97]]%N = [2; 3; 4; 0; 1; 2]%N.
Proof. vm_compute. reflexivity. Qed.

(* ---- orientation ------------------------------------------------------------------------------- *)

Lemma orient_label : forall lbl a b, a = lbl \/ b = lbl ->
  snd (orient lbl (a, b)) = lbl /\ fst (orient lbl (a, b)) = (if seqb a lbl then b else a).
Proof.
  intros lbl a b H. unfold orient. simpl.
  destruct (seqb a lbl) eqn:E; simpl; auto.
  apply seqb_neq in E. destruct H; [contradiction|auto].
Qed.

Lemma orient_other : forall lbl a b, a <> lbl -> orient lbl (a, b) = (a, b).
Proof.
  intros lbl a b H. unfold orient. simpl. apply seqb_neq in H. rewrite H. reflexivity.
Qed.

Lemma orient_same_columns : forall lbl a b,
  orient lbl (a, b) = (a, b) \/ orient lbl (a, b) = (b, a).
Proof.
  intros lbl a b. unfold orient. simpl. destruct (seqb a lbl) eqn:E; auto.
  apply seqb_eq in E. subst. auto.
Qed.

(* ---- largest frequency ------------------------------------------------------------------------- *)

Section MaxFreqProofs.
  Context {A : Type} (eqb : A -> A -> bool).
  Hypothesis eqb_spec : forall x y, eqb x y = true <-> x = y.

  Lemma cnt_le_length : forall x l, (cnt eqb x l <= N.of_nat (length l))%N.
  Proof.
    intros x l. unfold cnt.
    assert (H : length (filter (eqb x) l) <= length l).
    { induction l as [|y l IH]; simpl; auto. destruct (eqb x y); simpl; lia. }
    lia.
  Qed.

  Lemma cnt_pos : forall x l, In x l -> (1 <= cnt eqb x l)%N.
  Proof.
    intros x l Hin. unfold cnt.
    assert (Hf : In x (filter (eqb x) l)).
    { apply filter_In. split; auto. apply eqb_spec. reflexivity. }
    destruct (filter (eqb x) l); simpl in *; [contradiction|lia].
  Qed.

  Lemma cnt_notin : forall x l, ~ In x l -> cnt eqb x l = 0%N.
  Proof.
    intros x l Hn. unfold cnt.
    assert (E : filter (eqb x) l = []).
    { induction l as [|y l IH]; simpl; auto.
      destruct (eqb x y) eqn:Exy.
      - apply eqb_spec in Exy. subst. exfalso. apply Hn. left. reflexivity.
      - apply IH. intros H. apply Hn. right. exact H. }
    rewrite E. reflexivity.
  Qed.

  Lemma fold_max_ge : forall (L l : list A) x, In x l ->
    (cnt eqb x L <= fold_right (fun y m => N.max (cnt eqb y L) m) 0 l)%N.
  Proof.
    intros L. induction l as [|y l IH]; intros x Hin; simpl in *.
    - contradiction.
    - destruct Hin as [->|Hin]; [lia|]. specialize (IH x Hin). lia.
  Qed.

  Lemma fold_max_attained : forall (L l : list A), l <> [] ->
    exists x, In x l /\ fold_right (fun y m => N.max (cnt eqb y L) m) 0%N l = cnt eqb x L.
  Proof.
    intros L. induction l as [|y l IH]; intros Hne.
    - congruence.
    - destruct l as [|z l].
      + exists y. split; [left; reflexivity|]. simpl. lia.
      + destruct IH as [x [Hin E]]; [discriminate|].
        change (fold_right (fun y0 m => N.max (cnt eqb y0 L) m) 0%N (y :: z :: l))
          with (N.max (cnt eqb y L) (fold_right (fun y0 m => N.max (cnt eqb y0 L) m) 0%N (z :: l))).
        rewrite E.
        destruct (N.max_spec (cnt eqb y L) (cnt eqb x L)) as [[_ M]|[_ M]]; rewrite M.
        * exists x. split; [right; exact Hin|reflexivity].
        * exists y. split; [left; reflexivity|reflexivity].
  Qed.

  Lemma maxfreq_ge_in : forall l x, In x l -> (cnt eqb x l <= maxfreq eqb l)%N.
  Proof. intros l x Hin. unfold maxfreq. apply fold_max_ge. exact Hin. Qed.

  Lemma maxfreq_attained : forall l, l <> [] -> exists x, In x l /\ maxfreq eqb l = cnt eqb x l.
  Proof. intros l H. unfold maxfreq. apply fold_max_attained. exact H. Qed.

  Lemma in_or_not : forall x (l : list A), In x l \/ ~ In x l.
  Proof.
    intros x. induction l as [|y l IH]; simpl.
    - right. tauto.
    - destruct (eqb x y) eqn:E.
      + apply eqb_spec in E. subst. left. left. reflexivity.
      + destruct IH as [IH|IH]; [left; right; exact IH|].
        right. intros [H|H]; [|contradiction].
        subst. assert (T : eqb x x = true) by (apply eqb_spec; reflexivity). congruence.
  Qed.

  Lemma maxfreq_ge : forall l x, (cnt eqb x l <= maxfreq eqb l)%N.
  Proof.
    intros l x. destruct (in_or_not x l) as [H|H].
    - apply maxfreq_ge_in. exact H.
    - rewrite cnt_notin by exact H. lia.
  Qed.

  Lemma maxfreq_le_length : forall l, (maxfreq eqb l <= N.of_nat (length l))%N.
  Proof.
    intros l. destruct l as [|y l].
    - unfold maxfreq. simpl. lia.
    - destruct (maxfreq_attained (y :: l)) as [x [_ E]]; [discriminate|].
      rewrite E. apply cnt_le_length.
  Qed.

  Lemma maxfreq_pos : forall l, l <> [] -> (1 <= maxfreq eqb l)%N.
  Proof.
    intros l H. destruct (maxfreq_attained l H) as [x [Hin E]]. rewrite E. apply cnt_pos. exact Hin.
  Qed.
End MaxFreqProofs.

Lemma peqb_spec : forall p q, peqb p q = true <-> p = q.
Proof.
  intros [a b] [c d]. unfold peqb. simpl. rewrite andb_true_iff, !N.eqb_eq. split.
  - intros [-> ->]. reflexivity.
  - intros H. injection H as -> ->. auto.
Qed.

Lemma joint_cnt : forall a b u v, joint a b u v = cnt peqb (u, v) (combine a b).
Proof.
  unfold cnt. induction a as [|x a IH]; intros b u v; simpl.
  - reflexivity.
  - destruct b as [|y b]; simpl.
    + reflexivity.
    + rewrite IH. unfold peqb at 2. simpl.
      rewrite (N.eqb_sym u x), (N.eqb_sym v y).
      destruct (N.eqb x u && N.eqb y v); cbn [Datatypes.length]; lia.
Qed.

(* rationals with a common positive denominator compare by numerator *)
Lemma frac_le : forall c d n, (c <= d)%N -> (frac c n <= frac d n)%Q.
Proof.
  intros c d n H. unfold frac, Qle. simpl. apply Z.mul_le_mono_nonneg_r; lia.
Qed.

Lemma Zpos_of_nat : forall n, n <> 0 -> Zpos (Pos.of_nat n) = Z.of_nat n.
Proof.
  intros n H. rewrite <- positive_nat_Z. rewrite Nat2Pos.id by exact H. reflexivity.
Qed.

Lemma frac_le_1 : forall c n, n <> 0 -> (c <= N.of_nat n)%N -> (frac c n <= 1)%Q.
Proof.
  intros c n Hn H. unfold frac, Qle. simpl. rewrite Zpos_of_nat by exact Hn. lia.
Qed.

Lemma combine_length_eq : forall (a b : list N), length a = length b -> length (combine a b) = length a.
Proof. intros a b H. rewrite combine_length. lia. Qed.

Theorem maxcov_exact : forall a b : list N, length a = length b -> a <> [] ->
  (exists u v, In (u, v) (combine a b) /\ maxcov a b = frac (joint a b u v) (length a)) /\
  (forall u v, (frac (joint a b u v) (length a) <= maxcov a b)%Q) /\
  (frac 1 (length a) <= maxcov a b)%Q /\ (maxcov a b <= 1)%Q.
Proof.
  intros a b Hlen Hne.
  assert (Hc : combine a b <> []).
  { destruct a as [|x a]; [congruence|]. destruct b as [|y b]; [discriminate|]. discriminate. }
  assert (Hn : length a <> 0) by (destruct a; [congruence|discriminate]).
  unfold maxcov. repeat split.
  - destruct (maxfreq_attained peqb (combine a b) Hc) as [[u v] [Hin E]].
    exists u, v. split; auto. rewrite joint_cnt, E. reflexivity.
  - intros u v. apply frac_le. rewrite joint_cnt. apply (maxfreq_ge peqb peqb_spec).
  - apply frac_le. apply (maxfreq_pos peqb peqb_spec). exact Hc.
  - apply frac_le_1; auto.
    rewrite <- (combine_length_eq a b Hlen). apply (maxfreq_le_length peqb).
Qed.

(* the bucketed version can only over-count *)
Lemma cnt_map_ge : forall (ps : list (N * N)) p,
  (cnt peqb p ps <= cnt Z.eqb (hash_pair p) (map hash_pair ps))%N.
Proof.
  intros ps p. unfold cnt.
  assert (H : length (filter (peqb p) ps) <= length (filter (Z.eqb (hash_pair p)) (map hash_pair ps))).
  { induction ps as [|q ps IH]; simpl; auto.
    destruct (peqb p q) eqn:E.
    - apply peqb_spec in E. subst. rewrite Z.eqb_refl. simpl. lia.
    - destruct (Z.eqb (hash_pair p) (hash_pair q)); simpl; lia. }
  lia.
Qed.

Theorem maxcov_old_ge : forall a b, (maxcov a b <= maxcov_old a b)%Q.
Proof.
  intros a b. unfold maxcov, maxcov_old. apply frac_le.
  destruct (combine a b) as [|p ps] eqn:Ec.
  - unfold maxfreq. simpl. lia.
  - destruct (maxfreq_attained peqb (p :: ps)) as [x [Hin E]]; [discriminate|].
    rewrite E. eapply N.le_trans; [apply cnt_map_ge|].
    apply (maxfreq_ge Z.eqb Z.eqb_eq).
Qed.

Theorem maxcov_prefix_refuted :
  exists a b, length a = length b /\ (maxcov_old a b == 1)%Q /\ (maxcov a b == 1 # 2)%Q /\ ~ (maxcov_old a b == maxcov a b)%Q.
Proof.
  exists [0; 17]%N, [0; 12831]%N. vm_compute. repeat split; intros H; discriminate H.
Qed.

(* ---- rows -------------------------------------------------------------------------------------- *)

Section RowsProofs.
  Context {score : Type} (sc : list N -> list N -> score).

  Lemma rank_rows_spec : forall f lbl pairs row, In row (rank_rows sc f lbl pairs) ->
    exists a b, In (a, b) pairs /\
      (row = (a, b, eval_pair sc f lbl (a, b)) \/ row = (b, a, eval_pair sc f lbl (a, b))) /\
      eval_pair sc f lbl (a, b)
        = sc (codes (col f (fst (orient lbl (a, b))))) (codes (col f (snd (orient lbl (a, b))))) /\
      (a = lbl \/ b = lbl -> snd (orient lbl (a, b)) = lbl).
  Proof.
    intros f lbl pairs row Hin. unfold rank_rows in Hin. apply in_flat_map in Hin.
    destruct Hin as [[a b] [Hp Hr]]. exists a, b. split; auto. simpl in Hr. split.
    - destruct Hr as [<-|[<-|[]]]; auto.
    - split; [reflexivity|]. intros H. apply (orient_label lbl a b H).
  Qed.

  Lemma rank_rows_complete : forall f lbl pairs a b, In (a, b) pairs ->
    In (a, b, eval_pair sc f lbl (a, b)) (rank_rows sc f lbl pairs) /\
    In (b, a, eval_pair sc f lbl (a, b)) (rank_rows sc f lbl pairs).
  Proof.
    intros f lbl pairs a b Hin. unfold rank_rows.
    split; apply in_flat_map; exists (a, b); (split; [exact Hin|simpl; auto]).
  Qed.
End RowsProofs.
