From Coq Require Import List Arith Lia Bool.
Import ListNotations.

Lemma filter_length_le {A} (f : A -> bool) l : length (filter f l) <= length l.
Proof. induction l as [|a l IH]; cbn; [lia|]. destruct (f a); cbn; lia. Qed.

Section Stream.
  Variables (B s ncols : nat).
  Hypothesis HB : 0 < B.
  Definition line := (nat * nat)%type.   (* id, number of parsed fields *)
  Definition wf (l : line) := Nat.eqb (snd l) ncols.

  Record sst := mk { counter : nat; buf : list line; emitted : list (list line); invalid : nat }.

  (* transcription of the loop body of estimate_importances_minibatches *)
  Definition sstep (st : sst) (l : line) : sst :=
    let k := S (counter st) in
    if negb (Nat.eqb (k mod s) 0) then mk k (buf st) (emitted st) (invalid st)
    else
      let st1 := if wf l then mk k (buf st ++ [l]) (emitted st) (invalid st)
                 else mk k (buf st) (emitted st) (S (invalid st)) in
      if B <=? length (buf st1) then mk k [] (emitted st1 ++ [buf st1]) (invalid st1) else st1.
  Definition run (st : sst) (lines : list line) : sst := fold_left sstep lines st.

  (* reference semantics *)
  Definition push (eb : list (list line) * list line) (x : line) :=
    let bf' := snd eb ++ [x] in
    if B <=? length bf' then (fst eb ++ [bf'], []) else (fst eb, bf').
  Fixpoint selected (k0 : nat) (lines : list line) : list line :=
    match lines with
    | [] => []
    | l :: r => if Nat.eqb (S k0 mod s) 0 then l :: selected (S k0) r else selected (S k0) r
    end.
  Definition good (k0 : nat) (lines : list line) := filter wf (selected k0 lines).

  Theorem run_spec lines : forall st, length (buf st) < B ->
    let st' := run st lines in
    (emitted st', buf st') = fold_left push (good (counter st) lines) (emitted st, buf st)
    /\ counter st' = counter st + length lines
    /\ invalid st' = invalid st + (length (selected (counter st) lines) - length (good (counter st) lines))
    /\ length (buf st') < B.
  Proof.
    induction lines as [|l r IH]; intros st Hb; cbn zeta.
    - cbn. repeat split; try lia.
    - cbn [run fold_left]. change (fold_left sstep r ?x) with (run x r).
      unfold good. cbn [selected].
      pose proof (filter_length_le wf (selected (S (counter st)) r)) as Hfl.
      destruct (Nat.eqb (S (counter st) mod s) 0) eqn:Esel.
      + cbn [filter]. destruct (wf l) eqn:Ewf.
        * cbn [fold_left]. unfold push at 2. cbn [fst snd].
          destruct (B <=? length (buf st ++ [l])) eqn:Efull.
          -- assert (E1 : sstep st l = mk (S (counter st)) [] (emitted st ++ [buf st ++ [l]]) (invalid st)).
             { unfold sstep. rewrite Esel, Ewf. cbn [negb buf emitted invalid]. rewrite Efull. reflexivity. }
             rewrite E1. specialize (IH (mk (S (counter st)) [] (emitted st ++ [buf st ++ [l]]) (invalid st))).
             cbn [counter buf emitted invalid] in IH. destruct IH as (H1 & H2 & H3 & H4); [cbn; lia|]. unfold good in *.
             repeat split; try assumption; cbn [length]; lia.
          -- assert (E1 : sstep st l = mk (S (counter st)) (buf st ++ [l]) (emitted st) (invalid st)).
             { unfold sstep. rewrite Esel, Ewf. cbn [negb buf emitted invalid]. rewrite Efull. reflexivity. }
             apply Nat.leb_gt in Efull.
             rewrite E1. specialize (IH (mk (S (counter st)) (buf st ++ [l]) (emitted st) (invalid st))).
             cbn [counter buf emitted invalid] in IH. destruct IH as (H1 & H2 & H3 & H4); [exact Efull|]. unfold good in *.
             repeat split; try assumption; cbn [length]; lia.
        * assert (E : (B <=? length (buf st)) = false) by (apply Nat.leb_gt; exact Hb).
          assert (E1 : sstep st l = mk (S (counter st)) (buf st) (emitted st) (S (invalid st))).
          { unfold sstep. rewrite Esel, Ewf. cbn [negb buf emitted invalid]. rewrite E. reflexivity. }
          rewrite E1. specialize (IH (mk (S (counter st)) (buf st) (emitted st) (S (invalid st)))).
          cbn [counter buf emitted invalid] in IH. destruct IH as (H1 & H2 & H3 & H4); [exact Hb|]. unfold good in *.
          repeat split; try assumption; cbn [length]; lia.
      + assert (E1 : sstep st l = mk (S (counter st)) (buf st) (emitted st) (invalid st)).
        { unfold sstep. rewrite Esel. reflexivity. }
        rewrite E1. specialize (IH (mk (S (counter st)) (buf st) (emitted st) (invalid st))).
        cbn [counter buf emitted invalid] in IH. destruct IH as (H1 & H2 & H3 & H4); [exact Hb|]. unfold good in *.
        repeat split; try assumption; cbn [length]; lia.
  Qed.

  (* the reference semantics really is "consecutive chunks of size B, remainder < B" *)
  Theorem push_chunks g : forall em bf, length bf < B ->
    let r := fold_left push g (em, bf) in
    concat (fst r) ++ snd r = concat em ++ bf ++ g
    /\ (Forall (fun b => length b = B) em -> Forall (fun b => length b = B) (fst r))
    /\ length (snd r) < B.
  Proof.
    induction g as [|x g IH]; intros em bf Hb; cbn zeta.
    - cbn. rewrite app_nil_r. auto.
    - cbn [fold_left].
      destruct (B <=? length (bf ++ [x])) eqn:E.
      + assert (Ep : push (em, bf) x = (em ++ [bf ++ [x]], [])) by (unfold push; cbn [fst snd]; rewrite E; reflexivity).
        rewrite Ep. apply Nat.leb_le in E. rewrite app_length in E. cbn in E.
        destruct (IH (em ++ [bf ++ [x]]) []) as (H1 & H2 & H3); [cbn; lia|].
        repeat split; [|intros Hall; apply H2; apply Forall_app; split; [exact Hall|constructor; [rewrite app_length; cbn; lia|constructor]]|exact H3].
        rewrite H1, concat_app. cbn. rewrite !app_nil_r, <- !app_assoc. reflexivity.
      + assert (Ep : push (em, bf) x = (em, bf ++ [x])) by (unfold push; cbn [fst snd]; rewrite E; reflexivity).
        rewrite Ep. apply Nat.leb_gt in E.
        destruct (IH em (bf ++ [x])) as (H1 & H2 & H3); [exact E|].
        repeat split; [|exact H2|exact H3]. rewrite H1, <- !app_assoc. reflexivity.
  Qed.
End Stream.
Print Assumptions run_spec.
