(* C08 — the streaming loop of estimate_importances_minibatches (outrank/core_ranking.py), model only.
   No proofs in this file (see StreamProofs.v), so the model still evaluates when a proof breaks.

   A data line is abstracted to (id, number of parsed csv fields); the id is the 1-based position of the line
   after the header.  The per-batch scorer (compute_batch_ranking -> triplets) and the aggregation
   (get_grouped_df) are parameters of the loop: the loop's theorems hold for any of them. *)
From Coq Require Import List Arith NArith Bool.
Import ListNotations.

Definition line := (N * nat)%type.   (* id, number of parsed fields *)

Record cfg := mkcfg {
  cB : nat;        (* args.minibatch_size *)
  cs : N;          (* args.subsampling *)
  cncols : nat;    (* len(column_descriptions) *)
  ctail : nat      (* the tail rule's constant: a final partial batch is used iff it has MORE rows than this *)
}.

(* the constant of the property statement (2**10 in the source; tools/translate_c08.py holds the source to it) *)
Definition tail_min : nat := 1024.

Definition wf (c : cfg) (l : line) : bool := Nat.eqb (snd l) (cncols c).

Section Loop.
  Context {row table : Type}.
  Variable score : list line -> list row.   (* oracle: the triplets compute_batch_ranking returns for a batch *)
  Variable agg : list row -> table.         (* get_grouped_df *)
  Variable c : cfg.

  Record sst := mk {
    counter : N;                    (* line_counter *)
    buf : list line;                (* line_tmp_storage *)
    emitted : list (list line);     (* batches handed to compute_batch_ranking so far *)
    invalid : nat;                  (* invalid_lines *)
    acc : list row;                 (* importances_df *)
    ckpts : list table              (* contents of ranking_checkpoint_tmp.tsv after each batch *)
  }.

  Definition init : sst := mk 0 [] [] 0 [] [].

  (* compute_batch_ranking(line_tmp_storage); importances_df += triplets; line_tmp_storage = [];
     checkpoint_importances_df(importances_df)     (heuristic <> 'Constant' is assumed) *)
  Definition flush (st : sst) (b : list line) : sst :=
    let rows := acc st ++ score b in
    mk (counter st) [] (emitted st ++ [b]) (invalid st) rows (ckpts st ++ [agg rows]).

  (* one iteration of `for line in file_stream` *)
  Definition sstep (st : sst) (l : line) : sst :=
    let k := N.succ (counter st) in
    if negb (N.eqb (N.modulo k (cs c)) 0)
    then mk k (buf st) (emitted st) (invalid st) (acc st) (ckpts st)                      (* continue *)
    else
      let st1 := if wf c l
                 then mk k (buf st ++ [l]) (emitted st) (invalid st) (acc st) (ckpts st)
                 else mk k (buf st) (emitted st) (S (invalid st)) (acc st) (ckpts st) in
      if cB c <=? length (buf st1) then flush st1 (buf st1) else st1.

  Definition run (st : sst) (lines : list line) : sst := fold_left sstep lines st.

  (* after the loop: remaining_batch_size > 2**10 -> line_tmp_storage[:minibatch_size] is one more batch *)
  Definition finish (st : sst) : sst :=
    if ctail c <? length (buf st) then flush st (firstn (cB c) (buf st)) else st.

  Definition stream (lines : list line) : sst := finish (run init lines).

  (* observables *)
  Definition batches (lines : list line) : list (list line) := emitted (stream lines).
  Definition invalid_count (lines : list line) : nat := invalid (stream lines).
  Definition checkpoints (lines : list line) : list table := ckpts (stream lines).
  Definition all_rows (lines : list line) : list row := acc (stream lines).
  Definition grouped (lines : list line) : table := agg (all_rows lines).
End Loop.

(* ---------------------------------------------------------------------------------------------------------- *)
(* reference semantics *)

(* the lines whose 1-based position k0+1, k0+2, ... is a multiple of s, in file order *)
Fixpoint selected (s : N) (k0 : N) (lines : list line) : list line :=
  match lines with
  | [] => []
  | l :: r => if N.eqb (N.modulo (N.succ k0) s) 0 then l :: selected s (N.succ k0) r else selected s (N.succ k0) r
  end.

(* ... of these, the well-formed ones *)
Definition good (c : cfg) (k0 : N) (lines : list line) : list line := filter (wf c) (selected (cs c) k0 lines).

(* consecutive chunks of exactly B elements, and the remainder (fewer than B) *)
Fixpoint chunks_fuel {A} (fuel B : nat) (l : list A) : list (list A) * list A :=
  match fuel with
  | 0 => ([], l)
  | S f => if B <=? length l
           then let r := chunks_fuel f B (skipn B l) in (firstn B l :: fst r, snd r)
           else ([], l)
  end.
Definition chunks {A} (B : nat) (l : list A) : list (list A) * list A := chunks_fuel (length l) B l.

Definition reference_batches (c : cfg) (lines : list line) : list (list line) :=
  let cr := chunks (cB c) (good c 0 lines) in
  fst cr ++ (if ctail c <? length (snd cr) then [snd cr] else []).

(* the same selection written with explicit positions *)
Fixpoint number (k : N) (lines : list line) : list (N * line) :=
  match lines with [] => [] | l :: r => (k, l) :: number (N.succ k) r end.

(* incremental formulation used in the proofs: push one accepted row *)
Definition push (B : nat) (eb : list (list line) * list line) (x : line) :=
  let bf' := snd eb ++ [x] in
  if B <=? length bf' then (fst eb ++ [bf'], []) else (fst eb, bf').

(* ---------------------------------------------------------------------------------------------------------- *)
(* case decoding for the harness: run-length description [(count, nfields)], ids = positions *)

Fixpoint expand (segs : list (N * nat)) : list nat :=
  match segs with [] => [] | (n, k) :: r => N.iter n (cons k) (expand r) end.
Fixpoint number_from (k : N) (fs : list nat) : list line :=
  match fs with [] => [] | f :: r => (k, f) :: number_from (N.succ k) r end.
Definition decode_lines (segs : list (N * nat)) : list line := number_from 1 (expand segs).
