(* C08/C09 — proofs about the aggregation model of Pipeline/Aggregate.v *)
From Coq Require Import List ZArith NArith Bool Lia Permutation Sorting.Sorted.
From Outrank Require Import Common.Median Pipeline.Aggregate.
Import ListNotations.

(* ---------------------------------------------------------------------------------------------------------- *)
(* generic insertion sort *)
Section ISortProofs.
  Context {A : Type} (leb : A -> A -> bool).
  Notation le := (fun x y => leb x y = true).

  Lemma ins_perm x l : Permutation (ins leb x l) (x :: l).
  Proof.
    induction l as [|y r IH]; [reflexivity|]. cbn [ins]. destruct (leb x y); [reflexivity|].
    rewrite IH. apply perm_swap.
  Qed.
  Lemma isort_perm l : Permutation (isort leb l) l.
  Proof.
    induction l as [|x r IH]; [reflexivity|]. cbn [isort fold_right]. fold (isort leb r).
    rewrite ins_perm, IH. reflexivity.
  Qed.

  Hypothesis total : forall x y, leb x y = true \/ leb y x = true.
  Hypothesis trans : forall x y z, leb x y = true -> leb y z = true -> leb x z = true.

  Lemma ins_sorted x l : StronglySorted le l -> StronglySorted le (ins leb x l).
  Proof.
    induction l as [|y r IH]; intros H; [repeat constructor|]. cbn [ins].
    pose proof (StronglySorted_inv H) as [Hr Hall]. destruct (leb x y) eqn:E.
    - constructor; [exact H|]. constructor; [exact E|].
      eapply Forall_impl; [|exact Hall]. intros z Hz. eapply trans; eassumption.
    - constructor; [apply IH; exact Hr|].
      eapply Permutation_Forall; [symmetry; apply ins_perm|]. constructor; [|exact Hall].
      destruct (total x y) as [Hxy|Hyx]; [congruence|exact Hyx].
  Qed.
  Lemma isort_sorted l : StronglySorted le (isort leb l).
  Proof. induction l as [|x r IH]; [constructor|]. cbn [isort fold_right]. apply ins_sorted. exact IH. Qed.

  Hypothesis antisym : forall x y, leb x y = true -> leb y x = true -> x = y.

  Lemma sorted_perm_eq l : forall l', StronglySorted le l -> StronglySorted le l' -> Permutation l l' -> l = l'.
  Proof.
    induction l as [|x r IH]; intros l' H H' Hp.
    - apply Permutation_nil in Hp. auto.
    - destruct l' as [|y r']; [apply Permutation_sym, Permutation_nil in Hp; discriminate|].
      pose proof (StronglySorted_inv H) as [Hr Hall]. pose proof (StronglySorted_inv H') as [Hr' Hall'].
      assert (x = y).
      { assert (Hx : In x (y :: r')) by (eapply Permutation_in; [exact Hp|now left]).
        assert (Hy : In y (x :: r)) by (eapply Permutation_in; [symmetry; exact Hp|now left]).
        rewrite Forall_forall in Hall, Hall'.
        destruct Hx as [->|Hx]; [reflexivity|]. destruct Hy as [->|Hy]; [reflexivity|].
        apply antisym; [apply Hall; exact Hy|apply Hall'; exact Hx]. }
      subst y. f_equal. apply IH; try assumption. eapply Permutation_cons_inv. exact Hp.
  Qed.

  Theorem isort_perm_invariant l l' : Permutation l l' -> isort leb l = isort leb l'.
  Proof.
    intros Hp. apply sorted_perm_eq; try apply isort_sorted. rewrite !isort_perm. exact Hp.
  Qed.
End ISortProofs.

(* ---------------------------------------------------------------------------------------------------------- *)
(* the key order *)

Lemma key_eqb_eq k1 k2 : key_eqb k1 k2 = true <-> k1 = k2.
Proof.
  destruct k1 as [a b], k2 as [a' b']. unfold key_eqb. cbn [fst snd].
  rewrite andb_true_iff, !N.eqb_eq. split; [intros [-> ->]; reflexivity|intros H; injection H; auto].
Qed.
Lemma key_eqb_refl k : key_eqb k k = true.
Proof. apply key_eqb_eq. reflexivity. Qed.
Lemma key_eqb_sym k1 k2 : key_eqb k1 k2 = key_eqb k2 k1.
Proof. unfold key_eqb. rewrite (N.eqb_sym (fst k1)), (N.eqb_sym (snd k1)). reflexivity. Qed.

Lemma key_leb_total k1 k2 : key_leb k1 k2 = true \/ key_leb k2 k1 = true.
Proof.
  destruct k1 as [a b], k2 as [a' b']. unfold key_leb. cbn [fst snd].
  destruct (N.ltb_spec a a'), (N.ltb_spec a' a), (N.eqb_spec a a'), (N.eqb_spec a' a), (N.leb_spec b b'), (N.leb_spec b' b);
    cbn; auto; lia.
Qed.
Lemma key_leb_trans k1 k2 k3 : key_leb k1 k2 = true -> key_leb k2 k3 = true -> key_leb k1 k3 = true.
Proof.
  destruct k1 as [a b], k2 as [a' b'], k3 as [a'' b'']. unfold key_leb. cbn [fst snd].
  destruct (N.ltb_spec a a'), (N.eqb_spec a a'), (N.leb_spec b b'),
           (N.ltb_spec a' a''), (N.eqb_spec a' a''), (N.leb_spec b' b''),
           (N.ltb_spec a a''), (N.eqb_spec a a''), (N.leb_spec b b''); cbn; auto; try discriminate; lia.
Qed.
Lemma key_leb_antisym k1 k2 : key_leb k1 k2 = true -> key_leb k2 k1 = true -> k1 = k2.
Proof.
  destruct k1 as [a b], k2 as [a' b']. unfold key_leb. cbn [fst snd].
  destruct (N.ltb_spec a a'), (N.ltb_spec a' a), (N.eqb_spec a a'), (N.eqb_spec a' a), (N.leb_spec b b'), (N.leb_spec b' b);
    cbn; try discriminate; intros _ _; try lia; f_equal; lia.
Qed.

(* ---------------------------------------------------------------------------------------------------------- *)
(* permutations through filter / nodup *)

Lemma Permutation_filter' {A} (f : A -> bool) l l' : Permutation l l' -> Permutation (filter f l) (filter f l').
Proof.
  induction 1 as [|x l l' _ IH|x y l|l l' l'' _ IH1 _ IH2]; cbn.
  - constructor.
  - destruct (f x); [constructor|]; exact IH.
  - destruct (f x), (f y); try reflexivity. apply perm_swap.
  - etransitivity; eassumption.
Qed.

Lemma nodup_perm {A} (dec : forall x y : A, {x = y} + {x <> y}) l l' :
  Permutation l l' -> Permutation (nodup dec l) (nodup dec l').
Proof.
  intros Hp. apply NoDup_Permutation; try apply NoDup_nodup.
  intros x. rewrite !nodup_In. split; apply Permutation_in; [exact Hp|symmetry; exact Hp].
Qed.

Lemma scores_of_perm k rows rows' : Permutation rows rows' -> Permutation (scores_of k rows) (scores_of k rows').
Proof. intros Hp. unfold scores_of. apply Permutation_map, Permutation_filter', Hp. Qed.

Lemma keys_perm rows rows' : Permutation rows rows' -> keys rows = keys rows'.
Proof.
  intros Hp. unfold keys.
  apply (isort_perm_invariant key_leb key_leb_total key_leb_trans key_leb_antisym).
  apply nodup_perm, Permutation_map, Hp.
Qed.

(* C09's key lemma: the aggregate table is a function of the multiset of rows *)
Theorem aggregate_perm rows rows' : Permutation rows rows' -> aggregate rows = aggregate rows'.
Proof.
  intros Hp. unfold aggregate. rewrite (keys_perm _ _ Hp). apply map_ext. intros k.
  rewrite (median2_perm _ _ (scores_of_perm k _ _ Hp)). reflexivity.
Qed.

Corollary final_table_perm rows rows' : Permutation rows rows' -> final_table rows = final_table rows'.
Proof. intros Hp. unfold final_table. rewrite (aggregate_perm _ _ Hp). reflexivity. Qed.

(* ---------------------------------------------------------------------------------------------------------- *)
(* one row per ordered pair, holding the median of that pair's scores *)

Lemma keys_In rows k : In k (keys rows) <-> In k (map fst rows).
Proof.
  unfold keys. split; intros H.
  - apply (Permutation_in _ (isort_perm key_leb _)) in H. apply nodup_In in H. exact H.
  - apply (Permutation_in _ (Permutation_sym (isort_perm key_leb _))). apply nodup_In. exact H.
Qed.
Lemma keys_NoDup rows : NoDup (keys rows).
Proof.
  unfold keys. eapply Permutation_NoDup; [symmetry; apply isort_perm|]. apply NoDup_nodup.
Qed.
Lemma keys_sorted rows : StronglySorted (fun k1 k2 => key_leb k1 k2 = true) (keys rows).
Proof. unfold keys. apply isort_sorted; [apply key_leb_total|apply key_leb_trans]. Qed.

Lemma aggregate_keys rows : map fst (aggregate rows) = keys rows.
Proof. unfold aggregate. rewrite map_map. cbn. apply map_id. Qed.

Lemma find_key (g : key -> Z) ks k : NoDup ks -> In k ks ->
  find (fun r : row => key_eqb (fst r) k) (map (fun k => (k, g k)) ks) = Some (k, g k).
Proof.
  induction ks as [|k' ks IH]; intros Hnd Hin; [destruct Hin|].
  cbn [map find fst]. destruct (key_eqb k' k) eqn:E.
  - apply key_eqb_eq in E. subst. reflexivity.
  - destruct Hin as [->|Hin]; [rewrite key_eqb_refl in E; discriminate|].
    apply IH; [inversion Hnd; assumption|exact Hin].
Qed.
Lemma find_key_none (g : key -> Z) ks k : ~ In k ks ->
  find (fun r : row => key_eqb (fst r) k) (map (fun k => (k, g k)) ks) = None.
Proof.
  induction ks as [|k' ks IH]; intros Hin; [reflexivity|].
  cbn [map find fst]. destruct (key_eqb k' k) eqn:E.
  - apply key_eqb_eq in E. subst. exfalso. apply Hin. now left.
  - apply IH. intros H. apply Hin. now right.
Qed.

Theorem aggregate_lookup rows k :
  lookup k (aggregate rows) = if in_dec key_eq_dec k (map fst rows) then Some (median2 (scores_of k rows)) else None.
Proof.
  unfold lookup, aggregate. destruct (in_dec key_eq_dec k (map fst rows)) as [Hin|Hnin].
  - rewrite (find_key (fun k => median2 (scores_of k rows))); [reflexivity|apply keys_NoDup|apply keys_In; exact Hin].
  - rewrite find_key_none; [reflexivity|]. intros H. apply Hnin, keys_In, H.
Qed.

Theorem aggregate_rows rows r :
  In r (aggregate rows) <-> In (fst r) (map fst rows) /\ snd r = median2 (scores_of (fst r) rows).
Proof.
  unfold aggregate. split.
  - intros H. apply in_map_iff in H. destruct H as (k & <- & Hk). cbn [fst snd].
    split; [apply keys_In; exact Hk|reflexivity].
  - intros [Hk Hs]. apply in_map_iff. exists (fst r).
    split; [destruct r; cbn [fst snd] in *; subst; reflexivity|apply keys_In; exact Hk].
Qed.

(* the scores of a pair are exactly the scores of the rows carrying that pair (the names travel inside the row) *)
Lemma scores_of_In k rows z : In z (scores_of k rows) <-> In (k, z) rows.
Proof.
  unfold scores_of. rewrite in_map_iff. split.
  - intros ([k' z'] & <- & H). apply filter_In in H. destruct H as [H E]. cbn in E. apply key_eqb_eq in E. subst. exact H.
  - intros H. exists (k, z). split; [reflexivity|]. apply filter_In. split; [exact H|cbn; apply key_eqb_refl].
Qed.
Lemma scores_of_app k r1 r2 : scores_of k (r1 ++ r2) = scores_of k r1 ++ scores_of k r2.
Proof. unfold scores_of. rewrite filter_app, map_app. reflexivity. Qed.
Lemma scores_of_length k rows : length (scores_of k rows) = count_occ key_eq_dec (map fst rows) k.
Proof.
  unfold scores_of. rewrite map_length. induction rows as [|[k' z] rows IH]; [reflexivity|].
  cbn [filter map fst count_occ]. destruct (key_eq_dec k' k) as [->|Hne].
  - rewrite key_eqb_refl. cbn. rewrite IH. reflexivity.
  - destruct (key_eqb k' k) eqn:E; [apply key_eqb_eq in E; contradiction|exact IH].
Qed.

(* what [median2] is, stated on any sorted arrangement of the scores *)
Theorem median2_sorted l s : Permutation s l -> StronglySorted Z.le s ->
  median2 l = let n := length s in
              if Nat.even n then (nth (n / 2 - 1) s 0 + nth (n / 2) s 0)%Z else (2 * nth (n / 2) s 0)%Z.
Proof.
  intros Hp Hs. assert (E : sort l = s).
  { apply Median.sorted_perm_eq; [apply sort_sorted|exact Hs|]. rewrite sort_perm. symmetry. exact Hp. }
  unfold median2. rewrite E. reflexivity.
Qed.


(* ---------------------------------------------------------------------------------------------------------- *)
(* the final sort *)

Lemma row_leb_total r1 r2 : row_leb r1 r2 = true \/ row_leb r2 r1 = true.
Proof. unfold row_leb. destruct (Z.leb_spec (snd r1) (snd r2)), (Z.leb_spec (snd r2) (snd r1)); auto; lia. Qed.
Lemma row_leb_trans r1 r2 r3 : row_leb r1 r2 = true -> row_leb r2 r3 = true -> row_leb r1 r3 = true.
Proof. unfold row_leb. rewrite !Z.leb_le. lia. Qed.

Lemma StronglySorted_weaken {A} (R R' : A -> A -> Prop) l :
  (forall x y, R x y -> R' x y) -> StronglySorted R l -> StronglySorted R' l.
Proof.
  intros HR. induction 1 as [|x l Hs IH Hall]; constructor; [exact IH|].
  eapply Forall_impl; [|exact Hall]. intros y; apply HR.
Qed.

Theorem final_sort_perm t : Permutation (final_sort t) t.
Proof. apply isort_perm. Qed.

Theorem final_sort_sorted t : StronglySorted (fun r1 r2 : row => (snd r1 <= snd r2)%Z) (final_sort t).
Proof.
  eapply StronglySorted_weaken; [|apply (isort_sorted row_leb row_leb_total row_leb_trans)].
  intros x y H. apply Z.leb_le. exact H.
Qed.

(* ---------------------------------------------------------------------------------------------------------- *)
(* soundness of the boolean checkers *)

Lemma list_eqb_Forall2 {A} (eqb : A -> A -> bool) l1 : forall l2,
  list_eqb eqb l1 l2 = true -> Forall2 (fun x y => eqb x y = true) l1 l2.
Proof.
  induction l1 as [|x l1 IH]; intros [|y l2] H; cbn in H; try discriminate; constructor.
  - apply andb_true_iff in H. apply H.
  - apply IH. apply andb_true_iff in H. apply H.
Qed.
Lemma list_eqb_eq {A} (eqb : A -> A -> bool) (Heq : forall x y, eqb x y = true -> x = y) l1 l2 :
  list_eqb eqb l1 l2 = true -> l1 = l2.
Proof.
  intros H. apply list_eqb_Forall2 in H. induction H as [|x y l1 l2 Hxy _ IH]; [reflexivity|].
  rewrite (Heq _ _ Hxy), IH. reflexivity.
Qed.
Lemma row_eqb_eq r1 r2 : row_eqb r1 r2 = true -> r1 = r2.
Proof.
  destruct r1 as [k1 z1], r2 as [k2 z2]. unfold row_eqb. cbn [fst snd]. rewrite andb_true_iff, Z.eqb_eq, key_eqb_eq.
  intros [-> ->]. reflexivity.
Qed.

Lemma sortedb_sound l : sortedb l = true -> StronglySorted Z.le l.
Proof.
  intros H. apply Sorted_StronglySorted; [intros x y z; apply Z.le_trans|].
  induction l as [|x [|y r] IH]; [constructor|repeat constructor|].
  cbn [sortedb] in H. apply andb_true_iff in H. destruct H as [Hxy Hr].
  constructor; [apply IH; exact Hr|constructor; apply Z.leb_le; exact Hxy].
Qed.

Theorem final_okb_sound t out : final_okb t out = true ->
  Permutation out t /\ StronglySorted Z.le (map snd out).
Proof.
  unfold final_okb. rewrite andb_true_iff. intros [Hs He]. split; [|apply sortedb_sound; exact Hs].
  apply (list_eqb_eq _ row_eqb_eq) in He.
  rewrite <- (isort_perm row_canon_leb out), He. apply isort_perm.
Qed.

Lemma aggregate_NoDup rows : NoDup (map fst (aggregate rows)).
Proof. rewrite aggregate_keys. exact (keys_NoDup rows). Qed.

(* ---------------------------------------------------------------------------------------------------------- *)
(* the median as a rank statement: at most half of the scores lie strictly below it, at most half strictly above *)

Lemma split_at_nth (s : list Z) : forall i, (i < length s)%nat -> s = firstn i s ++ nth i s 0 :: skipn (S i) s.
Proof.
  induction s as [|x s IH]; intros [|i] H; cbn in *; try lia; [reflexivity|]. f_equal. apply IH. lia.
Qed.

Lemma sorted_app_mid a m b : StronglySorted Z.le (a ++ m :: b) -> Forall (fun x => x <= m) a /\ Forall (fun x => m <= x) b.
Proof.
  induction a as [|y a IH]; cbn; intros H.
  - split; [constructor|]. apply StronglySorted_inv in H. apply H.
  - apply StronglySorted_inv in H. destruct H as [Hs Hall]. destruct (IH Hs) as [Ha Hb]. split; [|exact Hb].
    constructor; [|exact Ha]. rewrite Forall_forall in Hall. apply Hall. apply in_or_app. right. left. reflexivity.
Qed.

Lemma filter_nil_Forall {A} (P : A -> bool) l : Forall (fun x => P x = false) l -> filter P l = [].
Proof. induction 1 as [|x l Hx _ IH]; [reflexivity|]. cbn. rewrite Hx. exact IH. Qed.

Lemma filter_length_le' {A} (P : A -> bool) l : (length (filter P l) <= length l)%nat.
Proof. induction l as [|x l IH]; cbn; [lia|]. destruct (P x); cbn; lia. Qed.

(* in a sorted list split at position i: a predicate that fails from s[i] on holds for at most i elements,
   one that fails up to s[i] holds for at most n - i - 1 elements *)
Lemma count_low (s : list Z) (P : Z -> bool) i : (i < length s)%nat -> StronglySorted Z.le s ->
  (forall x, nth i s 0 <= x -> P x = false) -> (length (filter P s) <= i)%nat.
Proof.
  intros Hi Hs HP. rewrite (split_at_nth s i Hi) in Hs |- *. destruct (sorted_app_mid _ _ _ Hs) as [_ Hb].
  rewrite filter_app. cbn [filter]. rewrite HP by lia.
  rewrite (filter_nil_Forall P (skipn (S i) s)).
  - rewrite app_nil_r. etransitivity; [apply filter_length_le'|]. rewrite firstn_length. lia.
  - eapply Forall_impl; [|exact Hb]. intros x Hx. apply HP. exact Hx.
Qed.
Lemma count_high (s : list Z) (P : Z -> bool) i : (i < length s)%nat -> StronglySorted Z.le s ->
  (forall x, x <= nth i s 0 -> P x = false) -> (length (filter P s) + S i <= length s)%nat.
Proof.
  intros Hi Hs HP. pose proof (split_at_nth s i Hi) as E. rewrite E in Hs.
  destruct (sorted_app_mid _ _ _ Hs) as [Ha _].
  assert (L : length s = (i + S (length (skipn (S i) s)))%nat).
  { rewrite E at 1. rewrite app_length, firstn_length. cbn [length]. lia. }
  rewrite E at 1. rewrite filter_app. cbn [filter]. rewrite HP by lia.
  rewrite (filter_nil_Forall P (firstn i s)).
  - cbn [app]. pose proof (filter_length_le' P (skipn (S i) s)). lia.
  - eapply Forall_impl; [|exact Ha]. intros x Hx. apply HP. exact Hx.
Qed.

Lemma sorted_adjacent (s : list Z) i : (S i < length s)%nat -> StronglySorted Z.le s -> nth i s 0 <= nth (S i) s 0.
Proof.
  intros Hi Hs. pose proof (split_at_nth s (S i) Hi) as E. rewrite E in Hs.
  destruct (sorted_app_mid _ _ _ Hs) as [Ha _]. rewrite Forall_forall in Ha. apply Ha.
  replace (nth i s 0) with (nth i (firstn (S i) s) 0).
  - apply nth_In. rewrite firstn_length. lia.
  - rewrite <- (firstn_skipn (S i) s) at 2. rewrite app_nth1; [reflexivity|]. rewrite firstn_length. lia.
Qed.

Definition below2 (m2 x : Z) : bool := 2 * x <? m2.     (* x < m2/2 *)
Definition above2 (m2 x : Z) : bool := m2 <? 2 * x.     (* x > m2/2 *)

Theorem median2_rank l : l <> [] ->
  (2 * length (filter (below2 (median2 l)) l) <= length l)%nat /\
  (2 * length (filter (above2 (median2 l)) l) <= length l)%nat.
Proof.
  intros Hne. set (s := sort l). assert (Hp : Permutation s l) by apply sort_perm.
  assert (Hs : StronglySorted Z.le s) by apply sort_sorted.
  assert (Hn : (0 < length s)%nat).
  { rewrite (Permutation_length Hp). destruct l; [contradiction|cbn; lia]. }
  rewrite <- (Permutation_length Hp).
  rewrite <- (Permutation_length (Permutation_filter' (below2 (median2 l)) _ _ Hp)).
  rewrite <- (Permutation_length (Permutation_filter' (above2 (median2 l)) _ _ Hp)).
  unfold median2. fold s. set (n := length s) in *.
  destruct (Nat.even n) eqn:Ev.
  - apply Nat.even_spec in Ev. destruct Ev as [h Eh].
    assert (Hh : (n / 2 = h)%nat) by (rewrite Eh, Nat.mul_comm; apply Nat.div_mul; lia).
    rewrite Hh. assert (h1 : (S (h - 1) = h)%nat) by lia.
    pose proof (sorted_adjacent s (h - 1)) as Hadj. rewrite h1 in Hadj. specialize (Hadj ltac:(lia) Hs).
    split.
    + pose proof (count_low s (below2 (nth (h - 1) s 0%Z + nth h s 0%Z)) h ltac:(lia) Hs) as H.
      assert (length (filter (below2 (nth (h - 1) s 0%Z + nth h s 0%Z)) s) <= h)%nat; [|lia].
      apply H. intros x Hx. unfold below2, above2. apply Z.ltb_ge. lia.
    + pose proof (count_high s (above2 (nth (h - 1) s 0%Z + nth h s 0%Z)) (h - 1) ltac:(lia) Hs) as H.
      assert (length (filter (above2 (nth (h - 1) s 0%Z + nth h s 0%Z)) s) + S (h - 1) <= n)%nat; [|lia].
      apply H. intros x Hx. unfold below2, above2. apply Z.ltb_ge. lia.
  - assert (Eo : Nat.odd n = true) by (rewrite <- Nat.negb_even, Ev; reflexivity).
    apply Nat.odd_spec in Eo. destruct Eo as [h Eh].
    assert (Hh : (n / 2 = h)%nat).
    { rewrite Eh. replace (2 * h + 1)%nat with (1 + h * 2)%nat by lia. rewrite Nat.div_add by lia. reflexivity. }
    rewrite Hh. split.
    + pose proof (count_low s (below2 (2 * nth h s 0%Z)) h ltac:(lia) Hs) as H.
      assert (length (filter (below2 (2 * nth h s 0%Z)) s) <= h)%nat; [|lia].
      apply H. intros x Hx. unfold below2, above2. apply Z.ltb_ge. lia.
    + pose proof (count_high s (above2 (2 * nth h s 0%Z)) h ltac:(lia) Hs) as H.
      assert (length (filter (above2 (2 * nth h s 0%Z)) s) + S h <= n)%nat; [|lia].
      apply H. intros x Hx. unfold below2, above2. apply Z.ltb_ge. lia.
Qed.
