(* C06 / audit L8 — the copies of "mirror every triplet" and of "len(L[:cap])" used by C06, C09 (Pipeline/Pool.v) and
   C10 (Features/Interact.v) are the same functions; stated once so a silent drift of one copy breaks this file. *)
From Coq Require Import List ZArith NArith.
From Outrank Require Import Pipeline.Sampler Pipeline.Combos Pipeline.Aggregate Pipeline.Pool Features.Interact.
Import ListNotations.

(* the slice length: Combos uses Sampler.slice_len itself; Interact.cap_len is the same function *)
Lemma cap_len_is_slice_len : forall len cap, Interact.cap_len len cap = Sampler.slice_len len cap.
Proof. reflexivity. Qed.

(* the mirror loop: under any encoding of names (e.g. column positions, E2E's to_agg) and scores into Aggregate rows,
   Combos.mirror and Pool.mirror produce the same rows in the same order *)
Section Mirror.
  Variable g : str -> N.
  Variable sc : score -> Z.
  Definition enc_row (r : Combos.row) : Pool.triplet := ((g (fst (fst r)), g (snd (fst r))), sc (snd r)).

  Lemma mirror_agrees : forall T, map enc_row (Combos.mirror T) = Pool.mirror (map enc_row T).
  Proof.
    induction T as [|t T IH]; [reflexivity|].
    change (Combos.mirror (t :: T)) with (swap3 t :: t :: Combos.mirror T).
    change (map enc_row (t :: T)) with (enc_row t :: map enc_row T).
    change (Pool.mirror (enc_row t :: map enc_row T))
      with (((snd (fst (enc_row t)), fst (fst (enc_row t))), snd (enc_row t)) :: enc_row t :: Pool.mirror (map enc_row T)).
    cbn [map]. rewrite IH. reflexivity.
  Qed.
End Mirror.
