(* C05 — model of the per-batch rank graph values (no proofs in this file).

   Strings are lists of Unicode code points ([list N]); Python / pandas order strings by code point,
   shorter prefix first, which is [scmp].

   * [cats col]    = the sorted distinct values of a column  (pandas: astype('category').cat.categories)
   * [codes col]   = index of every cell in [cats col]       (pandas: .cat.codes)
   * [orient]      = generate_data_for_ranking: the label is moved to the second (conditioning) slot
   * [maxcov a b]  = ranking_cov_alignment.max_pair_coverage on two code vectors, an exact rational
   * [maxcov_old]  = the bucketed version before fix bf8a920 (kept for the refutation witness)
   * [scorer]      = what a heuristic name selects (target type of the generated Gen/Dispatch.v; meaning: Pipeline/Scorers.v)
   * [rank_rows]   = the triplets mixed_rank_graph emits for a list of evaluated pairs, parametric in
                     the scorer (an oracle: sklearn / scipy / numba are not modelled here)           *)
From Coq Require Import String Ascii.
From Coq Require Import List NArith ZArith QArith Bool Arith.
Import ListNotations.

Notation str := (list N) (only parsing).

(* ---- strings ---------------------------------------------------------------------------------- *)

Fixpoint scmp (a b : str) : comparison :=
  match a, b with
  | [], [] => Eq
  | [], _ :: _ => Lt
  | _ :: _, [] => Gt
  | x :: a', y :: b' => match N.compare x y with Eq => scmp a' b' | Lt => Lt | Gt => Gt end
  end.

Definition seqb (a b : str) : bool := match scmp a b with Eq => true | _ => false end.
Definition sltb (a b : str) : bool := match scmp a b with Lt => true | _ => false end.

(* [h in {l1, l2, ...}] *)
Definition smem (h : str) (ls : list str) : bool := existsb (seqb h) ls.

(* ['lit' in h] : substring test *)
Fixpoint sprefix (p s : str) : bool :=
  match p, s with
  | [], _ => true
  | _ :: _, [] => false
  | x :: p', y :: s' => N.eqb x y && sprefix p' s'
  end.
Fixpoint sinfix (p s : str) : bool :=
  sprefix p s || match s with [] => false | _ :: s' => sinfix p s' end.

(* readable ASCII literals for theorem statements: s_of "MI" = [77; 73] *)
Fixpoint s_of (s : string) : str :=
  match s with
  | EmptyString => []
  | String c s' => N_of_ascii c :: s_of s'
  end.

(* ---- category coding --------------------------------------------------------------------------- *)

Fixpoint insert_u (x : str) (l : list str) : list str :=
  match l with
  | [] => [x]
  | y :: t => match scmp x y with
              | Lt => x :: y :: t
              | Eq => y :: t
              | Gt => y :: insert_u x t
              end
  end.

Definition cats (l : list str) : list str := fold_right insert_u [] l.

Fixpoint index_of (x : str) (s : list str) : nat :=
  match s with
  | [] => 0
  | y :: t => if seqb x y then 0 else S (index_of x t)
  end.

Definition codes (l : list str) : list N :=
  let s := cats l in map (fun x => N.of_nat (index_of x s)) l.

(* ---- orientation ------------------------------------------------------------------------------- *)

(* generate_data_for_ranking: (feature_one, feature_two) -> (input column, conditioning column) *)
Definition orient (lbl : str) (p : str * str) : str * str :=
  if seqb (fst p) lbl then (snd p, lbl) else (fst p, snd p).

(* ---- largest joint-value frequency ------------------------------------------------------------- *)

Section MaxFreq.
  Context {A : Type} (eqb : A -> A -> bool).
  Definition cnt (x : A) (l : list A) : N := N.of_nat (length (filter (eqb x) l)).
  Definition maxfreq (l : list A) : N := fold_right (fun x m => N.max (cnt x l) m) 0%N l.
End MaxFreq.

Definition peqb (p q : N * N) : bool := N.eqb (fst p) (fst q) && N.eqb (snd p) (snd q).

Definition frac (c : N) (n : nat) : Q := Z.of_N c # Pos.of_nat n.

Definition maxcov (a b : list N) : Q := frac (maxfreq peqb (combine a b)) (length a).

(* number of rows carrying the joint value (u, v) — the specification side *)
Fixpoint joint (a b : list N) (u v : N) : N :=
  match a, b with
  | x :: a', y :: b' => ((if N.eqb x u && N.eqb y v then 1 else 0) + joint a' b' u v)%N
  | _, _ => 0%N
  end.

(* before fix bf8a920: rows bucketed by (a * 1471343 - b) mod 10^6 (Python's non-negative %) *)
Definition hash_pair (p : N * N) : Z := ((Z.of_N (fst p) * 1471343 - Z.of_N (snd p)) mod 1000000)%Z.
Definition maxcov_old (a b : list N) : Q :=
  frac (maxfreq Z.eqb (map hash_pair (combine a b))) (length a).

(* ---- what a heuristic name selects ------------------------------------------------------------- *)

Inductive scorer : Type :=
| SkMI                      (* sklearn mutual_info_classif, discrete: plug-in MI *)
| Surrogate                 (* cross-validated surrogate model (outside C05's quantifier) *)
| MaxCov                    (* max_pair_coverage *)
| NumbaMI (corr : bool)     (* numba estimator, cardinality correction flag *)
| AMI                       (* sklearn adjusted_mutual_info_score *)
| Pearson                   (* scipy pearsonr(...)[0] *)
| Const                     (* explicit constant-0 branch *)
| Fallback.                 (* name not recognised: warning + constant 0 *)

Definition scorer_eqb (a b : scorer) : bool :=
  match a, b with
  | SkMI, SkMI | Surrogate, Surrogate | MaxCov, MaxCov | AMI, AMI | Pearson, Pearson
  | Const, Const | Fallback, Fallback => true
  | NumbaMI c, NumbaMI d => Bool.eqb c d
  | _, _ => false
  end.

(* ---- rows -------------------------------------------------------------------------------------- *)

Definition frame := list (str * list str).      (* column name, cells *)

Definition col (f : frame) (name : str) : list str :=
  match find (fun c => seqb (fst c) name) f with
  | Some c => snd c
  | None => []
  end.

Section Rows.
  Context {score : Type} (sc : list N -> list N -> score).   (* the selected scorer, an oracle *)

  Definition eval_pair (f : frame) (lbl : str) (p : str * str) : score :=
    let o := orient lbl p in sc (codes (col f (fst o))) (codes (col f (snd o))).

  (* mixed_rank_graph: every evaluated pair yields the triplet and its mirror, same score *)
  Definition rank_rows (f : frame) (lbl : str) (pairs : list (str * str)) : list (str * str * score) :=
    flat_map (fun p => let s := eval_pair f lbl p in [(snd p, fst p, s); (fst p, snd p, s)]) pairs.
  (* the Constant shortcut of mixed_rank_graph: one triplet per evaluated combination, score [zero], NO mirror and
     no scoring call; every other heuristic goes through [rank_rows] *)
  Definition rank_rows_h (constb : bool) (zero : score) (f : frame) (lbl : str) (pairs : list (str * str))
    : list (str * str * score) :=
    if constb then map (fun p => (fst p, snd p, zero)) pairs else rank_rows f lbl pairs.
End Rows.

(* the (A, B) part of the rows of one batch — what the harness compares as a multiset with the emitted rows *)
Definition row_pairs (constb : bool) (pairs : list (str * str)) : list (str * str) :=
  map (fun r => fst r) (rank_rows_h (fun _ _ => tt) constb tt [] [] pairs).

(* ---- interface used by the harness (DESIGN Appendix C) ----------------------------------------- *)

(* a case = the columns of one batch + index pairs for which the exact max-coverage is wanted;
   the model's observable = the code vectors and those rationals *)
Definition C05_case : Type := (list (list str) * list (nat * nat))%type.
Definition C05_obs : Type := (list (list N) * list Q)%type.
Definition C05_model (c : C05_case) : C05_obs :=
  let cs := map codes (fst c) in
  (cs, map (fun ij => maxcov (nth (fst ij) cs []) (nth (snd ij) cs [])) (snd c)).

(* printed form: rationals as (numerator, denominator) so the harness never parses Q notations *)
Definition C05_enc (o : C05_obs) : list (list N) * list (Z * Z) :=
  (fst o, map (fun q => (Qnum q, Zpos (Qden q))) (snd o)).
