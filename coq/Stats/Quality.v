(* C13 — executable model of the data-quality statistics of outrank:
     core_ranking.compute_coverage / compute_cardinalities / compute_value_counts as
     compute_batch_ranking calls them once per mini-batch, and the annotation /
     value_repetitions.json / rare-value report computed from the module globals at the end
     (task_ranking.py, core_utils.summarize_rare_counts).
   Self-contained: the cardinality sketch is modelled in its exact (warm) phase only, the
   bounded counter is PrimitiveConstrainedCounter.add, the rare-value machine is the pair of
   globals GLOBAL_RARE_VALUE_STORAGE / IGNORED_VALUES.
   No proofs here: the model must still run when a proof breaks (Stats/QualityProofs.v). *)
From Coq Require Import List ListDec Arith NArith ZArith QArith Bool.
From Outrank Require Sketch.HLL.       (* C14's model of HyperLogLogWCache, both phases; used qualified *)
Import ListNotations.
Local Open Scope Z_scope.

(* ---- data ---------------------------------------------------------------------------- *)
Definition str := list N.                 (* Unicode code points *)
Definition str_eq_dec : forall a b : str, {a = b} + {a <> b} := list_eq_dec N.eq_dec.

(* What the statistics functions see in a cell of the DataFrame of one mini-batch: a Python str, or — for
   a cell the parser left as None (ob-vw: absent namespace) — the missing marker pandas puts there:
   float nan when the column of that batch also holds strings (StringDtype), the None object itself when
   every cell of that column of the batch is None (object dtype).  nan and None are two different
   dictionary keys, both different from every string; nan is truthy and str(nan) = 'nan', None is falsy. *)
(* [Num s nz]: a numeric cell of the ENRICHED frame (the statistics run after feature construction: noise baseline
   columns hold ints / floats).  A number is represented by its str() [s] (what the sketch hashes) and whether it is
   non-zero (`if unique_value:` drops 0 and 0.0); two numeric keys are equal iff their strings are (columns are
   homogeneous: all ints or all floats, no -0.0 / nan); a number is never equal to a string or a missing symbol. *)
Inductive val := V (s : str) | NaN | PyNone | Num (s : str) (nz : bool).
Definition val_eq_dec : forall a b : val, {a = b} + {a <> b}.
Proof. decide equality. apply str_eq_dec. apply Bool.bool_dec. apply str_eq_dec. Defined.

Definition row := list val.
Definition batch := list row.             (* the rows of one mini-batch as the DataFrame holds them *)

Definition key := (nat * val)%type.       (* (column index, value) *)
Definition key_eq_dec : forall a b : key, {a = b} + {a <> b}.
Proof. decide equality. apply val_eq_dec. apply Nat.eq_dec. Defined.

(* input_dataframe[column].values *)
Definition column (j : nat) (b : list row) : list val := map (fun r => nth j r PyNone) b.

(* the parsers' rows: None = absent.  [frame_raw]: the frame pandas builds from one batch of them, which is what the
   statistics functions see when called directly on pd.DataFrame(rows) (and what the pipeline fed them before fix
   2ffc0d7).  [frame_batch] (below): the frame compute_batch_ranking hands them, pd.DataFrame(rows).fillna(''). *)
Definition cell := option val.            (* Some (V s) for a parsed field, Some (Num ..) for a constructed numeric cell *)
Definition rrow := list cell.
Definition is_none (c : cell) : bool := match c with None => true | Some _ => false end.
Definition allnone (j : nat) (b : list rrow) : bool := forallb (fun r => is_none (nth j r None)) b.
Definition frame_cell (b : list rrow) (jc : nat * cell) : val :=
  match snd jc with
  | Some v => v
  | None => if allnone (fst jc) b then PyNone else NaN
  end.
Definition frame_raw (b : list rrow) : batch :=
  map (fun r => map (frame_cell b) (combine (seq 0 (length r)) r)) b.
(* compute_batch_ranking: input_dataframe.fillna('') — an absent field is carried as the empty string *)
Definition fill_cell (c : cell) : val := match c with Some v => v | None => V [] end.
Definition fill (rows : list rrow) : list row := map (map fill_cell) rows.
Definition frame_batch (b : list rrow) : batch := fill b.
(* rows without None cells: every cell is its string *)
Definition lift_cell (c : cell) : val := match c with Some v => v | None => NaN end.
Definition lift (rows : list rrow) : list row := map (map lift_cell) rows.
Definition none_free (rows : list rrow) : bool := forallb (forallb (fun c => negb (is_none c))) rows.

(* `if unique_value:` and str(unique_value) *)
Definition truthy (v : val) : bool :=
  match v with V [] => false | V _ => true | NaN => true | PyNone => false | Num _ nz => nz end.
Definition str_of (v : val) : str :=
  match v with V s => s | NaN => [110; 97; 110]%N | PyNone => [78; 111; 110; 101]%N | Num s _ => s end.

(* ---- association lists with Z counts (collections.Counter, insertion order kept) ------ *)
Section Assoc.
  Variable A : Type.
  Variable eq_dec : forall a b : A, {a = b} + {a <> b}.
  Definition al := list (A * Z).

  Fixpoint get (s : al) (k : A) : Z :=
    match s with
    | [] => 0
    | (k', c) :: r => if eq_dec k k' then c else get r k
    end.

  Fixpoint incr (s : al) (k : A) : al :=
    match s with
    | [] => [(k, 1)]
    | (k', c) :: r => if eq_dec k k' then (k', c + 1) :: r else (k', c) :: incr r k
    end.

  Definition cnt (l : list A) (k : A) : Z := Z.of_nat (count_occ eq_dec l k).
  (* short-circuit membership and duplicate removal (stdlib's in_dec/nodup traverse the whole list under
     vm_compute); [dedup] is proved equal to [nodup] in QualityProofs.v *)
  Fixpoint memb (k : A) (l : list A) : bool :=
    match l with
    | [] => false
    | x :: r => if eq_dec k x then true else memb k r
    end.
  Fixpoint dedup (l : list A) : list A :=
    match l with
    | [] => []
    | x :: r => if memb x r then dedup r else x :: dedup r
    end.
End Assoc.
Arguments get {A} eq_dec s k.
Arguments incr {A} eq_dec s k.
Arguments cnt {A} eq_dec l k.
Arguments memb {A} eq_dec k l.
Arguments dedup {A} eq_dec l.

(* ---- (i) cardinality sketch while warm ------------------------------------------------ *)
(* HyperLogLogWCache.add before the conversion: a set of at most [cap] hash values; an add of
   a new value when the set is full converts the sketch (state [Cold]) — C13 claims nothing
   from then on (that is C14). *)
Inductive sketch := Warm (s : list N) | Cold.

Section Card.
  Variable hash : val -> N.               (* v |-> internal_hash(str(v)): oracle, any function *)
  Variable cap : Z.                       (* warmup_size (2^18 in the code) *)

  Definition sk_add (sk : sketch) (x : N) : sketch :=
    match sk with
    | Cold => Cold
    | Warm s => if in_dec N.eq_dec x s then Warm s
                else if Z.of_nat (length s) <? cap then Warm (x :: s) else Cold
    end.

  Definition sk_len (sk : sketch) : option nat :=
    match sk with Warm s => Some (length s) | Cold => None end.

  (* what one batch inserts for one column: the hashes of the SET of its truthy values *)
  Definition batch_ins (col : list val) : list N :=
    map hash (filter truthy (dedup val_eq_dec col)).

  (* any insertion lists, one per batch *)
  Definition sk_run (inss : list (list N)) : sketch :=
    fold_left (fun sk ins => fold_left sk_add ins sk) inss (Warm []).

  Definition card (j : nat) (bs : list batch) : option nat :=
    sk_len (sk_run (map (fun b => batch_ins (column j b)) bs)).

  (* the specification: a function of the whole column *)
  Definition card_spec (col : list val) : option nat :=
    let d := length (dedup N.eq_dec (map hash (filter truthy col))) in
    if Z.of_nat d <=? cap then Some d else None.

  (* hash-free exact count *)
  Definition distinct_truthy (col : list val) : nat :=
    length (dedup val_eq_dec (filter truthy col)).
End Card.

(* the real sketch, both phases (Sketch/HLL.v): the values it receives are the digests of this model; [h2] is its own
   hash of a digest (xxh32(seed = p)).  What __len__ returns after a history: [Exact n] or [Est z] (z empty registers) *)
Definition card_hll (p : N) (W : nat) (width : N) (h2 : N -> N) (hash : val -> N) (j : nat) (bs : list batch) : HLL.lent :=
  HLL.len (HLL.run p W width h2 (concat (map (fun b => batch_ins hash (column j b)) bs))).
(* the specification: the sketch fed once with the truthy cells of the whole column *)
Definition card_hll_spec (p : N) (W : nat) (width : N) (h2 : N -> N) (hash : val -> N) (col : list val) : HLL.lent :=
  HLL.len (HLL.run p W width h2 (map hash (filter truthy col))).

(* ---- (ii) the bounded exact counter ---------------------------------------------------- *)
(* PrimitiveConstrainedCounter.add: counted only while fewer than [bound] keys are stored —
   once the key count reaches the bound EVERY add is dropped, also for stored keys. *)
Definition bc_add (bound : Z) (c : al val) (v : val) : al val :=
  if Z.of_nat (length c) <? bound then incr val_eq_dec c v else c.

Definition bc_run (bound : Z) (cols : list (list val)) : al val :=
  fold_left (fun c col => fold_left (bc_add bound) col c) cols [].

Definition counter (bound : Z) (j : nat) (bs : list batch) : al val :=
  bc_run bound (map (column j) bs).

(* value_repetitions.json: for each edge x the number of stored values with count > x *)
Definition hist_of (edges : list Z) (c : al val) : list Z :=
  map (fun x => Z.of_nat (length (filter (fun kc : val * Z => x <? snd kc) c))) edges.

Definition hist (edges : list Z) (bound : Z) (j : nat) (bs : list batch) : list Z :=
  hist_of edges (counter bound j bs).

Definition hist_spec (edges : list Z) (col : list val) : list Z :=
  let vals := map (fun v => cnt val_eq_dec col v) (dedup val_eq_dec col) in
  map (fun x => Z.of_nat (length (filter (fun c => x <? c) vals))) edges.

(* the cells the counter really counts: everything up to and including the arrival of the bound-th distinct value
   ([seen]: the distinct values stored so far); afterwards every add is dropped *)
Fixpoint eff_prefix (bound : Z) (seen : list val) (col : list val) : list val :=
  match col with
  | [] => []
  | x :: r => if Z.of_nat (length seen) <? bound
              then x :: eff_prefix bound (if memb val_eq_dec x seen then seen else x :: seen) r
              else []
  end.
(* the histogram of ANY column: the exact histogram of that prefix *)
Definition hist_general (edges : list Z) (bound : Z) (col : list val) : list Z :=
  hist_spec edges (eff_prefix bound [] col).

Definition default_edges : list Z := [0; 1; 10; 100; 1000; 10000; 100000].

(* ---- (iii) the rare-value state machine ------------------------------------------------ *)
(* the (column, value) cells of a frame in the order compute_value_counts visits them *)
Definition keys_of (ncols : nat) (b : list row) : list key :=
  flat_map (fun j => map (fun v => (j, v)) (column j b)) (seq 0%nat ncols).

Definition rstate := (al key * list key)%type.       (* storage, IGNORED_VALUES *)

Definition rv_count (ign : list key) (st : al key) (k : key) : al key :=
  if memb key_eq_dec k ign then st else incr key_eq_dec st k.

Definition rv_batch (thr : Z) (ncols : nat) (s : rstate) (b : batch) : rstate :=
  let '(st, ign) := s in
  let st1 := fold_left (rv_count ign) (keys_of ncols b) st in
  (filter (fun kc : key * Z => negb (thr <? snd kc)) st1,
   map fst (filter (fun kc : key * Z => thr <? snd kc) st1) ++ ign).

Definition rv_run (thr : Z) (ncols : nat) (bs : list batch) : rstate :=
  fold_left (rv_batch thr ncols) bs ([], []).

Definition rare (thr : Z) (ncols : nat) (bs : list batch) : al key := fst (rv_run thr ncols bs).

(* before fix 549e068 the test was `value not in ignored_values`, a bare value against a set
   of pairs: never a member, so every cell is counted *)
Definition rv_batch_old (thr : Z) (ncols : nat) (s : rstate) (b : batch) : rstate :=
  let '(st, ign) := s in
  let st1 := fold_left (incr key_eq_dec) (keys_of ncols b) st in
  (filter (fun kc : key * Z => negb (thr <? snd kc)) st1,
   map fst (filter (fun kc : key * Z => thr <? snd kc) st1) ++ ign).

Definition rare_old (thr : Z) (ncols : nat) (bs : list batch) : al key :=
  fst (fold_left (rv_batch_old thr ncols) bs ([], [])).

(* specification: the total number of cells of column j holding v over all consumed rows *)
Definition total (ncols : nat) (rows : list row) (k : key) : Z :=
  if (fst k <? ncols)%nat then cnt val_eq_dec (column (fst k) rows) (snd k) else 0.

(* executable checker for a reported table (any order) against the specification *)
Fixpoint nodup_keysb (l : list key) : bool :=
  match l with
  | [] => true
  | k :: r => negb (memb key_eq_dec k r) && nodup_keysb r
  end.

Definition rare_checkb (thr : Z) (ncols : nat) (rows : list row) (rep : al key) : bool :=
  nodup_keysb (map fst rep)
  && forallb (fun kc : key * Z => (snd kc =? total ncols rows (fst kc)) && (0 <? snd kc) && (snd kc <=? thr)) rep
  && forallb (fun k => let t := total ncols rows k in
                       negb ((0 <? t) && (t <=? thr)) || (get key_eq_dec rep k =? t))
             (dedup key_eq_dec (keys_of ncols rows)).

(* ---- (iv) coverage ----------------------------------------------------------------------- *)
(* args.missing_value_symbols.split(',') *)
Fixpoint split_on (c : N) (s : str) : list str :=
  match s with
  | [] => [[]]
  | x :: r => match split_on c r with
              | [] => [[]]                                   (* unreachable *)
              | h :: t => if N.eqb x c then [] :: h :: t else (x :: h) :: t
              end
  end.

Definition sum_Z (l : list Z) : Z := fold_right Z.add 0 l.

(* sum over the SET of symbols of list.count(symbol) *)
Definition miss_count (syms : list str) (col : list val) : Z :=
  sum_Z (map (fun x => cnt val_eq_dec col (V x)) (dedup str_eq_dec syms)).

Definition cov_batch (syms : list str) (col : list val) : Q :=
  ((1 - inject_Z (miss_count syms col) / inject_Z (Z.of_nat (length col))) * 100)%Q.

Definition coverages (syms : list str) (j : nat) (bs : list batch) : list Q :=
  map (fun b => cov_batch syms (column j b)) bs.

Definition qsum (l : list Q) : Q := fold_right Qplus 0%Q l.
Definition qmean (l : list Q) : Q := (qsum l / inject_Z (Z.of_nat (length l)))%Q.

(* np.rint: nearest integer, ties to even *)
Definition round_half_even (x : Q) : Z :=
  let n := Qnum x in let d := Zpos (Qden x) in
  let fl := n / d in let r := n mod d in
  match 2 * r ?= d with
  | Lt => fl
  | Gt => fl + 1
  | Eq => if Z.even fl then fl else fl + 1
  end.

(* int(round(mean, 1)) *)
Definition cov_annot (covs : list Q) : Z := Z.quot (round_half_even (qmean covs * 10)%Q) 10.

(* ---- whole histories --------------------------------------------------------------------- *)
(* cut a row table into consecutive batches of the given sizes *)
Fixpoint cut {A} (sizes : list nat) (rows : list A) : list (list A) :=
  match sizes with
  | [] => []
  | n :: r => firstn n rows :: cut r (skipn n rows)
  end.

(* the frames_raw of a history of parsed batches *)
Definition frames_raw (bs : list (list rrow)) : list batch := map frame_raw bs.       (* direct calls *)
Definition frames (bs : list (list rrow)) : list batch := map frame_batch bs.         (* through the pipeline *)

Fixpoint lookup_hash (tab : list (str * N)) (v : str) : N :=
  match tab with
  | [] => 0%N
  | (k, h) :: r => if str_eq_dec v k then h else lookup_hash r v
  end.
(* the sketch receives internal_hash(str(v)) *)
Definition hash_val (tab : list (str * N)) (v : val) : N := lookup_hash tab (str_of v).

Record C13_case := mkCase {
  c_ncols : nat;
  c_pipeline : bool;               (* batches go through compute_batch_ranking (fillna) / the functions are called directly *)
  c_rows : list rrow;              (* parsed rows; None = absent *)
  c_thr : Z;                       (* args.rare_value_count_upper_bound *)
  c_bound : Z;                     (* args.max_unique_hist_constraint *)
  c_cap : Z;                       (* warmup_size of the sketches *)
  c_capn : nat;                    (*   the same as a nat (Z.to_nat c_cap, computed once per case) *)
  c_syms : str;                    (* args.missing_value_symbols *)
  c_edges : list Z;                (* bucket edges of value_repetitions.json *)
  c_hash : list (str * N);         (* internal_hash tabulated on the strings of the table (and 'nan') *)
  c_p : N;                         (* the sketch instance: index bits, *)
  c_width : N;                     (*   width constant (64 - p), *)
  c_h2 : list (N * N)              (*   and its own hash xxh32(seed = p) tabulated on the digests above *)
}.

Fixpoint lookup_N (tab : list (N * N)) (x : N) : N :=
  match tab with
  | [] => 0%N
  | (k, h) :: r => if N.eqb x k then h else lookup_N r x
  end.
(* __len__ of the real sketch: (0, n) exact, (1, z) linear-counting value of z empty registers *)
Definition enc_lent (x : HLL.lent) : Z * Z :=
  match x with HLL.Exact n => (0, Z.of_nat n) | HLL.Est z => (1, Z.of_N z) end.
Definition case_card (c : C13_case) (j : nat) (bs : list batch) : HLL.lent :=
  card_hll (c_p c) (c_capn c) (c_width c) (lookup_N (c_h2 c)) (hash_val (c_hash c)) j bs.
Definition case_card_spec (c : C13_case) (col : list val) : HLL.lent :=
  card_hll_spec (c_p c) (c_capn c) (c_width c) (lookup_N (c_h2 c)) (hash_val (c_hash c)) col.

(* per column: cardinality, histogram, per-batch coverages, mean, annotation;  and the rare table *)
(* rationals are printed as (numerator, denominator) *)
Definition qpair (q : Q) : Z * Z := (Qnum q, Zpos (Qden q)).
Definition col_obs := ((Z * Z) * list Z * list (Z * Z) * (Z * Z) * Z)%type.
(* values are printed as (tag, string): 0 = str, 1 = nan, 2 = None, 3 / 4 = non-zero / zero number *)
Definition val_enc (v : val) : Z * str :=
  match v with V s => (0, s) | NaN => (1, []) | PyNone => (2, []) | Num s true => (3, s) | Num s false => (4, s) end.
Definition C13_obs := (list col_obs * list (nat * (Z * str) * Z))%type.

Definition C13_model (c : C13_case) (sizes : list nat) : C13_obs :=
  let bs := (if c_pipeline c then frames else frames_raw) (cut sizes (c_rows c)) in
  let syms := split_on 44 (c_syms c) in
  (map (fun j =>
          let covs := coverages syms j bs in
          (enc_lent (case_card c j bs),
           hist (c_edges c) (c_bound c) j bs,
           map qpair covs, qpair (qmean covs), cov_annot covs))
       (seq 0%nat (c_ncols c)),
   map (fun kc : key * Z => (fst (fst kc), val_enc (snd (fst kc)), snd kc)) (rare (c_thr c) (c_ncols c) bs)).

(* the specification side, a function of the table alone (through the pipeline: [fill], claimed for every
   table; direct calls: claimed for None-free tables/columns, where [lift] is the frame content whatever the split):
   what any implementation history over any composition must report.  Per column: the length of the real sketch fed
   once with the whole column (both phases), the hash-free exact count of distinct truthy values, the histogram of
   the counted prefix (any bound), and whether the whole column is counted (distinct < bound) *)
Definition table_view (c : C13_case) : list row := if c_pipeline c then fill (c_rows c) else lift (c_rows c).

Definition C13_spec (c : C13_case) : list ((Z * Z) * nat * list Z * bool) :=
  map (fun j =>
         let col := column j (table_view c) in
         (enc_lent (case_card_spec c col),
          distinct_truthy col,
          hist_general (c_edges c) (c_bound c) col,
          Z.of_nat (length (dedup val_eq_dec col)) <? c_bound c))
      (seq 0%nat (c_ncols c)).

(* verdicts on what an implementation run reported (card per column, histogram per column, rare table) *)
Definition optnat_eqb (a : option nat) (b : nat) : bool :=
  match a with Some x => Nat.eqb x b | None => true end.
Definition zlist_eqb (a b : list Z) : bool :=
  if list_eq_dec Z.eq_dec a b then true else false.

(* cardinality: judged here while the specification is in the exact phase (the cold value is a float formula of z,
   compared by the harness); histogram: the general form, for every column *)
Definition C13_check (c : C13_case) (o : list nat * list (list Z) * al key) : list bool * list bool * bool :=
  let '(cards, hists, rep) := o in
  let rows := table_view c in
  (map (fun jc : nat * nat =>
          match case_card_spec c (column (fst jc) rows) with
          | HLL.Exact n => Nat.eqb n (snd jc)
          | HLL.Est _ => true
          end)
       (combine (seq 0%nat (c_ncols c)) cards),
   map (fun jh : nat * list Z => zlist_eqb (hist_general (c_edges c) (c_bound c) (column (fst jh) rows)) (snd jh))
       (combine (seq 0%nat (c_ncols c)) hists),
   rare_checkb (c_thr c) (c_ncols c) rows rep).

(* the constants the property names, held to the source by the harness (ast) *)
Definition warmup_capacity : Z := 262144.        (* HyperLogLogWCache: int((1 << 19) / 2) *)
Definition sketch_p : N := 19.
