(* C13 — proofs about Stats/Quality.v *)
From Coq Require Import List ListDec Arith NArith ZArith QArith Bool Lia ZifyBool Permutation.
From Outrank Require Import Stats.Quality.
Import ListNotations.
Local Open Scope Z_scope.

(* ====================================================================================== *)
(* generic list facts                                                                      *)

Lemma fold_left_concat {A B} (f : A -> B -> A) (ls : list (list B)) (a : A) :
  fold_left (fun acc l => fold_left f l acc) ls a = fold_left f (concat ls) a.
Proof.
  revert a. induction ls as [|l ls IH]; intro a; cbn [concat fold_left]; [reflexivity|].
  rewrite fold_left_app. apply IH.
Qed.

Lemma column_app j (b1 b2 : list row) : column j (b1 ++ b2) = column j b1 ++ column j b2.
Proof. apply map_app. Qed.

Lemma column_concat j (bs : list batch) : column j (concat bs) = concat (map (column j) bs).
Proof. unfold column. apply concat_map. Qed.

Lemma length_filter_perm {A} (p : A -> bool) (l l' : list A) :
  Permutation l l' -> length (filter p l) = length (filter p l').
Proof.
  induction 1; cbn [filter]; auto.
  - destruct (p x); cbn [length]; congruence.
  - destruct (p x), (p y); reflexivity.
  - congruence.
Qed.

Lemma filter_map_comm {A B} (f : A -> B) (p : B -> bool) (l : list A) :
  filter p (map f l) = map f (filter (fun x => p (f x)) l).
Proof.
  induction l as [|a l IH]; cbn [map filter]; [reflexivity|].
  destruct (p (f a)); cbn [map]; congruence.
Qed.

Lemma same_set_nodup_length {A} (dec : forall a b : A, {a = b} + {a <> b}) (l l' : list A) :
  (forall x, In x l <-> In x l') -> length (nodup dec l) = length (nodup dec l').
Proof.
  intro H. apply Permutation_length. apply NoDup_Permutation; try apply NoDup_nodup.
  intro x. rewrite !nodup_In. apply H.
Qed.

(* ====================================================================================== *)
(* association lists                                                                       *)

Section AssocFacts.
  Variable A : Type.
  Variable dec : forall a b : A, {a = b} + {a <> b}.
  Notation al := (list (A * Z)).

  Definition wf (s : al) : Prop := NoDup (map fst s) /\ Forall (fun kc => 0 < snd kc) s.

  Lemma wf_nil : wf [].
  Proof. split; constructor. Qed.

  Lemma get_incr s k k' : get dec (incr dec s k) k' = get dec s k' + (if dec k' k then 1 else 0).
  Proof.
    induction s as [|[a c] s IH]; cbn [incr get].
    - destruct (dec k' k); lia.
    - destruct (dec k a) as [->|Hka]; cbn [get].
      + destruct (dec k' a); lia.
      + destruct (dec k' a) as [->|]; [destruct (dec a k); [congruence|lia]|apply IH].
  Qed.

  Lemma keys_incr s k x : In x (map fst (incr dec s k)) <-> x = k \/ In x (map fst s).
  Proof.
    induction s as [|[a c] s IH]; cbn [incr map fst In].
    - intuition.
    - destruct (dec k a) as [->|Hka]; cbn [map fst In]; [intuition|]. rewrite IH. intuition.
  Qed.

  Lemma wf_incr s k : wf s -> wf (incr dec s k).
  Proof.
    intros [Hn Hp]. induction s as [|[a c] s IH]; cbn [incr].
    - split; [repeat constructor; intros []|repeat constructor; cbn; lia].
    - cbn [map fst] in Hn. inversion Hn as [|? ? Hna Hn']; subst. inversion Hp as [|? ? Hc Hp']; subst.
      cbn [snd] in Hc.
      destruct (dec k a) as [->|Hka].
      + split; [cbn [map fst]; constructor; assumption|constructor; [cbn [snd]; lia|assumption]].
      + destruct (IH Hn' Hp') as [I1 I2]. split.
        * cbn [map fst]. constructor; [|assumption]. rewrite keys_incr. intros [E|E]; [congruence|contradiction].
        * constructor; assumption.
  Qed.

  Lemma length_incr s k :
    length (incr dec s k) = if in_dec dec k (map fst s) then length s else S (length s).
  Proof.
    induction s as [|[a c] s IH]; cbn [incr map fst length].
    - destruct (in_dec dec k []) as [[]|]; reflexivity.
    - destruct (dec k a) as [->|Hka]; cbn [length].
      + destruct (in_dec dec a (a :: map fst s)) as [|n]; [reflexivity|exfalso; apply n; left; reflexivity].
      + rewrite IH. destruct (in_dec dec k (map fst s)) as [i|n], (in_dec dec k (a :: map fst s)) as [i'|n'];
          try reflexivity.
        * exfalso; apply n'; right; assumption.
        * destruct i' as [E|E]; [congruence|contradiction].
  Qed.

  Lemma get_notin s k : ~ In k (map fst s) -> get dec s k = 0.
  Proof.
    induction s as [|[a c] s IH]; cbn [get map fst In]; [reflexivity|].
    intro H. destruct (dec k a) as [->|]; [exfalso; apply H; left; reflexivity|apply IH; tauto].
  Qed.

  Lemma wf_In s k c : wf s -> (In (k, c) s <-> get dec s k = c /\ 0 < c).
  Proof.
    intros [Hn Hp]. induction s as [|[a c0] s IH]; cbn [get In].
    - split; [intros []|lia].
    - cbn [map fst] in Hn. inversion Hn as [|? ? Hna Hn']; subst. inversion Hp as [|? ? Hc Hp']; subst.
      cbn [snd] in Hc. specialize (IH Hn' Hp').
      destruct (dec k a) as [->|Hka].
      + split.
        * intros [E|E]; [inversion E; subst; lia|]. exfalso. apply Hna. apply (in_map fst) in E. exact E.
        * intros [E1 E2]. left. congruence.
      + rewrite <- IH. split; [intros [E|E]; [inversion E; congruence|assumption]|tauto].
  Qed.

  Lemma wf_get_pos s k : wf s -> (0 < get dec s k <-> In k (map fst s)).
  Proof.
    intro W. split.
    - intro H. assert (I : In (k, get dec s k) s) by (apply wf_In; auto).
      apply (in_map fst) in I. exact I.
    - intro H. apply in_map_iff in H. destruct H as [[k' c] [E I]]. cbn [fst] in E. subst k'.
      apply wf_In in I; [|assumption]. lia.
  Qed.

  Lemma wf_get_nonneg s k : wf s -> 0 <= get dec s k.
  Proof.
    intro W. destruct (in_dec dec k (map fst s)) as [i|n].
    - apply wf_get_pos in i; auto. lia.
    - rewrite get_notin; auto. lia.
  Qed.

  Lemma wf_NoDup s : wf s -> NoDup s.
  Proof. intros [Hn _]. eapply NoDup_map_inv. exact Hn. Qed.

  Lemma wf_filter (p : A * Z -> bool) s : wf s -> wf (filter p s).
  Proof.
    intros [Hn Hp]. split.
    - induction s as [|[a c] s IH]; cbn [filter]; [constructor|].
      cbn [map fst] in Hn. inversion Hn as [|? ? Hna Hn']; subst. inversion Hp; subst.
      destruct (p (a, c)); [|auto]. cbn [map fst]. constructor; [|auto].
      intro H. apply Hna. apply in_map_iff in H. destruct H as [x [E I]]. apply filter_In in I.
      apply in_map_iff. exists x. tauto.
    - apply Forall_forall. intros x I. apply filter_In in I. rewrite Forall_forall in Hp. apply Hp. tauto.
  Qed.

  Lemma get_filter (q : Z -> bool) s k : wf s ->
    get dec (filter (fun kc : A * Z => q (snd kc)) s) k = if q (get dec s k) then get dec s k else 0.
  Proof.
    intros [Hn Hp]. induction s as [|[a c] s IH]; cbn [filter get]; [destruct (q 0); reflexivity|].
    cbn [map fst] in Hn. inversion Hn as [|? ? Hna Hn']; subst. inversion Hp as [|? ? Hc Hp']; subst.
    specialize (IH Hn' Hp'). cbn [snd].
    destruct (dec k a) as [->|Hka].
    - destruct (q c) eqn:Eq; cbn [get].
      + destruct (dec a a); [reflexivity|congruence].
      + rewrite IH. rewrite (get_notin s a Hna). destruct (q 0); reflexivity.
    - destruct (q c); cbn [get]; [destruct (dec k a); [congruence|]|]; exact IH.
  Qed.

  Lemma wf_perm s1 s2 : wf s1 -> wf s2 -> (forall k, get dec s1 k = get dec s2 k) -> Permutation s1 s2.
  Proof.
    intros W1 W2 H. apply NoDup_Permutation; try (apply wf_NoDup; assumption).
    intros [k c]. rewrite (wf_In s1 k c W1), (wf_In s2 k c W2), H. tauto.
  Qed.

  (* folding incr = counting *)
  Lemma get_fold_incr l s k : get dec (fold_left (incr dec) l s) k = get dec s k + cnt dec l k.
  Proof.
    revert s. induction l as [|a l IH]; intro s; unfold cnt in *; cbn [fold_left count_occ].
    - cbn. lia.
    - rewrite IH, get_incr. destruct (dec k a) as [E1|E1], (dec a k) as [E2|E2]; try congruence; lia.
  Qed.

  Lemma wf_fold_incr l s : wf s -> wf (fold_left (incr dec) l s).
  Proof. revert s. induction l as [|a l IH]; intros s W; cbn [fold_left]; auto using wf_incr. Qed.

  Lemma keys_fold_incr l s x :
    In x (map fst (fold_left (incr dec) l s)) <-> In x l \/ In x (map fst s).
  Proof.
    revert s. induction l as [|a l IH]; intro s; cbn [fold_left In]; [tauto|].
    rewrite IH, keys_incr. intuition.
  Qed.

  Lemma cnt_app l1 l2 k : cnt dec (l1 ++ l2) k = cnt dec l1 k + cnt dec l2 k.
  Proof. unfold cnt. rewrite count_occ_app. lia. Qed.

  Lemma cnt_nonneg l k : 0 <= cnt dec l k.
  Proof. unfold cnt. lia. Qed.

  Lemma cnt_pos_In l k : 0 < cnt dec l k <-> In k l.
  Proof. unfold cnt. rewrite (count_occ_In dec). lia. Qed.

  Lemma memb_true k l : memb dec k l = true <-> In k l.
  Proof. unfold memb. destruct (in_dec dec k l); split; auto; discriminate. Qed.
End AssocFacts.
Arguments wf {A} s.

(* ====================================================================================== *)
(* (i) cardinality                                                                         *)

Definition ins_set (s : list N) (x : N) : list N := if in_dec N.eq_dec x s then s else x :: s.

Lemma ins_set_In xs s y : In y (fold_left ins_set xs s) <-> In y s \/ In y xs.
Proof.
  revert s. induction xs as [|x xs IH]; intro s; cbn [fold_left In]; [tauto|].
  rewrite IH. unfold ins_set. destruct (in_dec N.eq_dec x s) as [i|n]; cbn [In].
  - split; [tauto|]. intros [H|[H|H]]; auto. subst; auto.
  - intuition.
Qed.

Lemma ins_set_NoDup xs s : NoDup s -> NoDup (fold_left ins_set xs s).
Proof.
  revert s. induction xs as [|x xs IH]; intros s H; cbn [fold_left]; [assumption|].
  apply IH. unfold ins_set. destruct (in_dec N.eq_dec x s); [assumption|constructor; assumption].
Qed.

Lemma ins_set_length_ge xs s : (length s <= length (fold_left ins_set xs s))%nat.
Proof.
  revert s. induction xs as [|x xs IH]; intro s; cbn [fold_left]; [lia|].
  etransitivity; [|apply IH]. unfold ins_set. destruct (in_dec N.eq_dec x s); cbn [length]; lia.
Qed.

Lemma ins_set_length xs : length (fold_left ins_set xs []) = length (nodup N.eq_dec xs).
Proof.
  apply Permutation_length. apply NoDup_Permutation.
  - apply ins_set_NoDup. constructor.
  - apply NoDup_nodup.
  - intro y. rewrite ins_set_In, nodup_In. cbn [In]. tauto.
Qed.

Section CardFacts.
  Variable hash : str -> N.
  Variable cap : Z.

  Lemma sk_cold xs : fold_left (sk_add cap) xs Cold = Cold.
  Proof. induction xs; cbn [fold_left sk_add]; auto. Qed.

  Lemma sk_fold xs s : Z.of_nat (length s) <= cap ->
    fold_left (sk_add cap) xs (Warm s) =
    if Z.of_nat (length (fold_left ins_set xs s)) <=? cap then Warm (fold_left ins_set xs s) else Cold.
  Proof.
    revert s. induction xs as [|x xs IH]; intros s H; cbn [fold_left].
    - destruct (Z.leb_spec (Z.of_nat (length s)) cap); [reflexivity|lia].
    - cbn [sk_add]. unfold ins_set at 2 4. destruct (in_dec N.eq_dec x s) as [i|n].
      + apply IH. assumption.
      + destruct (Z.ltb_spec (Z.of_nat (length s)) cap) as [L|L].
        * apply IH. cbn [length]. lia.
        * rewrite sk_cold. pose proof (ins_set_length_ge xs (x :: s)) as G. cbn [length] in G.
          destruct (Z.leb_spec (Z.of_nat (length (fold_left ins_set xs (x :: s)))) cap); [lia|reflexivity].
  Qed.

  (* the sketch length after ANY insertion sequence is a function of the set of inserted hashes *)
  Lemma sk_len_fold xs : 0 <= cap ->
    sk_len (fold_left (sk_add cap) xs (Warm [])) =
    let d := length (nodup N.eq_dec xs) in if Z.of_nat d <=? cap then Some d else None.
  Proof.
    intro H. rewrite sk_fold by (cbn; lia). cbv zeta. rewrite <- ins_set_length.
    destruct (Z.of_nat (length (fold_left ins_set xs [])) <=? cap); reflexivity.
  Qed.

  Lemma sk_run_concat inss : sk_run cap inss = fold_left (sk_add cap) (concat inss) (Warm []).
  Proof. unfold sk_run. apply fold_left_concat. Qed.

  Lemma sets_concat (inss : list (list N)) (cols : list (list str)) :
    Forall2 (fun ins col => forall h, In h ins <-> In h (map hash (filter nonempty col))) inss cols ->
    forall h, In h (concat inss) <-> In h (map hash (filter nonempty (concat cols))).
  Proof.
    induction 1 as [|ins col inss cols H F IH]; intro h; cbn [concat]; [tauto|].
    rewrite filter_app, map_app, !in_app_iff, H, IH. tauto.
  Qed.

  (* whatever each batch inserts — its set of values in any order, or with repetitions — the
     reported cardinality is the specification on the concatenated column *)
  Lemma card_any_order (inss : list (list N)) (cols : list (list str)) : 0 <= cap ->
    Forall2 (fun ins col => forall h, In h ins <-> In h (map hash (filter nonempty col))) inss cols ->
    sk_len (sk_run cap inss) = card_spec hash cap (concat cols).
  Proof.
    intros Hc F. rewrite sk_run_concat, sk_len_fold by assumption. unfold card_spec. cbv zeta.
    rewrite (same_set_nodup_length N.eq_dec _ _ (sets_concat _ _ F)). reflexivity.
  Qed.

  Lemma batch_ins_set col h : In h (batch_ins hash col) <-> In h (map hash (filter nonempty col)).
  Proof.
    unfold batch_ins. rewrite !in_map_iff. split; intros [v [E I]]; exists v; split; auto;
      rewrite filter_In in *; rewrite nodup_In in *; assumption.
  Qed.

  Lemma card_is_spec j (bs : list batch) : 0 <= cap ->
    card hash cap j bs = card_spec hash cap (column j (concat bs)).
  Proof.
    intro Hc. unfold card. rewrite column_concat. apply card_any_order; [assumption|].
    induction bs as [|b bs IH]; cbn [map]; constructor; [apply batch_ins_set|assumption].
  Qed.

  Lemma nodup_map_inj_length (l : list str) :
    (forall u v, In u l -> In v l -> hash u = hash v -> u = v) ->
    length (nodup N.eq_dec (map hash l)) = length (nodup str_eq_dec l).
  Proof.
    induction l as [|a l IH]; intro Inj; [reflexivity|]. cbn [map nodup].
    assert (Inj' : forall u v, In u l -> In v l -> hash u = hash v -> u = v)
      by (intros; apply Inj; cbn [In]; auto).
    destruct (in_dec N.eq_dec (hash a) (map hash l)) as [i|n], (in_dec str_eq_dec a l) as [i'|n'];
      cbn [length]; try (rewrite IH by assumption; reflexivity).
    - exfalso. apply in_map_iff in i. destruct i as [v [E I]]. apply n'.
      assert (v = a) by (apply Inj; cbn [In]; auto). subst. assumption.
    - exfalso. apply n. apply in_map. assumption.
  Qed.

  Lemma card_exact j (bs : list batch) : 0 <= cap ->
    let col := column j (concat bs) in
    (forall u v, In u col -> In v col -> u <> [] -> v <> [] -> hash u = hash v -> u = v) ->
    Z.of_nat (distinct_nonempty col) <= cap ->
    card hash cap j bs = Some (distinct_nonempty col).
  Proof.
    intros Hc col Inj Hd. rewrite card_is_spec by assumption. fold col. unfold card_spec, distinct_nonempty in *.
    cbv zeta. rewrite nodup_map_inj_length.
    - destruct (Z.leb_spec (Z.of_nat (length (nodup str_eq_dec (filter nonempty col)))) cap); [reflexivity|lia].
    - intros u v Iu Iv. apply filter_In in Iu. apply filter_In in Iv. destruct Iu as [Iu Nu], Iv as [Iv Nv].
      apply Inj; auto; intro; subst; discriminate.
  Qed.
End CardFacts.

(* ====================================================================================== *)
(* (ii) bounded counter and histogram                                                      *)

Definition exact_run (col : list str) : al str := fold_left (incr str_eq_dec) col [].

Lemma bc_run_concat bound cols : bc_run bound cols = fold_left (bc_add bound) (concat cols) [].
Proof. unfold bc_run. apply fold_left_concat. Qed.

(* the counter after any split is the item-by-item counter of the concatenated column *)
Lemma counter_is_concat bound j (bs : list batch) :
  counter bound j bs = fold_left (bc_add bound) (column j (concat bs)) [].
Proof. unfold counter. rewrite bc_run_concat, column_concat. reflexivity. Qed.

Lemma wf_exact_run col : wf (exact_run col).
Proof. apply wf_fold_incr. apply wf_nil. Qed.

Lemma get_exact_run col v : get str_eq_dec (exact_run col) v = cnt str_eq_dec col v.
Proof. unfold exact_run. rewrite get_fold_incr. reflexivity. Qed.

Lemma keys_exact_run_perm col : Permutation (map fst (exact_run col)) (nodup str_eq_dec col).
Proof.
  apply NoDup_Permutation.
  - apply wf_exact_run.
  - apply NoDup_nodup.
  - intro x. unfold exact_run. rewrite keys_fold_incr, nodup_In. cbn [map In]. tauto.
Qed.

Lemma length_exact_run col : length (exact_run col) = length (nodup str_eq_dec col).
Proof. rewrite <- (map_length fst). apply Permutation_length, keys_exact_run_perm. Qed.

Lemma nodup_length_snoc (col : list str) v :
  (length (nodup str_eq_dec col) <= length (nodup str_eq_dec (col ++ [v])))%nat.
Proof.
  apply NoDup_incl_length; [apply NoDup_nodup|]. intros x. rewrite !nodup_In, in_app_iff. tauto.
Qed.

Lemma bc_exact bound col : Z.of_nat (length (nodup str_eq_dec col)) < bound ->
  fold_left (bc_add bound) col [] = exact_run col.
Proof.
  induction col as [|v col IH] using rev_ind; intro H; [reflexivity|].
  unfold exact_run. rewrite !fold_left_app. cbn [fold_left]. fold (exact_run col).
  pose proof (nodup_length_snoc col v) as M. rewrite IH by lia.
  unfold bc_add. rewrite length_exact_run.
  destruct (Z.ltb_spec (Z.of_nat (length (nodup str_eq_dec col))) bound); [reflexivity|lia].
Qed.

Lemma al_as_map {A} (f : A -> Z) (s : list (A * Z)) :
  (forall kc, In kc s -> snd kc = f (fst kc)) -> s = map (fun k => (k, f k)) (map fst s).
Proof.
  induction s as [|[k c] s IH]; intro H; [reflexivity|]. cbn [map fst]. f_equal.
  - specialize (H (k, c) (or_introl eq_refl)). cbn in H. congruence.
  - apply IH. intros; apply H; right; assumption.
Qed.

Lemma hist_exact edges col : hist_of edges (exact_run col) = hist_spec edges col.
Proof.
  unfold hist_of, hist_spec. apply map_ext. intro x. f_equal.
  rewrite (al_as_map (cnt str_eq_dec col) (exact_run col)).
  - rewrite filter_map_comm, map_length. cbn [snd]. apply length_filter_perm, keys_exact_run_perm.
  - intros [k c] I. cbn [fst snd]. apply (wf_In _ str_eq_dec) in I; [|apply wf_exact_run].
    rewrite get_exact_run in I. lia.
Qed.

Lemma hist_is_spec edges bound j (bs : list batch) :
  let col := column j (concat bs) in
  Z.of_nat (length (nodup str_eq_dec col)) < bound ->
  hist edges bound j bs = hist_spec edges col.
Proof.
  intros col H. unfold hist. rewrite counter_is_concat. fold col. rewrite bc_exact by assumption.
  apply hist_exact.
Qed.

(* below the bound the stored count of every value is its exact number of occurrences *)
Lemma counter_exact bound j (bs : list batch) v :
  let col := column j (concat bs) in
  Z.of_nat (length (nodup str_eq_dec col)) < bound ->
  get str_eq_dec (counter bound j bs) v = cnt str_eq_dec col v.
Proof.
  intros col H. rewrite counter_is_concat. fold col. rewrite bc_exact by assumption. apply get_exact_run.
Qed.
