(* C13 — proofs about Stats/Quality.v *)
From Coq Require Import List ListDec Arith NArith ZArith QArith Bool Lia ZifyBool Permutation.
From Outrank Require Import Stats.Quality.
From Outrank Require Sketch.HLL Sketch.HLLProofs Sketch.Bounded Sketch.BoundedProofs.   (* read-only, used qualified *)
Import ListNotations.
Local Open Scope Z_scope.

(* ====================================================================================== *)
(* generic list facts                                                                      *)

Lemma fold_left_concat {A B} (f : A -> B -> A) (ls : list (list B)) (a : A) :
  fold_left (fun acc l => fold_left f l acc) ls a = fold_left f (concat ls) a.
Proof.
  revert a. induction ls as [|l ls IH]; intro a; cbn [concat fold_left]; [reflexivity|].
  rewrite fold_left_app. apply IH.
Qed.

Lemma column_app j (b1 b2 : list row) : column j (b1 ++ b2) = column j b1 ++ column j b2.
Proof. apply map_app. Qed.

Lemma column_concat j (bs : list batch) : column j (concat bs) = concat (map (column j) bs).
Proof. unfold column. apply concat_map. Qed.

Lemma length_filter_perm {A} (p : A -> bool) (l l' : list A) :
  Permutation l l' -> length (filter p l) = length (filter p l').
Proof.
  induction 1; cbn [filter]; auto.
  - destruct (p x); cbn [length]; congruence.
  - destruct (p x), (p y); reflexivity.
  - congruence.
Qed.

Lemma filter_map_comm {A B} (f : A -> B) (p : B -> bool) (l : list A) :
  filter p (map f l) = map f (filter (fun x => p (f x)) l).
Proof.
  induction l as [|a l IH]; cbn [map filter]; [reflexivity|].
  destruct (p (f a)); cbn [map]; congruence.
Qed.

Lemma same_set_nodup_length {A} (dec : forall a b : A, {a = b} + {a <> b}) (l l' : list A) :
  (forall x, In x l <-> In x l') -> length (nodup dec l) = length (nodup dec l').
Proof.
  intro H. apply Permutation_length. apply NoDup_Permutation; try apply NoDup_nodup.
  intro x. rewrite !nodup_In. apply H.
Qed.

(* ====================================================================================== *)
(* association lists                                                                       *)

Section AssocFacts.
  Variable A : Type.
  Variable dec : forall a b : A, {a = b} + {a <> b}.
  Notation al := (list (A * Z)).

  Definition wf (s : al) : Prop := NoDup (map fst s) /\ Forall (fun kc => 0 < snd kc) s.

  Lemma wf_nil : wf [].
  Proof. split; constructor. Qed.

  Lemma get_incr s k k' : get dec (incr dec s k) k' = get dec s k' + (if dec k' k then 1 else 0).
  Proof.
    induction s as [|[a c] s IH]; cbn [incr get].
    - destruct (dec k' k); lia.
    - destruct (dec k a) as [->|Hka]; cbn [get].
      + destruct (dec k' a); lia.
      + destruct (dec k' a) as [->|]; [destruct (dec a k); [congruence|lia]|apply IH].
  Qed.

  Lemma keys_incr s k x : In x (map fst (incr dec s k)) <-> x = k \/ In x (map fst s).
  Proof.
    induction s as [|[a c] s IH]; cbn [incr map fst In].
    - intuition.
    - destruct (dec k a) as [->|Hka]; cbn [map fst In]; [intuition|]. rewrite IH. intuition.
  Qed.

  Lemma wf_incr s k : wf s -> wf (incr dec s k).
  Proof.
    intros [Hn Hp]. induction s as [|[a c] s IH]; cbn [incr].
    - split; [repeat constructor; intros []|repeat constructor; cbn; lia].
    - cbn [map fst] in Hn. inversion Hn as [|? ? Hna Hn']; subst. inversion Hp as [|? ? Hc Hp']; subst.
      cbn [snd] in Hc.
      destruct (dec k a) as [->|Hka].
      + split; [cbn [map fst]; constructor; assumption|constructor; [cbn [snd]; lia|assumption]].
      + destruct (IH Hn' Hp') as [I1 I2]. split.
        * cbn [map fst]. constructor; [|assumption]. rewrite keys_incr. intros [E|E]; [congruence|contradiction].
        * constructor; assumption.
  Qed.

  Lemma length_incr s k :
    length (incr dec s k) = if in_dec dec k (map fst s) then length s else S (length s).
  Proof.
    induction s as [|[a c] s IH]; cbn [incr map fst length].
    - destruct (in_dec dec k []) as [[]|]; reflexivity.
    - destruct (dec k a) as [->|Hka]; cbn [length].
      + destruct (in_dec dec a (a :: map fst s)) as [|n]; [reflexivity|exfalso; apply n; left; reflexivity].
      + rewrite IH. destruct (in_dec dec k (map fst s)) as [i|n], (in_dec dec k (a :: map fst s)) as [i'|n'];
          try reflexivity.
        * exfalso; apply n'; right; assumption.
        * destruct i' as [E|E]; [congruence|contradiction].
  Qed.

  Lemma get_notin s k : ~ In k (map fst s) -> get dec s k = 0.
  Proof.
    induction s as [|[a c] s IH]; cbn [get map fst In]; [reflexivity|].
    intro H. destruct (dec k a) as [->|]; [exfalso; apply H; left; reflexivity|apply IH; tauto].
  Qed.

  Lemma wf_In s k c : wf s -> (In (k, c) s <-> get dec s k = c /\ 0 < c).
  Proof.
    intros [Hn Hp]. induction s as [|[a c0] s IH]; cbn [get In].
    - split; [intros []|lia].
    - cbn [map fst] in Hn. inversion Hn as [|? ? Hna Hn']; subst. inversion Hp as [|? ? Hc Hp']; subst.
      cbn [snd] in Hc. specialize (IH Hn' Hp').
      destruct (dec k a) as [->|Hka].
      + split.
        * intros [E|E]; [inversion E; subst; lia|]. exfalso. apply Hna. apply (in_map fst) in E. exact E.
        * intros [E1 E2]. left. congruence.
      + rewrite <- IH. split; [intros [E|E]; [inversion E; congruence|assumption]|tauto].
  Qed.

  Lemma wf_get_pos s k : wf s -> (0 < get dec s k <-> In k (map fst s)).
  Proof.
    intro W. split.
    - intro H. assert (I : In (k, get dec s k) s) by (apply wf_In; auto).
      apply (in_map fst) in I. exact I.
    - intro H. apply in_map_iff in H. destruct H as [[k' c] [E I]]. cbn [fst] in E. subst k'.
      apply wf_In in I; [|assumption]. lia.
  Qed.

  Lemma wf_get_nonneg s k : wf s -> 0 <= get dec s k.
  Proof.
    intro W. destruct (in_dec dec k (map fst s)) as [i|n].
    - apply wf_get_pos in i; auto. lia.
    - rewrite get_notin; auto. lia.
  Qed.

  Lemma wf_NoDup s : wf s -> NoDup s.
  Proof. intros [Hn _]. eapply NoDup_map_inv. exact Hn. Qed.

  Lemma wf_filter (p : A * Z -> bool) s : wf s -> wf (filter p s).
  Proof.
    intros [Hn Hp]. split.
    - induction s as [|[a c] s IH]; cbn [filter]; [constructor|].
      cbn [map fst] in Hn. inversion Hn as [|? ? Hna Hn']; subst. inversion Hp; subst.
      destruct (p (a, c)); [|auto]. cbn [map fst]. constructor; [|auto].
      intro H. apply Hna. apply in_map_iff in H. destruct H as [x [E I]]. apply filter_In in I.
      apply in_map_iff. exists x. tauto.
    - apply Forall_forall. intros x I. apply filter_In in I. rewrite Forall_forall in Hp. apply Hp. tauto.
  Qed.

  Lemma get_filter (q : Z -> bool) s k : wf s ->
    get dec (filter (fun kc : A * Z => q (snd kc)) s) k = if q (get dec s k) then get dec s k else 0.
  Proof.
    intros [Hn Hp]. induction s as [|[a c] s IH]; cbn [filter get]; [destruct (q 0); reflexivity|].
    cbn [map fst] in Hn. inversion Hn as [|? ? Hna Hn']; subst. inversion Hp as [|? ? Hc Hp']; subst.
    specialize (IH Hn' Hp'). cbn [snd].
    destruct (dec k a) as [->|Hka].
    - destruct (q c) eqn:Eq; cbn [get].
      + destruct (dec a a); [reflexivity|congruence].
      + rewrite IH. rewrite (get_notin s a Hna). destruct (q 0); reflexivity.
    - destruct (q c); cbn [get]; [destruct (dec k a); [congruence|]|]; exact IH.
  Qed.

  Lemma wf_perm s1 s2 : wf s1 -> wf s2 -> (forall k, get dec s1 k = get dec s2 k) -> Permutation s1 s2.
  Proof.
    intros W1 W2 H. apply NoDup_Permutation; try (apply wf_NoDup; assumption).
    intros [k c]. rewrite (wf_In s1 k c W1), (wf_In s2 k c W2), H. tauto.
  Qed.

  (* folding incr = counting *)
  Lemma get_fold_incr l s k : get dec (fold_left (incr dec) l s) k = get dec s k + cnt dec l k.
  Proof.
    revert s. induction l as [|a l IH]; intro s; unfold cnt in *; cbn [fold_left count_occ].
    - cbn. lia.
    - rewrite IH, get_incr. destruct (dec k a) as [E1|E1], (dec a k) as [E2|E2]; try congruence; lia.
  Qed.

  Lemma wf_fold_incr l s : wf s -> wf (fold_left (incr dec) l s).
  Proof. revert s. induction l as [|a l IH]; intros s W; cbn [fold_left]; auto using wf_incr. Qed.

  Lemma keys_fold_incr l s x :
    In x (map fst (fold_left (incr dec) l s)) <-> In x l \/ In x (map fst s).
  Proof.
    revert s. induction l as [|a l IH]; intro s; cbn [fold_left In]; [tauto|].
    rewrite IH, keys_incr. intuition.
  Qed.

  Lemma cnt_app l1 l2 k : cnt dec (l1 ++ l2) k = cnt dec l1 k + cnt dec l2 k.
  Proof. unfold cnt. rewrite count_occ_app. lia. Qed.

  Lemma cnt_nonneg l k : 0 <= cnt dec l k.
  Proof. unfold cnt. lia. Qed.

  Lemma cnt_pos_In l k : 0 < cnt dec l k <-> In k l.
  Proof. unfold cnt. rewrite (count_occ_In dec). lia. Qed.

  Lemma memb_true k l : memb dec k l = true <-> In k l.
  Proof.
    induction l as [|x l IH]; cbn [memb In]; [split; [discriminate|tauto]|].
    destruct (dec k x) as [->|N]; [tauto|]. rewrite IH. split; [tauto|]. intros [E|E]; [congruence|assumption].
  Qed.

  Lemma memb_false k l : memb dec k l = false <-> ~ In k l.
  Proof. rewrite <- memb_true. destruct (memb dec k l); split; congruence. Qed.

  Lemma dedup_nodup l : dedup dec l = nodup dec l.
  Proof.
    induction l as [|x l IH]; cbn [dedup nodup]; [reflexivity|].
    destruct (in_dec dec x l) as [i|n].
    - apply memb_true in i. rewrite i. assumption.
    - apply memb_false in n. rewrite n. congruence.
  Qed.
End AssocFacts.
Arguments wf {A} s.

(* ====================================================================================== *)
(* (i) cardinality                                                                         *)

Definition ins_set (s : list N) (x : N) : list N := if in_dec N.eq_dec x s then s else x :: s.

Lemma ins_set_In xs s y : In y (fold_left ins_set xs s) <-> In y s \/ In y xs.
Proof.
  revert s. induction xs as [|x xs IH]; intro s; cbn [fold_left In]; [tauto|].
  rewrite IH. unfold ins_set. destruct (in_dec N.eq_dec x s) as [i|n]; cbn [In].
  - split; [tauto|]. intros [H|[H|H]]; auto. subst; auto.
  - intuition.
Qed.

Lemma ins_set_NoDup xs s : NoDup s -> NoDup (fold_left ins_set xs s).
Proof.
  revert s. induction xs as [|x xs IH]; intros s H; cbn [fold_left]; [assumption|].
  apply IH. unfold ins_set. destruct (in_dec N.eq_dec x s); [assumption|constructor; assumption].
Qed.

Lemma ins_set_length_ge xs s : (length s <= length (fold_left ins_set xs s))%nat.
Proof.
  revert s. induction xs as [|x xs IH]; intro s; cbn [fold_left]; [lia|].
  etransitivity; [|apply IH]. unfold ins_set. destruct (in_dec N.eq_dec x s); cbn [length]; lia.
Qed.

Lemma ins_set_length xs : length (fold_left ins_set xs []) = length (nodup N.eq_dec xs).
Proof.
  apply Permutation_length. apply NoDup_Permutation.
  - apply ins_set_NoDup. constructor.
  - apply NoDup_nodup.
  - intro y. rewrite ins_set_In, nodup_In. cbn [In]. tauto.
Qed.

Section CardFacts.
  Variable hash : val -> N.
  Variable cap : Z.

  Lemma sk_cold xs : fold_left (sk_add cap) xs Cold = Cold.
  Proof. induction xs; cbn [fold_left sk_add]; auto. Qed.

  Lemma sk_fold xs s : Z.of_nat (length s) <= cap ->
    fold_left (sk_add cap) xs (Warm s) =
    if Z.of_nat (length (fold_left ins_set xs s)) <=? cap then Warm (fold_left ins_set xs s) else Cold.
  Proof.
    revert s. induction xs as [|x xs IH]; intros s H; cbn [fold_left].
    - destruct (Z.leb_spec (Z.of_nat (length s)) cap); [reflexivity|lia].
    - cbn [sk_add]. unfold ins_set at 2 4. destruct (in_dec N.eq_dec x s) as [i|n].
      + apply IH. assumption.
      + destruct (Z.ltb_spec (Z.of_nat (length s)) cap) as [L|L].
        * apply IH. cbn [length]. lia.
        * rewrite sk_cold. pose proof (ins_set_length_ge xs (x :: s)) as G. cbn [length] in G.
          destruct (Z.leb_spec (Z.of_nat (length (fold_left ins_set xs (x :: s)))) cap); [lia|reflexivity].
  Qed.

  (* the sketch length after ANY insertion sequence is a function of the set of inserted hashes *)
  Lemma sk_len_fold xs : 0 <= cap ->
    sk_len (fold_left (sk_add cap) xs (Warm [])) =
    let d := length (nodup N.eq_dec xs) in if Z.of_nat d <=? cap then Some d else None.
  Proof.
    intro H. rewrite sk_fold by (cbn; lia). cbv zeta. rewrite <- ins_set_length.
    destruct (Z.of_nat (length (fold_left ins_set xs [])) <=? cap); reflexivity.
  Qed.

  Lemma sk_run_concat inss : sk_run cap inss = fold_left (sk_add cap) (concat inss) (Warm []).
  Proof. unfold sk_run. apply fold_left_concat. Qed.

  Lemma sets_concat (inss : list (list N)) (cols : list (list val)) :
    Forall2 (fun ins col => forall h, In h ins <-> In h (map hash (filter truthy col))) inss cols ->
    forall h, In h (concat inss) <-> In h (map hash (filter truthy (concat cols))).
  Proof.
    induction 1 as [|ins col inss cols H F IH]; intro h; cbn [concat]; [tauto|].
    rewrite filter_app, map_app, !in_app_iff, H, IH. tauto.
  Qed.

  (* whatever each batch inserts — its set of values in any order, or with repetitions — the
     reported cardinality is the specification on the concatenated column *)
  Lemma card_any_order (inss : list (list N)) (cols : list (list val)) : 0 <= cap ->
    Forall2 (fun ins col => forall h, In h ins <-> In h (map hash (filter truthy col))) inss cols ->
    sk_len (sk_run cap inss) = card_spec hash cap (concat cols).
  Proof.
    intros Hc F. rewrite sk_run_concat, sk_len_fold by assumption. unfold card_spec. cbv zeta. rewrite dedup_nodup.
    rewrite (same_set_nodup_length N.eq_dec _ _ (sets_concat _ _ F)). reflexivity.
  Qed.

  Lemma batch_ins_set col h : In h (batch_ins hash col) <-> In h (map hash (filter truthy col)).
  Proof.
    unfold batch_ins. rewrite dedup_nodup, !in_map_iff. split; intros [v [E I]]; exists v; split; auto;
      rewrite filter_In in *; rewrite nodup_In in *; assumption.
  Qed.

  Lemma card_is_spec j (bs : list batch) : 0 <= cap ->
    card hash cap j bs = card_spec hash cap (column j (concat bs)).
  Proof.
    intro Hc. unfold card. rewrite column_concat. apply card_any_order; [assumption|].
    induction bs as [|b bs IH]; cbn [map]; constructor; [apply batch_ins_set|assumption].
  Qed.

  Lemma nodup_map_inj_length (l : list val) :
    (forall u v, In u l -> In v l -> hash u = hash v -> u = v) ->
    length (nodup N.eq_dec (map hash l)) = length (nodup val_eq_dec l).
  Proof.
    induction l as [|a l IH]; intro Inj; [reflexivity|]. cbn [map nodup].
    assert (Inj' : forall u v, In u l -> In v l -> hash u = hash v -> u = v)
      by (intros; apply Inj; cbn [In]; auto).
    destruct (in_dec N.eq_dec (hash a) (map hash l)) as [i|n], (in_dec val_eq_dec a l) as [i'|n'];
      cbn [length]; try (rewrite IH by assumption; reflexivity).
    - exfalso. apply in_map_iff in i. destruct i as [v [E I]]. apply n'.
      assert (v = a) by (apply Inj; cbn [In]; auto). subst. assumption.
    - exfalso. apply n. apply in_map. assumption.
  Qed.

  Lemma card_exact j (bs : list batch) : 0 <= cap ->
    let col := column j (concat bs) in
    (forall u v, In u col -> In v col -> truthy u = true -> truthy v = true -> hash u = hash v -> u = v) ->
    Z.of_nat (distinct_truthy col) <= cap ->
    card hash cap j bs = Some (distinct_truthy col).
  Proof.
    intros Hc col Inj Hd. rewrite card_is_spec by assumption. fold col. unfold card_spec, distinct_truthy in *.
    cbv zeta. rewrite !dedup_nodup in *. rewrite nodup_map_inj_length.
    - destruct (Z.leb_spec (Z.of_nat (length (nodup val_eq_dec (filter truthy col)))) cap); [reflexivity|lia].
    - intros u v Iu Iv. apply filter_In in Iu. apply filter_In in Iv. destruct Iu as [Iu Nu], Iv as [Iv Nv].
      apply Inj; auto.
  Qed.
End CardFacts.

(* ====================================================================================== *)
(* (i') bridge to C14's model of the real sketch (Sketch/HLL.v), both phases                  *)

Definition abs_sketch (t : HLL.st) : sketch :=
  match t with HLL.Warm s => Warm s | HLL.Cold _ => Cold end.

Section HLLBridge.
  Variable p : N.
  Variable W : nat.
  Variable width : N.
  Variable h2 : N -> N.
  Variable hash : val -> N.

  (* the warm-phase model of this file is the abstraction of HLL.add that forgets the registers *)
  Lemma abs_add t v : abs_sketch (HLL.add p W width h2 t v) = sk_add (Z.of_nat W) (abs_sketch t) v.
  Proof.
    destruct t as [s|r]; cbn [HLL.add abs_sketch sk_add]; [|reflexivity].
    destruct (in_dec N.eq_dec v s) as [i|n].
    - apply HLLProofs.mem_In in i. rewrite i, orb_true_r. reflexivity.
    - assert (M : HLL.mem v s = false).
      { destruct (HLL.mem v s) eqn:E; [|reflexivity]. apply HLLProofs.mem_In in E. contradiction. }
      rewrite M, orb_false_r.
      destruct (Nat.ltb_spec (length s) W), (Z.ltb_spec (Z.of_nat (length s)) (Z.of_nat W)); try lia; reflexivity.
  Qed.

  Lemma abs_fold l : forall t, abs_sketch (fold_left (HLL.add p W width h2) l t) =
                               fold_left (sk_add (Z.of_nat W)) l (abs_sketch t).
  Proof. induction l as [|v l IH]; intro t; cbn [fold_left]; [reflexivity|]. rewrite IH, abs_add. reflexivity. Qed.

  Lemma abs_run l : abs_sketch (HLL.run p W width h2 l) = fold_left (sk_add (Z.of_nat W)) l (Warm []).
  Proof. unfold HLL.run. apply abs_fold. Qed.

  Definition len_view (x : HLL.lent) : option nat := match x with HLL.Exact n => Some n | HLL.Est _ => None end.

  Lemma len_view_abs t : len_view (HLL.len t) = sk_len (abs_sketch t).
  Proof. destruct t; reflexivity. Qed.

  (* the cardinality of this file = the length of the real sketch model while that one is warm *)
  Lemma card_bridge j (bs : list batch) :
    card hash (Z.of_nat W) j bs = len_view (card_hll p W width h2 hash j bs).
  Proof. unfold card, card_hll. rewrite len_view_abs, abs_run, sk_run_concat. reflexivity. Qed.

  (* whatever every batch inserts (same set of digests as its truthy cells), in BOTH phases the length of the real
     sketch is that of the sketch fed once with the whole column: C14's len_set *)
  Lemma card_hll_any_order (inss : list (list N)) (cols : list (list val)) :
    Forall2 (fun ins col => forall h, In h ins <-> In h (map hash (filter truthy col))) inss cols ->
    HLL.len (HLL.run p W width h2 (concat inss)) = card_hll_spec p W width h2 hash (concat cols).
  Proof. intro F. unfold card_hll_spec. apply HLLProofs.len_set. apply (sets_concat hash). exact F. Qed.

  Lemma card_hll_is_spec j (bs : list batch) :
    card_hll p W width h2 hash j bs = card_hll_spec p W width h2 hash (column j (concat bs)).
  Proof.
    unfold card_hll. rewrite column_concat.
    rewrite <- (card_hll_any_order (map (fun b => batch_ins hash (column j b)) bs) (map (column j) bs)); [reflexivity|].
    induction bs as [|b bs IH]; cbn [map]; constructor; [apply batch_ins_set|assumption].
  Qed.

  Lemma card_hll_split_indep j (s1 s2 : list batch) : concat s1 = concat s2 ->
    card_hll p W width h2 hash j s1 = card_hll p W width h2 hash j s2.
  Proof. intro E. rewrite !card_hll_is_spec, E. reflexivity. Qed.
End HLLBridge.

(* ====================================================================================== *)
(* (ii) bounded counter and histogram                                                      *)

Definition exact_run (col : list val) : al val := fold_left (incr val_eq_dec) col [].

Lemma bc_run_concat bound cols : bc_run bound cols = fold_left (bc_add bound) (concat cols) [].
Proof. unfold bc_run. apply fold_left_concat. Qed.

(* the counter after any split is the item-by-item counter of the concatenated column *)
Lemma counter_is_concat bound j (bs : list batch) :
  counter bound j bs = fold_left (bc_add bound) (column j (concat bs)) [].
Proof. unfold counter. rewrite bc_run_concat, column_concat. reflexivity. Qed.

Lemma wf_exact_run col : wf (exact_run col).
Proof. apply wf_fold_incr. apply wf_nil. Qed.

Lemma get_exact_run col v : get val_eq_dec (exact_run col) v = cnt val_eq_dec col v.
Proof. unfold exact_run. rewrite get_fold_incr. reflexivity. Qed.

Lemma keys_exact_run_perm col : Permutation (map fst (exact_run col)) (nodup val_eq_dec col).
Proof.
  apply NoDup_Permutation.
  - apply wf_exact_run.
  - apply NoDup_nodup.
  - intro x. unfold exact_run. rewrite keys_fold_incr, nodup_In. cbn [map In]. tauto.
Qed.

Lemma length_exact_run col : length (exact_run col) = length (nodup val_eq_dec col).
Proof. rewrite <- (map_length fst). apply Permutation_length, keys_exact_run_perm. Qed.

Lemma nodup_length_snoc (col : list val) v :
  (length (nodup val_eq_dec col) <= length (nodup val_eq_dec (col ++ [v])))%nat.
Proof.
  apply NoDup_incl_length; [apply NoDup_nodup|]. intros x. rewrite !nodup_In, in_app_iff. tauto.
Qed.

Lemma bc_exact bound col : Z.of_nat (length (nodup val_eq_dec col)) < bound ->
  fold_left (bc_add bound) col [] = exact_run col.
Proof.
  induction col as [|v col IH] using rev_ind; intro H; [reflexivity|].
  unfold exact_run. rewrite !fold_left_app. cbn [fold_left]. fold (exact_run col).
  pose proof (nodup_length_snoc col v) as M. rewrite IH by lia.
  unfold bc_add. rewrite length_exact_run.
  destruct (Z.ltb_spec (Z.of_nat (length (nodup val_eq_dec col))) bound); [reflexivity|lia].
Qed.

Lemma al_as_map {A} (f : A -> Z) (s : list (A * Z)) :
  (forall kc, In kc s -> snd kc = f (fst kc)) -> s = map (fun k => (k, f k)) (map fst s).
Proof.
  induction s as [|[k c] s IH]; intro H; [reflexivity|]. cbn [map fst]. f_equal.
  - specialize (H (k, c) (or_introl eq_refl)). cbn in H. congruence.
  - apply IH. intros; apply H; right; assumption.
Qed.

Lemma hist_exact edges col : hist_of edges (exact_run col) = hist_spec edges col.
Proof.
  unfold hist_of, hist_spec. cbv zeta. apply map_ext. intro x. f_equal. rewrite (dedup_nodup _ val_eq_dec col).
  rewrite (al_as_map (cnt val_eq_dec col) (exact_run col)).
  - rewrite (filter_map_comm (fun v => cnt val_eq_dec col v) (fun c => x <? c)).
    rewrite (filter_map_comm (fun k => (k, cnt val_eq_dec col k))). rewrite map_length. rewrite map_length. cbn [snd]. apply length_filter_perm, keys_exact_run_perm.
  - intros [k c] I. cbn [fst snd]. apply (wf_In _ val_eq_dec) in I; [|apply wf_exact_run].
    rewrite get_exact_run in I. lia.
Qed.

Lemma hist_is_spec edges bound j (bs : list batch) :
  let col := column j (concat bs) in
  Z.of_nat (length (nodup val_eq_dec col)) < bound ->
  hist edges bound j bs = hist_spec edges col.
Proof.
  intros col H. unfold hist. rewrite counter_is_concat. fold col. rewrite bc_exact by assumption.
  apply hist_exact.
Qed.

(* below the bound the stored count of every value is its exact number of occurrences *)
Lemma counter_exact bound j (bs : list batch) v :
  let col := column j (concat bs) in
  Z.of_nat (length (nodup val_eq_dec col)) < bound ->
  get val_eq_dec (counter bound j bs) v = cnt val_eq_dec col v.
Proof.
  intros col H. rewrite counter_is_concat. fold col. rewrite bc_exact by assumption. apply get_exact_run.
Qed.

(* ---- any column: the counter holds the exact counts of the prefix [eff_prefix] ------------------------------- *)

Definition seen_ok (seen done : list val) : Prop := NoDup seen /\ forall x, In x seen <-> In x done.

Lemma seen_len seen done : seen_ok seen done -> length seen = length (nodup val_eq_dec done).
Proof.
  intros [N E]. apply Permutation_length. apply NoDup_Permutation; [assumption|apply NoDup_nodup|].
  intro x. rewrite nodup_In. apply E.
Qed.

Lemma seen_step seen done x : seen_ok seen done ->
  seen_ok (if memb val_eq_dec x seen then seen else x :: seen) (done ++ [x]).
Proof.
  intros [N E]. destruct (memb val_eq_dec x seen) eqn:M.
  - apply memb_true in M. split; [assumption|]. intro y. rewrite in_app_iff, <- E. cbn [In]. split; [tauto|].
    intros [H|[H|[]]]; [assumption|subst; assumption].
  - apply memb_false in M. split; [constructor; assumption|]. intro y. rewrite in_app_iff, <- E. cbn [In]. tauto.
Qed.

Lemma seen_nil : seen_ok [] [].
Proof. split; [constructor|tauto]. Qed.

Lemma bc_frozen bound col c : bound <= Z.of_nat (length c) -> fold_left (bc_add bound) col c = c.
Proof.
  intro H. induction col as [|x col IH]; [reflexivity|]. cbn [fold_left]. unfold bc_add at 2.
  destruct (Z.ltb_spec (Z.of_nat (length c)) bound); [lia|assumption].
Qed.

Lemma exact_run_snoc done x : exact_run (done ++ [x]) = incr val_eq_dec (exact_run done) x.
Proof. unfold exact_run. rewrite fold_left_app. reflexivity. Qed.

Lemma bc_general bound col : forall done seen, seen_ok seen done ->
  fold_left (bc_add bound) col (exact_run done) = exact_run (done ++ eff_prefix bound seen col).
Proof.
  induction col as [|x col IH]; intros done seen S; cbn [fold_left eff_prefix]; [rewrite app_nil_r; reflexivity|].
  pose proof (seen_len _ _ S) as L. unfold bc_add at 2. rewrite length_exact_run, <- L.
  destruct (Z.ltb_spec (Z.of_nat (length seen)) bound) as [B|B].
  - rewrite <- exact_run_snoc. rewrite (IH _ _ (seen_step _ _ x S)). rewrite <- app_assoc. reflexivity.
  - rewrite app_nil_r. apply bc_frozen. rewrite length_exact_run, <- L. assumption.
Qed.

(* the stored counter after any split, for ANY bound and column *)
Lemma counter_general bound j (bs : list batch) :
  counter bound j bs = exact_run (eff_prefix bound [] (column j (concat bs))).
Proof. rewrite counter_is_concat. apply (bc_general bound _ [] [] seen_nil). Qed.

Lemma hist_is_general edges bound j (bs : list batch) :
  hist edges bound j bs = hist_general edges bound (column j (concat bs)).
Proof. unfold hist, hist_general. rewrite counter_general. apply hist_exact. Qed.

Lemma counter_get_general bound j (bs : list batch) v :
  get val_eq_dec (counter bound j bs) v = cnt val_eq_dec (eff_prefix bound [] (column j (concat bs))) v.
Proof. rewrite counter_general. apply get_exact_run. Qed.

(* what that prefix is *)
Lemma eff_prefix_is_prefix bound col : forall seen, exists rest, col = eff_prefix bound seen col ++ rest.
Proof.
  induction col as [|x col IH]; intro seen; cbn [eff_prefix]; [exists []; reflexivity|].
  destruct (Z.of_nat (length seen) <? bound).
  - destruct (IH (if memb val_eq_dec x seen then seen else x :: seen)) as [rest E]. exists rest. cbn [app]. congruence.
  - exists (x :: col). reflexivity.
Qed.

Lemma eff_prefix_all bound col : forall done seen, seen_ok seen done ->
  Z.of_nat (length (nodup val_eq_dec (done ++ col))) < bound -> eff_prefix bound seen col = col.
Proof.
  induction col as [|x col IH]; intros done seen S H; [reflexivity|]. cbn [eff_prefix].
  pose proof (seen_len _ _ S) as L.
  assert (M : (length (nodup val_eq_dec done) <= length (nodup val_eq_dec (done ++ x :: col)))%nat).
  { apply NoDup_incl_length; [apply NoDup_nodup|]. intro y. rewrite !nodup_In, in_app_iff. tauto. }
  destruct (Z.ltb_spec (Z.of_nat (length seen)) bound); [|lia].
  f_equal. apply (IH (done ++ [x])); [apply seen_step; assumption|]. rewrite <- app_assoc. exact H.
Qed.

(* every counted cell arrived while fewer than [bound] distinct values were stored ... *)
Lemma eff_prefix_counted bound col : forall done seen q x t, seen_ok seen done ->
  eff_prefix bound seen col = q ++ x :: t -> Z.of_nat (length (nodup val_eq_dec (done ++ q))) < bound.
Proof.
  induction col as [|x0 col IH]; intros done seen q x t S E; cbn [eff_prefix] in E; [destruct q; discriminate|].
  pose proof (seen_len _ _ S) as L.
  destruct (Z.ltb_spec (Z.of_nat (length seen)) bound) as [B|B]; [|destruct q; discriminate].
  destruct q as [|y q]; cbn [app] in E.
  - rewrite app_nil_r. lia.
  - inversion E; subst. replace (done ++ y :: q) with ((done ++ [y]) ++ q) by (rewrite <- app_assoc; reflexivity).
    eapply IH; [apply seen_step; eassumption|eassumption].
Qed.

(* ... and the first cell that is not counted arrives when [bound] distinct values are stored *)
Lemma eff_prefix_stops bound col : forall done seen rest, seen_ok seen done ->
  col = eff_prefix bound seen col ++ rest -> rest <> [] ->
  bound <= Z.of_nat (length (nodup val_eq_dec (done ++ eff_prefix bound seen col))).
Proof.
  induction col as [|x0 col IH]; intros done seen rest S E NE; cbn [eff_prefix] in *.
  - destruct rest; [congruence|discriminate].
  - pose proof (seen_len _ _ S) as L.
    destruct (Z.ltb_spec (Z.of_nat (length seen)) bound) as [B|B].
    + cbn [app] in E. injection E as E'.
      pose proof (IH (done ++ [x0]) _ rest (seen_step _ _ x0 S) E' NE) as H.
      rewrite <- app_assoc in H. cbn [app] in H. exact H.
    + rewrite app_nil_r. lia.
Qed.

Lemma eff_prefix_spec bound col :
  let pre := eff_prefix bound [] col in
  (exists rest, col = pre ++ rest /\
                (rest <> [] -> bound <= Z.of_nat (length (nodup val_eq_dec pre)))) /\
  (forall q x t, pre = q ++ x :: t -> Z.of_nat (length (nodup val_eq_dec q)) < bound) /\
  (Z.of_nat (length (nodup val_eq_dec col)) < bound -> pre = col).
Proof.
  cbv zeta. split; [|split].
  - destruct (eff_prefix_is_prefix bound col []) as [rest E]. exists rest. split; [assumption|].
    intro NE. apply (eff_prefix_stops bound col [] [] rest seen_nil E NE).
  - intros q x t E. apply (eff_prefix_counted bound col [] [] q x t seen_nil E).
  - intro H. apply (eff_prefix_all bound col [] [] seen_nil). exact H.
Qed.

(* beyond the bound the histogram is NOT the exact recomputation over all consumed rows: two slots, column a b a c a a *)
Lemma hist_all_rows_refuted :
  exists (bound : Z) (bs : list batch),
    hist [0; 1] bound 0 bs = [2; 0] /\ hist_spec [0; 1] (column 0 (concat bs)) = [3; 1] /\
    hist_general [0; 1] bound (column 0 (concat bs)) = [2; 0] /\
    eff_prefix bound [] (column 0 (concat bs)) = [V [97%N]; V [98%N]].
Proof.
  exists 2, [[[V [97%N]]; [V [98%N]]; [V [97%N]]]; [[V [99%N]]; [V [97%N]]; [V [97%N]]]].
  vm_compute. repeat split; reflexivity.
Qed.

(* ---- bridge to C15's model of PrimitiveConstrainedCounter (Sketch/Bounded.v): keys there are harness ids ---------- *)

Definition mapk (enc : val -> N) (c : al val) : Bounded.counter := map (fun kc => (enc (fst kc), snd kc)) c.

Section BoundedBridge.
  Variable enc : val -> N.
  Variable univ : list val.
  Hypothesis enc_inj : forall a b, In a univ -> In b univ -> enc a = enc b -> a = b.

  Lemma incr_bridge c v : incl (map fst c) univ -> In v univ ->
    mapk enc (incr val_eq_dec c v) = Bounded.incr (mapk enc c) (enc v).
  Proof.
    intros Hc Hv. induction c as [|[k n] c IH]; cbn [incr mapk map Bounded.incr fst snd]; [reflexivity|].
    assert (Hk : In k univ) by (apply Hc; left; reflexivity).
    assert (Hc' : incl (map fst c) univ) by (intros x I; apply Hc; right; exact I).
    destruct (val_eq_dec v k) as [->|NE].
    - rewrite N.eqb_refl. reflexivity.
    - destruct (N.eqb_spec (enc v) (enc k)) as [E|E]; [exfalso; apply NE; apply enc_inj; assumption|].
      cbn [map fst snd]. f_equal. apply IH. assumption.
  Qed.

  Lemma bc_add_bridge bound c v : incl (map fst c) univ -> In v univ ->
    mapk enc (bc_add bound c v) = Bounded.cadd bound (mapk enc c) (enc v).
  Proof.
    intros Hc Hv. unfold bc_add, Bounded.cadd, mapk at 2. rewrite map_length.
    destruct (Z.of_nat (length c) <? bound); [apply incr_bridge; assumption|reflexivity].
  Qed.

  Lemma bc_add_keys bound c v : incl (map fst c) univ -> In v univ -> incl (map fst (bc_add bound c v)) univ.
  Proof.
    intros Hc Hv. unfold bc_add. destruct (Z.of_nat (length c) <? bound); [|assumption].
    intros x I. apply keys_incr in I. destruct I as [->|I]; [assumption|apply Hc; assumption].
  Qed.

  Lemma bc_fold_bridge bound col : forall c, incl (map fst c) univ -> incl col univ ->
    mapk enc (fold_left (bc_add bound) col c) = fold_left (Bounded.cadd bound) (map enc col) (mapk enc c).
  Proof.
    induction col as [|v col IH]; intros c Hc Hcol; cbn [fold_left map]; [reflexivity|].
    assert (Hv : In v univ) by (apply Hcol; left; reflexivity).
    rewrite IH; [rewrite bc_add_bridge by assumption; reflexivity|apply bc_add_keys; assumption|].
    intros x I. apply Hcol. right. exact I.
  Qed.

  (* the bounded counter of this file, keys renamed by an injective id assignment, IS C15's crun on the ids *)
  Lemma counter_bridge bound j (bs : list batch) : incl (column j (concat bs)) univ ->
    mapk enc (counter bound j bs) = Bounded.crun bound (map enc (column j (concat bs))).
  Proof.
    intro H. rewrite counter_is_concat. unfold Bounded.crun.
    apply (bc_fold_bridge bound _ []); [intros x []|assumption].
  Qed.
End BoundedBridge.

(* ====================================================================================== *)
(* (iii) rare values                                                                       *)

Lemma count_pair j' (l : list val) j v :
  count_occ key_eq_dec (map (fun x => (j', x)) l) (j, v) =
  if Nat.eq_dec j j' then count_occ val_eq_dec l v else 0%nat.
Proof.
  induction l as [|a l IH]; cbn [map count_occ].
  - destruct (Nat.eq_dec j j'); reflexivity.
  - rewrite IH. destruct (key_eq_dec (j', a) (j, v)) as [E|E], (Nat.eq_dec j j') as [E1|E1],
      (val_eq_dec a v) as [E2|E2]; try reflexivity; try (inversion E; congruence);
      exfalso; apply E; congruence.
Qed.

Lemma count_keys_seq (b : list row) a n j v :
  count_occ key_eq_dec (flat_map (fun j => map (fun v => (j, v)) (column j b)) (seq a n)) (j, v) =
  if ((a <=? j) && (j <? a + n))%nat then count_occ val_eq_dec (column j b) v else 0%nat.
Proof.
  revert a. induction n as [|n IH]; intro a; cbn [seq flat_map].
  - destruct (Nat.leb_spec a j), (Nat.ltb_spec j (a + 0)); cbn; try reflexivity; lia.
  - rewrite count_occ_app, count_pair, IH.
    destruct (Nat.eq_dec j a) as [->|Hn].
    + destruct (Nat.leb_spec (S a) a), (Nat.ltb_spec a (S a + n)), (Nat.leb_spec a a), (Nat.ltb_spec a (a + S n));
        cbn [andb]; lia.
    + destruct (Nat.leb_spec (S a) j), (Nat.ltb_spec j (S a + n)), (Nat.leb_spec a j), (Nat.ltb_spec j (a + S n));
        cbn [andb]; lia.
Qed.

Lemma cnt_keys_of ncols (b : list row) k : cnt key_eq_dec (keys_of ncols b) k = total ncols b k.
Proof.
  destruct k as [j v]. unfold cnt, keys_of, total. rewrite count_keys_seq. cbn [fst snd Nat.add].
  destruct (Nat.ltb_spec j ncols); cbn [Nat.leb andb]; reflexivity.
Qed.

Lemma total_app ncols (r1 r2 : list row) k : total ncols (r1 ++ r2) k = total ncols r1 k + total ncols r2 k.
Proof. unfold total. destruct (fst k <? ncols)%nat; [|reflexivity]. rewrite column_app. apply cnt_app. Qed.

Lemma total_nonneg ncols rows k : 0 <= total ncols rows k.
Proof. unfold total. destruct (fst k <? ncols)%nat; [apply cnt_nonneg|lia]. Qed.

Lemma total_nil ncols k : total ncols [] k = 0.
Proof. unfold total. destruct (fst k <? ncols)%nat; reflexivity. Qed.

Lemma get_In {A} (dec : forall a b : A, {a = b} + {a <> b}) (s : list (A * Z)) k c :
  get dec s k = c -> c <> 0 -> In (k, c) s.
Proof.
  induction s as [|[a c0] s IH]; cbn [get In]; intros H Hc; [congruence|].
  destruct (dec k a) as [->|]; [left; congruence|right; auto].
Qed.

Section RareFacts.
  Variable thr : Z.
  Variable ncols : nat.
  Notation tot := (total ncols).

  Lemma rv_fold ign keys st k : wf st ->
    wf (fold_left (rv_count ign) keys st) /\
    get key_eq_dec (fold_left (rv_count ign) keys st) k =
    get key_eq_dec st k + (if memb key_eq_dec k ign then 0 else cnt key_eq_dec keys k).
  Proof.
    revert st. induction keys as [|a keys IH]; intros st W; cbn [fold_left].
    - split; [assumption|]. unfold cnt; cbn. destruct (memb key_eq_dec k ign); lia.
    - assert (W' : wf (rv_count ign st a)) by (unfold rv_count; destruct (memb key_eq_dec a ign); auto using wf_incr).
      destruct (IH _ W') as [I1 I2]. split; [assumption|]. rewrite I2. unfold rv_count, cnt. cbn [count_occ].
      destruct (memb key_eq_dec a ign) eqn:Ea, (memb key_eq_dec k ign) eqn:Ek; try rewrite get_incr;
        destruct (key_eq_dec a k) as [E|E], (key_eq_dec k a) as [E'|E']; try congruence; try lia.
  Qed.

  Definition Inv (pre : list row) (s : rstate) : Prop :=
    wf (fst s) /\
    (forall k, In k (snd s) <-> 0 < tot pre k /\ thr < tot pre k) /\
    (forall k, get key_eq_dec (fst s) k = if thr <? tot pre k then 0 else tot pre k).

  Lemma Inv_init : Inv [] ([], []).
  Proof.
    split; [apply wf_nil|split]; intro k; cbn [fst snd get In]; rewrite total_nil.
    - lia.
    - destruct (thr <? 0); reflexivity.
  Qed.

  Lemma Inv_step pre s b : Inv pre s -> Inv (pre ++ b) (rv_batch thr ncols s b).
  Proof.
    destruct s as [st ign]. intros (W & Hi & Hg). cbn [fst snd] in *. unfold rv_batch. cbv beta iota zeta.
    set (st1 := fold_left (rv_count ign) (keys_of ncols b) st).
    assert (W1 : wf st1) by (apply (rv_fold ign (keys_of ncols b) st (0%nat, PyNone)); assumption).
    assert (G1 : forall k, get key_eq_dec st1 k =
                           get key_eq_dec st k + (if memb key_eq_dec k ign then 0 else tot b k)).
    { intro k. unfold st1. rewrite <- cnt_keys_of. apply rv_fold. assumption. }
    unfold Inv. cbn [fst snd]. split; [apply wf_filter; assumption|split]; intro k;
      pose proof (total_nonneg ncols pre k) as P0; pose proof (total_nonneg ncols b k) as P1;
      rewrite total_app; specialize (G1 k); specialize (Hg k); specialize (Hi k).
    - rewrite in_app_iff, in_map_iff.
      assert (E : (exists x : key * Z, fst x = k /\ In x (filter (fun kc : key * Z => thr <? snd kc) st1)) <->
                  0 < get key_eq_dec st1 k /\ thr < get key_eq_dec st1 k).
      { split.
        - intros [[k' c] [E I]]. cbn [fst] in E. subst k'. apply filter_In in I. destruct I as [I T]. cbn [snd] in T.
          apply (wf_In _ key_eq_dec) in I; [|assumption]. lia.
        - intros [H1 H2]. exists (k, get key_eq_dec st1 k). split; [reflexivity|]. apply filter_In. split.
          + apply (wf_In _ key_eq_dec); auto.
          + cbn [snd]. lia. }
      rewrite E. clear E.
      destruct (memb key_eq_dec k ign) eqn:M.
      + apply memb_true in M. assert (Q : 0 < tot pre k /\ thr < tot pre k) by tauto.
        split; [intros _; lia|intros _; right; exact M].
      + assert (N : ~ In k ign) by (rewrite <- (memb_true _ key_eq_dec); congruence).
        assert (Q : ~ (0 < tot pre k /\ thr < tot pre k)) by tauto.
        split; [intros [H|H]; [|contradiction]|intro H; left]; destruct (thr <? tot pre k) eqn:T; lia.
    - rewrite (get_filter _ key_eq_dec (fun c => negb (thr <? c))) by assumption.
      destruct (memb key_eq_dec k ign) eqn:M.
      + apply memb_true in M. assert (Q : 0 < tot pre k /\ thr < tot pre k) by tauto.
        destruct (thr <? tot pre k) eqn:T, (thr <? get key_eq_dec st1 k) eqn:T1,
          (thr <? tot pre k + tot b k) eqn:T2; cbn [negb]; lia.
      + assert (N : ~ In k ign) by (rewrite <- (memb_true _ key_eq_dec); congruence).
        assert (Q : ~ (0 < tot pre k /\ thr < tot pre k)) by tauto.
        destruct (thr <? tot pre k) eqn:T, (thr <? get key_eq_dec st1 k) eqn:T1,
          (thr <? tot pre k + tot b k) eqn:T2; cbn [negb]; lia.
  Qed.

  Lemma Inv_fold bs pre s : Inv pre s -> Inv (pre ++ concat bs) (fold_left (rv_batch thr ncols) bs s).
  Proof.
    revert pre s. induction bs as [|b bs IH]; intros pre s H; cbn [concat fold_left].
    - rewrite app_nil_r. assumption.
    - rewrite app_assoc. apply IH. apply Inv_step. assumption.
  Qed.

  Lemma Inv_run (bs : list batch) : Inv (concat bs) (rv_run thr ncols bs).
  Proof. apply (Inv_fold bs [] ([], [])). apply Inv_init. Qed.

  (* the report is exactly {((col, v), total) | 1 <= total <= thr} *)
  Lemma rare_spec (bs : list batch) :
    NoDup (map fst (rare thr ncols bs)) /\
    (forall k c, In (k, c) (rare thr ncols bs) <-> c = tot (concat bs) k /\ 0 < c /\ c <= thr) /\
    (forall k, get key_eq_dec (rare thr ncols bs) k =
               if thr <? tot (concat bs) k then 0 else tot (concat bs) k) /\
    (forall k, In k (snd (rv_run thr ncols bs)) <-> 0 < tot (concat bs) k /\ thr < tot (concat bs) k).
  Proof.
    destruct (Inv_run bs) as (W & Hi & Hg). unfold rare. split; [apply W|split; [|split; assumption]].
    intros k c. rewrite (wf_In _ key_eq_dec _ k c W), Hg.
    destruct (Z.ltb_spec thr (tot (concat bs) k)); lia.
  Qed.

  Lemma rare_wf (bs : list batch) : wf (rare thr ncols bs).
  Proof. apply Inv_run. Qed.

  Lemma rare_split_indep (s1 s2 : list batch) : concat s1 = concat s2 ->
    Permutation (rare thr ncols s1) (rare thr ncols s2) /\
    (forall k, get key_eq_dec (rare thr ncols s1) k = get key_eq_dec (rare thr ncols s2) k).
  Proof.
    intro E.
    assert (G : forall k, get key_eq_dec (rare thr ncols s1) k = get key_eq_dec (rare thr ncols s2) k).
    { intro k. destruct (rare_spec s1) as (_ & _ & G1 & _), (rare_spec s2) as (_ & _ & G2 & _).
      rewrite G1, G2, E. reflexivity. }
    split; [|exact G]. apply (wf_perm _ key_eq_dec); auto using rare_wf.
  Qed.

  Lemma nodup_keysb_spec l : nodup_keysb l = true <-> NoDup l.
  Proof.
    induction l as [|k l IH]; cbn [nodup_keysb]; [split; [constructor|reflexivity]|].
    rewrite andb_true_iff, negb_true_iff, IH. split.
    - intros [M N]. constructor; [|assumption]. rewrite <- (memb_true _ key_eq_dec). congruence.
    - intro N. inversion N as [|? ? Hn N']; subst. split; [|assumption].
      destruct (memb key_eq_dec k l) eqn:M; [|reflexivity]. apply memb_true in M. contradiction.
  Qed.

  (* the checker evaluated on implementation reports *)
  Lemma rare_checkb_sound rows rep : rare_checkb thr ncols rows rep = true ->
    NoDup (map fst rep) /\ (forall k c, In (k, c) rep <-> c = tot rows k /\ 0 < c /\ c <= thr).
  Proof.
    unfold rare_checkb. rewrite !andb_true_iff. intros [[H1 H2] H3].
    apply nodup_keysb_spec in H1. split; [assumption|].
    rewrite forallb_forall in H2, H3. intros k c. split.
    - intro I. specialize (H2 _ I). cbn [fst snd] in H2. lia.
    - intros (E & P & L). subst c.
      assert (I : In k (keys_of ncols rows)) by (apply (cnt_pos_In _ key_eq_dec); rewrite cnt_keys_of; assumption).
      rewrite <- (nodup_In key_eq_dec), <- dedup_nodup in I. specialize (H3 _ I). cbv zeta in H3. apply (get_In key_eq_dec); lia.
  Qed.

  Lemma rare_checkb_model (bs : list batch) : rare_checkb thr ncols (concat bs) (rare thr ncols bs) = true.
  Proof.
    destruct (rare_spec bs) as (N & S & G & _). unfold rare_checkb. rewrite !andb_true_iff. repeat split.
    - apply nodup_keysb_spec. assumption.
    - apply forallb_forall. intros [k c] I. apply S in I. cbn [fst snd]. lia.
    - apply forallb_forall. intros k _. cbv zeta. rewrite G.
      destruct (Z.ltb_spec thr (tot (concat bs) k)); lia.
  Qed.
End RareFacts.

(* the machine before fix 549e068: threshold 2, [a,a,a,b] | [a,b,c] reports a with count 1 although a
   occurs 4 times; the same rows in one batch do not report a *)
Lemma rare_old_refuted :
  exists (thr : Z) (s1 s2 : list batch) (k : key),
    concat s1 = concat s2 /\
    total 1 (concat s1) k = 4 /\ thr = 2 /\
    get key_eq_dec (rare_old thr 1 s1) k = 1 /\
    get key_eq_dec (rare_old thr 1 s2) k = 0 /\
    get key_eq_dec (rare thr 1 s1) k = 0.
Proof.
  exists 2, [[[V [97%N]]; [V [97%N]]; [V [97%N]]; [V [98%N]]]; [[V [97%N]]; [V [98%N]]; [V [99%N]]]],
         [[[V [97%N]]; [V [97%N]]; [V [97%N]]; [V [98%N]]; [V [97%N]]; [V [98%N]]; [V [99%N]]]], (0%nat, V [97%N]).
  vm_compute. repeat split; reflexivity.
Qed.

(* ====================================================================================== *)
(* (iv) coverage                                                                           *)

Lemma filter_cons_len (a : val) l' (col : list val) : ~ In a l' ->
  length (filter (fun v => memb val_eq_dec v (a :: l')) col) =
  (count_occ val_eq_dec col a + length (filter (fun v => memb val_eq_dec v l') col))%nat.
Proof.
  intro Na. induction col as [|v col IH]; [reflexivity|]. cbn [filter count_occ].
  destruct (memb val_eq_dec v (a :: l')) eqn:M1, (memb val_eq_dec v l') eqn:M2, (val_eq_dec v a) as [E|E];
    cbn [length]; rewrite IH; try lia; exfalso;
    try (apply memb_true in M1); try (apply memb_true in M2);
    try (assert (N1 : ~ In v (a :: l')) by (rewrite <- (memb_true _ val_eq_dec); congruence));
    try (assert (N2 : ~ In v l') by (rewrite <- (memb_true _ val_eq_dec); congruence)); cbn [In] in *;
    subst; intuition congruence.
Qed.

Lemma sum_counts l (col : list val) : NoDup l ->
  sum_Z (map (cnt val_eq_dec col) l) = Z.of_nat (length (filter (fun v => memb val_eq_dec v l) col)).
Proof.
  induction 1 as [|a l Na N IH]; cbn [map sum_Z fold_right].
  - unfold sum_Z. cbn. induction col; cbn; auto.
  - rewrite filter_cons_len by assumption. unfold sum_Z in *. rewrite IH. unfold cnt. lia.
Qed.

(* the cells holding one of the missing-value symbols: strings only — nan / None cells are never among them *)
Definition missing_cells (syms : list str) (col : list val) : Z :=
  Z.of_nat (length (filter (fun v => memb val_eq_dec v (map V syms)) col)).

Lemma NoDup_map_V l : NoDup l -> NoDup (map V l).
Proof.
  induction 1 as [|a l Na N IH]; cbn [map]; constructor; [|assumption].
  intro I. apply in_map_iff in I. destruct I as [x [E I]]. inversion E. subst. contradiction.
Qed.

Lemma miss_count_spec syms col : miss_count syms col = missing_cells syms col.
Proof.
  unfold miss_count, missing_cells. rewrite dedup_nodup.
  rewrite <- (map_map V (cnt val_eq_dec col)).
  rewrite sum_counts by (apply NoDup_map_V, NoDup_nodup). f_equal. f_equal.
  apply filter_ext. intro v.
  assert (E : In v (map V (nodup str_eq_dec syms)) <-> In v (map V syms)).
  { rewrite !in_map_iff. split; intros [x [Ex Ix]]; exists x; (split; [assumption|]);
      [apply nodup_In in Ix|apply nodup_In]; assumption. }
  destruct (memb val_eq_dec v (map V (nodup str_eq_dec syms))) eqn:M1, (memb val_eq_dec v (map V syms)) eqn:M2; auto.
  - apply memb_true in M1. apply memb_false in M2. tauto.
  - apply memb_false in M1. apply memb_true in M2. tauto.
Qed.

Lemma filter_len_le {A} (p : A -> bool) l : (length (filter p l) <= length l)%nat.
Proof. induction l as [|a l IH]; cbn [filter length]; [lia|]. destruct (p a); cbn [length]; lia. Qed.

Lemma missing_le syms col : 0 <= missing_cells syms col <= Z.of_nat (length col).
Proof. unfold missing_cells. pose proof (filter_len_le (fun v => memb val_eq_dec v (map V syms)) col). lia. Qed.

Lemma cov_batch_spec syms col : col <> [] ->
  (cov_batch syms col * inject_Z (Z.of_nat (length col)) ==
   inject_Z (100 * (Z.of_nat (length col) - missing_cells syms col)))%Q.
Proof.
  intro H. unfold cov_batch. rewrite miss_count_spec.
  assert (P : 0 < Z.of_nat (length col)) by (destruct col; [congruence|cbn [length]; lia]).
  set (n := Z.of_nat (length col)) in *. set (m := missing_cells syms col).
  clearbody n m. unfold Z.sub. rewrite inject_Z_mult, inject_Z_plus, inject_Z_opp.
  field. intro E. apply (inject_Z_injective n 0) in E. lia.
Qed.

Lemma cov_batch_range syms col : col <> [] -> (0 <= cov_batch syms col <= 100)%Q.
Proof.
  intro H. pose proof (cov_batch_spec syms col H) as S. pose proof (missing_le syms col) as M.
  assert (P : 0 < Z.of_nat (length col)) by (destruct col; [congruence|cbn [length]; lia]).
  set (n := Z.of_nat (length col)) in *. set (m := missing_cells syms col) in *. clearbody n m.
  assert (PN : (0 < inject_Z n)%Q) by (change 0%Q with (inject_Z 0); rewrite <- Zlt_Qlt; lia).
  assert (E : (cov_batch syms col == inject_Z (100 * (n - m)) / inject_Z n)%Q).
  { rewrite <- S. field. intro E. rewrite E in PN. apply Qlt_irrefl in PN. exact PN. }
  rewrite E. split.
  - apply Qle_shift_div_l; [exact PN|]. rewrite Qmult_0_l. change 0%Q with (inject_Z 0). rewrite <- Zle_Qle. lia.
  - apply Qle_shift_div_r; [exact PN|]. change 100%Q with (inject_Z 100). rewrite <- inject_Z_mult, <- Zle_Qle. lia.
Qed.

Lemma cov_batch_full syms col : col <> [] ->
  (cov_batch syms col * inject_Z (Z.of_nat (length col)) ==
   inject_Z (100 * (Z.of_nat (length col) - missing_cells syms col)))%Q /\
  (0 <= cov_batch syms col <= 100)%Q.
Proof. intro H. split; [exact (cov_batch_spec syms col H)|exact (cov_batch_range syms col H)]. Qed.

(* nearest integer, ties to even: |x - r| <= 1/2, and r is even at a tie *)
Lemma rhe_spec (n : Z) (d : positive) :
  let r := round_half_even (n # d) in
  (2 * r - 1) * Zpos d <= 2 * n <= (2 * r + 1) * Zpos d /\
  (2 * n = (2 * r + 1) * Zpos d \/ 2 * n = (2 * r - 1) * Zpos d -> Z.even r = true).
Proof.
  unfold round_half_even. cbn [Qnum Qden].
  pose proof (Z.div_mod n (Zpos d) ltac:(lia)) as E.
  pose proof (Z.mod_pos_bound n (Zpos d) ltac:(lia)) as B.
  set (fl := n / Zpos d) in *. set (rm := n mod Zpos d) in *. clearbody fl rm.
  destruct (Z.compare_spec (2 * rm) (Zpos d)) as [C|C|C].
  - destruct (Z.even fl) eqn:Ev.
    + split; [nia|intros _; exact Ev].
    + split; [nia|]. intros _. change (fl + 1) with (Z.succ fl). rewrite Z.even_succ, <- Z.negb_even, Ev. reflexivity.
  - split; [nia|]. intros [H|H]; exfalso; nia.
  - split; [nia|]. intros [H|H]; exfalso; nia.
Qed.

Lemma annot_spec (n : Z) (d : positive) (a : Z) : 0 <= n ->
  (Z.quot (round_half_even (n # d)) 10 = a <->
   (20 * a - 1) * Zpos d <= 2 * n < (20 * a + 19) * Zpos d).
Proof.
  intro Hn. destruct (rhe_spec n d) as [B T]. cbv zeta in *.
  set (r := round_half_even (n # d)) in *. clearbody r.
  assert (R0 : 0 <= r) by nia.
  rewrite Z.quot_div_nonneg by lia.
  assert (Ev : forall k, (r = 10 * k + 9 \/ r = 10 * k - 1) -> Z.even r = true -> False).
  { intros k Hk He. apply Z.even_spec in He. destruct He as [q Hq]. lia. }
  split.
  - intro A. pose proof (Z.div_mod r 10 ltac:(lia)) as E. pose proof (Z.mod_pos_bound r 10 ltac:(lia)) as M.
    rewrite A in E. split; [nia|].
    destruct (Z.eq_dec (2 * n) ((20 * a + 19) * Zpos d)) as [Q|Q]; [|nia].
    exfalso. assert (r = 10 * a + 9) by nia. apply (Ev a); [lia|]. apply T. left. nia.
  - intros [L U]. symmetry. apply (Z.div_unique r 10 a (r - 10 * a)); [|lia].
    assert (10 * a - 1 <= r) by nia. assert (r < 10 * a + 10) by nia.
    destruct (Z.eq_dec r (10 * a - 1)) as [Q|Q]; [|lia].
    exfalso. apply (Ev a); [lia|]. apply T. left. nia.
Qed.

Theorem cov_annot_spec covs a : (0 <= qmean covs)%Q ->
  (cov_annot covs = a <->
   (inject_Z a - (1 # 20) <= qmean covs)%Q /\ (qmean covs < inject_Z a + (19 # 20))%Q).
Proof.
  unfold cov_annot. destruct (qmean covs) as [p q]. intro H0.
  assert (P : 0 <= p) by (unfold Qle in H0; cbn in H0; lia).
  unfold Qmult. cbn [Qnum Qden]. rewrite annot_spec by lia.
  unfold Qle, Qlt, Qminus, Qplus, Qopp, inject_Z. cbn [Qnum Qden].
  rewrite Pos.mul_1_r. change (Z.pos (1 * 20)) with 20. lia.
Qed.

Lemma qsum_nonneg l : Forall (fun c => 0 <= c)%Q l -> (0 <= qsum l)%Q.
Proof.
  induction 1 as [|c l Hc F IH]; cbn [qsum fold_right]; [apply Qle_refl|].
  change 0%Q with (0 + 0)%Q. apply Qplus_le_compat; assumption.
Qed.

Lemma qmean_nonneg l : Forall (fun c => 0 <= c)%Q l -> (0 <= qmean l)%Q.
Proof.
  intro F. unfold qmean, Qdiv. apply Qmult_le_0_compat; [apply qsum_nonneg; assumption|].
  apply Qinv_le_0_compat. change 0%Q with (inject_Z 0). rewrite <- Zle_Qle. lia.
Qed.

(* ====================================================================================== *)
(* compositions and the symbol list                                                        *)

Lemma concat_cut sizes (rows : list row) : list_sum sizes = length rows -> concat (cut sizes rows) = rows.
Proof.
  revert rows. induction sizes as [|n r IH]; intros rows H; cbn [cut concat] in *.
  - destruct rows; [reflexivity|discriminate].
  - change (list_sum (n :: r)) with (n + list_sum r)%nat in H. rewrite IH; [apply firstn_skipn|]. rewrite skipn_length. lia.
Qed.

Fixpoint join (c : N) (l : list str) : str :=
  match l with
  | [] => []
  | x :: r => match r with [] => x | _ => x ++ c :: join c r end
  end.

Lemma split_on_nonnil c s : split_on c s <> [].
Proof. destruct s as [|x r]; cbn [split_on]; [discriminate|]. destruct (split_on c r); [discriminate|]. destruct (N.eqb x c); discriminate. Qed.

(* str.split(c): the pieces contain no separator and joining them with it gives the string back *)
Lemma split_on_spec c s : join c (split_on c s) = s /\ Forall (fun p => ~ In c p) (split_on c s).
Proof.
  induction s as [|x r IH]; cbn [split_on].
  - split; [reflexivity|repeat constructor; intros []].
  - destruct IH as [IH1 IH2]. pose proof (split_on_nonnil c r) as NN. destruct (split_on c r) as [|h t]; [congruence|].
    pose proof (Forall_inv IH2) as Hh. pose proof (Forall_inv_tail IH2) as Ht. cbv beta in Hh.
    destruct (N.eqb_spec x c) as [->|Hx].
    + split; [change (join c ([] :: h :: t)) with ([] ++ c :: join c (h :: t)); rewrite IH1; reflexivity|repeat constructor; auto; intros []].
    + split.
      * destruct t as [|h' t]; [cbn [join] in *; congruence|].
        change (join c ((x :: h) :: h' :: t)) with ((x :: h) ++ c :: join c (h' :: t)).
        change (join c (h :: h' :: t)) with (h ++ c :: join c (h' :: t)) in IH1. cbn [app]. congruence.
      * constructor; [|assumption]. cbn [In]. intros [E|E]; [congruence|contradiction].
Qed.

(* ====================================================================================== *)
(* split independence                                                                      *)

Lemma split_indep (hash : val -> N) cap edges bound thr ncols (s1 s2 : list batch) :
  0 <= cap -> concat s1 = concat s2 ->
  (forall j, card hash cap j s1 = card hash cap j s2) /\
  (forall j, counter bound j s1 = counter bound j s2 /\ hist edges bound j s1 = hist edges bound j s2) /\
  Permutation (rare thr ncols s1) (rare thr ncols s2) /\
  (forall k, get key_eq_dec (rare thr ncols s1) k = get key_eq_dec (rare thr ncols s2) k).
Proof.
  intros Hc E. split; [|split].
  - intro j. rewrite !card_is_spec by assumption. rewrite E. reflexivity.
  - intro j. unfold hist. rewrite !counter_is_concat, E. split; reflexivity.
  - apply rare_split_indep. assumption.
Qed.

(* every composition of the row count gives the same statistics *)
Lemma compositions_agree (hash : val -> N) cap edges bound thr ncols (rows : list row) sz1 sz2 :
  0 <= cap -> list_sum sz1 = length rows -> list_sum sz2 = length rows ->
  (forall j, card hash cap j (cut sz1 rows) = card hash cap j (cut sz2 rows)) /\
  (forall j, hist edges bound j (cut sz1 rows) = hist edges bound j (cut sz2 rows)) /\
  Permutation (rare thr ncols (cut sz1 rows)) (rare thr ncols (cut sz2 rows)).
Proof.
  intros Hc H1 H2.
  destruct (split_indep hash cap edges bound thr ncols (cut sz1 rows) (cut sz2 rows) Hc) as (A & B & C & _).
  - rewrite !concat_cut by assumption. reflexivity.
  - split; [exact A|split; [intro j; apply B|exact C]].
Qed.

(* ====================================================================================== *)
(* parsed rows with None cells and the frame of a batch                                     *)

Lemma frame_row_none_free (b : list rrow) (r : rrow) a :
  forallb (fun c => negb (is_none c)) r = true ->
  map (frame_cell b) (combine (seq a (length r)) r) = map lift_cell r.
Proof.
  revert a. induction r as [|c r IH]; intros a H; [reflexivity|]. cbn [length seq combine map].
  cbn [forallb] in H. apply andb_true_iff in H. destruct H as [Hc Hr]. f_equal; [|apply IH; assumption].
  destruct c; [reflexivity|discriminate].
Qed.

Lemma frame_rows_none_free (b rows : list rrow) : none_free rows = true ->
  map (fun r => map (frame_cell b) (combine (seq 0 (length r)) r)) rows = lift rows.
Proof.
  induction rows as [|r rows IH]; intro H; [reflexivity|]. unfold none_free in H. cbn [forallb] in H.
  apply andb_true_iff in H. destruct H as [Hr Hrows]. cbn [map lift]. f_equal.
  - apply frame_row_none_free. assumption.
  - apply IH. assumption.
Qed.

(* without None cells the frame holds every cell's string, whatever the batch *)
Lemma frame_none_free (b : list rrow) : none_free b = true -> frame_raw b = lift b.
Proof. apply frame_rows_none_free. Qed.

Lemma frames_none_free (s : list (list rrow)) : Forall (fun b => none_free b = true) s ->
  concat (frames_raw s) = lift (concat s).
Proof.
  induction 1 as [|b s Hb F IH]; [reflexivity|]. unfold frames_raw in *. cbn [map concat].
  rewrite IH, frame_none_free by assumption. unfold lift. rewrite map_app. reflexivity.
Qed.

(* split independence at the level of parsed rows, for histories without None cells *)
Lemma raw_split_indep (hash : val -> N) cap edges bound thr ncols (s1 s2 : list (list rrow)) :
  0 <= cap -> Forall (fun b => none_free b = true) s1 -> Forall (fun b => none_free b = true) s2 ->
  concat s1 = concat s2 ->
  (forall j, card hash cap j (frames_raw s1) = card hash cap j (frames_raw s2)) /\
  (forall j, counter bound j (frames_raw s1) = counter bound j (frames_raw s2) /\
             hist edges bound j (frames_raw s1) = hist edges bound j (frames_raw s2)) /\
  Permutation (rare thr ncols (frames_raw s1)) (rare thr ncols (frames_raw s2)) /\
  (forall k, get key_eq_dec (rare thr ncols (frames_raw s1)) k = get key_eq_dec (rare thr ncols (frames_raw s2)) k).
Proof.
  intros Hc F1 F2 E. apply split_indep; [assumption|]. rewrite !frames_none_free by assumption. rewrite E. reflexivity.
Qed.

(* through the pipeline (fix 2ffc0d7: fillna('') per batch) the frame is computed cell by cell, so the frames of a
   history concatenate to the filled table and EVERY history of parsed rows, None cells included, is split independent *)
Lemma frames_fill (s : list (list rrow)) : concat (frames s) = fill (concat s).
Proof.
  induction s as [|b s IH]; [reflexivity|]. unfold frames in *. cbn [map concat]. rewrite IH.
  unfold frame_batch, fill. rewrite map_app. reflexivity.
Qed.

Lemma parsed_split_indep (hash : val -> N) cap edges bound thr ncols (s1 s2 : list (list rrow)) :
  0 <= cap -> concat s1 = concat s2 ->
  (forall j, card hash cap j (frames s1) = card hash cap j (frames s2)) /\
  (forall j, counter bound j (frames s1) = counter bound j (frames s2) /\
             hist edges bound j (frames s1) = hist edges bound j (frames s2)) /\
  Permutation (rare thr ncols (frames s1)) (rare thr ncols (frames s2)) /\
  (forall k, get key_eq_dec (rare thr ncols (frames s1)) k = get key_eq_dec (rare thr ncols (frames s2)) k).
Proof. intros Hc E. apply split_indep; [assumption|]. rewrite !frames_fill, E. reflexivity. Qed.

(* ... and the statistics are those of the filled table: an absent field is the empty string — a missing symbol
   by default, skipped by the sketch, the key '' of the counter and of the rare-value machine *)
Lemma parsed_card (hash : val -> N) cap j (s : list (list rrow)) : 0 <= cap ->
  card hash cap j (frames s) = card_spec hash cap (column j (fill (concat s))).
Proof. intro Hc. rewrite card_is_spec by assumption. rewrite frames_fill. reflexivity. Qed.

(* [pre-fix pipeline / direct calls] None cells break it: pandas stores nan (truthy, a key of its own) when the batch's column also holds
   strings and None (falsy, another key) when it does not.  Rows [None; a; None] in one batch or cut 1 | 2 *)
Lemma none_cells_refuted :
  exists (hash : val -> N) (s1 s2 s3 : list (list rrow)),
    concat s1 = concat s2 /\ concat s1 = concat s3 /\
    card hash 262144 0 (frames_raw s1) = Some 2%nat /\ card hash 262144 0 (frames_raw s2) = Some 1%nat /\
    hist [0; 1] 30000 0 (frames_raw s1) = [2; 1] /\ hist [0; 1] 30000 0 (frames_raw s3) = [3; 0] /\
    rare 1 1 (frames_raw s1) = [((0%nat, V [97%N]), 1)] /\
    rare 1 1 (frames_raw s3) = [((0%nat, PyNone), 1); ((0%nat, V [97%N]), 1); ((0%nat, NaN), 1)].
Proof.
  exists (fun v => match v with V [x] => x | NaN => 1%N | _ => 0%N end),
         [[[None]; [Some (V [97%N])]; [None]]], [[[None]]; [[Some (V [97%N])]]; [[None]]], [[[None]]; [[Some (V [97%N])]; [None]]].
  vm_compute. repeat split; reflexivity.
Qed.

(* ====================================================================================== *)
(* non-vacuity: concrete, non-trivial instances of the hypotheses                           *)

Module Examples.
  Definition a : val := V [97%N]. Definition b : val := V [98%N]. Definition c : val := V [99%N].
  Definition e : val := V []. Definition na : val := V [78%N; 65%N].
  Definition h1 (v : val) : N := match v with V [x] => x | _ => 0%N end.
  Definition rows : list row := [[a; e]; [a; b]; [a; na]; [b; e]; [a; b]; [c; e]].
  Definition sp1 : list batch := cut [4; 2]%nat rows.
  Definition sp2 : list batch := cut [1; 2; 3]%nat rows.

  Example ex_split : concat sp1 = concat sp2 /\ sp1 <> sp2 /\
    card h1 262144 0 sp1 = Some 3%nat /\ hist default_edges 30000 0 sp1 = [3; 1; 0; 0; 0; 0; 0] /\
    rare 2 2 sp1 = [((0%nat, b), 1); ((1%nat, b), 2); ((1%nat, na), 1); ((0%nat, c), 1)] /\
    rare 2 2 sp2 = [((1%nat, b), 2); ((1%nat, na), 1); ((0%nat, b), 1); ((0%nat, c), 1)].
  Proof. vm_compute. repeat split; try reflexivity. discriminate. Qed.

  (* card_exact: hypotheses hold for column 0 of the table, three distinct non-empty values *)
  Example ex_card_inj :
    let col := column 0 (concat sp1) in
    (forall u v, In u col -> In v col -> truthy u = true -> truthy v = true -> h1 u = h1 v -> u = v) /\
    Z.of_nat (distinct_truthy col) <= 262144 /\ distinct_truthy col = 3%nat.
  Proof.
    cbv zeta. split; [|vm_compute; split; [discriminate|reflexivity]].
    intros u v Iu Iv _ _. vm_compute in Iu, Iv.
    repeat (destruct Iu as [Iu|Iu]; [subst u|]); try contradiction;
      repeat (destruct Iv as [Iv|Iv]; [subst v|]); try contradiction; vm_compute; congruence.
  Qed.

  (* empty strings are not counted; the other missing markers are *)
  Example ex_card_empty : card h1 262144 1 sp1 = Some 2%nat /\ card_spec h1 262144 [e; na; e] = Some 1%nat.
  Proof. vm_compute. split; reflexivity. Qed.

  (* a full sketch: one more distinct hash than the capacity and the claim ends *)
  Example ex_card_cold : card h1 2 0 sp1 = None /\ card h1 3 0 sp1 = Some 3%nat.
  Proof. vm_compute. split; reflexivity. Qed.

  Example ex_hist_hyp : Z.of_nat (length (nodup val_eq_dec (column 0 (concat sp1)))) < 30000.
  Proof. vm_compute. reflexivity. Qed.

  (* the bound hypothesis is needed: with 2 slots the third value and every later cell are dropped *)
  Example ex_hist_bound : hist [0; 1] 2 0 sp1 = [2; 1] /\ hist_spec [0; 1] (column 0 (concat sp1)) = [3; 1] /\
                          hist [0; 1] 2 0 sp2 = [2; 1].
  Proof. vm_compute. repeat split; reflexivity. Qed.

  (* a is retired in the first batch of sp1 (3 > 2) and stays out although it comes back *)
  Example ex_rare_retire :
    get key_eq_dec (rare 2 2 sp1) (0%nat, a) = 0 /\ total 2 (concat sp1) (0%nat, a) = 4 /\
    In (0%nat, a) (snd (rv_run 2 2 sp1)) /\ get key_eq_dec (rare_old 2 2 sp1) (0%nat, a) = 1.
  Proof. repeat split; try (vm_compute; reflexivity). apply (memb_true _ key_eq_dec). vm_compute. reflexivity. Qed.

  Example ex_cov : cov_batch [[]; [78%N; 65%N]] (column 1 (concat sp1)) == 100 # 3 /\
                   cov_annot (coverages (split_on 44 [44%N; 78%N; 65%N]) 1 sp1) = 37 /\
                   cov_annot (coverages (split_on 44 [44%N; 78%N; 65%N]) 1 sp2) = 27.
  Proof. vm_compute. repeat split; reflexivity. Qed.

  (* rounding to one decimal before truncating: 99.96 -> 100, 99.94 -> 99, the tie 99.95 -> 100 *)
  Example ex_round : cov_annot [9996 # 100] = 100 /\ cov_annot [9994 # 100] = 99 /\ cov_annot [9995 # 100] = 100 /\
                     cov_annot [100 # 1; 999 # 10] = 100 /\ cov_annot [4995 # 100] = 50 /\ cov_annot [4985 # 100] = 49.
  Proof. vm_compute. repeat split; reflexivity. Qed.
  (* coverage: a None cell (nan or None in the frame) is not a missing symbol and the denominator is the
     number of rows: ['u', None, '{}', 'v'] with symbols '', '{}' is 75 *)
  Example ex_cov_none :
    cov_batch [[]; [123%N; 125%N]] (column 0 (frame_raw [[Some (V [117%N])]; [None]; [Some (V [123%N; 125%N])]; [Some (V [118%N])]])) == 75 /\
    cov_batch [[]; [123%N; 125%N]] (column 0 (frame_raw [[None]; [None]])) == 100.
  Proof. vm_compute. split; reflexivity. Qed.

  (* the frame of a batch: None becomes nan next to strings, stays None in an all-None column *)
  Example ex_frame : frame_raw [[Some (V [97%N]); None]; [None; None]] = [[a; PyNone]; [NaN; PyNone]].
  Proof. reflexivity. Qed.
End Examples.
