From Coq Require Import List ZArith Lia Permutation Sorting.Sorted.
Import ListNotations.
Open Scope Z_scope.

Fixpoint insert (x : Z) (l : list Z) : list Z :=
  match l with [] => [x] | y :: r => if x <=? y then x :: l else y :: insert x r end.
Definition sort (l : list Z) : list Z := fold_right insert [] l.

Lemma insert_perm x l : Permutation (insert x l) (x :: l).
Proof.
  induction l as [|y r IH]; [reflexivity|]. cbn [insert]. destruct (x <=? y); [reflexivity|].
  rewrite IH. apply perm_swap.
Qed.
Lemma sort_perm l : Permutation (sort l) l.
Proof. induction l as [|x r IH]; [reflexivity|]. cbn [sort fold_right]. fold (sort r). rewrite insert_perm, IH. reflexivity. Qed.

Lemma insert_sorted x l : StronglySorted Z.le l -> StronglySorted Z.le (insert x l).
Proof.
  induction l as [|y r IH]; intros H; [repeat constructor|]. cbn [insert].
  inversion H as [|? ? Hr Hall]; subst. destruct (x <=? y) eqn:E.
  - apply Z.leb_le in E. constructor; [exact H|]. constructor; [exact E|].
    eapply Forall_impl; [|exact Hall]. intros z Hz; lia.
  - apply Z.leb_gt in E. constructor; [apply IH; exact Hr|].
    eapply Permutation_Forall; [symmetry; apply insert_perm|]. constructor; [lia|exact Hall].
Qed.
Lemma sort_sorted l : StronglySorted Z.le (sort l).
Proof. induction l as [|x r IH]; [constructor|]. cbn [sort fold_right]. apply insert_sorted. exact IH. Qed.

Lemma sorted_perm_eq l : forall l', StronglySorted Z.le l -> StronglySorted Z.le l' -> Permutation l l' -> l = l'.
Proof.
  induction l as [|x r IH]; intros l' H H' Hp.
  - apply Permutation_nil in Hp. auto.
  - destruct l' as [|y r']; [apply Permutation_sym, Permutation_nil in Hp; discriminate|].
    inversion H as [|? ? Hr Hall]; inversion H' as [|? ? Hr' Hall']; subst.
    assert (x = y).
    { assert (In x (y :: r')) by (eapply Permutation_in; [exact Hp|now left]).
      assert (In y (x :: r)) by (eapply Permutation_in; [symmetry; exact Hp|now left]).
      rewrite Forall_forall in Hall, Hall'.
      destruct H0 as [->|Hx]; [reflexivity|]. destruct H1 as [->|Hy]; [reflexivity|].
      pose proof (Hall' x Hx). pose proof (Hall y Hy). lia. }
    subst y. f_equal. apply IH; try assumption. eapply Permutation_cons_inv. exact Hp.
Qed.

Theorem sort_perm_invariant l l' : Permutation l l' -> sort l = sort l'.
Proof.
  intros Hp. apply sorted_perm_eq; try apply sort_sorted.
  rewrite !sort_perm. exact Hp.
Qed.

(* twice the median, to stay in Z: 2*middle for odd length, sum of the two middles for even length *)
Definition median2 (l : list Z) : Z :=
  let s := sort l in let n := length s in
  if Nat.even n then nth (n / 2 - 1) s 0 + nth (n / 2) s 0 else 2 * nth (n / 2) s 0.

Theorem median2_perm l l' : Permutation l l' -> median2 l = median2 l'.
Proof. intros Hp. unfold median2. rewrite (sort_perm_invariant l l' Hp). reflexivity. Qed.
Print Assumptions median2_perm.
Eval vm_compute in (median2 [5; 1; 9], median2 [5; 1; 9; 2], median2 [7]).
