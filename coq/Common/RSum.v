From Coq Require Import Reals List Lra Lia Arith.
Import ListNotations.
Open Scope R_scope.

Definition rsum {A} (f : A -> R) (l : list A) : R := fold_right (fun a s => f a + s) 0 l.

Lemma rsum_nil {A} (f : A -> R) : rsum f [] = 0. Proof. reflexivity. Qed.
Lemma rsum_cons {A} (f : A -> R) a l : rsum f (a :: l) = f a + rsum f l. Proof. reflexivity. Qed.

Lemma rsum_ext_in {A} (f g : A -> R) l : (forall a, In a l -> f a = g a) -> rsum f l = rsum g l.
Proof.
  induction l as [|a l IH]; intros H; [reflexivity|].
  rewrite !rsum_cons, (H a (or_introl eq_refl)), IH; [reflexivity|].
  intros b Hb; apply H; now right.
Qed.

Lemma rsum_zero {A} (f : A -> R) l : (forall a, In a l -> f a = 0) -> rsum f l = 0.
Proof.
  induction l as [|a l IH]; intros H; [reflexivity|].
  rewrite rsum_cons, (H a (or_introl eq_refl)), IH; [lra|]. intros b Hb; apply H; now right.
Qed.

Lemma rsum_plus {A} (f g : A -> R) l : rsum (fun a => f a + g a) l = rsum f l + rsum g l.
Proof. induction l as [|a l IH]; [simpl; lra|]. rewrite !rsum_cons, IH; lra. Qed.

Lemma rsum_minus {A} (f g : A -> R) l : rsum (fun a => f a - g a) l = rsum f l - rsum g l.
Proof. induction l as [|a l IH]; [simpl; lra|]. rewrite !rsum_cons, IH; lra. Qed.

Lemma rsum_scal {A} (k : R) (f : A -> R) l : rsum (fun a => k * f a) l = k * rsum f l.
Proof. induction l as [|a l IH]; [simpl; lra|]. rewrite !rsum_cons, IH; lra. Qed.

Lemma rsum_le {A} (f g : A -> R) l : (forall a, In a l -> f a <= g a) -> rsum f l <= rsum g l.
Proof.
  induction l as [|a l IH]; intros H; [simpl; lra|].
  rewrite !rsum_cons. pose proof (H a (or_introl eq_refl)).
  assert (rsum f l <= rsum g l) by (apply IH; intros b Hb; apply H; now right). lra.
Qed.

Lemma rsum_swap {A B} (f : A -> B -> R) la lb :
  rsum (fun a => rsum (fun b => f a b) lb) la = rsum (fun b => rsum (fun a => f a b) la) lb.
Proof.
  induction la as [|a la IH].
  - simpl. symmetry. apply rsum_zero. reflexivity.
  - rewrite rsum_cons, IH. rewrite <- rsum_plus. apply rsum_ext_in. intros b _. reflexivity.
Qed.

Lemma rsum_app {A} (f : A -> R) l1 l2 : rsum f (l1 ++ l2) = rsum f l1 + rsum f l2.
Proof. induction l1 as [|a l IH]; [simpl; lra|]. simpl app. rewrite !rsum_cons, IH; lra. Qed.

Lemma rsum_map {A B} (g : A -> B) (f : B -> R) l : rsum f (map g l) = rsum (fun a => f (g a)) l.
Proof. induction l as [|a l IH]; [reflexivity|]. simpl map. rewrite !rsum_cons, IH. reflexivity. Qed.

Section ByValue.
  Context {A : Type} (dec : forall a b : A, {a = b} + {a <> b}).

  Lemma rsum_indicator (F : A -> R) (p : A) (U : list A) :
    NoDup U -> In p U -> rsum (fun u => if dec p u then F u else 0) U = F p.
  Proof.
    induction U as [|u U IH]; intros Hnd Hin; [contradiction|].
    inversion Hnd as [|? ? Hnotin Hnd']; subst. rewrite rsum_cons.
    destruct (dec p u) as [->|Hne].
    - rewrite rsum_zero; [lra|]. intros b Hb. destruct (dec u b) as [->|]; [contradiction|reflexivity].
    - destruct Hin as [->|Hin]; [congruence|]. rewrite IH by assumption. lra.
  Qed.

  Lemma sum_by_value (F : A -> R) (P U : list A) :
    NoDup U -> incl P U ->
    rsum (fun u => INR (count_occ dec P u) * F u) U = rsum F P.
  Proof.
    intros Hnd. induction P as [|p P IH]; intros Hincl.
    - simpl. apply rsum_zero. intros; lra.
    - rewrite rsum_cons, <- IH by (intros x Hx; apply Hincl; now right).
      rewrite <- (rsum_indicator F p U Hnd) by (apply Hincl; now left).
      rewrite <- rsum_plus. apply rsum_ext_in. intros u _.
      simpl count_occ. destruct (dec p u) as [->|Hne].
      + destruct (dec u u); [|congruence]. rewrite S_INR. lra.
      + destruct (dec p u); [congruence|]. lra.
  Qed.
End ByValue.
