(* C18 — proofs about the summary model. *)
From Coq Require Import List QArith Qabs ZArith NArith Bool Arith Permutation Sorting.Sorted Lia.
From Outrank Require Import Rank.QMedian Rank.QMedianProofs Summary.Summary.
Import ListNotations.
Open Scope Q_scope.

(* ---------- names ---------- *)
Lemma name_eqb_eq a : forall b, name_eqb a b = true <-> a = b.
Proof.
  induction a as [|x a IH]; intros [|y b]; cbn [name_eqb]; try (split; discriminate); [tauto|].
  rewrite andb_true_iff, N.eqb_eq, IH. split; [intros [-> ->]; reflexivity|intros H; injection H; auto].
Qed.

Lemma name_eqb_refl a : name_eqb a a = true.
Proof. apply name_eqb_eq. reflexivity. Qed.

Lemma name_eqb_neq a b : name_eqb a b = false <-> a <> b.
Proof.
  split.
  - intros H E. apply name_eqb_eq in E. congruence.
  - intros H. destruct (name_eqb a b) eqn:E; [apply name_eqb_eq in E; contradiction|reflexivity].
Qed.

Lemma memn_in x l : memn x l = true <-> In x l.
Proof.
  unfold memn. rewrite existsb_exists. split.
  - intros [y [Hy He]]. apply name_eqb_eq in He. now subst.
  - intros H. exists x. split; [exact H|apply name_eqb_refl].
Qed.

Lemma dedup_spec l : forall seen,
  NoDup (dedup seen l) /\ forall x, In x (dedup seen l) <-> In x l /\ ~ In x seen.
Proof.
  induction l as [|h t IH]; intros seen; cbn [dedup].
  - split; [constructor|]. intros x. cbn. tauto.
  - destruct (memn h seen) eqn:E.
    + apply memn_in in E. destruct (IH seen) as [Hnd Hin]. split; [exact Hnd|].
      intros x. rewrite Hin. cbn [In]. split; [tauto|]. intros [[<-|H] Hn]; [contradiction|tauto].
    + assert (Hh : ~ In h seen) by (intros H; apply memn_in in H; congruence).
      destruct (IH (h :: seen)) as [Hnd Hin]. split.
      * constructor; [|exact Hnd]. rewrite Hin. cbn [In]. tauto.
      * intros x. cbn [In]. rewrite Hin. cbn [In]. split.
        -- intros [<-|[H1 H2]]; [tauto|]. tauto.
        -- intros [[<-|H] Hn]; [now left|]. destruct (name_eqb h x) eqn:Ex.
           ++ apply name_eqb_eq in Ex. now left.
           ++ apply name_eqb_neq in Ex. right. tauto.
Qed.

Lemma dedup_nodup l : NoDup (dedup [] l).
Proof. apply dedup_spec. Qed.

Lemma dedup_in l x : In x (dedup [] l) <-> In x l.
Proof. destruct (dedup_spec l []) as [_ H]. rewrite H. cbn. tauto. Qed.

(* ---------- grouping ---------- *)
Lemma group_median_fst rows : map fst (group_median rows) = dedup [] (map fst rows).
Proof. unfold group_median. rewrite map_map. cbn [fst]. apply map_id. Qed.

Lemma group_median_nodup rows : NoDup (map fst (group_median rows)).
Proof. rewrite group_median_fst. apply dedup_nodup. Qed.

Lemma group_median_keys rows f : In f (map fst (group_median rows)) <-> In f (map fst rows).
Proof. rewrite group_median_fst. apply dedup_in. Qed.

Lemma group_median_in rows f v : In (f, v) (group_median rows) -> v = qmedian (scores_of f rows).
Proof.
  unfold group_median. rewrite in_map_iff. intros [g [Heq _]]. injection Heq as -> ->. reflexivity.
Qed.

Lemma in_scores_of f rows s : In s (scores_of f rows) <-> In (f, s) rows.
Proof.
  unfold scores_of. rewrite in_map_iff. split.
  - intros [[g s'] [Hs Hin]]. cbn in Hs. subst s'. apply filter_In in Hin. destruct Hin as [Hin He].
    cbn in He. apply name_eqb_eq in He. now subst.
  - intros H. exists (f, s). split; [reflexivity|]. apply filter_In. split; [exact H|]. cbn. apply name_eqb_refl.
Qed.

(* ---------- the label rows ---------- *)
Lemma final_ranking_in lbl T f s :
  In (f, s) (final_ranking lbl T) <-> exists t, In t T /\ label_partner lbl t = Some (f, s).
Proof.
  unfold final_ranking. rewrite in_flat_map. split.
  - intros [t [Ht Hin]]. exists t. split; [exact Ht|]. destruct (label_partner lbl t) as [x|]; [|destruct Hin].
    destruct Hin as [->|[]]. reflexivity.
  - intros [t [Ht Hp]]. exists t. split; [exact Ht|]. rewrite Hp. now left.
Qed.

Lemma label_partner_spec lbl a b s f v : label_partner lbl (a, b, s) = Some (f, v) <->
  v = s /\ ((is_label lbl a = true /\ f = b) \/ (is_label lbl a = false /\ is_label lbl b = true /\ f = a)).
Proof.
  unfold label_partner. destruct (is_label lbl a); [|destruct (is_label lbl b)]; split.
  - intros H. injection H as <- <-. auto.
  - intros [-> [[_ ->]|[H _]]]; [reflexivity|discriminate].
  - intros H. injection H as <- <-. auto.
  - intros [-> [[H _]|[_ [_ ->]]]]; [discriminate|reflexivity].
  - discriminate.
  - intros [_ [[H _]|[_ [H _]]]]; discriminate.
Qed.

(* ---------- descending sort ---------- *)
Definition ge_snd (a b : name * Q) : Prop := snd b <= snd a.

Lemma insert_desc_perm x l : Permutation (insert_desc x l) (x :: l).
Proof.
  induction l as [|y r IH]; [reflexivity|]. cbn [insert_desc]. destruct (Qle_bool (snd y) (snd x)); [reflexivity|].
  rewrite IH. apply perm_swap.
Qed.

Lemma sort_desc_perm l : Permutation (sort_desc l) l.
Proof.
  induction l as [|x r IH]; [reflexivity|]. cbn [sort_desc fold_right]. fold (sort_desc r).
  rewrite insert_desc_perm, IH. reflexivity.
Qed.

Lemma insert_desc_sorted x l : StronglySorted ge_snd l -> StronglySorted ge_snd (insert_desc x l).
Proof.
  induction l as [|y r IH]; intros H; [repeat constructor|]. cbn [insert_desc].
  inversion H as [|? ? Hr Hall]; subst. destruct (Qle_bool (snd y) (snd x)) eqn:E.
  - apply Qle_bool_iff in E. constructor; [exact H|]. constructor; [exact E|].
    eapply Forall_impl; [|exact Hall]. unfold ge_snd. intros z Hz. eapply Qle_trans; eassumption.
  - apply Qle_bool_false in E. constructor; [apply IH; exact Hr|].
    eapply Permutation_Forall; [symmetry; apply insert_desc_perm|].
    constructor; [unfold ge_snd; apply Qlt_le_weak; exact E|exact Hall].
Qed.

Lemma sort_desc_sorted l : StronglySorted ge_snd (sort_desc l).
Proof. induction l as [|x r IH]; [constructor|]. cbn [sort_desc fold_right]. apply insert_desc_sorted. exact IH. Qed.

(* ---------- min / max ---------- *)
Lemma fold_min_spec l : forall seed,
  let m := fold_right (fun x m => if Qle_bool x m then x else m) seed l in
  In m (seed :: l) /\ m <= seed /\ forall x, In x l -> m <= x.
Proof.
  induction l as [|a t IH]; intros seed; cbn [fold_right].
  - split; [now left|]. split; [apply Qle_refl|intros x []].
  - destruct (IH seed) as [Hin [Hs Hall]].
    set (m := fold_right (fun x m => if Qle_bool x m then x else m) seed t) in *.
    destruct (Qle_bool a m) eqn:E.
    + apply Qle_bool_iff in E. split; [right; now left|]. split; [eapply Qle_trans; eassumption|].
      intros x [<-|Hx]; [apply Qle_refl|]. eapply Qle_trans; [exact E|apply Hall; exact Hx].
    + apply Qle_bool_false in E. split; [destruct Hin as [H|H]; [now left|right; now right]|].
      split; [exact Hs|]. intros x [<-|Hx]; [apply Qlt_le_weak; exact E|apply Hall; exact Hx].
Qed.

Lemma fold_max_spec l : forall seed,
  let m := fold_right (fun x m => if Qle_bool m x then x else m) seed l in
  In m (seed :: l) /\ seed <= m /\ forall x, In x l -> x <= m.
Proof.
  induction l as [|a t IH]; intros seed; cbn [fold_right].
  - split; [now left|]. split; [apply Qle_refl|intros x []].
  - destruct (IH seed) as [Hin [Hs Hall]].
    set (m := fold_right (fun x m => if Qle_bool m x then x else m) seed t) in *.
    destruct (Qle_bool m a) eqn:E.
    + apply Qle_bool_iff in E. split; [right; now left|]. split; [eapply Qle_trans; eassumption|].
      intros x [<-|Hx]; [apply Qle_refl|]. eapply Qle_trans; [apply Hall; exact Hx|exact E].
    + apply Qle_bool_false in E. split; [destruct Hin as [H|H]; [now left|right; now right]|].
      split; [exact Hs|]. intros x [<-|Hx]; [apply Qlt_le_weak; exact E|apply Hall; exact Hx].
Qed.

Lemma qmin_in l : l <> [] -> In (qmin l) l.
Proof.
  destruct l as [|a t]; [congruence|]. intros _. unfold qmin. cbn [hd].
  destruct (fold_min_spec (a :: t) a) as [H _]. destruct H as [H|H]; [rewrite <- H; now left|exact H].
Qed.
Lemma qmin_le l x : In x l -> qmin l <= x.
Proof. intros H. unfold qmin. apply (fold_min_spec l (hd 0 l)). exact H. Qed.
Lemma qmax_in l : l <> [] -> In (qmax l) l.
Proof.
  destruct l as [|a t]; [congruence|]. intros _. unfold qmax. cbn [hd].
  destruct (fold_max_spec (a :: t) a) as [H _]. destruct H as [H|H]; [rewrite <- H; now left|exact H].
Qed.
Lemma qmax_ge l x : In x l -> x <= qmax l.
Proof. intros H. unfold qmax. apply (fold_max_spec l (hd 0 l)). exact H. Qed.

Lemma qmin_le_qmax l : l <> [] -> qmin l <= qmax l.
Proof. intros H. apply qmax_ge. apply qmin_in. exact H. Qed.

Lemma qmin_perm l l' : Permutation l l' -> qmin l == qmin l'.
Proof.
  intros Hp. destruct l as [|a t].
  - apply Permutation_nil in Hp. subst. reflexivity.
  - assert (Hl' : l' <> []) by (intros ->; apply Permutation_sym, Permutation_nil in Hp; discriminate).
    apply Qle_antisym; apply qmin_le.
    + eapply Permutation_in; [symmetry; exact Hp|apply qmin_in; exact Hl'].
    + eapply Permutation_in; [exact Hp|apply qmin_in; discriminate].
Qed.
Lemma qmax_perm l l' : Permutation l l' -> qmax l == qmax l'.
Proof.
  intros Hp. destruct l as [|a t].
  - apply Permutation_nil in Hp. subst. reflexivity.
  - assert (Hl' : l' <> []) by (intros ->; apply Permutation_sym, Permutation_nil in Hp; discriminate).
    apply Qle_antisym; apply qmax_ge.
    + eapply Permutation_in; [exact Hp|apply qmax_in; discriminate].
    + eapply Permutation_in; [symmetry; exact Hp|apply qmax_in; exact Hl'].
Qed.

(* ---------- min-max normalisation ---------- *)
Lemma minmax_mono lo hi a b : lo <= hi -> a <= b -> minmax lo hi a <= minmax lo hi b.
Proof.
  intros Hlh Hab. unfold minmax, Qdiv. apply Qmult_le_compat_r.
  - unfold Qminus. apply Qplus_le_compat; [exact Hab|apply Qle_refl].
  - apply Qinv_le_0_compat. apply Qle_minus_iff in Hlh. exact Hlh.
Qed.

Lemma minmax_strict lo hi a b : lo < hi -> a < b -> minmax lo hi a < minmax lo hi b.
Proof.
  intros Hlh Hab. unfold minmax, Qdiv. apply Qmult_lt_compat_r.
  - apply Qinv_lt_0_compat. apply Qlt_minus_iff in Hlh. exact Hlh.
  - unfold Qminus. apply Qplus_lt_le_compat; [exact Hab|apply Qle_refl].
Qed.

Lemma minmax_lo lo hi v : v == lo -> minmax lo hi v == 0.
Proof. intros H. unfold minmax. rewrite H. unfold Qdiv, Qminus. rewrite Qplus_opp_r. apply Qmult_0_l. Qed.

Lemma minmax_hi lo hi v : lo < hi -> v == hi -> minmax lo hi v == 1.
Proof.
  intros Hlh H. unfold minmax. rewrite H. unfold Qdiv. apply Qmult_inv_r.
  intros E. apply Qlt_minus_iff in Hlh. unfold Qminus in E. rewrite E in Hlh. discriminate.
Qed.

Lemma minmax_range lo hi v : lo < hi -> lo <= v -> v <= hi -> 0 <= minmax lo hi v /\ minmax lo hi v <= 1.
Proof.
  intros Hlh H1 H2. split.
  - rewrite <- (minmax_lo lo hi lo) by reflexivity. apply minmax_mono; [apply Qlt_le_weak; exact Hlh|exact H1].
  - rewrite <- (minmax_hi lo hi hi Hlh) by reflexivity. apply minmax_mono; [apply Qlt_le_weak; exact Hlh|exact H2].
Qed.

Lemma normalise_fst l : map fst (normalise l) = map fst l.
Proof. unfold normalise. rewrite map_map. reflexivity. Qed.

Lemma normalise_in l f v : In (f, v) (normalise l) <->
  exists s, In (f, s) l /\ v = minmax (qmin (map snd l)) (qmax (map snd l)) s.
Proof.
  unfold normalise. rewrite in_map_iff. split.
  - intros [[g s] [Heq Hin]]. cbn in Heq. injection Heq as <- <-. exists s. auto.
  - intros [s [Hin ->]]. exists (f, s). auto.
Qed.

Lemma sorted_map {A B} (R : A -> A -> Prop) (R' : B -> B -> Prop) (g : A -> B) l :
  (forall a b, R a b -> R' (g a) (g b)) -> StronglySorted R l -> StronglySorted R' (map g l).
Proof.
  intros Hg. induction 1 as [|a t Hs IH Hall]; cbn [map]; constructor; [exact IH|].
  rewrite Forall_forall in *. intros y Hy. apply in_map_iff in Hy. destruct Hy as [x [<- Hx]]. apply Hg. apply Hall. exact Hx.
Qed.

Lemma normalise_sorted l : StronglySorted ge_snd l -> StronglySorted ge_snd (normalise l).
Proof.
  intros H. destruct l as [|a t]; [constructor|]. unfold normalise.
  apply (sorted_map ge_snd ge_snd); [|exact H]. unfold ge_snd. cbn [snd]. intros x y Hxy.
  apply minmax_mono; [apply qmin_le_qmax; discriminate|exact Hxy].
Qed.

(* ---------- feature_singles ---------- *)
Lemma singles_def heur lbl T : singles heur lbl T = if has_MI heur then normalise (pre lbl T) else pre lbl T.
Proof. reflexivity. Qed.

Lemma singles_fst heur lbl T : map fst (singles heur lbl T) = map fst (pre lbl T).
Proof. rewrite singles_def. destruct (has_MI heur); [apply normalise_fst|reflexivity]. Qed.

Lemma pre_fst_perm lbl T : Permutation (map fst (pre lbl T)) (map fst (medians lbl T)).
Proof. apply Permutation_map. apply sort_desc_perm. Qed.

Theorem singles_once heur lbl T :
  NoDup (map fst (singles heur lbl T)) /\
  forall f, In f (map fst (singles heur lbl T)) <-> exists t s, In t T /\ label_partner lbl t = Some (f, s).
Proof.
  rewrite singles_fst. split.
  - eapply Permutation_NoDup; [symmetry; apply pre_fst_perm|]. apply group_median_nodup.
  - intros f. split.
    + intros H. apply (Permutation_in _ (pre_fst_perm lbl T)) in H. unfold medians in H.
      apply (proj1 (group_median_keys _ _)) in H.
      apply in_map_iff in H. destruct H as [[g s] [Hg Hin]]. cbn in Hg. subst g.
      apply final_ranking_in in Hin. destruct Hin as [t [Ht Hp]]. exists t, s. auto.
    + intros [t [s [Ht Hp]]]. apply (Permutation_in _ (Permutation_sym (pre_fst_perm lbl T))).
      unfold medians. apply (proj2 (group_median_keys _ _)). apply in_map_iff. exists (f, s). split; [reflexivity|].
      apply final_ranking_in. exists t. auto.
Qed.

Definition label_scores (lbl : name) (T : list triplet) (f : name) : list Q := scores_of f (final_ranking lbl T).

Lemma pre_in lbl T f v : In (f, v) (pre lbl T) -> v = qmedian (label_scores lbl T f).
Proof.
  intros H. apply (Permutation_in _ (sort_desc_perm _)) in H. apply group_median_in in H. exact H.
Qed.

Theorem singles_median heur lbl T f v : In (f, v) (singles heur lbl T) ->
  let m := qmedian (label_scores lbl T f) in
  v = if has_MI heur then minmax (qmin (map snd (pre lbl T))) (qmax (map snd (pre lbl T))) m else m.
Proof.
  rewrite singles_def. destruct (has_MI heur); intros H; cbn zeta.
  - apply normalise_in in H. destruct H as [s [Hin ->]]. apply pre_in in Hin. subst s. reflexivity.
  - apply pre_in. exact H.
Qed.

Lemma label_scores_in lbl T f s : In s (label_scores lbl T f) <-> exists t, In t T /\ label_partner lbl t = Some (f, s).
Proof. unfold label_scores. rewrite in_scores_of. apply final_ranking_in. Qed.

(* the order of the rows of pairwise_ranks.tsv is immaterial (so is the code's initial sort by Score) *)
Lemma filter_perm {A} (p : A -> bool) l l' : Permutation l l' -> Permutation (filter p l) (filter p l').
Proof.
  induction 1 as [|x l l' H IH|x y l|l l' l'' H1 IH1 H2 IH2]; cbn [filter].
  - reflexivity.
  - destruct (p x); [constructor; exact IH|exact IH].
  - destruct (p x); destruct (p y); try reflexivity. apply perm_swap.
  - etransitivity; eassumption.
Qed.

Theorem row_order_irrelevant lbl T T' f : Permutation T T' -> Forall (fun t => reduced (snd t)) T ->
  qmedian (label_scores lbl T f) = qmedian (label_scores lbl T' f).
Proof.
  intros Hp Hred. apply qmedian_perm.
  - rewrite Forall_forall in *. intros s Hs. apply label_scores_in in Hs. destruct Hs as [[[a b] s'] [Ht Hl]].
    apply label_partner_spec in Hl. destruct Hl as [-> _]. apply (Hred (a, b, s') Ht).
  - unfold label_scores, scores_of. apply Permutation_map. apply filter_perm.
    unfold final_ranking. apply Permutation_flat_map. exact Hp.
Qed.

Theorem singles_sorted heur lbl T : StronglySorted ge_snd (singles heur lbl T).
Proof.
  rewrite singles_def. destruct (has_MI heur); [apply normalise_sorted|]; apply sort_desc_sorted.
Qed.

(* ---------- min-max: best -> 1, worst -> 0, order preserved ---------- *)
Lemma sorted_last {A} (R : A -> A -> Prop) l x : StronglySorted R (l ++ [x]) -> Forall (fun a => R a x) l.
Proof.
  induction l as [|a l IH]; intros H; [constructor|]. cbn [app] in H. inversion H as [|? ? Hs Hall]; subst.
  constructor; [|apply IH; exact Hs]. rewrite Forall_forall in Hall. apply Hall. apply in_or_app. right. now left.
Qed.

Theorem singles_minmax heur lbl T :
  has_MI heur = true ->
  let m := pre lbl T in
  let lo := qmin (map snd m) in
  let hi := qmax (map snd m) in
  (exists f g v w, In (f, v) m /\ In (g, w) m /\ ~ v == w) ->
  singles heur lbl T = map (fun r => (fst r, minmax lo hi (snd r))) m
  /\ lo < hi
  /\ (forall f v, In (f, v) m -> (0 <= minmax lo hi v /\ minmax lo hi v <= 1)
                              /\ (v == hi -> minmax lo hi v == 1) /\ (v == lo -> minmax lo hi v == 0))
  /\ (exists f, In (f, hi) m) /\ (exists f, In (f, lo) m)
  /\ (forall f v rest, m = (f, v) :: rest -> minmax lo hi v == 1)
  /\ (forall f v front, m = front ++ [(f, v)] -> minmax lo hi v == 0)
  /\ (forall v w, v < w -> minmax lo hi v < minmax lo hi w)
  /\ (forall v w, v <= w -> minmax lo hi v <= minmax lo hi w).
Proof.
  intros HMI m lo hi [f [g [v [w [Hf [Hg Hvw]]]]]].
  assert (Hin : forall f v, In (f, v) m -> In v (map snd m)).
  { intros f0 v0 H. apply in_map_iff. exists (f0, v0). auto. }
  assert (Hne : map snd m <> []) by (intros E; apply Hin in Hf; rewrite E in Hf; destruct Hf).
  assert (Hlt : lo < hi).
  { destruct (Qlt_le_dec lo hi) as [H|H]; [exact H|]. exfalso. apply Hvw.
    pose proof (qmin_le _ _ (Hin _ _ Hf)). pose proof (qmax_ge _ _ (Hin _ _ Hf)).
    pose proof (qmin_le _ _ (Hin _ _ Hg)). pose proof (qmax_ge _ _ (Hin _ _ Hg)).
    fold lo in H0, H2. fold hi in H1, H3.
    apply Qle_antisym; eapply Qle_trans; try eassumption; eapply Qle_trans; eassumption. }
  assert (Hsorted : StronglySorted ge_snd m) by apply sort_desc_sorted.
  split; [rewrite singles_def, HMI; reflexivity|]. split; [exact Hlt|]. split.
  { intros f0 v0 H0. split; [|split].
    - apply minmax_range; [exact Hlt|apply qmin_le|apply qmax_ge]; eapply Hin; exact H0.
    - apply minmax_hi. exact Hlt.
    - apply minmax_lo. }
  split.
  { pose proof (qmax_in _ Hne) as H. apply in_map_iff in H. destruct H as [[f0 v0] [Hv H]]. cbn in Hv.
    exists f0. fold hi in Hv. rewrite <- Hv. exact H. }
  split.
  { pose proof (qmin_in _ Hne) as H. apply in_map_iff in H. destruct H as [[f0 v0] [Hv H]]. cbn in Hv.
    exists f0. fold lo in Hv. rewrite <- Hv. exact H. }
  split.
  { intros f0 v0 rest Hm. apply minmax_hi; [exact Hlt|]. apply Qle_antisym.
    - apply qmax_ge. apply (Hin f0). rewrite Hm. now left.
    - rewrite Hm in Hsorted. inversion Hsorted as [|? ? _ Hall]; subst.
      pose proof (qmax_in _ Hne) as H. fold hi in H. fold m in H. rewrite Hm in H. cbn [map snd In] in H.
      destruct H as [H|H]; [rewrite H; apply Qle_refl|].
      apply in_map_iff in H. destruct H as [r [Hr Hrin]]. rewrite Forall_forall in Hall.
      specialize (Hall r Hrin). unfold ge_snd in Hall. cbn [snd] in Hall. rewrite Hr in Hall. exact Hall. }
  split.
  { intros f0 v0 front Hm. apply minmax_lo. apply Qle_antisym.
    - rewrite Hm in Hsorted. apply sorted_last in Hsorted.
      pose proof (qmin_in _ Hne) as H. fold lo in H. fold m in H. rewrite Hm in H. rewrite map_app in H.
      apply in_app_or in H. cbn [map snd In] in H. destruct H as [H|[H|[]]]; [|rewrite H; apply Qle_refl].
      apply in_map_iff in H. destruct H as [r [Hr Hrin]]. rewrite Forall_forall in Hsorted.
      specialize (Hsorted r Hrin). unfold ge_snd in Hsorted. cbn [snd] in Hsorted. rewrite Hr in Hsorted. exact Hsorted.
    - apply qmin_le. apply (Hin f0). rewrite Hm. apply in_or_app. right. now left. }
  split.
  - intros a b Hab. apply minmax_strict; assumption.
  - intros a b Hab. apply minmax_mono; [apply Qlt_le_weak; exact Hlt|exact Hab].
Qed.

(* ---------- the aggregated table ---------- *)
Lemma feature_store_in final c s :
  In (c, s) (feature_store final) <-> exists f, In (f, s) final /\ contains SEP_ f = true /\ In c (constituents f).
Proof.
  unfold feature_store. rewrite in_flat_map. split.
  - intros [[f s'] [Hin H]]. cbn [fst snd] in H. destruct (contains SEP_ f) eqn:E; [|destruct H].
    apply in_map_iff in H. destruct H as [el [Heq Hel]]. injection Heq as <- <-. exists f. auto.
  - intros [f [Hin [Hc Hel]]]. exists (f, s). split; [exact Hin|]. cbn [fst snd]. rewrite Hc.
    apply in_map_iff. exists c. auto.
Qed.

Theorem aggregated_spec final :
  NoDup (map fst (aggregated final)) /\
  (forall c, In c (map fst (aggregated final)) <->
             exists f s, In (f, s) final /\ contains SEP_ f = true /\ In c (constituents f)) /\
  (forall c v, In (c, v) (aggregated final) -> v = qmedian (scores_of c (feature_store final))).
Proof.
  unfold aggregated. split; [apply group_median_nodup|]. split.
  - intros c. rewrite group_median_keys, in_map_iff. split.
    + intros [[c' s] [Hc Hin]]. cbn in Hc. subst c'. apply feature_store_in in Hin. destruct Hin as [f H]. exists f, s. exact H.
    + intros [f [s H]]. exists (c, s). split; [reflexivity|]. apply feature_store_in. exists f. exact H.
  - intros c v. apply group_median_in.
Qed.

(* ---------- well-formed names ---------- *)
Lemma before_dash_clean x : nodash x -> before_dash x = x.
Proof.
  induction x as [|c t IH]; intros H; [reflexivity|]. cbn [before_dash].
  destruct (N.eqb_spec c DASH) as [E|E]; [exfalso; apply (H c); [now left|exact E]|].
  f_equal. apply IH. intros ch Hch. apply H. now right.
Qed.

Lemma before_dash_app x a : nodash x -> before_dash (x ++ DASH :: a) = x.
Proof.
  induction x as [|c t IH]; intros H; cbn [app before_dash].
  - rewrite N.eqb_refl. reflexivity.
  - destruct (N.eqb_spec c DASH) as [E|E]; [exfalso; apply (H c); [now left|exact E]|].
    f_equal. apply IH. intros ch Hch. apply H. now right.
Qed.

Lemma nodash_sep : nodash SEP_.
Proof. intros ch H. cbn in H. intuition (subst; discriminate). Qed.

Lemma nodash_app x y : nodash x -> nodash y -> nodash (x ++ y).
Proof. intros Hx Hy ch H. apply in_app_or in H. destruct H; [apply Hx|apply Hy]; assumption. Qed.

Lemma nodash_join cs : Forall nodash cs -> nodash (join_and cs).
Proof.
  induction 1 as [|c r Hc Hr IH]; [intros ch []|]. cbn [join_and]. destruct r as [|c2 r']; [exact Hc|].
  apply nodash_app; [exact Hc|]. apply nodash_app; [apply nodash_sep|exact IH].
Qed.

Lemma before_dash_render cs annot : Forall nodash cs -> before_dash (render cs annot) = join_and cs.
Proof.
  intros H. unfold render. destruct annot as [a|].
  - apply before_dash_app. apply nodash_join. exact H.
  - rewrite app_nil_r. apply before_dash_clean. apply nodash_join. exact H.
Qed.

Theorem label_rule lbl cs annot : Forall nodash cs -> (is_label lbl (render cs annot) = true <-> join_and cs = lbl).
Proof.
  intros H. unfold is_label. rewrite before_dash_render by exact H. rewrite name_eqb_eq. split; congruence.
Qed.

(* --- where the joiner can occur --- *)
Definition AND4 : name := [32; 65; 78; 68]%N.     (* " AND" *)

Lemma contains_cons_false p x l : contains p (x :: l) = false -> prefixb p (x :: l) = false /\ contains p l = false.
Proof. cbn [contains]. intros H. apply orb_false_elim in H. exact H. Qed.

Lemma sepfree_tail x c : sepfree (x :: c) -> sepfree c.
Proof. unfold sepfree. cbn [app]. intros H. apply contains_cons_false in H. apply H. Qed.

Lemma sepfree_head x c : sepfree (x :: c) -> prefixb SEP_ ((x :: c) ++ AND4) = false.
Proof. unfold sepfree. cbn [app]. intros H. apply contains_cons_false in H. apply H. Qed.

Lemma prefixb_app_true p a b : prefixb p a = true -> prefixb p (a ++ b) = true.
Proof.
  revert a. induction p as [|x p IH]; intros a H; [reflexivity|]. destruct a as [|y a]; [discriminate|].
  cbn [prefixb app] in *. apply andb_prop in H. destruct H as [H1 H2]. rewrite H1, (IH a H2). reflexivity.
Qed.

(* a match of ' AND ' that starts inside a non-empty v followed by the joiner already shows in  v ++ " AND" *)
Lemma prefixb_sep_join v rest : v <> [] -> prefixb SEP_ (v ++ SEP_ ++ rest) = true -> prefixb SEP_ (v ++ AND4) = true.
Proof.
  intros Hne. destruct v as [|x1 [|x2 [|x3 [|x4 [|x5 v']]]]]; [congruence|..]; cbn; intros H;
    rewrite ?andb_false_r in H; try discriminate; exact H.
Qed.

(* ... and one that starts inside v followed by '-' as well *)
Lemma prefixb_sep_dash v a : prefixb SEP_ (v ++ DASH :: a) = true -> prefixb SEP_ (v ++ AND4) = true.
Proof.
  destruct v as [|x1 [|x2 [|x3 [|x4 [|x5 v']]]]]; cbn; intros H; rewrite ?andb_false_r in H; try discriminate; exact H.
Qed.

Lemma split_clean c : forall cur rest, sepfree c -> (rest = [] \/ exists r', rest = SEP_ ++ r') ->
  split_aux SEP_ O cur (c ++ rest) = split_aux SEP_ O (rev c ++ cur) rest.
Proof.
  induction c as [|ch c IH]; intros cur rest H Hrest; [reflexivity|].
  cbn [app rev]. rewrite <- app_assoc. cbn [app]. rewrite <- IH by (try exact Hrest; eapply sepfree_tail; exact H).
  assert (Hp : prefixb SEP_ (ch :: c ++ rest) = false).
  { destruct (prefixb SEP_ (ch :: c ++ rest)) eqn:E; [|reflexivity].
    pose proof (sepfree_head ch c H) as Hh. rewrite <- Hh. symmetry.
    destruct Hrest as [->|[r' ->]].
    - rewrite app_nil_r in E. apply (prefixb_app_true SEP_ (ch :: c) AND4). exact E.
    - apply (prefixb_sep_join (ch :: c) r'); [discriminate|exact E]. }
  cbn [split_aux]. rewrite Hp. reflexivity.
Qed.

Lemma split_sep cur rest : split_aux SEP_ O cur (SEP_ ++ rest) = rev cur :: split_aux SEP_ O [] rest.
Proof. reflexivity. Qed.

Theorem constituents_join cs : cs <> [] -> Forall sepfree cs -> split_on SEP_ (join_and cs) = cs.
Proof.
  unfold split_on. intros Hne H. induction H as [|c r Hc Hr IH]; [congruence|]. cbn [join_and].
  destruct r as [|c2 r'].
  - rewrite <- (app_nil_r c) at 1. rewrite split_clean by (try exact Hc; now left).
    cbn [split_aux]. rewrite app_nil_r, rev_involutive. reflexivity.
  - rewrite split_clean by (try exact Hc; right; eexists; reflexivity).
    rewrite split_sep. rewrite app_nil_r, rev_involutive. f_equal. apply IH. discriminate.
Qed.

Theorem constituents_render cs annot : cs <> [] -> Forall nodash cs -> Forall sepfree cs ->
  constituents (render cs annot) = cs.
Proof. intros Hne Hd Hb. unfold constituents. rewrite before_dash_render by exact Hd. apply constituents_join; assumption. Qed.

Lemma contains_app_r p x y : contains p y = true -> contains p (x ++ y) = true.
Proof.
  intros H. induction x as [|a x IH]; [exact H|]. cbn [app contains]. rewrite IH. apply orb_true_r.
Qed.

Lemma contains_sep_interaction c1 c2 r annot : contains SEP_ (render (c1 :: c2 :: r) annot) = true.
Proof.
  unfold render. cbn [join_and]. rewrite <- !app_assoc. apply contains_app_r. reflexivity.
Qed.

(* a single (non-interaction) name never contains the joiner — whatever else it contains (AND, BRAND, ...) *)
Lemma contains_sep_plain c : sepfree c -> contains SEP_ c = false.
Proof.
  induction c as [|x c IH]; intros H; [reflexivity|]. cbn [contains].
  rewrite (IH (sepfree_tail x c H)), orb_false_r.
  destruct (prefixb SEP_ (x :: c)) eqn:E; [|reflexivity].
  rewrite <- (sepfree_head x c H). symmetry. apply prefixb_app_true. exact E.
Qed.

Lemma contains_sep_annotated c a : sepfree c -> contains SEP_ a = false -> contains SEP_ (c ++ DASH :: a) = false.
Proof.
  intros Hc Ha. induction c as [|x c IH]; cbn [app contains].
  - rewrite Ha. reflexivity.
  - rewrite (IH (sepfree_tail x c Hc)), orb_false_r.
    destruct (prefixb SEP_ (x :: c ++ DASH :: a)) eqn:E; [|reflexivity].
    rewrite <- (sepfree_head x c Hc). symmetry. apply (prefixb_sep_dash (x :: c) a). exact E.
Qed.

Definition annot_ok (annot : option name) : Prop := match annot with None => True | Some a => contains SEP_ a = false end.

Lemma contains_sep_single c annot : sepfree c -> annot_ok annot -> contains SEP_ (render [c] annot) = false.
Proof.
  intros Hc Ha. unfold render. cbn [join_and]. destruct annot as [a|].
  - apply contains_sep_annotated; assumption.
  - rewrite app_nil_r. apply contains_sep_plain. exact Hc.
Qed.

(* a table whose names are renderings of constituent lists *)
Definition wf_row := (list name * option name * Q)%type.
Definition render_row (r : wf_row) : name * Q := let '(cs, a, s) := r in (render cs a, s).

Theorem feature_store_wellformed (rows : list wf_row) :
  (forall cs a s, In (cs, a, s) rows -> cs <> [] /\ Forall nodash cs /\ Forall sepfree cs /\ annot_ok a) ->
  feature_store (map render_row rows) =
  flat_map (fun r => let '(cs, a, s) := r in if (2 <=? length cs)%nat then map (fun c => (c, s)) cs else []) rows.
Proof.
  intros Hwf. induction rows as [|[[cs a] s] rows IH]; [reflexivity|].
  cbn [map flat_map render_row]. unfold feature_store in *. cbn [flat_map fst snd]. f_equal.
  - destruct (Hwf cs a s (or_introl eq_refl)) as [Hne [Hd [Hb Ha]]].
    destruct cs as [|c1 [|c2 r]]; [congruence| |].
    + rewrite contains_sep_single; [reflexivity| |exact Ha]. inversion Hb; assumption.
    + rewrite contains_sep_interaction. rewrite constituents_render by assumption. reflexivity.
  - apply IH; intros; eapply Hwf; right; eassumption.
Qed.

(* ---------- witnesses: what the hypotheses exclude, and the rule before the repair ---------- *)
Definition BRAND : name := [66; 82; 65; 78; 68]%N.
(* old rule ('AND' in fname): the plain feature BRAND is aggregated as its own constituent; new rule: it is not *)
Example and_substring_old_rule :
  map fst (group_median (feature_store_old [(BRAND, 1 # 2)])) = [BRAND] /\ aggregated [(BRAND, 1 # 2)] = [].
Proof. vm_compute. split; reflexivity. Qed.

(* label "my-label": the rule compares the text before the first '-', so no row is a label row *)
Example dash_label_empty :
  singles_cells [65]%N [109; 121; 45; 108]%N [([102]%N, [109; 121; 45; 108]%N, 1 # 2)] = [].
Proof. vm_compute. reflexivity. Qed.

(* constituent "a-b": cut at the dash *)
Example dash_constituent_cut :
  constituents (render [[97; 45; 98]%N; [99]%N] None) = [[97]%N].
Proof. vm_compute. reflexivity. Qed.

(* constituent "x AND" contains no ' AND ' but ends in ' AND': the leftmost match is not the joiner *)
Example sep_suffix_missplit :
  contains SEP_ [120; 32; 65; 78; 68]%N = false /\
  constituents (render [[120; 32; 65; 78; 68]%N; [121]%N] None) = [[120]%N; [65; 78; 68; 32; 121]%N].
Proof. vm_compute. split; reflexivity. Qed.

(* ---------- the executable checkers ---------- *)
Lemma nodupn_iff l : nodupn l = true <-> NoDup l.
Proof.
  induction l as [|h t IH]; cbn [nodupn]; [split; [constructor|reflexivity]|].
  rewrite andb_true_iff, negb_true_iff, IH. split.
  - intros [Hm Hn]. constructor; [|exact Hn]. intros Hin. apply memn_in in Hin. congruence.
  - intros H. inversion H as [|? ? Hnot Hn]; subst. split; [|exact Hn].
    destruct (memn h t) eqn:E; [apply memn_in in E; contradiction|reflexivity].
Qed.

Lemma subsetn_iff a b : subsetn a b = true <-> incl a b.
Proof.
  unfold subsetn, incl. rewrite forallb_forall. split; intros H x Hx; [apply memn_in|apply memn_in]; apply H; exact Hx.
Qed.

Lemma close_iff tol a b : close tol a b = true <-> Qabs (a - b) <= tol.
Proof. unfold close. apply Qle_bool_iff. Qed.

Lemma close_refl a b : a == b -> close 0 a b = true.
Proof.
  intros H. apply close_iff. assert (E : a - b == 0) by (rewrite H; ring). rewrite E. cbn. apply Qle_refl.
Qed.

Lemma scores_of_unique m f v : NoDup (map fst m) -> In (f, v) m -> scores_of f m = [v].
Proof.
  unfold scores_of. induction m as [|[g w] m IH]; intros Hnd Hin; [destruct Hin|].
  cbn [map fst] in Hnd. inversion Hnd as [|? ? Hnot Hnd']; subst. cbn [filter fst].
  destruct Hin as [Heq|Hin].
  - injection Heq as -> ->. rewrite name_eqb_refl. cbn [map snd]. f_equal.
    assert (Hnone : forall m' : list (name * Q), ~ In f (map fst m') -> map snd (filter (fun r => name_eqb f (fst r)) m') = []).
    { induction m' as [|[g w] m' IH']; intros Hn; [reflexivity|]. cbn [filter fst].
      destruct (name_eqb f g) eqn:E.
      - apply name_eqb_eq in E. subst g. exfalso. apply Hn. now left.
      - apply IH'. intros H. apply Hn. now right. }
    apply Hnone. exact Hnot.
  - destruct (name_eqb f g) eqn:E.
    + apply name_eqb_eq in E. subst g. exfalso. apply Hnot. apply in_map_iff. exists (f, v). auto.
    + apply IH; assumption.
Qed.

Definition adjacent_desc (tol : Q) (l : list Q) : Prop :=
  forall front x y rest, l = front ++ x :: y :: rest -> y <= x + tol.

Lemma sorted_desc_tolb_iff tol l : sorted_desc_tolb tol l = true <-> adjacent_desc tol l.
Proof.
  unfold adjacent_desc. induction l as [|x t IH]; cbn [sorted_desc_tolb].
  - split; [|reflexivity]. intros _ front x y rest H. destruct front; discriminate.
  - destruct t as [|y t'].
    + split; [|reflexivity]. intros _ front a b rest H. destruct front as [|c [|d front]]; discriminate.
    + rewrite andb_true_iff, Qle_bool_iff, IH. split.
      * intros [Hxy Ht] front a b rest H. destruct front as [|c front].
        -- cbn [app] in H. injection H as <- <- <-. exact Hxy.
        -- cbn [app] in H. injection H as <- H. eapply Ht. exact H.
      * intros H. split; [apply (H [] x y t' eq_refl)|]. intros front a b rest E. apply (H (x :: front) a b rest).
        cbn [app]. now rewrite E.
Qed.

Definition expected (heur lbl : name) (T : list triplet) (f : name) : Q :=
  let m := medians lbl T in
  let v := qmedian (label_scores lbl T f) in
  if has_MI heur then minmax (qmin (map snd m)) (qmax (map snd m)) v else v.

Theorem singles_okb_sound tol heur lbl T obs : singles_okb tol heur lbl T obs = true ->
  NoDup (map fst obs)
  /\ (forall f, In f (map fst obs) <-> exists t s, In t T /\ label_partner lbl t = Some (f, s))
  /\ adjacent_desc tol (map snd obs)
  /\ (forall f x, In (f, x) obs -> Qabs (x - expected heur lbl T f) <= tol).
Proof.
  unfold singles_okb. rewrite !andb_true_iff, nodupn_iff, !subsetn_iff, sorted_desc_tolb_iff, forallb_forall.
  intros [[[[Hnd H1] H2] Hs] Hv]. split; [exact Hnd|]. split; [|split; [exact Hs|]].
  - intros f. assert (Hm : In f (map fst (medians lbl T)) <-> exists t s, In t T /\ label_partner lbl t = Some (f, s)).
    { unfold medians. rewrite group_median_keys, in_map_iff. split.
      - intros [[g s] [Hg Hin]]. cbn in Hg. subst g. apply final_ranking_in in Hin. destruct Hin as [t Ht]. exists t, s. exact Ht.
      - intros [t [s Ht]]. exists (f, s). split; [reflexivity|]. apply final_ranking_in. exists t. exact Ht. }
    rewrite <- Hm. split; [apply H1|apply H2].
  - intros f x Hin. specialize (Hv (f, x) Hin). cbn [fst snd] in Hv.
    destruct (scores_of f (medians lbl T)) as [|v [|? ?]] eqn:E; try discriminate.
    assert (Hfv : In (f, v) (medians lbl T)) by (apply in_scores_of; rewrite E; now left).
    unfold medians in Hfv. apply group_median_in in Hfv. apply close_iff in Hv.
    unfold expected, label_scores. rewrite <- Hfv. exact Hv.
Qed.

Lemma sorted_adjacent l : StronglySorted ge_snd l -> adjacent_desc 0 (map snd l).
Proof.
  intros H front x y rest E. rewrite Qplus_0_r.
  revert front E. induction H as [|a t Hs IH Hall]; intros front E; [destruct front; discriminate|].
  destruct front as [|c front]; cbn [map app] in E.
  - injection E as <- E. destruct t as [|b t']; [discriminate|]. cbn [map] in E. injection E as <- _.
    rewrite Forall_forall in Hall. apply (Hall b). now left.
  - injection E as _ E. eapply IH. exact E.
Qed.

Theorem singles_model_ok heur lbl T : singles_okb 0 heur lbl T (singles heur lbl T) = true.
Proof.
  unfold singles_okb. rewrite !andb_true_iff, nodupn_iff, !subsetn_iff, sorted_desc_tolb_iff, forallb_forall.
  pose proof (pre_fst_perm lbl T) as Hp.
  assert (Hndm : NoDup (map fst (medians lbl T))) by apply group_median_nodup.
  repeat split.
  - apply singles_once.
  - rewrite singles_fst. intros x Hx. eapply Permutation_in; eassumption.
  - rewrite singles_fst. intros x Hx. eapply Permutation_in; [symmetry; exact Hp|exact Hx].
  - apply sorted_adjacent. apply singles_sorted.
  - intros [f v] Hin. cbn [fst snd]. rewrite singles_def in Hin.
    assert (Hpm : forall s, In (f, s) (pre lbl T) -> scores_of f (medians lbl T) = [s]).
    { intros s Hs. apply scores_of_unique; [exact Hndm|]. eapply Permutation_in; [apply sort_desc_perm|exact Hs]. }
    destruct (has_MI heur).
    + apply normalise_in in Hin. destruct Hin as [s [Hs ->]]. rewrite (Hpm s Hs). apply close_refl.
      assert (Hps : Permutation (map snd (pre lbl T)) (map snd (medians lbl T))) by (apply Permutation_map, sort_desc_perm).
      unfold minmax. rewrite (qmin_perm _ _ Hps), (qmax_perm _ _ Hps). reflexivity.
    + rewrite (Hpm v Hin). apply close_refl. reflexivity.
Qed.

Theorem aggregated_okb_sound tol final obs : aggregated_okb tol final obs = true ->
  NoDup (map fst obs)
  /\ (forall c, In c (map fst obs) <-> exists f s, In (f, s) final /\ contains SEP_ f = true /\ In c (constituents f))
  /\ (forall c x, In (c, x) obs -> Qabs (x - qmedian (scores_of c (feature_store final))) <= tol).
Proof.
  unfold aggregated_okb. rewrite !andb_true_iff, nodupn_iff, !subsetn_iff, forallb_forall.
  intros [[[Hnd H1] H2] Hv]. destruct (aggregated_spec final) as [_ [Hk Hval]].
  split; [exact Hnd|]. split.
  - intros c. rewrite <- Hk. split; [apply H1|apply H2].
  - intros c x Hin. specialize (Hv (c, x) Hin). cbn [fst snd] in Hv.
    destruct (scores_of c (aggregated final)) as [|v [|? ?]] eqn:E; try discriminate.
    assert (Hcv : In (c, v) (aggregated final)) by (apply in_scores_of; rewrite E; now left).
    apply Hval in Hcv. apply close_iff in Hv. rewrite <- Hcv. exact Hv.
Qed.

Theorem aggregated_model_ok final : aggregated_okb 0 final (aggregated final) = true.
Proof.
  unfold aggregated_okb. rewrite !andb_true_iff, nodupn_iff, !subsetn_iff, forallb_forall.
  destruct (aggregated_spec final) as [Hnd _]. repeat split; try exact Hnd; try apply incl_refl.
  intros [c v] Hin. cbn [fst snd]. rewrite (scores_of_unique _ c v Hnd Hin). apply close_refl. reflexivity.
Qed.

(* ---------- NaN cells ---------- *)
Lemma some_cells_fst l : map fst (some_cells l) = map fst l.
Proof. unfold some_cells. rewrite map_map. reflexivity. Qed.
Lemma nan_cells_fst l : map fst (nan_cells l) = map fst l.
Proof. unfold nan_cells. rewrite map_map. reflexivity. Qed.

Lemma singles_cells_fst heur lbl T : map fst (singles_cells heur lbl T) = map fst (pre lbl T).
Proof.
  unfold singles_cells. destruct (nan_table heur lbl T); [apply nan_cells_fst|].
  rewrite some_cells_fst. apply singles_fst.
Qed.

Theorem cells_once heur lbl T :
  NoDup (map fst (singles_cells heur lbl T)) /\
  forall f, In f (map fst (singles_cells heur lbl T)) <-> exists t s, In t T /\ label_partner lbl t = Some (f, s).
Proof. rewrite singles_cells_fst, <- (singles_fst heur). apply singles_once. Qed.

Lemma nan_table_true heur lbl T : nan_table heur lbl T = true <->
  has_MI heur = true /\ pre lbl T <> [] /\ qmin (map snd (pre lbl T)) == qmax (map snd (pre lbl T)).
Proof.
  unfold nan_table. rewrite andb_true_iff, degenerate_iff. split.
  - intros [H [Hne He]]. repeat split; try assumption. intros E. rewrite E in Hne. apply Hne. reflexivity.
  - intros [H [Hne He]]. repeat split; try assumption. intros E. apply map_eq_nil in E. contradiction.
Qed.

Lemma nan_table_false_lt heur lbl T : nan_table heur lbl T = false -> has_MI heur = true -> pre lbl T <> [] ->
  qmin (map snd (pre lbl T)) < qmax (map snd (pre lbl T)).
Proof.
  intros Hn HMI Hne.
  assert (Hne' : map snd (pre lbl T) <> []) by (intros E; apply map_eq_nil in E; contradiction).
  destruct (Qlt_le_dec (qmin (map snd (pre lbl T))) (qmax (map snd (pre lbl T)))) as [H|H]; [exact H|].
  exfalso. assert (Ht : nan_table heur lbl T = true); [|congruence].
  apply nan_table_true. repeat split; try assumption. apply Qle_antisym; [apply qmin_le_qmax; exact Hne'|exact H].
Qed.

Lemma in_some_cells l f c : In (f, c) (some_cells l) <-> exists v, c = Some v /\ In (f, v) l.
Proof.
  unfold some_cells. rewrite in_map_iff. split.
  - intros [[g v] [Heq Hin]]. cbn in Heq. injection Heq as <- <-. exists v. auto.
  - intros [v [-> Hin]]. exists (f, v). auto.
Qed.
Lemma in_nan_cells l f c : In (f, c) (nan_cells l) <-> c = None /\ In f (map fst l).
Proof.
  unfold nan_cells. rewrite !in_map_iff. split.
  - intros [[g v] [Heq Hin]]. cbn in Heq. injection Heq as <- <-. split; [reflexivity|]. exists (g, v). auto.
  - intros [-> [[g v] [Hg Hin]]]. cbn in Hg. subst g. exists (f, v). auto.
Qed.

(* a numeric cell: the table is not the NaN table, and under an MI heuristic min < max — the value is what C18_median says for
   the right reason *)
Theorem cells_some heur lbl T f v : In (f, Some v) (singles_cells heur lbl T) ->
  nan_table heur lbl T = false /\ In (f, v) (singles heur lbl T) /\
  (has_MI heur = true -> qmin (map snd (pre lbl T)) < qmax (map snd (pre lbl T))).
Proof.
  unfold singles_cells. destruct (nan_table heur lbl T) eqn:En.
  - intros H. apply in_nan_cells in H. destruct H; discriminate.
  - intros H. apply in_some_cells in H. destruct H as [w [Hw Hin]]. injection Hw as <-.
    split; [reflexivity|]. split; [exact Hin|]. intros HMI. apply (nan_table_false_lt heur lbl T En HMI).
    intros E. assert (Hf : In f (map fst (singles heur lbl T))) by (apply in_map_iff; exists (f, v); auto).
    rewrite singles_fst, E in Hf. destruct Hf.
Qed.

Theorem cells_median heur lbl T f v : In (f, Some v) (singles_cells heur lbl T) ->
  let m := qmedian (label_scores lbl T f) in
  let lo := qmin (map snd (pre lbl T)) in
  let hi := qmax (map snd (pre lbl T)) in
  (has_MI heur = true -> lo < hi) /\
  v = if has_MI heur then minmax lo hi m else m.
Proof.
  intros H. apply cells_some in H. destruct H as [_ [Hin Hlt]]. split; [exact Hlt|]. apply singles_median. exact Hin.
Qed.

(* a NaN cell: MI heuristic and all medians coincide (in particular: a single listed feature) *)
Theorem cells_none heur lbl T f : In (f, None) (singles_cells heur lbl T) ->
  has_MI heur = true /\ (forall g w, In (g, w) (pre lbl T) -> w == qmin (map snd (pre lbl T))) /\
  (forall g c, In (g, c) (singles_cells heur lbl T) -> c = None).
Proof.
  unfold singles_cells. destruct (nan_table heur lbl T) eqn:En.
  - intros _. apply nan_table_true in En. destruct En as [HMI [Hne He]]. split; [exact HMI|]. split.
    + intros g w Hin. assert (Hw : In w (map snd (pre lbl T))) by (apply in_map_iff; exists (g, w); auto).
      apply Qle_antisym; [rewrite He; apply qmax_ge; exact Hw|apply qmin_le; exact Hw].
    + intros g c Hin. apply in_nan_cells in Hin. apply Hin.
  - intros H. apply in_some_cells in H. destruct H as [w [Hw _]]. discriminate.
Qed.

Theorem cells_sorted heur lbl T : nan_table heur lbl T = false ->
  singles_cells heur lbl T = some_cells (singles heur lbl T) /\ StronglySorted ge_snd (singles heur lbl T) /\
  (has_MI heur = true -> pre lbl T <> [] -> qmin (map snd (pre lbl T)) < qmax (map snd (pre lbl T))).
Proof.
  intros En. unfold singles_cells. rewrite En. split; [reflexivity|]. split; [apply singles_sorted|].
  apply nan_table_false_lt. exact En.
Qed.

Lemma nan_table_distinct heur lbl T :
  (exists f g v w, In (f, v) (pre lbl T) /\ In (g, w) (pre lbl T) /\ ~ v == w) -> nan_table heur lbl T = false.
Proof.
  intros [f [g [v [w [Hf [Hg Hvw]]]]]]. destruct (nan_table heur lbl T) eqn:En; [|reflexivity]. exfalso.
  apply nan_table_true in En. destruct En as [_ [_ He]]. apply Hvw.
  assert (Hin : forall f v, In (f, v) (pre lbl T) -> In v (map snd (pre lbl T))) by (intros f0 v0 H0; apply in_map_iff; exists (f0, v0); auto).
  pose proof (qmin_le _ _ (Hin _ _ Hf)). pose proof (qmax_ge _ _ (Hin _ _ Hf)).
  pose proof (qmin_le _ _ (Hin _ _ Hg)). pose proof (qmax_ge _ _ (Hin _ _ Hg)).
  rewrite <- He in H0, H2. apply Qle_antisym; eapply Qle_trans; eassumption.
Qed.

(* ---------- checkers over cells ---------- *)
Lemma unwrap_some obs : forall o, unwrap obs = Some o -> obs = some_cells o.
Proof.
  induction obs as [|[f [v|]] t IH]; intros o H; cbn [unwrap] in H.
  - injection H as <-. reflexivity.
  - destruct (unwrap t) as [r|]; [|discriminate]. injection H as <-. cbn. f_equal. apply IH. reflexivity.
  - discriminate.
Qed.
Lemma unwrap_some_cells l : unwrap (some_cells l) = Some l.
Proof. induction l as [|[f v] l IH]; [reflexivity|]. cbn. unfold some_cells in IH. rewrite IH. reflexivity. Qed.
Lemma all_nan_iff l : all_nan l = true <-> forall f c, In (f, c) l -> c = None.
Proof.
  unfold all_nan. rewrite forallb_forall. split.
  - intros H f c Hin. specialize (H (f, c) Hin). cbn in H. destruct c; [discriminate|reflexivity].
  - intros H [f c] Hin. cbn. rewrite (H f c Hin). reflexivity.
Qed.
Lemma all_nan_nan_cells l : all_nan (nan_cells l) = true.
Proof. apply all_nan_iff. intros f c H. apply in_nan_cells in H. apply H. Qed.
Lemma unwrap_nan_cells l : l <> [] -> unwrap (nan_cells l) = None.
Proof. destruct l as [|[f v] l]; [congruence|reflexivity]. Qed.

Lemma medians_keys lbl T f : In f (map fst (medians lbl T)) <-> exists t s, In t T /\ label_partner lbl t = Some (f, s).
Proof.
  unfold medians. rewrite group_median_keys, in_map_iff. split.
  - intros [[g s] [Hg Hin]]. cbn in Hg. subst g. apply final_ranking_in in Hin. destruct Hin as [t Ht]. exists t, s. exact Ht.
  - intros [t [s Ht]]. exists (f, s). split; [reflexivity|]. apply final_ranking_in. exists t. exact Ht.
Qed.

Theorem cells_okb_sound tol heur lbl T obs : cells_okb tol heur lbl T obs = true ->
  NoDup (map fst obs)
  /\ (forall f, In f (map fst obs) <-> exists t s, In t T /\ label_partner lbl t = Some (f, s))
  /\ (if nan_table heur lbl T then forall f c, In (f, c) obs -> c = None
      else exists o, obs = some_cells o /\ adjacent_desc tol (map snd o)
                     /\ forall f x, In (f, x) o -> Qabs (x - expected heur lbl T f) <= tol).
Proof.
  unfold cells_okb. destruct (nan_table heur lbl T).
  - rewrite !andb_true_iff, nodupn_iff, !subsetn_iff, all_nan_iff. intros [[[Hnd H1] H2] Hn].
    split; [exact Hnd|]. split; [|exact Hn]. intros f. rewrite <- medians_keys. split; [apply H1|apply H2].
  - destruct (unwrap obs) as [o|] eqn:E; [|discriminate]. intros H. apply unwrap_some in E. subst obs.
    apply singles_okb_sound in H. destruct H as [Hnd [Hk [Hs Hv]]]. rewrite some_cells_fst.
    split; [exact Hnd|]. split; [exact Hk|]. exists o. auto.
Qed.

Theorem cells_model_ok heur lbl T : cells_okb 0 heur lbl T (singles_cells heur lbl T) = true.
Proof.
  unfold cells_okb, singles_cells. destruct (nan_table heur lbl T).
  - rewrite !andb_true_iff, nodupn_iff, !subsetn_iff, nan_cells_fst. pose proof (pre_fst_perm lbl T) as Hp.
    repeat split.
    + eapply Permutation_NoDup; [symmetry; exact Hp|apply group_median_nodup].
    + intros x Hx. eapply Permutation_in; eassumption.
    + intros x Hx. eapply Permutation_in; [symmetry; exact Hp|exact Hx].
    + apply all_nan_nan_cells.
  - rewrite unwrap_some_cells. apply singles_model_ok.
Qed.

Lemma feature_store_fst l :
  map fst (feature_store l) = flat_map (fun n => if contains SEP_ n then constituents n else []) (map fst l).
Proof.
  unfold feature_store. induction l as [|[f s] l IH]; [reflexivity|]. cbn [flat_map map fst snd].
  rewrite map_app, IH. f_equal. destruct (contains SEP_ f); [|reflexivity]. rewrite map_map. cbn [fst]. apply map_id.
Qed.

Lemma aggregated_keys_names l l' : map fst l = map fst l' -> map fst (aggregated l) = map fst (aggregated l').
Proof. intros H. unfold aggregated. rewrite !group_median_fst, !feature_store_fst, H. reflexivity. Qed.

Theorem aggregated_cells_model_ok heur lbl T :
  aggregated_cells_okb 0 (singles_cells heur lbl T) (aggregated_cells heur lbl T) = true.
Proof.
  unfold aggregated_cells_okb, singles_cells, aggregated_cells. destruct (nan_table heur lbl T) eqn:En.
  - apply nan_table_true in En. destruct En as [_ [Hne _]]. rewrite (unwrap_nan_cells _ Hne).
    rewrite !andb_true_iff, nodupn_iff, !subsetn_iff, !all_nan_nan_cells, nan_cells_fst.
    assert (Hk : map fst (aggregated (map (fun r : name * option Q => (fst r, 0)) (nan_cells (pre lbl T)))) = map fst (aggregated (pre lbl T))).
    { apply aggregated_keys_names. rewrite map_map. cbn [fst]. apply nan_cells_fst. }
    rewrite Hk. repeat split; try apply incl_refl. apply aggregated_spec.
  - rewrite !unwrap_some_cells. apply aggregated_model_ok.
Qed.

Theorem aggregated_cells_okb_sound tol final obs : aggregated_cells_okb tol final obs = true ->
  (exists f o, final = some_cells f /\ obs = some_cells o /\ aggregated_okb tol f o = true)
  \/ ((forall g c, In (g, c) final -> c = None) /\ (forall g c, In (g, c) obs -> c = None) /\ NoDup (map fst obs) /\
      forall k, In k (map fst obs) <-> In k (map fst (aggregated (map (fun r => (fst r, 0)) final)))).
Proof.
  unfold aggregated_cells_okb. destruct (unwrap final) as [f|] eqn:Ef.
  - destruct (unwrap obs) as [o|] eqn:Eo; [|discriminate]. intros H. left. exists f, o.
    apply unwrap_some in Ef. apply unwrap_some in Eo. auto.
  - rewrite !andb_true_iff, !all_nan_iff, nodupn_iff, !subsetn_iff. intros [[[[H1 H2] H3] H4] H5]. right.
    repeat split; try assumption; [apply H4|apply H5].
Qed.

(* ---------- non-vacuity ---------- *)
Example ex_T : list triplet :=
  [ ([97; 32; 65; 78; 68; 32; 98; 45; 40; 51; 59; 32; 57; 41]%N, [121; 45; 40; 50; 59; 32; 57; 41]%N, 1 # 2);   (* "a AND b-(3; 9)", "y-(2; 9)" *)
    ([121; 45; 40; 50; 59; 32; 57; 41]%N, [97; 32; 65; 78; 68; 32; 99]%N, 3 # 4);                                (* "y-(2; 9)", "a AND c" *)
    ([97; 32; 65; 78; 68; 32; 99]%N, [121]%N, 5 # 4);                                                          (* "a AND c", "y" *)
    ([121]%N, [121]%N, 2 # 1);                                                                                 (* "y", "y" *)
    ([97]%N, [98]%N, 5 # 1) ].                                                                                 (* "a", "b": no label *)
Definition redq (l : list (name * option Q)) : list (name * option Q) := map (fun r => (fst r, option_map Qred (snd r))) l.
(* heuristic "MI", label "y", interaction order 2: y -> 1, "a AND c" -> 1/3, "a AND b-(3; 9)" -> 0; a -> 1/6, c -> 1/3, b -> 0 *)
Example ex_summary :
  (redq (fst (summary [77; 73]%N [121]%N 2 ex_T)), option_map redq (snd (summary [77; 73]%N [121]%N 2 ex_T))) =
  ([([121]%N, Some 1); ([97; 32; 65; 78; 68; 32; 99]%N, Some (1 # 3)); ([97; 32; 65; 78; 68; 32; 98; 45; 40; 51; 59; 32; 57; 41]%N, Some 0)],
   Some [([97]%N, Some (1 # 6)); ([99]%N, Some (1 # 3)); ([98]%N, Some 0)]).
Proof. vm_compute. reflexivity. Qed.
(* a non-MI heuristic keeps the medians; order 1 writes no aggregated table *)
Example ex_summary_plain :
  (redq (fst (summary [65; 66]%N [121]%N 1 ex_T)), snd (summary [65; 66]%N [121]%N 1 ex_T)) =
  ([([121]%N, Some 2); ([97; 32; 65; 78; 68; 32; 99]%N, Some 1); ([97; 32; 65; 78; 68; 32; 98; 45; 40; 51; 59; 32; 57; 41]%N, Some (1 # 2))], None).
Proof. vm_compute. reflexivity. Qed.
(* one listed feature under an MI heuristic: the code's 0/0, a NaN cell *)
Example ex_summary_nan :
  summary [77; 73]%N [121]%N 2 [([102]%N, [121]%N, 1 # 2)] = ([([102]%N, None)], Some []).
Proof. vm_compute. reflexivity. Qed.
