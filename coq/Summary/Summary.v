(* C18 — executable model of task_summary.outrank_task_result_summary over exact rationals and names
   (names = lists of Unicode code points).  No proofs here.

   Python                                                     model
   triplets = read_csv(pairwise_ranks.tsv).sort_values(Score) T : list (name * name * Q)   (row order is immaterial: the
                                                              only consumer is a per-feature median, see C18_row_order)
   label_column == feature_a.split('-')[0]                    is_label lbl a        (name before the first '-')
   if ... final_ranking.append([feature_b, score])            label_partner
   elif label_column == feature_b.split('-')[0] ... [feature_a, score]
   groupby('Feature').median().reset_index()                  medians              (keys in order of first appearance;
                                                              pandas sorts them by name, immaterial after the next step)
   .sort_values(by=Score, ascending=False)                    sort_desc            (ties: order left open, the harness
                                                              compares tie groups as multisets)
   if 'MI' in heuristic: (x - min) / (max - min)              normalise
   interaction_order > 1: if ' AND ' in fname:                aggregated           (over the table just produced, i.e. the
       for el in fname.split('-')[0].split(' AND '): ...      already normalised scores for MI heuristics)
   np.median(v) per key, keys in first-insertion order
   (x - min) / (max - min) with max = min (non-empty table)   NaN in every cell: [nan_table], cells are [None]
   (before /repo baf07bf the test was  'AND' in fname : [feature_store_old], kept for the refutation witness)         *)
From Coq Require Import List QArith Qabs ZArith NArith Bool Arith.
From Outrank Require Import Rank.QMedian.
Import ListNotations.
Open Scope Q_scope.

Definition name := list N.
Definition triplet := (name * name * Q)%type.

Definition DASH : N := 45%N.
Definition MI_ : name := [77; 73]%N.                       (* "MI" *)
Definition AND_ : name := [65; 78; 68]%N.                  (* "AND" *)
Definition SEP_ : name := [32; 65; 78; 68; 32]%N.          (* " AND " *)

Fixpoint name_eqb (a b : name) : bool :=
  match a, b with
  | [], [] => true
  | x :: a', y :: b' => N.eqb x y && name_eqb a' b'
  | _, _ => false
  end.

(* s.split('-')[0] *)
Fixpoint before_dash (s : name) : name :=
  match s with
  | [] => []
  | c :: t => if N.eqb c DASH then [] else c :: before_dash t
  end.

Fixpoint prefixb (p s : name) : bool :=
  match p, s with
  | [], _ => true
  | a :: p', b :: s' => N.eqb a b && prefixb p' s'
  | _ :: _, [] => false
  end.

(* p in s *)
Fixpoint contains (p s : name) : bool :=
  prefixb p s || match s with [] => false | _ :: t => contains p t end.

(* s.split(sep), sep non-empty: leftmost non-overlapping occurrences *)
Fixpoint split_aux (sep : name) (skip : nat) (cur : name) (s : name) : list name :=
  match s with
  | [] => [rev cur]
  | c :: t =>
    match skip with
    | S k => split_aux sep k cur t
    | O => if prefixb sep s then rev cur :: split_aux sep (length sep - 1) [] t
           else split_aux sep O (c :: cur) t
    end
  end.
Definition split_on (sep s : name) : list name := split_aux sep O [] s.

Definition is_label (lbl s : name) : bool := name_eqb lbl (before_dash s).

(* generate_final_ranking: one (feature, score) entry per row that involves the label *)
Definition label_partner (lbl : name) (t : triplet) : option (name * Q) :=
  let '(a, b, s) := t in
  if is_label lbl a then Some (b, s) else if is_label lbl b then Some (a, s) else None.

Definition final_ranking (lbl : name) (T : list triplet) : list (name * Q) :=
  flat_map (fun t => match label_partner lbl t with Some x => [x] | None => [] end) T.

Definition memn (x : name) (l : list name) : bool := existsb (name_eqb x) l.

(* distinct keys in order of first appearance *)
Fixpoint dedup (seen l : list name) : list name :=
  match l with
  | [] => []
  | h :: t => if memn h seen then dedup seen t else h :: dedup (h :: seen) t
  end.

Definition scores_of (f : name) (rows : list (name * Q)) : list Q :=
  map snd (filter (fun r => name_eqb f (fst r)) rows).

Definition group_median (rows : list (name * Q)) : list (name * Q) :=
  map (fun f => (f, qmedian (scores_of f rows))) (dedup [] (map fst rows)).

Definition medians (lbl : name) (T : list triplet) : list (name * Q) := group_median (final_ranking lbl T).

Fixpoint insert_desc (x : name * Q) (l : list (name * Q)) : list (name * Q) :=
  match l with
  | [] => [x]
  | y :: r => if Qle_bool (snd y) (snd x) then x :: l else y :: insert_desc x r
  end.
Definition sort_desc (l : list (name * Q)) : list (name * Q) := fold_right insert_desc [] l.

Definition normalise (l : list (name * Q)) : list (name * Q) :=
  let lo := qmin (map snd l) in
  let hi := qmax (map snd l) in
  map (fun r => (fst r, minmax lo hi (snd r))) l.

Definition has_MI (heur : name) : bool := contains MI_ heur.

(* the table of medians in output order, before any normalisation *)
Definition pre (lbl : name) (T : list triplet) : list (name * Q) := sort_desc (medians lbl T).

(* feature_singles.tsv when every cell is a number *)
Definition singles (heur lbl : name) (T : list triplet) : list (name * Q) :=
  let m := pre lbl T in
  if has_MI heur then normalise m else m.

(* an MI heuristic over a non-empty table whose medians all coincide: the code computes 0/0 and writes NaN (empty) cells *)
Definition nan_table (heur lbl : name) (T : list triplet) : bool :=
  has_MI heur && degenerate (map snd (pre lbl T)).

Definition some_cells (l : list (name * Q)) : list (name * option Q) := map (fun r => (fst r, Some (snd r))) l.
Definition nan_cells (l : list (name * Q)) : list (name * option Q) := map (fun r => (fst r, None)) l.

(* feature_singles.tsv : None = NaN cell *)
Definition singles_cells (heur lbl : name) (T : list triplet) : list (name * option Q) :=
  if nan_table heur lbl T then nan_cells (pre lbl T) else some_cells (singles heur lbl T).

(* handle_interaction_order *)
Definition constituents (fname : name) : list name := split_on SEP_ (before_dash fname).

Definition feature_store (final : list (name * Q)) : list (name * Q) :=
  flat_map (fun r => if contains SEP_ (fst r) then map (fun el => (el, snd r)) (constituents (fst r)) else []) final.

(* the rule before /repo baf07bf: any name containing the substring AND *)
Definition feature_store_old (final : list (name * Q)) : list (name * Q) :=
  flat_map (fun r => if contains AND_ (fst r) then map (fun el => (el, snd r)) (constituents (fst r)) else []) final.

(* feature_singles_aggregated.tsv *)
Definition aggregated (final : list (name * Q)) : list (name * Q) := group_median (feature_store final).

(* np.median over NaN scores is NaN; the keys depend on the names only *)
Definition aggregated_cells (heur lbl : name) (T : list triplet) : list (name * option Q) :=
  if nan_table heur lbl T then nan_cells (aggregated (pre lbl T)) else some_cells (aggregated (singles heur lbl T)).

Definition summary (heur lbl : name) (order : Z) (T : list triplet)
  : list (name * option Q) * option (list (name * option Q)) :=
  (singles_cells heur lbl T, if (1 <? order)%Z then Some (aggregated_cells heur lbl T) else None).

(* ---- names as the ranking task writes them:  c1 AND c2 AND ...  optionally followed by  -(cardinality; coverage) ---- *)
Fixpoint join_and (cs : list name) : name :=
  match cs with
  | [] => []
  | [c] => c
  | c :: r => c ++ SEP_ ++ join_and r
  end.
Definition render (cs : list name) (annot : option name) : name :=
  join_and cs ++ match annot with None => [] | Some a => DASH :: a end.

(* hypotheses on constituent / label names: no '-' (the label rule and the constituent rule cut at the first '-'), and the
   joiner ' AND ' neither inside a constituent nor completed by its end (a constituent ending in ' AND') *)
Definition nodash (c : name) : Prop := forall ch, In ch c -> ch <> DASH.
Definition sepfree (c : name) : Prop := contains SEP_ (c ++ [32; 65; 78; 68]%N) = false.

(* ---- executable property checker for an observed pair of tables (Appendix C) ---- *)
Fixpoint sorted_descb (l : list Q) : bool :=
  match l with
  | [] => true
  | x :: t => match t with [] => true | y :: _ => Qle_bool y x && sorted_descb t end
  end.
Definition subsetn (a b : list name) : bool := forallb (fun x => memn x b) a.
Fixpoint nodupn (l : list name) : bool := match l with [] => true | h :: t => negb (memn h t) && nodupn t end.

(* checks an observed feature_singles table (scores = the doubles read back, as exact rationals) against the clauses
   once / median (+ min-max for MI) / sorted, with an absolute tolerance on the scores (0 = exact) *)
Definition close (tol a b : Q) : bool := Qle_bool (Qabs (a - b)) tol.
Fixpoint sorted_desc_tolb (tol : Q) (l : list Q) : bool :=
  match l with
  | [] => true
  | x :: t => match t with [] => true | y :: _ => Qle_bool y (x + tol) && sorted_desc_tolb tol t end
  end.
Definition singles_okb (tol : Q) (heur lbl : name) (T : list triplet) (obs : list (name * Q)) : bool :=
  let m := medians lbl T in
  let lo := qmin (map snd m) in let hi := qmax (map snd m) in
  nodupn (map fst obs) && subsetn (map fst obs) (map fst m) && subsetn (map fst m) (map fst obs)
  && sorted_desc_tolb tol (map snd obs)
  && forallb (fun r => match scores_of (fst r) m with
                       | [v] => close tol (snd r) (if has_MI heur then minmax lo hi v else v)
                       | _ => false end) obs.

(* the aggregated table against the observed singles table it is computed from *)
Definition aggregated_okb (tol : Q) (final : list (name * Q)) (obs : list (name * Q)) : bool :=
  let a := aggregated final in
  nodupn (map fst obs) && subsetn (map fst obs) (map fst a) && subsetn (map fst a) (map fst obs)
  && forallb (fun r => match scores_of (fst r) a with [v] => close tol (snd r) v | _ => false end) obs.

(* the same over cells (None = NaN) *)
Fixpoint unwrap (l : list (name * option Q)) : option (list (name * Q)) :=
  match l with
  | [] => Some []
  | (f, Some v) :: t => match unwrap t with Some r => Some ((f, v) :: r) | None => None end
  | (_, None) :: _ => None
  end.
Definition all_nan (l : list (name * option Q)) : bool :=
  forallb (fun r => match snd r with None => true | Some _ => false end) l.

Definition cells_okb (tol : Q) (heur lbl : name) (T : list triplet) (obs : list (name * option Q)) : bool :=
  if nan_table heur lbl T
  then nodupn (map fst obs) && subsetn (map fst obs) (map fst (medians lbl T))
       && subsetn (map fst (medians lbl T)) (map fst obs) && all_nan obs
  else match unwrap obs with Some o => singles_okb tol heur lbl T o | None => false end.

Definition aggregated_cells_okb (tol : Q) (final obs : list (name * option Q)) : bool :=
  match unwrap final with
  | Some f => match unwrap obs with Some o => aggregated_okb tol f o | None => false end
  | None => let a := aggregated (map (fun r => (fst r, 0)) final) in
            all_nan final && all_nan obs && nodupn (map fst obs)
            && subsetn (map fst obs) (map fst a) && subsetn (map fst a) (map fst obs)
  end.

Definition C18_case := (name * name * Z * list triplet)%type.
Definition C18_obs := (list (name * option Q) * option (list (name * option Q)))%type.
Definition C18_model (c : C18_case) : C18_obs := let '(heur, lbl, order, T) := c in summary heur lbl order T.
