(* Lemmas about the rational sort / median shared by C17 and C18. *)
From Coq Require Import List QArith Arith Permutation Sorting.Sorted Lia.
From Outrank Require Import Rank.QMedian.
Import ListNotations.
Open Scope Q_scope.

Lemma Qltb_true a b : Qltb a b = true -> a < b.
Proof.
  unfold Qltb. intros H. apply Bool.negb_true_iff in H.
  apply Qnot_le_lt. intros Hle. apply Qle_bool_iff in Hle. congruence.
Qed.

Lemma Qltb_false a b : Qltb a b = false -> b <= a.
Proof. unfold Qltb. intros H. apply Bool.negb_false_iff in H. apply Qle_bool_iff. exact H. Qed.

Lemma Qle_bool_false a b : Qle_bool a b = false -> b < a.
Proof.
  intros H. apply Qnot_le_lt. intros Hle. apply Qle_bool_iff in Hle. congruence.
Qed.

Lemma qinsert_perm x l : Permutation (qinsert x l) (x :: l).
Proof.
  induction l as [|y r IH]; [reflexivity|]. cbn [qinsert]. destruct (Qle_bool x y); [reflexivity|].
  rewrite IH. apply perm_swap.
Qed.

Lemma qsort_perm l : Permutation (qsort l) l.
Proof.
  induction l as [|x r IH]; [reflexivity|]. cbn [qsort fold_right]. fold (qsort r).
  rewrite qinsert_perm, IH. reflexivity.
Qed.

Lemma qsort_length l : length (qsort l) = length l.
Proof. apply Permutation_length, qsort_perm. Qed.

Lemma qinsert_sorted x l : StronglySorted Qle l -> StronglySorted Qle (qinsert x l).
Proof.
  induction l as [|y r IH]; intros H; [repeat constructor|]. cbn [qinsert].
  inversion H as [|? ? Hr Hall]; subst. destruct (Qle_bool x y) eqn:E.
  - apply Qle_bool_iff in E. constructor; [exact H|]. constructor; [exact E|].
    eapply Forall_impl; [|exact Hall]. intros z Hz. eapply Qle_trans; eassumption.
  - apply Qle_bool_false in E. constructor; [apply IH; exact Hr|].
    eapply Permutation_Forall; [symmetry; apply qinsert_perm|]. constructor; [apply Qlt_le_weak; exact E|exact Hall].
Qed.

Lemma qsort_sorted l : StronglySorted Qle (qsort l).
Proof. induction l as [|x r IH]; [constructor|]. cbn [qsort fold_right]. apply qinsert_sorted. exact IH. Qed.

(* on rationals in lowest terms Qeq is Leibniz equality, so sorting forgets the input order *)
Lemma reduced_eq x y : reduced x -> reduced y -> x == y -> x = y.
Proof. unfold reduced. intros Hx Hy H. rewrite <- Hx, <- Hy. apply Qred_complete. exact H. Qed.

Lemma sorted_perm_eq l : forall l', Forall reduced l -> StronglySorted Qle l -> StronglySorted Qle l' ->
  Permutation l l' -> l = l'.
Proof.
  induction l as [|x r IH]; intros l' Hred H H' Hp.
  - apply Permutation_nil in Hp. auto.
  - destruct l' as [|y r']; [apply Permutation_sym, Permutation_nil in Hp; discriminate|].
    inversion H as [|? ? Hr Hall]; inversion H' as [|? ? Hr' Hall']; subst.
    assert (Hred' : Forall reduced (y :: r')) by (eapply Permutation_Forall; eassumption).
    inversion Hred as [|? ? Hx Hredr]; inversion Hred' as [|? ? Hy Hredr']; subst.
    assert (x = y).
    { assert (Hxin : In x (y :: r')) by (eapply Permutation_in; [exact Hp|now left]).
      assert (Hyin : In y (x :: r)) by (eapply Permutation_in; [symmetry; exact Hp|now left]).
      rewrite Forall_forall in Hall, Hall'.
      destruct Hxin as [->|Hx']; [reflexivity|]. destruct Hyin as [->|Hy']; [reflexivity|].
      apply reduced_eq; try assumption. apply Qle_antisym; [apply Hall; exact Hy'|apply Hall'; exact Hx']. }
    subst y. f_equal. apply IH; try assumption. eapply Permutation_cons_inv. exact Hp.
Qed.

Theorem qsort_perm_invariant l l' : Forall reduced l -> Permutation l l' -> qsort l = qsort l'.
Proof.
  intros Hred Hp. apply sorted_perm_eq; try apply qsort_sorted.
  - eapply Permutation_Forall; [symmetry; apply qsort_perm|exact Hred].
  - rewrite !qsort_perm. exact Hp.
Qed.

Theorem qmedian_perm l l' : Forall reduced l -> Permutation l l' -> qmedian l = qmedian l'.
Proof. intros Hred Hp. unfold qmedian. rewrite (qsort_perm_invariant l l' Hred Hp). reflexivity. Qed.

(* what the median is, in terms of the sorted values *)
Theorem qmedian_spec l : exists s, Permutation s l /\ StronglySorted Qle s /\
  qmedian l = if Nat.even (length l) then (nth (length l / 2 - 1) s 0 + nth (length l / 2) s 0) / 2
              else nth (length l / 2) s 0.
Proof.
  exists (qsort l). split; [apply qsort_perm|]. split; [apply qsort_sorted|].
  unfold qmedian. rewrite qsort_length. reflexivity.
Qed.

Lemma qmedian_single x : qmedian [x] = x.
Proof. reflexivity. Qed.

(* the median lies between the extremes of the list *)
Lemma sorted_nth_le s : StronglySorted Qle s -> forall i j, (i <= j < length s)%nat -> nth i s 0 <= nth j s 0.
Proof.
  induction 1 as [|h t Hs IH Hall]; intros i j Hij; [cbn in Hij; lia|].
  destruct j as [|j]; destruct i as [|i]; cbn [nth]; try lia.
  - apply Qle_refl.
  - rewrite Forall_forall in Hall. apply Hall. apply nth_In. cbn in Hij. lia.
  - apply IH. cbn in Hij. lia.
Qed.

Lemma qmedian_bounds l lo hi : l <> [] -> Forall (fun x => lo <= x /\ x <= hi) l -> lo <= qmedian l /\ qmedian l <= hi.
Proof.
  intros Hne Hall.
  assert (Hs : Forall (fun x => lo <= x /\ x <= hi) (qsort l))
    by (eapply Permutation_Forall; [symmetry; apply qsort_perm|exact Hall]).
  assert (Hlen : (0 < length (qsort l))%nat) by (rewrite qsort_length; destruct l; [congruence|cbn; lia]).
  unfold qmedian. set (s := qsort l) in *. set (n := length s) in *.
  rewrite Forall_forall in Hs.
  assert (Hn2 : (n / 2 < n)%nat) by (apply Nat.div_lt; lia).
  destruct (Nat.even n) eqn:E.
  - assert (Hn1 : (n / 2 - 1 < n)%nat) by lia.
    destruct (Hs (nth (n / 2 - 1) s 0)) as [A1 A2]; [apply nth_In; exact Hn1|].
    destruct (Hs (nth (n / 2) s 0)) as [B1 B2]; [apply nth_In; exact Hn2|].
    set (a := nth (n / 2 - 1) s 0) in *. set (b := nth (n / 2) s 0) in *.
    split.
    + apply Qle_shift_div_l; [reflexivity|]. setoid_replace (lo * 2) with (lo + lo) by ring.
      apply Qplus_le_compat; assumption.
    + apply Qle_shift_div_r; [reflexivity|]. setoid_replace (hi * 2) with (hi + hi) by ring.
      apply Qplus_le_compat; assumption.
  - apply Hs. apply nth_In. exact Hn2.
Qed.

Lemma degenerate_iff l : degenerate l = true <-> l <> [] /\ qmin l == qmax l.
Proof.
  unfold degenerate. destruct l as [|a t].
  - split; [discriminate|intros [H _]; congruence].
  - rewrite Qeq_bool_iff. split; [intros H; split; [discriminate|exact H]|intros [_ H]; exact H].
Qed.
